/-
  C11 — the assembled KKT system is the intended matrix, for every cone layout.
  Property theorems only; helper lemmas live in `ClarabelProofs/Lemmas/Kkt*.lean`.

  Classes: [S] structural (holds for every scalar type, `Float` included),
           [F] exact identity in a field, [R] over `ℝ` (with `Real.sqrt`).
-/
import ClarabelModel.Kkt
import ClarabelProofs.Lemmas.KktPlace
import ClarabelProofs.Lemmas.KktExpansion
import ClarabelProofs.Lemmas.KktRestore
import ClarabelProofs.Lemmas.KktUpdate
import ClarabelProofs.Lemmas.KktUpdateSparse
import ClarabelProofs.Lemmas.KktFillBlock
import ClarabelProofs.Lemmas.KktSpec
import ClarabelProofs.Lemmas.KktCanonical
import ClarabelProofs.Lemmas.KktCanonical0
import ClarabelProofs.Lemmas.KktInertia
import ClarabelProofs.Lemmas.KktInertiaSoc
import ClarabelProofs.Lemmas.KktUpdateAsm
import ClarabelProofs.Lemmas.KktUpdateTotal
import ClarabelProofs.Lemmas.KktSigns
import ClarabelProofs.Lemmas.KktInertiaList
import ClarabelProofs.Lemmas.KktInertiaCones
import ClarabelProofs.Lemmas.KktInertiaGenPowReal
import ClarabelProofs.Lemmas.KktLdlSigns
import ClarabelProofs.Lemmas.KktQdldlSigns
import ClarabelProofs.Lemmas.KktQdldlInput
import ClarabelProofs.Lemmas.KktQdldlExample
import ClarabelProofs.Lemmas.KktScalingFits
import ClarabelProofs.Lemmas.KktGenPowMulHs
import ClarabelProofs.Lemmas.NonsymGenPowScaling
import ClarabelProofs.Lemmas.KktSymOfMain
import ClarabelProofs.Lemmas.KktSymOfExample
import ClarabelProofs.Lemmas.KktPasses
import ClarabelProofs.Lemmas.KktPassesMain
import ClarabelProofs.Lemmas.KktQdldlNoZeroPivot
import ClarabelProofs.Lemmas.KktStaticOnly
import ClarabelProofs.Lemmas.KktSocDenseHs
import ClarabelProofs.Lemmas.KktFormGenPow
import ClarabelProofs.Lemmas.KktRanges

namespace Clarabel.C11
open Clarabel Clarabel.Csc Clarabel.Kkt
open Clarabel.Lemmas.KktPlace
open Clarabel.Lemmas.KktExpansion
open Clarabel.Lemmas.KktFillBlock

-- ====================================================================================
-- signs
-- ====================================================================================

/-- [S] `C11.signs`: `_fill_signs` never panics and `dsigns = (+1)ⁿ (−1)ᵐ` followed by
`[-1,+1]` per second-order-cone expansion and `[-1,-1,+1]` per generalised-power-cone
expansion, in cone order. -/
theorem signs (m n : Nat) (maps : Array SparseMap) :
    fillSigns m n maps = .ok ((List.replicate n (1 : Int) ++ List.replicate m (-1)
      ++ (maps.toList.map SparseMap.dsigns).flatten).toArray) :=
  fillSigns_eq m n maps

/-- the sign block of one expansion has as many entries as the expansion has auxiliary
variables -/
theorem signs_block_length (mp : SparseMap) : mp.dsigns.length = mp.pdim := by
  cases mp <;> rfl

-- ====================================================================================
-- assembly: the fill engine
-- ====================================================================================

section assembly
variable {α : Type}

/-
  `C11.assembly` in full is carried by the theorems of section `assembly_total` below
  (`assembly_total`, `assembly_canonical`, `assembly_check_format`, `assembly_exact`,
  `assembly_dense`, `assembly_maps`, …; round 3).  This section keeps the theorems about the
  *engine* of the assembly on which they are built.  Every `fill_*` utility is, by definition
  of the model (checked against the Rust code function by function on every run), `placeAll`
  over its schedule of `(col,row,value,map slot)`; for ANY schedule run on counters produced by
  `colcount_to_colptr` from column counts that cover the schedule, every entry lands at the
  closed-form slot `colptr₀[col] + #{earlier entries of that column}`, the slots are pairwise
  distinct, each is recorded in its map slot, the counters advance by the column counts and
  nothing else is written.
-/

/-- [S] `C11.assembly_partial`. -/
theorem assembly_partial (K0 : Csc α) (map map' : Array Nat) (K' : Csc α) (sched : List (Entry α))
    (hreg : Regular sched)
    (hcap : ∀ c x, K0.colptr.toList[c]? = some x → cnt c sched ≤ x)
    (h : placeAll (colcountToColptr K0) map sched = .ok (K', map')) :
    -- counters advance by the column counts; sizes are unchanged
    (∀ c, K'.colptr[c]? = ((colcountToColptr K0).colptr[c]?).map (· + cnt c sched)) ∧
    K'.rowval.size = K0.rowval.size ∧ K'.nzval.size = K0.nzval.size ∧ map'.size = map.size ∧
    -- every scheduled entry is stored, at the closed-form destination
    (∀ i e, sched[i]? = some e → ∃ d, destOf (colcountToColptr K0).colptr sched i = some d ∧
        K'.rowval[d]? = some e.row ∧ K'.nzval[d]? = some e.val) ∧
    -- destinations are pairwise distinct
    (∀ i j d, i < j → destOf (colcountToColptr K0).colptr sched i = some d →
        destOf (colcountToColptr K0).colptr sched j ≠ some d) ∧
    -- each destination is recorded in the index map (last writer of a slot wins)
    (∀ i e k, sched[i]? = some e → e.k = some k →
        (∀ j e', i < j → sched[j]? = some e' → e'.k ≠ some k) →
        map'[k]? = destOf (colcountToColptr K0).colptr sched i) ∧
    -- nothing else is touched
    (∀ pos, (∀ i, destOf (colcountToColptr K0).colptr sched i ≠ some pos) →
        K'.rowval[pos]? = K0.rowval[pos]? ∧ K'.nzval[pos]? = K0.nzval[pos]?) ∧
    (∀ k, (∀ e ∈ sched, e.k ≠ some k) → map'[k]? = map[k]?) := by
  have hdis : RangesDisjoint (colcountToColptr K0).colptr sched :=
    rangesDisjoint_cumsum K0.colptr.toList sched hcap
  have S := placeAll_spec sched (colcountToColptr K0, map) (K', map') hreg hdis h
  exact ⟨S.colptr_get, S.rowval_size, S.nzval_size, S.map_size, S.written,
    fun i j d hij hi => destOf_lt_ne _ sched hdis i j d hij hi, S.map_written, S.untouched,
    S.map_untouched⟩

/-- non-vacuity of `assembly_partial`: a two-column count state, three writes. -/
example :
    let K0 : Csc Nat := ⟨2, 2, #[2, 1, 0], #[9, 9, 9], #[9, 9, 9]⟩
    let sched : List (Entry Nat) := [Entry.mk' 0 0 5 0, Entry.mk' 1 1 6 1, Entry.mk' 0 1 7 2]
    (placeAll (colcountToColptr K0) #[0, 0, 0] sched).toOption.map (fun r => (r.1.rowval, r.1.nzval, r.2))
      = some (#[0, 1, 1], #[5, 7, 6], #[0, 2, 1]) := by
  rfl

variable [OfNat α 0]

/-- [S] `fill_diag` instance of the engine: with disjoint free ranges, block entry `i` goes
to the slot the counter of column `offset+i` pointed at; that slot is recorded in
`diagtoKKT[i]` and holds a structural zero in row `offset+i` (i.e. on the diagonal). -/
theorem assembly_fill_diag_partial (K K' : Csc α) (map map' : Array Nat) (off d : Nat)
    (hdis : RangesDisjoint K.colptr (diagSchedule (α := α) off d))
    (h : fillDiag K map off d = .ok (K', map')) (i : Nat) (hi : i < d) :
    ∃ p, K.colptr[off + i]? = some p ∧ map'[i]? = some p ∧
      K'.rowval[p]? = some (off + i) ∧ K'.nzval[p]? = some 0 :=
  fillDiag_spec K K' map map' off d hdis h i hi

/-- every `fill_*` utility is the fill engine run over its schedule (definitional). -/
theorem fill_utilities_are_schedules (K : Csc α) (v : Array Nat) (r c : Nat) (sh : MatrixTriangle) :
    fillColvec K v r c = placeAll K v (colvecSchedule v.size r c) ∧
    fillRowvec K v r c = placeAll K v (rowvecSchedule v.size r c) ∧
    fillDiag K v r c = placeAll K v (diagSchedule r c) ∧
    fillDenseTriangle K v r c sh = placeAll K v (match sh with
      | .triu => denseTriuSchedule r c
      | .tril => denseTrilSchedule r c) :=
  ⟨rfl, rfl, rfl, rfl⟩

/-- [S] `C11.assembly_map_coord` — the `fill_block` coordinate theorem
(`coord(map.P[k]) = coord_P(k)`, `coord(map.A[k])`): for a block `M` with a well-formed
`colptr` (`BlockWF`), filled with free column ranges that do not overlap, stored entry `j`
of column `i` of `M` is recorded at `MtoKKT[j] = d` where `d` lies in the free range of KKT
column `col` (so after `backshift_colptrs` it belongs to that column), holds row `row` and
the value `M.nzval[j]`, with `(row, col) = (M.rowval[j] + initrow, i + initcol)` for shape
`N` (P in triu, A in tril) and `(i + initrow, M.rowval[j] + initcol)` for shape `T`
(A' in triu, P' in tril). -/
theorem assembly_map_coord {α : Type} {M : Csc α} (hwf : BlockWF M) (K K' : Csc α)
    (map map' : Array Nat) (r0 c0 : Nat) (shape : MatrixShape) (sched : List (Entry α))
    (hs : blockSchedule M r0 c0 shape = .ok sched)
    (hdis : RangesDisjoint K.colptr sched)
    (h : fillBlock K M map r0 c0 shape = .ok (K', map'))
    (i j : Nat) (hi : i < M.n) (hlo : M.colptr.getD i 0 ≤ j) (hhi : j < M.colptr.getD (i + 1) 0) :
    ∃ d p, map'[j]? = some d ∧
      K.colptr[(blockCoord shape r0 c0 i (M.rowval.getD j 0)).2]? = some p ∧ p ≤ d ∧
      d < p + cnt (blockCoord shape r0 c0 i (M.rowval.getD j 0)).2 sched ∧
      K'.rowval[d]? = some (blockCoord shape r0 c0 i (M.rowval.getD j 0)).1 ∧
      K'.nzval[d]? = M.nzval[j]? :=
  fillBlock_coord hwf K K' map map' r0 c0 shape sched hs hdis h i j hi hlo hhi

/-- [S] the index map of a block is injective: different stored entries get different
destinations. -/
theorem assembly_map_injective {α : Type} {M : Csc α} (hwf : BlockWF M) (K K' : Csc α)
    (map map' : Array Nat) (r0 c0 : Nat) (shape : MatrixShape) (sched : List (Entry α))
    (hs : blockSchedule M r0 c0 shape = .ok sched)
    (hdis : RangesDisjoint K.colptr sched)
    (h : fillBlock K M map r0 c0 shape = .ok (K', map'))
    (j j' d : Nat) (hj : j < M.rowval.size) (hj' : j' < M.rowval.size) (hne : j ≠ j')
    (hd : map'[j]? = some d) : map'[j']? ≠ some d :=
  fillBlock_dest_ne hwf K K' map map' r0 c0 shape sched hs hdis h j j' d hj hj' hne hd

/-- non-vacuity of `BlockWF`: a 2×2 block with three stored entries. -/
example : BlockWF (⟨2, 2, #[0, 1, 3], #[0, 0, 1], #[4, 1, 2]⟩ : Csc Nat) :=
  ⟨by rfl, by rfl, by intro i hi; match i, hi with
    | 0, _ => decide
    | 1, _ => decide, by rfl, by rfl⟩


end assembly

-- ====================================================================================
-- assembly, end to end (round 3)
-- ====================================================================================

section assembly_total
open Clarabel.Lemmas.KktSorted (Canon IsTriu missingDiag)
open Clarabel.Lemmas.KktSlots (tri)
open Clarabel.Lemmas.KktFillRun (nSparse)
open Clarabel.Lemmas.KktTotal Clarabel.Lemmas.KktFinal Clarabel.Lemmas.KktIntended
open Clarabel.Lemmas.KktSpec

variable {α : Type} [OfNat α 0]

/-
  Vocabulary (definitions in `Lemmas/Kkt{Sorted,Slots,Total,Final,Intended,Spec}.lean`):
  * `KktInputs P A cones`: `P` canonical CSC (`Canon`: `colptr` of length `n+1` from `0` to
    `nnz`, monotone; rows `< m`, strictly increasing per column), upper triangular, square;
    `A` canonical with `A.n = P.n`; `Σ numel(cones) = A.m`;
  * `kktDim A cones = n + m + p`, `p = Σ` auxiliary variables of the sparse expansions
    (2 per second-order cone above the threshold, 3 per generalised power cone);
  * `tri shape r c`: storage coordinates `(row, col)` of the entry with UPPER coordinates
    `(r, c)`, `r ≤ c`: `(r, c)` for `triu`, `(c, r)` for `tril`;
  * `Intended P A cones shape row col v`: the triple is an entry of `P` (upper coords `(r, i)`),
    a structural zero on the diagonal of a `P` column without diagonal, an entry of `Aᵀ` (upper
    coords `(i, n + r)`), or a structural zero of a cone: Hs block (diagonal, or dense triangle),
    expansion vectors (`v,u` / `q,r,p` in the auxiliary columns), expansion diagonal;
  * `SlotIs K o row col v`: `o = some d`, `d` lies in `[colptr[col], colptr[col+1])`,
    `rowval[d] = row`, `nzval[d] = v`.
-/

/-- [S] `C11.assembly_total`: **`assemble_kkt_matrix` never panics and allocates exactly.**
For every canonical upper-triangular `P` (`n×n`), canonical `A` (`m×n`), every cone list with
`Σ numel = m` and either triangle, the model returns `.ok (K, map)` with `K` square of order
`N = n + m + p`, `colptr.len() = N+1`, `colptr[0] = 0`, and
`colptr[N] = rowval.len() = nzval.len() = nnzKKT`, the closed form
`nnz(P) + n − nnz_diag(P) + nnz(A) + Σ|Hs blocks| + Σ nnz_vec + p` used for the allocation
(no allocated slot stays unused, none is missing). -/
theorem assembly_total (P A : Csc α) (cones : List ConeSpec) (shape : MatrixTriangle)
    (hin : KktInputs P A cones) :
    ∃ K map nd, assembleKktMatrix P A cones shape = .ok (K, map) ∧
      P.countDiagonalEntries .triu = .ok nd ∧
      K.m = kktDim A cones ∧ K.n = kktDim A cones ∧ K.colptr.size = kktDim A cones + 1 ∧
      K.colptr[0]? = some 0 ∧ K.colptr[kktDim A cones]? = some (nnzKKT P A cones nd) ∧
      K.rowval.size = nnzKKT P A cones nd ∧ K.nzval.size = nnzKKT P A cones nd := by
  obtain ⟨K, map, sched, Kc, nd, R⟩ := assembleKktMatrix_run P A cones shape hin.P_canon
    hin.P_triu hin.P_square hin.A_canon hin.n_eq hin.m_eq
  have M := R.mat
  exact ⟨K, map, nd, R.ok, R.nd_ok, M.m_eq, M.n_eq, M.colptr_size, M.colptr_zero,
    by rw [← R.len]; exact M.colptr_last, by rw [← R.len]; exact M.rowval_size,
    by rw [← R.len]; exact M.nzval_size⟩

/-- [S] `C11.assembly_canonical`: the returned matrix is in canonical form — `colptr` is
non-decreasing (`colptr[c+1] = colptr[c] + #column c`), in every column the row indices are
strictly increasing and `< N` — and **the diagonal is structurally complete**: every column
contains its diagonal entry, as the LAST entry in the `triu` layout and the FIRST entry in the
`tril` layout (so the matrix is upper resp. lower triangular). -/
theorem assembly_canonical {P A : Csc α} {cones : List ConeSpec} {shape : MatrixTriangle}
    {K : Csc α} {map : LDLDataMap} (hin : KktInputs P A cones)
    (h : assembleKktMatrix P A cones shape = .ok (K, map)) (c : Nat) (hc : c < kktDim A cones) :
    (∃ p q, K.colptr[c]? = some p ∧ K.colptr[c + 1]? = some q ∧ p < q) ∧
    (K.colRows c).Pairwise (· < ·) ∧ (∀ x ∈ K.colRows c, x < kktDim A cones) ∧
      DiagPlace shape (K.colRows c) c := by
  obtain ⟨sched, Kc, nd, R⟩ := asmRun_of_ok hin h
  have hs := R.cols_sorted hin.P_canon hin.P_triu hin.P_square hin.A_canon hin.n_eq hin.m_eq c hc
  refine ⟨?_, hs⟩
  obtain ⟨p, hp, hp1⟩ := R.mat.colptr_succ c hc
  refine ⟨p, _, hp, hp1, ?_⟩
  -- the column is not empty: it contains its diagonal
  have hlen : (K.colRows c).length = Clarabel.Lemmas.KktPlace.cnt c sched := by
    rw [R.mat.colRows_eq c hc]
    unfold Clarabel.Lemmas.KktSorted.colRowsOf Clarabel.Lemmas.KktPlace.cnt
    rw [List.length_map, List.countP_eq_length_filter]
  have hne : K.colRows c ≠ [] := by
    intro h0
    have hd := hs.2.2
    rw [h0] at hd
    cases shape <;> simp [DiagPlace] at hd
  have : 0 < (K.colRows c).length := List.length_pos_iff.mpr hne
  omega

/-- [S] `C11.assembly_check_format`: the returned matrix is a canonical encoding in the strict
sense of property C16 (`Clarabel.C16.Canonical0`: consistent lengths, `colptr[0] = 0`, monotone
`colptr` ending at `nnz`, strictly increasing row indices `< N` in every column), and the model's
`check_format` (which tests `colptr[0] = 0` since /repo 190e6c4) returns `Ok` on it.
(`Canonical0.canon` is the weaker `Canonical` this theorem stated before.) -/
theorem assembly_check_format {P A : Csc α} {cones : List ConeSpec} {shape : MatrixTriangle}
    {K : Csc α} {map : LDLDataMap} (hin : KktInputs P A cones)
    (h : assembleKktMatrix P A cones shape = .ok (K, map)) :
    Clarabel.C16.Canonical0 K ∧ K.checkFormat = .ok () := by
  obtain ⟨sched, Kc, nd, R⟩ := asmRun_of_ok hin h
  have h0 := Clarabel.Lemmas.KktCanonical0.asmRun_canonical0 R hin.P_canon hin.P_triu hin.P_square
    hin.A_canon hin.n_eq hin.m_eq
  exact ⟨h0, (Clarabel.Csc.checkFormat_iff0 K).mpr h0⟩

/-- [S] `C11.assembly_check_format_updated`: the same after `update` (or any other rewrite of
the values, e.g. the `± ε` of `regularize_and_refactor`): the matrix with the pattern of the
assembly and ANY value array of the assembled length still passes `check_format`. -/
theorem assembly_check_format_updated {P A : Csc α} {cones : List ConeSpec}
    {shape : MatrixTriangle} {K : Csc α} {map : LDLDataMap} (hin : KktInputs P A cones)
    (h : assembleKktMatrix P A cones shape = .ok (K, map)) (nz' : Array α)
    (hsz : nz'.size = K.nzval.size) :
    Clarabel.C16.Canonical0 { K with nzval := nz' } ∧
      ({ K with nzval := nz' } : Csc α).checkFormat = .ok () := by
  have h0 := Clarabel.Lemmas.KktCanonical0.canonical0_with_nzval (assembly_check_format hin h).1
    nz' hsz
  exact ⟨h0, (Clarabel.Csc.checkFormat_iff0 _).mpr h0⟩

/-- [S] `C11.assembly_exact`: **the stored entries are exactly the intended ones** — `(row, v)`
is stored in column `col` of `K` iff the triple is an entry of `P`, a filled-in diagonal zero, an
entry of `Aᵀ` (resp. `A` in the `tril` layout), or a structural zero of an Hs block / a sparse
expansion.  Values of `P` and `A` are carried over unchanged; nothing else is stored. -/
theorem assembly_exact {P A : Csc α} {cones : List ConeSpec} {shape : MatrixTriangle}
    {K : Csc α} {map : LDLDataMap} (hin : KktInputs P A cones)
    (h : assembleKktMatrix P A cones shape = .ok (K, map)) (row col : Nat) (v : α)
    (hc : col < kktDim A cones) :
    (row, v) ∈ K.col col ↔ Intended P A cones shape row col v := by
  obtain ⟨sched, Kc, nd, R⟩ := asmRun_of_ok hin h
  exact R.mem_col_iff hin.P_canon hin.A_canon row col hc v

/-- [S] `C11.assembly_dense`: the DENSE meaning (`Csc.toDense`, sum of the stored entries at a
coordinate) of the assembled matrix: the stored value at every intended coordinate (`0 + v`:
one stored entry, no duplicates), and zero everywhere else — i.e. the upper (resp. lower)
triangle of `[P Aᵀ; A 0]` with a full structural diagonal, extended by the (still zero) Hs
blocks and sparse-expansion rows/columns. -/
theorem assembly_dense [Add α] {P A : Csc α} {cones : List ConeSpec} {shape : MatrixTriangle}
    {K : Csc α} {map : LDLDataMap} (hin : KktInputs P A cones)
    (h : assembleKktMatrix P A cones shape = .ok (K, map)) (row col : Nat) :
    (∀ v, Intended P A cones shape row col v → K.toDense row col = 0 + v) ∧
    ((∀ v, ¬ Intended P A cones shape row col v) → K.toDense row col = 0) := by
  obtain ⟨sched, Kc, nd, R⟩ := asmRun_of_ok hin h
  exact ⟨fun v hv => R.toDense_intended hin.P_canon hin.P_triu hin.P_square hin.A_canon hin.n_eq
    hin.m_eq hv, fun hno => R.toDense_other hin.P_canon hin.A_canon hno⟩

/-- [S] `C11.assembly_maps`: **every index map points at the coordinate it is supposed to**
(`MapsOut`): `map.P[j]` / `map.A[j]` at the (transposed/offset) coordinate of entry `j` with its
value; `map.Hsblocks` at the diagonal resp. packed-triangle coordinates of each cone's block;
the SOC `u, v, D` and GenPow `p, q, r, D` vectors of the `i`-th sparse cone at its auxiliary
columns/rows; `map.diag_full[c]` at `(c, c)` for every column; `map.diagP = diag_full[..n]`. -/
theorem assembly_maps {P A : Csc α} {cones : List ConeSpec} {shape : MatrixTriangle}
    {K : Csc α} {map : LDLDataMap} (hin : KktInputs P A cones)
    (h : assembleKktMatrix P A cones shape = .ok (K, map)) : MapsOut P A cones shape K map := by
  obtain ⟨sched, Kc, nd, R⟩ := asmRun_of_ok hin h
  exact R.maps hin.P_canon hin.P_triu hin.P_square hin.A_canon hin.n_eq hin.m_eq

/-- [S] `C11.assembly_signs`: the sign vector `dsigns` that `_fill_signs` records for the maps
returned by the assembly, COLUMN BY COLUMN of the assembled matrix: `+1` on the `n` primal
columns, `−1` on the `m` cone columns, and on the auxiliary columns `pcol + j` that the assembly
gave to each sparse cone: `[-1, +1]` (second-order cone: `v` column, `u` column), `[-1, -1, +1]`
(generalised power cone: `q`, `r`, `p` columns); its length is the order of `K`. -/
theorem assembly_signs {P A : Csc α} {cones : List ConeSpec} {shape : MatrixTriangle}
    {K : Csc α} {map : LDLDataMap} (hin : KktInputs P A cones)
    (h : assembleKktMatrix P A cones shape = .ok (K, map)) :
    ∃ ds, fillSigns A.m A.n map.sparse_maps = .ok ds ∧ ds.size = K.n ∧
      (∀ c, c < A.n → ds[c]? = some 1) ∧
      (∀ c, A.n ≤ c → c < A.n + A.m → ds[c]? = some (-1)) ∧
      (∀ pre cn post j, cones = pre ++ cn :: post → j < Clarabel.Kkt.conePdim cn →
        ds[A.n + A.m + (pre.map Clarabel.Kkt.conePdim).sum + j]?
          = (Clarabel.Lemmas.KktSigns.coneDsigns cn)[j]?) := by
  obtain ⟨sched, Kc, nd, R⟩ := asmRun_of_ok hin h
  obtain ⟨ds, h1, h2, h3, h4, h5⟩ := R.signs_at
  exact ⟨ds, h1, by rw [h2, R.mat.n_eq], h3, h4, h5⟩

/-- [S] `C11.assembly_map_sizes`: the index vectors keep their allocated lengths: one slot per
stored entry of `P` and of `A`, `Σ|Hs blocks|` slots, one expansion map per sparse-expandable cone. -/
theorem assembly_map_sizes {P A : Csc α} {cones : List ConeSpec} {shape : MatrixTriangle}
    {K : Csc α} {map : LDLDataMap} (hin : KktInputs P A cones)
    (h : assembleKktMatrix P A cones shape = .ok (K, map)) :
    map.P.size = P.nnz ∧ map.A.size = A.nnz ∧ map.Hsblocks.size = hsblocksLen cones ∧
      map.sparse_maps.size = (cones.filterMap expansionMap).length := by
  obtain ⟨sched, Kc, nd, R⟩ := asmRun_of_ok hin h
  exact R.sizes

/-- [S] `C11.assembly_map_coord_P` (`coord(map.P[j]) = coord_P(j)`, spelled out for `triu`):
stored entry `j` of column `i` of `P` (row `r`, value `v`) sits at `d = map.P[j]`, inside
column `i` of `K`, with `rowval[d] = r` and `nzval[d] = v`. -/
theorem assembly_map_coord_P {P A : Csc α} {cones : List ConeSpec}
    {K : Csc α} {map : LDLDataMap} (hin : KktInputs P A cones)
    (h : assembleKktMatrix P A cones .triu = .ok (K, map)) (i j r : Nat) (v : α) (hi : i < P.n)
    (hlo : P.colptr.getD i 0 ≤ j) (hhi : j < P.colptr.getD (i + 1) 0)
    (hr : P.rowval[j]? = some r) (hv : P.nzval[j]? = some v) :
    ∃ d p q, map.P[j]? = some d ∧ K.colptr[i]? = some p ∧ K.colptr[i + 1]? = some q ∧
      p ≤ d ∧ d < q ∧ K.rowval[d]? = some r ∧ K.nzval[d]? = some v := by
  obtain ⟨d, hd, p, q, h1, h2, h3, h4, h5, h6⟩ :=
    (assembly_maps hin h).P_map i j r v hi hlo hhi hr hv
  exact ⟨d, p, q, hd, h1, h2, h3, h4, h5, h6⟩

/-- [S] `C11.assembly_map_coord_A` (spelled out for `triu`): stored entry `j` of column `i` of
`A` (row `r`, value `v`) sits at `d = map.A[j]`, inside column `n + r` of `K` (the transposed,
offset coordinate), with `rowval[d] = i` and `nzval[d] = v`. -/
theorem assembly_map_coord_A {P A : Csc α} {cones : List ConeSpec}
    {K : Csc α} {map : LDLDataMap} (hin : KktInputs P A cones)
    (h : assembleKktMatrix P A cones .triu = .ok (K, map)) (i j r : Nat) (v : α) (hi : i < A.n)
    (hlo : A.colptr.getD i 0 ≤ j) (hhi : j < A.colptr.getD (i + 1) 0)
    (hr : A.rowval[j]? = some r) (hv : A.nzval[j]? = some v) :
    ∃ d p q, map.A[j]? = some d ∧ K.colptr[r + A.n]? = some p ∧ K.colptr[r + A.n + 1]? = some q ∧
      p ≤ d ∧ d < q ∧ K.rowval[d]? = some i ∧ K.nzval[d]? = some v := by
  obtain ⟨d, hd, p, q, h1, h2, h3, h4, h5, h6⟩ :=
    (assembly_maps hin h).A_map i j r v hi hlo hhi hr hv
  exact ⟨d, p, q, hd, h1, h2, h3, h4, h5, h6⟩

/-- [S] `C11.assembly_diag_full`: `diag_full[c]` is, for EVERY column `c < N`, a position inside
column `c` whose row index is `c` (the diagonal is structurally present and indexed). -/
theorem assembly_diag_full {P A : Csc α} {cones : List ConeSpec} {shape : MatrixTriangle}
    {K : Csc α} {map : LDLDataMap} (hin : KktInputs P A cones)
    (h : assembleKktMatrix P A cones shape = .ok (K, map)) (c : Nat) (hc : c < kktDim A cones) :
    ∃ d p q, map.diag_full[c]? = some d ∧ K.colptr[c]? = some p ∧ K.colptr[c + 1]? = some q ∧
      p ≤ d ∧ d < q ∧ K.rowval[d]? = some c := by
  obtain ⟨v, d, hd, p, q, h1, h2, h3, h4, h5, _⟩ := (assembly_maps hin h).diag_full.2 c hc
  exact ⟨d, p, q, hd, h1, h2, h3, h4, h5⟩

/-- non-vacuity of `KktInputs` (hence of all theorems of this section, `assembly_total`
providing the `.ok` hypothesis): `P = [[4,1],[·,·]]` (no diagonal in column 1), `A` 6×2 with two
entries, cones `[nonneg 1, soc 5]` (one sparse expansion). -/
example : ∃ (P A : Csc Int) (cones : List ConeSpec), KktInputs P A cones ∧
    ∃ K map, assembleKktMatrix P A cones .triu = .ok (K, map) := by
  let P : Csc Int := ⟨2, 2, #[0, 1, 2], #[0, 0], #[4, 1]⟩
  let A : Csc Int := ⟨6, 2, #[0, 1, 2], #[0, 3], #[7, -2]⟩
  have hin : KktInputs P A [.nonneg 1, .soc 5] := by
    refine ⟨⟨rfl, rfl, ?_, rfl, rfl, ?_, ?_⟩, ?_, rfl, ⟨rfl, rfl, ?_, rfl, rfl, ?_, ?_⟩, rfl, rfl⟩
    · intro i hi; match i, hi with
      | 0, _ => decide
      | 1, _ => decide
    · intro j hj; match j, hj with
      | 0, _ => decide
      | 1, _ => decide
    · intro i hi j h1 h2; match i, hi with
      | 0, _ => exact absurd h2 (by show ¬ j + 1 < 1; omega)
      | 1, _ => exact absurd (show 1 ≤ j from h1) (by have : j + 1 < 2 := h2; omega)
    · intro i hi j h1 h2; match i, hi with
      | 0, _ => have : j = 0 := by have : j < 1 := h2; omega
                subst this; decide
      | 1, _ => have : j = 1 := by have h3 : 1 ≤ j := h1; have h4 : j < 2 := h2; omega
                subst this; decide
    · intro i hi; match i, hi with
      | 0, _ => decide
      | 1, _ => decide
    · intro j hj; match j, hj with
      | 0, _ => decide
      | 1, _ => decide
    · intro i hi j h1 h2; match i, hi with
      | 0, _ => exact absurd h2 (by show ¬ j + 1 < 1; omega)
      | 1, _ => exact absurd (show 1 ≤ j from h1) (by have : j + 1 < 2 := h2; omega)
  obtain ⟨K, map, _, h, _⟩ := assembly_total P A [.nonneg 1, .soc 5] .triu hin
  exact ⟨P, A, _, hin, K, map, h⟩

end assembly_total

-- ====================================================================================
-- inertia: the recorded signs are the pivot signs, in any elimination order (round 3)
-- ====================================================================================

section inertia
open Clarabel.Lemmas.KktInertia

variable {ι : Type} [Fintype ι] [DecidableEq ι]
  {α : Type} [Field α] [LinearOrder α] [IsStrictOrderedRing α]

/-
  Dense model of symmetric elimination (`Lemmas/KktInertia.lean`): `elim K p` is the Schur
  complement w.r.t. the diagonal pivot `p`; `pivots K order` the list of pivots met when
  eliminating `order` (the diagonal `D` of `LDLᵀ` for that permutation); `QuasiDef K s S`:
  `K` symmetric, positive definite on vectors supported on the `+` indices of `S`, negative
  definite on vectors supported on the `−` indices of `S` (`s : ι → Bool` is the sign pattern).
  NOT covered: that QDLDL's sparse `LDLᵀ` computes these pivots (C12 owns QDLDL); the `QuasiDef`
  hypothesis is discharged for cone lists without expansions (`inertia_dsigns`) and for ONE
  second-order-cone expansion (`inertia_soc_expansion`), not for generalised power cones nor for
  several expansions at once (there only the general-pattern `inertia_any_order` applies).
-/

/-- [F] `C11.inertia_step` (Vanderbei's step): a symmetric quasidefinite matrix has, at ANY
active index, a diagonal entry of the recorded sign (in particular a nonzero pivot), and the
Schur complement w.r.t. that pivot is again quasidefinite with the same sign pattern on the
remaining indices. -/
theorem inertia_step {K : ι → ι → α} {s : ι → Bool} {S : Finset ι} {p : ι}
    (h : QuasiDef K s S) (hp : p ∈ S) :
    (if s p then 0 < K p p else K p p < 0) ∧
      QuasiDef (Clarabel.Lemmas.KktInertia.elim K p) s (S.erase p) :=
  ⟨h.pivot_sign hp, h.elim hp⟩

/-- [F] `C11.inertia_any_order`: for EVERY elimination order (distinct active indices) of a
quasidefinite matrix with sign pattern `s`, the `k`-th pivot has the sign `s order[k]`; no pivot
vanishes, so `LDLᵀ` exists without pivoting for every symmetric permutation. -/
theorem inertia_any_order {K : ι → ι → α} {s : ι → Bool} {S : Finset ι} (order : List ι)
    (h : QuasiDef K s S) (hnd : order.Nodup) (hS : ∀ p ∈ order, p ∈ S)
    (k : Nat) (hk : k < order.length) :
    (if s order[k] then 0 < (pivots K order)[k]'(by rw [length_pivots]; exact hk)
     else (pivots K order)[k]'(by rw [length_pivots]; exact hk) < 0) ∧
    ∀ d ∈ pivots K order, d ≠ 0 :=
  ⟨pivots_have_signs order h hnd hS k hk, pivots_ne_zero order h hnd hS⟩

/-- non-vacuity of `QuasiDef` with a sign pattern that is not two-block (`+,−,+`, an auxiliary
`+` variable after the `−` block, as for a second-order-cone expansion). -/
example : QuasiDef exK3 exS3 Finset.univ := exK3_quasiDef

/-- [F] `C11.inertia_dsigns` (cone lists without sparse expansions): for
`K = [[P+εI, Aᵀ],[A, −(H+εI)]]` with `P, H` symmetric positive semidefinite, `ε > 0`, and ANY
elimination order, the pivot met at KKT index `j` (`j = i` for a primal index, `j = n + i` for a
dual index) is positive where `dsigns[j] = +1` and negative where `dsigns[j] = −1`, `dsigns`
being what `_fill_signs` records. -/
theorem inertia_dsigns {n m : Nat} {P : Fin n → Fin n → α} (A : Fin m → Fin n → α)
    {H : Fin m → Fin m → α} {ε : α} (hP : PosSemidef P) (hH : PosSemidef H) (hε : 0 < ε)
    (order : List (Fin n ⊕ Fin m)) (hnd : order.Nodup) (k : Nat) (hk : k < order.length) :
    ∃ dsigns, fillSigns m n #[] = .ok dsigns ∧
      ((dsigns[Sum.elim (fun i : Fin n => i.val) (fun i : Fin m => n + i.val) order[k]]? = some 1 ∧
          0 < (pivots (kkt P A H ε) order)[k]'(by rw [length_pivots]; exact hk)) ∨
       (dsigns[Sum.elim (fun i : Fin n => i.val) (fun i : Fin m => n + i.val) order[k]]? = some (-1) ∧
          (pivots (kkt P A H ε) order)[k]'(by rw [length_pivots]; exact hk) < 0)) := by
  refine ⟨_, signs m n #[], ?_⟩
  have hs := kkt_pivot_signs A hP hH hε order hnd k hk
  cases ho : order[k] with
  | inl i =>
    rw [ho] at hs
    left
    refine ⟨?_, by simpa using hs⟩
    simp only [Sum.elim_inl]
    have hi := i.isLt
    simp [List.getElem?_append, hi]
  | inr i =>
    rw [ho] at hs
    right
    refine ⟨?_, by simpa using hs⟩
    simp only [Sum.elim_inr]
    have hi := i.isLt
    simp [hi]

/-- [F] `C11.inertia_soc_expansion`: the regularised KKT matrix WITH the sparse expansion of a
second-order cone (`socKkt`: primal block `P + εI`, cone rows `−(η²D + εI)`, the two auxiliary
columns `−η²v`, `−η²u`, auxiliary diagonal `−η² − ε`, `η² + ε`; `u, v, d` satisfying the
defining equations `SocSparse` of `update_scaling`) is quasidefinite for the sign pattern
`+ (primal), − (cone rows), − (v-aux), + (u-aux)` — exactly what `_fill_signs` records
(`[-1, +1]` on the two auxiliary columns, `assembly_signs`) — hence for ANY elimination order the
`n`-th `LDLᵀ` pivot has that sign, and no pivot vanishes.  (Needs `D − vv' ⪰ 0`, a consequence of
`SocSparse` in an ordered field, `KktInertiaSoc.soc_D_sub_vv_nonneg`.) -/
theorem inertia_soc_expansion {ι₁ : Type} [Fintype ι₁] [DecidableEq ι₁] {k : ℕ}
    {P : ι₁ → ι₁ → α} (A : Fin (k + 1) → ι₁ → α) {η ε : α}
    {w0 : α} {w1 : Fin k → α} {d u0 u1 v1 : α}
    (hP : PosSemidef P) (hε : 0 < ε) (hη : η ≠ 0)
    (h : Clarabel.Lemmas.KktExpansion.SocSparse w0 w1 d u0 u1 v1)
    (order : List (ι₁ ⊕ (Fin (k + 1) ⊕ Fin 2))) (hnd : order.Nodup)
    (n : Nat) (hn : n < order.length) :
    QuasiDef (Clarabel.Lemmas.KktInertiaSoc.socKkt P A η ε d u0 u1 v1 w1)
      Clarabel.Lemmas.KktInertiaSoc.socSigns Finset.univ ∧
    (if Clarabel.Lemmas.KktInertiaSoc.socSigns order[n] then
      0 < (pivots (Clarabel.Lemmas.KktInertiaSoc.socKkt P A η ε d u0 u1 v1 w1) order)[n]'(by
        rw [length_pivots]; exact hn)
    else
      (pivots (Clarabel.Lemmas.KktInertiaSoc.socKkt P A η ε d u0 u1 v1 w1) order)[n]'(by
        rw [length_pivots]; exact hn) < 0) ∧
    ∀ piv ∈ pivots (Clarabel.Lemmas.KktInertiaSoc.socKkt P A η ε d u0 u1 v1 w1) order, piv ≠ 0 :=
  ⟨Clarabel.Lemmas.KktInertiaSoc.quasiDef_socKkt A hP hε hη h,
   Clarabel.Lemmas.KktInertiaSoc.socKkt_pivot_signs A hP hε hη h order hnd n hn,
   Clarabel.Lemmas.KktInertiaSoc.socKkt_pivots_ne_zero A hP hε hη h order hnd⟩

/-- non-vacuity of `inertia_soc_expansion` (over ℝ): `P = [1]`, `w = (5/4, 3/4)`, `η = 2`,
`ε = 1/10`. -/
example : ∃ d u0 u1 v1 : ℝ, PosSemidef (fun (_ _ : Fin 1) => (1 : ℝ)) ∧ (0 : ℝ) < 1 / 10 ∧
    (2 : ℝ) ≠ 0 ∧
    Clarabel.Lemmas.KktExpansion.SocSparse (n := 1) (5 / 4 : ℝ) (fun _ => 3 / 4) d u0 u1 v1 :=
  ⟨_, _, _, _, Clarabel.Lemmas.KktInertiaSoc.exP_psd_real, by norm_num, by norm_num,
    Clarabel.Lemmas.KktExpansion.soc_sparse_real _ _ (by
      simp [Clarabel.Lemmas.KktExpansion.dot]; norm_num)⟩

/-- non-vacuity: `P = [1]`, `H = [2]` are positive semidefinite (over ℚ). -/
example : PosSemidef (fun (_ _ : Fin 1) => (1 : ℚ)) ∧ PosSemidef (fun (_ _ : Fin 1) => (2 : ℚ)) :=
  ⟨exP_psd, exH_psd⟩

end inertia

-- ====================================================================================
-- sparse expansions
-- ====================================================================================

section expansion
variable {α : Type} [Field α] {n : ℕ}

/-- [F] `C11.soc_expansion` (rank-two form): with `u, v, d` as `update_scaling` defines them
(in square-root-free form, `SocSparse`), `D + uu' − vv' = 2ww' − J` entry by entry, hence
`η²(D + uu' − vv') = η²(2ww' − J)`. -/
theorem soc_expansion_rank2 (h2 : (2 : α) ≠ 0) {w0 : α} {w1 : Fin n → α} {d u0 u1 v1 : α}
    (h : SocSparse w0 w1 d u0 u1 v1) (η : α) (i j : Fin (n + 1)) :
    η * η * ((if i = j then socD d i else 0) + socU u0 u1 w1 i * socU u0 u1 w1 j
        - socV v1 w1 i * socV v1 w1 j)
      = η * η * (2 * socW w0 w1 i * socW w0 w1 j - (if i = j then socJ i else 0)) := by
  rw [soc_rank2_identity h2 h i j]

/-- [F] `C11.soc_expansion` (Schur complement, entrywise): eliminating the two auxiliary
rows/columns of `[−η²D, −η²v, −η²u; ·, −η², 0; ·, 0, η²]` gives `−η²(2ww' − J)`. -/
theorem soc_expansion_schur (h2 : (2 : α) ≠ 0) {w0 : α} {w1 : Fin n → α} {d u0 u1 v1 η : α}
    (h : SocSparse w0 w1 d u0 u1 v1) (hη : η ≠ 0) (i j : Fin (n + 1)) :
    -(η * η) * (if i = j then socD d i else 0)
      - ((-(η * η) * socV v1 w1 i) * (-(η * η))⁻¹ * (-(η * η) * socV v1 w1 j)
        + (-(η * η) * socU u0 u1 w1 i) * (η * η)⁻¹ * (-(η * η) * socU u0 u1 w1 j))
    = -(η * η * (2 * socW w0 w1 i * socW w0 w1 j - (if i = j then socJ i else 0))) :=
  soc_schur_entry h2 h hη i j

/-- [F] `C11.soc_expansion` (as a linear solve): if `(x, a, b)` satisfies the three block
rows of the expanded system, then the cone rows say `r = −H x` with `H x` exactly what
`mul_Hs` computes (`socMulHs`). -/
theorem soc_expansion (h2 : (2 : α) ≠ 0) {w0 : α} {w1 : Fin n → α} {d u0 u1 v1 η : α}
    (h : SocSparse w0 w1 d u0 u1 v1) (hη : η ≠ 0) (x r : Fin (n + 1) → α) (a b : α)
    (hrow : ∀ i, -(η * η) * socD d i * x i + (-(η * η) * socV v1 w1 i) * a
      + (-(η * η) * socU u0 u1 w1 i) * b = r i)
    (hv : (-(η * η)) * dot (socV v1 w1) x + (-(η * η)) * a = 0)
    (hu : (-(η * η)) * dot (socU u0 u1 w1) x + (η * η) * b = 0) :
    ∀ i, r i = -(socMulHs η (socW w0 w1) x i) :=
  soc_schur_solve h2 h hη x r a b hrow hv hu

/-- non-vacuity: for every `x` the expanded system has a solution. -/
example {w1 : Fin n → α} {d u0 u1 v1 η : α} (x : Fin (n + 1) → α) :
    ∃ (a b : α) (r : Fin (n + 1) → α),
      (∀ i, -(η * η) * socD d i * x i + (-(η * η) * socV v1 w1 i) * a
        + (-(η * η) * socU u0 u1 w1 i) * b = r i) ∧
      (-(η * η)) * dot (socV v1 w1) x + (-(η * η)) * a = 0 ∧
      (-(η * η)) * dot (socU u0 u1 w1) x + (η * η) * b = 0 :=
  ⟨-dot (socV v1 w1) x, dot (socU u0 u1 w1) x, _, fun _ => rfl, by ring, by ring⟩

/-- [F] identity-scaling case (`set_identity_scaling`: `w = e₀, η = 1, d = ½, u = (1/√2)e₀,
v = 0`): `D + uu' − vv' = 2ww' − J = I`. -/
theorem soc_expansion_identity_scaling (h2 : (2 : α) ≠ 0) {s : α} (hs : s * s = 1 / 2)
    (i j : Fin (n + 1)) :
    (if i = j then socD (1 / 2 : α) i else 0)
      + (Fin.cons s (fun _ => 0) : Fin (n + 1) → α) i * (Fin.cons s (fun _ => 0) : Fin (n + 1) → α) j
      - (Fin.cons 0 (fun _ => 0) : Fin (n + 1) → α) i * (Fin.cons 0 (fun _ => 0) : Fin (n + 1) → α) j
    = 2 * socW (1 : α) (fun _ => 0) i * socW (1 : α) (fun _ => 0) j - (if i = j then socJ i else 0) :=
  soc_identity_scaling h2 hs i j

/-- [R] the square-root formulas of `update_scaling` (`u0 = √(wsq − d)`, `u1 = 2w0/u0`,
`v1 = √(2(2 + wsq⁻¹)/(2wsq − wsq⁻¹))`, `d = ½ wsq⁻¹`) satisfy `SocSparse` for every
normalised real `w` (`w0² − ‖w1‖² = 1`), so the three theorems above apply to exactly the
numbers the code computes (up to rounding). -/
theorem soc_expansion_real (w0 : ℝ) (w1 : Fin n → ℝ) (unit : w0 * w0 - dot w1 w1 = 1) :
    SocSparse w0 w1
      ((1 / 2) * (w0 * w0 + dot w1 w1)⁻¹)
      (Real.sqrt ((w0 * w0 + dot w1 w1) - (1 / 2) * (w0 * w0 + dot w1 w1)⁻¹))
      (2 * w0 / Real.sqrt ((w0 * w0 + dot w1 w1) - (1 / 2) * (w0 * w0 + dot w1 w1)⁻¹))
      (Real.sqrt (2 * (2 + (w0 * w0 + dot w1 w1)⁻¹)
        / (2 * (w0 * w0 + dot w1 w1) - (w0 * w0 + dot w1 w1)⁻¹))) :=
  soc_sparse_real w0 w1 unit

/-- non-vacuity of `SocSparse`: `w = (5/4, 3/4)`. -/
example : ∃ (d u0 u1 v1 : ℝ), SocSparse (n := 1) (5 / 4 : ℝ) (fun _ => 3 / 4) d u0 u1 v1 :=
  ⟨_, _, _, _, soc_sparse_real _ _ (by simp [dot]; norm_num)⟩

/-- [F] `C11.genpow_expansion` (entrywise): the Schur complement of the three auxiliary
rows/columns of `[−μD, −√μ q, −√μ r, −√μ p; ·, −1, 0, 0; ·, 0, −1, 0; ·, 0, 0, 1]` is
`−μ(D + pp' − qq' − rr')` (the `√μ` is distributed to the off-diagonal columns). -/
theorem genpow_expansion_schur {m : ℕ} {μ sm : α} (hsm : sm * sm = μ) (D p q r : Fin m → α)
    (i j : Fin m) :
    -(μ * (if i = j then D i else 0))
      - ((-sm * q i) * (-1 : α)⁻¹ * (-sm * q j) + (-sm * r i) * (-1 : α)⁻¹ * (-sm * r j)
        + (-sm * p i) * (1 : α)⁻¹ * (-sm * p j))
    = -(μ * ((if i = j then D i else 0) + p i * p j - q i * q j - r i * r j)) :=
  genpow_schur_entry hsm D p q r i j

/-- [F] `C11.genpow_expansion` (as a linear solve): eliminating the three auxiliary variables
leaves `rhs = −H x` with `H x` what `mul_Hs` computes (`genpowMulHs`). -/
theorem genpow_expansion {m : ℕ} {μ sm : α} (hsm : sm * sm = μ) (D p q r x rhs : Fin m → α)
    (a b c : α)
    (hrow : ∀ i, -(μ * D i) * x i + (-sm * q i) * a + (-sm * r i) * b + (-sm * p i) * c = rhs i)
    (hq : (-sm) * dot q x + (-1) * a = 0) (hr : (-sm) * dot r x + (-1) * b = 0)
    (hp : (-sm) * dot p x + 1 * c = 0) :
    ∀ i, rhs i = -(genpowMulHs μ D p q r x i) :=
  genpow_schur_solve hsm D p q r x rhs a b c hrow hq hr hp

/-- non-vacuity of `genpow_expansion` (over ℚ, `μ = 4`, `√μ = 2`). -/
example (D p q r x : Fin 3 → ℚ) :
    ∃ (a b c : ℚ) (rhs : Fin 3 → ℚ), (2 : ℚ) * 2 = 4 ∧
      (∀ i, -(4 * D i) * x i + (-2 * q i) * a + (-2 * r i) * b + (-2 * p i) * c = rhs i) ∧
      (-2) * dot q x + (-1) * a = 0 ∧ (-2) * dot r x + (-1) * b = 0 ∧
      (-2) * dot p x + 1 * c = 0 :=
  ⟨-2 * dot q x, -2 * dot r x, 2 * dot p x, _, by norm_num, fun _ => rfl,
    by ring, by ring, by ring⟩

end expansion

-- ====================================================================================
-- update writes −H
-- ====================================================================================

section update
variable {α : Type} [Add α] [Sub α] [Mul α] [Div α] [Neg α] [OfNat α 0] [OfNat α 1]
  [LT α] [DecidableLT α] [FloatLike α]

set_option linter.unusedSectionVars false

/-- [S] `C11.update_writes_H` restricted to cone lists without sparse expansions (kept: its
hypotheses are weaker than those of the general theorem below). -/
theorem update_writes_H_nonsparse (nz nz' : Array α) (map : LDLDataMap) (cones : List (ConeScaling α))
    (hns : ∀ c ∈ cones, c.isSparse = false)
    (hnd : map.Hsblocks.toList.Nodup)
    (h : updateValues nz map cones = .ok nz') :
    ∃ blocks, cones.mapM getHs = .ok blocks ∧
      nz'.size = nz.size ∧
      (∀ j, j ∉ map.Hsblocks.toList → nz'[j]? = nz[j]?) ∧
      (∀ k (hk : k < map.Hsblocks.size)
         (_ : map.Hsblocks.size ≤ ((blocks.map Array.toList).flatten).length)
         (hk2 : k < ((blocks.map Array.toList).flatten).length),
        nz'[map.Hsblocks[k]]? = some (-((blocks.map Array.toList).flatten)[k])) :=
  updateValues_nonsparse nz nz' map cones hns hnd h

/-- non-vacuity: one dense (exponential-cone like) block `[h]` at position 0; every
hypothesis of the theorem holds and the written value is `−h`. -/
example (x h : α) :
    updateValues #[x] (LDLDataMap.mk #[] #[] #[0] #[] #[] #[]) [ConeScaling.dense #[h]]
      = .ok #[-h] := by
  simp [updateValues, getHs, updateValuesKKT, ConeScaling.isSparse, setE, pure, Except.pure,
    bind, Except.bind]

/-- [S] `C11.update_writes_H`: for EVERY cone list (sparse expansions included), provided
the index vectors are what the assembly produces (Hs positions distinct and not shared with
an expansion), after `update` the positions `map.Hsblocks` hold `−get_Hs` entry for entry and
every position outside `map.Hsblocks` and outside the expansion index vectors is unchanged
(in particular the `P`, `A` entries and the filled-in diagonal). -/
theorem update_writes_H (nz nz' : Array α) (map : LDLDataMap) (cones : List (ConeScaling α))
    (hnd : map.Hsblocks.toList.Nodup)
    (hdisj : ∀ mp ∈ map.sparse_maps.toList, ∀ j ∈ mp.indices, j ∉ map.Hsblocks.toList)
    (h : updateValues nz map cones = .ok nz') :
    ∃ blocks, cones.mapM getHs = .ok blocks ∧
      nz'.size = nz.size ∧
      (∀ j, j ∉ map.Hsblocks.toList → (∀ mp ∈ map.sparse_maps.toList, j ∉ mp.indices) →
        nz'[j]? = nz[j]?) ∧
      (∀ k (hk : k < map.Hsblocks.size)
         (_ : map.Hsblocks.size ≤ ((blocks.map Array.toList).flatten).length)
         (hk2 : k < ((blocks.map Array.toList).flatten).length),
        nz'[map.Hsblocks[k]]? = some (-((blocks.map Array.toList).flatten)[k])) :=
  updateValues_frame_and_Hs nz nz' map cones hnd hdisj h

/-- [S] `csc_update_sparsecone` only touches its own index vectors. -/
theorem update_sparsecone_frame {nz nz' : Array α} {mp : SparseMap} {c : ConeScaling α}
    (h : updateSparsecone nz mp c = .ok nz') :
    nz'.size = nz.size ∧ ∀ j, j ∉ mp.indices → nz'[j]? = nz[j]? :=
  updateSparsecone_frame h

/-- [S] the second-order-cone expansion entries after the whole `update`: the `i`-th sparse
cone's `u`, `v` positions hold `u·(−η²)`, `v·(−η²)` and its two diagonal positions `−η²`, `η²`
(index vectors of different expansions pairwise disjoint, this one without repetition). -/
theorem update_writes_soc_expansion (nz nz' : Array α) (map : LDLDataMap)
    (cones : List (ConeScaling α)) (hdisj : SparseMapsDisjoint map.sparse_maps)
    (h : updateValues nz map cones = .ok nz')
    {i dim : Nat} {η d : α} {u v : Array α} {mu mv mD : Array Nat}
    (hc : (cones.filter (fun c => c.isSparse))[i]? = some (.socSparse dim η u v d))
    (hm : map.sparse_maps[i]? = some (.soc mu mv mD))
    (hndm : (SparseMap.soc mu mv mD).indices.Nodup)
    (hu : mu.size = u.size) (hv : mv.size = v.size) (hD : mD.size = 2) :
    (∀ k (hk : k < mu.size), nz'[mu[k]]? = some (u[k]'(by omega) * -(η * η))) ∧
    (∀ k (hk : k < mv.size), nz'[mv[k]]? = some (v[k]'(by omega) * -(η * η))) ∧
    nz'[mD[0]'(by omega)]? = some (-(η * η)) ∧
    nz'[mD[1]'(by omega)]? = some (η * η) :=
  updateValues_sparse_entries_soc nz nz' map cones hdisj h hc hm hndm hu hv hD

/-- [S] the generalised-power-cone expansion entries after the whole `update`:
`q,r,p·(−√μ)` and the diagonal `−1, −1, +1`. -/
theorem update_writes_genpow_expansion (nz nz' : Array α) (map : LDLDataMap)
    (cones : List (ConeScaling α)) (hdisj : SparseMapsDisjoint map.sparse_maps)
    (h : updateValues nz map cones = .ok nz')
    {i : Nat} {μ d2 : α} {p q r d1 : Array α} {mp mq mr mD : Array Nat}
    (hc : (cones.filter (fun c => c.isSparse))[i]? = some (.genpow μ p q r d1 d2))
    (hm : map.sparse_maps[i]? = some (.genpow mp mq mr mD))
    (hndm : (SparseMap.genpow mp mq mr mD).indices.Nodup)
    (hp : mp.size = p.size) (hq : mq.size = q.size) (hr : mr.size = r.size) (hD : mD.size = 3) :
    (∀ k (hk : k < mq.size), nz'[mq[k]]? = some (q[k]'(by omega) * -(sqrt μ))) ∧
    (∀ k (hk : k < mr.size), nz'[mr[k]]? = some (r[k]'(by omega) * -(sqrt μ))) ∧
    (∀ k (hk : k < mp.size), nz'[mp[k]]? = some (p[k]'(by omega) * -(sqrt μ))) ∧
    nz'[mD[0]'(by omega)]? = some (-1) ∧ nz'[mD[1]'(by omega)]? = some (-1) ∧
    nz'[mD[2]'(by omega)]? = some 1 :=
  updateValues_sparse_entries_genpow nz nz' map cones hdisj h hc hm hndm hp hq hr hD

end update

-- ====================================================================================
-- update writes a block whose Schur complement is −mul_Hs (round 3)
-- ====================================================================================

section update_schur
open Clarabel.Lemmas.KktUpdateSchur Clarabel.Lemmas.KktUpdateAsm
open Clarabel.Lemmas.KktSpec
open Clarabel.Lemmas.KktFillRun (nSparse)

/-- [S] `C11.assembly_maps_distinct`: the index vectors produced by `assemble_kkt_matrix` never
share a position: `map.Hsblocks` has no repetition, no expansion index vector meets it,
different expansion maps are disjoint, no expansion map repeats a position.  (These are the
side conditions of all theorems about `update`; they hold for the solver's own maps.) -/
theorem assembly_maps_distinct {α : Type} [OfNat α 0] {P A : Csc α} {cones : List ConeSpec}
    {shape : MatrixTriangle} {K : Csc α} {map : LDLDataMap} (hin : KktInputs P A cones)
    (h : assembleKktMatrix P A cones shape = .ok (K, map)) :
    map.Hsblocks.toList.Nodup ∧
    (∀ mp ∈ map.sparse_maps.toList, ∀ j ∈ mp.indices, j ∉ map.Hsblocks.toList) ∧
    SparseMapsDisjoint map.sparse_maps ∧
    (∀ mp ∈ map.sparse_maps.toList, mp.indices.Nodup) := by
  obtain ⟨sched, Kc, nd, R⟩ := asmRun_of_ok hin h
  exact R.maps_distinct hin.m_eq

variable {α : Type} [Field α] [LinearOrder α] [IsStrictOrderedRing α] [FloatLike α]

/-
  `readAt nz idx k = nz[idx[k]]`, `readFrom nz idx off k = nz[idx[off + k]]`: the numbers READ
  BACK from the value array through an index vector; `readCol nz idx lo`: the same for a vector
  that only covers the rows `lo ..` of the cone (zero elsewhere), `placeAt a lo` the vector `a`
  placed at rows `lo ..` (`Lemmas/KktUpdateSchur.lean`).
-/

/-- [F] `C11.update_soc_schur`: **`update` writes a second-order-cone block whose Schur
complement is `−mul_Hs`.**  The theorem is about the model function `updateValues`
(`DirectLDLKKTSolver::update` up to the refactorisation): for the sparse cone
`.socSparse (n+1) η u v d` at position `|pre|` of the cone list, with `u, v, d` the vectors of
the algebra (`SocSparse`), let `Dv, Vv, Uv, dv, du` be the numbers read back from the result `nz'`
through `map.Hsblocks` (offset `Σ|get_Hs|` of the earlier cones) and the expansion map
`.soc mu mv mD`.  If `(x, a, b)` satisfies the three block rows of the expanded system built from
them, the cone rows say `r = −η²(2ww' − J)x = −mul_Hs x`. -/
theorem update_soc_schur (nz nz' : Array α) (map : LDLDataMap)
    (pre post : List (ConeScaling α)) (bpre : List (Array α))
    {n : ℕ} {η d : α} {u v : Array α} {mu mv mD : Array Nat}
    {w0 u0 u1 v1 : α} {w1 : Fin n → α}
    (hnd : map.Hsblocks.toList.Nodup)
    (hdisjH : ∀ mp ∈ map.sparse_maps.toList, ∀ j ∈ mp.indices, j ∉ map.Hsblocks.toList)
    (hdisj : SparseMapsDisjoint map.sparse_maps)
    (h : updateValues nz map (pre ++ .socSparse (n + 1) η u v d :: post) = .ok nz')
    (hpre : pre.mapM getHs = .ok bpre)
    (hHs : (bpre.map Array.size).sum + (n + 1) ≤ map.Hsblocks.size)
    (hm : map.sparse_maps[(pre.filter (fun c => c.isSparse)).length]? = some (.soc mu mv mD))
    (hndm : (SparseMap.soc mu mv mD).indices.Nodup)
    (hmu : mu.size = u.size) (hmv : mv.size = v.size) (hmD : mD.size = 2)
    (huk : ∀ k : Fin (n + 1), u[k.val]? = some (socU u0 u1 w1 k))
    (hvk : ∀ k : Fin (n + 1), v[k.val]? = some (socV v1 w1 k))
    (hs : SocSparse w0 w1 d u0 u1 v1) (hη : η ≠ 0)
    (x r : Fin (n + 1) → α) (a b : α)
    (hrow : ∀ k, readFrom nz' map.Hsblocks (bpre.map Array.size).sum k * x k
        + readAt nz' mv k * a + readAt nz' mu k * b = r k)
    (hrowv : dot (readAt nz' mv) x + nz'.getD (mD.getD 0 0) 0 * a = 0)
    (hrowu : dot (readAt nz' mu) x + nz'.getD (mD.getD 1 0) 0 * b = 0) :
    ∀ k, r k = -(socMulHs η (socW w0 w1) x k) :=
  updateValues_soc_schur nz nz' map pre post bpre hnd hdisjH hdisj h hpre hHs hm hndm hmu hmv hmD
    huk hvk hs hη x r a b hrow hrowv hrowu

/-- non-vacuity of `update_soc_schur`: cone list `[nonneg, sparse SOC]`, a 9-entry value array;
every hypothesis holds, for every `x` (over ℝ, `w = (5/4, 3/4)`, `η = 2`). -/
example (x : Fin 2 → ℝ) :
    ∃ (d u0 u1 v1 : ℝ) (nz' : Array ℝ) (a b : ℝ) (r : Fin 2 → ℝ),
      SocSparse (n := 1) (5 / 4 : ℝ) (fun _ => 3 / 4) d u0 u1 v1 ∧
      updateValues (#[0, 0, 0, 0, 0, 0, 0, 0, 0] : Array ℝ) exMap
        [.nonneg #[3], .socSparse 2 2
          #[socU u0 u1 (fun _ : Fin 1 => 3 / 4) 0, socU u0 u1 (fun _ : Fin 1 => 3 / 4) 1]
          #[socV v1 (fun _ : Fin 1 => 3 / 4) 0, socV v1 (fun _ : Fin 1 => 3 / 4) 1] d]
        = .ok nz' ∧
      (∀ k, readFrom nz' exMap.Hsblocks 1 k * x k + readAt nz' #[5, 6] k * a
        + readAt nz' #[3, 4] k * b = r k) ∧
      dot (readAt nz' #[5, 6]) x + nz'.getD 7 0 * a = 0 ∧
      dot (readAt nz' #[3, 4]) x + nz'.getD 8 0 * b = 0 ∧
      ∀ k, r k = -(socMulHs 2 (socW (5 / 4) (fun _ => 3 / 4)) x k) := by
  have hs := soc_sparse_real (n := 1) (5 / 4 : ℝ) (fun _ => 3 / 4) (by simp [dot]; norm_num)
  obtain ⟨nz', a, b, r, h⟩ := exSoc (t := 3) hs two_ne_zero x
  exact ⟨_, _, _, _, nz', a, b, r, hs, h⟩

/-- [F] `C11.update_soc_mulHs_model`: the `−mul_Hs` of `update_soc_schur` is literally the cone
model's `mul_Hs` (`Soc.mulHsCore`, model of `socone.rs::mul_Hs`): first entry and tail. -/
theorem update_soc_mulHs_model {n : ℕ} (η w0 x0 : α) (w1 x1 : Fin n → α) (r : Fin (n + 1) → α)
    (h : ∀ k, r k = -(socMulHs η (socW w0 w1) (Fin.cons x0 x1) k)) :
    r 0 = -(Soc.mulHsCore x0 (List.ofFn x1) w0 (List.ofFn w1) η).1 ∧
    List.ofFn (fun i : Fin n => r i.succ)
      = (Soc.mulHsCore x0 (List.ofFn x1) w0 (List.ofFn w1) η).2.map (fun y => -y) :=
  neg_mulHsCore_of_schur η w0 x0 w1 x1 r h

/-- [F] `C11.update_genpow_schur`: the same for a generalised power cone
`.genpow μ p q r d1 d2` (given `√μ·√μ = μ`): the block read back from the result of
`updateValues` — `−μD`, the three columns `−√μ q` (rows `0..`), `−√μ r` (rows `dim1..`),
`−√μ p`, diagonal `−1, −1, +1` — has Schur complement
`−μ(D + pp' − q̃q̃' − r̃r̃')`, i.e. `−mul_Hs` (`q̃, r̃`: `q, r` extended by zeros). -/
theorem update_genpow_schur (nz nz' : Array α) (map : LDLDataMap)
    (pre post : List (ConeScaling α)) (bpre : List (Array α))
    {μ d2 : α} {p q r d1 : Array α} {mp mq mr mD : Array Nat}
    (hnd : map.Hsblocks.toList.Nodup)
    (hdisjH : ∀ mp ∈ map.sparse_maps.toList, ∀ j ∈ mp.indices, j ∉ map.Hsblocks.toList)
    (hdisj : SparseMapsDisjoint map.sparse_maps)
    (h : updateValues nz map (pre ++ .genpow μ p q r d1 d2 :: post) = .ok nz')
    (hpre : pre.mapM getHs = .ok bpre)
    (hHs : (bpre.map Array.size).sum + (d1.size + r.size) ≤ map.Hsblocks.size)
    (hm : map.sparse_maps[(pre.filter (fun c => c.isSparse)).length]?
      = some (.genpow mp mq mr mD))
    (hndm : (SparseMap.genpow mp mq mr mD).indices.Nodup)
    (hmp : mp.size = p.size) (hmq : mq.size = q.size) (hmr : mr.size = r.size)
    (hmD : mD.size = 3)
    (hsm : sqrt μ * sqrt μ = μ)
    (x rhs : Fin (d1.size + r.size) → α) (a b c : α)
    (hrow : ∀ k, readFrom nz' map.Hsblocks (bpre.map Array.size).sum k * x k
        + readCol nz' mq 0 k * a + readCol nz' mr d1.size k * b + readCol nz' mp 0 k * c
        = rhs k)
    (hrowq : dot (readCol nz' mq 0) x + nz'.getD (mD.getD 0 0) 0 * a = 0)
    (hrowr : dot (readCol nz' mr d1.size) x + nz'.getD (mD.getD 1 0) 0 * b = 0)
    (hrowp : dot (readCol nz' mp 0) x + nz'.getD (mD.getD 2 0) 0 * c = 0) :
    ∀ k, rhs k = -(genpowMulHs μ (genpowD d1 d2) (placeAt p 0) (placeAt q 0)
      (placeAt r d1.size) x k) :=
  updateValues_genpow_schur nz nz' map pre post bpre hnd hdisjH hdisj h hpre hHs hm hndm hmp hmq
    hmr hmD hsm x rhs a b c hrow hrowq hrowr hrowp

/-- non-vacuity of `update_genpow_schur` (over ℝ, `μ = 4`): cone list `[nonneg, genpow(2,1)]`. -/
example (x : Fin 3 → ℝ) :
    ∃ (nz' : Array ℝ) (a b c : ℝ) (rhs : Fin 3 → ℝ),
      updateValues (#[0, 0, 0, 0, 0, 0, 0, 0, 0, 0, 0, 0, 0] : Array ℝ) exMapG
        [.nonneg #[3], .genpow 4 #[1, 2, 3] #[4, 5] #[6] #[7, 8] 9] = .ok nz' ∧
      (∀ k, readFrom nz' exMapG.Hsblocks 1 k * x k + readCol nz' #[7, 8] 0 k * a
        + readCol nz' #[9] 2 k * b + readCol nz' #[4, 5, 6] 0 k * c = rhs k) ∧
      dot (readCol nz' #[7, 8] 0) x + nz'.getD 10 0 * a = 0 ∧
      dot (readCol nz' #[9] 2) x + nz'.getD 11 0 * b = 0 ∧
      dot (readCol nz' #[4, 5, 6] 0) x + nz'.getD 12 0 * c = 0 ∧
      ∀ k, rhs k = -(genpowMulHs 4 (genpowD #[7, 8] 9) (placeAt #[1, 2, 3] 0)
        (placeAt #[4, 5] 0) (placeAt #[6] 2) x k) :=
  exGenpow (Real.mul_self_sqrt (by norm_num)) x

/-- [F] `C11.assemble_update_soc_schur`: **`update ∘ assemble`** — the statement of
`update_soc_schur` for the index maps that `assemble_kkt_matrix` PRODUCED (all side conditions
on the maps discharged by the assembly theorems): `K, map` returned for the cone list
`preS ++ soc(n+1) :: postS` (above the expansion threshold), a scaling list whose prefix has
the layout of `preS` (`LayoutFits`), expansion data satisfying `SocSparse`. -/
theorem assemble_update_soc_schur {P A : Csc α} {preS postS : List ConeSpec}
    {shape : MatrixTriangle} {K : Csc α} {map : LDLDataMap} {n : ℕ}
    (hin : KktInputs P A (preS ++ ConeSpec.soc (n + 1) :: postS))
    (hasm : assembleKktMatrix P A (preS ++ ConeSpec.soc (n + 1) :: postS) shape = .ok (K, map))
    (hbig : n + 1 > socNoExpansionMaxSize)
    (nz nz' : Array α) (pre post : List (ConeScaling α)) {η d : α} {u v : Array α}
    (hfits : LayoutFits pre preS)
    (h : updateValues nz map (pre ++ .socSparse (n + 1) η u v d :: post) = .ok nz')
    (husz : u.size = n + 1) (hvsz : v.size = n + 1)
    {w0 u0 u1 v1 : α} {w1 : Fin n → α}
    (huk : ∀ k : Fin (n + 1), u[k.val]? = some (socU u0 u1 w1 k))
    (hvk : ∀ k : Fin (n + 1), v[k.val]? = some (socV v1 w1 k))
    (hs : SocSparse w0 w1 d u0 u1 v1) (hη : η ≠ 0) :
    ∃ mu mv mD, map.sparse_maps[nSparse preS]? = some (.soc mu mv mD) ∧
      ∀ (x r : Fin (n + 1) → α) (a b : α),
        (∀ k, readFrom nz' map.Hsblocks (preS.map ConeSpec.blockLen).sum k * x k
          + readAt nz' mv k * a + readAt nz' mu k * b = r k) →
        dot (readAt nz' mv) x + nz'.getD (mD.getD 0 0) 0 * a = 0 →
        dot (readAt nz' mu) x + nz'.getD (mD.getD 1 0) 0 * b = 0 →
        ∀ k, r k = -(socMulHs η (socW w0 w1) x k) :=
  Clarabel.Lemmas.KktUpdateAsm.assemble_update_soc_schur hin hasm hbig nz nz' pre post hfits h
    husz hvsz huk hvk hs hη

/-- [F] `C11.assemble_update_genpow_schur`: `update ∘ assemble` for a generalised power cone. -/
theorem assemble_update_genpow_schur {P A : Csc α} {preS postS : List ConeSpec}
    {shape : MatrixTriangle} {K : Csc α} {map : LDLDataMap}
    (nz nz' : Array α) (pre post : List (ConeScaling α)) {μ d2 : α} {p q r d1 : Array α}
    (hin : KktInputs P A (preS ++ ConeSpec.genpow d1.size r.size :: postS))
    (hasm : assembleKktMatrix P A (preS ++ ConeSpec.genpow d1.size r.size :: postS) shape
      = .ok (K, map))
    (hfits : LayoutFits pre preS)
    (h : updateValues nz map (pre ++ .genpow μ p q r d1 d2 :: post) = .ok nz')
    (hpsz : p.size = d1.size + r.size) (hqsz : q.size = d1.size)
    (hsm : sqrt μ * sqrt μ = μ) :
    ∃ mp mq mr mD, map.sparse_maps[nSparse preS]? = some (.genpow mp mq mr mD) ∧
      ∀ (x rhs : Fin (d1.size + r.size) → α) (a b c : α),
        (∀ k, readFrom nz' map.Hsblocks (preS.map ConeSpec.blockLen).sum k * x k
          + readCol nz' mq 0 k * a + readCol nz' mr d1.size k * b + readCol nz' mp 0 k * c
          = rhs k) →
        dot (readCol nz' mq 0) x + nz'.getD (mD.getD 0 0) 0 * a = 0 →
        dot (readCol nz' mr d1.size) x + nz'.getD (mD.getD 1 0) 0 * b = 0 →
        dot (readCol nz' mp 0) x + nz'.getD (mD.getD 2 0) 0 * c = 0 →
        ∀ k, rhs k = -(genpowMulHs μ (genpowD d1 d2) (placeAt p 0) (placeAt q 0)
          (placeAt r d1.size) x k) :=
  Clarabel.Lemmas.KktUpdateAsm.assemble_update_genpow_schur nz nz' pre post hin hasm hfits h
    hpsz hqsz hsm

end update_schur

section update_assembled
open Clarabel.Lemmas.KktUpdateAsm Clarabel.Lemmas.KktUpdateTotal Clarabel.Lemmas.KktSpec
open Clarabel.Lemmas.KktFinal (SlotIs)
open Clarabel.Lemmas.KktSlots (tri)
open Clarabel.Lemmas.KktSorted (Canon)

variable {α : Type} [Add α] [Sub α] [Mul α] [Div α] [Neg α] [OfNat α 0] [OfNat α 1]
  [LT α] [DecidableLT α] [FloatLike α]

/-- [S] `C11.assemble_update_total`: **`update` never panics on the solver's own maps** — the
maps returned by `assemble_kkt_matrix`, a value array of the assembled length, scaling data that
have the layout of the cone list (`LayoutFits`: same cone kinds and dimensions) and whose `get_Hs`
succeed. -/
theorem assemble_update_total {P A : Csc α} {cones : List ConeSpec} {shape : MatrixTriangle}
    {K : Csc α} {map : LDLDataMap} (hin : KktInputs P A cones)
    (hasm : assembleKktMatrix P A cones shape = .ok (K, map))
    (nz : Array α) (hnz : nz.size = K.nzval.size)
    (scal : List (ConeScaling α)) (hfits : LayoutFits scal cones)
    (blocks : List (Array α)) (hget : scal.mapM getHs = .ok blocks) :
    ∃ nz', updateValues nz map scal = .ok nz' :=
  Clarabel.Lemmas.KktUpdateTotal.assemble_update_total hin hasm nz hnz scal hfits blocks hget

/-- [S] `C11.assemble_update_Hs`: `update` on the assembled maps writes `−get_Hs` into the Hs
positions, entry for entry, for every cone list with the layout of the assembled one: the
flattened `get_Hs` values have exactly the length of `map.Hsblocks`, and `map.Hsblocks[k]` holds
`−get_Hs[k]` afterwards (its coordinate is given by `assembly_maps`). -/
theorem assemble_update_Hs {P A : Csc α} {cones : List ConeSpec} {shape : MatrixTriangle}
    {K : Csc α} {map : LDLDataMap} (hin : KktInputs P A cones)
    (hasm : assembleKktMatrix P A cones shape = .ok (K, map))
    (nz nz' : Array α) (scal : List (ConeScaling α)) (hfits : LayoutFits scal cones)
    (h : updateValues nz map scal = .ok nz') :
    ∃ blocks, scal.mapM getHs = .ok blocks ∧
      ((blocks.map Array.toList).flatten).length = map.Hsblocks.size ∧
      ∀ k (hk : k < map.Hsblocks.size) (hk2 : k < ((blocks.map Array.toList).flatten).length),
        nz'[map.Hsblocks[k]]? = some (-((blocks.map Array.toList).flatten)[k]) :=
  Clarabel.Lemmas.KktUpdateAsm.assemble_update_Hs hin hasm nz nz' scal hfits h

/-- [S] `C11.assemble_update_PA_unchanged`: after `update` on the assembled matrix, every stored
entry of `P` and of `A` is still at its position `map.P[j]` / `map.A[j]`, at its coordinate, with
its value (`update` only writes Hs blocks and expansion vectors, which are other positions): the
updated matrix is `[P Aᵀ; A ·]` outside the cone blocks. -/
theorem assemble_update_PA_unchanged {P A : Csc α} {cones : List ConeSpec}
    {shape : MatrixTriangle} {K : Csc α} {map : LDLDataMap} (hin : KktInputs P A cones)
    (hasm : assembleKktMatrix P A cones shape = .ok (K, map))
    (scal : List (ConeScaling α)) (nz' : Array α)
    (h : updateValues K.nzval map scal = .ok nz') :
    nz'.size = K.nzval.size ∧
    (∀ i j r v, i < P.n → P.colptr.getD i 0 ≤ j → j < P.colptr.getD (i + 1) 0 →
      P.rowval[j]? = some r → P.nzval[j]? = some v →
      SlotIs { K with nzval := nz' } map.P[j]? (tri shape r i).1 (tri shape r i).2 v) ∧
    (∀ i j r v, i < A.n → A.colptr.getD i 0 ≤ j → j < A.colptr.getD (i + 1) 0 →
      A.rowval[j]? = some r → A.nzval[j]? = some v →
      SlotIs { K with nzval := nz' } map.A[j]? (tri shape i (r + A.n)).1 (tri shape i (r + A.n)).2 v) :=
  assemble_update_PA hin hasm scal nz' h

end update_assembled

/-- non-vacuity of the `update ∘ assemble` theorems (`assemble_update_soc_schur`,
`assemble_update_total`, `assemble_update_PA_unchanged`): `P` 2×2, `A` 6×2, cones
`[nonneg 1, soc 5]`, scaling `[nonneg (1), socSparse 5]` with `w = e₀`, `η = 2`, over ℝ — every
hypothesis holds for the maps that the model's `assemble_kkt_matrix` returns. -/
example : ∃ (P A K : Csc ℝ) (map : LDLDataMap) (nz' : Array ℝ) (d u0 u1 v1 : ℝ),
    Clarabel.Lemmas.KktSpec.KktInputs P A ([.nonneg 1] ++ ConeSpec.soc (4 + 1) :: []) ∧
    assembleKktMatrix P A ([.nonneg 1] ++ ConeSpec.soc (4 + 1) :: []) .triu = .ok (K, map) ∧
    4 + 1 > socNoExpansionMaxSize ∧
    Clarabel.Lemmas.KktUpdateAsm.LayoutFits [ConeScaling.nonneg #[(1 : ℝ)]] [.nonneg 1] ∧
    SocSparse (n := 4) (1 : ℝ) (fun _ => 0) d u0 u1 v1 ∧
    updateValues K.nzval map ([.nonneg #[1]] ++ .socSparse (4 + 1) 2
      (Array.ofFn (socU u0 u1 (fun _ : Fin 4 => (0 : ℝ))))
      (Array.ofFn (socV v1 (fun _ : Fin 4 => (0 : ℝ)))) d :: []) = .ok nz' ∧
    (∀ k : Fin (4 + 1), (Array.ofFn (socU u0 u1 (fun _ : Fin 4 => (0 : ℝ))))[k.val]?
      = some (socU u0 u1 (fun _ : Fin 4 => (0 : ℝ)) k)) := by
  let P : Csc ℝ := ⟨2, 2, #[0, 1, 2], #[0, 0], #[4, 1]⟩
  let A : Csc ℝ := ⟨6, 2, #[0, 1, 2], #[0, 3], #[7, -2]⟩
  have hin : Clarabel.Lemmas.KktSpec.KktInputs P A [.nonneg 1, .soc 5] := by
    refine ⟨⟨rfl, rfl, ?_, rfl, rfl, ?_, ?_⟩, ?_, rfl, ⟨rfl, rfl, ?_, rfl, rfl, ?_, ?_⟩, rfl, rfl⟩
    · intro i hi; match i, hi with
      | 0, _ => decide
      | 1, _ => decide
    · intro j hj; match j, hj with
      | 0, _ => decide
      | 1, _ => decide
    · intro i hi j h1 h2; match i, hi with
      | 0, _ => exact absurd h2 (by show ¬ j + 1 < 1; omega)
      | 1, _ => exact absurd (show 1 ≤ j from h1) (by have : j + 1 < 2 := h2; omega)
    · intro i hi j h1 h2; match i, hi with
      | 0, _ => have : j = 0 := by have : j < 1 := h2; omega
                subst this; decide
      | 1, _ => have : j = 1 := by have h3 : 1 ≤ j := h1; have h4 : j < 2 := h2; omega
                subst this; decide
    · intro i hi; match i, hi with
      | 0, _ => decide
      | 1, _ => decide
    · intro j hj; match j, hj with
      | 0, _ => decide
      | 1, _ => decide
    · intro i hi j h1 h2; match i, hi with
      | 0, _ => exact absurd h2 (by show ¬ j + 1 < 1; omega)
      | 1, _ => exact absurd (show 1 ≤ j from h1) (by have : j + 1 < 2 := h2; omega)
  obtain ⟨K, map, _, hasm, _⟩ := assembly_total P A [.nonneg 1, .soc 5] .triu hin
  have hs := soc_sparse_real (n := 4) (1 : ℝ) (fun _ => 0) (by simp [dot])
  obtain ⟨d, u0, u1, v1, hs⟩ : ∃ d u0 u1 v1, SocSparse (n := 4) (1 : ℝ) (fun _ => 0) d u0 u1 v1 :=
    ⟨_, _, _, _, hs⟩
  have hfull : Clarabel.Lemmas.KktUpdateAsm.LayoutFits
      [ConeScaling.nonneg #[(1 : ℝ)], .socSparse 5 2
        (Array.ofFn (socU u0 u1 (fun _ : Fin 4 => (0 : ℝ))))
        (Array.ofFn (socV v1 (fun _ : Fin 4 => (0 : ℝ)))) d] [.nonneg 1, .soc 5] :=
    List.Forall₂.cons (by simp [Clarabel.Lemmas.KktUpdateAsm.ScalingFits])
      (List.Forall₂.cons (by simp [Clarabel.Lemmas.KktUpdateAsm.ScalingFits, socNoExpansionMaxSize])
        List.Forall₂.nil)
  obtain ⟨blocks, hget⟩ := Clarabel.Lemmas.KktRun.mapM_exists (getHs (α := ℝ))
    [ConeScaling.nonneg #[(1 : ℝ)], .socSparse 5 2
      (Array.ofFn (socU u0 u1 (fun _ : Fin 4 => (0 : ℝ))))
      (Array.ofFn (socV v1 (fun _ : Fin 4 => (0 : ℝ)))) d]
    (by
      intro c hc
      simp only [List.mem_cons, List.mem_nil_iff, or_false] at hc
      rcases hc with rfl | rfl
      · exact ⟨_, rfl⟩
      · exact ⟨_, rfl⟩)
  obtain ⟨nz', hup⟩ := assemble_update_total hin hasm K.nzval rfl _ hfull blocks hget
  refine ⟨P, A, K, map, nz', d, u0, u1, v1, hin, hasm, by decide,
    List.Forall₂.cons (by simp [Clarabel.Lemmas.KktUpdateAsm.ScalingFits]) List.Forall₂.nil,
    hs, hup, ?_⟩
  intro k
  simp

-- ====================================================================================
-- regularise / restore
-- ====================================================================================

section restore
variable {α : Type} [OfNat α 0] [Add α] [Sub α] [Mul α] [FloatLike α]

/-- [S] `C11.refinement_copy_clean`: after `regularize_and_refactor` the solver's own KKT
values are exactly what they were before (the copy used by `_get_refine_error` carries no
`ε`) — for every index vector, sign vector and regulariser, enabled or not. -/
theorem refinement_copy_clean (nz : Array α) (diagFull : Array Nat) (dsigns : Array Int)
    (enable : Bool) (c p : α) (r : Regularized α) (nzF : Array α)
    (h : regularizeAndRestore nz diagFull dsigns enable c p = .ok (r, nzF)) :
    r.nzval = nz :=
  regularizeAndRestore_restores h

/-- [S] … while the values handed to the LDL engine in between (`nzF`) are the same matrix
with `diag ± ε` on the full diagonal (sign by `dsigns`), `ε = const + prop·‖diag‖∞`
(`computeRegularizer`), given that `diag_full` has no repeated index. -/
theorem refinement_ldl_copy (nz : Array α) (diagFull : Array Nat) (dsigns : Array Int)
    (c p : α) (r : Regularized α) (nzF : Array α)
    (h : regularizeAndRestore nz diagFull dsigns true c p = .ok (r, nzF))
    (hnd : diagFull.toList.Nodup) :
    nzF.size = nz.size ∧
    (∀ j, j ∉ diagFull.toList → nzF[j]? = nz[j]?) ∧
    (∀ k (hk : k < diagFull.size), ∃ d, nz[diagFull[k]]? = some d ∧
        nzF[diagFull[k]]? = some (match dsigns[k]? with
          | some s => if s == 1 then d + r.eps else d - r.eps
          | none => d)) ∧
    r.diagKkt.size = diagFull.size ∧
    (∀ k (hk : k < diagFull.size), r.diagKkt[k]? = nz[diagFull[k]]?) ∧
    r.eps = computeRegularizer r.diagKkt c p :=
  regularizeAndRestore_factor h hnd

end restore

-- ====================================================================================
-- inertia for every cone list; generalised power cone expansion (follow-up to round 3)
-- ====================================================================================

section inertia_list
open Clarabel.Lemmas.KktInertia Clarabel.Lemmas.KktInertiaList Clarabel.Lemmas.KktInertiaCones
open Clarabel.Lemmas.KktSpec

variable {α : Type} [Field α] [LinearOrder α] [IsStrictOrderedRing α]

/-
  Vocabulary (`Lemmas/KktInertiaList.lean`, `Lemmas/KktInertiaCones.lean`):
  * `QuasiDefGE K s S ε`: `K` symmetric, `xᵀKx ≥ ε‖x‖²` for `x` supported on the `+` indices of
    `S`, `xᵀKx ≤ −ε‖x‖²` on the `−` indices (quasidefinite WITH MARGIN `ε`);
  * `expForm H V e y s = yᵀHy + 2 Σₐ sₐ (Vₐ·y) + Σₐ eₐ sₐ²`: the form of the bordered block
    `[[H, V], [Vᵀ, diag e]]` of a cone (`H`: its Hs block as `update` writes it, sign flipped; `V a`:
    minus the stored column of the `a`-th NEGATIVE auxiliary variable, `e a`: minus its stored
    diagonal entry);
  * `listKkt P ep B H V e ε`: the regularised KKT matrix of a cone list, index type
    `(primal ⊕ plus-aux) ⊕ Σ cone, (rows ⊕ minus-aux)`:
    `[[P+εI, 0, ·], [0, diag(ep)+εI, ·], [B, −blockdiag_i [[Hᵢ+εI, Vᵢ],[Vᵢᵀ, diag(eᵢ)+εI]]]]`;
  * `KktIdx n cones`, `flatPos n cones idx`: that index type for a `List ConeSpec` (rows
    `Fin numel`, `nMinus`/`nPlus` auxiliary variables per cone: 1/1 for a sparse second-order
    cone, 2/1 for a generalised power cone, 0/0 otherwise) and the COLUMN of the assembled matrix
    that carries a structured index.
-/

/-- [F] `C11.inertia_margin`: a matrix that is quasidefinite with margin `ε > 0` is quasidefinite,
and in ANY elimination order every `LDLᵀ` pivot has the recorded sign AND modulus `≥ ε` — the static
regularisation is a lower bound for every pivot, whatever the permutation. -/
theorem inertia_margin {ι : Type} [Fintype ι] [DecidableEq ι] {K : ι → ι → α} {s : ι → Bool}
    {S : Finset ι} {ε : α} (order : List ι) (h : QuasiDefGE K s S ε) (hε : 0 < ε)
    (hnd : order.Nodup) (hS : ∀ p ∈ order, p ∈ S) :
    QuasiDef K s S ∧
      List.Forall₂ (fun p d => if s p then ε ≤ d else d ≤ -ε) order (pivots K order) :=
  ⟨h.quasiDef hε, pivots_margin_forall₂ order h hε hnd hS⟩

/-- [F] `C11.inertia_genpow_expansion`: the regularised KKT matrix WITH the sparse expansion of a
GENERALISED POWER cone (`genpowKkt`, entries `genpowKkt_entries`: primal block `P + εI`, cone rows
`−(μD + εI)`, auxiliary columns `−√μ q`, `−√μ r`, `−√μ p`, auxiliary diagonal `−1−ε, −1−ε, 1+ε`) is
quasidefinite with margin `ε` for the sign pattern `+ primal, + p-aux, − cone rows, − q-aux, − r-aux`
— what `_fill_signs` records (`[-1, -1, +1]` on the `q, r, p` columns, `assembly_signs`) — provided
`P ⪰ 0`, `μ = (√μ)²` and `D − qqᵀ − rrᵀ ⪰ 0` (true for the data of `update_dual_grad_H`:
`inertia_genpow_data`).  Hence for ANY elimination order every pivot has the recorded sign and
modulus `≥ ε`, and none vanishes. -/
theorem inertia_genpow_expansion {ι₁ : Type} [Fintype ι₁] [DecidableEq ι₁] {m : ℕ}
    {P : ι₁ → ι₁ → α} (A : Fin m → ι₁ → α) {μ sm ε : α} {D q r : Fin m → α} (p : Fin m → α)
    (hP : PosSemidef P) (hε : 0 < ε) (hsm : sm * sm = μ)
    (hD : ∀ y : Fin m → α, dot q y ^ 2 + dot r y ^ 2 ≤ ∑ i, D i * y i ^ 2)
    (order : List ((ι₁ ⊕ Fin 1) ⊕ (Σ _ : Fin 1, Fin m ⊕ Fin 2))) (hnd : order.Nodup) :
    QuasiDefGE (genpowKkt P A μ sm ε D p q r) Sum.isLeft Finset.univ ε ∧
    QuasiDef (genpowKkt P A μ sm ε D p q r) Sum.isLeft Finset.univ ∧
    List.Forall₂ (fun idx piv => if idx.isLeft then ε ≤ piv else piv ≤ -ε) order
      (pivots (genpowKkt P A μ sm ε D p q r) order) ∧
    ∀ piv ∈ pivots (genpowKkt P A μ sm ε D p q r) order, piv ≠ 0 := by
  have h := quasiDefGE_genpowKkt (ε := ε) A p hP hsm hD
  exact ⟨h, h.quasiDef hε,
    pivots_margin_forall₂ order h hε hnd (fun _ _ => Finset.mem_univ _),
    pivots_ne_zero order (h.quasiDef hε) hnd (fun _ _ => Finset.mem_univ _)⟩

/-- non-vacuity of `inertia_genpow_expansion` (over ℚ): `P = [1]`, `μ = 4`, `√μ = 2`,
`D = (1, 1)`, `q = (½, 0)`, `r = (0, ½)`. -/
example : PosSemidef (fun (_ _ : Fin 1) => (1 : ℚ)) ∧ (2 : ℚ) * 2 = 4 ∧
    ∀ y : Fin 2 → ℚ, dot (![1 / 2, 0] : Fin 2 → ℚ) y ^ 2 + dot (![0, 1 / 2] : Fin 2 → ℚ) y ^ 2
      ≤ ∑ i, (![1, 1] : Fin 2 → ℚ) i * y i ^ 2 := by
  refine ⟨exP_psd, by norm_num, fun y => ?_⟩
  simp only [dot, Fin.sum_univ_two, Matrix.cons_val_zero, Matrix.cons_val_one]
  nlinarith [sq_nonneg (y 0), sq_nonneg (y 1)]

/-- [R] `C11.inertia_genpow_data`: **`D − qqᵀ − rrᵀ ⪰ 0` holds for the Hessian data that the
generalised-power-cone model writes** (`GenPow.updateDualGradH`, model of
`genpowcone.rs::update_dual_grad_H`; C14 `genpow_hess_entries` shows `D + ppᵀ − qqᵀ − rrᵀ` is the
Hessian of the dual barrier), in every dimension: exponents `α > 0`, `Σα = 1`, dual point `(u, w)`
with `u > 0` and `ζ > 0` (what `update_scaling` accepts: C14 `genpow_update_scaling_test`).  In
the vocabulary of `update_genpow_schur`: `(q̃·y)² + (r̃·y)² ≤ Σₖ Dₖ yₖ²`. -/
theorem inertia_genpow_data (al u w : List ℝ) (hlen : al.length = u.length)
    (ha : ∀ a ∈ al, 0 < a) (hsum : al.sum = 1) (hu : ∀ x ∈ u, 0 < x)
    (hζ : 0 < Clarabel.GenPow.prodPhi al u - Clarabel.GenPow.sumSq w) (D : Clarabel.GenPow.Data ℝ)
    (hD : Clarabel.GenPow.updateDualGradH al.toArray (u ++ w).toArray = .ok D)
    (y : Fin (D.d1.size + D.r.size) → ℝ) :
    dot (Clarabel.Lemmas.KktUpdateSchur.placeAt D.q 0) y ^ 2
      + dot (Clarabel.Lemmas.KktUpdateSchur.placeAt D.r D.d1.size) y ^ 2
      ≤ ∑ k, Clarabel.Lemmas.KktUpdateSchur.genpowD D.d1 D.d2 k * y k ^ 2 :=
  Clarabel.Lemmas.KktInertiaGenPowReal.genpow_D_sub_qq_rr_nonneg al u w hlen ha hsum hu hζ D hD y

/-- non-vacuity of `inertia_genpow_data`: `α = (½, ½)`, `u = (1, 1)`, `w = (½)` (`φ = 4`,
`ζ = 15/4`); `update_dual_grad_H` succeeds there. -/
example : ∃ D : Clarabel.GenPow.Data ℝ, ([1 / 2, 1 / 2] : List ℝ).length = ([1, 1] : List ℝ).length ∧
    (∀ a ∈ ([1 / 2, 1 / 2] : List ℝ), 0 < a) ∧ ([1 / 2, 1 / 2] : List ℝ).sum = 1 ∧
    (∀ x ∈ ([1, 1] : List ℝ), 0 < x) ∧
    0 < Clarabel.GenPow.prodPhi [1 / 2, 1 / 2] [1, 1] - Clarabel.GenPow.sumSq [1 / 2] ∧
    Clarabel.GenPow.updateDualGradH ([1 / 2, 1 / 2] : List ℝ).toArray
      (([1, 1] : List ℝ) ++ [1 / 2]).toArray = .ok D := by
  have hζ : 0 < Clarabel.GenPow.prodPhi [1 / 2, 1 / 2] [1, 1] - Clarabel.GenPow.sumSq [1 / 2] := by
    unfold Clarabel.GenPow.prodPhi Clarabel.GenPow.sumSq
    norm_num
  obtain ⟨D, hD, _⟩ := Clarabel.GenPow.updateDualGradH_data [1 / 2, 1 / 2] [1, 1] [1 / 2] rfl hζ
  refine ⟨D, rfl, ?_, by norm_num, ?_, hζ, hD⟩
  · intro a ha; simp at ha; rcases ha with rfl | rfl <;> norm_num
  · intro x hx; simp at hx; subst hx; norm_num

/-- [F] the bordered block of a cone WITHOUT sparse expansion has a nonnegative form iff its Hs
block is positive semidefinite — the hypothesis `hform` of `inertia_cone_list` for zero,
nonnegative, small second-order, exponential, power and PSD cones.  (The Hs blocks are `⪰ 0`:
C13 `nn_getHs_eq_mulHs` (`diag w²`), `soc_dense_getHs_eq_mulHs` (`η²(2wwᵀ − J)`, `w` normalised),
`psd_getHs_eq_mulHs`; C14 `pd_scaling_posdef` for the exponential and power cones.) -/
theorem cone_form_nonsparse {nr na : ℕ} (hna : na = 0) (H : Fin nr → Fin nr → α)
    (V : Fin na → Fin nr → α) (e : Fin na → α) (hH : ∀ y, 0 ≤ qf H y) (y : Fin nr → α)
    (s : Fin na → α) : 0 ≤ expForm H V e y s := by
  haveI : IsEmpty (Fin na) := ⟨fun x => by have := x.isLt; omega⟩
  rw [expForm_of_isEmpty]
  exact hH y

/-- [F] … of a sparse second-order cone (`H = η²·diag(d,1,…,1)`, `V = η²·v`, `e = η²`), from the
defining equations `SocSparse` of `update_scaling` (C13 `soc_update_sparse_data`). -/
theorem cone_form_soc {k : ℕ} {η w0 : α} {w1 : Fin k → α} {d u0 u1 v1 : α}
    (h : SocSparse w0 w1 d u0 u1 v1) (y : Fin (k + 1) → α) (s : Fin 1 → α) :
    0 ≤ expForm (socH η d) (socVm η v1 w1) (fun _ => η * η) y s :=
  expForm_soc h y s

/-- [F] … of a generalised power cone (`H = μ·diag D`, `V = (√μ q, √μ r)`, `e = (1, 1)`), from
`D − qqᵀ − rrᵀ ⪰ 0` (`inertia_genpow_data`). -/
theorem cone_form_genpow {m : ℕ} {μ sm : α} (hsm : sm * sm = μ) {D q r : Fin m → α}
    (hD : ∀ y : Fin m → α, dot q y ^ 2 + dot r y ^ 2 ≤ ∑ i, D i * y i ^ 2)
    (y : Fin m → α) (s : Fin 2 → α) :
    0 ≤ expForm (genpowH μ D) (genpowVm sm q r) (fun _ => (1 : α)) y s :=
  expForm_genpow hsm hD y s

/-- [F] `C11.inertia_cone_list`: **for EVERY cone list** — any number of sparse expansions of
either kind, block-diagonal Hs — the regularised KKT matrix (`listKkt`: primal block `Pd + εI`,
`Pd ⪰ 0`; for each cone `i` the block `−[[Hᵢ + εI, Vᵢ],[Vᵢᵀ, diag(eᵢ) + εI]]` of its rows and
negative auxiliary variables; positive auxiliary diagonal `ep + ε`, `ep ≥ 0`; ANY coupling `B`
between the two groups: the rows of `A` and the positive auxiliary columns) is quasidefinite
with margin `ε`, provided every cone's bordered block has a nonnegative form (`cone_form_nonsparse`,
`cone_form_soc`, `cone_form_genpow`).  Its sign pattern is EXACTLY what `_fill_signs` records for
the maps that `assemble_kkt_matrix` made for the same cone list: `dsigns[flatPos idx] = +1` on the
primal and positive-auxiliary indices, `−1` on the cone rows and negative-auxiliary indices.
Hence for ANY elimination order every pivot has the recorded sign and modulus `≥ ε`; none
vanishes. -/
theorem inertia_cone_list {β : Type} [OfNat β 0] {Pm Am : Csc β} {cones : List ConeSpec}
    {shape : MatrixTriangle} {Kc : Csc β} {map : LDLDataMap} (hin : KktInputs Pm Am cones)
    (hasm : assembleKktMatrix Pm Am cones shape = .ok (Kc, map))
    {Pd : Fin Am.n → Fin Am.n → α}
    {ep : (Σ i : Fin cones.length, Fin (nPlus cones[i])) → α}
    (B : (Σ i : Fin cones.length, Fin (cones[i].numel) ⊕ Fin (nMinus cones[i])) →
      Fin Am.n ⊕ (Σ i : Fin cones.length, Fin (nPlus cones[i])) → α)
    {H : ∀ i : Fin cones.length, Fin (cones[i].numel) → Fin (cones[i].numel) → α}
    {V : ∀ i : Fin cones.length, Fin (nMinus cones[i]) → Fin (cones[i].numel) → α}
    {e : ∀ i : Fin cones.length, Fin (nMinus cones[i]) → α} {ε : α}
    (hP : PosSemidef Pd) (hε : 0 < ε) (hep : ∀ b, 0 ≤ ep b)
    (hH : ∀ i a b, H i a b = H i b a) (hform : ∀ i y s, 0 ≤ expForm (H i) (V i) (e i) y s) :
    QuasiDefGE (listKkt Pd ep B H V e ε) Sum.isLeft Finset.univ ε ∧
    (∃ ds, fillSigns Am.m Am.n map.sparse_maps = .ok ds ∧
      ∀ idx : KktIdx Am.n cones,
        ds[flatPos Am.n cones idx]? = some (if idx.isLeft then 1 else -1)) ∧
    ∀ order : List (KktIdx Am.n cones), order.Nodup →
      List.Forall₂ (fun idx piv => if idx.isLeft then ε ≤ piv else piv ≤ -ε) order
        (pivots (listKkt Pd ep B H V e ε) order) ∧
      ∀ piv ∈ pivots (listKkt Pd ep B H V e ε) order, piv ≠ 0 := by
  refine ⟨quasiDefGE_listKkt B hP hep hH hform, ?_, fun order hnd =>
    listKkt_pivots B hP hε hep hH hform order hnd⟩
  obtain ⟨ds, h0, _, h1, h2, h3⟩ := assembly_signs hin hasm
  refine ⟨ds, h0, fun idx => signs_at_flatPos Am.n cones ds h1 ?_ ?_ idx⟩
  · intro c hc1 hc2
    rw [hin.m_eq] at hc2
    exact h2 c hc1 hc2
  · intro pre cn post j hdec hj
    rw [hin.m_eq]
    exact h3 pre cn post j hdec hj

/-- non-vacuity of `inertia_cone_list`: the cone list `[nonneg 1, soc 5]` of the assembly example
(one sparse expansion), `Pd = 0`, all cone data zero, `ε = 1`: every hypothesis holds. -/
example : ∃ (Pm Am Kc : Csc ℚ) (map : LDLDataMap),
    KktInputs Pm Am [.nonneg 1, .soc 5] ∧
    assembleKktMatrix Pm Am [.nonneg 1, .soc 5] .triu = .ok (Kc, map) ∧
    PosSemidef (fun (_ _ : Fin Am.n) => (0 : ℚ)) ∧
    (∀ (i : Fin [ConeSpec.nonneg 1, .soc 5].length)
      (y : Fin ([ConeSpec.nonneg 1, .soc 5][i].numel) → ℚ)
      (s : Fin (nMinus [ConeSpec.nonneg 1, .soc 5][i]) → ℚ),
      0 ≤ expForm (fun _ _ => (0 : ℚ)) (fun _ _ => (0 : ℚ)) (fun _ => (0 : ℚ)) y s) := by
  let P : Csc ℚ := ⟨2, 2, #[0, 1, 2], #[0, 0], #[4, 1]⟩
  let A : Csc ℚ := ⟨6, 2, #[0, 1, 2], #[0, 3], #[7, -2]⟩
  have hin : KktInputs P A [.nonneg 1, .soc 5] := by
    refine ⟨⟨rfl, rfl, ?_, rfl, rfl, ?_, ?_⟩, ?_, rfl, ⟨rfl, rfl, ?_, rfl, rfl, ?_, ?_⟩, rfl, rfl⟩
    · intro i hi; match i, hi with
      | 0, _ => decide
      | 1, _ => decide
    · intro j hj; match j, hj with
      | 0, _ => decide
      | 1, _ => decide
    · intro i hi j h1 h2; match i, hi with
      | 0, _ => exact absurd h2 (by show ¬ j + 1 < 1; omega)
      | 1, _ => exact absurd (show 1 ≤ j from h1) (by have : j + 1 < 2 := h2; omega)
    · intro i hi j h1 h2; match i, hi with
      | 0, _ => have : j = 0 := by have : j < 1 := h2; omega
                subst this; decide
      | 1, _ => have : j = 1 := by have h3 : 1 ≤ j := h1; have h4 : j < 2 := h2; omega
                subst this; decide
    · intro i hi; match i, hi with
      | 0, _ => decide
      | 1, _ => decide
    · intro j hj; match j, hj with
      | 0, _ => decide
      | 1, _ => decide
    · intro i hi j h1 h2; match i, hi with
      | 0, _ => exact absurd h2 (by show ¬ j + 1 < 1; omega)
      | 1, _ => exact absurd (show 1 ≤ j from h1) (by have : j + 1 < 2 := h2; omega)
  obtain ⟨K, map, _, h, _⟩ := assembly_total P A [.nonneg 1, .soc 5] .triu hin
  refine ⟨P, A, K, map, hin, h, ⟨fun _ _ => rfl, fun x => by simp [qf]⟩, ?_⟩
  intro i y s
  simp [expForm, qf]

end inertia_list

-- ====================================================================================
-- C11 ∘ C12: the recorded signs are the signs of QDLDL's D (follow-up to round 3)
-- ====================================================================================

section qdldl
open Clarabel.Lemmas.KktInertia Clarabel.Lemmas.KktInertiaList Clarabel.Lemmas.KktInertiaCones
open Clarabel.Lemmas.KktSpec
open Clarabel.Lemmas.KktTotal (kktDim)

/-- [S] `C11.kkt_is_qdldl_input`: the matrix that `assemble_kkt_matrix` returns in the upper-triangle
layout — with ANY value array of the assembled length, e.g. after `update` and the `± ε` of
`regularize_and_refactor` — satisfies the three input hypotheses of C12's theorems about
`QDLDLFactorisation::new` (`new_factor_correct`, `new_solve_correct`): valid CSC encoding
(`wellFormed`), accepted by `check_structure` (square, upper triangular, no empty column: the
diagonal is structurally complete), no position stored twice (`NoDupCols`). -/
theorem kkt_is_qdldl_input {α : Type} [OfNat α 0] {P A : Csc α} {cones : List ConeSpec}
    {K : Csc α} {map : LDLDataMap} (hin : KktInputs P A cones)
    (h : assembleKktMatrix P A cones .triu = .ok (K, map)) (nz' : Array α)
    (hsz : nz'.size = K.nzval.size) :
    Clarabel.Qdldl.wellFormed ({ K with nzval := nz' } : Csc α) = true ∧
    Clarabel.Qdldl.checkStructure ({ K with nzval := nz' } : Csc α) = .ok () ∧
    Clarabel.Qdldl.NoDupCols K.colptr K.rowval ∧ K.n = kktDim A cones := by
  obtain ⟨K', map', nd, h', _, hm, hn, _⟩ := assembly_total P A cones .triu hin
  rw [h] at h'
  obtain ⟨rfl, rfl⟩ : K' = K ∧ map' = map := by
    have := Except.ok.inj h'
    exact ⟨(Prod.mk.inj this).1.symm, (Prod.mk.inj this).2.symm⟩
  have hc0 := (assembly_check_format_updated hin h nz' hsz).1
  have := Clarabel.Lemmas.KktQdldlInput.qdldl_input_of_canonical ({ K' with nzval := nz' } : Csc α)
    hc0 (by show K'.m = K'.n; rw [hm, hn]) (by
      intro c hc
      have hc' : c < kktDim A cones := by rw [← hn]; exact hc
      obtain ⟨h1, h2, _, h4⟩ := assembly_canonical hin h c hc'
      exact ⟨h1, h2, h4⟩)
  exact ⟨this.1, this.2.1, this.2.2, hn⟩

variable {α : Type} [Field α] [LinearOrder α] [IsStrictOrderedRing α] [FloatLike α]
  [LawfulFloatLike α]

/-- [F] `C11.kkt_factorisation_signs`: **the recorded sign pattern IS the pivot-sign pattern of
QDLDL's `D`, for ANY permutation** — on the composed models of C11 and C12.  Let `K` be a valid
QDLDL input (`kkt_is_qdldl_input`: the assembled KKT matrix with its current values) whose
symmetric meaning `symOf K` is quasidefinite with margin `ε > 0` for the pattern `s`
(`inertia_cone_list` / `inertia_genpow_expansion` / `inertia_margin`: the regularised KKT matrix
of any cone list), `dsigns[i] = +1` where `s i`, `−1` elsewhere (`_fill_signs`), `perm` ANY valid
ordering (`invperm` accepts it, C12 `invperm_ok_iff`), and the dynamic-regularisation threshold
`eps ≤ ε`.  Then for the model of `QDLDLFactorisation::new(K, perm, dsigns, …)`:
* with dynamic regularisation on (`eps > 0`, `delta ≠ 0`, the solver's setting) it returns a
  factorisation object — never `ZeroPivot`, never a panic;
* for every returned object `F` (regularisation on or off): `D[r]` has the sign
  `dsigns[perm[r]]` and modulus `≥ ε` for every row `r` of the permuted matrix;
* `regularize_count = 0`: the dynamic regularisation is never triggered;
* `positive_inertia = #{i | dsigns[i] = +1}` (`= n +` the number of `+1` auxiliary columns,
  `positive_inertia_count`). -/
theorem kkt_factorisation_signs (K : Csc α) (hw : Clarabel.Qdldl.wellFormed K = true)
    (hc : Clarabel.Qdldl.checkStructure K = .ok ())
    (hnd : Clarabel.Qdldl.NoDupCols K.colptr K.rowval) (hn : 0 < K.n)
    (perm iperm : Array Nat) (hip : Clarabel.Perm.invperm perm = .ok iperm) (hps : perm.size = K.n)
    (ds : Array Int) (hdsz : K.n ≤ ds.size) (s : Fin K.n → Bool)
    (hds : ∀ i : Fin K.n, ds.getD i.val 0 = if s i then 1 else -1)
    (enable : Bool) (eps delta ε : α)
    (hQ : QuasiDefGE (fun i j : Fin K.n => Clarabel.Qdldl.symOf K i.val j.val) s Finset.univ ε)
    (hε : 0 < ε) (heps : eps ≤ ε) :
    (enable = true → 0 < eps → delta ≠ 0 →
      ∃ F, Clarabel.Qdldl.new K perm (some ds) enable eps delta false = .ok F) ∧
    ∀ F, Clarabel.Qdldl.new K perm (some ds) enable eps delta false = .ok F →
      (∀ r (hr : r < K.n), ∃ hpr : perm.getD r 0 < K.n,
        ds.getD (perm.getD r 0) 0 = (if s ⟨perm.getD r 0, hpr⟩ then 1 else -1) ∧
        if s ⟨perm.getD r 0, hpr⟩ then ε ≤ F.D.getD r 0 else F.D.getD r 0 ≤ -ε) ∧
      F.regularizeCount = 0 ∧
      F.positiveInertia = (Finset.univ.filter (fun i : Fin K.n => s i = true)).card := by
  have hds' : ∀ d, some ds = some d → K.n ≤ d.size := by
    intro d hd; cases hd; exact hdsz
  constructor
  · intro hen he hd
    subst hen
    apply Clarabel.Qdldl.new_ok_of_rule K hw hc hnd hn perm iperm hip hps (some ds) hds' true eps delta
    intro k hk x
    obtain ⟨_, hinv⟩ := Clarabel.Qdldl.invperm_invPair perm iperm hip
    rw [hps] at hinv
    have hpk := hinv.pm_lt k hk
    have hsg : Clarabel.Qdldl.signAt (some ds) perm k = 1 ∨
        Clarabel.Qdldl.signAt (some ds) perm k = -1 := by
      show ds.getD (perm.getD k 0) 0 = 1 ∨ ds.getD (perm.getD k 0) 0 = -1
      have := hds ⟨perm.getD k 0, hpk⟩
      by_cases hs : s ⟨perm.getD k 0, hpk⟩ = true
      · left; rw [this, if_pos hs]
      · right; rw [this, if_neg hs]
    exact Clarabel.Qdldl.rule_ne_zero eps delta _ hsg he hd x
  · intro F hF
    have hS := (Clarabel.Qdldl.new_correct K hw hc hnd hn perm iperm hip hps (some ds) hds'
      enable eps delta).2 F hF
    exact Clarabel.Qdldl.newSpec_signs K perm iperm hip hps ds enable eps delta ε s hQ hε heps hds F hS

/-- [F] `C11.positive_inertia_count`: the number of `+` indices of a cone list's KKT matrix is
`n +` the number of `+1` auxiliary columns (one per sparse expansion). -/
theorem positive_inertia_count (n : Nat) (cones : List ConeSpec) :
    (Finset.univ.filter (fun idx : KktIdx n cones => idx.isLeft = true)).card
      = n + ∑ i : Fin cones.length, nPlus cones[i] := by
  have : Finset.univ.filter (fun idx : KktIdx n cones => idx.isLeft = true)
      = Finset.univ.map ⟨Sum.inl, Sum.inl_injective⟩ := by
    ext x
    rcases x with x | x <;> simp
  rw [this, Finset.card_map, Finset.card_univ, Fintype.card_sum, Fintype.card_fin,
    Fintype.card_sigma]
  simp

/-- non-vacuity of `kkt_factorisation_signs` (over ℝ): `K = [[2, 1], [1, −3]]` (upper triangle
stored; `Lemmas/KktQdldlExample.lean`), the regularised KKT matrix of the `KktInertia` example
(`P = [1]`, `A = [1]`, `H = [2]`, `ε = 1`), `dsigns = [+1, −1]`, the REVERSED ordering
`perm = [1, 0]`: all hypotheses hold (any `eps ≤ 1`). -/
example : Clarabel.Qdldl.wellFormed Clarabel.Lemmas.KktQdldlExample.exK2 = true ∧
    Clarabel.Qdldl.checkStructure Clarabel.Lemmas.KktQdldlExample.exK2 = .ok () ∧
    Clarabel.Qdldl.NoDupCols Clarabel.Lemmas.KktQdldlExample.exK2.colptr
      Clarabel.Lemmas.KktQdldlExample.exK2.rowval ∧
    Clarabel.Perm.invperm #[1, 0] = .ok #[1, 0] ∧
    (∀ i : Fin 2, (#[1, -1] : Array Int).getD i.val 0
      = if Clarabel.Lemmas.KktQdldlExample.exS2 i then 1 else -1) ∧
    QuasiDefGE (fun i j : Fin 2 =>
      Clarabel.Qdldl.symOf Clarabel.Lemmas.KktQdldlExample.exK2 i.val j.val)
      Clarabel.Lemmas.KktQdldlExample.exS2 Finset.univ 1 :=
  ⟨Clarabel.Lemmas.KktQdldlExample.exK2_wellFormed,
    Clarabel.Lemmas.KktQdldlExample.exK2_checkStructure,
    Clarabel.Lemmas.KktQdldlExample.exK2_nodup,
    Clarabel.Lemmas.KktQdldlExample.exK2_invperm,
    Clarabel.Lemmas.KktQdldlExample.exK2_dsigns,
    Clarabel.Lemmas.KktQdldlExample.exK2_quasiDefGE⟩

end qdldl

-- ====================================================================================
-- the scaling data come from the cone models (follow-up to round 3)
-- ====================================================================================

section scaling_models
open Clarabel.Lemmas.KktUpdateAsm Clarabel.Lemmas.KktScalingFits
open Clarabel.Lemmas.KktUpdateSchur

/-
  `scalingOfNonneg / scalingOfSoc / scalingOfGenPow / scalingOfSym3 / scalingOfPsd`
  (`Lemmas/KktScalingFits.lean`) read the `Kkt.ConeScaling` record — the input of C11's `update`
  theorems — off the state of the cone models of C13/C14 (the fields the Rust cone holds after
  `update_scaling`).  `SocShape K d`: `K.dim = d` and `K` carries `sparse_data` iff `d > 4`
  (what `SecondOrderCone::new(d)` establishes, `soc_new_shape`).
-/

/-- [F] `C11.update_genpow_mulHs_model`: **the `−mul_Hs` of `update_genpow_schur` /
`assemble_update_genpow_schur` is literally the cone model's `mul_Hs`** (`GenPow.mulHs`, model of
`genpowcone.rs::mul_Hs`; C14 `genpow_mulHs`): for a `Data` record with consistent lengths
(`layout_fits_genpow`) and `x = (x1, x2)`, the model succeeds and its `k`-th output is
`genpowMulHs μ D p̃ q̃ r̃ x k` — so eliminating the three auxiliary variables of the block that
`update` writes reproduces exactly the operator `H` that the generalised power cone applies, as
`update_soc_mulHs_model` shows for the second-order cone. -/
theorem update_genpow_mulHs_model (D : Clarabel.GenPow.Data ℝ) (μ : ℝ) (x1 x2 : List ℝ)
    (hx1 : x1.length = D.d1.size) (hx2 : x2.length = D.r.size)
    (hq : D.q.size = D.d1.size) (hp : D.p.size = D.d1.size + D.r.size) :
    ∃ yv, Clarabel.GenPow.mulHs D μ D.d1.size (x1 ++ x2).toArray = .ok yv ∧
      yv.size = D.d1.size + D.r.size ∧
      ∀ k : Fin (D.d1.size + D.r.size),
        yv[k.val]? = some (genpowMulHs μ (genpowD D.d1 D.d2) (placeAt D.p 0) (placeAt D.q 0)
          (placeAt D.r D.d1.size) (fun j => (x1 ++ x2).getD j.val 0) k) :=
  Clarabel.Lemmas.KktGenPowMulHs.genpow_mulHs_model D μ x1 x2 hx1 hx2 hq hp

/-- non-vacuity of `update_genpow_mulHs_model`: `dim1 = 2`, `dim2 = 1`. -/
example : ∃ (D : Clarabel.GenPow.Data ℝ) (x1 x2 : List ℝ), x1.length = D.d1.size ∧
    x2.length = D.r.size ∧ D.q.size = D.d1.size ∧ D.p.size = D.d1.size + D.r.size :=
  ⟨⟨#[0, 0, 0], #[1, 2, 3], #[4, 5], #[6], #[7, 8], 9⟩, [1, 1], [1], rfl, rfl, rfl, rfl⟩

section structural
variable {α : Type} [Add α] [Sub α] [Mul α] [Div α] [Neg α] [OfNat α 0] [OfNat α 1]
  [LT α] [DecidableLT α] [FloatLike α]

/-- [S] `C11.layout_fits_nonneg`: the data a nonnegative cone of dimension `d` holds after the
cone model's `update_scaling` (C13) fit `nonneg d`, and C11's `get_Hs` on them IS the cone model's
`get_Hs` (so `get_Hs` success is not a hypothesis for this cone). -/
theorem layout_fits_nonneg {K K' : Clarabel.Nonneg.Cone α} {s z : Array α} {d : Nat}
    (hd : K.w.size = d) (h : Clarabel.Nonneg.updateScaling K s z = .ok K') :
    ScalingFits (scalingOfNonneg K') (.nonneg d) ∧
      getHs (scalingOfNonneg K') = Clarabel.Nonneg.getHs K' K'.w.size :=
  ⟨nonneg_update_fits hd h, nonneg_getHs_eq K'⟩

/-- non-vacuity of `layout_fits_nonneg` (over ℝ): `d = 1`, `s = z = (1)`. -/
example : ∃ K' : Clarabel.Nonneg.Cone ℝ,
    Clarabel.Nonneg.updateScaling ⟨#[0], #[0]⟩ #[1] #[1] = .ok K' := ⟨_, rfl⟩

/-- [S] `C11.layout_fits_soc`: after a successful `update_scaling` of the second-order-cone
model (C13; success for interior `(s, z)`: `C13.soc_update_succeeds`) on an object with the shape
`SecondOrderCone::new(d)` gives it, the data fit `soc d` — dense form for `d ≤ 4`, sparse form
(`u, v, d`) above — the shape is kept, `|w| = d` and `|u| = |v| = d` (the hypotheses `husz`, `hvsz`
of `assemble_update_soc_schur`). -/
theorem layout_fits_soc {K K' : Clarabel.Soc.Cone α} {s z : Array α} {d : Nat}
    (hK : SocShape K d) (h : Clarabel.Soc.updateScaling K s z = .ok (true, K')) :
    ScalingFits (scalingOfSoc K') (.soc d) ∧ SocShape K' d ∧ K'.w.size = d ∧
      ∀ sp, K'.sparse = some sp → sp.u.size = d ∧ sp.v.size = d :=
  soc_update_fits hK h

/-- [S] `SecondOrderCone::new(d)` establishes the shape; C11's `get_Hs` on the data of a sparse
second-order cone IS the cone model's `get_Hs`. -/
theorem layout_soc_new_and_getHs {d : Nat} {K : Clarabel.Soc.Cone α}
    (h : Clarabel.Soc.new d = .ok K) :
    SocShape K d ∧ ∀ (K' : Clarabel.Soc.Cone α) (sp : Clarabel.Soc.Sparse α) (n : Nat),
      K'.sparse = some sp → K'.dim = n + 1 → getHs (scalingOfSoc K') = Clarabel.Soc.getHs K' :=
  ⟨soc_new_shape h, fun K' sp n hsp hd => soc_sparse_getHs_eq K' sp hsp n hd⟩

/-- non-vacuity of `layout_fits_soc` / `layout_soc_new_and_getHs` (over ℝ): `new(5)` succeeds
(sparse form), so `SocShape` holds for it. -/
example : ∃ K : Clarabel.Soc.Cone ℝ, Clarabel.Soc.new 5 = .ok K ∧ SocShape K 5 := by
  have h : ∃ K : Clarabel.Soc.Cone ℝ, Clarabel.Soc.new 5 = .ok K := ⟨_, rfl⟩
  obtain ⟨K, hK⟩ := h
  exact ⟨K, hK, soc_new_shape hK⟩

/-- [S] `C11.layout_fits_dense`: the packed `Hs` of the 3×3 scaling matrix of the exponential /
power cone models (C14 `Exp.updateScaling`, `Pow.updateScaling`: a `Sym3`, 6 entries) fits `exp`
and `pow`. -/
theorem layout_fits_dense (Hs : Clarabel.Sym3 α) :
    ScalingFits (scalingOfSym3 Hs) .exp ∧ ScalingFits (scalingOfSym3 Hs) .pow :=
  sym3_fits Hs

section genpow
variable [LE α] [DecidableLE α] [BEq α] [OfNat α 2] [OfNat α 3] [OfScientific α]

/-- [S] `C11.layout_fits_genpow`: after an ACCEPTED `update_scaling` of the generalised-power-cone
model (C14 `genpow_update_scaling_test`: accepted iff `ζ > 0`) with exponents `al` on a point of
length `|al| + dim2`, the stored data fit `genpow |al| dim2`, `|p| = dim1 + dim2`, `|q| = dim1`
(the hypotheses `hpsz`, `hqsz` of `assemble_update_genpow_schur`), and C11's `get_Hs` on them IS
the cone model's `get_Hs`. -/
theorem layout_fits_genpow {al z : Array α} {st st' : Clarabel.GenPow.State α} {mu : α}
    {dim2 : Nat} (hz : z.size = al.size + dim2)
    (h : Clarabel.GenPow.updateScaling al st z mu = .ok (true, st')) :
    ScalingFits (scalingOfGenPow st') (.genpow al.size dim2) ∧
      st'.D.p.size = st'.D.d1.size + st'.D.r.size ∧ st'.D.q.size = st'.D.d1.size ∧
      getHs (scalingOfGenPow st') = .ok (Clarabel.GenPow.getHs st'.D st'.mu st'.D.r.size) := by
  obtain ⟨h1, h2, h3⟩ := genpow_update_fits hz h
  exact ⟨h1, h2, h3, genpow_getHs_eq st'⟩

end genpow
end structural

/-- non-vacuity of `layout_fits_genpow` (over ℝ): `α = (½, ½)`, `z = (1, 1, ½)` is accepted
(C14 `updateScaling_accept`). -/
example : ∃ st' : Clarabel.GenPow.State ℝ,
    (([1, 1] : List ℝ) ++ [1 / 2]).toArray.size = ([1 / 2, 1 / 2] : List ℝ).toArray.size + 1 ∧
    Clarabel.GenPow.updateScaling ([1 / 2, 1 / 2] : List ℝ).toArray (Clarabel.GenPow.State.init 2 1)
      (([1, 1] : List ℝ) ++ [1 / 2]).toArray 1 = .ok (true, st') := by
  have hζ : 0 < Clarabel.GenPow.prodPhi [1 / 2, 1 / 2] [1, 1] - Clarabel.GenPow.sumSq [1 / 2] := by
    unfold Clarabel.GenPow.prodPhi Clarabel.GenPow.sumSq
    norm_num
  obtain ⟨D, _, h⟩ := Clarabel.GenPow.updateScaling_accept [1 / 2, 1 / 2] [1, 1] [1 / 2] rfl
    (Clarabel.GenPow.State.init 2 1) 1 hζ
  exact ⟨_, rfl, h⟩

/-- [S] `C11.layout_fits_psd`: the `Hs` that the PSD-cone model's `assembleScaling` (C13
`psd_assemble_spec`) stores fits `psd n` (`tri(tri n)` packed entries; over ℝ). -/
theorem layout_fits_psd {n : Nat} {L1 L2 U Vt sig : Array ℝ} {K : Clarabel.PsdTri.Cone ℝ}
    {RRt : Array ℝ} (h : Clarabel.PsdTri.assembleScaling n L1 L2 U Vt sig = .ok (K, RRt)) :
    ScalingFits (scalingOfPsd K) (.psd n) :=
  psd_assemble_fits h

/-- non-vacuity of `layout_fits_psd`: `n = 1`, all factors `(1)`. -/
example : ∃ (K : Clarabel.PsdTri.Cone ℝ) (RRt : Array ℝ),
    Clarabel.PsdTri.assembleScaling 1 #[1] #[1] #[1] #[1] #[1] = .ok (K, RRt) := ⟨_, _, rfl⟩

end scaling_models

-- ====================================================================================
-- round 4: the dense meaning of the assembled + updated + regularised matrix IS `listKkt`
-- ====================================================================================

section assembled_sym
open Clarabel.Lemmas.KktInertia Clarabel.Lemmas.KktInertiaList Clarabel.Lemmas.KktInertiaCones
open Clarabel.Lemmas.KktSpec Clarabel.Lemmas.KktUpdateAsm
open Clarabel.Lemmas.KktSymOfIdx Clarabel.Lemmas.KktSymOfEntries Clarabel.Lemmas.KktSymOfValues
open Clarabel.Lemmas.KktSymOfMain

/-
  Vocabulary (`Lemmas/KktSymOf{Idx,Entries,Values,Main}.lean`):
  * `mTot cones = Σ numel`, `pTot cones = Σ pdim`; `kktEquiv n cones N hN : Fin N ≃ KktIdx n cones`
    for `N = n + mTot + pTot`, inverse of the flat column `flatPos` (`flatPos_kktEquiv`);
  * `PdOf P n x x' = symOf P x x'`: the symmetric matrix whose upper triangle `P` stores;
  * `HOf cones blocks i = coneH cones[i] blocks[i]`: the vector that `get_Hs` reports for cone `i`,
    read as a symmetric matrix — the diagonal if `Hs_is_diagonal`, else the packed upper triangle;
  * `VOf cones scal i c a = coneV scal[i] c a`: minus the stored `c`-th MINUS auxiliary column at
    row `a`: `η²·v[a]` (second-order cone), `√μ·q[a]` on the first `dim1` rows / `√μ·r[a − dim1]` on
    the others (generalised power cone);
  * `eOf`, `epOf = coneE scal[i]`: modulus of the auxiliary diagonal: `η²` (`−η²` on the `v`
    variable, `+η²` on the `u` variable) resp. `1` (`−1, −1, +1`);
  * `couplingOf n cones S`: the block (cone rows and minus-auxiliary) × (primal and plus-auxiliary)
    of `S` — the rows of `A` and the `+` auxiliary columns (`−η²u`, `−√μ p`) as stored; `listKkt`
    is quasidefinite for ANY coupling;
  * `VecFits c`: `|u| = |v| = dim` (sparse second-order cone), `|p| = dim1 + dim2`, `|q| = dim1`
    (generalised power cone) — the lengths `update_scaling` gives them (`layout_fits_soc`,
    `layout_fits_genpow`).
-/

/-- [S] `C11.kkt_index_equiv`: **the columns of the assembled matrix are in bijection with the
structured indices of `listKkt`** — for every cone list, `flatPos` (primal `x ↦ x`; row `a` of
cone `i ↦ n + Σ_{j<i} numel + a`; auxiliary variable `c` of cone `i ↦ n + m + Σ_{j<i} pdim + c`, the
`−` variables first) is injective with range exactly `0 … N−1`, `N = n + Σ numel + Σ pdim`; `e` is
its inverse. -/
theorem kkt_index_equiv (n : Nat) (cones : List ConeSpec) (N : Nat)
    (hN : N = n + mTot cones + pTot cones) :
    ∃ e : Fin N ≃ KktIdx n cones, (∀ k, flatPos n cones (e k) = k.val) ∧
      Function.Injective (flatPos n cones) ∧ ∀ idx, flatPos n cones idx < N :=
  ⟨kktEquiv n cones N hN, flatPos_kktEquiv n cones N hN, flatPos_injective n cones,
    fun idx => by rw [hN]; exact flatPos_lt n cones idx⟩

/-- non-vacuity of `kkt_index_equiv`: the cone list `[nonneg 1, soc 5]` with `n = 2`: `N = 10`. -/
example : (10 : Nat) = 2 + mTot [.nonneg 1, .soc 5] + pTot [.nonneg 1, .soc 5] := by decide

variable {α : Type} [Field α] [LinearOrder α] [IsStrictOrderedRing α] [FloatLike α]

/-- [F] `C11.assembled_symOf_eq_listKkt`: **the dense symmetric meaning of the assembled + updated +
regularised KKT matrix IS `listKkt`, for every cone list** (zero, nonnegative, dense and sparse
second-order, exponential, power, generalised power, PSD cones, any number of expansions).
`K, map` are what `assemble_kkt_matrix` returns (upper triangle), `nz'` what `update` writes from
scaling data with the layout of the cone list, `nzF` the values handed to the LDL engine by
`regularize_and_refactor` with the signs of `_fill_signs`.  Then for all structured indices
`symOf {K with nzval := nzF} (flatPos a) (flatPos b) = listKkt Pd ep B H V e ε a b`, and, indexed by
the columns `Fin K.n` through the equivalence `e` of `kkt_index_equiv`, `symOf … i j = listKkt …
(e i) (e j)`: primal block `symOf P + εI`, for each cone `−[[Hᵢ + εI, Vᵢ], [Vᵢᵀ, diag(eᵢ) + εI]]`
with `Hᵢ` its `get_Hs` block and `Vᵢ, eᵢ` its expansion data, plus-auxiliary diagonal `ep + ε`,
coupling `B` as stored, `ε = r.eps` (`computeRegularizer`, `refinement_ldl_copy`), zero elsewhere. -/
theorem assembled_symOf_eq_listKkt {P A K : Csc α} {cones : List ConeSpec} {map : LDLDataMap}
    (hin : KktInputs P A cones) (hasm : assembleKktMatrix P A cones .triu = .ok (K, map))
    (scal : List (ConeScaling α)) (hfits : LayoutFits scal cones)
    (hvec : ∀ i (hi : i < scal.length), VecFits scal[i]) (nz' : Array α)
    (hup : updateValues K.nzval map scal = .ok nz') (blocks : List (Array α))
    (hget : scal.mapM getHs = .ok blocks)
    (ds : Array Int) (hds : fillSigns A.m A.n map.sparse_maps = .ok ds) (cst prp : α)
    (rr : Regularized α) (nzF : Array α)
    (hreg : regularizeAndRestore nz' map.diag_full ds true cst prp = .ok (rr, nzF)) :
    (∀ a b : KktIdx A.n cones,
      Clarabel.Qdldl.symOf ({ K with nzval := nzF } : Csc α) (flatPos A.n cones a)
          (flatPos A.n cones b)
        = listKkt (PdOf P A.n) (epOf cones scal)
            (couplingOf A.n cones (Clarabel.Qdldl.symOf ({ K with nzval := nzF } : Csc α)))
            (HOf cones blocks) (VOf cones scal) (eOf cones scal) rr.eps a b) ∧
    ∀ i j : Fin K.n,
      Clarabel.Qdldl.symOf ({ K with nzval := nzF } : Csc α) i.val j.val
        = listKkt (PdOf P A.n) (epOf cones scal)
            (couplingOf A.n cones (Clarabel.Qdldl.symOf ({ K with nzval := nzF } : Csc α)))
            (HOf cones blocks) (VOf cones scal) (eOf cones scal) rr.eps
            (kktEquiv A.n cones K.n (asm_order hin hasm) i)
            (kktEquiv A.n cones K.n (asm_order hin hasm) j) := by
  have h := Clarabel.Lemmas.KktSymOfMain.assembled_symOf_eq_listKkt hin hasm scal hfits hvec nz' hup
    blocks hget ds hds cst prp rr nzF hreg
  refine ⟨h, fun i j => ?_⟩
  rw [← h, flatPos_kktEquiv, flatPos_kktEquiv]

/-- non-vacuity of `assembled_symOf_eq_listKkt` (over ℝ, `Lemmas/KktSymOfExample.lean`): `P = 0`
(2×2, both diagonal entries filled in), `A` 6×2, cones `[nonneg 1, soc 5]` (one sparse expansion),
scaling `w = e₀`, `η = 1`, static regulariser `1`: every hypothesis holds for what the model's own
`assemble_kkt_matrix`, `update`, `_fill_signs`, `regularize_and_refactor` return. -/
example : ∃ (P A K : Csc ℝ) (cones : List ConeSpec) (map : LDLDataMap)
    (scal : List (ConeScaling ℝ)) (nz' : Array ℝ) (blocks : List (Array ℝ)) (ds : Array Int)
    (rr : Regularized ℝ) (nzF : Array ℝ),
    KktInputs P A cones ∧ assembleKktMatrix P A cones .triu = .ok (K, map) ∧
    LayoutFits scal cones ∧ (∀ i (hi : i < scal.length), VecFits scal[i]) ∧
    updateValues K.nzval map scal = .ok nz' ∧ scal.mapM getHs = .ok blocks ∧
    fillSigns A.m A.n map.sparse_maps = .ok ds ∧
    regularizeAndRestore nz' map.diag_full ds true 1 0 = .ok (rr, nzF) := by
  obtain ⟨K, map, scal, nz', blocks, ds, rr, nzF, h1, h2, h3, h4, h5, h6, h7, _⟩ :=
    Clarabel.Lemmas.KktSymOfExample.exAssembled
  exact ⟨_, _, K, _, map, scal, nz', blocks, ds, rr, nzF,
    Clarabel.Lemmas.KktSymOfExample.exInputs, h1, h2, h3, h4, h5, h6, h7⟩

/-- [F] the hypothesis `hform` of `kkt_factorisation_signs_assembled` for a cone WITHOUT sparse
expansion (zero, nonnegative, small second-order, exponential, power, PSD): its `get_Hs` block is
positive semidefinite (C13 `nn_getHs_eq_mulHs`, `soc_dense_getHs_eq_mulHs`, `psd_getHs_eq_mulHs`;
C14 `pd_scaling_posdef`) — `cone_form_nonsparse` on the blocks of `assembled_symOf_eq_listKkt`. -/
theorem assembled_form_nonsparse {cones : List ConeSpec} (blocks : List (Array α))
    (scal : List (ConeScaling α)) (i : Fin cones.length) (h0 : nMinus cones[i] = 0)
    (hH : ∀ y, 0 ≤ qf (HOf cones blocks i) y) (y : Fin (cones[i].numel) → α)
    (s : Fin (nMinus cones[i]) → α) :
    0 ≤ expForm (HOf cones blocks i) (VOf cones scal i) (eOf cones scal i) y s :=
  form_of_nonsparse blocks scal i h0 hH y s

/-- [F] … for a SPARSE second-order cone: the scaling data `η, u, v, d` that `update` reads satisfy
the defining equations `SocSparse` of `update_scaling` (`v = socV v1 w1`; C13
`soc_update_sparse_data`) — `cone_form_soc` on the blocks of `assembled_symOf_eq_listKkt`. -/
theorem assembled_form_soc {cones : List ConeSpec} (scal : List (ConeScaling α))
    (hfits : LayoutFits scal cones) (blocks : List (Array α))
    (hget : scal.mapM getHs = .ok blocks) (i : Fin cones.length) {k : ℕ}
    (hci : cones[i] = .soc (k + 1)) (hbig : k + 1 > socNoExpansionMaxSize) {η d : α}
    {u v : Array α} (hsc : scalAt scal i.val = .socSparse (k + 1) η u v d)
    {w0 u0 u1 v1 : α} {w1 : Fin k → α}
    (hvk : ∀ j : Fin (k + 1), v.getD j.val 0 = Clarabel.Lemmas.KktExpansion.socV v1 w1 j)
    (hs : Clarabel.Lemmas.KktExpansion.SocSparse w0 w1 d u0 u1 v1)
    (y : Fin (cones[i].numel) → α) (s : Fin (nMinus cones[i]) → α) :
    0 ≤ expForm (HOf cones blocks i) (VOf cones scal i) (eOf cones scal i) y s :=
  form_soc scal hfits blocks hget i hci hbig hsc hvk hs y s

/-- non-vacuity of `assembled_form_nonsparse` / `assembled_form_soc`: on the example both apply (to
the nonnegative cone and to the sparse second-order cone), giving `hform` for the whole list. -/
example : ∃ (blocks : List (Array ℝ)) (scal : List (ConeScaling ℝ)),
    ∀ i y s, 0 ≤ expForm (HOf Clarabel.Lemmas.KktSymOfExample.exCones blocks i)
      (VOf Clarabel.Lemmas.KktSymOfExample.exCones scal i)
      (eOf Clarabel.Lemmas.KktSymOfExample.exCones scal i) y s := by
  obtain ⟨K, map, scal, nz', blocks, ds, rr, nzF, _, _, _, _, _, _, _, _, _, h⟩ :=
    Clarabel.Lemmas.KktSymOfExample.exAssembled
  exact ⟨blocks, scal, h⟩

variable [LawfulFloatLike α]

/-- [F] `C11.kkt_factorisation_signs_assembled`: **`kkt_factorisation_signs` WITHOUT the
quasidefiniteness hypothesis — for the model's own assemble + update + regularise.**  `K, map` from
`assemble_kkt_matrix`, `nz'` from `update` (scaling data with the layout of the cone list), `ds` from
`_fill_signs`, `nzF` from `regularize_and_refactor` with `ε = r.eps > 0`; `P ⪰ 0` and every cone's
bordered block `[[Hᵢ, Vᵢ],[Vᵢᵀ, diag eᵢ]]` has a nonnegative form (`assembled_form_nonsparse`,
`assembled_form_soc`, `cone_form_genpow`: what C13/C14 supply).  Then for ANY valid permutation
`perm` and dynamic-regularisation threshold `eps ≤ ε`, the model of
`QDLDLFactorisation::new({K with nzval := nzF}, perm, ds, …)`
* with dynamic regularisation on (`eps > 0`, `delta ≠ 0`) returns a factorisation — no `ZeroPivot`,
  no panic;
* every returned `F` has, for every row `r` of the permuted matrix, `D[r] ≥ ε` where
  `ds[perm[r]] = +1` and `D[r] ≤ −ε` where `ds[perm[r]] = −1` (one of the two holds);
* `regularize_count = 0`, and `positive_inertia = n + Σ nPlus` (`n` plus one per sparse expansion). -/
theorem kkt_factorisation_signs_assembled {P A K : Csc α} {cones : List ConeSpec}
    {map : LDLDataMap} (hin : KktInputs P A cones)
    (hasm : assembleKktMatrix P A cones .triu = .ok (K, map))
    (scal : List (ConeScaling α)) (hfits : LayoutFits scal cones)
    (hvec : ∀ i (hi : i < scal.length), VecFits scal[i]) (nz' : Array α)
    (hup : updateValues K.nzval map scal = .ok nz') (blocks : List (Array α))
    (hget : scal.mapM getHs = .ok blocks)
    (ds : Array Int) (hds : fillSigns A.m A.n map.sparse_maps = .ok ds) (cst prp : α)
    (rr : Regularized α) (nzF : Array α)
    (hreg : regularizeAndRestore nz' map.diag_full ds true cst prp = .ok (rr, nzF))
    (hP : PosSemidef (PdOf P A.n))
    (hform : ∀ i y s, 0 ≤ expForm (HOf cones blocks i) (VOf cones scal i) (eOf cones scal i) y s)
    (hε : 0 < rr.eps) (hn : 0 < K.n)
    (perm iperm : Array Nat) (hip : Clarabel.Perm.invperm perm = .ok iperm)
    (hps : perm.size = K.n) (enable : Bool) (eps delta : α) (heps : eps ≤ rr.eps) :
    (enable = true → 0 < eps → delta ≠ 0 →
      ∃ F, Clarabel.Qdldl.new ({ K with nzval := nzF } : Csc α) perm (some ds) enable eps delta false
        = .ok F) ∧
    ∀ F, Clarabel.Qdldl.new ({ K with nzval := nzF } : Csc α) perm (some ds) enable eps delta false
        = .ok F →
      (∀ r, r < K.n → perm.getD r 0 < K.n ∧
        ((ds.getD (perm.getD r 0) 0 = 1 ∧ rr.eps ≤ F.D.getD r 0) ∨
         (ds.getD (perm.getD r 0) 0 = -1 ∧ F.D.getD r 0 ≤ -rr.eps))) ∧
      F.regularizeCount = 0 ∧
      F.positiveInertia = A.n + ∑ i : Fin cones.length, nPlus cones[i] := by
  obtain ⟨_, hsz⟩ := assembled_sizes hin hasm scal nz' hup ds cst prp rr nzF hreg
  obtain ⟨hw, hc, hnd, _⟩ := kkt_is_qdldl_input hin hasm nzF hsz
  obtain ⟨hdsz, hdsv⟩ := assembled_signs_getD hin hasm ds hds
  have hQ := assembled_quasiDefGE hin hasm scal hfits hvec nz' hup blocks hget ds hds cst prp rr nzF
    hreg hP hform
  have key := kkt_factorisation_signs ({ K with nzval := nzF } : Csc α) hw hc hnd hn perm iperm hip
    hps ds hdsz (fun i => (kktEquiv A.n cones K.n (asm_order hin hasm) i).isLeft) hdsv enable eps
    delta rr.eps hQ hε heps
  refine ⟨key.1, fun F hF => ?_⟩
  obtain ⟨h1, h2, h3⟩ := key.2 F hF
  refine ⟨fun r hr => ?_, h2, ?_⟩
  · obtain ⟨hpr, e1, e2⟩ := h1 r hr
    refine ⟨hpr, ?_⟩
    by_cases hs : (kktEquiv A.n cones K.n (asm_order hin hasm) ⟨perm.getD r 0, hpr⟩).isLeft = true
    · left
      rw [if_pos hs] at e1 e2
      exact ⟨e1, e2⟩
    · right
      rw [if_neg hs] at e1 e2
      exact ⟨e1, e2⟩
  · rw [h3]
    exact (assembled_plus_count hin hasm).trans (positive_inertia_count A.n cones)

/-- non-vacuity of `kkt_factorisation_signs_assembled` (over ℝ): the example of
`assembled_symOf_eq_listKkt` also satisfies `P ⪰ 0`, `hform`, `ε = 1 > 0`, `0 < K.n`; any valid
permutation of the 10 columns (e.g. the reversed one) and any `eps ≤ 1` complete the hypotheses. -/
example : ∃ (P A K : Csc ℝ) (cones : List ConeSpec) (map : LDLDataMap)
    (scal : List (ConeScaling ℝ)) (nz' : Array ℝ) (blocks : List (Array ℝ)) (ds : Array Int)
    (rr : Regularized ℝ) (nzF : Array ℝ) (iperm : Array Nat),
    KktInputs P A cones ∧ assembleKktMatrix P A cones .triu = .ok (K, map) ∧
    LayoutFits scal cones ∧ (∀ i (hi : i < scal.length), VecFits scal[i]) ∧
    updateValues K.nzval map scal = .ok nz' ∧ scal.mapM getHs = .ok blocks ∧
    fillSigns A.m A.n map.sparse_maps = .ok ds ∧
    regularizeAndRestore nz' map.diag_full ds true 1 0 = .ok (rr, nzF) ∧
    PosSemidef (PdOf P A.n) ∧
    (∀ i y s, 0 ≤ expForm (HOf cones blocks i) (VOf cones scal i) (eOf cones scal i) y s) ∧
    0 < rr.eps ∧ 0 < K.n ∧
    Clarabel.Perm.invperm #[9, 8, 7, 6, 5, 4, 3, 2, 1, 0] = .ok iperm ∧
    (#[9, 8, 7, 6, 5, 4, 3, 2, 1, 0] : Array Nat).size = K.n := by
  obtain ⟨K, map, scal, nz', blocks, ds, rr, nzF, h1, h2, h3, h4, h5, h6, h7, h8, h9, h10⟩ :=
    Clarabel.Lemmas.KktSymOfExample.exAssembled
  refine ⟨_, _, K, _, map, scal, nz', blocks, ds, rr, nzF, #[9, 8, 7, 6, 5, 4, 3, 2, 1, 0],
    Clarabel.Lemmas.KktSymOfExample.exInputs, h1, h2, h3, h4, h5, h6, h7,
    Clarabel.Lemmas.KktSymOfExample.exP_psd, h10, h8, h9, by rfl, ?_⟩
  rw [asm_order Clarabel.Lemmas.KktSymOfExample.exInputs h1]
  decide

end assembled_sym

end Clarabel.C11

-- ====================================================================================
-- round 5 follow-up: every pass of the interior-point loop; static regularisation alone;
-- dense second-order cone and generalised power cone blocks from the cone models
-- ====================================================================================

namespace Clarabel.C11
open Clarabel Clarabel.Csc Clarabel.Kkt

/-
  Vocabulary (`ClarabelModel/KktPasses.lean`, `Lemmas/KktPasses.lean`):
  * `updatePass nz map ds enable const prop scal`: one call of `DirectLDLKKTSolver::update` on the
    current value array `nz` — `update` (`updateValues`) then `regularize_and_refactor`
    (`regularizeAndRestore`); output: the refinement copy `nzval`, the values the LDL engine
    factorised `nzFactor`, the regulariser `eps`;
  * `runPasses map ds enable const prop nz hist`: one such call per entry of `hist` (the scaling
    data of the successive passes), each on the value array the previous one left;
  * `finalNz nz outs`: the value array after the passes with outputs `outs`;
  * `VecLens c`: `|u| = |v| = dim`, `|p| = dim1 + dim2`, `|q| = dim1` (= `VecFits`, scalar-generic).
-/

section every_pass_structural
open Clarabel.Lemmas.KktSpec Clarabel.Lemmas.KktUpdateAsm Clarabel.Lemmas.KktPasses

variable {α : Type} [Add α] [Sub α] [Mul α] [Div α] [Neg α] [OfNat α 0] [OfNat α 1] [LT α]
  [DecidableLT α] [FloatLike α]

/-- [S] `C11.pass_history_independent`: **`update` at any pass of the interior-point loop is
`update` right after the assembly.**  `K, map` from `assemble_kkt_matrix` (either triangle); `hist`
ANY sequence of earlier calls of `update` that returned (whatever their scaling data, whether the
static regularisation was on, with which constants); `scal` the scaling data of the current pass,
with the layout of the cone list and expansion vectors of the lengths `update_scaling` gives them.
Then the call of `update` on the value array left by the history returns bit for bit what the call
on the freshly assembled array returns — same refinement copy, same values handed to the LDL
engine, same regulariser (same error, if `get_Hs` fails): every scaling-dependent position of
`KKT.nzval` is overwritten with values that do not depend on its old content, nothing else is
written, and `regularize_and_refactor` restores the unregularised diagonal before it returns. -/
theorem pass_history_independent {P A K : Csc α} {cones : List ConeSpec} {shape : MatrixTriangle}
    {map : LDLDataMap} (hin : KktInputs P A cones)
    (hasm : assembleKktMatrix P A cones shape = .ok (K, map)) (ds0 : Array Int) (en0 : Bool)
    (c0 p0 : α) (hist : List (List (ConeScaling α))) (outs : List (PassOut α))
    (hrun : runPasses map ds0 en0 c0 p0 K.nzval hist = .ok outs)
    (scal : List (ConeScaling α)) (hfits : LayoutFits scal cones)
    (hvec : ∀ c ∈ scal, VecLens c) (ds : Array Int) (en : Bool) (c p : α) :
    updateValues (finalNz K.nzval outs) map scal = updateValues K.nzval map scal ∧
    updatePass (finalNz K.nzval outs) map ds en c p scal = updatePass K.nzval map ds en c p scal :=
  ⟨updateValues_start_irrelevant hin hasm scal hfits hvec _
      (runPasses_startOK hin hasm ds0 en0 c0 p0 hist K.nzval outs (startOK_self K map) hrun),
    by
      have hs := runPasses_startOK hin hasm ds0 en0 c0 p0 hist K.nzval outs (startOK_self K map) hrun
      unfold updatePass
      rw [updateValues_start_irrelevant hin hasm scal hfits hvec _ hs]⟩

/-- [S] `C11.passes_last_is_fresh`: **the outputs of the LAST pass of any history are those of a
fresh `assemble + update` with the last scaling data alone** — the model-side statement of the
harness oracle "history independence" (`kkt.update`, histories `twice` / `ident`; `kkt.passes`). -/
theorem passes_last_is_fresh {P A K : Csc α} {cones : List ConeSpec} {shape : MatrixTriangle}
    {map : LDLDataMap} (hin : KktInputs P A cones)
    (hasm : assembleKktMatrix P A cones shape = .ok (K, map)) (ds : Array Int) (en : Bool)
    (c p : α) (hist : List (List (ConeScaling α))) (scal : List (ConeScaling α))
    (hfits : LayoutFits scal cones) (hvec : ∀ c ∈ scal, VecLens c) (outs : List (PassOut α))
    (hrun : runPasses map ds en c p K.nzval (hist ++ [scal]) = .ok outs) :
    ∃ init o, outs = init ++ [o] ∧ updatePass K.nzval map ds en c p scal = .ok o :=
  runPasses_last hin hasm ds en c p hist scal hfits hvec outs hrun

/-- [S] `C11.passes_keep_PA`: after any sequence of passes the value array has the assembled length
and still holds the assembled value at every position that is neither an Hs position nor a position
of a sparse expansion map (the entries of `P` and `A`, the filled-in diagonal zeros). -/
theorem passes_keep_PA {P A K : Csc α} {cones : List ConeSpec} {shape : MatrixTriangle}
    {map : LDLDataMap} (hin : KktInputs P A cones)
    (hasm : assembleKktMatrix P A cones shape = .ok (K, map)) (ds : Array Int) (en : Bool)
    (c p : α) (hist : List (List (ConeScaling α))) (outs : List (PassOut α))
    (hrun : runPasses map ds en c p K.nzval hist = .ok outs) :
    (finalNz K.nzval outs).size = K.nzval.size ∧
    ∀ j, j ∉ map.Hsblocks.toList →
      (∀ mp ∈ map.sparse_maps.toList, j ∉ Clarabel.Kkt.SparseMap.indices mp) →
      (finalNz K.nzval outs)[j]? = K.nzval[j]? := by
  have hs := runPasses_startOK hin hasm ds en c p hist K.nzval outs (startOK_self K map) hrun
  refine ⟨hs.1, fun j h1 h2 => hs.2 j ?_⟩
  rintro (h | ⟨mp, hmp, h⟩)
  · exact h1 h
  · exact h2 mp hmp h

end every_pass_structural

section every_pass
open Clarabel.Lemmas.KktInertia Clarabel.Lemmas.KktInertiaList Clarabel.Lemmas.KktInertiaCones
open Clarabel.Lemmas.KktSpec Clarabel.Lemmas.KktUpdateAsm
open Clarabel.Lemmas.KktSymOfIdx Clarabel.Lemmas.KktSymOfEntries Clarabel.Lemmas.KktSymOfValues
open Clarabel.Lemmas.KktSymOfMain Clarabel.Lemmas.KktPasses

variable {α : Type} [Field α] [LinearOrder α] [IsStrictOrderedRing α] [FloatLike α]

/-- [F] `C11.pass_symOf_eq_listKkt`: **at EVERY pass the dense symmetric meaning of the matrix handed
to the LDL engine is `listKkt` with the CURRENT Hs blocks, the current expansion data and the
regularised diagonal** — `assembled_symOf_eq_listKkt` with the freshly assembled value array
replaced by whatever any history `hist` of earlier passes left. -/
theorem pass_symOf_eq_listKkt {P A K : Csc α} {cones : List ConeSpec} {map : LDLDataMap}
    (hin : KktInputs P A cones) (hasm : assembleKktMatrix P A cones .triu = .ok (K, map))
    (ds0 : Array Int) (en0 : Bool) (c0 p0 : α) (hist : List (List (ConeScaling α)))
    (outs : List (PassOut α)) (hrun : runPasses map ds0 en0 c0 p0 K.nzval hist = .ok outs)
    (scal : List (ConeScaling α)) (hfits : LayoutFits scal cones)
    (hvec : ∀ i (hi : i < scal.length), VecFits scal[i]) (nz' : Array α)
    (hup : updateValues (finalNz K.nzval outs) map scal = .ok nz') (blocks : List (Array α))
    (hget : scal.mapM getHs = .ok blocks)
    (ds : Array Int) (hds : fillSigns A.m A.n map.sparse_maps = .ok ds) (cst prp : α)
    (rr : Regularized α) (nzF : Array α)
    (hreg : regularizeAndRestore nz' map.diag_full ds true cst prp = .ok (rr, nzF)) :
    (∀ a b : KktIdx A.n cones,
      Clarabel.Qdldl.symOf ({ K with nzval := nzF } : Csc α) (flatPos A.n cones a)
          (flatPos A.n cones b)
        = listKkt (PdOf P A.n) (epOf cones scal)
            (couplingOf A.n cones (Clarabel.Qdldl.symOf ({ K with nzval := nzF } : Csc α)))
            (HOf cones blocks) (VOf cones scal) (eOf cones scal) rr.eps a b) ∧
    updateValues K.nzval map scal = .ok nz' :=
  ⟨Clarabel.Lemmas.KktPasses.pass_symOf_eq_listKkt hin hasm ds0 en0 c0 p0 hist outs hrun scal hfits
      hvec nz' hup blocks hget ds hds cst prp rr nzF hreg,
    by rw [← update_after_history hin hasm ds0 en0 c0 p0 hist outs hrun scal hfits hvec]; exact hup⟩

variable [LawfulFloatLike α]

/-- [F] `C11.kkt_factorisation_signs_every_pass`: **`kkt_factorisation_signs_assembled` at EVERY
pass of the interior-point loop.**  After ANY history `hist` of earlier calls of `update` (any
scaling data; they only have to return), for the call with the current scaling data `scal` (layout
of the cone list), regulariser `ε = r.eps > 0`, `P ⪰ 0` and nonnegative bordered cone forms: for ANY
valid permutation and threshold `eps ≤ ε`, `QDLDLFactorisation::new` on the values handed to the LDL
engine returns a factorisation when the dynamic regularisation is on (no `ZeroPivot`, no panic),
every returned `D[r]` has the sign `ds[perm[r]]` and modulus `≥ ε`, `regularize_count = 0`,
`positive_inertia = n + Σ nPlus`. -/
theorem kkt_factorisation_signs_every_pass {P A K : Csc α} {cones : List ConeSpec}
    {map : LDLDataMap} (hin : KktInputs P A cones)
    (hasm : assembleKktMatrix P A cones .triu = .ok (K, map))
    (ds0 : Array Int) (en0 : Bool) (c0 p0 : α) (hist : List (List (ConeScaling α)))
    (outs : List (PassOut α)) (hrun : runPasses map ds0 en0 c0 p0 K.nzval hist = .ok outs)
    (scal : List (ConeScaling α)) (hfits : LayoutFits scal cones)
    (hvec : ∀ i (hi : i < scal.length), VecFits scal[i]) (nz' : Array α)
    (hup : updateValues (finalNz K.nzval outs) map scal = .ok nz') (blocks : List (Array α))
    (hget : scal.mapM getHs = .ok blocks)
    (ds : Array Int) (hds : fillSigns A.m A.n map.sparse_maps = .ok ds) (cst prp : α)
    (rr : Regularized α) (nzF : Array α)
    (hreg : regularizeAndRestore nz' map.diag_full ds true cst prp = .ok (rr, nzF))
    (hP : PosSemidef (PdOf P A.n))
    (hform : ∀ i y s, 0 ≤ expForm (HOf cones blocks i) (VOf cones scal i) (eOf cones scal i) y s)
    (hε : 0 < rr.eps) (hn : 0 < K.n)
    (perm iperm : Array Nat) (hip : Clarabel.Perm.invperm perm = .ok iperm)
    (hps : perm.size = K.n) (enable : Bool) (eps delta : α) (heps : eps ≤ rr.eps) :
    (enable = true → 0 < eps → delta ≠ 0 →
      ∃ F, Clarabel.Qdldl.new ({ K with nzval := nzF } : Csc α) perm (some ds) enable eps delta false
        = .ok F) ∧
    ∀ F, Clarabel.Qdldl.new ({ K with nzval := nzF } : Csc α) perm (some ds) enable eps delta false
        = .ok F →
      (∀ r, r < K.n → perm.getD r 0 < K.n ∧
        ((ds.getD (perm.getD r 0) 0 = 1 ∧ rr.eps ≤ F.D.getD r 0) ∨
         (ds.getD (perm.getD r 0) 0 = -1 ∧ F.D.getD r 0 ≤ -rr.eps))) ∧
      F.regularizeCount = 0 ∧
      F.positiveInertia = A.n + ∑ i : Fin cones.length, nPlus cones[i] := by
  rw [update_after_history hin hasm ds0 en0 c0 p0 hist outs hrun scal hfits hvec] at hup
  exact kkt_factorisation_signs_assembled hin hasm scal hfits hvec nz' hup blocks hget ds hds cst prp
    rr nzF hreg hP hform hε hn perm iperm hip hps enable eps delta heps

/-- non-vacuity of `pass_history_independent`, `passes_last_is_fresh`, `passes_keep_PA`,
`pass_symOf_eq_listKkt`, `kkt_factorisation_signs_every_pass` and (below) `kkt_no_zero_pivot_assembled`
(over ℝ, `Lemmas/KktPassesMain.lean` `exPasses`): the example
of `assembled_symOf_eq_listKkt` with ONE EARLIER PASS (history of length 1, regulariser `1`): the
history runs, the second `update` on the array it left returns, and all other hypotheses hold. -/
example : ∃ (P A K : Csc ℝ) (cones : List ConeSpec) (map : LDLDataMap)
    (scal : List (ConeScaling ℝ)) (nz' : Array ℝ) (blocks : List (Array ℝ)) (ds : Array Int)
    (rr : Regularized ℝ) (nzF : Array ℝ) (outs : List (PassOut ℝ)) (iperm : Array Nat),
    KktInputs P A cones ∧ assembleKktMatrix P A cones .triu = .ok (K, map) ∧
    LayoutFits scal cones ∧ (∀ i (hi : i < scal.length), VecFits scal[i]) ∧
    (∀ c ∈ scal, VecLens c) ∧
    runPasses map ds true 1 0 K.nzval [scal] = .ok outs ∧ outs.length = 1 ∧
    updateValues (finalNz K.nzval outs) map scal = .ok nz' ∧ scal.mapM getHs = .ok blocks ∧
    fillSigns A.m A.n map.sparse_maps = .ok ds ∧
    regularizeAndRestore nz' map.diag_full ds true 1 0 = .ok (rr, nzF) ∧
    PosSemidef (PdOf P A.n) ∧
    (∀ i y s, 0 ≤ expForm (HOf cones blocks i) (VOf cones scal i) (eOf cones scal i) y s) ∧
    0 < rr.eps ∧ 0 < K.n ∧
    Clarabel.Perm.invperm #[9, 8, 7, 6, 5, 4, 3, 2, 1, 0] = .ok iperm ∧
    (#[9, 8, 7, 6, 5, 4, 3, 2, 1, 0] : Array Nat).size = K.n := by
  obtain ⟨K, map, scal, nz', blocks, ds, rr, nzF, outs, h1, h2, h3, hrun, hlen, h4, h5, h6, h7, h8,
    h9, h10⟩ := exPasses
  refine ⟨_, _, K, _, map, scal, nz', blocks, ds, rr, nzF, outs,
    #[9, 8, 7, 6, 5, 4, 3, 2, 1, 0], Clarabel.Lemmas.KktSymOfExample.exInputs, h1, h2, h3,
    vecLens_of_vecFits h3, hrun, hlen, h4, h5, h6, h7, Clarabel.Lemmas.KktSymOfExample.exP_psd, h10,
    h8, h9, by rfl, ?_⟩
  rw [asm_order Clarabel.Lemmas.KktSymOfExample.exInputs h1]
  decide

end every_pass

-- ------------------------------------------------------------------ static regularisation alone

section static_only
open Clarabel.Lemmas.KktInertia Clarabel.Lemmas.KktInertiaList Clarabel.Lemmas.KktInertiaCones
open Clarabel.Lemmas.KktSpec Clarabel.Lemmas.KktUpdateAsm
open Clarabel.Lemmas.KktSymOfIdx Clarabel.Lemmas.KktSymOfEntries Clarabel.Lemmas.KktSymOfValues
open Clarabel.Lemmas.KktSymOfMain Clarabel.Lemmas.KktPasses

variable {α : Type} [Field α] [LinearOrder α] [IsStrictOrderedRing α] [FloatLike α]

/-- [F] `C11.kkt_no_zero_pivot_static`: **no `ZeroPivot` with the dynamic regularisation OFF, for ANY
permutation** — Vanderbei on the composed models of C11 and C12.  `K` a valid QDLDL input whose
symmetric meaning is quasidefinite with margin `ε > 0` for the pattern `s` (the statically
regularised KKT matrix: `inertia_cone_list`, `assembled_quasiDefGE`), `perm` ANY valid ordering,
`eps`, `delta` arbitrary (they are not read).  Then `QDLDLFactorisation::new(K, perm, dsigns,
regularize_enable = false, …)` returns a factorisation object — never `ZeroPivot` — and for every
returned object `D[r]` is exactly the `r`-th pivot `refPivot` of the reference elimination (C12) of
`Π Sym(K) Πᵀ`, has the sign `s (perm[r])` and modulus `≥ ε`; `regularize_count = 0`,
`positive_inertia = #{i | s i}`. -/
theorem kkt_no_zero_pivot_static (K : Csc α) (hw : Clarabel.Qdldl.wellFormed K = true)
    (hc : Clarabel.Qdldl.checkStructure K = .ok ())
    (hnd : Clarabel.Qdldl.NoDupCols K.colptr K.rowval) (hn : 0 < K.n)
    (perm iperm : Array Nat) (hip : Clarabel.Perm.invperm perm = .ok iperm) (hps : perm.size = K.n)
    (ds : Array Int) (hdsz : K.n ≤ ds.size) (s : Fin K.n → Bool) (eps delta ε : α)
    (hQ : QuasiDefGE (fun i j : Fin K.n => Clarabel.Qdldl.symOf K i.val j.val) s Finset.univ ε)
    (hε : 0 < ε) :
    (∃ F, Clarabel.Qdldl.new K perm (some ds) false eps delta false = .ok F) ∧
    Clarabel.Qdldl.new K perm (some ds) false eps delta false ≠ .error Clarabel.Qdldl.errZeroPivot ∧
    ∀ F, Clarabel.Qdldl.new K perm (some ds) false eps delta false = .ok F →
      (∀ r, r < K.n → ∃ hpr : perm.getD r 0 < K.n,
        (if s ⟨perm.getD r 0, hpr⟩ then ε ≤ F.D.getD r 0 else F.D.getD r 0 ≤ -ε) ∧
        F.D.getD r 0 = Clarabel.Qdldl.refPivot (Clarabel.Qdldl.permSym K perm) r) ∧
      F.regularizeCount = 0 ∧
      F.positiveInertia = (Finset.univ.filter (fun i : Fin K.n => s i = true)).card := by
  obtain ⟨h1, h2, h3⟩ := Clarabel.Qdldl.new_ok_of_quasiDef K hw hc hnd hn perm iperm hip hps ds hdsz
    s eps delta ε hQ hε
  refine ⟨h1, h2, fun F hF => ⟨h3 F hF, ?_⟩⟩
  exact Clarabel.Qdldl.new_static_counts K hw hc hnd hn perm iperm hip hps ds hdsz s eps delta ε hQ
    hε F hF

/-- non-vacuity of `kkt_no_zero_pivot_static` (over ℝ): `K = [[2, 1], [1, −3]]`, reversed ordering,
`ε = 1` (the example of `kkt_factorisation_signs`). -/
example : Clarabel.Qdldl.wellFormed Clarabel.Lemmas.KktQdldlExample.exK2 = true ∧
    Clarabel.Qdldl.checkStructure Clarabel.Lemmas.KktQdldlExample.exK2 = .ok () ∧
    Clarabel.Qdldl.NoDupCols Clarabel.Lemmas.KktQdldlExample.exK2.colptr
      Clarabel.Lemmas.KktQdldlExample.exK2.rowval ∧
    0 < Clarabel.Lemmas.KktQdldlExample.exK2.n ∧
    Clarabel.Perm.invperm #[1, 0] = .ok #[1, 0] ∧
    (#[1, 0] : Array Nat).size = Clarabel.Lemmas.KktQdldlExample.exK2.n ∧
    Clarabel.Lemmas.KktQdldlExample.exK2.n ≤ (#[1, -1] : Array Int).size ∧
    QuasiDefGE (fun i j : Fin 2 =>
      Clarabel.Qdldl.symOf Clarabel.Lemmas.KktQdldlExample.exK2 i.val j.val)
      Clarabel.Lemmas.KktQdldlExample.exS2 Finset.univ (1 : ℝ) ∧ (0 : ℝ) < 1 :=
  ⟨Clarabel.Lemmas.KktQdldlExample.exK2_wellFormed,
    Clarabel.Lemmas.KktQdldlExample.exK2_checkStructure,
    Clarabel.Lemmas.KktQdldlExample.exK2_nodup, by decide,
    Clarabel.Lemmas.KktQdldlExample.exK2_invperm, rfl, by decide,
    Clarabel.Lemmas.KktQdldlExample.exK2_quasiDefGE, one_pos⟩

/-- [F] `C11.kkt_no_zero_pivot_assembled`: **`kkt_no_zero_pivot_static` for the model's own
assemble + update + regularise, at every pass**: dynamic regularisation OFF, static regularisation ON
with `ε = r.eps > 0`, after ANY history of earlier passes, `P ⪰ 0`, nonnegative bordered cone forms.
For ANY valid permutation (and any `eps`, `delta`): `QDLDLFactorisation::new` on the values handed to
the LDL engine returns `Ok` — never `ZeroPivot` —, every `D[r]` has the sign `ds[perm[r]]` and
modulus `≥ ε`, `regularize_count = 0`, `positive_inertia = n + Σ nPlus`. -/
theorem kkt_no_zero_pivot_assembled {P A K : Csc α} {cones : List ConeSpec}
    {map : LDLDataMap} (hin : KktInputs P A cones)
    (hasm : assembleKktMatrix P A cones .triu = .ok (K, map))
    (ds0 : Array Int) (en0 : Bool) (c0 p0 : α) (hist : List (List (ConeScaling α)))
    (outs : List (PassOut α)) (hrun : runPasses map ds0 en0 c0 p0 K.nzval hist = .ok outs)
    (scal : List (ConeScaling α)) (hfits : LayoutFits scal cones)
    (hvec : ∀ i (hi : i < scal.length), VecFits scal[i]) (nz' : Array α)
    (hup : updateValues (finalNz K.nzval outs) map scal = .ok nz') (blocks : List (Array α))
    (hget : scal.mapM getHs = .ok blocks)
    (ds : Array Int) (hds : fillSigns A.m A.n map.sparse_maps = .ok ds) (cst prp : α)
    (rr : Regularized α) (nzF : Array α)
    (hreg : regularizeAndRestore nz' map.diag_full ds true cst prp = .ok (rr, nzF))
    (hP : PosSemidef (PdOf P A.n))
    (hform : ∀ i y s, 0 ≤ expForm (HOf cones blocks i) (VOf cones scal i) (eOf cones scal i) y s)
    (hε : 0 < rr.eps) (hn : 0 < K.n)
    (perm iperm : Array Nat) (hip : Clarabel.Perm.invperm perm = .ok iperm)
    (hps : perm.size = K.n) (eps delta : α) :
    (∃ F, Clarabel.Qdldl.new ({ K with nzval := nzF } : Csc α) perm (some ds) false eps delta false
      = .ok F) ∧
    Clarabel.Qdldl.new ({ K with nzval := nzF } : Csc α) perm (some ds) false eps delta false
      ≠ .error Clarabel.Qdldl.errZeroPivot ∧
    ∀ F, Clarabel.Qdldl.new ({ K with nzval := nzF } : Csc α) perm (some ds) false eps delta false
        = .ok F →
      (∀ r, r < K.n → perm.getD r 0 < K.n ∧
        ((ds.getD (perm.getD r 0) 0 = 1 ∧ rr.eps ≤ F.D.getD r 0) ∨
         (ds.getD (perm.getD r 0) 0 = -1 ∧ F.D.getD r 0 ≤ -rr.eps))) ∧
      F.regularizeCount = 0 ∧
      F.positiveInertia = A.n + ∑ i : Fin cones.length, nPlus cones[i] := by
  have hup0 := hup
  rw [update_after_history hin hasm ds0 en0 c0 p0 hist outs hrun scal hfits hvec] at hup0
  obtain ⟨_, hsz⟩ := assembled_sizes hin hasm scal nz' hup0 ds cst prp rr nzF hreg
  obtain ⟨hw, hc, hnd, _⟩ := kkt_is_qdldl_input hin hasm nzF hsz
  obtain ⟨hdsz, hdsv⟩ := assembled_signs_getD hin hasm ds hds
  have hQ := assembled_quasiDefGE hin hasm scal hfits hvec nz' hup0 blocks hget ds hds cst prp rr nzF
    hreg hP hform
  obtain ⟨k1, k2, k3⟩ := kkt_no_zero_pivot_static ({ K with nzval := nzF } : Csc α) hw hc hnd hn perm
    iperm hip hps ds hdsz (fun i => (kktEquiv A.n cones K.n (asm_order hin hasm) i).isLeft) eps delta
    rr.eps hQ hε
  refine ⟨k1, k2, fun F hF => ?_⟩
  obtain ⟨h1, h2, h3⟩ := k3 F hF
  refine ⟨fun r hr => ?_, h2, ?_⟩
  · obtain ⟨hpr, e2, _⟩ := h1 r hr
    refine ⟨hpr, ?_⟩
    have e1 := hdsv ⟨perm.getD r 0, hpr⟩
    by_cases hs : (kktEquiv A.n cones K.n (asm_order hin hasm) ⟨perm.getD r 0, hpr⟩).isLeft = true
    · left
      rw [if_pos hs] at e1 e2
      exact ⟨e1, e2⟩
    · right
      rw [if_neg hs] at e1 e2
      exact ⟨e1, e2⟩
  · rw [h3]
    exact (assembled_plus_count hin hasm).trans (positive_inertia_count A.n cones)

end static_only

-- ------------------------------------------------------------------ blocks from the cone models

section cone_model_blocks
open Clarabel.Lemmas.KktInertia Clarabel.Lemmas.KktInertiaList Clarabel.Lemmas.KktInertiaCones
open Clarabel.Lemmas.KktSpec Clarabel.Lemmas.KktUpdateAsm Clarabel.Lemmas.KktScalingFits
open Clarabel.Lemmas.KktSymOfValues Clarabel.Lemmas.KktSymOfMain

/-- [S] `C11.socDense_getHs_model`: **C11's `get_Hs` on the data of a DENSE second-order cone
(dimension `2 … 4`, no sparse expansion) IS the cone model's `get_Hs`** (C13's `Soc.getHs`), at
every scalar type (`Float` included): the two models of `SecondOrderCone::get_Hs` return the same
packed upper triangle (or the same panic). -/
theorem socDense_getHs_model {α : Type} [Add α] [Sub α] [Mul α] [Div α] [Neg α] [OfNat α 0]
    [OfNat α 1] [LT α] [DecidableLT α] [FloatLike α] (K : Clarabel.Soc.Cone α)
    (hsp : K.sparse = none) (hw : K.w.size = K.dim) (h2 : 2 ≤ K.dim) (h4 : K.dim ≤ 4) :
    getHs (scalingOfSoc K) = Clarabel.Soc.getHs K ∧
    getHs (.socDense K.w K.eta) = Clarabel.Soc.getHs K :=
  ⟨Clarabel.Lemmas.KktSocDenseHs.socDense_getHs_eq K hsp hw h2 h4,
    Clarabel.Lemmas.KktSocDenseHs.socDense_getHs_eq' K hsp hw h2 h4⟩

/-- non-vacuity of `socDense_getHs_model`: a `Float` cone of dimension 2 -/
example : (⟨2, #[1.5, 0.5], #[1, 0], 2, none⟩ : Clarabel.Soc.Cone Float).sparse = none ∧
    (⟨2, #[1.5, 0.5], #[1, 0], 2, none⟩ : Clarabel.Soc.Cone Float).w.size = 2 :=
  ⟨rfl, rfl⟩

/-- [R] `C11.socDense_block_is_WtW`: **the dense second-order-cone block that `update` writes is the
operator `mul_Hs = WᵀW` of the cone model** (C13 `soc_dense_getHs_eq_mulHs`, `soc_mulHs_eq`): for
`w = (w0, w1)` of dimension `d ∈ 2…4` and the vector `H` that C11's `get_Hs` returns, read as a
symmetric matrix the way the assembly stores it (`coneH`, packed upper triangle),
`Σ_c H[a,c]·x_c = (mul_Hs x)_a` for every `x`; and for a normalised `w` (`w0² − ‖w1‖² = 1`,
`w0 > 0`: C13 `soc_w_normalised`) its quadratic form is `‖W y‖²` (`mul_W`), hence `⪰ 0`. -/
theorem socDense_block_is_WtW (w0 : ℝ) (w1 : List ℝ) (η : ℝ) (d : Nat) (hd : w1.length + 1 = d)
    (h2 : 2 ≤ d) (h4 : d ≤ 4) (H : Array ℝ)
    (hH : getHs (.socDense (Clarabel.Soc.join w0 w1) η) = .ok H) :
    (∀ (x0 : ℝ) (x1 : List ℝ), x1.length = w1.length → ∀ a, a < d →
      ∑ c : Fin d, coneH (.soc d) H a c.val * (Clarabel.Soc.join x0 x1).getD c.val 0
        = (Clarabel.Soc.join (Clarabel.Soc.mulHsCore x0 x1 w0 w1 η).1
            (Clarabel.Soc.mulHsCore x0 x1 w0 w1 η).2).getD a 0) ∧
    (w0 ^ 2 - Clarabel.Soc.dotL w1 w1 = 1 → 0 < w0 → ∀ y : Fin d → ℝ,
      qf (fun a a' : Fin d => coneH (.soc d) H a.val a'.val) y
        = (Clarabel.Soc.mulWCore (Clarabel.Lemmas.KktSocDenseHs.vhead y)
              (Clarabel.Lemmas.KktSocDenseHs.vtail y) (Clarabel.Lemmas.KktSocDenseHs.vhead y)
              (Clarabel.Lemmas.KktSocDenseHs.vtail y) 1 0 w0 w1 η).1 ^ 2
          + Clarabel.Soc.dotL
              (Clarabel.Soc.mulWCore (Clarabel.Lemmas.KktSocDenseHs.vhead y)
                (Clarabel.Lemmas.KktSocDenseHs.vtail y) (Clarabel.Lemmas.KktSocDenseHs.vhead y)
                (Clarabel.Lemmas.KktSocDenseHs.vtail y) 1 0 w0 w1 η).2
              (Clarabel.Soc.mulWCore (Clarabel.Lemmas.KktSocDenseHs.vhead y)
                (Clarabel.Lemmas.KktSocDenseHs.vtail y) (Clarabel.Lemmas.KktSocDenseHs.vhead y)
                (Clarabel.Lemmas.KktSocDenseHs.vtail y) 1 0 w0 w1 η).2 ∧
      0 ≤ qf (fun a a' : Fin d => coneH (.soc d) H a.val a'.val) y) :=
  ⟨fun x0 x1 hx a ha =>
      Clarabel.Lemmas.KktSocDenseHs.socDense_block_eq_mulHs w0 w1 η d hd h2 h4 H hH x0 x1 hx a ha,
    fun hw hw0 y =>
      ⟨Clarabel.Lemmas.KktSocDenseHs.socDense_block_qf w0 w1 η d hd h2 h4 H hH hw hw0 y,
        Clarabel.Lemmas.KktSocDenseHs.socDense_block_psd w0 w1 η d hd h2 h4 H hH hw hw0 y⟩⟩

/-- non-vacuity of `socDense_block_is_WtW`: `w = (1, 0, 0)`, `η = 1`, `d = 3` -/
example : ∃ H, getHs (.socDense (Clarabel.Soc.join (1 : ℝ) [0, 0]) 1) = .ok H ∧
    (1 : ℝ) ^ 2 - Clarabel.Soc.dotL [0, 0] [0, 0] = 1 ∧ (0 : ℝ) < 1 := by
  obtain ⟨H, hH⟩ := Clarabel.Lemmas.KktSocDenseHs.socDense_getHs_ok 1 [0, 0] 1 (by decide) (by decide)
  exact ⟨H, hH, Clarabel.Lemmas.KktSocDenseHs.unit_w_normalised, one_pos⟩

/-- [R] `C11.assembled_form_socDense`: the hypothesis `hform` of `kkt_factorisation_signs_assembled`
/ `…_every_pass` for a DENSE second-order cone (dimension `2 … 4`), from the cone model: the scaling
data `update` reads are `socDense w η` with `w` normalised (what `update_scaling` leaves: C13
`soc_w_normalised`) — nothing about the block has to be supplied. -/
theorem assembled_form_socDense {cones : List ConeSpec} (scal : List (ConeScaling ℝ))
    (hfits : LayoutFits scal cones) (blocks : List (Array ℝ))
    (hget : scal.mapM getHs = .ok blocks) (i : Fin cones.length) {d : Nat}
    (hci : cones[i] = .soc d) (h2 : 2 ≤ d) {w0 η : ℝ} {w1 : List ℝ}
    (hsc : scalAt scal i.val = .socDense (Clarabel.Soc.join w0 w1) η)
    (hw : w0 ^ 2 - Clarabel.Soc.dotL w1 w1 = 1) (hw0 : 0 < w0)
    (y : Fin (cones[i].numel) → ℝ) (s : Fin (nMinus cones[i]) → ℝ) :
    0 ≤ expForm (HOf cones blocks i) (VOf cones scal i) (eOf cones scal i) y s :=
  Clarabel.Lemmas.KktSocDenseHs.form_socDense scal hfits blocks hget i hci h2 hsc hw hw0 y s

/-- non-vacuity of `assembled_form_socDense`: cone list `[soc 3]`, `w = (1, 0, 0)`, `η = 1` -/
example : ∃ blocks : List (Array ℝ),
    LayoutFits [ConeScaling.socDense (Clarabel.Soc.join (1 : ℝ) [0, 0]) 1] [ConeSpec.soc 3] ∧
    [ConeScaling.socDense (Clarabel.Soc.join (1 : ℝ) [0, 0]) 1].mapM getHs = .ok blocks ∧
    scalAt [ConeScaling.socDense (Clarabel.Soc.join (1 : ℝ) [0, 0]) 1] 0
      = .socDense (Clarabel.Soc.join 1 [0, 0]) 1 := by
  obtain ⟨H, hH⟩ := Clarabel.Lemmas.KktSocDenseHs.socDense_getHs_ok 1 [0, 0] 1 (by decide) (by decide)
  refine ⟨[H], List.Forall₂.cons ⟨rfl, by decide⟩ List.Forall₂.nil, ?_, rfl⟩
  simp [List.mapM_cons, hH, bind, Except.bind, pure, Except.pure]

/-- [F] `C11.assembled_form_genpow`: the hypothesis `hform` for a GENERALISED POWER cone in the
vocabulary of `assembled_symOf_eq_listKkt`: the scaling data `update` reads are
`genpow μ p q r d1 d2` with `|q| = dim1`, `μ = (√μ)²` and `D − qqᵀ − rrᵀ ⪰ 0` (`inertia_genpow_data`)
— the transport analogous to `assembled_form_soc`. -/
theorem assembled_form_genpow {α : Type} [Field α] [LinearOrder α] [IsStrictOrderedRing α]
    [FloatLike α] {cones : List ConeSpec} (scal : List (ConeScaling α))
    (hfits : LayoutFits scal cones) (blocks : List (Array α))
    (hget : scal.mapM getHs = .ok blocks) (i : Fin cones.length) {a b : ℕ}
    (hci : cones[i] = .genpow a b) {μ d2 : α} {p q r d1 : Array α}
    (hsc : scalAt scal i.val = .genpow μ p q r d1 d2) (hq : q.size = d1.size)
    (hsm : sqrt μ * sqrt μ = μ)
    (hD : ∀ y : Fin (d1.size + r.size) → α,
      Clarabel.Lemmas.KktExpansion.dot (Clarabel.Lemmas.KktUpdateSchur.placeAt q 0) y ^ 2
        + Clarabel.Lemmas.KktExpansion.dot (Clarabel.Lemmas.KktUpdateSchur.placeAt r d1.size) y ^ 2
        ≤ ∑ k, Clarabel.Lemmas.KktUpdateSchur.genpowD d1 d2 k * y k ^ 2)
    (y : Fin (cones[i].numel) → α) (s : Fin (nMinus cones[i]) → α) :
    0 ≤ expForm (HOf cones blocks i) (VOf cones scal i) (eOf cones scal i) y s :=
  Clarabel.Lemmas.KktFormGenPow.form_genpow scal hfits blocks hget i hci hsc hq hsm hD y s

/-- [R] `C11.assembled_form_genpow_interior`: **… from interior-ness alone.**  The scaling data of
the cone are what the generalised-power-cone model stored at an ACCEPTED `update_scaling` (C14
`genpow_update_scaling_test`: accepted iff `ζ > 0`) at a dual point `(u, w)` with `u > 0`, exponents
`α > 0`, `Σα = 1`, and `μ ≥ 0`: then `Hs = μ(D + ppᵀ − qqᵀ − rrᵀ)` with the closed-form `D, p, q, r`
of C14's Hessian representation (`updateDualGradH_data`), `D − qqᵀ − rrᵀ ⪰ 0` (`inertia_genpow_data`),
and the bordered block of `assembled_symOf_eq_listKkt` has a nonnegative form. -/
theorem assembled_form_genpow_interior {cones : List ConeSpec} (scal : List (ConeScaling ℝ))
    (hfits : LayoutFits scal cones) (blocks : List (Array ℝ))
    (hget : scal.mapM getHs = .ok blocks) (i : Fin cones.length) {a b : ℕ}
    (hci : cones[i] = .genpow a b) (al u w : List ℝ) (hlen : al.length = u.length)
    (ha : ∀ x ∈ al, 0 < x) (hsum : al.sum = 1) (hu : ∀ x ∈ u, 0 < x)
    {st st' : Clarabel.GenPow.State ℝ} {mu : ℝ} (hmu : 0 ≤ mu)
    (hacc : Clarabel.GenPow.updateScaling al.toArray st (u ++ w).toArray mu = .ok (true, st'))
    (hsc : scalAt scal i.val = scalingOfGenPow st')
    (y : Fin (cones[i].numel) → ℝ) (s : Fin (nMinus cones[i]) → ℝ) :
    0 ≤ expForm (HOf cones blocks i) (VOf cones scal i) (eOf cones scal i) y s :=
  Clarabel.Lemmas.KktFormGenPow.form_genpow_accepted scal hfits blocks hget i hci al u w hlen ha hsum
    hu hmu hacc hsc y s

/-- non-vacuity of `assembled_form_genpow` / `assembled_form_genpow_interior`: cone list
`[genpow 2 1]`, `α = (½, ½)`, `(u, w) = ((1, 1), (½))` (`ζ = 15/4 > 0`), `μ = 1`: `update_scaling`
accepts, the stored data fit the cone list and `get_Hs` succeeds. -/
example : ∃ (st' : Clarabel.GenPow.State ℝ) (blocks : List (Array ℝ)),
    Clarabel.GenPow.updateScaling ([1 / 2, 1 / 2] : List ℝ).toArray (Clarabel.GenPow.State.init 2 1)
      (([1, 1] : List ℝ) ++ [1 / 2]).toArray 1 = .ok (true, st') ∧
    LayoutFits [scalingOfGenPow st'] [ConeSpec.genpow 2 1] ∧
    [scalingOfGenPow st'].mapM getHs = .ok blocks ∧
    scalAt [scalingOfGenPow st'] 0 = scalingOfGenPow st' ∧
    (∀ x ∈ ([1 / 2, 1 / 2] : List ℝ), 0 < x) ∧ ([1 / 2, 1 / 2] : List ℝ).sum = 1 ∧
    (∀ x ∈ ([1, 1] : List ℝ), 0 < x) := by
  have hζ : 0 < Clarabel.GenPow.prodPhi [1 / 2, 1 / 2] [1, 1] - Clarabel.GenPow.sumSq [1 / 2] := by
    unfold Clarabel.GenPow.prodPhi Clarabel.GenPow.sumSq
    norm_num
  obtain ⟨D, _, hacc⟩ := Clarabel.GenPow.updateScaling_accept [1 / 2, 1 / 2] [1, 1] [1 / 2] rfl
    (Clarabel.GenPow.State.init 2 1) 1 hζ
  obtain ⟨hfit, _, _⟩ := genpow_update_fits (dim2 := 1) (by rfl) hacc
  refine ⟨_, [Clarabel.GenPow.getHs D 1 D.r.size], hacc,
    layoutFits_of_forall (List.Forall₂.cons hfit List.Forall₂.nil), ?_, rfl, ?_, by norm_num, ?_⟩
  · simp only [List.mapM_cons, List.mapM_nil, genpow_getHs_eq]
    rfl
  · intro x hx; simp at hx; subst hx; norm_num
  · intro x hx; simp at hx; subst hx; norm_num

end cone_model_blocks

section cone_ranges
open Clarabel.Lemmas.KktRanges

/-- [S] `make_rng_cones` (and the iterator `rng_cones_iter`, which runs the same loop): one range
per cone; range `i` is `Σ_{k<i} numel k .. Σ_{k≤i} numel k`; the ranges are consecutive, an earlier
one stops before a later one starts, every index below `Σ numel` lies in one of them, and their
starts are the offsets `rngConesStart` the assembly model places the cone blocks at. -/
theorem cone_ranges_partition (cones : List ConeSpec) :
    rngConesIter cones = makeRngCones cones ∧
    (makeRngCones cones).length = cones.length ∧
    (∀ i (h : i < (makeRngCones cones).length), (makeRngCones cones)[i] =
      (((cones.map ConeSpec.numel).take i).sum, ((cones.map ConeSpec.numel).take (i + 1)).sum)) ∧
    (∀ i (h : i + 1 < (makeRngCones cones).length),
      ((makeRngCones cones)[i + 1]).1 = ((makeRngCones cones)[i]'(Nat.lt_of_succ_lt h)).2) ∧
    (∀ i j (hij : i < j) (h : j < (makeRngCones cones).length),
      ((makeRngCones cones)[i]'(Nat.lt_trans hij h)).2 ≤ ((makeRngCones cones)[j]).1) ∧
    (∀ k, k < (cones.map ConeSpec.numel).sum → ∃ r ∈ makeRngCones cones, r.1 ≤ k ∧ k < r.2) ∧
    (makeRngCones cones).map (·.1) = rngConesStart cones := by
  refine ⟨rfl, ?_, ?_, ?_, ?_, ?_, ?_⟩
  · unfold makeRngCones; rw [makeRangesFrom_length, List.length_map]
  · intro i h
    have e := makeRangesFrom_getElem (cones.map ConeSpec.numel) 0 i h
    rw [Nat.zero_add, Nat.zero_add] at e
    exact e
  · intro i h; exact makeRangesFrom_consecutive _ 0 i h
  · intro i j hij h; exact makeRangesFrom_disjoint _ 0 i j hij h
  · intro k hk
    exact makeRangesFrom_cover _ 0 k (Nat.zero_le k) (by rw [Nat.zero_add]; exact hk)
  · exact makeRangesFrom_starts _

/-- [S] `make_rng_blocks`: the same for the `Hs` blocks with widths `blockLen` (`numel` for a
diagonal block, `numel (numel + 1) / 2` otherwise); the starts are `rngBlocksStart`, and
`allocate_kkt_Hsblocks` allocates exactly `hsblocksLen = Σ blockLen` entries — where the last
block range stops. -/
theorem block_ranges_partition (cones : List ConeSpec) :
    (makeRngBlocks cones).length = cones.length ∧
    (∀ i (h : i < (makeRngBlocks cones).length), (makeRngBlocks cones)[i] =
      (((cones.map ConeSpec.blockLen).take i).sum, ((cones.map ConeSpec.blockLen).take (i + 1)).sum)) ∧
    (∀ i (h : i + 1 < (makeRngBlocks cones).length),
      ((makeRngBlocks cones)[i + 1]).1 = ((makeRngBlocks cones)[i]'(Nat.lt_of_succ_lt h)).2) ∧
    (∀ i j (hij : i < j) (h : j < (makeRngBlocks cones).length),
      ((makeRngBlocks cones)[i]'(Nat.lt_trans hij h)).2 ≤ ((makeRngBlocks cones)[j]).1) ∧
    (∀ k, k < (cones.map ConeSpec.blockLen).sum → ∃ r ∈ makeRngBlocks cones, r.1 ≤ k ∧ k < r.2) ∧
    (makeRngBlocks cones).map (·.1) = rngBlocksStart cones ∧
    allocateKktHsblocksLen cones = hsblocksLen cones ∧
    hsblocksLen cones = (cones.map ConeSpec.blockLen).sum := by
  refine ⟨?_, ?_, ?_, ?_, ?_, ?_, allocateKktHsblocksLen_eq cones, ?_⟩
  · unfold makeRngBlocks; rw [makeRangesFrom_length, List.length_map]
  · intro i h
    have e := makeRangesFrom_getElem (cones.map ConeSpec.blockLen) 0 i h
    rw [Nat.zero_add, Nat.zero_add] at e
    exact e
  · intro i h; exact makeRangesFrom_consecutive _ 0 i h
  · intro i j hij h; exact makeRangesFrom_disjoint _ 0 i j hij h
  · intro k hk
    exact makeRangesFrom_cover _ 0 k (Nat.zero_le k) (by rw [Nat.zero_add]; exact hk)
  · exact makeRangesFrom_starts _
  · unfold hsblocksLen; rw [foldl_add_eq_sum, Nat.zero_add]

end cone_ranges

end Clarabel.C11
