/-
  C20 — solver output is routed faithfully and says what the solver did.

  All theorems are class [S] (no arithmetic law of the scalar type is used; they hold for
  `Float`).  The event order comes from the loop skeleton of C04 (`ClarabelModel/Loop.lean`);
  the routing / rendering model is `ClarabelModel/Print.lean`.
  Not carried by a theorem: the OS side of stdout and files, Rust's float formatting.
-/
import ClarabelProofs.Lemmas.LoopRows
import ClarabelProofs.Lemmas.Print

namespace Clarabel.C20
open Clarabel Clarabel.Loop Clarabel.Print

set_option linter.unusedSectionVars false

variable {α : Type} [Mul α] [Div α] [Neg α] [OfNat α 0] [OfNat α 1]
  [LT α] [DecidableLT α] [LE α] [DecidableLE α] [BEq α] [FloatLike α]

/-- [S] `C20.silent`: with `verbose = false` no print call of a solve writes to the target,
whatever the target is and whatever the numerics did; the loop produces no table row and no
footer. -/
theorem silent (cfg : Config α) (hv : cfg.verbose = false) (z : α) (os : List (PassOracle α))
    (r : Result α) (h : solve cfg z os = .done r) (R : Renderer α) (t : PrintTarget) :
    runEvents cfg.verbose R t (eventsOf r.rows r.info.status) = t
      ∧ r.rows = [] ∧ r.footerStatus = none := by
  unfold solve at h
  cases hl : loop cfg os (initState cfg z) with
  | exhausted st' => rw [hl] at h; cases h
  | panic s => rw [hl] at h; cases h
  | done st' =>
    rw [hl] at h
    cases h
    refine ⟨by rw [hv]; exact runEvents_silent R t _, ?_, ?_⟩
    · have hr := (loop_rows os _ (inv_init cfg z) (rowInv_init cfg z) st' hl).silent hv
      show (if (st'.alpha == 0) = true then printStatus cfg _ st'.rows else st'.rows) = []
      unfold printStatus
      rw [hv, hr]; simp
    · show (if cfg.verbose = true then _ else none) = none
      rw [hv]; rfl

/-- [S] `C20.target_independent`: for any sequence of print calls the bytes that reach a
buffer, a stream, a file and stdout are the same list; a sink receives nothing (and a cloned
stream is a sink). -/
theorem target_independent (verbose : Bool) (R : Renderer α) (es : List (Event α)) :
    (runEvents verbose R (.buffer []) es).delivered = (runEvents verbose R (.stream []) es).delivered
      ∧ (runEvents verbose R (.buffer []) es).delivered = (runEvents verbose R (.file []) es).delivered
      ∧ (runEvents verbose R (.buffer []) es).delivered = (runEvents verbose R (.stdout []) es).delivered
      ∧ (runEvents verbose R .sink es).delivered = []
      ∧ (runEvents verbose R (PrintTarget.stream []).clone es).delivered = [] := by
  cases verbose with
  | false => simp [runEvents_silent, PrintTarget.delivered, PrintTarget.clone]
  | true =>
    have hb := (delivered_runEvents R (.buffer []) (by simp) es).1
    have hs := (delivered_runEvents R (.stream []) (by simp) es).1
    have hf := (delivered_runEvents R (.file []) (by simp) es).1
    have ho := (delivered_runEvents R (.stdout []) (by simp) es).1
    have e1 : (PrintTarget.buffer ([] : Bytes)).delivered = [] := rfl
    have e2 : (PrintTarget.stream ([] : Bytes)).delivered = [] := rfl
    have e3 : (PrintTarget.file ([] : Bytes)).delivered = [] := rfl
    have e4 : (PrintTarget.stdout ([] : Bytes)).delivered = [] := rfl
    rw [e1] at hb; rw [e2] at hs; rw [e3] at hf; rw [e4] at ho
    refine ⟨by rw [hb, hs], by rw [hb, hf], by rw [hb, ho], ?_, ?_⟩
    · rw [runEvents_sink]; rfl
    · show (runEvents true R .sink es).delivered = []
      rw [runEvents_sink]; rfl

/-- [S] `get_print_buffer` succeeds exactly on a buffer target and returns what was written. -/
theorem get_print_buffer (R : Renderer α) (es : List (Event α)) :
    (runEvents true R (.buffer []) es).getPrintBuffer = .ok ((es.map R.render).flatten)
      ∧ (runEvents true R .sink es).getPrintBuffer ≠ .ok ((es.map R.render).flatten) := by
  have h := delivered_runEvents R (.buffer []) (by simp) es
  constructor
  · have hshape : ∀ t : PrintTarget, t ≠ .sink → (∃ b, t = .buffer b) → t.getPrintBuffer = .ok t.delivered := by
      intro t _ ⟨b, hb⟩; subst hb; rfl
    have hbuf := runEvents_buffer R es []
    rw [hshape _ h.2 hbuf, h.1]; rfl
  · rw [runEvents_sink]; intro hh; cases hh

/-- [S] `C20.iteration_column`: along every path of the loop the printed iteration numbers
start at 0, never decrease, grow by at most one per row, and the last one is
`solution.iterations`; there is one row per pass, plus at most one row printed after an
insufficient-progress rollback, plus exactly one extra row when the loop is left with `α = 0`
(no final step). -/
theorem iteration_column (cfg : Config α) (hv : cfg.verbose = true) (z : α)
    (os : List (PassOracle α)) (r : Result α) (h : solve cfg z os = .done r) :
    (col r.rows).head? = some 0
      ∧ List.IsChain StepRel (col r.rows)
      ∧ (col r.rows).getLast? = some r.iterations
      ∧ r.rows.length = r.passes + r.rollbackLines + (if r.extraLine then 1 else 0)
      ∧ r.rollbackLines ≤ 1 := by
  unfold solve at h
  cases hl : loop cfg os (initState cfg z) with
  | exhausted st' => rw [hl] at h; cases h
  | panic s => rw [hl] at h; cases h
  | done st' =>
    rw [hl] at h
    cases h
    have hR := loop_rows os _ (inv_init cfg z) (rowInv_init cfg z) st' hl
    have hE : Exit cfg st' := by
      have := loop_safe os (initState cfg z) (inv_init cfg z)
      rw [hl] at this; exact this
    by_cases hx : (st'.alpha == 0) = true
    · -- the extra line
      have hrows : (finish cfg st').rows = st'.rows ++ [rowOf (st'.info.saveScalars st'.mu st'.alpha st'.sigma st'.iter)] := by
        show (if (st'.alpha == 0) = true then printStatus cfg _ st'.rows else st'.rows) = _
        rw [if_pos hx]; unfold printStatus; simp [hv, hx]
      have hit : (finish cfg st').iterations = st'.iter := by
        show (if (st'.alpha == 0) = true then st'.info.saveScalars st'.mu st'.alpha st'.sigma st'.iter else st'.info).iterations = _
        rw [if_pos hx]; rfl
      have hex : (finish cfg st').extraLine = true := hx
      have hpass : (finish cfg st').passes = st'.passes := rfl
      have hrbl : (finish cfg st').rollbackLines = st'.rollbackLines := rfl
      rw [hrows, hit, hex, hpass, hrbl]
      have hcol : col (st'.rows ++ [rowOf (st'.info.saveScalars st'.mu st'.alpha st'.sigma st'.iter)])
          = col st'.rows ++ [st'.iter] := by simp [col, rowOf, Info.saveScalars]
      rw [hcol]
      have hne : col st'.rows ≠ [] := by
        intro he; have := hR.head hv; rw [he] at this; simp at this
      refine ⟨?_, ?_, by simp, by simp [hR.length hv], hR.rb_le⟩
      · have := hR.head hv
        cases hc : col st'.rows with
        | nil => exact absurd hc hne
        | cons a t => rw [hc] at this; simpa using this
      · rw [List.isChain_append]
        refine ⟨hR.chain, by simp, ?_⟩
        intro x hx' y hy
        simp at hy; subst hy
        rw [hR.last hv] at hx'
        simp at hx'; subst hx'
        rcases hE.iterations with e | ⟨e, _⟩
        · exact ⟨by omega, by omega⟩
        · exact ⟨by omega, by omega⟩
    · have hrows : (finish cfg st').rows = st'.rows := by
        show (if (st'.alpha == 0) = true then printStatus cfg _ st'.rows else st'.rows) = _
        rw [if_neg hx]
      have hit : (finish cfg st').iterations = st'.info.iterations := by
        show (if (st'.alpha == 0) = true then st'.info.saveScalars st'.mu st'.alpha st'.sigma st'.iter else st'.info).iterations = _
        rw [if_neg hx]
      have hex : (finish cfg st').extraLine = false := by
        show (st'.alpha == 0) = false
        simpa using hx
      have hpass : (finish cfg st').passes = st'.passes := rfl
      have hrbl : (finish cfg st').rollbackLines = st'.rollbackLines := rfl
      rw [hrows, hit, hex, hpass, hrbl]
      exact ⟨hR.head hv, hR.chain, hR.last hv, by simp [hR.length hv], hR.rb_le⟩

/-- [S] `C20.footer`: the footer prints `info.status`, which is the status returned in
`solution.status`; it is the last print call of the solve. -/
theorem footer (cfg : Config α) (hv : cfg.verbose = true) (z : α) (os : List (PassOracle α))
    (r : Result α) (h : solve cfg z os = .done r) :
    r.footerStatus = some r.status
      ∧ (eventsOf r.rows r.info.status).getLast? = some (.footer r.status) := by
  obtain ⟨st, _, rfl⟩ := exit_of_done h
  refine ⟨?_, ?_⟩
  · show (if cfg.verbose = true then some _ else none) = _
    rw [hv]; rfl
  · unfold eventsOf
    rw [List.getLast?_concat]
    rfl

/-- [S] `C20.exp_format`: `_exp_str_reformat` maps `<mantissa>e<digits>` to
`<mantissa>e+<digits padded to two>` and `<mantissa>e-<digits>` to `<mantissa>e-<digits padded
to two>`: the mantissa, the sign and the digits of the exponent are kept, a sign is always
present and there are at least two exponent digits. -/
theorem exp_format (m d : List Char) (hm : 'e' ∉ m) :
    (∀ c, c ≠ '-' → expStrReformat (m ++ 'e' :: c :: d) = .ok (m ++ 'e' :: '+' :: pad2 (c :: d)))
      ∧ expStrReformat (m ++ 'e' :: '-' :: d) = .ok (m ++ 'e' :: '-' :: pad2 d)
      ∧ (d ≠ [] → 2 ≤ (pad2 d).length) := by
  refine ⟨fun c hc => expStrReformat_pos m d c hm hc, expStrReformat_neg m d hm, ?_⟩
  intro hd
  unfold pad2
  split
  · simp; omega
  · cases d with
    | nil => exact absurd rfl hd
    | cons a t => cases t with
      | nil => simp at *
      | cons b u => simp

/-- non-vacuity / concrete instances of `exp_format` -/
example : expStrReformat "+1.6395e0".toList = .ok "+1.6395e+00".toList := by decide
example : expStrReformat "6.87e-14".toList = .ok "6.87e-14".toList := by decide
example : expStrReformat "1.00e-2".toList = .ok "1.00e-02".toList := by decide
example : expStrReformat "2.78e14".toList = .ok "2.78e+14".toList := by decide
/-- the `unwrap()` sites: no `e`, or nothing after it -/
example : expStrReformat "NaN".toList = .error (.panic "unwrap:find-e") := by decide
example : expStrReformat "1e".toList = .error (.panic "unwrap:nth") := by decide

/-- [S] `C20.header_counts` (count part): the number printed for a cone type is the number
of internal cones carrying that tag, and no line is printed for an absent type. -/
theorem header_counts (cones : List (Tag × Nat)) (tag : Tag) :
    (nvarsOf cones tag).length = cones.countP (fun c => c.1 = tag)
      ∧ (cones.countP (fun c => c.1 = tag) = 0 → printConedimsByType cones tag = "") := by
  have h1 : (nvarsOf cones tag).length = cones.countP (fun c => c.1 = tag) := by
    unfold nvarsOf
    rw [List.length_map, List.countP_eq_length_filter]
  refine ⟨h1, fun h0 => ?_⟩
  unfold printConedimsByType
  simp only [h1, h0, ↓reduceIte]

/-- [S] `C20.header_counts` (elision rule): for a cone type carried by `k ≥ 2` internal cones the
line lists, in order, all `numel`s except the last followed by a comma when `k ≤ 5`, and the
first four followed by `...,` when `k > 5`; then the last `numel` and the closing parenthesis.
(`k = 1` prints the single `numel` without parentheses.) -/
theorem header_elision (cones : List (Tag × Nat)) (tag : Tag)
    (h2 : 2 ≤ (nvarsOf cones tag).length) :
    printConedimsByType cones tag =
      ("    : " ++ padLeft 11 tag.name ++ " = " ++ toString (nvarsOf cones tag).length ++ ", ")
        ++ (" numel = ("
          ++ String.join ((if (nvarsOf cones tag).length ≤ 5 then (nvarsOf cones tag).dropLast
                           else (nvarsOf cones tag).take 4).map (fun v => toString v ++ ","))
          ++ (if (nvarsOf cones tag).length ≤ 5 then "" else "...,")
          ++ toString ((nvarsOf cones tag).getLast?.getD 0) ++ ")")
        ++ "\n" := by
  unfold printConedimsByType
  have h0 : ¬ (nvarsOf cones tag).length = 0 := by omega
  have h1 : ¬ (nvarsOf cones tag).length = 1 := by omega
  simp only [h0, h1, ↓reduceIte]
  by_cases h5 : (nvarsOf cones tag).length ≤ 5
  · simp only [h5, ↓reduceIte, List.dropLast_eq_take, String.append_empty]
  · simp only [h5, ↓reduceIte, String.append_assoc]

theorem header_single (cones : List (Tag × Nat)) (tag : Tag) (h1 : (nvarsOf cones tag).length = 1) :
    printConedimsByType cones tag =
      ("    : " ++ padLeft 11 tag.name ++ " = " ++ toString 1 ++ ", ")
        ++ (" numel = " ++ toString ((nvarsOf cones tag).getLast?.getD 0)) ++ "\n" := by
  unfold printConedimsByType
  simp [h1]

/-- the rule on concrete lists: five are listed, six are elided -/
example : printConedimsByType [(.Zero, 3), (.Nonnegative, 1), (.Nonnegative, 2), (.Nonnegative, 3),
    (.Nonnegative, 4), (.Nonnegative, 5)] .Nonnegative
    = "    : Nonnegative = 5,  numel = (1,2,3,4,5)\n" := by decide
example : printConedimsByType [(.Nonnegative, 1), (.Nonnegative, 2), (.Nonnegative, 3),
    (.Nonnegative, 4), (.Nonnegative, 5), (.Nonnegative, 6)] .Nonnegative
    = "    : Nonnegative = 6,  numel = (1,2,3,4,...,6)\n" := by decide

/-- [S] `C20.last_row`: the last row of the progress table shows the iteration count, the
costs and the residuals of the `info` that is returned (the figures `solution.iterations`,
`obj_val`, `obj_val_dual`, `r_prim`, `r_dual` are copied from) — on every path, including the
exit after an insufficient-progress rollback, where one more row with the restored figures is
printed.  (μ, step length and κ/τ of that row are not restored by `reset_to_prev_iterate`.) -/
theorem last_row (cfg : Config α) (hv : cfg.verbose = true) (hrl : cfg.rollbackLine = true) (z : α)
    (os : List (PassOracle α)) (r : Result α) (h : solve cfg z os = .done r) :
    (r.rows.getLast?).map figRow = some (fig r.info) := by
  unfold solve at h
  cases hl : loop cfg os (initState cfg z) with
  | exhausted st' => rw [hl] at h; cases h
  | panic s => rw [hl] at h; cases h
  | done st' =>
    rw [hl] at h
    cases h
    have hR := loop_rows os _ (inv_init cfg z) (rowInv_init cfg z) st' hl
    by_cases hx : (st'.alpha == 0) = true
    · have hrows : (finish cfg st').rows = st'.rows ++ [rowOf (st'.info.saveScalars st'.mu st'.alpha st'.sigma st'.iter)] := by
        show (if (st'.alpha == 0) = true then printStatus cfg _ st'.rows else st'.rows) = _
        rw [if_pos hx]; unfold printStatus; simp [hv, hx]
      have hinfo : fig (finish cfg st').info = fig (st'.info.saveScalars st'.mu st'.alpha st'.sigma st'.iter) := by
        show fig { (if (st'.alpha == 0) = true then st'.info.saveScalars st'.mu st'.alpha st'.sigma st'.iter else st'.info) with status := _ } = _
        rw [if_pos hx]; rfl
      rw [hrows, List.getLast?_concat, hinfo]; rfl
    · have hrows : (finish cfg st').rows = st'.rows := by
        show (if (st'.alpha == 0) = true then printStatus cfg _ st'.rows else st'.rows) = _
        rw [if_neg hx]
      have hinfo : fig (finish cfg st').info = fig st'.info := by
        show fig { (if (st'.alpha == 0) = true then st'.info.saveScalars st'.mu st'.alpha st'.sigma st'.iter else st'.info) with status := _ } = _
        rw [if_neg hx]; rfl
      rw [hrows, hinfo]
      exact hR.lastFig hv hrl

/-! ### the defect this property exposed (repaired in /repo; kept as a documented example)

Before the repair, "the figures in the last line agree with the returned solution" failed
after an insufficient-progress rollback: `reset_to_prev_iterate` restores the previous
residuals and costs in `info` (and the previous iterate), but no further table row was printed
because the last step length is not zero.  `rollbackLine := false` selects that old skeleton.
Machine-checked instance (scalars in `ℤ`): -/
namespace Counterexample

instance : FloatLike Int where
  sqrt := id
  exp := id
  log := id
  powf := fun a _ => a
  fmax := max
  fmin := min
  fabs := fun a => a.natAbs
  isNaN := fun _ => false
  isFinite := fun _ => true
  eps := 0
  ofNat := Int.ofNat

def tols : Tols Int := ⟨1, 1, 1, 1, 1, 1⟩
def cfg : Config Int :=
  { maxIter := 10, timeLimit := 1000, verbose := true, full := tols, reduced := tols,
    minSwitchStepLength := 0, minTerminateStepLength := 0, symmetric := true, allowsPD := true,
    rollbackLine := false }
def orc (resDual kt : Int) : PassOracle Int :=
  { dotBz := 0, dotQx := 0, mu := 1, costPrimal := 7, costDual := 3, resPrimal := 50,
    resDual := resDual, resPrimalInf := 0, resDualInf := 0, gapAbs := 50, gapRel := 50,
    ktratio := kt, solveTime := 1, scaleOk := true, kktAffOk := true, alphaAff := 1, sigma := 0,
    kktCombOk := true, alpha := 1 }

/-- three passes; in the third the dual residual jumps by more than a factor 100 -/
def run : Outcome (Result Int) := solve cfg 0 [orc 50 5, orc 40 5, orc 100000 0]

/-- the loop ends with `InsufficientProgress`, the last printed row shows `dres = 100000`
(the discarded iterate) while the returned `info.res_dual` is `40` (the previous iterate),
and `iterations` counts the discarded iterate. -/
theorem last_row_stale_after_rollback :
    (match run with
     | .done r => (r.status, r.rows.getLast?.map (·.resDual), r.info.resDual, r.iterations, r.extraLine)
     | _ => (.Unsolved, none, 0, 0, true))
      = (.InsufficientProgress, some 100000, 40, 2, false) := by
  decide

/-- the same run on the repaired skeleton: one more row, showing `dres = 40` -/
def runRepaired : Outcome (Result Int) :=
  solve { cfg with rollbackLine := true } 0 [orc 50 5, orc 40 5, orc 100000 0]

theorem last_row_after_repair :
    (match runRepaired with
     | .done r => (r.status, r.rows.getLast?.map (·.resDual), r.info.resDual, r.rows.length, r.rollbackLines)
     | _ => (.Unsolved, none, 0, 0, 0))
      = (.InsufficientProgress, some 40, 40, 4, 1) := by
  decide

end Counterexample

end Clarabel.C20
