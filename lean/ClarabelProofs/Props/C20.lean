/-
  C20 — solver output is routed faithfully and says what the solver did.

  All theorems are class [S] (no arithmetic law of the scalar type is used; they hold for
  `Float`).  The event order comes from the loop skeleton of C04 (`ClarabelModel/Loop.lean`);
  the routing / rendering model is `ClarabelModel/Print.lean`.
  Round 3: the `Write` impl of `PrintTarget` over sinks that answer short counts /
  `Interrupted` / errors (`ClarabelModel/PrintWrite.lean`), and the configuration header, table
  header and footer as functions of the settings and of the problem data the solver holds
  (`ClarabelModel/PrintHeader.lean`; float formatting is a parameter `FloatFmt`).
  Not carried by a theorem: the OS side of stdout and files, Rust's float formatting.
-/
import ClarabelProofs.Lemmas.LoopRows
import ClarabelProofs.Lemmas.Print
import ClarabelProofs.Lemmas.PrintWrite
import ClarabelProofs.Lemmas.PrintHeader
import ClarabelProofs.Lemmas.PrintHeaderData
import ClarabelProofs.Lemmas.PrintHeaderLoop
import ClarabelProofs.Lemmas.PrintWholeLog

namespace Clarabel.C20
open Clarabel Clarabel.Loop Clarabel.Print

set_option linter.unusedSectionVars false

variable {α : Type} [Mul α] [Div α] [Neg α] [OfNat α 0] [OfNat α 1]
  [LT α] [DecidableLT α] [LE α] [DecidableLE α] [BEq α] [FloatLike α]

/-- [S] `C20.silent`: with `verbose = false` no print call of a solve writes to the target,
whatever the target is and whatever the numerics did; the loop produces no table row and no
footer. -/
theorem silent (cfg : Config α) (hv : cfg.verbose = false) (z : α) (os : List (PassOracle α))
    (r : Result α) (h : solve cfg z os = .done r) (R : Renderer α) (t : PrintTarget) :
    runEvents cfg.verbose R t (eventsOf r.rows r.info.status) = t
      ∧ r.rows = [] ∧ r.footerStatus = none := by
  unfold solve at h
  cases hl : loop cfg os (initState cfg z) with
  | exhausted st' => rw [hl] at h; cases h
  | panic s => rw [hl] at h; cases h
  | done st' =>
    rw [hl] at h
    cases h
    refine ⟨by rw [hv]; exact runEvents_silent R t _, ?_, ?_⟩
    · have hr := (loop_rows os _ (inv_init cfg z) (rowInv_init cfg z) st' hl).silent hv
      show (if (st'.alpha == 0) = true then printStatus cfg _ st'.rows else st'.rows) = []
      unfold printStatus
      rw [hv, hr]; simp
    · show (if cfg.verbose = true then _ else none) = none
      rw [hv]; rfl

/-- [S] `C20.target_independent`: for any sequence of print calls the bytes that reach a
buffer, a stream, a file and stdout are the same list; a sink receives nothing (and a cloned
stream is a sink). -/
theorem target_independent (verbose : Bool) (R : Renderer α) (es : List (Event α)) :
    (runEvents verbose R (.buffer []) es).delivered = (runEvents verbose R (.stream []) es).delivered
      ∧ (runEvents verbose R (.buffer []) es).delivered = (runEvents verbose R (.file []) es).delivered
      ∧ (runEvents verbose R (.buffer []) es).delivered = (runEvents verbose R (.stdout []) es).delivered
      ∧ (runEvents verbose R .sink es).delivered = []
      ∧ (runEvents verbose R (PrintTarget.stream []).clone es).delivered = [] := by
  cases verbose with
  | false => simp [runEvents_silent, PrintTarget.delivered, PrintTarget.clone]
  | true =>
    have hb := (delivered_runEvents R (.buffer []) (by simp) es).1
    have hs := (delivered_runEvents R (.stream []) (by simp) es).1
    have hf := (delivered_runEvents R (.file []) (by simp) es).1
    have ho := (delivered_runEvents R (.stdout []) (by simp) es).1
    have e1 : (PrintTarget.buffer ([] : Bytes)).delivered = [] := rfl
    have e2 : (PrintTarget.stream ([] : Bytes)).delivered = [] := rfl
    have e3 : (PrintTarget.file ([] : Bytes)).delivered = [] := rfl
    have e4 : (PrintTarget.stdout ([] : Bytes)).delivered = [] := rfl
    rw [e1] at hb; rw [e2] at hs; rw [e3] at hf; rw [e4] at ho
    refine ⟨by rw [hb, hs], by rw [hb, hf], by rw [hb, ho], ?_, ?_⟩
    · rw [runEvents_sink]; rfl
    · show (runEvents true R .sink es).delivered = []
      rw [runEvents_sink]; rfl

/-- [S] `get_print_buffer` succeeds exactly on a buffer target and returns what was written. -/
theorem get_print_buffer (R : Renderer α) (es : List (Event α)) :
    (runEvents true R (.buffer []) es).getPrintBuffer = .ok ((es.map R.render).flatten)
      ∧ (runEvents true R .sink es).getPrintBuffer ≠ .ok ((es.map R.render).flatten) := by
  have h := delivered_runEvents R (.buffer []) (by simp) es
  constructor
  · have hshape : ∀ t : PrintTarget, t ≠ .sink → (∃ b, t = .buffer b) → t.getPrintBuffer = .ok t.delivered := by
      intro t _ ⟨b, hb⟩; subst hb; rfl
    have hbuf := runEvents_buffer R es []
    rw [hshape _ h.2 hbuf, h.1]; rfl
  · rw [runEvents_sink]; intro hh; cases hh

/-- [S] `C20.iteration_column`: along every path of the loop the printed iteration numbers
start at 0, never decrease, grow by at most one per row, and the last one is
`solution.iterations`; there is one row per pass, plus at most one row printed after an
insufficient-progress rollback, plus exactly one extra row when the loop is left with `α = 0`
(no final step). -/
theorem iteration_column (cfg : Config α) (hv : cfg.verbose = true) (z : α)
    (os : List (PassOracle α)) (r : Result α) (h : solve cfg z os = .done r) :
    (col r.rows).head? = some 0
      ∧ List.IsChain StepRel (col r.rows)
      ∧ (col r.rows).getLast? = some r.iterations
      ∧ r.rows.length = r.passes + r.rollbackLines + (if r.extraLine then 1 else 0)
      ∧ r.rollbackLines ≤ 1 := by
  unfold solve at h
  cases hl : loop cfg os (initState cfg z) with
  | exhausted st' => rw [hl] at h; cases h
  | panic s => rw [hl] at h; cases h
  | done st' =>
    rw [hl] at h
    cases h
    have hR := loop_rows os _ (inv_init cfg z) (rowInv_init cfg z) st' hl
    have hE : Exit cfg st' := by
      have := loop_safe os (initState cfg z) (inv_init cfg z)
      rw [hl] at this; exact this
    by_cases hx : (st'.alpha == 0) = true
    · -- the extra line
      have hrows : (finish cfg st').rows = st'.rows ++ [rowOf (st'.info.saveScalars st'.mu st'.alpha st'.sigma st'.iter)] := by
        show (if (st'.alpha == 0) = true then printStatus cfg _ st'.rows else st'.rows) = _
        rw [if_pos hx]; unfold printStatus; simp [hv, hx]
      have hit : (finish cfg st').iterations = st'.iter := by
        show (if (st'.alpha == 0) = true then st'.info.saveScalars st'.mu st'.alpha st'.sigma st'.iter else st'.info).iterations = _
        rw [if_pos hx]; rfl
      have hex : (finish cfg st').extraLine = true := hx
      have hpass : (finish cfg st').passes = st'.passes := rfl
      have hrbl : (finish cfg st').rollbackLines = st'.rollbackLines := rfl
      rw [hrows, hit, hex, hpass, hrbl]
      have hcol : col (st'.rows ++ [rowOf (st'.info.saveScalars st'.mu st'.alpha st'.sigma st'.iter)])
          = col st'.rows ++ [st'.iter] := by simp [col, rowOf, Info.saveScalars]
      rw [hcol]
      have hne : col st'.rows ≠ [] := by
        intro he; have := hR.head hv; rw [he] at this; simp at this
      refine ⟨?_, ?_, by simp, by simp [hR.length hv], hR.rb_le⟩
      · have := hR.head hv
        cases hc : col st'.rows with
        | nil => exact absurd hc hne
        | cons a t => rw [hc] at this; simpa using this
      · rw [List.isChain_append]
        refine ⟨hR.chain, by simp, ?_⟩
        intro x hx' y hy
        simp at hy; subst hy
        rw [hR.last hv] at hx'
        simp at hx'; subst hx'
        rcases hE.iterations with e | ⟨e, _⟩
        · exact ⟨by omega, by omega⟩
        · exact ⟨by omega, by omega⟩
    · have hrows : (finish cfg st').rows = st'.rows := by
        show (if (st'.alpha == 0) = true then printStatus cfg _ st'.rows else st'.rows) = _
        rw [if_neg hx]
      have hit : (finish cfg st').iterations = st'.info.iterations := by
        show (if (st'.alpha == 0) = true then st'.info.saveScalars st'.mu st'.alpha st'.sigma st'.iter else st'.info).iterations = _
        rw [if_neg hx]
      have hex : (finish cfg st').extraLine = false := by
        show (st'.alpha == 0) = false
        simpa using hx
      have hpass : (finish cfg st').passes = st'.passes := rfl
      have hrbl : (finish cfg st').rollbackLines = st'.rollbackLines := rfl
      rw [hrows, hit, hex, hpass, hrbl]
      exact ⟨hR.head hv, hR.chain, hR.last hv, by simp [hR.length hv], hR.rb_le⟩

/-- [S] `C20.footer`: the footer prints `info.status`, which is the status returned in
`solution.status`; it is the last print call of the solve. -/
theorem footer (cfg : Config α) (hv : cfg.verbose = true) (z : α) (os : List (PassOracle α))
    (r : Result α) (h : solve cfg z os = .done r) :
    r.footerStatus = some r.status
      ∧ (eventsOf r.rows r.info.status).getLast? = some (.footer r.status) := by
  obtain ⟨st, _, rfl⟩ := exit_of_done h
  refine ⟨?_, ?_⟩
  · show (if cfg.verbose = true then some _ else none) = _
    rw [hv]; rfl
  · unfold eventsOf
    rw [List.getLast?_concat]
    rfl

/-- [S] `C20.exp_format`: `_exp_str_reformat` maps `<mantissa>e<digits>` to
`<mantissa>e+<digits padded to two>` and `<mantissa>e-<digits>` to `<mantissa>e-<digits padded
to two>`: the mantissa, the sign and the digits of the exponent are kept, a sign is always
present and there are at least two exponent digits. -/
theorem exp_format (m d : List Char) (hm : 'e' ∉ m) :
    (∀ c, c ≠ '-' → expStrReformat (m ++ 'e' :: c :: d) = .ok (m ++ 'e' :: '+' :: pad2 (c :: d)))
      ∧ expStrReformat (m ++ 'e' :: '-' :: d) = .ok (m ++ 'e' :: '-' :: pad2 d)
      ∧ (d ≠ [] → 2 ≤ (pad2 d).length) := by
  refine ⟨fun c hc => expStrReformat_pos m d c hm hc, expStrReformat_neg m d hm, ?_⟩
  intro hd
  unfold pad2
  split
  · simp; omega
  · cases d with
    | nil => exact absurd rfl hd
    | cons a t => cases t with
      | nil => simp at *
      | cons b u => simp

/-- non-vacuity / concrete instances of `exp_format` -/
example : expStrReformat "+1.6395e0".toList = .ok "+1.6395e+00".toList := by decide
example : expStrReformat "6.87e-14".toList = .ok "6.87e-14".toList := by decide
example : expStrReformat "1.00e-2".toList = .ok "1.00e-02".toList := by decide
example : expStrReformat "2.78e14".toList = .ok "2.78e+14".toList := by decide
/-- the `unwrap()` sites: no `e`, or nothing after it -/
example : expStrReformat "NaN".toList = .error (.panic "unwrap:find-e") := by decide
example : expStrReformat "1e".toList = .error (.panic "unwrap:nth") := by decide

/-- [S] `C20.header_counts` (count part): the number printed for a cone type is the number
of internal cones carrying that tag, and no line is printed for an absent type. -/
theorem header_counts (cones : List (Tag × Nat)) (tag : Tag) :
    (nvarsOf cones tag).length = cones.countP (fun c => c.1 = tag)
      ∧ (cones.countP (fun c => c.1 = tag) = 0 → printConedimsByType cones tag = "") := by
  have h1 : (nvarsOf cones tag).length = cones.countP (fun c => c.1 = tag) := by
    unfold nvarsOf
    rw [List.length_map, List.countP_eq_length_filter]
  refine ⟨h1, fun h0 => ?_⟩
  unfold printConedimsByType
  simp only [h1, h0, ↓reduceIte]

/-- [S] `C20.header_counts` (elision rule): for a cone type carried by `k ≥ 2` internal cones the
line lists, in order, all `numel`s except the last followed by a comma when `k ≤ 5`, and the
first four followed by `...,` when `k > 5`; then the last `numel` and the closing parenthesis.
(`k = 1` prints the single `numel` without parentheses.) -/
theorem header_elision (cones : List (Tag × Nat)) (tag : Tag)
    (h2 : 2 ≤ (nvarsOf cones tag).length) :
    printConedimsByType cones tag =
      ("    : " ++ padLeft 11 tag.name ++ " = " ++ toString (nvarsOf cones tag).length ++ ", ")
        ++ (" numel = ("
          ++ String.join ((if (nvarsOf cones tag).length ≤ 5 then (nvarsOf cones tag).dropLast
                           else (nvarsOf cones tag).take 4).map (fun v => toString v ++ ","))
          ++ (if (nvarsOf cones tag).length ≤ 5 then "" else "...,")
          ++ toString ((nvarsOf cones tag).getLast?.getD 0) ++ ")")
        ++ "\n" := by
  unfold printConedimsByType
  have h0 : ¬ (nvarsOf cones tag).length = 0 := by omega
  have h1 : ¬ (nvarsOf cones tag).length = 1 := by omega
  simp only [h0, h1, ↓reduceIte]
  by_cases h5 : (nvarsOf cones tag).length ≤ 5
  · simp only [h5, ↓reduceIte, List.dropLast_eq_take, String.append_empty]
  · simp only [h5, ↓reduceIte, String.append_assoc]

theorem header_single (cones : List (Tag × Nat)) (tag : Tag) (h1 : (nvarsOf cones tag).length = 1) :
    printConedimsByType cones tag =
      ("    : " ++ padLeft 11 tag.name ++ " = " ++ toString 1 ++ ", ")
        ++ (" numel = " ++ toString ((nvarsOf cones tag).getLast?.getD 0)) ++ "\n" := by
  unfold printConedimsByType
  simp [h1]

/-- the rule on concrete lists: five are listed, six are elided -/
example : printConedimsByType [(.Zero, 3), (.Nonnegative, 1), (.Nonnegative, 2), (.Nonnegative, 3),
    (.Nonnegative, 4), (.Nonnegative, 5)] .Nonnegative
    = "    : Nonnegative = 5,  numel = (1,2,3,4,5)\n" := by decide
example : printConedimsByType [(.Nonnegative, 1), (.Nonnegative, 2), (.Nonnegative, 3),
    (.Nonnegative, 4), (.Nonnegative, 5), (.Nonnegative, 6)] .Nonnegative
    = "    : Nonnegative = 6,  numel = (1,2,3,4,...,6)\n" := by decide

/-- [S] `C20.last_row`: the last row of the progress table shows the iteration count, the
costs and the residuals of the `info` that is returned (the figures `solution.iterations`,
`obj_val`, `obj_val_dual`, `r_prim`, `r_dual` are copied from) — on every path, including the
exit after an insufficient-progress rollback, where one more row with the restored figures is
printed.  (μ, step length and κ/τ of that row are not restored by `reset_to_prev_iterate`.) -/
theorem last_row (cfg : Config α) (hv : cfg.verbose = true) (hrl : cfg.rollbackLine = true) (z : α)
    (os : List (PassOracle α)) (r : Result α) (h : solve cfg z os = .done r) :
    (r.rows.getLast?).map figRow = some (fig r.info) := by
  unfold solve at h
  cases hl : loop cfg os (initState cfg z) with
  | exhausted st' => rw [hl] at h; cases h
  | panic s => rw [hl] at h; cases h
  | done st' =>
    rw [hl] at h
    cases h
    have hR := loop_rows os _ (inv_init cfg z) (rowInv_init cfg z) st' hl
    by_cases hx : (st'.alpha == 0) = true
    · have hrows : (finish cfg st').rows = st'.rows ++ [rowOf (st'.info.saveScalars st'.mu st'.alpha st'.sigma st'.iter)] := by
        show (if (st'.alpha == 0) = true then printStatus cfg _ st'.rows else st'.rows) = _
        rw [if_pos hx]; unfold printStatus; simp [hv, hx]
      have hinfo : fig (finish cfg st').info = fig (st'.info.saveScalars st'.mu st'.alpha st'.sigma st'.iter) := by
        show fig { (if (st'.alpha == 0) = true then st'.info.saveScalars st'.mu st'.alpha st'.sigma st'.iter else st'.info) with status := _ } = _
        rw [if_pos hx]; rfl
      rw [hrows, List.getLast?_concat, hinfo]; rfl
    · have hrows : (finish cfg st').rows = st'.rows := by
        show (if (st'.alpha == 0) = true then printStatus cfg _ st'.rows else st'.rows) = _
        rw [if_neg hx]
      have hinfo : fig (finish cfg st').info = fig st'.info := by
        show fig { (if (st'.alpha == 0) = true then st'.info.saveScalars st'.mu st'.alpha st'.sigma st'.iter else st'.info) with status := _ } = _
        rw [if_neg hx]; rfl
      rw [hrows, hinfo]
      exact hR.lastFig hv hrl


/-! ## Round 3 — the `Write` impl of `PrintTarget` -/

/-- [S] `C20.write_all_forwards`: whatever the sink of the selected variant answers to the
forwarded `write` calls (short counts, `Interrupted`, errors, `Ok(0)`), after `write_all(buf)`
the sink holds what it held before followed by the first `k ≤ len` bytes of `buf` — no byte is
lost in the middle, duplicated, reordered or invented — and `k = len` when `write_all` returns
`Ok(())`; the variant of the target is unchanged; a `Sink` holds nothing. -/
theorem write_all_forwards (t : Target) (buf : Bytes) :
    t.sameKind (t.writeAll buf).2
      ∧ ∃ k, k ≤ buf.length
          ∧ (t.writeAll buf).2.delivered = (if t.isSink then [] else t.delivered ++ buf.take k)
          ∧ ((t.writeAll buf).1 = .ok () → k = buf.length) :=
  Target.writeAllFuel_prefix _ t buf

/-- [S] `C20.write_all_ok`: a sink that only answers short non-zero counts and `Interrupted`
cannot make `write_all` fail: it returns `Ok(())` and the whole slice has been forwarded,
exactly once and in order. -/
theorem write_all_ok (t : Target) (buf : Bytes) (hw : WellBehaved t.pending) :
    (t.writeAll buf).1 = .ok ()
      ∧ (t.writeAll buf).2.delivered = (if t.isSink then [] else t.delivered ++ buf)
      ∧ WellBehaved (t.writeAll buf).2.pending :=
  let h := Target.writeAll_delivered t buf hw
  ⟨h.1, h.2.1, h.2.2.2⟩

/-- non-vacuity: a script with short writes and an interruption is well behaved; the five
bytes arrive although the sink takes them in three calls -/
example : WellBehaved [.ok 1, .interrupted, .ok 3] := by decide
example : ((Target.stream { script := [.ok 1, .interrupted, .ok 3] }).writeAll [1, 2, 3, 4, 5]).2.delivered
    = [1, 2, 3, 4, 5] := by decide
example : ((Target.stream { script := [.ok 1, .interrupted, .ok 3] }).writeAll [1, 2, 3, 4, 5]).2.calls
    = [5, 4, 4, 1] := by decide

/-- [S] `C20.write_target_independent`: the bytes delivered to a buffer, a stream, a file and
stdout are identical — the concatenation of the pieces the print functions `write_all` — for
every sequence of pieces and every (well-behaved) short-write behaviour of the three sinks; a
`Sink` receives nothing.  This is `target_independent` with the forwarding made explicit. -/
theorem write_target_independent (ps : List Bytes) (s1 s2 s3 : List WriteRes)
    (h1 : WellBehaved s1) (h2 : WellBehaved s2) (h3 : WellBehaved s3) :
    ((Target.buffer []).writePieces ps).2.delivered = ps.flatten
      ∧ ((Target.stream { script := s1 }).writePieces ps).2.delivered = ps.flatten
      ∧ ((Target.file { script := s2 }).writePieces ps).2.delivered = ps.flatten
      ∧ ((Target.stdout { script := s3 }).writePieces ps).2.delivered = ps.flatten
      ∧ (Target.sink.writePieces ps).2.delivered = []
      ∧ ((Target.stream { script := s1 }).writePieces ps).1 = .ok () := by
  have hb := Target.writePieces_delivered (.buffer []) ps (by intro r hr; cases hr)
  have hs := Target.writePieces_delivered (.stream { script := s1 }) ps h1
  have hf := Target.writePieces_delivered (.file { script := s2 }) ps h2
  have ho := Target.writePieces_delivered (.stdout { script := s3 }) ps h3
  have hk := Target.writePieces_delivered .sink ps (by intro r hr; cases hr)
  refine ⟨?_, ?_, ?_, ?_, ?_, hs.1⟩
  · simpa [Target.isSink, Target.delivered] using hb.2.1
  · simpa [Target.isSink, Target.delivered] using hs.2.1
  · simpa [Target.isSink, Target.delivered] using hf.2.1
  · simpa [Target.isSink, Target.delivered] using ho.2.1
  · simpa [Target.isSink] using hk.2.1

/-- [S] `C20.write_error_prefix`: when a sink fails in the middle of a print function (the
`?` after a `write_all`), what it holds is still a prefix of the intended output. -/
theorem write_error_prefix (t : Target) (ps : List Bytes) (ht : t.isSink = false) :
    ∃ rest, (t.writePieces ps).2.delivered ++ rest = t.delivered ++ ps.flatten :=
  Target.writePieces_prefix t ps ht

/-- [S] `C20.write_refines`: forgetting the sink, a successful `write_all` is the coarse
`PrintTarget.write` on which `silent`, `target_independent` and `get_print_buffer` are stated. -/
theorem write_refines (t : Target) (buf : Bytes) (hw : WellBehaved t.pending) :
    ((t.writeAll buf).2.abs).delivered = (t.abs.write buf).delivered
      ∧ ((t.writeAll buf).2.abs = .sink ↔ t.abs = .sink) :=
  Target.writeAll_abs t buf hw

/-- why `write_all` must loop (the shape of seeded defect C20-c): an override that forwards a
single `write` and drops the count reports success and loses bytes on a short write. -/
theorem write_once_loses_bytes :
    ((Target.stream { script := [.ok 1] }).writeOnce [1, 2, 3]).1 = .ok ()
      ∧ ((Target.stream { script := [.ok 1] }).writeOnce [1, 2, 3]).2.delivered = [1]
      ∧ ((Target.stream { script := [.ok 1] }).writeAll [1, 2, 3]).2.delivered = [1, 2, 3] := by
  decide

/-! ## Round 3 — configuration header, table header, footer -/

/-- [S] `C20.header_silent`: with `verbose = false` none of the print functions produces a
byte — `print_configuration` (and with it `print_settings` and the chordal block),
`print_status_header`, `print_footer`, the banner — and the log of the whole solve is empty. -/
theorem header_silent {β : Type} (fmt : FloatFmt β) (lin : LinearSolverInfo) (set : Settings β) (s : Summary)
    (hv : set.verbose = false) (version : String) (debug : Bool) (rows : List RowText) (st : Status) (t : β) :
    configurationToks fmt lin set s = []
      ∧ printConfiguration fmt lin set s = ""
      ∧ printStatusHeader set.verbose = ""
      ∧ printFooter fmt set.verbose st t = ""
      ∧ printBanner set.verbose version debug = ""
      ∧ wholeLog fmt lin set s version debug rows st t = .ok "" := by
  refine ⟨configurationToks_silent fmt lin set s hv, ?_, ?_, ?_, ?_, wholeLog_silent fmt lin set s version debug rows st t hv⟩
  · unfold printConfiguration; rw [configurationToks_silent fmt lin set s hv]; rfl
  · rw [hv]; rfl
  · rw [hv]; rfl
  · rw [hv]; rfl

/-- [S] `C20.header_fields`: with `verbose = true` the arguments `print_configuration` renders
are, in this order: the presolve count (iff a presolver object exists), the chordal block (iff
the problem was decomposed), `data.n`, `data.m`, `nnz(P)`, `nnz(A)`, the number of cones, the
seven cone lines, and the settings echo — each the field named by its label. -/
theorem header_fields {β : Type} (fmt : FloatFmt β) (lin : LinearSolverInfo) (set : Settings β) (s : Summary)
    (hv : set.verbose = true) :
    fieldsOf (configurationToks fmt lin set s) =
      (s.presolveRemoved.map (fun k => ("presolver.count_reduced", toString k))).toList
        ++ fieldsOf (chordalToks set s.chordal)
        ++ ([("data.n", toString s.n), ("data.m", toString s.m), ("data.P.nnz", toString s.nnzP),
             ("data.A.nnz", toString s.nnzA), ("cones.len", toString s.cones.length)]
            ++ allTags.map (fun t => ("cones." ++ t.name, printConedimsByType s.cones t)))
        ++ fieldsOf (settingsToks fmt lin set) := by
  unfold configurationToks
  simp only [hv, Bool.not_true, Bool.false_eq_true, ↓reduceIte]
  rw [fieldsOf_append, fieldsOf_append, fieldsOf_append, fieldsOf_presolveToks, fieldsOf_problemToks]

/-- non-vacuity / the chordal block on a concrete record -/
example : fieldsOf (chordalToks (α := Nat)
      { verbose := true, maxIter := 0, timeLimit := 0, maxStepFraction := 0, tolFeas := 0, tolGapAbs := 0,
        tolGapRel := 0, staticRegularizationEnable := true, staticRegularizationConstant := 0,
        staticRegularizationProportional := 0, dynamicRegularizationEnable := true,
        dynamicRegularizationEps := 0, dynamicRegularizationDelta := 0, iterativeRefinementEnable := true,
        iterativeRefinementReltol := 0, iterativeRefinementAbstol := 0, iterativeRefinementMaxIter := 10,
        iterativeRefinementStopRatio := 0, equilibrateEnable := true, equilibrateMinScaling := 0,
        equilibrateMaxScaling := 0, equilibrateMaxIter := 10, chordalDecompositionCompact := true,
        chordalDecompositionCompleteDual := false, chordalDecompositionMergeMethod := "clique_graph" }
      (some { initPsd := 1, decomposable := 1, premerge := 5, final := 3 }))
    = [("chordal_decomposition_compact", "on"), ("chordal_decomposition_complete_dual", "false"),
       ("chordal_decomposition_merge_method", "clique_graph"), ("init_psd_cone_count", "1"),
       ("decomposable_cone_count", "1"), ("premerge_psd_cone_count", "5"), ("final_psd_cone_count", "3")] := by
  decide

section data
variable {β : Type} [Add β] [Sub β] [Mul β] [Div β] [OfNat β 0] [OfNat β 1] [LT β] [DecidableLT β] [FloatLike β]

/-- [S] `C20.header_reports_data`: for the problem data `d` that (the model of)
`DefaultProblemData::new` builds from the user's problem, the header reports the *internal*
problem: `variables` and `constraints` are the column / row count of the reduced `A`,
`nnz(P)` is counted on the upper triangle `P` was reduced to, `nnz(A)` on the reduced `A`, the
cone lines describe the collapsed and reduced cone list, and the presolve line is present iff
a presolver object exists and shows `mfull − mreduced`.
(C09 `problemdata_new_spec` says what these steps compute: `m = count keep`, the reduced list
has `m` rows, `mfull = |b|`, `mreduced = m`.) -/
theorem header_reports_data (P : Csc β) (q : Array β) (A : Csc β) (b : Array β) (cones : List (ConeT β))
    (presolve chordal : Bool) (inf : β) (d : ProblemData β)
    (h : ProblemData.new P q A b cones presolve chordal inf = .ok d) (ch : Option ChordalCounts) :
    ∃ Pn ps r, ProblemData.triuStep P = .ok Pn
      ∧ ProblemData.tryPresolver b (Cones.newCollapsed cones) presolve inf = .ok ps
      ∧ ProblemData.reduceStep ps A b (Cones.newCollapsed cones) = .ok r
      ∧ Summary.ofData d ch =
          { presolveRemoved := ps.map (fun p => p.mfull - p.mreduced), chordal := ch,
            n := r.1.n, m := r.1.m, nnzP := Pn.nnz, nnzA := r.1.nnz, cones := coneSummary r.2.2 } :=
  summary_ofData_new P q A b cones presolve chordal inf d h ch

end data

/-- [S] `C20.header_counts_total`: the counts printed on the cone lines add up to the number
of cones printed as `cones (total)` — every internal cone is listed under exactly one type —
and the dimensions of the cones listed under the seven types add up to the dimensions of all
cones; for problem data whose cone list has `m` rows (C09 `problemdata_new_spec`) that is the
number printed as `constraints`. -/
theorem header_counts_total (cones : List (Tag × Nat)) :
    (allTags.map (fun t => (nvarsOf cones t).length)).sum = cones.length
      ∧ (allTags.map (fun t => (nvarsOf cones t).sum)).sum = (cones.map (·.2)).sum :=
  ⟨counts_sum cones, numel_sum cones⟩

theorem header_numel_is_m {β : Type} (d : ProblemData β) (ch : Option ChordalCounts)
    (hm : Cones.numel d.cones = d.m) :
    (allTags.map (fun t => (nvarsOf (Summary.ofData d ch).cones t).sum)).sum = (Summary.ofData d ch).m
      ∧ (allTags.map (fun t => (nvarsOf (Summary.ofData d ch).cones t).length)).sum = d.cones.length := by
  refine ⟨?_, ?_⟩
  · rw [numel_sum]
    show ((coneSummary d.cones).map (·.2)).sum = d.m
    rw [coneSummary_numel, hm]
  · rw [counts_sum]
    exact coneSummary_length d.cones

/-- non-vacuity of `header_numel_is_m` -/
example : Cones.numel ([.zero 2, .soc 3, .exp] : List (ConeT Int)) = 8 := by decide

/-- [S] `C20.header_elision_bound`: the line of a cone type carried by `k ≥ 2` cones shows the
true count `k` and lists the dimensions `shownDims`: `min k 5` of them — never more than five
—, a sublist of the true dimensions in order; all of them when `k ≤ 5`; the first four and the
last one, with the marker `...,` between, when `k > 5`. -/
theorem header_elision_bound (cones : List (Tag × Nat)) (tag : Tag)
    (h2 : 2 ≤ (nvarsOf cones tag).length) :
    (nvarsOf cones tag).length = cones.countP (fun c => c.1 = tag)
      ∧ printConedimsByType cones tag =
          ("    : " ++ padLeft 11 tag.name ++ " = " ++ toString (nvarsOf cones tag).length ++ ", ")
            ++ (" numel = ("
              ++ String.join ((shownDims (nvarsOf cones tag)).dropLast.map (fun v => toString v ++ ","))
              ++ (if (nvarsOf cones tag).length ≤ 5 then "" else "...,")
              ++ toString ((shownDims (nvarsOf cones tag)).getLast?.getD 0) ++ ")")
            ++ "\n"
      ∧ (shownDims (nvarsOf cones tag)).length = min (nvarsOf cones tag).length 5
      ∧ (shownDims (nvarsOf cones tag)).length ≤ 5
      ∧ (shownDims (nvarsOf cones tag)).Sublist (nvarsOf cones tag)
      ∧ ((nvarsOf cones tag).length ≤ 5 → shownDims (nvarsOf cones tag) = nvarsOf cones tag)
      ∧ (5 < (nvarsOf cones tag).length →
          (shownDims (nvarsOf cones tag)).take 4 = (nvarsOf cones tag).take 4
            ∧ (shownDims (nvarsOf cones tag)).getLast? = (nvarsOf cones tag).getLast?) := by
  have hne : nvarsOf cones tag ≠ [] := by
    intro hh; rw [hh] at h2; simp at h2
  have hlen := shownDims_length _ hne
  refine ⟨nvarsOf_length cones tag, ?_, hlen, by omega, shownDims_sublist _ hne,
    fun h5 => shownDims_of_le _ hne h5, fun h5 => shownDims_take4 _ h5⟩
  rw [header_elision cones tag h2]
  have hd : (shownDims (nvarsOf cones tag)).dropLast
      = (if (nvarsOf cones tag).length ≤ 5 then (nvarsOf cones tag).dropLast else (nvarsOf cones tag).take 4) := by
    unfold shownDims; rw [List.dropLast_concat]
  have hl : (shownDims (nvarsOf cones tag)).getLast?.getD 0 = (nvarsOf cones tag).getLast?.getD 0 := by
    unfold shownDims; rw [List.getLast?_concat]; rfl
  rw [hd, hl]

/-- non-vacuity / the rule on a concrete list of seven -/
example : shownDims [3, 4, 5, 6, 7, 8, 9] = [3, 4, 5, 6, 9] := by decide
example : shownDims [3, 4, 5, 6, 7] = [3, 4, 5, 6, 7] := by decide

/-- [S] `C20.settings_echo_determines`: every argument of the settings echo is the field of the
settings / linear-solver record named by its label (`fieldsOf_settingsToks`), and the echo does
not conflate settings: two echoes with the same arguments come from records that agree in
every integer, boolean and text field shown, and in every float field at the resolution of its
format (`time_limit`: both infinite, or the same `{:?}` text). -/
theorem settings_echo_determines {β : Type} (fmt : FloatFmt β) (lin lin' : LinearSolverInfo)
    (s s' : Settings β)
    (h : fieldsOf (settingsToks fmt lin s) = fieldsOf (settingsToks fmt lin' s')) :
    echoExact lin s = echoExact lin' s' ∧ echoFloats fmt s = echoFloats fmt s' :=
  Print.settings_echo_determines fmt lin lin' s s' h


/-- [S] `C20.header_settings_govern_loop`: `solve()` hands one settings record to
`print_configuration` and to the loop.  For the loop run with the record the echo shows: the
echo's `max iter` argument is `toString max_iter`, no number in the iteration column of the
progress table exceeds that `max_iter`, the returned iteration count neither; and with
`verbose = false` the header, the table and the footer are all empty. -/
theorem header_settings_govern_loop (fmt : FloatFmt α) (lin : LinearSolverInfo) (set : Settings α)
    (infeasAbs infeasRel ktratio : α) (reduced : Tols α) (minSw minTerm : α) (sym pd : Bool)
    (z : α) (os : List (PassOracle α)) (r : Result α)
    (h : solve (set.toConfig infeasAbs infeasRel ktratio reduced minSw minTerm sym pd) z os = .done r) :
    ("max_iter", toString set.maxIter) ∈ fieldsOf (settingsToks fmt lin set)
      ∧ r.iterations ≤ set.maxIter
      ∧ (set.verbose = true → ∀ x ∈ col r.rows, x ≤ set.maxIter)
      ∧ (set.verbose = false → ∀ s : Summary,
          printConfiguration fmt lin set s = "" ∧ r.rows = [] ∧ r.footerStatus = none) := by
  have hit : r.iterations ≤ set.maxIter := by
    obtain ⟨st, hE, rfl⟩ := exit_of_done h
    show (if (st.alpha == 0) = true then st.info.saveScalars st.mu st.alpha st.sigma st.iter
          else st.info).iterations ≤ set.maxIter
    have := hE.iter_le
    split
    · exact this
    · rcases hE.iterations with e | ⟨e, _⟩
      · have : st.iter ≤ set.maxIter := this
        omega
      · have : st.iter ≤ set.maxIter := this
        omega
  refine ⟨?_, hit, ?_, ?_⟩
  · rw [fieldsOf_settingsToks]; simp
  · intro hv x hx
    obtain ⟨_, hchain, hlast, _, _⟩ := iteration_column _ hv z os r h
    exact Nat.le_trans (chain_le_last _ hchain _ hlast x hx) hit
  · intro hv s
    obtain ⟨_, hrows, hfoot⟩ := silent _ hv z os r h (⟨fun _ => []⟩ : Renderer α) .sink
    refine ⟨?_, hrows, hfoot⟩
    unfold printConfiguration; rw [configurationToks_silent fmt lin set s hv]; rfl

/-- [S] `C20.footer_determines_status`: the footer names the status unambiguously — two
footers with the same arguments report the same `SolverStatus` — and it consists of the rule,
the status line and the time line. -/
theorem footer_determines_status {β : Type} (fmt : FloatFmt β) (st st' : Status) (t t' : β)
    (h : fieldsOf (footerToks fmt true st t) = fieldsOf (footerToks fmt true st' t')) :
    st = st' ∧ fmt.duration t = fmt.duration t' := by
  simp only [footerToks, Bool.not_true, Bool.false_eq_true, ↓reduceIte, fieldsOf, List.cons.injEq,
    Prod.mk.injEq, true_and, and_true] at h
  exact ⟨status_toString_inj h.1, h.2⟩

/-! ### the defect this property exposed (repaired in /repo; kept as a documented example)

Before the repair, "the figures in the last line agree with the returned solution" failed
after an insufficient-progress rollback: `reset_to_prev_iterate` restores the previous
residuals and costs in `info` (and the previous iterate), but no further table row was printed
because the last step length is not zero.  `rollbackLine := false` selects that old skeleton.
Machine-checked instance (scalars in `ℤ`): -/
namespace Counterexample

instance : FloatLike Int where
  sqrt := id
  exp := id
  log := id
  powf := fun a _ => a
  fmax := max
  fmin := min
  fabs := fun a => a.natAbs
  isNaN := fun _ => false
  isFinite := fun _ => true
  eps := 0
  ofNat := Int.ofNat

def tols : Tols Int := ⟨1, 1, 1, 1, 1, 1⟩
def cfg : Config Int :=
  { maxIter := 10, timeLimit := 1000, verbose := true, full := tols, reduced := tols,
    minSwitchStepLength := 0, minTerminateStepLength := 0, symmetric := true, allowsPD := true,
    rollbackLine := false }
def orc (resDual kt : Int) : PassOracle Int :=
  { dotBz := 0, dotQx := 0, mu := 1, costPrimal := 7, costDual := 3, resPrimal := 50,
    resDual := resDual, resPrimalInf := 0, resDualInf := 0, gapAbs := 50, gapRel := 50,
    ktratio := kt, solveTime := 1, scaleOk := true, kktAffOk := true, alphaAff := 1, sigma := 0,
    kktCombOk := true, alpha := 1 }

/-- three passes; in the third the dual residual jumps by more than a factor 100 -/
def run : Outcome (Result Int) := solve cfg 0 [orc 50 5, orc 40 5, orc 100000 0]

/-- the loop ends with `InsufficientProgress`, the last printed row shows `dres = 100000`
(the discarded iterate) while the returned `info.res_dual` is `40` (the previous iterate),
and `iterations` counts the discarded iterate. -/
theorem last_row_stale_after_rollback :
    (match run with
     | .done r => (r.status, r.rows.getLast?.map (·.resDual), r.info.resDual, r.iterations, r.extraLine)
     | _ => (.Unsolved, none, 0, 0, true))
      = (.InsufficientProgress, some 100000, 40, 2, false) := by
  decide

/-- the same run on the repaired skeleton: one more row, showing `dres = 40` -/
def runRepaired : Outcome (Result Int) :=
  solve { cfg with rollbackLine := true } 0 [orc 50 5, orc 40 5, orc 100000 0]

theorem last_row_after_repair :
    (match runRepaired with
     | .done r => (r.status, r.rows.getLast?.map (·.resDual), r.info.resDual, r.rows.length, r.rollbackLines)
     | _ => (.Unsolved, none, 0, 0, 0))
      = (.InsufficientProgress, some 40, 40, 4, 1) := by
  decide

end Counterexample

/-- a settings record over `ℤ` whose loop-relevant part is `Counterexample.cfg` -/
def Counterexample.set : Settings Int :=
  { verbose := true, maxIter := 10, timeLimit := 1000, maxStepFraction := 1, tolFeas := 1, tolGapAbs := 1,
    tolGapRel := 1, staticRegularizationEnable := true, staticRegularizationConstant := 0,
    staticRegularizationProportional := 0, dynamicRegularizationEnable := true,
    dynamicRegularizationEps := 0, dynamicRegularizationDelta := 0, iterativeRefinementEnable := true,
    iterativeRefinementReltol := 0, iterativeRefinementAbstol := 0, iterativeRefinementMaxIter := 10,
    iterativeRefinementStopRatio := 5, equilibrateEnable := true, equilibrateMinScaling := 0,
    equilibrateMaxScaling := 0, equilibrateMaxIter := 10, chordalDecompositionCompact := true,
    chordalDecompositionCompleteDual := true, chordalDecompositionMergeMethod := "clique_graph" }

open Counterexample in
/-- non-vacuity of `header_settings_govern_loop`: the loop run with the config of that record ends -/
example :
    (match solve (Counterexample.set.toConfig 1 1 1 tols 0 0 true true) 0 [orc 50 5, orc 40 5, orc 100000 0] with
     | .done r => some (r.status, r.iterations)
     | _ => none) = some (.InsufficientProgress, 2) := by
  decide

open Counterexample in
/-- non-vacuity of `header_reports_data` (scalars in `ℤ`): one row with an infinite bound is
removed; the header shows 1 constraint, 1 removed, one nonnegative cone of dimension 1 -/
example :
    (match ProblemData.new (α := Int) ⟨1, 1, #[0, 0], #[], #[]⟩ #[1] ⟨2, 1, #[0, 2], #[0, 1], #[1, 1]⟩ #[5, 1000]
        [.nonneg 2] true false 100 with
     | .ok d => some (Summary.ofData d none)
     | .error _ => none)
      = some { presolveRemoved := some 1, chordal := none, n := 1, m := 1, nnzP := 0, nnzA := 1,
               cones := [(.Nonnegative, 1)] } := by
  decide


/-! ### round 5: the whole log at token level, and the echo read back -/

/-- [S] `C20.status_line_tokens`: `print_status` writes exactly the tokens `rowToks` — the
iteration count right-aligned in three columns, the seven cells `pcost dcost gap pres dres k/t μ`
each followed by two blanks, the step length (rows with `iterations > 0`) or the placeholder
` ------   ` (first row), and a newline; a row that does not have eight cells is refused and
nothing is written. -/
theorem status_line_tokens (iterations : Nat) (cells : Array String) :
    (cells.size = 8 → statusLine iterations cells = .ok (renderToks (rowToks iterations cells))) ∧
    (cells.size ≠ 8 → statusLine iterations cells = .error (.err "cells")) :=
  ⟨statusLine_eq_rowToks iterations cells, statusLine_bad iterations cells⟩

/-- [S] `C20.whole_log_eq_render`: **the log of a verbose solve is the rendering of the print
calls of the loop skeleton, in program order.**  Let `rows`, `status` be the rows and the final
status of a run (for a run of the loop skeleton, `r.rows` and `r.info.status`: the events
`eventsOf r.rows r.info.status` of `C20.silent` / `C20.footer`), `cellFmt` the float formatting
of a row (a parameter, like `FloatFmt`), every formatted row having its eight cells.  Then
1. *token level* (before any `String` concatenation): the token list of the whole log —
   banner, `configurationToks`, table header, `rowToks` of every row, `footerToks` — **equals**
   the concatenation of the token lists of the events `banner, configuration, statusHeader,
   status row₁ …, footer status`;
2. `wholeLog` (banner ++ configuration ++ header, then `out := out ++ line` in an `Except` loop,
   then the footer) returns the concatenation `renderToks` of that token list;
3. *byte level*: for every encoding `enc` of text into bytes that respects concatenation
   (`EncHom`: `enc "" = []`, `enc (a ++ b) = enc a ++ enc b` — congruence of `String.join`; UTF-8
   is one, `utf8_hom`), what a stdout / file / buffer / stream target has received after
   `runEvents` with the renderer "encode each call's tokens" is what it had before followed by
   `enc` of the string `wholeLog` returns; in particular `get_print_buffer` of a fresh buffer
   returns exactly the UTF-8 bytes of `wholeLog`. -/
theorem whole_log_eq_render {β : Type} (fmt : FloatFmt β) (lin : LinearSolverInfo) (set : Settings β)
    (s : Summary) (version : String) (debug : Bool) (cellFmt : Row β → RowText) (rows : List (Row β))
    (status : Status) (t : β) (hv : set.verbose = true) (hcells : ∀ r ∈ rows, (cellFmt r).cells.size = 8) :
    wholeToks fmt lin set s version debug (rows.map cellFmt) status t
      = (eventsOf rows status).flatMap (eventToks fmt lin set s version debug cellFmt t)
    ∧ wholeLog fmt lin set s version debug (rows.map cellFmt) status t
      = .ok (renderToks ((eventsOf rows status).flatMap (eventToks fmt lin set s version debug cellFmt t)))
    ∧ (∀ (enc : String → Bytes), EncHom enc → ∀ tgt : PrintTarget, tgt ≠ .sink → ∀ log,
        wholeLog fmt lin set s version debug (rows.map cellFmt) status t = .ok log →
        (runEvents set.verbose (logRenderer enc fmt lin set s version debug cellFmt t) tgt
          (eventsOf rows status)).delivered = tgt.delivered ++ enc log)
    ∧ (∀ log, wholeLog fmt lin set s version debug (rows.map cellFmt) status t = .ok log →
        (runEvents set.verbose (logRenderer utf8 fmt lin set s version debug cellFmt t) (.buffer [])
          (eventsOf rows status)).getPrintBuffer = .ok (utf8 log)) := by
  have hrows : ∀ r ∈ rows.map cellFmt, r.cells.size = 8 := by
    intro r hr
    obtain ⟨x, hx, rfl⟩ := List.mem_map.mp hr
    exact hcells x hx
  refine ⟨wholeToks_eq_events fmt lin set s version debug cellFmt rows status t, ?_, ?_, ?_⟩
  · rw [wholeLog_eq_renderToks fmt lin set s version debug _ status t hv hrows, wholeToks_eq_events]
  · intro enc henc tgt htgt log hlog
    exact delivered_eq_wholeLog enc henc fmt lin set s version debug cellFmt rows status t hv log hlog tgt htgt
  · intro log hlog
    have hd := delivered_eq_wholeLog utf8 utf8_hom fmt lin set s version debug cellFmt rows status t hv
      log hlog (.buffer []) (by simp)
    rw [hv] at hd ⊢
    obtain ⟨b, hb⟩ := runEvents_buffer (logRenderer utf8 fmt lin set s version debug cellFmt t)
      (eventsOf rows status) []
    rw [hb] at hd ⊢
    simp only [PrintTarget.delivered, List.nil_append] at hd
    rw [hd]; rfl

/-- [S] `C20.echo_tokens_parse_back`: **the settings echo, read as a finite map label ↦ value, is
the settings record.**  The 25 labels of the echo are pairwise distinct (`echoLabels_nodup`) and
every labelled token carries exactly one value, so "the value shown under a label"
(`lookupFld`) is well defined: a label shows `v` iff the pair occurs among the labelled tokens.
Reading the map back — `max_iter`, `iterative_refinement_max_iter`, `equilibrate_max_iter` with the
decimal parser, the four `on`/`false` switches with the inverse of `_bool_on_off`,
`direct`/`indirect`, the solver name as is — returns exactly the integer / boolean / text fields
of the records the echo was printed from (`echoExact`), and the fourteen float cells are the
fields at the resolution of their formats (`echoFloats`).  `C20.settings_echo_determines` is the
corollary "equal token lists ⇒ equal records". -/
theorem echo_tokens_parse_back {β : Type} (fmt : FloatFmt β) (lin : LinearSolverInfo) (set : Settings β) :
    ((fieldsOf (settingsToks fmt lin set)).map Prod.fst = echoLabels ∧ echoLabels.Nodup)
    ∧ (∀ n v, lookupFld (settingsToks fmt lin set) n = some v ↔ (n, v) ∈ fieldsOf (settingsToks fmt lin set))
    ∧ echoRead (settingsToks fmt lin set) = some (echoExact lin set)
    ∧ echoReadFloats (settingsToks fmt lin set) = some (echoFloats fmt set) :=
  ⟨⟨settingsToks_labels fmt lin set, echoLabels_nodup⟩,
   lookup_iff_mem_of_nodup _ (by rw [settingsToks_labels]; exact echoLabels_nodup),
   echoRead_settingsToks fmt lin set, echoReadFloats_settingsToks fmt lin set⟩

/-- `settings_echo_determines` from `echo_tokens_parse_back`: the reader is a function of the
labelled tokens -/
example {β : Type} (fmt : FloatFmt β) (lin lin' : LinearSolverInfo) (s s' : Settings β)
    (h : fieldsOf (settingsToks fmt lin s) = fieldsOf (settingsToks fmt lin' s')) :
    echoExact lin s = echoExact lin' s' := by
  have h1 := (echo_tokens_parse_back fmt lin s).2.2.1
  have h2 := (echo_tokens_parse_back fmt lin' s').2.2.1
  unfold echoRead lookupFld at h1 h2
  rw [h] at h1
  exact Option.some.inj (h1.symm.trans h2)

/-- non-vacuity of `whole_log_eq_render`: a formatting with eight cells per row, the settings
record of the counterexample section, two rows; the hypothesis of the byte-level clause
(`wholeLog … = .ok log`) is satisfied by clause 2, and UTF-8 is an `EncHom` -/
def exFmt : FloatFmt Int :=
  { e1 := toString, f3 := toString, f1 := toString, dbg := toString, isInfinite := fun _ => false,
    duration := toString, sizeOf := 8 }

def exCellFmt (r : Row Int) : RowText :=
  { iterations := r.iterations,
    cells := #[toString r.costPrimal, toString r.costDual, toString r.gap, toString r.resPrimal,
               toString r.resDual, toString r.ktratio, toString r.mu, toString r.stepLength] }

example (rows : List (Row Int)) (st : Status) :
    ∃ log, wholeLog exFmt ⟨"qdldl", 1, true⟩ Counterexample.set ⟨none, none, 1, 1, 0, 1, [(.Nonnegative, 1)]⟩
        "0.11.1" false (rows.map exCellFmt) st 7 = .ok log
      ∧ (runEvents true (logRenderer utf8 exFmt ⟨"qdldl", 1, true⟩ Counterexample.set
          ⟨none, none, 1, 1, 0, 1, [(.Nonnegative, 1)]⟩ "0.11.1" false exCellFmt 7) (.buffer [])
          (eventsOf rows st)).getPrintBuffer = .ok (utf8 log) := by
  have h := whole_log_eq_render exFmt ⟨"qdldl", 1, true⟩ Counterexample.set
    ⟨none, none, 1, 1, 0, 1, [(.Nonnegative, 1)]⟩ "0.11.1" false exCellFmt rows st 7 rfl (fun _ _ => rfl)
  exact ⟨_, h.2.1, h.2.2.2 _ h.2.1⟩

example : EncHom utf8 := utf8_hom

/-- a concrete row: the first row of a table shows the placeholder instead of the step length -/
example : statusLine 0 #["a", "b", "c", "d", "e", "f", "g", "h"]
    = .ok "  0  a  b  c  d  e  f  g   ------   \n" := by
  rw [(status_line_tokens 0 _).1 rfl]; rfl

end Clarabel.C20
