/-
  C01 — `Solved` certifies the USER's problem, END TO END on the whole-solver model (round 4,
  composition): from the user's input `(P, q, A, b, cones, settings)` to the documented termination
  test AND `s ∈ K`, `z ∈ K*` of the returned point.  Interior-ness of the internal iterate — a
  hypothesis of `C01.solved_certifies_user_problem` / `C01.returned_point_in_cones` in round 3 — is
  now supplied by C07's interior-point invariant, carried over to the whole-solver model's own
  `calc_step_length` / `add_step` / `default_start` (`Lemmas/StepKBridge.lean`), together with
  `s = 0` on the zero-cone rows (`Lemmas/SolverFullZero.lean`).

  A file of its own (imported by `Props/C01.lean`) because of its import chain.
-/
import ClarabelProofs.Lemmas.SolverFullCompose
import ClarabelProofs.Lemmas.StepKBridge
import ClarabelProofs.Lemmas.SolverFullZero
import ClarabelProofs.Lemmas.SolverFullExample
import ClarabelProofs.Lemmas.CollapseMem
import ClarabelProofs.Lemmas.SolverFullPresolvedCert

namespace Clarabel.C01
open Clarabel Clarabel.Solver Clarabel.InfoUser Clarabel.Dense

/-- **[R] `C01.full_interior_invariant`** — the bridge (e): on the whole-solver model (zero /
nonnegative / second-order cones), with `0 < max_step_fraction < 1` and `T::max_value() > 0`, EVERY
iterate recorded during a `solve()` on a solver object built by `DefaultSolver::new` has `τ > 0`,
`κ > 0`, `z` strictly inside `K*` and `s` strictly inside `K` on the nonnegative and second-order
rows, and `s = 0` on the zero-cone rows — whatever the KKT solves return.  (`Interior`, `ZeroS`:
C07's `Blk.Interior` on the blocks the model's own `rng_cones` cut; the step length is the model's
own `calcStepLength … .combined`, the update its own `addStep`.) -/
theorem full_interior_invariant {P : Csc ℝ} {q : Array ℝ} {A : Csc ℝ} {b : Array ℝ}
    {cones : List (ConeT ℝ)} {st0 st : Solver.Settings ℝ} {perm : Array Nat} {S : Solver ℝ}
    {r : SolveResult ℝ}
    (hf0 : 0 < st.maxStepFraction) (hf1 : st.maxStepFraction < 1) (hmv : 0 < st.maxValue)
    (hnew : Solver.new P q A b cones st0 perm = .ok S) (hr : S.solve st = .ok r) :
    ∀ p ∈ r.traj, Interior (layout S.st) p.vars ∧ ZeroS (layout S.st) p.vars :=
  fun p hp =>
    ((solve_traj_inv ((interior_stepHyp st hf0 hf1 hmv).and (zeroS_stepHyp st))
      ((interior_initHyp st).and (zeroS_initHyp st)) (SizedSt.of_new hnew) hr).1 p hp).1

/-- **[R] `C01.full_solved_certifies`** — status `Solved` of the whole solver certifies the USER's
problem.

Let `DefaultSolver::new(P, q, A, b, cones, settings)` succeed on well-formed input (`InputOK`),
presolve off or dropping no row (`hpre`), positive equilibration bounds, `0 < max_step_fraction < 1`,
`T::max_value() > 0`, and let `solve()` return with status `Solved`.  Then the RETURNED `x, s, z` satisfy, on the user's
`P` (the symmetric matrix whose triangle `P.to_triu()` holds), `q`, `A`, `b` (capped at the
infinity bound), in exact arithmetic, the documented termination test
`‖Ax+s−b‖₂ / max(1, ‖b‖∞+‖x‖₂+‖s‖₂) < tol_feas`, `‖Px+Aᵀz+q‖₂ / max(1, ‖q‖∞+‖x‖₂+‖z‖₂) < tol_feas`,
`|p−d| < tol_gap_abs ∨ |p−d| / max(1, min(|p|,|d|)) < tol_gap_rel` (`p = ½xᵀPx+qᵀx`,
`d = −bᵀz−½xᵀPx`), AND `s ∈ K`, `z ∈ K*` (product cone of the collapsed cone list — the normal form
`new_collapsed` computes of the user's list; entrywise for zero / nonnegative cones, `‖v‖ ≤ t` for
second-order cones), and `|x| = n`, `|s| = |z| = m`.

No hypothesis about an internal iterate is left (`τ > 0` and the cone membership of the internal
iterate come from `full_interior_invariant`; the sizes from the state invariant; `UserData` from
`InputOK`).  `new = .ok`, `solve = .ok` are the conclusions of `C04.full_no_panic`. -/
theorem full_solved_certifies {P : Csc ℝ} {q : Array ℝ} {A : Csc ℝ} {b : Array ℝ}
    {cones : List (ConeT ℝ)} {st : Solver.Settings ℝ} {perm : Array Nat} {S : Solver ℝ}
    {r : SolveResult ℝ}
    (hin : InputOK P q A b cones)
    (hpre : st.presolveEnable = false ∨ ∃ keep,
      Presolve.keepFlags (Presolve.threshold st.infbound) (Cones.newCollapsed cones) b.toList = .ok keep
        ∧ keep.count true = b.size)
    (hlo : 0 < st.equil.minScaling) (hhi : 0 < st.equil.maxScaling)
    (hf0 : 0 < st.maxStepFraction) (hf1 : st.maxStepFraction < 1) (hmv : 0 < st.maxValue)
    (hnew : Solver.new P q A b cones st perm = .ok S) (hr : S.solve st = .ok r)
    (hst : r.S.solution.status = .solved) :
    ∃ Pn, ProblemData.triuStep P = .ok Pn ∧
      let bc := ProblemData.capB b st.infbound
      let p := problemOf Pn q A bc A.n A.m
      let x := vecFn r.S.solution.x A.n
      let sv := vecFn r.S.solution.s A.m
      let z := vecFn r.S.solution.z A.m
      let pobj := dot x (mulV p.P x) / 2 + dot p.q x
      let dobj := -dot p.b z - dot x (mulV p.P x) / 2
      nrm (fun k => mulV p.A x k + sv k - p.b k) / max 1 (Vec.normInf bc + nrm x + nrm sv) < st.info.full.feas
      ∧ nrm (fun j => mulV p.P x j + mulVT p.A z j + p.q j) / max 1 (Vec.normInf q + nrm x + nrm z)
          < st.info.full.feas
      ∧ (|pobj - dobj| < st.info.full.gap_abs
          ∨ |pobj - dobj| / max 1 (min |pobj| |dobj|) < st.info.full.gap_rel)
      ∧ Equil.CompositeMem Equil.ConeMem (Cones.newCollapsed cones) r.S.solution.s.toList
      ∧ Equil.CompositeMem Equil.ConeMemDual (Cones.newCollapsed cones) r.S.solution.z.toList
      ∧ r.S.solution.x.size = A.n ∧ r.S.solution.s.size = A.m ∧ r.S.solution.z.size = A.m :=
  full_solved_chain ((interior_stepHyp st hf0 hf1 hmv).and (zeroS_stepHyp st))
    ((interior_initHyp st).and (zeroS_initHyp st)) (fun _ _ h => h.1.pos.1)
    (fun _ _ _ hK h => ⟨Interior.mem_primal hK h.1 h.2, Interior.mem_dual hK h.1⟩)
    ⟨hin, hpre, hlo, hhi⟩ hnew hr hst

/-- **[R] `C01.full_almost_solved_certifies`** — status `AlmostSolved` of the whole solver
(assigned by `Info::post_process` after `MaxIterations`, `MaxTime`, `NumericalError` or
`InsufficientProgress`): under the hypotheses of `full_solved_certifies`, the RETURNED `x, s, z`
pass the documented termination test with the REDUCED tolerances on the user's data, and `s ∈ K`,
`z ∈ K*` — also after an insufficient-progress rollback, where the returned point and the six
figures judged are those of the restored iterate (the last pass but one). -/
theorem full_almost_solved_certifies {P : Csc ℝ} {q : Array ℝ} {A : Csc ℝ} {b : Array ℝ}
    {cones : List (ConeT ℝ)} {st : Solver.Settings ℝ} {perm : Array Nat} {S : Solver ℝ}
    {r : SolveResult ℝ}
    (hin : InputOK P q A b cones)
    (hpre : st.presolveEnable = false ∨ ∃ keep,
      Presolve.keepFlags (Presolve.threshold st.infbound) (Cones.newCollapsed cones) b.toList = .ok keep
        ∧ keep.count true = b.size)
    (hlo : 0 < st.equil.minScaling) (hhi : 0 < st.equil.maxScaling)
    (hf0 : 0 < st.maxStepFraction) (hf1 : st.maxStepFraction < 1) (hmv : 0 < st.maxValue)
    (hnew : Solver.new P q A b cones st perm = .ok S) (hr : S.solve st = .ok r)
    (hst : r.S.solution.status = .almostSolved) :
    ∃ Pn, ProblemData.triuStep P = .ok Pn ∧
      let bc := ProblemData.capB b st.infbound
      let p := problemOf Pn q A bc A.n A.m
      let x := vecFn r.S.solution.x A.n
      let sv := vecFn r.S.solution.s A.m
      let z := vecFn r.S.solution.z A.m
      let pobj := dot x (mulV p.P x) / 2 + dot p.q x
      let dobj := -dot p.b z - dot x (mulV p.P x) / 2
      nrm (fun k => mulV p.A x k + sv k - p.b k) / max 1 (Vec.normInf bc + nrm x + nrm sv)
          < st.info.reduced.feas
      ∧ nrm (fun j => mulV p.P x j + mulVT p.A z j + p.q j) / max 1 (Vec.normInf q + nrm x + nrm z)
          < st.info.reduced.feas
      ∧ (|pobj - dobj| < st.info.reduced.gap_abs
          ∨ |pobj - dobj| / max 1 (min |pobj| |dobj|) < st.info.reduced.gap_rel)
      ∧ Equil.CompositeMem Equil.ConeMem (Cones.newCollapsed cones) r.S.solution.s.toList
      ∧ Equil.CompositeMem Equil.ConeMemDual (Cones.newCollapsed cones) r.S.solution.z.toList :=
  full_almost_solved_chain ((interior_stepHyp st hf0 hf1 hmv).and (zeroS_stepHyp st))
    ((interior_initHyp st).and (zeroS_initHyp st)) (fun _ _ h => h.1.pos.1)
    (fun _ _ _ hK h => ⟨Interior.mem_primal hK h.1 h.2, Interior.mem_dual hK h.1⟩)
    ⟨hin, hpre, hlo, hhi⟩ hnew hr hst

/-- **[R] `C01.collapsed_cones_same_product_cone`** — the cone list the full theorems state
`s ∈ K`, `z ∈ K*` for (`new_collapsed` of the user's list: empty cones dropped,
`SecondOrderConeT(1)` counted as `NonnegativeConeT(1)`, runs of nonnegative cones merged) describes
the SAME product cone as the user's list, for lists of zero / nonnegative / second-order cones of any
dimensions (0 and 1 included) and vectors with at least `Σ nvars` entries.  So the membership
conclusions of `full_solved_certifies`, `C02.full_*_certifies` hold verbatim for the user's `cones`. -/
theorem collapsed_cones_same_product_cone (cones : List (ConeT ℝ))
    (h : ∀ c ∈ cones, Equil.SimpleCone c) (v : Array ℝ) (hlen : Cones.numel cones ≤ v.size) :
    (Equil.CompositeMem Equil.ConeMem (Cones.newCollapsed cones) v.toList
        ↔ Equil.CompositeMem Equil.ConeMem cones v.toList)
    ∧ (Equil.CompositeMem Equil.ConeMemDual (Cones.newCollapsed cones) v.toList
        ↔ Equil.CompositeMem Equil.ConeMemDual cones v.toList) :=
  Equil.compositeMem_newCollapsed cones h v.toList (by simpa using hlen)

/-! ### non-vacuity -/

/-- the input hypotheses hold on `min x s.t. x + s = 1, s ≥ 0` (real data) -/
example : InputOK FullExample.P #[1] FullExample.A #[1] ([.nonneg 1] : List (ConeT ℝ)) :=
  FullExample.inputOK
example : (0:ℝ) < 1e-4 ∧ (0:ℝ) < 1e4 ∧ (0:ℝ) < 0.99 ∧ (0.99:ℝ) < 1 := by norm_num
/-- `collapsed_cones_same_product_cone`: a list with an empty cone, a `SecondOrderConeT(1)` and two
nonnegative cones is simple -/
example : ∀ c ∈ ([.nonneg 1, .soc 1, .zero 0, .nonneg 2] : List (ConeT ℝ)), Equil.SimpleCone c := by
  intro c hc; simp at hc; rcases hc with rfl | rfl | rfl | rfl <;> trivial

/-- the presolve hypothesis `hpre` holds for every problem when presolve is off -/
example (b : Array ℝ) (cones : List (ConeT ℝ)) (inf : ℝ) : (false = false) ∨ ∃ keep,
    Presolve.keepFlags (Presolve.threshold inf) (Cones.newCollapsed cones) b.toList = .ok keep
      ∧ keep.count true = b.size := Or.inl rfl

section
open Clarabel.Solver.Example
attribute [local instance] intFloatLike
/-- the run hypotheses (`new` succeeds, `solve()` returns `Solved`) hold on the same instance with
integer data, evaluated by the kernel -/
example : ∃ S r, newSolver 3 = .ok S ∧ S.solve (Example.st 3) = .ok r
    ∧ r.S.solution.status = .solved := FullExample.run3_hyps
end

/-! ## Round 5 — the full theorems when PRESOLVE DROPS ROWS -/

/-- **[R] `C01.full_solved_certifies_presolved`** — `full_solved_certifies` when presolve is enabled
and DROPS ROWS (`keep` = the keep vector of `make_reduction_map` on the collapsed cone list, at
least one flag `false`; together with `full_solved_certifies` — presolve off or nothing dropped —
this covers every case).  For the full-length `x, s, z` the user receives (`reverse_presolve`) and
the user's FULL `P` (`P.to_triu()`), `q`, `A`, `b` (capped), in exact arithmetic:
* the dual residual test `‖Px+Aᵀz+q‖₂ / max(1, ‖q‖∞+‖x‖₂+‖z‖₂) < tol_feas` holds VERBATIM;
* the gap test (`p = ½xᵀPx+qᵀx`, `d = −bᵀz−½xᵀPx`) holds VERBATIM;
* the primal residual test holds with the residual norm and `‖s‖` taken over the KEPT rows
  (`nrmKept`) and `normb = ‖b[keep]‖∞` (capped): `‖(Ax+s−b)|kept‖ / max(1, normb+‖x‖+‖s|kept‖) < tol_feas`;
* every dropped row carries `s = infbound`, `z = 0`;
* `s ∈ K`, `z ∈ K*` for the user's (collapsed) cone list and the FULL vectors (`0 ≤ infbound`:
  dropped rows belong to nonnegative cones), `|x| = n`.
Composition of `C09.presolve_transparent_full` (the presolve-on solve is the solve of the
hand-reduced problem built with presolve off), `full_solved_certifies` on the hand-reduced problem,
the arithmetic of `solved_certifies_user_problem_presolved` and the lifting of cone membership
through `reduce_cones` (`Lemmas/SolverFullPresolvedCert.lean`). -/
theorem full_solved_certifies_presolved {P : Csc ℝ} {q : Array ℝ} {A : Csc ℝ} {b : Array ℝ}
    {cones : List (ConeT ℝ)} {st : Solver.Settings ℝ} {perm : Array Nat} {S : Solver ℝ}
    {r : SolveResult ℝ} {keep : List Bool}
    (hin : InputOK P q A b cones) (hpe : st.presolveEnable = true)
    (hk : Presolve.keepFlags (Presolve.threshold st.infbound) (Cones.newCollapsed cones) b.toList = .ok keep)
    (hc : keep.count true < b.size) (hib : 0 ≤ st.infbound)
    (hlo : 0 < st.equil.minScaling) (hhi : 0 < st.equil.maxScaling)
    (hf0 : 0 < st.maxStepFraction) (hf1 : st.maxStepFraction < 1) (hmv : 0 < st.maxValue)
    (hnew : Solver.new P q A b cones st perm = .ok S) (hr : S.solve st = .ok r)
    (hst : r.S.solution.status = .solved) :
    ∃ Pn, ProblemData.triuStep P = .ok Pn ∧
      let n := A.n
      let m := A.m
      let bc := ProblemData.capB b st.infbound
      let Pd := symFn Pn n
      let qd := vecFn q n
      let x := vecFn r.S.solution.x n
      let s := vecFn r.S.solution.s m
      let z := vecFn r.S.solution.z m
      let kp := InfoPresolve.keepFn keep m
      let normb := Vec.normInf (ProblemData.capB (Vec.select b keep.toArray) st.infbound)
      let pobj := dot x (mulV Pd x) / 2 + dot qd x
      let dobj := -dot (vecFn bc m) z - dot x (mulV Pd x) / 2
      InfoPresolve.nrmKept kp (fun i => mulV (matFn A m n) x i + s i - vecFn bc m i)
          / max 1 (normb + nrm x + InfoPresolve.nrmKept kp s) < st.info.full.feas
      ∧ nrm (fun j => mulV Pd x j + mulVT (matFn A m n) z j + qd j)
          / max 1 (Vec.normInf q + nrm x + nrm z) < st.info.full.feas
      ∧ (|pobj - dobj| < st.info.full.gap_abs
          ∨ |pobj - dobj| / max 1 (min |pobj| |dobj|) < st.info.full.gap_rel)
      ∧ (∀ i, kp i = false → s i = st.infbound ∧ z i = 0)
      ∧ Equil.CompositeMem Equil.ConeMem (Cones.newCollapsed cones) r.S.solution.s.toList
      ∧ Equil.CompositeMem Equil.ConeMemDual (Cones.newCollapsed cones) r.S.solution.z.toList
      ∧ r.S.solution.x.size = A.n :=
  full_solved_presolved_chain hin hpe hk hc hib hlo hhi hf0 hf1 hmv hnew hr hst

/-- **[R] `C01.full_almost_solved_certifies_presolved`** — `full_almost_solved_certifies` when
presolve DROPS ROWS: the reduced-tolerance test on the user's full data, dual and gap tests
verbatim, the primal test over the kept rows, `(s, z) = (infbound, 0)` on the dropped rows (also
after an insufficient-progress rollback). -/
theorem full_almost_solved_certifies_presolved {P : Csc ℝ} {q : Array ℝ} {A : Csc ℝ} {b : Array ℝ}
    {cones : List (ConeT ℝ)} {st : Solver.Settings ℝ} {perm : Array Nat} {S : Solver ℝ}
    {r : SolveResult ℝ} {keep : List Bool}
    (hin : InputOK P q A b cones) (hpe : st.presolveEnable = true)
    (hk : Presolve.keepFlags (Presolve.threshold st.infbound) (Cones.newCollapsed cones) b.toList = .ok keep)
    (hc : keep.count true < b.size)
    (hlo : 0 < st.equil.minScaling) (hhi : 0 < st.equil.maxScaling)
    (hf0 : 0 < st.maxStepFraction) (hf1 : st.maxStepFraction < 1) (hmv : 0 < st.maxValue)
    (hnew : Solver.new P q A b cones st perm = .ok S) (hr : S.solve st = .ok r)
    (hst : r.S.solution.status = .almostSolved) :
    ∃ Pn, ProblemData.triuStep P = .ok Pn ∧
      let n := A.n
      let m := A.m
      let bc := ProblemData.capB b st.infbound
      let Pd := symFn Pn n
      let qd := vecFn q n
      let x := vecFn r.S.solution.x n
      let s := vecFn r.S.solution.s m
      let z := vecFn r.S.solution.z m
      let kp := InfoPresolve.keepFn keep m
      let normb := Vec.normInf (ProblemData.capB (Vec.select b keep.toArray) st.infbound)
      let pobj := dot x (mulV Pd x) / 2 + dot qd x
      let dobj := -dot (vecFn bc m) z - dot x (mulV Pd x) / 2
      InfoPresolve.nrmKept kp (fun i => mulV (matFn A m n) x i + s i - vecFn bc m i)
          / max 1 (normb + nrm x + InfoPresolve.nrmKept kp s) < st.info.reduced.feas
      ∧ nrm (fun j => mulV Pd x j + mulVT (matFn A m n) z j + qd j)
          / max 1 (Vec.normInf q + nrm x + nrm z) < st.info.reduced.feas
      ∧ (|pobj - dobj| < st.info.reduced.gap_abs
          ∨ |pobj - dobj| / max 1 (min |pobj| |dobj|) < st.info.reduced.gap_rel)
      ∧ (∀ i, kp i = false → s i = st.infbound ∧ z i = 0) :=
  full_almost_solved_presolved_chain hin hpe hk hc hlo hhi hf0 hf1 hmv hnew hr hst

/-- non-vacuity of the presolve hypotheses `hk`, `hc`, `hib` over `ℝ`: cones `[nonneg 2]`,
`b = (1, 2·10²⁰)`, infinity bound `10²⁰` — `make_reduction_map` drops row 1.  (That `new` succeeds
with presolve on, drops the row, and `solve()` ends `Solved` with `s = [0, infbound]`, `z = [1, 0]`
on the integer instance of `Lemmas/PresolveSolveTransparent.lean` was evaluated by the kernel, see
`C09`'s non-vacuity example and the comment there.) -/
example : Presolve.keepFlags (Presolve.threshold (1e20 : ℝ)) (Cones.newCollapsed [ConeT.nonneg 2])
      (#[1, 2e20] : Array ℝ).toList = .ok [true, false]
    ∧ [true, false].count true < (#[1, 2e20] : Array ℝ).size ∧ (0 : ℝ) ≤ 1e20 :=
  ⟨Solver.keepFlags_example, by decide, by norm_num⟩

end Clarabel.C01
