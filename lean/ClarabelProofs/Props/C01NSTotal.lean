/-
  C01 ∘ C04 on the whole-solver model WITH NONSYMMETRIC CONES — the TOTAL form of
  `C01.ns_full_solved_certifies` /
  `ns_full_almost_solved_certifies`: the run hypotheses `SolverNS.Solver.new … = .ok S`,
  `S.solve st = .ok r` are DISCHARGED by C04's panic-freedom for that model (`C04.ns_no_panic*`,
  `SolverNS.solverNew_okN`), as far as it goes:
  * `new` returns a solver object (no PSD cone in the list: `ConeT.modelledN`);
  * `solve()` returns `.ok r`, OR stops at one of the two numerical-domain sites
    (`"argument not in supported range"`: `_wright_omega` of an exponential cone, only if the user's
    list has an exponential cone; `"backtrack_search: fuel"`: the model's fuel for the unbounded
    `loop` of `backtrack_search`, only if the user's list has a nonsymmetric cone) — `OkOr (UserSite
    cones)`; it never answers `.err` and never panics elsewhere;
  * with symmetric cones only (`¬ userHasNonsym`) `solve()` returns: `*_symmetric`.
  What C04 needs, exactly: `InputOKN` (`Solver.InputOK` + the construction guard of every generalised
  power cone), no PSD cone, `0 < n`, `PermForN`, `PivotOK`, `FmaxOK`; over `ℝ` `FmaxOK` is a theorem
  (`Solver.fmaxOK_real`), `PivotOK` follows from `dynamic_regularization_eps > 0`, `delta ≠ 0`.
-/
import ClarabelProofs.Props.C01NS
import ClarabelProofs.Lemmas.SolverNSTotal
import ClarabelProofs.Lemmas.SolverNSTotalRealRun

namespace Clarabel.C01
open Clarabel Clarabel.InfoUser Clarabel.Dense

/-- **[R] `C01.ns_full_solve_total`** — with nonsymmetric cones: `DefaultSolver::new` RETURNS, `solve()`
returns OR stops at a numerical-domain site, and a `Solved` / `AlmostSolved` answer certifies the USER's
problem — no run hypothesis left.

For well-formed input (`InputOKN`, `ValidCones`) with zero / nonnegative / second-order / exponential /
power / generalised power cones, `n ≥ 1`, `PermForN`, `PivotOK`, presolve off or dropping no row,
positive equilibration bounds, `0 < max_step_fraction < 1`, `T::max_value() > 0`,
`0 ≤ linesearch_backtrack_step ≤ 1`: `new` returns `S`; `S.solve st` is `.ok r` or `.error (.panic
site)` with `UserSite cones site`; and IF it is `.ok r` with status `Solved` (`tol` = full tolerances)
or `AlmostSolved` (`tol` = reduced tolerances) THEN the conclusion of `ns_full_solved_certifies` /
`ns_full_almost_solved_certifies` holds verbatim. -/
theorem ns_full_solve_total {P : Csc ℝ} {q : Array ℝ} {A : Csc ℝ} {b : Array ℝ}
    {cones : List (ConeT ℝ)} {st : SolverNS.Settings ℝ} {perm : Array Nat}
    (hin : SolverNS.InputOKN P q A b cones) (hvc : Equil.ValidCones cones)
    (hm : ∀ c ∈ cones, SolverNS.ConeT.modelledN c) (hn : 0 < P.n)
    (hperm : SolverNS.PermForN P q A b cones st perm) (hpiv : Solver.PivotOK st.lin)
    (hpre : st.presolveEnable = false ∨ ∃ keep,
      Presolve.keepFlags (Presolve.threshold st.infbound) (Cones.newCollapsed cones) b.toList = .ok keep
        ∧ keep.count true = b.size)
    (hlo : 0 < st.equil.minScaling) (hhi : 0 < st.equil.maxScaling)
    (hf0 : 0 < st.maxStepFraction) (hf1 : st.maxStepFraction < 1) (hmv : 0 < st.maxValue)
    (hb0 : 0 ≤ st.linesearchBacktrackStep) (hb1 : st.linesearchBacktrackStep ≤ 1) :
    ∃ S, SolverNS.Solver.new P q A b cones st perm = .ok S ∧
      SolverNS.OkOr (SolverNS.UserSite cones) (S.solve st) (fun r =>
      ∀ tol : Info.Tols ℝ,
        (r.S.solution.status = .solved ∧ tol = st.info.full)
          ∨ (r.S.solution.status = .almostSolved ∧ tol = st.info.reduced) →
      ∃ Pn, ProblemData.triuStep P = .ok Pn ∧
        let bc := ProblemData.capB b st.infbound
        let p := problemOf Pn q A bc A.n A.m
        let x := vecFn r.S.solution.x A.n
        let sv := vecFn r.S.solution.s A.m
        let z := vecFn r.S.solution.z A.m
        let pobj := dot x (mulV p.P x) / 2 + dot p.q x
        let dobj := -dot p.b z - dot x (mulV p.P x) / 2
        nrm (fun k => mulV p.A x k + sv k - p.b k) / max 1 (Vec.normInf bc + nrm x + nrm sv) < tol.feas
        ∧ nrm (fun j => mulV p.P x j + mulVT p.A z j + p.q j) / max 1 (Vec.normInf q + nrm x + nrm z)
            < tol.feas
        ∧ (|pobj - dobj| < tol.gap_abs ∨ |pobj - dobj| / max 1 (min |pobj| |dobj|) < tol.gap_rel)
        ∧ Equil.CompositeMem Equil.ConeMem (Cones.newCollapsed cones) r.S.solution.s.toList
        ∧ Equil.CompositeMem Equil.ConeMemDual (Cones.newCollapsed cones) r.S.solution.z.toList
        ∧ r.S.solution.x.size = A.n ∧ r.S.solution.s.size = A.m ∧ r.S.solution.z.size = A.m) := by
  obtain ⟨S, hnew, _, hs⟩ := SolverNS.run_totalN hin hm hn hperm hpiv Solver.fmaxOK_real
  refine ⟨S, hnew, SolverNS.OkOr.mono_ok hs fun r hr _ => ?_⟩
  rintro tol (⟨hst, rfl⟩ | ⟨hst, rfl⟩)
  · exact ns_full_solved_certifies hin.base hvc hpre hlo hhi hf0 hf1 hmv hb0 hb1 hnew hr hst
  · exact ns_full_almost_solved_certifies hin.base hvc hpre hlo hhi hf0 hf1 hmv hb0 hb1 hnew hr hst

/-- **[R] `C01.ns_full_solve_total_symmetric`** — `ns_full_solve_total` for a problem whose cones are all symmetric (zero /
nonnegative / second-order; `¬ userHasNonsym`), run through the model with nonsymmetric cones: no
exception is left — `new` returns `S`, `S.solve st` returns `r`, and the implication holds. -/
theorem ns_full_solve_total_symmetric {P : Csc ℝ} {q : Array ℝ} {A : Csc ℝ} {b : Array ℝ}
    {cones : List (ConeT ℝ)} {st : SolverNS.Settings ℝ} {perm : Array Nat}
    (hin : SolverNS.InputOKN P q A b cones) (hvc : Equil.ValidCones cones)
    (hm : ∀ c ∈ cones, SolverNS.ConeT.modelledN c) (hn : 0 < P.n)
    (hperm : SolverNS.PermForN P q A b cones st perm) (hpiv : Solver.PivotOK st.lin)
    (hpre : st.presolveEnable = false ∨ ∃ keep,
      Presolve.keepFlags (Presolve.threshold st.infbound) (Cones.newCollapsed cones) b.toList = .ok keep
        ∧ keep.count true = b.size)
    (hlo : 0 < st.equil.minScaling) (hhi : 0 < st.equil.maxScaling)
    (hf0 : 0 < st.maxStepFraction) (hf1 : st.maxStepFraction < 1) (hmv : 0 < st.maxValue)
    (hb0 : 0 ≤ st.linesearchBacktrackStep) (hb1 : st.linesearchBacktrackStep ≤ 1)
    (hsym : ¬ SolverNS.userHasNonsym cones) :
    ∃ S r, SolverNS.Solver.new P q A b cones st perm = .ok S ∧ S.solve st = .ok r ∧ (
      ∀ tol : Info.Tols ℝ,
        (r.S.solution.status = .solved ∧ tol = st.info.full)
          ∨ (r.S.solution.status = .almostSolved ∧ tol = st.info.reduced) →
      ∃ Pn, ProblemData.triuStep P = .ok Pn ∧
        let bc := ProblemData.capB b st.infbound
        let p := problemOf Pn q A bc A.n A.m
        let x := vecFn r.S.solution.x A.n
        let sv := vecFn r.S.solution.s A.m
        let z := vecFn r.S.solution.z A.m
        let pobj := dot x (mulV p.P x) / 2 + dot p.q x
        let dobj := -dot p.b z - dot x (mulV p.P x) / 2
        nrm (fun k => mulV p.A x k + sv k - p.b k) / max 1 (Vec.normInf bc + nrm x + nrm sv) < tol.feas
        ∧ nrm (fun j => mulV p.P x j + mulVT p.A z j + p.q j) / max 1 (Vec.normInf q + nrm x + nrm z)
            < tol.feas
        ∧ (|pobj - dobj| < tol.gap_abs ∨ |pobj - dobj| / max 1 (min |pobj| |dobj|) < tol.gap_rel)
        ∧ Equil.CompositeMem Equil.ConeMem (Cones.newCollapsed cones) r.S.solution.s.toList
        ∧ Equil.CompositeMem Equil.ConeMemDual (Cones.newCollapsed cones) r.S.solution.z.toList
        ∧ r.S.solution.x.size = A.n ∧ r.S.solution.s.size = A.m ∧ r.S.solution.z.size = A.m) := by
  obtain ⟨S, hnew, hs⟩ := ns_full_solve_total hin hvc hm hn hperm hpiv hpre hlo hhi hf0 hf1 hmv hb0 hb1
  obtain ⟨r, hr, _⟩ := SolverNS.solve_ok_symmetric Solver.fmaxOK_real st
    (SolverNS.solverNew_invQ hin hn hperm hpiv hnew)
    (fun hns => hsym ((SolverNS.new_cone_kinds hnew).2 hns))
  exact ⟨S, r, hnew, hr, hs.of_ok hr⟩

/-! ### non-vacuity: over `ℝ` every hypothesis holds on the instance WITH an exponential and a power
cone of `Lemmas/SolverNSFullExample.lean` (`cones = [nonneg 1, exp, pow ½]`, default settings), and on
`min x s.t. x + s = 1, s ≥ 0` for the symmetric variant (`Lemmas/SolverNSTotal.lean`) -/
section totalExamples
open Clarabel.SolverNS

example : InputOKN FullExample.P FullExample.q FullExample.A FullExample.b FullExample.cones :=
  FullExample.inputOKN
example : Equil.ValidCones FullExample.cones := FullExample.validCones
example : ∀ c ∈ FullExample.cones, ConeT.modelledN c := FullExample.modelledN
example : PermForN FullExample.P FullExample.q FullExample.A FullExample.b FullExample.cones
    FullExample.stR #[0, 1, 2, 3, 4, 5, 6, 7] := FullExample.permForN _ rfl
example : Solver.PivotOK FullExample.stR.lin := FullExample.stR_pivotOK
example : Solver.FmaxOK ℝ := Solver.fmaxOK_real
/-- the theorem applies to that instance: `new` returns a solver object -/
example : ∃ S, Solver.new FullExample.P FullExample.q FullExample.A FullExample.b FullExample.cones
    FullExample.stR #[0, 1, 2, 3, 4, 5, 6, 7] = .ok S := by
  obtain ⟨h0, h1, h2, h3, h4, h5, h6, h7⟩ := FullExample.stR_ok
  obtain ⟨S, a, _⟩ := ns_full_solve_total FullExample.inputOKN FullExample.validCones FullExample.modelledN
    (by decide) (FullExample.permForN _ rfl) FullExample.stR_pivotOK (Or.inl h0) h1 h2 h3 h4 h5 h6 h7
  exact ⟨S, a⟩
/-- the symmetric variant applies to `min x s.t. x + s = 1, s ≥ 0`: `new` and `solve()` return -/
example : ¬ userHasNonsym ([.nonneg 1] : List (ConeT ℝ)) := FullExample.symNotNonsym
example : ∃ S r, Solver.new Solver.FullExample.P #[1] Solver.FullExample.A #[1]
      ([.nonneg 1] : List (ConeT ℝ)) FullExample.stR #[0, 1] = .ok S
    ∧ S.solve FullExample.stR = .ok r := by
  obtain ⟨h0, h1, h2, h3, h4, h5, h6, h7⟩ := FullExample.stR_ok
  obtain ⟨S, r, a, b, _⟩ := ns_full_solve_total_symmetric FullExample.symInputOKN
    (fun c hc => by
      simp only [List.mem_cons, List.not_mem_nil, or_false] at hc
      subst hc; trivial)
    FullExample.symModelledN (by decide) (FullExample.symPermForN _ rfl) FullExample.stR_pivotOK
    (Or.inl h0) h1 h2 h3 h4 h5 h6 h7 FullExample.symNotNonsym
  exact ⟨S, r, a, b⟩

end totalExamples

/-! ### TOTAL over ℝ: no numerical-domain site left (`FuelOK`) -/

/-- **[R] `C01.ns_full_solve_total_real`** — `ns_full_solve_total` WITHOUT the alternative: over ℝ, when the
model's fuel for the `loop` of `backtrack_search` fits the line-search settings (`SolverNS.FuelOK st.ls`:
`0 < btFuel`, `0 ≤ linesearch_backtrack_step`, `linesearch_backtrack_step ^ btFuel <
min_terminate_step_length`; the defaults need 42 rounds), no panic site is left
(`C04.ns_solve_total_real`): `new` returns `S`, `S.solve st` RETURNS `.ok r`, and a `Solved` /
`AlmostSolved` answer certifies the USER's problem (the conclusion of `ns_full_solve_total` verbatim).
Hypotheses: those of `ns_full_solve_total` plus `FuelOK st.ls`; `ValidCones (layoutN S.st)` of
`C04.ns_solve_total_real` is derived from the user-level `ValidCones cones`
(`SolverNS.validCones_layout_of_new`). -/
theorem ns_full_solve_total_real {P : Csc ℝ} {q : Array ℝ} {A : Csc ℝ} {b : Array ℝ}
    {cones : List (ConeT ℝ)} {st : SolverNS.Settings ℝ} {perm : Array Nat}
    (hin : SolverNS.InputOKN P q A b cones) (hvc : Equil.ValidCones cones)
    (hm : ∀ c ∈ cones, SolverNS.ConeT.modelledN c) (hn : 0 < P.n)
    (hperm : SolverNS.PermForN P q A b cones st perm) (hpiv : Solver.PivotOK st.lin)
    (hpre : st.presolveEnable = false ∨ ∃ keep,
      Presolve.keepFlags (Presolve.threshold st.infbound) (Cones.newCollapsed cones) b.toList = .ok keep
        ∧ keep.count true = b.size)
    (hlo : 0 < st.equil.minScaling) (hhi : 0 < st.equil.maxScaling)
    (hf0 : 0 < st.maxStepFraction) (hf1 : st.maxStepFraction < 1) (hmv : 0 < st.maxValue)
    (hb0 : 0 ≤ st.linesearchBacktrackStep) (hb1 : st.linesearchBacktrackStep ≤ 1)
    (hF : SolverNS.FuelOK st.ls) :
    ∃ S r, SolverNS.Solver.new P q A b cones st perm = .ok S ∧ S.solve st = .ok r ∧ (
      ∀ tol : Info.Tols ℝ,
        (r.S.solution.status = .solved ∧ tol = st.info.full)
          ∨ (r.S.solution.status = .almostSolved ∧ tol = st.info.reduced) →
      ∃ Pn, ProblemData.triuStep P = .ok Pn ∧
        let bc := ProblemData.capB b st.infbound
        let p := problemOf Pn q A bc A.n A.m
        let x := vecFn r.S.solution.x A.n
        let sv := vecFn r.S.solution.s A.m
        let z := vecFn r.S.solution.z A.m
        let pobj := dot x (mulV p.P x) / 2 + dot p.q x
        let dobj := -dot p.b z - dot x (mulV p.P x) / 2
        nrm (fun k => mulV p.A x k + sv k - p.b k) / max 1 (Vec.normInf bc + nrm x + nrm sv) < tol.feas
        ∧ nrm (fun j => mulV p.P x j + mulVT p.A z j + p.q j) / max 1 (Vec.normInf q + nrm x + nrm z)
            < tol.feas
        ∧ (|pobj - dobj| < tol.gap_abs ∨ |pobj - dobj| / max 1 (min |pobj| |dobj|) < tol.gap_rel)
        ∧ Equil.CompositeMem Equil.ConeMem (Cones.newCollapsed cones) r.S.solution.s.toList
        ∧ Equil.CompositeMem Equil.ConeMemDual (Cones.newCollapsed cones) r.S.solution.z.toList
        ∧ r.S.solution.x.size = A.n ∧ r.S.solution.s.size = A.m ∧ r.S.solution.z.size = A.m) := by
  obtain ⟨S, hnew, hs⟩ := ns_full_solve_total hin hvc hm hn hperm hpiv hpre hlo hhi hf0 hf1 hmv hb0 hb1
  obtain ⟨S', r, hnew', hr, _⟩ :=
    SolverNS.run_total_realN hin hvc hm hn hperm hpiv hpre hf0 hf1 hmv hb0 hb1 hF
  exact ⟨S', r, hnew', hr, SolverNS.okOr_of_run hnew hnew' hr hs⟩

/-! ### non-vacuity of `ns_full_solve_total_real`: on the instance with an exponential and a power cone (`cones =
[nonneg 1, exp, pow ½]`, default settings, fuel 1000 ≥ 42) every hypothesis holds, `FuelOK` included -/
section totalRealExamples
open Clarabel.SolverNS

example : FuelOK FullExample.stR.ls := FullExample.stR_fuelOK
example : FuelOK (⟨0.8, 1e-4, 200000⟩ : LineSearch ℝ) := fuelOK_default (by omega)
/-- the theorem applies to that instance: `new` AND `solve()` return -/
example : ∃ S r, Solver.new FullExample.P FullExample.q FullExample.A FullExample.b FullExample.cones
      FullExample.stR #[0, 1, 2, 3, 4, 5, 6, 7] = .ok S ∧ S.solve FullExample.stR = .ok r := by
  obtain ⟨h0, h1, h2, h3, h4, h5, h6, h7⟩ := FullExample.stR_ok
  obtain ⟨S, r, a, b, _⟩ := ns_full_solve_total_real FullExample.inputOKN FullExample.validCones
    FullExample.modelledN (by decide) (FullExample.permForN _ rfl) FullExample.stR_pivotOK (Or.inl h0)
    h1 h2 h3 h4 h5 h6 h7 FullExample.stR_fuelOK
  exact ⟨S, r, a, b⟩

end totalRealExamples

end Clarabel.C01
