/-
  C15 — cone step lengths are safe and tight; margins and unit shifts place any vector
  strictly inside the cone.
  Property theorems only; helper lemmas live in `ClarabelProofs/Lemmas/Cones*.lean`.
-/
import ClarabelProofs.Lemmas.ConesNN
import ClarabelProofs.Lemmas.ConesSoc
import ClarabelProofs.Lemmas.ConesBacktrack
import ClarabelProofs.Lemmas.ConesComposite
import ClarabelProofs.Lemmas.ConesNonsymStep
import ClarabelProofs.Lemmas.ConesPsdStep
import ClarabelProofs.Lemmas.ConesCompositePsd
import ClarabelProofs.Lemmas.ConesNonsymConvex
import ClarabelProofs.Lemmas.ConesGenPowConvex
import ClarabelProofs.Lemmas.ConesPsdCongruence
import ClarabelProofs.Lemmas.PsdBarrier

namespace Clarabel.C15
open Clarabel

/-! ## Nonnegative cone -/
section NN
variable {α : Type} [Field α] [LinearOrder α] [IsStrictOrderedRing α] [FloatLike α]
  [LawfulFloatLike α]

/-- [F] NN `step_length` is the ratio test: each component is the left fold
`min(αmax, min_{dzᵢ<0} −zᵢ/dzᵢ)` over the coordinates (and never exceeds `αmax`). -/
theorem nn_step_formula (dz ds z s : Array α) (amax : α)
    (h1 : z.size = s.size) (h2 : dz.size = z.size) (h3 : ds.size = s.size) :
    Nonneg.stepLength dz ds z s amax =
      .ok ((z.toList.zip dz.toList).foldl (fun a p => if p.2 < 0 then min a (-p.1 / p.2) else a) amax,
           (s.toList.zip ds.toList).foldl (fun a p => if p.2 < 0 then min a (-p.1 / p.2) else a) amax) := by
  simp only [Nonneg.stepLength, h1, h2, h3, ne_eq, not_true_eq_false, ↓reduceIte, pure,
    Except.pure, Nonneg.stepComponent]
  congr 3 <;> (funext a p; exact Nonneg.ratio_eq a p.1 p.2)

/-- [F] NN: the step never exceeds `αmax`. -/
theorem nn_step_le_amax (amax : α) (z dz : List α) : Nonneg.stepComponent amax z dz ≤ amax :=
  Nonneg.stepComponent_le amax z dz

/-- [F] NN safety: from a point `z ≥ 0`, every step `0 ≤ a ≤ α*` keeps all coordinates
nonnegative. -/
theorem nn_step_safe (amax : α) (z dz : List α) (hz : ∀ p ∈ z.zip dz, 0 ≤ p.1)
    (a : α) (ha0 : 0 ≤ a) (ha : a ≤ Nonneg.stepComponent amax z dz) :
    ∀ p ∈ z.zip dz, 0 ≤ p.1 + a * p.2 :=
  Nonneg.stepComponent_safe amax z dz hz a ha0 ha

/-- [F] NN tightness: a step shorter than `αmax` puts some coordinate exactly on the
boundary. -/
theorem nn_step_tight (amax : α) (z dz : List α) (h : Nonneg.stepComponent amax z dz < amax) :
    ∃ p ∈ z.zip dz, p.2 < 0 ∧ p.1 + Nonneg.stepComponent amax z dz * p.2 = 0 :=
  Nonneg.stepComponent_tight amax z dz h

/-- non-vacuity: `z = (1,2)`, `dz = (−2,1)`, `αmax = 1` gives the step `1/2 < αmax`. -/
example : Nonneg.stepComponent (1 : ℝ) [1, 2] [-2, 1] = 1 / 2 := by
  simp [Nonneg.stepComponent, Nonneg.ratio_eq]
  norm_num

end NN

/-! ## Second-order cone -/
section SOC
open Soc

/-- [R] The branch logic of `_step_length_soc_component` (with the repaired `a = 0` branch)
on the residual polynomial `r(α) = c + bα + aα²` of an interior point (`c > 0`): the
returned step `t` satisfies `0 ≤ t ≤ αmax`, `r ≥ 0` on `[0,t]` (safety) and
`t < αmax ⇒ r(t) = 0` (tightness).  `QuadSpec` is exactly this conjunction. -/
theorem soc_step_quad_safe_tight (a b c amax : ℝ) (hc : 0 < c) (ham : 0 ≤ amax) :
    ∃ t, stepLengthQuad a b c amax = .ok t ∧
      0 ≤ t ∧ t ≤ amax ∧ (∀ α, 0 ≤ α → α ≤ t → 0 ≤ c + b * α + a * α ^ 2) ∧
      (t < amax → c + b * t + a * t ^ 2 = 0) :=
  stepLengthQuad_spec a b c amax hc ham

/-- [R] SOC step length, arbitrary dimension: for `x ∈ int K`, every direction `y` and
`αmax ≥ 0`, `_step_length_soc_component` returns `t` with `0 ≤ t ≤ αmax`, `x + αy ∈ K` for all
`α ∈ [0,t]`, and `t < αmax ⇒ x + ty ∈ ∂K` (the residual `(x₀+ty₀)² − ‖x₁+ty₁‖²` vanishes). -/
theorem soc_step_safe_tight (x0 : ℝ) (x1 : List ℝ) (y0 : ℝ) (y1 : List ℝ) (amax : ℝ)
    (hx : Interior x0 x1) (hlen : x1.length = y1.length) (ham : 0 ≤ amax) :
    ∃ t, stepLengthComponentCore x0 x1 y0 y1 amax = .ok t ∧ 0 ≤ t ∧ t ≤ amax ∧
      (∀ α, 0 ≤ α → α ≤ t → InCone (x0 + α * y0) (axpyL x1 α y1)) ∧
      (t < amax → rayResidual x0 x1 y0 y1 t = 0) :=
  stepLengthComponentCore_spec x0 x1 y0 y1 amax hx hlen ham

/-- [R] the repaired defect (known finding C15): direction on the boundary of `−K`.
`x = (1,0)`, `y = (−1,1)`, `αmax = 1` has `a = 0`, `b = −2`, `c = 1` and the step is `1/2`. -/
theorem soc_step_a_zero_repaired : stepLengthQuad (0 : ℝ) (-2) 1 1 = .ok (1 / 2) := by
  simp [stepLengthQuad, isZero]
  norm_num
  rfl

/-- [R] …whereas the value returned before the repair (`αmax = 1`) violates safety:
`r(1) = 1 − 2 = −1 < 0`. -/
theorem soc_step_a_zero_old_unsafe : ¬ QuadSpec (0 : ℝ) (-2) 1 1 1 := by
  intro ⟨_, _, h, _⟩
  have := h 1 (by norm_num) (le_refl _)
  norm_num at this

/-- [R] The hypothesis `c > 0` (interior starting point) of `soc_step_quad_safe_tight`
cannot be dropped: for a starting point *on* the boundary (`c = 0`) and a direction in
`−int K` (`a > 0`, `b < 0`) the branch `c == 0` returns `αmax` although `r < 0` on `(0, −b/a)`.
`x = (1,1)`, `y = (−1,0)`, `αmax = 1`: `a = 1`, `b = −2`, `c = 0`, returned step `1`,
`r(1) = −1`.  (Outside the property's quantifier — interior points — hence recorded, not a
violation; reproduced on the implementation.) -/
theorem soc_step_boundary_start_not_safe :
    stepLengthQuad (1 : ℝ) (-2) 0 1 = .ok 1 ∧ (0 : ℝ) + (-2) * 1 + 1 * 1 ^ 2 < 0 := by
  constructor
  · simp [stepLengthQuad, isZero]
    norm_num
    rfl
  · norm_num

/-- non-vacuity of `soc_step_safe_tight`: `x = (2,(1,0))` is interior. -/
example : Interior 2 [1, 0] ∧ ([1, 0] : List ℝ).length = ([3, 4] : List ℝ).length := by
  refine ⟨⟨by norm_num, ?_⟩, rfl⟩
  simp

end SOC

/-! ## `backtrack_search` -/
section Backtrack
open Backtrack
variable {β : Type} [Add β] [Mul β] [OfNat β 0] [OfNat β 1] [LT β] [DecidableLT β]

/-- [S] (holds for every scalar type, `Float` included) A finished `backtrack_search`
made `n` back-tracking steps; every earlier candidate `α_init·stepʲ` (`j < n`) was rejected
and the next one was still `≥ α_min`; the result is either the accepted candidate
`α_init·stepⁿ`, or `0` with the last candidate rejected and the next one below `α_min`. -/
theorem backtrack_result (dq q : Array β) (ainit amin step : β) (P : Nat → Array β → Bool)
    (wl fuel : Nat) (r : β × Nat) (h : backtrackSearch dq q ainit amin step P wl fuel = .ok r) :
    ∃ n, r.2 = n ∧
      (∀ j, j < n → P j (candidate q dq (iter step ainit j)) = false ∧
          ¬ (iter step ainit (j + 1) < amin)) ∧
      ((r.1 = iter step ainit n ∧ P n (candidate q dq (iter step ainit n)) = true) ∨
       (r.1 = 0 ∧ P n (candidate q dq (iter step ainit n)) = false ∧
          iter step ainit (n + 1) < amin)) := by
  unfold backtrackSearch at h
  split at h
  · cases h
  · obtain ⟨n, hn, h1, h2⟩ := loop_spec q dq amin step P fuel 0 ainit r h
    refine ⟨n, by omega, ?_, ?_⟩
    · intro j hj; simpa using h1 j hj
    · simpa using h2

/-- [S] fuel bound: if the `(N+1)`-th candidate is below `α_min`, `N+1` units of fuel
suffice (the model never reports fuel exhaustion). -/
theorem backtrack_fuel (dq q : Array β) (ainit amin step : β) (P : Nat → Array β → Bool)
    (N fuel : Nat) (hN : iter step ainit (N + 1) < amin) (hf : N + 1 ≤ fuel)
    (hq : q.size = dq.size) :
    ∃ r, backtrackSearch dq q ainit amin step P q.size fuel = .ok r := by
  unfold backtrackSearch
  rw [if_neg (by simp [hq])]
  exact loop_terminates q dq amin step P N fuel 0 ainit hN hf

/-- [R] termination: for `0 < step < 1` and `α_min > 0` some candidate `α_init·stepᴺ⁺¹` is
below `α_min`, so the search terminates.  (With `step ≥ 1` the Rust loop does not terminate
on an infeasible direction: the settings are not validated — recorded precondition.) -/
theorem backtrack_terminates (dq q : Array ℝ) (ainit amin step : ℝ) (P : Nat → Array ℝ → Bool)
    (h0 : 0 < step) (h1 : step < 1) (hmin : 0 < amin) (hq : q.size = dq.size) :
    ∃ N r, backtrackSearch dq q ainit amin step P q.size (N + 1) = .ok r := by
  have : ∃ N : Nat, ainit * step ^ (N + 1) < amin := by
    by_cases ha : ainit ≤ 0
    · exact ⟨0, lt_of_le_of_lt (mul_nonpos_of_nonpos_of_nonneg ha (by positivity)) hmin⟩
    · rw [not_le] at ha
      obtain ⟨n, hn⟩ := exists_pow_lt_of_lt_one (div_pos hmin ha) h1
      refine ⟨n, ?_⟩
      have : step ^ (n + 1) < amin / ainit := by
        calc step ^ (n + 1) = step ^ n * step := pow_succ _ _
          _ ≤ step ^ n * 1 := by apply mul_le_mul_of_nonneg_left h1.le; positivity
          _ = step ^ n := mul_one _
          _ < amin / ainit := hn
      rw [lt_div_iff₀ ha] at this
      linarith
  obtain ⟨N, hN⟩ := this
  obtain ⟨r, hr⟩ := backtrack_fuel dq q ainit amin step P N (N + 1)
    (by rw [iter_eq_pow]; exact hN) (le_refl _) hq
  exact ⟨N, r, hr⟩

end Backtrack

/-! ## Composite cone -/
section Comp
open Composite
variable {α : Type} [Field α] [LinearOrder α] [IsStrictOrderedRing α] [FloatLike α]
  [LawfulFloatLike α]

/-- [F] Composite `step_length` is a minimum.  If every constituent cone's step length is a
cap `αin ↦ (min αin cz, min αin cs)` (true of the zero, NN and SOC cones), the composite
returns `(m, m)` with `m` the closed-form min-fold (nonsymmetric cones first — the closure
skips cones with `is_symmetric() == symcond` and is called with `true` first — then the
`max_step_fraction` cap when not all cones are symmetric, then the symmetric cones); hence
`m ≤ αmax`, `m ≤ max_step_fraction` when a nonsymmetric cone is present, and `m` is below
every cone's own caps. -/
theorem composite_step_is_min (caps : ConeFn α → α × α) (cones : List (ConeFn α)) (msf amax : α)
    (h : ∀ c ∈ cones, ∀ a, c.stepLength a = .ok (min a (caps c).1, min a (caps c).2)) :
    ∃ m, stepLength cones msf amax = .ok (m, m) ∧
      m = innerMin caps cones false
            (if !cones.all (·.symmetric) then min msf (innerMin caps cones true amax)
             else innerMin caps cones true amax) ∧
      m ≤ amax ∧ (cones.all (·.symmetric) = false → m ≤ msf) ∧
      ∀ c ∈ cones, m ≤ (caps c).1 ∧ m ≤ (caps c).2 := by
  refine ⟨_, ?_, rfl, ?_, ?_, ?_⟩
  · simp only [stepLength, inner_eq caps cones true h, inner_eq caps cones false h, bind,
      Except.bind, pure, Except.pure, LawfulFloatLike.fmin_eq]
  · refine le_trans (innerMin_le _ _ _ _) ?_
    split
    · exact le_trans (min_le_right _ _) (innerMin_le _ _ _ _)
    · exact innerMin_le _ _ _ _
  · intro hall
    refine le_trans (innerMin_le _ _ _ _) ?_
    simp [hall]
  · intro c hc
    by_cases hs : c.symmetric = true
    · -- symmetric cones are visited by the second pass
      exact innerMin_le_cap caps cones false _ c hc (by simp [hs])
    · -- nonsymmetric cones by the first pass; later passes only decrease the value
      have hs' : c.symmetric = false := by simpa using hs
      have h1 := innerMin_le_cap caps cones true amax c hc (by simp [hs'])
      have hle : innerMin caps cones false
            (if !cones.all (·.symmetric) then min msf (innerMin caps cones true amax)
             else innerMin caps cones true amax) ≤ innerMin caps cones true amax := by
        refine le_trans (innerMin_le _ _ _ _) ?_
        split
        · exact min_le_right _ _
        · exact le_refl _
      exact ⟨le_trans hle h1.1, le_trans hle h1.2⟩

end Comp

/-! ## Margins and shifts -/
section Margins

/-- [R] SOC: `margins` returns `α = z₀ − ‖z₁‖` — `z − αe` lies on the boundary — and after
shifting by `−α` and then by a target `t > 0` (the two-stage `_shift_to_cone_interior`)
the margin is exactly `t > 0`. -/
theorem soc_shift_margin (z0 : ℝ) (z1 : List ℝ) (t : ℝ) (_ht : 0 < t) :
    ∃ a b, Soc.margins (Soc.join z0 z1) = .ok (a, b) ∧ a = z0 - Soc.normL z1 ∧ b = max 0 a ∧
      ∃ z' z'', Soc.scaledUnitShift (Soc.join z0 z1) (-a) = .ok z' ∧
        Soc.scaledUnitShift z' t = .ok z'' ∧ Soc.margins z'' = .ok (t, max 0 t) := by
  refine ⟨z0 - Soc.normL z1, max 0 (z0 - Soc.normL z1), rfl, rfl, rfl, _, _, rfl, rfl, ?_⟩
  simp only [Soc.margins, Soc.split, Soc.join, bind, Except.bind, pure, Except.pure]
  have : z0 + -(z0 - Soc.normL z1) + t - Soc.normL z1 = t := by ring
  rw [this]
  rfl

/-- [F] NN: after `scaled_unit_shift` by `−m` with `m` a lower bound of the entries, and
then by a target `t > 0`, every entry is `≥ t > 0`. -/
theorem nn_shift_margin {α : Type} [Field α] [LinearOrder α] [IsStrictOrderedRing α]
    (z : Array α) (m t : α) (hm : ∀ i (h : i < z.size), m ≤ z[i]) (ht : 0 < t) :
    ∀ i (h : i < (Nonneg.scaledUnitShift (Nonneg.scaledUnitShift z (-m)) t).size),
      t ≤ (Nonneg.scaledUnitShift (Nonneg.scaledUnitShift z (-m)) t)[i] ∧
      0 < (Nonneg.scaledUnitShift (Nonneg.scaledUnitShift z (-m)) t)[i] := by
  intro i h
  simp only [Nonneg.scaledUnitShift, Vec.translate, Array.getElem_map]
  have hi : i < z.size := by simpa [Nonneg.scaledUnitShift, Vec.translate] using h
  have := hm i hi
  constructor <;> linarith

/-- [R] `_shift_to_cone_interior` on a composite of arbitrarily many zero / nonnegative /
second-order cones (`SymSpec`: SOC dimension ≥ 1), for **any** vector `z` long enough: the
call succeeds and in the result every cone block has margin `≥ 1 > 0`
(`BlocksGe specs z' 1`: the result cuts into the cones' ranges and each block's bounded
margin — `min zᵢ` for NN, `z₀ − ‖z₁‖` for SOC — is at least 1).  Covers all three branches
(two-stage shift, small positive margin, good margin) and the re-slicing between the stages. -/
theorem shift_to_cone_interior_margin (specs : List Composite.Spec) (z : Array ℝ) (primal : Bool)
    (hs : ∀ sp ∈ specs, Composite.SymSpec sp) (hlen : Composite.totalNumel specs ≤ z.size) :
    ∃ z', Composite.shiftToConeInterior specs z primal = .ok z' ∧ Composite.BlocksGe specs z' 1 :=
  Composite.shiftToConeInterior_spec specs z primal hs hlen

/-- non-vacuity: a zero, an NN and an SOC cone, 6 entries. -/
example : (∀ sp ∈ [Composite.Spec.zero 1, .nonneg 2, .soc 3], Composite.SymSpec sp) ∧
    Composite.totalNumel [.zero 1, .nonneg 2, .soc 3] ≤ (#[0, -1, 2, 0, 3, 4] : Array ℝ).size := by
  refine ⟨?_, by simp [Composite.totalNumel, Composite.Spec.numel]⟩
  intro sp hsp
  simp only [List.mem_cons, List.not_mem_nil, or_false] at hsp
  rcases hsp with rfl | rfl | rfl <;> simp [Composite.SymSpec]

/-- [S] zero cone: the primal is forced to `0`, the dual is untouched. -/
theorem zero_shift {α : Type} [OfNat α 0] (z : Array α) (a : α) :
    (∀ i (h : i < (Zero.scaledUnitShift z a true).size), (Zero.scaledUnitShift z a true)[i] = 0) ∧
    Zero.scaledUnitShift z a false = z := by
  constructor
  · intro i h; simp [Zero.scaledUnitShift]
  · rfl

end Margins

/-! ## Round 3: nonsymmetric cones (exp / pow / genpow) -/
section NonsymStep
open Backtrack Nonsym

/-- [S] (every scalar type, `Float` included) `ExponentialCone::step_length`, i.e. two runs of
`backtrack_search` from `αmax` — `αz` on the dual predicate at `z + α·dz`, `αs` on the primal
predicate at `s + α·ds`.  Each returned `α` is a `StepOutcome`: `n` candidates `αmax·stepʲ`
(`j < n`) were rejected while the next one was still `≥ αmin`, then either candidate `n` was
accepted by the predicate and is returned, or it was rejected, the next is `< αmin`, and
`0` is returned. -/
theorem exp_step_outcome {β : Type} [Add β] [Sub β] [Mul β] [Div β] [Neg β] [LT β] [LE β]
    [DecidableLT β] [DecidableLE β] [OfNat β 0] [OfNat β 1] [FloatLike β]
    (dz ds z s : V3 β) (step amin amax : β) (fuel : Nat) (az as : β)
    (h : Exp.stepLength dz ds z s step amin amax fuel = .ok (az, as)) :
    StepOutcome (v3toArray z) (v3toArray dz) amax amin step Exp.inDual az ∧
    StepOutcome (v3toArray s) (v3toArray ds) amax amin step Exp.inPrimal as :=
  Exp.stepLength_outcome dz ds z s step amin amax fuel az as h

/-- [S] the same for `PowerCone::step_length` (exponent `a`). -/
theorem pow_step_outcome {β : Type} [Add β] [Sub β] [Mul β] [Div β] [Neg β] [LT β] [LE β]
    [DecidableLT β] [DecidableLE β] [OfNat β 0] [OfNat β 1] [OfNat β 2] [FloatLike β]
    (a : β) (dz ds z s : V3 β) (step amin amax : β) (fuel : Nat) (az as : β)
    (h : Pow.stepLength a dz ds z s step amin amax fuel = .ok (az, as)) :
    StepOutcome (v3toArray z) (v3toArray dz) amax amin step (Pow.inDual a) az ∧
    StepOutcome (v3toArray s) (v3toArray ds) amax amin step (Pow.inPrimal a) as :=
  Pow.stepLength_outcome a dz ds z s step amin amax fuel az as h

/-- [S] the same for `GenPowerCone::step_length` (exponents `al`, any dimension). -/
theorem genpow_step_outcome {β : Type} [Add β] [Sub β] [Mul β] [Div β] [Neg β] [LT β] [LE β]
    [DecidableLT β] [DecidableLE β] [OfNat β 0] [OfNat β 1] [OfNat β 2] [FloatLike β]
    (al dz ds z s : Array β) (step amin amax : β) (fuel : Nat) (az as : β)
    (h : GenPow.stepLength al dz ds z s step amin amax fuel = .ok (az, as)) :
    StepOutcome z dz amax amin step (GenPow.inDual al) az ∧
    StepOutcome s ds amax amin step (GenPow.inPrimal al) as :=
  GenPow.stepLength_outcome al dz ds z s step amin amax fuel az as h

/-- [S] safety of a back-tracking outcome: the returned `α` is the failure value `0` or the
cone's feasibility predicate holds at `q + α·dq` (the work vector `waxpby(1, q, α, dq)`). -/
theorem nonsym_step_accepted_or_zero {β : Type} [Add β] [Mul β] [OfNat β 0] [OfNat β 1] [LT β]
    [DecidableLT β] {q dq : Array β} {amax amin step : β} {P : Array β → Bool} {r : β}
    (h : StepOutcome q dq amax amin step P r) : P (candidate q dq r) = true ∨ r = 0 :=
  h.accepted

/-- [S] tightness of a back-tracking outcome: either the initial candidate `αmax` itself was
accepted, or there is a *rejected* candidate `c` with `r = c·step` accepted (so `r` is within
one back-tracking factor of an infeasible step), or `r = 0` and `c·step < αmin`. -/
theorem nonsym_step_tight {β : Type} [Add β] [Mul β] [OfNat β 0] [OfNat β 1] [LT β]
    [DecidableLT β] {q dq : Array β} {amax amin step : β} {P : Array β → Bool} {r : β}
    (h : StepOutcome q dq amax amin step P r) :
    (r = amax ∧ P (candidate q dq amax) = true) ∨
    (∃ c, P (candidate q dq c) = false ∧
      ((r = c * step ∧ ¬ (c * step < amin) ∧ P (candidate q dq r) = true) ∨
       (r = 0 ∧ c * step < amin))) :=
  h.tight

/-- [F] a back-tracking outcome never exceeds `αmax` (and is `≥ 0`) when `0 ≤ step ≤ 1`,
`αmax ≥ 0`. -/
theorem nonsym_step_bounds {β : Type} [Field β] [LinearOrder β] [IsStrictOrderedRing β]
    {q dq : Array β} {amax amin step : β} {P : Array β → Bool} {r : β}
    (h : StepOutcome q dq amax amin step P r) (ha : 0 ≤ amax) (hs0 : 0 ≤ step) (hs1 : step ≤ 1) :
    0 ≤ r ∧ r ≤ amax :=
  h.bounds ha hs0 hs1

/-- non-vacuity of the three theorems above: an accepted first candidate. -/
example : StepOutcome (#[1] : Array ℝ) #[0] 1 (1 / 10000) (4 / 5) (fun w => decide (0 < w.getD 0 0)) 1 :=
  ⟨0, fun j hj => absurd hj (Nat.not_lt_zero _), Or.inl ⟨rfl, by simp [candidate, Vec.waxpby]⟩⟩

/-- [R] exponential cone: with C14's membership theorems, after `step_length` the dual point
`z + αz·dz` lies in the open dual cone `int K*` and the primal point `s + αs·ds` in `int K`
themselves (not only in the model predicate), unless the failure value `0` was returned; and
`0 ≤ αz, αs ≤ αmax`. -/
theorem exp_step_in_cone (dz ds z s : V3 ℝ) (step amin amax : ℝ) (fuel : Nat) (az as : ℝ)
    (h : Exp.stepLength dz ds z s step amin amax fuel = .ok (az, as))
    (ha : 0 ≤ amax) (hs0 : 0 ≤ step) (hs1 : step ≤ 1) :
    (az = 0 ∨ C14.ExpDualInterior (z.1 + az * dz.1) (z.2.1 + az * dz.2.1) (z.2.2 + az * dz.2.2)) ∧
    (as = 0 ∨ C14.ExpPrimalInterior (s.1 + as * ds.1) (s.2.1 + as * ds.2.1) (s.2.2 + as * ds.2.2)) ∧
    0 ≤ az ∧ az ≤ amax ∧ 0 ≤ as ∧ as ≤ amax := by
  obtain ⟨h1, h2⟩ := Exp.stepLength_outcome dz ds z s step amin amax fuel az as h
  obtain ⟨b1, b2⟩ := h1.bounds ha hs0 hs1
  obtain ⟨b3, b4⟩ := h2.bounds ha hs0 hs1
  refine ⟨?_, ?_, b1, b2, b3, b4⟩
  · rcases h1.accepted with hp | h0
    · exact Or.inr (Exp.inDual_candidate z dz az hp)
    · exact Or.inl h0
  · rcases h2.accepted with hp | h0
    · exact Or.inr (Exp.inPrimal_candidate s ds as hp)
    · exact Or.inl h0

/-- [R] power cone (`0 < a < 1`): the same statement. -/
theorem pow_step_in_cone {a : ℝ} (ha0 : 0 < a) (ha1 : a < 1) (dz ds z s : V3 ℝ)
    (step amin amax : ℝ) (fuel : Nat) (az as : ℝ)
    (h : Pow.stepLength a dz ds z s step amin amax fuel = .ok (az, as))
    (ha : 0 ≤ amax) (hs0 : 0 ≤ step) (hs1 : step ≤ 1) :
    (az = 0 ∨ C14.PowDualInterior a (z.1 + az * dz.1) (z.2.1 + az * dz.2.1) (z.2.2 + az * dz.2.2)) ∧
    (as = 0 ∨ C14.PowPrimalInterior a (s.1 + as * ds.1) (s.2.1 + as * ds.2.1) (s.2.2 + as * ds.2.2)) ∧
    0 ≤ az ∧ az ≤ amax ∧ 0 ≤ as ∧ as ≤ amax := by
  obtain ⟨h1, h2⟩ := Pow.stepLength_outcome a dz ds z s step amin amax fuel az as h
  obtain ⟨b1, b2⟩ := h1.bounds ha hs0 hs1
  obtain ⟨b3, b4⟩ := h2.bounds ha hs0 hs1
  refine ⟨?_, ?_, b1, b2, b3, b4⟩
  · rcases h1.accepted with hp | h0
    · exact Or.inr (Pow.inDual_candidate ha0 ha1 z dz az hp)
    · exact Or.inl h0
  · rcases h2.accepted with hp | h0
    · exact Or.inr (Pow.inPrimal_candidate a s ds as hp)
    · exact Or.inl h0

/-- [R] generalised power cone (positive exponents `al`, any dimensions): after `step_length`
the point `z + αz·dz`, cut as `u ++ w` with `|u| = |al|`, lies in the open dual cone, and
`s + αs·ds` in the open primal cone (squared form of C14), unless `0` was returned; and
`0 ≤ αz, αs ≤ αmax`. -/
theorem genpow_step_in_cone (al : List ℝ) (hal : ∀ a ∈ al, 0 < a) (dz ds z s : Array ℝ)
    (step amin amax : ℝ) (fuel : Nat) (az as : ℝ)
    (h : GenPow.stepLength al.toArray dz ds z s step amin amax fuel = .ok (az, as))
    (ha : 0 ≤ amax) (hs0 : 0 ≤ step) (hs1 : step ≤ 1) :
    (az = 0 ∨ ∀ u w, (candidate z dz az).toList = u ++ w → al.length = u.length →
        C14.GenPowDualInterior al u w) ∧
    (as = 0 ∨ ∀ u w, (candidate s ds as).toList = u ++ w → al.length = u.length →
        C14.GenPowPrimalInterior al u w) ∧
    0 ≤ az ∧ az ≤ amax ∧ 0 ≤ as ∧ as ≤ amax := by
  obtain ⟨h1, h2⟩ := GenPow.stepLength_outcome al.toArray dz ds z s step amin amax fuel az as h
  obtain ⟨b1, b2⟩ := h1.bounds ha hs0 hs1
  obtain ⟨b3, b4⟩ := h2.bounds ha hs0 hs1
  refine ⟨?_, ?_, b1, b2, b3, b4⟩
  · rcases h1.accepted with hp | h0
    · exact Or.inr (fun u w hx hl => GenPow.inDual_mem al _ hal hp u w hx hl)
    · exact Or.inl h0
  · rcases h2.accepted with hp | h0
    · exact Or.inr (fun u w hx hl => GenPow.inPrimal_mem al _ hal hp u w hx hl)
    · exact Or.inl h0

/-- non-vacuity (exp): from `z = s = (−1, 1, 1)` (interior of both cones) with a zero
direction the full step `αmax = 1` is accepted on both sides. -/
example : Exp.stepLength (0, 0, 0) (0, 0, 0) (-1, 1, 1) (-1, 1, 1) (4 / 5 : ℝ) (1 / 10000) 1 1
    = .ok (1, 1) := by
  simp [Exp.stepLength, Nonsym.backtrackSearch, Exp.inDual, Exp.inPrimal, Vec.waxpby, v3toArray,
    v3ofArray?, Exp.isDualFeasible, Exp.isPrimalFeasible, logsafe, bind, Except.bind, pure,
    Except.pure]
  norm_num

/-- non-vacuity (pow, `a = 1/2`): `z = (1/2, 1/2, 0)`, `s = (1, 1, 0)`, zero direction. -/
example : Pow.stepLength (1 / 2 : ℝ) (0, 0, 0) (0, 0, 0) (1 / 2, 1 / 2, 0) (1, 1, 0) (4 / 5)
    (1 / 10000) 1 1 = .ok (1, 1) := by
  simp [Pow.stepLength, Nonsym.backtrackSearch, Pow.inDual, Pow.inPrimal, Vec.waxpby, v3toArray,
    v3ofArray?, Pow.isDualFeasible, Pow.isPrimalFeasible, logsafe, bind, Except.bind, pure,
    Except.pure]
  norm_num

/-- non-vacuity (genpow, `al = (1/2, 1/2)`, `dim2 = 1`): all candidates are rejected
(`u = 0` is not positive) and the failure value is returned. -/
example : GenPow.stepLength (#[1 / 2, 1 / 2] : Array ℝ) #[0, 0, 0] #[0, 0, 0] #[0, 0, 0] #[0, 0, 0]
    (1 / 2) 1 1 1 = .ok (0, 0) := by
  simp [GenPow.stepLength, Nonsym.backtrackSearch, GenPow.inDual, GenPow.inPrimal, Vec.waxpby,
    GenPow.isDualFeasible, GenPow.isPrimalFeasible, GenPow.split, bind, Except.bind, pure,
    Except.pure]
  norm_num

/-- [R] explicit iteration bound for `backtrack_search`: for `0 < step < 1`, `αmin > 0`,
`αinit > 0`, with `N = ⌈log(αmin/αinit)/log(step)⌉`, the search terminates within `N + 1`
evaluations of the membership test: `N + 1` units of fuel suffice and the reported number of
back-tracking steps is at most `N`. -/
theorem backtrack_iteration_bound (dq q : Array ℝ) (ainit amin step : ℝ) (P : Nat → Array ℝ → Bool)
    (h0 : 0 < step) (h1 : step < 1) (hmin : 0 < amin) (hinit : 0 < ainit) (hq : q.size = dq.size) :
    ∃ r, backtrackSearch dq q ainit amin step P q.size
        (⌈Real.log (amin / ainit) / Real.log step⌉₊ + 1) = .ok r ∧
      r.2 ≤ ⌈Real.log (amin / ainit) / Real.log step⌉₊ := by
  have hN := iter_below_amin ainit amin step h0 h1 hmin hinit
  obtain ⟨r, hr⟩ := backtrack_fuel dq q ainit amin step P _ _ hN (le_refl _) hq
  refine ⟨r, hr, ?_⟩
  obtain ⟨n, hn, hrej, _⟩ := backtrack_result dq q ainit amin step P q.size _ r hr
  rw [hn]
  by_contra hgt
  have := (hrej _ (not_le.mp hgt)).2
  exact this hN

/-- non-vacuity: `step = 0.8`, `αmin = 10⁻⁴`, `αinit = 1`. -/
example : (0 : ℝ) < 4 / 5 ∧ (4 / 5 : ℝ) < 1 ∧ (0 : ℝ) < 1 / 10000 ∧ (0 : ℝ) < 1 ∧
    (#[1, 2, 3] : Array ℝ).size = (#[0, 0, 1] : Array ℝ).size := by
  refine ⟨by norm_num, by norm_num, by norm_num, by norm_num, rfl⟩

end NonsymStep

/-! ## Round 3: PSD cone (LAPACK eigenvalues as explicit inputs) -/
section PsdStepSec
open PsdStep PsdTri

/-- [R] `step_length_psd_component` under the spectral contract (`γ` is the least eigenvalue,
in Rayleigh form, of the matrix handed to LAPACK: `Λ^{-1/2}·mat(d)·Λ^{-1/2}` = `scaledDir`):
the formula `α = min(αmax, −1/γ)` (`αmax` when `γ ≥ 0`) is **safe** — `0 ≤ α ≤ αmax`, the
scaled iterate `Λ + t·mat(d)` is positive definite for every `t ∈ [0, α)` and positive
semidefinite at `t = α` — and **tight** — `α < αmax` implies `Λ + α·mat(d)` is singular
(`vᵀ(Λ+αD)v = 0` for some `v ≠ 0`: the step ends on the boundary of the cone). -/
theorem psd_step_component_safe_tight (n : Nat) (lam lisqrt d : Array ℝ) (γ amax : ℝ)
    (hd : d.size ≠ 0) (hs : ScalingOk n lam lisqrt) (hγ : IsMinEig n (scaledDir d lisqrt) γ)
    (ham : 0 ≤ amax) :
    ∃ a, stepLengthPsdComponent d (some γ) amax = a ∧ 0 ≤ a ∧ a ≤ amax ∧
      (∀ t, 0 ≤ t → t < a → PosDef n (shifted lam d t)) ∧
      PosSemidef n (shifted lam d a) ∧
      (a < amax → ∃ v, 0 < nrm2 n v ∧ qform n (shifted lam d a) v = 0) :=
  stepLengthPsdComponent_spec n lam lisqrt d γ amax hd hs hγ ham

/-- non-vacuity: `n = 1`, `λ = 1`, `d = (−2)`: `γ = −2`, the step is `1/2 < αmax = 1`. -/
example : (#[-2] : Array ℝ).size ≠ 0 ∧ ScalingOk 1 #[1] #[1] ∧
    IsMinEig 1 (scaledDir #[-2] #[1]) (-2) := by
  refine ⟨by simp, ?_, ?_, ?_⟩
  · intro i hi
    have : i = 0 := by omega
    subst this
    simp
  · intro v
    simp [nrm2, qform, scaledDir, svecToMat, PsdIndex.triangularNumber]
    linarith
  · refine ⟨fun _ => 1, ?_, ?_⟩
    · simp [nrm2]
    · simp [nrm2, qform, scaledDir, svecToMat, PsdIndex.triangularNumber]

/-- [S] the two non-spectral outcomes of `step_length_psd_component`: an empty direction
returns `αmax`; a LAPACK failure (repaired code) returns the zero step. -/
theorem psd_step_component_edge {β : Type} [Mul β] [Div β] [Neg β] [OfNat β 0] [OfNat β 1]
    [LT β] [DecidableLT β] [FloatLike β] (d : Array β) (γ : Option β) (amax : β) :
    (d.size = 0 → stepLengthPsdComponent d γ amax = amax) ∧
    (d.size ≠ 0 → γ = none → stepLengthPsdComponent d γ amax = 0) :=
  stepLengthPsdComponent_edge d γ amax

/-- [S] `PSDTriangleCone::step_length` is the component formula applied to `W·Δz`
(`mul_W(N, ·)`) and to `W⁻ᵀ·Δs` (`mul_Winv(T, ·)`), with the two LAPACK answers. -/
theorem psd_step_length_components {β : Type} [Add β] [Mul β] [Sub β] [Div β] [Neg β] [OfNat β 0]
    [OfNat β 1] [LT β] [DecidableLT β] [FloatLike β] (K : PsdTri.Cone β) (dz ds : Array β)
    (γz γs : Option β) (amax : β) (r : β × β)
    (h : PsdStep.stepLength K dz ds γz γs amax = .ok r) :
    ∃ dzW dsW, mulW K false dz dz 1 0 = .ok dzW ∧ mulWinv K true ds ds 1 0 = .ok dsW ∧
      r = (stepLengthPsdComponent dzW γz amax, stepLengthPsdComponent dsW γs amax) := by
  unfold PsdStep.stepLength at h
  unfold mulW mulWinv
  cases h1 : mulWx false K.n K.R dz dz 1 0 with
  | error e => rw [h1] at h; cases h
  | ok dzW =>
    cases h2 : mulWx true K.n K.Rinv ds ds 1 0 with
    | error e => rw [h1, h2] at h; cases h
    | ok dsW =>
      rw [h1, h2] at h
      simp only [bind, Except.bind, pure, Except.pure, Except.ok.injEq] at h
      exact ⟨dzW, dsW, rfl, rfl, h.symm⟩

/-- [R] the whole `PSDTriangleCone::step_length` under the spectral contract for both LAPACK
answers (`γz` for `Λ^{-1/2}·mat(W·Δz)·Λ^{-1/2}`, `γs` for `Λ^{-1/2}·mat(W⁻ᵀ·Δs)·Λ^{-1/2}`): both
returned steps satisfy `StepSpec` — in `[0, αmax]`, the scaled iterate `Λ + t·D̃` positive
definite on `[0, α)`, positive semidefinite at `α`, and singular at `α` when `α < αmax`. -/
theorem psd_step_length_safe_tight (K : PsdTri.Cone ℝ) (dz ds : Array ℝ) (γz γs amax : ℝ)
    (r : ℝ × ℝ) (h : PsdStep.stepLength K dz ds (some γz) (some γs) amax = .ok r) (hn : 0 < K.n)
    (hs : ScalingOk K.n K.lam K.lamIsqrt) (ham : 0 ≤ amax)
    (hγz : ∀ d, mulW K false dz dz 1 0 = .ok d → IsMinEig K.n (scaledDir d K.lamIsqrt) γz)
    (hγs : ∀ d, mulWinv K true ds ds 1 0 = .ok d → IsMinEig K.n (scaledDir d K.lamIsqrt) γs) :
    ∃ dzW dsW, mulW K false dz dz 1 0 = .ok dzW ∧ mulWinv K true ds ds 1 0 = .ok dsW ∧
      StepSpec K.n K.lam dzW amax r.1 ∧ StepSpec K.n K.lam dsW amax r.2 :=
  PsdStep.stepLength_spec K dz ds γz γs amax r h hn hs ham hγz hγs

/-- non-vacuity: the `1 × 1` cone with `λ = R = R⁻¹ = 1`, `Δz = (−2)`, `Δs = (−2)`: both scaled
directions are `(−2)` with least eigenvalue `−2`, and the steps are `(1/2, 1/2)`. -/
example : (∃ r, PsdStep.stepLength (⟨1, #[1], #[1], #[1], #[1], #[]⟩ : PsdTri.Cone ℝ) #[-2] #[-2]
      (some (-2)) (some (-2)) 1 = .ok r) ∧
    (∀ d, mulW (⟨1, #[1], #[1], #[1], #[1], #[]⟩ : PsdTri.Cone ℝ) false #[-2] #[-2] 1 0 = .ok d →
      d = #[-2]) ∧
    (∀ d, mulWinv (⟨1, #[1], #[1], #[1], #[1], #[]⟩ : PsdTri.Cone ℝ) true #[-2] #[-2] 1 0 = .ok d →
      d = #[-2]) := by
  refine ⟨?_, ?_, ?_⟩
  · simp [PsdStep.stepLength, mulWx, sizeGuard, PsdIndex.triangularNumber, bind, Except.bind, pure,
      Except.pure]
  · intro d h
    simp [mulW, mulWx, sizeGuard, PsdIndex.triangularNumber, mulWxInner, matToSvec, packed, gemm, mm,
      tr, matOf, svecToMat, sumN, isZero, bind, Except.bind, pure, Except.pure] at h
    exact h.symm
  · intro d h
    simp [mulWinv, mulWx, sizeGuard, PsdIndex.triangularNumber, mulWxInner, matToSvec, packed, gemm,
      mm, tr, matOf, svecToMat, sumN, isZero, bind, Except.bind, pure, Except.pure] at h
    exact h.symm

/-- [R] `margins` of a non-empty PSD block as the code computes them from the eigenvalues
`e` LAPACK returned: `α` is the least entry of `e` and `β = Σ max(eᵢ, 0)`. -/
theorem psd_margins_formula (z e : Array ℝ) (hz : z.size ≠ 0) (he : e.size ≠ 0) :
    ∃ m, PsdStep.margins z (some e) = .ok (some m, (e.toList.map (fun x => max x 0)).sum) ∧
      m ∈ e.toList ∧ ∀ x ∈ e.toList, m ≤ x :=
  PsdStep.margins_spec z e hz he

/-- [R] PSD `scaled_unit_shift`: under the spectral contract for `mat(z)` the shift by `a`
succeeds and increases the margin (least eigenvalue) by **exactly** `a`. -/
theorem psd_shift_margin_exact (n : Nat) (z : Array ℝ) (a γ : ℝ)
    (hz : z.size = PsdIndex.triangularNumber n) (hγ : IsMinEig n (svecToMat z) γ) :
    ∃ z', PsdIndex.scaledUnitShift n z a = .ok z' ∧ z'.size = PsdIndex.triangularNumber n ∧
      IsMinEig n (svecToMat z') (γ + a) :=
  PsdStep.shift_margin n z a γ hz hγ

/-- non-vacuity: `n = 1`, `z = (3)`: least eigenvalue `3`. -/
example : (#[3] : Array ℝ).size = PsdIndex.triangularNumber 1 ∧ IsMinEig 1 (svecToMat #[3]) 3 := by
  refine ⟨rfl, ?_, fun _ => 1, ?_, ?_⟩
  · intro v
    simp [nrm2, qform, svecToMat, PsdIndex.triangularNumber]
    linarith
  · simp [nrm2]
  · simp [nrm2, qform, svecToMat, PsdIndex.triangularNumber]

end PsdStepSec

/-! ## Round 3: composite cone with PSD blocks / nonsymmetric cones -/
section CompRound3
open Composite

/-- [R] `_shift_to_cone_interior` on a composite of arbitrarily many zero / nonnegative /
second-order / **PSD** cones, for any vector `z` long enough, the PSD margins being computed
from supplied eigenvalue lists under the spectral contract (`EigContracts`: one entry per
cone; for every non-empty PSD block the list is non-empty and its least entry is a lower
Rayleigh bound of `mat(z_block)`): the call succeeds and in the result every block has
margin `≥ 1 > 0` — for a PSD block `mat(z') − I ⪰ 0` (`BlkGeE`). -/
theorem shift_to_cone_interior_margin_psd (specs : List Composite.Spec) (z : Array ℝ)
    (primal : Bool) (eigs : List (Option (Array ℝ)))
    (hs : ∀ sp ∈ specs, Composite.SymSpecE sp) (hlen : Composite.totalNumel specs ≤ z.size)
    (hc : Composite.EigContracts specs z eigs) :
    ∃ z', Composite.shiftToConeInteriorE specs z primal eigs = .ok z' ∧
      Composite.BlocksGeE specs z' 1 :=
  Composite.shiftToConeInteriorE_spec specs z primal eigs hs hlen hc

/-- non-vacuity: an NN cone and a `1 × 1` PSD cone with `z = (−1, 2 | −3)`, eigenvalue list
`(−3)` for the PSD block. -/
example : (∀ sp ∈ [Composite.Spec.nonneg 2, .psd 1], Composite.SymSpecE sp) ∧
    Composite.totalNumel [.nonneg 2, .psd 1] ≤ (#[-1, 2, -3] : Array ℝ).size ∧
    Composite.EigContracts [.nonneg 2, .psd 1] (#[-1, 2, -3] : Array ℝ) [none, some #[-3]] := by
  refine ⟨?_, by simp [Composite.totalNumel, Composite.Spec.numel, PsdIndex.triangularNumber], rfl, ?_⟩
  · intro sp hsp
    simp only [List.mem_cons, List.not_mem_nil, or_false] at hsp
    rcases hsp with rfl | rfl <;> simp [Composite.SymSpecE]
  · intro parts hparts pe hpe
    simp [Composite.cut, Composite.cutL, Composite.Spec.numel, PsdIndex.triangularNumber, bind,
      Except.bind, pure, Except.pure] at hparts
    subst hparts
    simp only [List.zip_cons_cons, List.zip_nil_right, List.mem_cons, List.not_mem_nil,
      or_false] at hpe
    rcases hpe with rfl | rfl
    · trivial
    · intro _
      refine ⟨#[-3], rfl, by simp, -3, by simp, by simp, ?_⟩
      intro v
      simp [PsdStep.nrm2, PsdStep.qform, PsdTri.svecToMat, PsdIndex.triangularNumber]
      linarith

/-- [F] `CompositeCone::step_length` over **arbitrary** constituent cones (symmetric caps,
PSD, back-tracking nonsymmetric cones — no closed form assumed): both components are the
same `m`; `m ≤ αmax`; `m ≤ max_step_fraction` as soon as one cone is nonsymmetric; and every
cone was asked with some `a' ≤ αmax` and answered a pair `(αz, αs)` with `m ≤ αz`, `m ≤ αs`,
`m ≤ a'` — the composite step is a lower bound of every cone's own answer (minimum over the
cones). -/
theorem composite_step_general {α : Type} [Field α] [LinearOrder α] [IsStrictOrderedRing α]
    [FloatLike α] [LawfulFloatLike α] (cones : List (ConeFn α)) (msf amax : α) (r : α × α)
    (h : stepLength cones msf amax = .ok r) :
    r.1 = r.2 ∧ r.1 ≤ amax ∧ (cones.all (·.symmetric) = false → r.1 ≤ msf) ∧
      ∀ c ∈ cones, ∃ a' rc, a' ≤ amax ∧ c.stepLength a' = .ok rc ∧ r.1 ≤ rc.1 ∧ r.1 ≤ rc.2 ∧
        r.1 ≤ a' :=
  stepLength_general cones msf amax r h

/-- [F] order of processing, part 1: when every cone's step length is a cap
`αin ↦ (min αin cz, min αin cs)` (zero, NN, SOC, PSD), running the symmetric cones first (as
the source comments say) or the nonsymmetric ones first (as the code does) gives the same
step. -/
theorem composite_order_irrelevant_for_caps {α : Type} [Field α] [LinearOrder α]
    [IsStrictOrderedRing α] [FloatLike α] [LawfulFloatLike α]
    (caps : ConeFn α → α × α) (cones : List (ConeFn α)) (msf amax : α)
    (h : ∀ c ∈ cones, ∀ a, c.stepLength a = .ok (min a (caps c).1, min a (caps c).2)) :
    stepLengthSymFirst cones msf amax = stepLength cones msf amax :=
  order_irrelevant_caps caps cones msf amax h

/-- [R] order of processing, part 2 (counterexample): with a back-tracking cone the order
**does** change the result.  `exSym` is a symmetric cone with cap `1/2`; `exNonsym` a
nonsymmetric cone searched by the model's `backtrack_search` (`step = 4/5`), feasible iff
`α ≤ 9/20`.  The code (nonsymmetric first) returns `(4/5)⁴ = 256/625`, "symmetric first"
returns `(1/2)(4/5) = 2/5`; both are feasible for both cones, neither is the largest
feasible step `9/20`. -/
theorem composite_order_matters :
    stepLength [exSym, exNonsym] (99 / 100) 1 = .ok (256 / 625, 256 / 625) ∧
    stepLengthSymFirst [exSym, exNonsym] (99 / 100) 1 = .ok (2 / 5, 2 / 5) := by
  constructor
  · have e1 : inner [exSym, exNonsym] true 1 = .ok (256 / 625 : ℝ) := by
      simp only [inner, List.foldlM_cons, List.foldlM_nil, exSym, beq_self_eq_true, ↓reduceIte,
        pure, Except.pure, bind, Except.bind]
      rw [show exNonsym.symmetric = false from rfl, exNonsym_from_one]
      simp only [Bool.false_eq_true, beq_iff_eq, ↓reduceIte]
      show Except.ok (min (1 : ℝ) (min (256 / 625) (256 / 625))) = _
      norm_num
    have e2 : inner [exSym, exNonsym] false (min (99 / 100) (256 / 625) : ℝ) = .ok (256 / 625 : ℝ) := by
      simp only [inner, List.foldlM_cons, List.foldlM_nil, exSym, pure, Except.pure, bind,
        Except.bind]
      rw [show exNonsym.symmetric = false from rfl]
      simp only [Bool.true_eq_false, beq_iff_eq, ↓reduceIte, beq_self_eq_true]
      show Except.ok (min (min (99 / 100 : ℝ) (256 / 625))
        (min (min (min (99 / 100 : ℝ) (256 / 625)) (1 / 2)) (min (min (99 / 100 : ℝ) (256 / 625)) (1 / 2)))) = _
      norm_num
    simp only [stepLength, e1, bind, Except.bind, pure, Except.pure]
    have : ([exSym, exNonsym].all (·.symmetric)) = false := rfl
    rw [this]
    simp only [Bool.not_false, ↓reduceIte]
    have hf : (fmin (99 / 100) (256 / 625) : ℝ) = min (99 / 100) (256 / 625) := rfl
    rw [hf, e2]
  · have e1 : inner [exSym, exNonsym] false 1 = .ok (1 / 2 : ℝ) := by
      simp only [inner, List.foldlM_cons, List.foldlM_nil, exSym, pure, Except.pure, bind,
        Except.bind]
      rw [show exNonsym.symmetric = false from rfl]
      simp only [Bool.true_eq_false, beq_iff_eq, ↓reduceIte, beq_self_eq_true]
      show Except.ok (min (1 : ℝ) (min (min 1 (1 / 2)) (min 1 (1 / 2)))) = _
      norm_num
    have e2 : inner [exSym, exNonsym] true (min (99 / 100) (1 / 2) : ℝ) = .ok (2 / 5 : ℝ) := by
      have hh : (min (99 / 100) (1 / 2) : ℝ) = 1 / 2 := by norm_num
      rw [hh]
      simp only [inner, List.foldlM_cons, List.foldlM_nil, exSym, beq_self_eq_true, ↓reduceIte,
        pure, Except.pure, bind, Except.bind]
      rw [show exNonsym.symmetric = false from rfl, exNonsym_from_half]
      simp only [Bool.false_eq_true, beq_iff_eq, ↓reduceIte]
      show Except.ok (min (1 / 2 : ℝ) (min (2 / 5) (2 / 5))) = _
      norm_num
    simp only [stepLengthSymFirst, e1, bind, Except.bind, pure, Except.pure]
    have : ([exSym, exNonsym].all (·.symmetric)) = false := rfl
    rw [this]
    simp only [Bool.not_false, ↓reduceIte]
    have hf : (fmin (99 / 100) (1 / 2) : ℝ) = min (99 / 100) (1 / 2) := rfl
    rw [hf, e2]

end CompRound3

/-! ## Round 3: shorter steps stay in the nonsymmetric cones (convexity) -/
section NonsymConvex
open Backtrack Nonsym Composite

/-- [R] exponential cone, safety of every shorter step: from interior points `z ∈ int K*`,
`s ∈ int K`, after `step_length` returned `(αz, αs)` the whole segments
`z + t·dz` (`0 ≤ t ≤ αz`) and `s + t·ds` (`0 ≤ t ≤ αs`) stay in the open cones (the open
exponential cone and its dual are convex; proved from the convexity of `exp`). -/
theorem exp_step_safe_below (dz ds z s : V3 ℝ) (step amin amax : ℝ) (fuel : Nat) (az as : ℝ)
    (h : Exp.stepLength dz ds z s step amin amax fuel = .ok (az, as))
    (hz : C14.ExpDualInterior z.1 z.2.1 z.2.2) (hs : C14.ExpPrimalInterior s.1 s.2.1 s.2.2) :
    (∀ t, 0 ≤ t → t ≤ az →
      C14.ExpDualInterior (z.1 + t * dz.1) (z.2.1 + t * dz.2.1) (z.2.2 + t * dz.2.2)) ∧
    (∀ t, 0 ≤ t → t ≤ as →
      C14.ExpPrimalInterior (s.1 + t * ds.1) (s.2.1 + t * ds.2.1) (s.2.2 + t * ds.2.2)) := by
  obtain ⟨h1, h2⟩ := Exp.stepLength_outcome dz ds z s step amin amax fuel az as h
  constructor
  · intro t ht0 ht
    rcases h1.accepted with hp | h0
    · exact C15Convex.expDual_ray hz (Exp.inDual_candidate z dz az hp) ht0 ht
    · have : t = 0 := by rw [h0] at ht; linarith
      subst this; simpa using hz
  · intro t ht0 ht
    rcases h2.accepted with hp | h0
    · exact C15Convex.expPrimal_ray hs (Exp.inPrimal_candidate s ds as hp) ht0 ht
    · have : t = 0 := by rw [h0] at ht; linarith
      subst this; simpa using hs

/-- [R] power cone (`0 < a < 1`), safety of every shorter step (the open power cone and its
dual are convex; proved from the weighted AM–GM inequality). -/
theorem pow_step_safe_below {a : ℝ} (ha0 : 0 < a) (ha1 : a < 1) (dz ds z s : V3 ℝ)
    (step amin amax : ℝ) (fuel : Nat) (az as : ℝ)
    (h : Pow.stepLength a dz ds z s step amin amax fuel = .ok (az, as))
    (hz : C14.PowDualInterior a z.1 z.2.1 z.2.2) (hs : C14.PowPrimalInterior a s.1 s.2.1 s.2.2) :
    (∀ t, 0 ≤ t → t ≤ az →
      C14.PowDualInterior a (z.1 + t * dz.1) (z.2.1 + t * dz.2.1) (z.2.2 + t * dz.2.2)) ∧
    (∀ t, 0 ≤ t → t ≤ as →
      C14.PowPrimalInterior a (s.1 + t * ds.1) (s.2.1 + t * ds.2.1) (s.2.2 + t * ds.2.2)) := by
  obtain ⟨h1, h2⟩ := Pow.stepLength_outcome a dz ds z s step amin amax fuel az as h
  constructor
  · intro t ht0 ht
    rcases h1.accepted with hp | h0
    · exact C15Convex.powDual_ray ha0 ha1 hz (Pow.inDual_candidate ha0 ha1 z dz az hp) ht0 ht
    · have : t = 0 := by rw [h0] at ht; linarith
      subst this; simpa using hz
  · intro t ht0 ht
    rcases h2.accepted with hp | h0
    · exact C15Convex.powPrimal_ray ha0 ha1 hs (Pow.inPrimal_candidate a s ds as hp) ht0 ht
    · have : t = 0 := by rw [h0] at ht; linarith
      subst this; simpa using hs

/-- non-vacuity: `(−1, 1, 1)` is interior to the exponential cone and to its dual;
`(1/2, 1/2, 0)` to the dual and `(1, 1, 0)` to the primal power cone with `a = 1/2`. -/
example : C14.ExpDualInterior (-1) 1 1 ∧ C14.ExpPrimalInterior (-1) 1 1 ∧
    C14.PowDualInterior (1 / 2) (1 / 2) (1 / 2) 0 ∧ C14.PowPrimalInterior (1 / 2) 1 1 0 := by
  refine ⟨⟨by norm_num, by norm_num, ?_⟩, ⟨by norm_num, by norm_num, ?_⟩,
    ⟨by norm_num, by norm_num, ?_⟩, ⟨by norm_num, by norm_num, ?_⟩⟩
  · have : Real.exp (1 / -1 - 1) < 1 := Real.exp_lt_one_iff.mpr (by norm_num)
    linarith
  · have : Real.exp (-1 / 1) < 1 := Real.exp_lt_one_iff.mpr (by norm_num)
    linarith
  · norm_num
  · norm_num

/-- [R] composite safety for an exponential-cone block: if the composite `step_length`
returned `m ≥ 0` and one of its cones is an exponential cone started at interior points
`(z, s)`, then `z + m·dz ∈ int K*` and `s + m·ds ∈ int K` — although the composite may have
shortened the step *after* the cone's own back-tracking search (the nonsymmetric cones are
processed first), the shortened step is still inside the cone. -/
theorem composite_exp_block_safe (cones : List (ConeFn ℝ)) (msf amax : ℝ) (r : ℝ × ℝ)
    (h : stepLength cones msf amax = .ok r) (c : ConeFn ℝ) (hc : c ∈ cones)
    (dz ds z s : V3 ℝ) (step amin : ℝ) (fuel : Nat)
    (hstep : ∀ a, c.stepLength a = Exp.stepLength dz ds z s step amin a fuel)
    (hz : C14.ExpDualInterior z.1 z.2.1 z.2.2) (hs : C14.ExpPrimalInterior s.1 s.2.1 s.2.2)
    (h0 : 0 ≤ r.1) :
    C14.ExpDualInterior (z.1 + r.1 * dz.1) (z.2.1 + r.1 * dz.2.1) (z.2.2 + r.1 * dz.2.2) ∧
    C14.ExpPrimalInterior (s.1 + r.1 * ds.1) (s.2.1 + r.1 * ds.2.1) (s.2.2 + r.1 * ds.2.2) := by
  obtain ⟨_, _, _, hall⟩ := stepLength_general cones msf amax r h
  obtain ⟨a', rc, _, hrc, g1, g2, _⟩ := hall c hc
  rw [hstep a'] at hrc
  obtain ⟨k1, k2⟩ := exp_step_safe_below dz ds z s step amin a' fuel rc.1 rc.2 hrc hz hs
  exact ⟨k1 r.1 h0 g1, k2 r.1 h0 g2⟩

/-- [R] composite safety for a power-cone block (`0 < a < 1`): the same statement. -/
theorem composite_pow_block_safe {a : ℝ} (ha0 : 0 < a) (ha1 : a < 1) (cones : List (ConeFn ℝ))
    (msf amax : ℝ) (r : ℝ × ℝ) (h : stepLength cones msf amax = .ok r) (c : ConeFn ℝ)
    (hc : c ∈ cones) (dz ds z s : V3 ℝ) (step amin : ℝ) (fuel : Nat)
    (hstep : ∀ t, c.stepLength t = Pow.stepLength a dz ds z s step amin t fuel)
    (hz : C14.PowDualInterior a z.1 z.2.1 z.2.2) (hs : C14.PowPrimalInterior a s.1 s.2.1 s.2.2)
    (h0 : 0 ≤ r.1) :
    C14.PowDualInterior a (z.1 + r.1 * dz.1) (z.2.1 + r.1 * dz.2.1) (z.2.2 + r.1 * dz.2.2) ∧
    C14.PowPrimalInterior a (s.1 + r.1 * ds.1) (s.2.1 + r.1 * ds.2.1) (s.2.2 + r.1 * ds.2.2) := by
  obtain ⟨_, _, _, hall⟩ := stepLength_general cones msf amax r h
  obtain ⟨a', rc, _, hrc, g1, g2, _⟩ := hall c hc
  rw [hstep a'] at hrc
  obtain ⟨k1, k2⟩ := pow_step_safe_below ha0 ha1 dz ds z s step amin a' fuel rc.1 rc.2 hrc hz hs
  exact ⟨k1 r.1 h0 g1, k2 r.1 h0 g2⟩

/-- non-vacuity of the composite hypotheses: a one-cone composite made of the exponential
cone at `z = s = (−1, 1, 1)` with zero directions returns `min(max_step_fraction, αmax)`. -/
example : stepLength [(⟨false, fun a => Exp.stepLength (0, 0, 0) (0, 0, 0) (-1, 1, 1) (-1, 1, 1)
    (4 / 5 : ℝ) (1 / 10000) a 1⟩ : ConeFn ℝ)] (99 / 100) 1 = .ok (99 / 100, 99 / 100) := by
  have e : ∀ a : ℝ, Exp.stepLength (0, 0, 0) (0, 0, 0) (-1, 1, 1) (-1, 1, 1) (4 / 5 : ℝ) (1 / 10000) a 1
      = .ok (a, a) := by
    intro a
    simp [Exp.stepLength, Nonsym.backtrackSearch, Exp.inDual, Exp.inPrimal, Vec.waxpby, v3toArray,
      v3ofArray?, Exp.isDualFeasible, Exp.isPrimalFeasible, logsafe, bind, Except.bind, pure,
      Except.pure]
    norm_num
  simp only [stepLength, inner, List.foldlM_cons, List.foldlM_nil, e, bind, Except.bind, pure,
    Except.pure, List.all_cons, List.all_nil]
  norm_num [FloatLike.fmin]

end NonsymConvex

end Clarabel.C15

/-! ## Round 4 (cone geometry): generalised power cone convexity, PSD step in original coordinates -/
namespace Clarabel.C15
open Clarabel

section GenPowConvexSec
open Backtrack Nonsym Composite

/-- [R] generalised power cone (positive exponents summing to one, any dimensions), safety of
**every shorter step**: from interior points `z = uz ++ wz ∈ int K*`, `s = us ++ ws ∈ int K` and
directions of the same length, after `step_length` returned `(αz, αs)` the whole segments
`z + t·dz` (`0 ≤ t ≤ αz`) and `s + t·ds` (`0 ≤ t ≤ αs`) stay in the open cones — the open generalised
power cone and its dual are convex (`C14.genpow_cones_convex`: concavity of the weighted geometric
mean from the weighted AM–GM inequality, triangle inequality of the norm).  Includes the failure
value `0`. -/
theorem genpow_step_safe_below (al : List ℝ) (hal : ∀ a ∈ al, 0 < a) (hsum : al.sum = 1)
    (dz ds z s : Array ℝ) (step amin amax : ℝ) (fuel : Nat) (az as : ℝ)
    (h : GenPow.stepLength al.toArray dz ds z s step amin amax fuel = .ok (az, as))
    (hdz : dz.size = z.size) (hds : ds.size = s.size) (uz wz us ws : List ℝ)
    (hzs : z.toList = uz ++ wz) (hzl : al.length = uz.length) (hss : s.toList = us ++ ws)
    (hsl : al.length = us.length) (hz : C14.GenPowDualInterior al uz wz)
    (hs : C14.GenPowPrimalInterior al us ws) :
    (∀ t, 0 ≤ t → t ≤ az → ∀ u w, (candidate z dz t).toList = u ++ w → al.length = u.length →
        C14.GenPowDualInterior al u w) ∧
    (∀ t, 0 ≤ t → t ≤ as → ∀ u w, (candidate s ds t).toList = u ++ w → al.length = u.length →
        C14.GenPowPrimalInterior al u w) := by
  obtain ⟨h1, h2⟩ := GenPow.stepLength_outcome al.toArray dz ds z s step amin amax fuel az as h
  constructor
  · intro t ht0 ht u w huw hul
    rcases h1.accepted with hp | h0
    · exact GenPowConvex.dual_segment al hal hsum z dz hdz uz wz hzs hzl hz az
        (fun u w hx hl => GenPow.inDual_mem al _ hal hp u w hx hl) t ht0 ht u w huw hul
    · have : t = 0 := by rw [h0] at ht; linarith
      subst this
      have e : candidate z dz 0 = z := GenPowConvex.waxpby_zero z dz hdz
      rw [e, hzs] at huw
      obtain ⟨rfl, rfl⟩ := List.append_inj huw (by omega)
      exact hz
  · intro t ht0 ht u w huw hul
    rcases h2.accepted with hp | h0
    · exact GenPowConvex.primal_segment al hal hsum s ds hds us ws hss hsl hs as
        (fun u w hx hl => GenPow.inPrimal_mem al _ hal hp u w hx hl) t ht0 ht u w huw hul
    · have : t = 0 := by rw [h0] at ht; linarith
      subst this
      have e : candidate s ds 0 = s := GenPowConvex.waxpby_zero s ds hds
      rw [e, hss] at huw
      obtain ⟨rfl, rfl⟩ := List.append_inj huw (by omega)
      exact hs

/-- non-vacuity: `α = (½, ½)`, `z = (1, 1 | 1) ∈ int K*`, `s = (1, 1 | 0) ∈ int K`, zero directions
of the right length. -/
example : (∀ a ∈ [(1 / 2 : ℝ), 1 / 2], 0 < a) ∧ [(1 / 2 : ℝ), 1 / 2].sum = 1 ∧
    (#[0, 0, 0] : Array ℝ).size = (#[1, 1, 1] : Array ℝ).size ∧
    (#[1, 1, 1] : Array ℝ).toList = [1, 1] ++ [1] ∧ (#[1, 1, 0] : Array ℝ).toList = [1, 1] ++ [0] ∧
    C14.GenPowDualInterior [1 / 2, 1 / 2] [1, 1] [1] ∧
    C14.GenPowPrimalInterior [1 / 2, 1 / 2] [1, 1] [0] := by
  refine ⟨by intro a ha; simp at ha; subst ha; norm_num, by norm_num, rfl, rfl, rfl,
    ⟨by simp, by norm_num⟩, ⟨by simp, by norm_num⟩⟩

/-- non-vacuity of the step-length hypothesis: from `z = s = (1, 1 | 0)` with zero directions the
full step `αmax = 1` is accepted on both sides. -/
example : GenPow.stepLength (#[1 / 2, 1 / 2] : Array ℝ) #[0, 0, 0] #[0, 0, 0] #[1, 1, 0] #[1, 1, 0]
    (1 / 2) 1 1 1 = .ok (1, 1) := by
  simp [GenPow.stepLength, Nonsym.backtrackSearch, GenPow.inDual, GenPow.inPrimal, Vec.waxpby,
    GenPow.isDualFeasible, GenPow.isPrimalFeasible, GenPow.split, bind, Except.bind, pure,
    Except.pure, GenPow.logPhiDual, GenPow.logPhiPrimal, Vec.sumsq, Vec.dot, Real.exp_pos]

/-- [R] composite safety for a generalised-power block: if the composite `step_length` returned
`m ≥ 0` and one of its cones is a generalised power cone started at interior points `(z, s)`, then
`z + m·dz ∈ int K*` and `s + m·ds ∈ int K` — although the composite shortens the step *after* the
cone's own back-tracking search (by `max_step_fraction` and by the symmetric cones processed
later), the shortened step is still inside the cone. -/
theorem composite_genpow_block_safe (al : List ℝ) (hal : ∀ a ∈ al, 0 < a) (hsum : al.sum = 1)
    (cones : List (ConeFn ℝ)) (msf amax : ℝ) (r : ℝ × ℝ) (h : stepLength cones msf amax = .ok r)
    (c : ConeFn ℝ) (hc : c ∈ cones) (dz ds z s : Array ℝ) (step amin : ℝ) (fuel : Nat)
    (hstep : ∀ t, c.stepLength t = GenPow.stepLength al.toArray dz ds z s step amin t fuel)
    (hdz : dz.size = z.size) (hds : ds.size = s.size) (uz wz us ws : List ℝ)
    (hzs : z.toList = uz ++ wz) (hzl : al.length = uz.length) (hss : s.toList = us ++ ws)
    (hsl : al.length = us.length) (hz : C14.GenPowDualInterior al uz wz)
    (hs : C14.GenPowPrimalInterior al us ws) (h0 : 0 ≤ r.1) :
    (∀ u w, (candidate z dz r.1).toList = u ++ w → al.length = u.length →
        C14.GenPowDualInterior al u w) ∧
    (∀ u w, (candidate s ds r.1).toList = u ++ w → al.length = u.length →
        C14.GenPowPrimalInterior al u w) := by
  obtain ⟨_, _, _, hall⟩ := stepLength_general cones msf amax r h
  obtain ⟨a', rc, _, hrc, g1, g2, _⟩ := hall c hc
  rw [hstep a'] at hrc
  obtain ⟨k1, k2⟩ := genpow_step_safe_below al hal hsum dz ds z s step amin a' fuel rc.1 rc.2 hrc
    hdz hds uz wz us ws hzs hzl hss hsl hz hs
  exact ⟨k1 r.1 h0 g1, k2 r.1 h0 g2⟩

end GenPowConvexSec

section PsdUnscaledSec
open PsdStep PsdTri

/-- [R] the congruence bridge (Sylvester's law of inertia, the elementary half).  Under the
Nesterov–Todd contract `NtOk K z s` of C13 (`W z = λ = W⁻ᵀ s` as `svec(diag λ)`, `R·R⁻¹ = I`, sizes)
the scaled iterate of the step-length code is congruent to the iterate in original coordinates:
`Rᵀ(mat z + t·mat Δz)R = Λ + t·mat(WΔz)` and `R⁻¹(mat s + t·mat Δs)R⁻ᵀ = Λ + t·mat(W⁻ᵀΔs)`; since `R`
is invertible (`xᵀ(RᵀMR)x = (Rx)ᵀM(Rx)`), for **every** `t`: `mat z + t·mat Δz` is positive definite /
positive semidefinite / singular exactly when `Λ + t·mat(WΔz)` is, and the same for `s`. -/
theorem psd_congruence_bridge (K : PsdTri.Cone ℝ) (z s dz ds dzW dsW : Array ℝ) (t : ℝ)
    (h : NtOk K z s) (hdz : mulW K false dz dz 1 0 = .ok dzW)
    (hds : mulWinv K true ds ds 1 0 = .ok dsW) :
    (PosDef K.n (unscaled z dz t) ↔ PosDef K.n (shifted K.lam dzW t)) ∧
    (PosSemidef K.n (unscaled z dz t) ↔ PosSemidef K.n (shifted K.lam dzW t)) ∧
    ((∃ v, 0 < nrm2 K.n v ∧ qform K.n (unscaled z dz t) v = 0)
      ↔ ∃ v, 0 < nrm2 K.n v ∧ qform K.n (shifted K.lam dzW t) v = 0) ∧
    (PosDef K.n (unscaled s ds t) ↔ PosDef K.n (shifted K.lam dsW t)) ∧
    (PosSemidef K.n (unscaled s ds t) ↔ PosSemidef K.n (shifted K.lam dsW t)) ∧
    ((∃ v, 0 < nrm2 K.n v ∧ qform K.n (unscaled s ds t) v = 0)
      ↔ ∃ v, 0 < nrm2 K.n v ∧ qform K.n (shifted K.lam dsW t) v = 0) :=
  ⟨posDef_unscaled_z_iff K z s dz dzW t h hdz, posSemidef_unscaled_z_iff K z s dz dzW t h hdz,
    singular_unscaled_z_iff K z s dz dzW t h hdz, posDef_unscaled_s_iff K z s ds dsW t h hds,
    posSemidef_unscaled_s_iff K z s ds dsW t h hds, singular_unscaled_s_iff K z s ds dsW t h hds⟩

/-- [R] `PSDTriangleCone::step_length` is safe and tight **in original coordinates**.  Under the
spectral contract (as in `psd_step_length_safe_tight`) and the Nesterov–Todd contract `NtOk K z s`
for the current point, both returned steps satisfy `StepSpecU`: `0 ≤ αz ≤ αmax`,
`mat z + t·mat Δz ≻ 0` for every `t ∈ [0, αz)`, `⪰ 0` at `t = αz`, and `αz < αmax` implies that
`mat z + αz·mat Δz` is singular (the step ends on the boundary of the PSD cone); the same for
`(s, Δs, αs)`. -/
theorem psd_step_safe_tight_unscaled (K : PsdTri.Cone ℝ) (z s dz ds : Array ℝ) (γz γs amax : ℝ)
    (r : ℝ × ℝ) (h : PsdStep.stepLength K dz ds (some γz) (some γs) amax = .ok r) (hn : 0 < K.n)
    (hs : ScalingOk K.n K.lam K.lamIsqrt) (ham : 0 ≤ amax) (hnt : NtOk K z s)
    (hγz : ∀ d, mulW K false dz dz 1 0 = .ok d → IsMinEig K.n (scaledDir d K.lamIsqrt) γz)
    (hγs : ∀ d, mulWinv K true ds ds 1 0 = .ok d → IsMinEig K.n (scaledDir d K.lamIsqrt) γs) :
    StepSpecU K.n z dz amax r.1 ∧ StepSpecU K.n s ds amax r.2 :=
  stepLength_spec_unscaled K z s dz ds γz γs amax r h hn hs ham hnt hγz hγs

/-- [R] the current point of a PSD block under the two contracts is strictly inside the cone:
`mat z ≻ 0`, `mat s ≻ 0` (`Λ ≻ 0` and congruence). -/
theorem psd_point_posDef (K : PsdTri.Cone ℝ) (z s : Array ℝ) (h : NtOk K z s)
    (hs : ScalingOk K.n K.lam K.lamIsqrt) :
    PosDef K.n (svecToMat z) ∧ PosDef K.n (svecToMat s) :=
  NtOk.posDef K z s h hs

/-- non-vacuity: the `1 × 1` cone with `λ = Λisqrt = R = R⁻¹ = 1` at `z = s = (1)` satisfies both
contracts (the step-length and spectral hypotheses are those of `psd_step_length_safe_tight`). -/
example : NtOk (⟨1, #[1], #[1], #[1], #[1], #[]⟩ : PsdTri.Cone ℝ) #[1] #[1] ∧
    ScalingOk 1 (#[1] : Array ℝ) #[1] := ⟨ntOk_example, scalingOk_example⟩

/-- [R] the same **from the LAPACK contracts**: if the factors handed back by LAPACK satisfy their
contracts — Cholesky `mat s = L₁L₁ᵀ`, `mat z = L₂L₂ᵀ`, SVD `L₂ᵀL₁ = U·diag(σ)·Vt` with
`UᵀU = Vt·Vtᵀ = I`, `σ > 0` — then `update_scaling`'s LAPACK-free tail (`assembleScaling`) produces a
scaling `K` with the Nesterov–Todd and `Λisqrt` contracts, and every `step_length` on it that meets
the spectral contract is safe and tight in original coordinates. -/
theorem psd_step_safe_tight_unscaled_lapack (n : Nat) (L1 L2 U Vt sig s z dz ds : Array ℝ)
    (γz γs amax : ℝ) (hn : 0 < n) (ham : 0 ≤ amax)
    (h1 : L1.size = n * n) (h2 : L2.size = n * n) (hU : U.size = n * n) (hV : Vt.size = n * n)
    (hsg : sig.size = n) (hs : s.size = PsdIndex.triangularNumber n)
    (hz : z.size = PsdIndex.triangularNumber n)
    (hS : toM n (svecToMat s) = toM n (matOf n L1) * (toM n (matOf n L1)).transpose)
    (hZ : toM n (svecToMat z) = toM n (matOf n L2) * (toM n (matOf n L2)).transpose)
    (hsvd : (toM n (matOf n L2)).transpose * toM n (matOf n L1)
      = toM n (matOf n U) * Matrix.diagonal (fun i : Fin n => sig.getD i 0) * toM n (matOf n Vt))
    (hUo : (toM n (matOf n U)).transpose * toM n (matOf n U) = 1)
    (hVo : toM n (matOf n Vt) * (toM n (matOf n Vt)).transpose = 1)
    (hpos : ∀ i, i < n → 0 < sig.getD i 0) :
    ∃ K RRt, assembleScaling n L1 L2 U Vt sig = .ok (K, RRt) ∧ K.n = n ∧ NtOk K z s ∧
      ScalingOk K.n K.lam K.lamIsqrt ∧
      ∀ r, PsdStep.stepLength K dz ds (some γz) (some γs) amax = .ok r →
        (∀ d, mulW K false dz dz 1 0 = .ok d → IsMinEig K.n (scaledDir d K.lamIsqrt) γz) →
        (∀ d, mulWinv K true ds ds 1 0 = .ok d → IsMinEig K.n (scaledDir d K.lamIsqrt) γs) →
        StepSpecU K.n z dz amax r.1 ∧ StepSpecU K.n s ds amax r.2 := by
  obtain ⟨K, RRt, hK, hKn, hnt, hsc⟩ := assembleScaling_contracts n L1 L2 U Vt sig s z h1 h2 hU hV
    hsg hs hz hS hZ hsvd hUo hVo hpos
  refine ⟨K, RRt, hK, hKn, hnt, hsc, fun r hr hγz hγs => ?_⟩
  exact stepLength_spec_unscaled K z s dz ds γz γs amax r hr (by rw [hKn]; exact hn) hsc ham hnt
    hγz hγs

/-- non-vacuity of the LAPACK contracts: `n = 1`, `L₁ = L₂ = U = Vt = σ = (1)`, `s = z = (1)`. -/
example :
    toM 1 (svecToMat (#[1] : Array ℝ))
      = toM 1 (matOf 1 (#[1] : Array ℝ)) * (toM 1 (matOf 1 (#[1] : Array ℝ))).transpose ∧
    (toM 1 (matOf 1 (#[1] : Array ℝ))).transpose * toM 1 (matOf 1 (#[1] : Array ℝ))
      = toM 1 (matOf 1 (#[1] : Array ℝ))
        * Matrix.diagonal (fun i : Fin 1 => (#[1] : Array ℝ).getD i 0) * toM 1 (matOf 1 (#[1] : Array ℝ)) ∧
    (toM 1 (matOf 1 (#[1] : Array ℝ))).transpose * toM 1 (matOf 1 (#[1] : Array ℝ)) = 1 ∧
    toM 1 (matOf 1 (#[1] : Array ℝ)) * (toM 1 (matOf 1 (#[1] : Array ℝ))).transpose = 1 ∧
    (∀ i, i < 1 → 0 < (#[1] : Array ℝ).getD i 0) := by
  refine ⟨?_, ?_, ?_, ?_, ?_⟩
  · ext i j; fin_cases i; fin_cases j
    simp [toM, matOf, svecToMat, Matrix.mul_apply, PsdIndex.triangularNumber]
  · ext i j; fin_cases i; fin_cases j
    simp [toM, matOf, Matrix.mul_apply]
  · ext i j; fin_cases i; fin_cases j
    simp [toM, matOf, Matrix.mul_apply]
  · ext i j; fin_cases i; fin_cases j
    simp [toM, matOf, Matrix.mul_apply]
  · intro i hi
    have : i = 0 := by omega
    subst this; simp

end PsdUnscaledSec

/-! ## PSD cone: `logdet_barrier` and `compute_barrier` -/
section PsdBarrierSec
open PsdTri PsdBarrier

/-- [S] `PSDTriangleCone::logdet_barrier`, failed Cholesky factorization: the value is
`T::infinity()` (for vectors of the cone's length; otherwise `waxpby` panics). -/
theorem psd_logdet_barrier_fail_is_inf {β : Type} [Add β] [Div β] [OfNat β 0] [OfNat β 1]
    [FloatLike β] (n : Nat) (x dx : Array β) (a : β)
    (hx : x.size = PsdIndex.triangularNumber n) (hdx : dx.size = PsdIndex.triangularNumber n) :
    logdetBarrier n x dx a none = .ok PsdBarrier.inf :=
  logdetBarrier_none n x dx a hx hdx

/-- [S] `PSDTriangleCone::logdet_barrier`, successful factorization with factor `L`: the value
is `ld + ld` with `ld = Σ_i ln L[(i,i)]` (left fold from `0`), i.e. `CholeskyEngine::logdet`. -/
theorem psd_logdet_barrier_formula {β : Type} [Add β] [Div β] [OfNat β 0] [OfNat β 1]
    [FloatLike β] (n : Nat) (x dx : Array β) (a : β) (L : Array β)
    (hx : x.size = PsdIndex.triangularNumber n) (hdx : dx.size = PsdIndex.triangularNumber n)
    (hL : L.size = n * n) :
    logdetBarrier n x dx a (some L)
      = .ok (sumN n (fun i => log (matOf n L i i)) + sumN n (fun i => log (matOf n L i i))) :=
  logdetBarrier_some n x dx a L hx hdx hL

/-- [S] a vector of the wrong length makes `logdet_barrier` panic (`assert_eq!` in `waxpby`),
whatever LAPACK would answer. -/
theorem psd_logdet_barrier_length_panic {β : Type} [Add β] [Div β] [OfNat β 0] [OfNat β 1]
    [FloatLike β] (n : Nat) (x dx : Array β) (a : β) (fac : Option (Array β))
    (h : x.size ≠ PsdIndex.triangularNumber n ∨ dx.size ≠ PsdIndex.triangularNumber n) :
    ∃ m, logdetBarrier n x dx a fac = .error (.panic m) :=
  logdetBarrier_panic n x dx a fac h

/-- [S] `PSDTriangleCone::compute_barrier` returns a value exactly when both `logdet_barrier`
calls do, and then it is `(0 − logdet_barrier(z, dz, α)) − logdet_barrier(s, ds, α)` in this
operation order. -/
theorem psd_compute_barrier_eq {β : Type} [Add β] [Sub β] [Div β] [OfNat β 0] [OfNat β 1]
    [FloatLike β] (n : Nat) (z s dz ds : Array β) (a : β) (facz facs : Option (Array β)) (v : β) :
    computeBarrier n z s dz ds a facz facs = .ok v ↔
      ∃ lz ls, logdetBarrier n z dz a facz = .ok lz ∧ logdetBarrier n s ds a facs = .ok ls ∧
        v = (0 - lz) - ls := by
  constructor
  · exact computeBarrier_ok n z s dz ds a facz facs v
  · rintro ⟨lz, ls, hz, hs, rfl⟩
    exact computeBarrier_eq n z s dz ds a facz facs lz ls hz hs

/-- [R] under the Cholesky contract for the LAPACK answer (`L` lower triangular with a positive
diagonal and `L·Lᵀ = mat(x + α·dx)`, the matrix the code hands to `chol1.factor`), the value of
`logdet_barrier` is `ln det mat(x + α·dx)`, and that determinant is positive. -/
theorem psd_logdet_barrier_is_log_det (n : Nat) (x dx : Array ℝ) (a : ℝ) (L : Array ℝ)
    (hx : x.size = PsdIndex.triangularNumber n) (hdx : dx.size = PsdIndex.triangularNumber n)
    (h : CholContract n (barrierMat x dx a) L) :
    logdetBarrier n x dx a (some L) = .ok (Real.log (toM n (barrierMat x dx a)).det) ∧
      0 < (toM n (barrierMat x dx a)).det :=
  ⟨logdetBarrier_eq_log_det n x dx a L hx hdx h, det_pos_of_contract n _ L h⟩

/-- [R] the whole `compute_barrier` under the Cholesky contract for both factors:
`−ln det mat(z + α·dz) − ln det mat(s + α·ds)`. -/
theorem psd_compute_barrier_is_neg_log_det (n : Nat) (z s dz ds : Array ℝ) (a : ℝ)
    (Lz Ls : Array ℝ) (hz : z.size = PsdIndex.triangularNumber n) (hdz : dz.size = PsdIndex.triangularNumber n)
    (hs : s.size = PsdIndex.triangularNumber n) (hds : ds.size = PsdIndex.triangularNumber n)
    (hcz : CholContract n (barrierMat z dz a) Lz) (hcs : CholContract n (barrierMat s ds a) Ls) :
    computeBarrier n z s dz ds a (some Lz) (some Ls)
      = .ok (-Real.log (toM n (barrierMat z dz a)).det - Real.log (toM n (barrierMat s ds a)).det) := by
  rw [computeBarrier_eq n z s dz ds a _ _ _ _
    (logdetBarrier_eq_log_det n z dz a Lz hz hdz hcz) (logdetBarrier_eq_log_det n s ds a Ls hs hds hcs)]
  congr 1; ring

/-- non-vacuity of the Cholesky contract: `n = 1`, `x = (4)`, `dx = (5)`, `α = 1`, `L = (3)`. -/
example : CholContract 1 (barrierMat (#[4] : Array ℝ) #[5] 1) #[3] := by
  refine ⟨rfl, ?_, ?_, ?_⟩
  · intro i j hij hj; omega
  · intro i hi
    have : i = 0 := by omega
    subst this; simp [matOf]
  · ext i j; fin_cases i; fin_cases j
    simp [toM, matOf, barrierMat, barrierArg, Vec.waxpby, svecToMat, Matrix.mul_apply,
      PsdIndex.triangularNumber]
    norm_num

end PsdBarrierSec

end Clarabel.C15
