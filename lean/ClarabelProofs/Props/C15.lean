/-
  C15 — cone step lengths are safe and tight; margins and unit shifts place any vector
  strictly inside the cone.
  Property theorems only; helper lemmas live in `ClarabelProofs/Lemmas/Cones*.lean`.
-/
import ClarabelProofs.Lemmas.ConesNN
import ClarabelProofs.Lemmas.ConesSoc
import ClarabelProofs.Lemmas.ConesBacktrack
import ClarabelProofs.Lemmas.ConesComposite

namespace Clarabel.C15
open Clarabel

/-! ## Nonnegative cone -/
section NN
variable {α : Type} [Field α] [LinearOrder α] [IsStrictOrderedRing α] [FloatLike α]
  [LawfulFloatLike α]

/-- [F] NN `step_length` is the ratio test: each component is the left fold
`min(αmax, min_{dzᵢ<0} −zᵢ/dzᵢ)` over the coordinates (and never exceeds `αmax`). -/
theorem nn_step_formula (dz ds z s : Array α) (amax : α)
    (h1 : z.size = s.size) (h2 : dz.size = z.size) (h3 : ds.size = s.size) :
    Nonneg.stepLength dz ds z s amax =
      .ok ((z.toList.zip dz.toList).foldl (fun a p => if p.2 < 0 then min a (-p.1 / p.2) else a) amax,
           (s.toList.zip ds.toList).foldl (fun a p => if p.2 < 0 then min a (-p.1 / p.2) else a) amax) := by
  simp only [Nonneg.stepLength, h1, h2, h3, ne_eq, not_true_eq_false, ↓reduceIte, pure,
    Except.pure, Nonneg.stepComponent]
  congr 3 <;> (funext a p; exact Nonneg.ratio_eq a p.1 p.2)

/-- [F] NN: the step never exceeds `αmax`. -/
theorem nn_step_le_amax (amax : α) (z dz : List α) : Nonneg.stepComponent amax z dz ≤ amax :=
  Nonneg.stepComponent_le amax z dz

/-- [F] NN safety: from a point `z ≥ 0`, every step `0 ≤ a ≤ α*` keeps all coordinates
nonnegative. -/
theorem nn_step_safe (amax : α) (z dz : List α) (hz : ∀ p ∈ z.zip dz, 0 ≤ p.1)
    (a : α) (ha0 : 0 ≤ a) (ha : a ≤ Nonneg.stepComponent amax z dz) :
    ∀ p ∈ z.zip dz, 0 ≤ p.1 + a * p.2 :=
  Nonneg.stepComponent_safe amax z dz hz a ha0 ha

/-- [F] NN tightness: a step shorter than `αmax` puts some coordinate exactly on the
boundary. -/
theorem nn_step_tight (amax : α) (z dz : List α) (h : Nonneg.stepComponent amax z dz < amax) :
    ∃ p ∈ z.zip dz, p.2 < 0 ∧ p.1 + Nonneg.stepComponent amax z dz * p.2 = 0 :=
  Nonneg.stepComponent_tight amax z dz h

/-- non-vacuity: `z = (1,2)`, `dz = (−2,1)`, `αmax = 1` gives the step `1/2 < αmax`. -/
example : Nonneg.stepComponent (1 : ℝ) [1, 2] [-2, 1] = 1 / 2 := by
  simp [Nonneg.stepComponent, Nonneg.ratio_eq]
  norm_num

end NN

/-! ## Second-order cone -/
section SOC
open Soc

/-- [R] The branch logic of `_step_length_soc_component` (with the repaired `a = 0` branch)
on the residual polynomial `r(α) = c + bα + aα²` of an interior point (`c > 0`): the
returned step `t` satisfies `0 ≤ t ≤ αmax`, `r ≥ 0` on `[0,t]` (safety) and
`t < αmax ⇒ r(t) = 0` (tightness).  `QuadSpec` is exactly this conjunction. -/
theorem soc_step_quad_safe_tight (a b c amax : ℝ) (hc : 0 < c) (ham : 0 ≤ amax) :
    ∃ t, stepLengthQuad a b c amax = .ok t ∧
      0 ≤ t ∧ t ≤ amax ∧ (∀ α, 0 ≤ α → α ≤ t → 0 ≤ c + b * α + a * α ^ 2) ∧
      (t < amax → c + b * t + a * t ^ 2 = 0) :=
  stepLengthQuad_spec a b c amax hc ham

/-- [R] SOC step length, arbitrary dimension: for `x ∈ int K`, every direction `y` and
`αmax ≥ 0`, `_step_length_soc_component` returns `t` with `0 ≤ t ≤ αmax`, `x + αy ∈ K` for all
`α ∈ [0,t]`, and `t < αmax ⇒ x + ty ∈ ∂K` (the residual `(x₀+ty₀)² − ‖x₁+ty₁‖²` vanishes). -/
theorem soc_step_safe_tight (x0 : ℝ) (x1 : List ℝ) (y0 : ℝ) (y1 : List ℝ) (amax : ℝ)
    (hx : Interior x0 x1) (hlen : x1.length = y1.length) (ham : 0 ≤ amax) :
    ∃ t, stepLengthComponentCore x0 x1 y0 y1 amax = .ok t ∧ 0 ≤ t ∧ t ≤ amax ∧
      (∀ α, 0 ≤ α → α ≤ t → InCone (x0 + α * y0) (axpyL x1 α y1)) ∧
      (t < amax → rayResidual x0 x1 y0 y1 t = 0) :=
  stepLengthComponentCore_spec x0 x1 y0 y1 amax hx hlen ham

/-- [R] the repaired defect (known finding C15): direction on the boundary of `−K`.
`x = (1,0)`, `y = (−1,1)`, `αmax = 1` has `a = 0`, `b = −2`, `c = 1` and the step is `1/2`. -/
theorem soc_step_a_zero_repaired : stepLengthQuad (0 : ℝ) (-2) 1 1 = .ok (1 / 2) := by
  simp [stepLengthQuad, isZero]
  norm_num
  rfl

/-- [R] …whereas the value returned before the repair (`αmax = 1`) violates safety:
`r(1) = 1 − 2 = −1 < 0`. -/
theorem soc_step_a_zero_old_unsafe : ¬ QuadSpec (0 : ℝ) (-2) 1 1 1 := by
  intro ⟨_, _, h, _⟩
  have := h 1 (by norm_num) (le_refl _)
  norm_num at this

/-- [R] The hypothesis `c > 0` (interior starting point) of `soc_step_quad_safe_tight`
cannot be dropped: for a starting point *on* the boundary (`c = 0`) and a direction in
`−int K` (`a > 0`, `b < 0`) the branch `c == 0` returns `αmax` although `r < 0` on `(0, −b/a)`.
`x = (1,1)`, `y = (−1,0)`, `αmax = 1`: `a = 1`, `b = −2`, `c = 0`, returned step `1`,
`r(1) = −1`.  (Outside the property's quantifier — interior points — hence recorded, not a
violation; reproduced on the implementation.) -/
theorem soc_step_boundary_start_not_safe :
    stepLengthQuad (1 : ℝ) (-2) 0 1 = .ok 1 ∧ (0 : ℝ) + (-2) * 1 + 1 * 1 ^ 2 < 0 := by
  constructor
  · simp [stepLengthQuad, isZero]
    norm_num
    rfl
  · norm_num

/-- non-vacuity of `soc_step_safe_tight`: `x = (2,(1,0))` is interior. -/
example : Interior 2 [1, 0] ∧ ([1, 0] : List ℝ).length = ([3, 4] : List ℝ).length := by
  refine ⟨⟨by norm_num, ?_⟩, rfl⟩
  simp

end SOC

/-! ## `backtrack_search` -/
section Backtrack
open Backtrack
variable {β : Type} [Add β] [Mul β] [OfNat β 0] [OfNat β 1] [LT β] [DecidableLT β]

/-- [S] (holds for every scalar type, `Float` included) A finished `backtrack_search`
made `n` back-tracking steps; every earlier candidate `α_init·stepʲ` (`j < n`) was rejected
and the next one was still `≥ α_min`; the result is either the accepted candidate
`α_init·stepⁿ`, or `0` with the last candidate rejected and the next one below `α_min`. -/
theorem backtrack_result (dq q : Array β) (ainit amin step : β) (P : Nat → Array β → Bool)
    (wl fuel : Nat) (r : β × Nat) (h : backtrackSearch dq q ainit amin step P wl fuel = .ok r) :
    ∃ n, r.2 = n ∧
      (∀ j, j < n → P j (candidate q dq (iter step ainit j)) = false ∧
          ¬ (iter step ainit (j + 1) < amin)) ∧
      ((r.1 = iter step ainit n ∧ P n (candidate q dq (iter step ainit n)) = true) ∨
       (r.1 = 0 ∧ P n (candidate q dq (iter step ainit n)) = false ∧
          iter step ainit (n + 1) < amin)) := by
  unfold backtrackSearch at h
  split at h
  · cases h
  · obtain ⟨n, hn, h1, h2⟩ := loop_spec q dq amin step P fuel 0 ainit r h
    refine ⟨n, by omega, ?_, ?_⟩
    · intro j hj; simpa using h1 j hj
    · simpa using h2

/-- [S] fuel bound: if the `(N+1)`-th candidate is below `α_min`, `N+1` units of fuel
suffice (the model never reports fuel exhaustion). -/
theorem backtrack_fuel (dq q : Array β) (ainit amin step : β) (P : Nat → Array β → Bool)
    (N fuel : Nat) (hN : iter step ainit (N + 1) < amin) (hf : N + 1 ≤ fuel)
    (hq : q.size = dq.size) :
    ∃ r, backtrackSearch dq q ainit amin step P q.size fuel = .ok r := by
  unfold backtrackSearch
  rw [if_neg (by simp [hq])]
  exact loop_terminates q dq amin step P N fuel 0 ainit hN hf

/-- [R] termination: for `0 < step < 1` and `α_min > 0` some candidate `α_init·stepᴺ⁺¹` is
below `α_min`, so the search terminates.  (With `step ≥ 1` the Rust loop does not terminate
on an infeasible direction: the settings are not validated — recorded precondition.) -/
theorem backtrack_terminates (dq q : Array ℝ) (ainit amin step : ℝ) (P : Nat → Array ℝ → Bool)
    (h0 : 0 < step) (h1 : step < 1) (hmin : 0 < amin) (hq : q.size = dq.size) :
    ∃ N r, backtrackSearch dq q ainit amin step P q.size (N + 1) = .ok r := by
  have : ∃ N : Nat, ainit * step ^ (N + 1) < amin := by
    by_cases ha : ainit ≤ 0
    · exact ⟨0, lt_of_le_of_lt (mul_nonpos_of_nonpos_of_nonneg ha (by positivity)) hmin⟩
    · rw [not_le] at ha
      obtain ⟨n, hn⟩ := exists_pow_lt_of_lt_one (div_pos hmin ha) h1
      refine ⟨n, ?_⟩
      have : step ^ (n + 1) < amin / ainit := by
        calc step ^ (n + 1) = step ^ n * step := pow_succ _ _
          _ ≤ step ^ n * 1 := by apply mul_le_mul_of_nonneg_left h1.le; positivity
          _ = step ^ n := mul_one _
          _ < amin / ainit := hn
      rw [lt_div_iff₀ ha] at this
      linarith
  obtain ⟨N, hN⟩ := this
  obtain ⟨r, hr⟩ := backtrack_fuel dq q ainit amin step P N (N + 1)
    (by rw [iter_eq_pow]; exact hN) (le_refl _) hq
  exact ⟨N, r, hr⟩

end Backtrack

/-! ## Composite cone -/
section Comp
open Composite
variable {α : Type} [Field α] [LinearOrder α] [IsStrictOrderedRing α] [FloatLike α]
  [LawfulFloatLike α]

/-- [F] Composite `step_length` is a minimum.  If every constituent cone's step length is a
cap `αin ↦ (min αin cz, min αin cs)` (true of the zero, NN and SOC cones), the composite
returns `(m, m)` with `m` the closed-form min-fold (nonsymmetric cones first — the closure
skips cones with `is_symmetric() == symcond` and is called with `true` first — then the
`max_step_fraction` cap when not all cones are symmetric, then the symmetric cones); hence
`m ≤ αmax`, `m ≤ max_step_fraction` when a nonsymmetric cone is present, and `m` is below
every cone's own caps. -/
theorem composite_step_is_min (caps : ConeFn α → α × α) (cones : List (ConeFn α)) (msf amax : α)
    (h : ∀ c ∈ cones, ∀ a, c.stepLength a = .ok (min a (caps c).1, min a (caps c).2)) :
    ∃ m, stepLength cones msf amax = .ok (m, m) ∧
      m = innerMin caps cones false
            (if !cones.all (·.symmetric) then min msf (innerMin caps cones true amax)
             else innerMin caps cones true amax) ∧
      m ≤ amax ∧ (cones.all (·.symmetric) = false → m ≤ msf) ∧
      ∀ c ∈ cones, m ≤ (caps c).1 ∧ m ≤ (caps c).2 := by
  refine ⟨_, ?_, rfl, ?_, ?_, ?_⟩
  · simp only [stepLength, inner_eq caps cones true h, inner_eq caps cones false h, bind,
      Except.bind, pure, Except.pure, LawfulFloatLike.fmin_eq]
  · refine le_trans (innerMin_le _ _ _ _) ?_
    split
    · exact le_trans (min_le_right _ _) (innerMin_le _ _ _ _)
    · exact innerMin_le _ _ _ _
  · intro hall
    refine le_trans (innerMin_le _ _ _ _) ?_
    simp [hall]
  · intro c hc
    by_cases hs : c.symmetric = true
    · -- symmetric cones are visited by the second pass
      exact innerMin_le_cap caps cones false _ c hc (by simp [hs])
    · -- nonsymmetric cones by the first pass; later passes only decrease the value
      have hs' : c.symmetric = false := by simpa using hs
      have h1 := innerMin_le_cap caps cones true amax c hc (by simp [hs'])
      have hle : innerMin caps cones false
            (if !cones.all (·.symmetric) then min msf (innerMin caps cones true amax)
             else innerMin caps cones true amax) ≤ innerMin caps cones true amax := by
        refine le_trans (innerMin_le _ _ _ _) ?_
        split
        · exact min_le_right _ _
        · exact le_refl _
      exact ⟨le_trans hle h1.1, le_trans hle h1.2⟩

end Comp

/-! ## Margins and shifts -/
section Margins

/-- [R] SOC: `margins` returns `α = z₀ − ‖z₁‖` — `z − αe` lies on the boundary — and after
shifting by `−α` and then by a target `t > 0` (the two-stage `_shift_to_cone_interior`)
the margin is exactly `t > 0`. -/
theorem soc_shift_margin (z0 : ℝ) (z1 : List ℝ) (t : ℝ) (_ht : 0 < t) :
    ∃ a b, Soc.margins (Soc.join z0 z1) = .ok (a, b) ∧ a = z0 - Soc.normL z1 ∧ b = max 0 a ∧
      ∃ z' z'', Soc.scaledUnitShift (Soc.join z0 z1) (-a) = .ok z' ∧
        Soc.scaledUnitShift z' t = .ok z'' ∧ Soc.margins z'' = .ok (t, max 0 t) := by
  refine ⟨z0 - Soc.normL z1, max 0 (z0 - Soc.normL z1), rfl, rfl, rfl, _, _, rfl, rfl, ?_⟩
  simp only [Soc.margins, Soc.split, Soc.join, bind, Except.bind, pure, Except.pure]
  have : z0 + -(z0 - Soc.normL z1) + t - Soc.normL z1 = t := by ring
  rw [this]
  rfl

/-- [F] NN: after `scaled_unit_shift` by `−m` with `m` a lower bound of the entries, and
then by a target `t > 0`, every entry is `≥ t > 0`. -/
theorem nn_shift_margin {α : Type} [Field α] [LinearOrder α] [IsStrictOrderedRing α]
    (z : Array α) (m t : α) (hm : ∀ i (h : i < z.size), m ≤ z[i]) (ht : 0 < t) :
    ∀ i (h : i < (Nonneg.scaledUnitShift (Nonneg.scaledUnitShift z (-m)) t).size),
      t ≤ (Nonneg.scaledUnitShift (Nonneg.scaledUnitShift z (-m)) t)[i] ∧
      0 < (Nonneg.scaledUnitShift (Nonneg.scaledUnitShift z (-m)) t)[i] := by
  intro i h
  simp only [Nonneg.scaledUnitShift, Vec.translate, Array.getElem_map]
  have hi : i < z.size := by simpa [Nonneg.scaledUnitShift, Vec.translate] using h
  have := hm i hi
  constructor <;> linarith

/-- [R] `_shift_to_cone_interior` on a composite of arbitrarily many zero / nonnegative /
second-order cones (`SymSpec`: SOC dimension ≥ 1), for **any** vector `z` long enough: the
call succeeds and in the result every cone block has margin `≥ 1 > 0`
(`BlocksGe specs z' 1`: the result cuts into the cones' ranges and each block's bounded
margin — `min zᵢ` for NN, `z₀ − ‖z₁‖` for SOC — is at least 1).  Covers all three branches
(two-stage shift, small positive margin, good margin) and the re-slicing between the stages. -/
theorem shift_to_cone_interior_margin (specs : List Composite.Spec) (z : Array ℝ) (primal : Bool)
    (hs : ∀ sp ∈ specs, Composite.SymSpec sp) (hlen : Composite.totalNumel specs ≤ z.size) :
    ∃ z', Composite.shiftToConeInterior specs z primal = .ok z' ∧ Composite.BlocksGe specs z' 1 :=
  Composite.shiftToConeInterior_spec specs z primal hs hlen

/-- non-vacuity: a zero, an NN and an SOC cone, 6 entries. -/
example : (∀ sp ∈ [Composite.Spec.zero 1, .nonneg 2, .soc 3], Composite.SymSpec sp) ∧
    Composite.totalNumel [.zero 1, .nonneg 2, .soc 3] ≤ (#[0, -1, 2, 0, 3, 4] : Array ℝ).size := by
  refine ⟨?_, by simp [Composite.totalNumel, Composite.Spec.numel]⟩
  intro sp hsp
  simp only [List.mem_cons, List.not_mem_nil, or_false] at hsp
  rcases hsp with rfl | rfl | rfl <;> simp [Composite.SymSpec]

/-- [S] zero cone: the primal is forced to `0`, the dual is untouched. -/
theorem zero_shift {α : Type} [OfNat α 0] (z : Array α) (a : α) :
    (∀ i (h : i < (Zero.scaledUnitShift z a true).size), (Zero.scaledUnitShift z a true)[i] = 0) ∧
    Zero.scaledUnitShift z a false = z := by
  constructor
  · intro i h; simp [Zero.scaledUnitShift]
  · rfl

end Margins

end Clarabel.C15
