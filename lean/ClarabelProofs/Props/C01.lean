/-
  C01 — a `Solved` verdict is a certified approximate optimum of the user's problem.
  Property theorems and non-vacuity examples only; helper lemmas live in
  `ClarabelProofs/Lemmas/Info*.lean`.
-/
import ClarabelProofs.Lemmas.InfoConv
import ClarabelProofs.Lemmas.InfoUnscale
import ClarabelProofs.Lemmas.InfoCert
import Mathlib.Analysis.SpecialFunctions.Log.Basic
import ClarabelModel.Unscale
import ClarabelProofs.Lemmas.InfoLengths
import Mathlib.Tactic.NormNum
import Mathlib.Tactic.FinCases
import Mathlib.Data.Rat.Defs
import Mathlib.Data.Fin.VecNotation
import Mathlib.Algebra.BigOperators.Fin
import ClarabelProofs.Lemmas.InfoEndToEnd
import ClarabelProofs.Lemmas.InfoEndToEndExample
import ClarabelProofs.Lemmas.InfoNorms
import ClarabelProofs.Lemmas.InfoConeScale
import ClarabelProofs.Lemmas.InfoConesAll
import ClarabelProofs.Lemmas.InfoPresolveUser
import ClarabelProofs.Props.C09
import ClarabelProofs.Props.C01Full
import ClarabelProofs.Props.C01NS
import ClarabelProofs.Props.C01Total
import ClarabelProofs.Props.C01NSTotal

namespace Clarabel.C01
open Clarabel.Dense Clarabel.Info Finset

section field
variable {α : Type} [Field α] [LinearOrder α] [IsStrictOrderedRing α] {n m : ℕ}

/-- **[F] `C01.residual_unscale`.**  For the internal data `P̂ = cDPD, Â = EAD, q̂ = cDq,
b̂ = Eb` and the returned point `x = Dx̂/τ, s = E⁻¹ŝ/τ, z = Eẑ/(cτ)` (all scalings positive):
`A x + s − b = E⁻¹ r̂z / τ` and `P x + Aᵀ z + q = −D⁻¹ r̂x /(cτ)` entry by entry, where
`r̂x, r̂z` are the residuals `Residuals.update` forms on the internal data. -/
theorem residual_unscale (p : Problem α n m) (sc : Scaling α n m)
    (xh : Fin n → α) (sh zh : Fin m → α) (τ : α)
    (hd : ∀ j, 0 < sc.d j) (he : ∀ i, 0 < sc.e i) (hc : 0 < sc.c) (hτ : 0 < τ) :
    (∀ i, mulV p.A (unX sc τ xh) i + unS sc τ sh i - p.b i
            = rz (p.scaled sc) xh sh τ i * (1 / sc.e i) * (1 / τ))
    ∧ (∀ j, mulV p.P (unX sc τ xh) j + mulVT p.A (unZ sc τ zh) j + p.q j
            = -(rx (p.scaled sc) xh zh τ j * (1 / sc.d j) * (1 / τ) * (1 / sc.c))) :=
  ⟨fun i => primal_residual_unscale p sc xh sh τ (fun i => (he i).ne') hτ.ne' i,
   fun j => dual_residual_unscale p sc xh zh τ (fun j => (hd j).ne') hc.ne' hτ.ne' j⟩

/-- **[F] `C01.residual_norms`.**  The squared numerators of `res_primal` / `res_dual` as
`Info.update` forms them (`‖E⁻¹r̂z‖²τ⁻²`, `‖D⁻¹r̂x‖²τ⁻²c⁻²`) are the squared 2-norms of the
user-space residuals of the returned point; likewise the variable norms. -/
theorem residual_norms (p : Problem α n m) (sc : Scaling α n m)
    (xh : Fin n → α) (sh zh : Fin m → α) (τ : α)
    (hd : ∀ j, 0 < sc.d j) (he : ∀ i, 0 < sc.e i) (hc : 0 < sc.c) (hτ : 0 < τ) :
    sumsq (fun i => rz (p.scaled sc) xh sh τ i * (1 / sc.e i)) * ((1 / τ) * (1 / τ))
        = sumsq (fun i => mulV p.A (unX sc τ xh) i + unS sc τ sh i - p.b i)
    ∧ sumsq (fun j => rx (p.scaled sc) xh zh τ j * (1 / sc.d j)) * ((1 / τ * (1 / sc.c)) * (1 / τ * (1 / sc.c)))
        = sumsq (fun j => mulV p.P (unX sc τ xh) j + mulVT p.A (unZ sc τ zh) j + p.q j)
    ∧ sumsq (fun j => xh j * sc.d j) * ((1 / τ) * (1 / τ)) = sumsq (unX sc τ xh)
    ∧ sumsq (fun i => sh i * (1 / sc.e i)) * ((1 / τ) * (1 / τ)) = sumsq (unS sc τ sh)
    ∧ sumsq (fun i => zh i * sc.e i) * ((1 / sc.c * (1 / τ)) * (1 / sc.c * (1 / τ))) = sumsq (unZ sc τ zh) := by
  obtain ⟨h1, h2⟩ := residual_unscale p sc xh sh zh τ hd he hc hτ
  refine ⟨?_, ?_, ?_, ?_, ?_⟩
  · rw [← sumsq_smul]; congr 1; funext i; rw [h1 i]
  · rw [← sumsq_smul]; unfold sumsq
    refine Finset.sum_congr rfl (fun j _ => ?_)
    beta_reduce
    rw [h2 j]; ring
  · rw [← sumsq_smul]; rfl
  · rw [← sumsq_smul]; rfl
  · rw [← sumsq_smul]; congr 1; funext i; unfold unZ; ring

/-- **[F] `C01.cost_unscale`.**  The numbers `Info.update` calls `cost_primal`, `cost_dual`
are `½xᵀPx + qᵀx` and `−bᵀz − ½xᵀPx` of the returned point; hence `gap_abs`, `gap_rel` are
the documented gap of the returned point. -/
theorem cost_unscale (p : Problem α n m) (sc : Scaling α n m)
    (xh : Fin n → α) (zh : Fin m → α) (τ : α) (hc : 0 < sc.c) (hτ : 0 < τ) :
    let dot_qx := dot (p.scaled sc).q xh
    let dot_bz := dot (p.scaled sc).b zh
    let dot_xPx := dot xh (mulV (p.scaled sc).P xh)
    let τinv := 1 / τ
    let cinv := 1 / sc.c
    let x := unX sc τ xh
    let z := unZ sc τ zh
    (dot_qx * τinv + dot_xPx * τinv * τinv / 2) * cinv = dot x (mulV p.P x) / 2 + dot p.q x
    ∧ (-dot_bz * τinv - dot_xPx * τinv * τinv / 2) * cinv = -dot p.b z - dot x (mulV p.P x) / 2 := by
  intro dot_qx dot_bz dot_xPx τinv cinv x z
  have h1 : dot_qx = sc.c * τ * dot p.q x := dot_qx_unscale p sc xh τ hτ.ne'
  have h2 : dot_bz = sc.c * τ * dot p.b z := dot_bz_unscale p sc zh τ hc.ne' hτ.ne'
  have h3 : dot_xPx = sc.c * (τ * τ) * dot x (mulV p.P x) := dot_xPx_unscale p sc xh τ hτ.ne'
  have hc' := hc.ne'
  have hτ' := hτ.ne'
  refine ⟨?_, ?_⟩
  · rw [h1, h3]; simp only [τinv, cinv]; field_simp; ring
  · rw [h2, h3]; simp only [τinv, cinv]; field_simp

/-- **[F] `C01.cone_membership` (nonnegative cone).**  Un-scaling by positive `e`, `c`, `τ`
keeps nonnegative entries nonnegative (primal and dual side). -/
theorem cone_membership_nonneg (sc : Scaling α n m) (sh zh : Fin m → α) (τ : α) (i : Fin m)
    (he : 0 < sc.e i) (hc : 0 < sc.c) (hτ : 0 < τ) (hs : 0 ≤ sh i) (hz : 0 ≤ zh i) :
    0 ≤ unS sc τ sh i ∧ 0 ≤ unZ sc τ zh i := by
  unfold unS unZ
  constructor <;> positivity

/-- second-order cone membership without square roots: `t ≥ 0` and `‖v‖² ≤ t²` -/
def InSOC {k : ℕ} (t : α) (v : Fin k → α) : Prop := 0 ≤ t ∧ sumsq v ≤ t * t

/-- **[F] `C01.cone_membership` (second-order cone).**  A second-order cone is invariant
under a positive *uniform* scaling — which is what un-scaling is on such a cone, `e` being
constant on every non-scalar cone (C10). -/
theorem cone_membership_soc {k : ℕ} (t : α) (v : Fin k → α) (lam : α) (hl : 0 < lam)
    (h : InSOC t v) : InSOC (t * lam) (fun i => v i * lam) := by
  obtain ⟨h0, h1⟩ := h
  refine ⟨by positivity, ?_⟩
  rw [sumsq_smul]
  have : sumsq v * (lam * lam) ≤ t * t * (lam * lam) :=
    mul_le_mul_of_nonneg_right h1 (by positivity)
  calc sumsq v * (lam * lam) ≤ t * t * (lam * lam) := this
    _ = t * lam * (t * lam) := by ring

/-- on a cone where `e` is the constant `e₀`, `unS`/`unZ` *are* uniform positive scalings -/
theorem unscale_uniform (sc : Scaling α n m) (sh zh : Fin m → α) (τ e₀ : α) (i : Fin m)
    (hi : sc.e i = e₀) :
    unS sc τ sh i = sh i * (1 / e₀ * (1 / τ)) ∧ unZ sc τ zh i = zh i * (e₀ * (1 / τ * (1 / sc.c))) := by
  unfold unS unZ
  rw [hi]
  constructor <;> ring

end field



section nonsymmetric
open Real

/-- interior of the exponential cone as `ExponentialCone::is_primal_feasible` tests it:
`y, z > 0` and `y·log(z/y) − x > 0` -/
def InExpInt (x y z : ℝ) : Prop := 0 < z ∧ 0 < y ∧ 0 < y * Real.log (z / y) - x

/-- interior of the dual exponential cone (`is_dual_feasible`): `w > 0`, `u < 0`,
`v − u − u·log(−w/u) > 0` -/
def InExpDualInt (u v w : ℝ) : Prop := 0 < w ∧ u < 0 ∧ 0 < v - u - u * Real.log (-w / u)

/-- interior of the power cone (`PowerCone::is_primal_feasible`):
`x, y > 0`, `exp(2a·log x + 2(1−a)·log y) − z² > 0` -/
def InPowInt (a x y z : ℝ) : Prop :=
  0 < x ∧ 0 < y ∧ 0 < Real.exp (2 * a * Real.log x + 2 * (1 - a) * Real.log y) - z * z

/-- interior of the dual power cone (`is_dual_feasible`) -/
def InPowDualInt (a u v w : ℝ) : Prop :=
  0 < u ∧ 0 < v
    ∧ 0 < Real.exp (a * 2 * Real.log (u / a) + (1 - a) * Real.log (v / (1 - a)) * 2) - w * w

/-- **[R] `C01.cone_membership` (exponential cone).**  The exponential cone and its dual are
invariant under a positive uniform scaling — which is what `unscale` applies on such a cone
(`unscale_uniform`; `e` is constant on every 3-dimensional cone, C10). -/
theorem cone_membership_exp (x y z k : ℝ) (hk : 0 < k) :
    (InExpInt x y z → InExpInt (x * k) (y * k) (z * k))
    ∧ (InExpDualInt x y z → InExpDualInt (x * k) (y * k) (z * k)) := by
  constructor
  · rintro ⟨hz, hy, h⟩
    refine ⟨by positivity, by positivity, ?_⟩
    have e : z * k / (y * k) = z / y := by field_simp
    rw [e]
    have : y * k * Real.log (z / y) - x * k = (y * Real.log (z / y) - x) * k := by ring
    rw [this]
    positivity
  · rintro ⟨hw, hu, h⟩
    refine ⟨by positivity, by nlinarith, ?_⟩
    have hu' : x ≠ 0 := hu.ne
    have e : -(z * k) / (x * k) = -z / x := by field_simp
    rw [e]
    have : y * k - x * k - x * k * Real.log (-z / x) = (y - x - x * Real.log (-z / x)) * k := by ring
    rw [this]
    positivity

/-- **[R] `C01.cone_membership` (power cone).**  The power cone `K_a` and its dual are
invariant under a positive uniform scaling (the left-hand side is homogeneous of degree 2,
as is `z²`). -/
theorem cone_membership_pow (a x y z k : ℝ) (hk : 0 < k) :
    (InPowInt a x y z → InPowInt a (x * k) (y * k) (z * k))
    ∧ (InPowDualInt a x y z → InPowDualInt a (x * k) (y * k) (z * k)) := by
  have hk2 : Real.exp (2 * Real.log k) = k * k := by
    rw [two_mul, Real.exp_add, Real.exp_log hk]
  constructor
  · rintro ⟨hx, hy, h⟩
    refine ⟨by positivity, by positivity, ?_⟩
    rw [Real.log_mul hx.ne' hk.ne', Real.log_mul hy.ne' hk.ne']
    have e : 2 * a * (Real.log x + Real.log k) + 2 * (1 - a) * (Real.log y + Real.log k)
        = (2 * a * Real.log x + 2 * (1 - a) * Real.log y) + 2 * Real.log k := by ring
    rw [e, Real.exp_add, hk2]
    have : Real.exp (2 * a * Real.log x + 2 * (1 - a) * Real.log y) * (k * k) - z * k * (z * k)
        = (Real.exp (2 * a * Real.log x + 2 * (1 - a) * Real.log y) - z * z) * (k * k) := by ring
    rw [this]
    positivity
  · rintro ⟨hu, hv, h⟩
    refine ⟨by positivity, by positivity, ?_⟩
    by_cases ha : a = 0
    · -- `log (u/0) = log 0 = 0`: the first factor is constant; handled by the general algebra below
      subst ha
      simp only [zero_mul, div_zero, Real.log_zero, mul_zero, zero_add, sub_zero, div_one, one_mul] at h ⊢
      rw [Real.log_mul hv.ne' hk.ne']
      have e : (Real.log y + Real.log k) * 2 = Real.log y * 2 + 2 * Real.log k := by ring
      rw [e, Real.exp_add, hk2]
      have : Real.exp (Real.log y * 2) * (k * k) - z * k * (z * k)
          = (Real.exp (Real.log y * 2) - z * z) * (k * k) := by ring
      rw [this]
      positivity
    · by_cases ha1 : 1 - a = 0
      · have ha' : a = 1 := by linarith
        subst ha'
        simp only [sub_self, zero_mul, div_zero, Real.log_zero, mul_zero, add_zero, div_one, one_mul] at h ⊢
        rw [Real.log_mul hu.ne' hk.ne']
        have e : 2 * (Real.log x + Real.log k) = 2 * Real.log x + 2 * Real.log k := by ring
        rw [e, Real.exp_add, hk2]
        have : Real.exp (2 * Real.log x) * (k * k) - z * k * (z * k)
            = (Real.exp (2 * Real.log x) - z * z) * (k * k) := by ring
        rw [this]
        positivity
      · have e1 : x * k / a = x / a * k := by ring
        have e2 : y * k / (1 - a) = y / (1 - a) * k := by ring
        have hxa : x / a ≠ 0 := div_ne_zero hu.ne' ha
        have hya : y / (1 - a) ≠ 0 := div_ne_zero hv.ne' ha1
        rw [e1, e2, Real.log_mul hxa hk.ne', Real.log_mul hya hk.ne']
        have e : a * 2 * (Real.log (x / a) + Real.log k) + (1 - a) * (Real.log (y / (1 - a)) + Real.log k) * 2
            = (a * 2 * Real.log (x / a) + (1 - a) * Real.log (y / (1 - a)) * 2) + 2 * Real.log k := by ring
        rw [e, Real.exp_add, hk2]
        have : Real.exp (a * 2 * Real.log (x / a) + (1 - a) * Real.log (y / (1 - a)) * 2) * (k * k) - z * k * (z * k)
            = (Real.exp (a * 2 * Real.log (x / a) + (1 - a) * Real.log (y / (1 - a)) * 2) - z * z) * (k * k) := by ring
        rw [this]
        positivity

end nonsymmetric

section structural
variable {α : Type} [Mul α] [Div α] [Neg α] [OfNat α 1] [OfNat α 100] [OfNat α 1000]
  [LT α] [DecidableLT α] [LE α] [DecidableLE α]

/-- **[S] `C01.solved_implies_test`** (any scalar type, `Float` included).  If
`check_convergence_full` turns a non-`Solved` status into `Solved`, then `ktratio ≤ 1` and
the three documented inequalities hold on the `info` fields, and nothing but the status
field was modified. -/
theorem solved_implies_test (i : InfoS α) (bz qx : α) (s : Settings α)
    (h0 : i.status ≠ .solved)
    (h : (checkConvergenceFull i bz qx s).status = .solved) :
    i.ktratio ≤ 1
    ∧ (i.gap_abs < s.full.gap_abs ∨ i.gap_rel < s.full.gap_rel)
    ∧ i.res_primal < s.full.feas ∧ i.res_dual < s.full.feas
    ∧ checkConvergenceFull i bz qx s = { i with status := .solved } := by
  unfold checkConvergenceFull at h ⊢
  rcases checkConvergence_cases i bz qx s.full .solved .primalInfeasible .dualInfeasible with
    hc | hc | hc | hc
  · obtain ⟨e, hk, hs⟩ := hc
    have := (isSolved_iff i _ _ _).mp hs
    exact ⟨hk, this.1, this.2.1, this.2.2, e⟩
  · rw [hc.1] at h; cases h
  · rw [hc.1] at h; cases h
  · rw [hc] at h; exact absurd h h0

/-- **[S]** the same through `check_termination`: a pass that starts `Unsolved` and reports
`Solved` has passed the test (the later branches only overwrite `Unsolved`). -/
theorem termination_solved_implies_test [FloatLike α] (i : InfoS α) (bz qx : α) (s : Settings α)
    (iter : Nat) (tov : Bool) (h0 : i.status = .unsolved)
    (h : (checkTermination i bz qx s iter tov).1.status = .solved) :
    i.ktratio ≤ 1
    ∧ (i.gap_abs < s.full.gap_abs ∨ i.gap_rel < s.full.gap_rel)
    ∧ i.res_primal < s.full.feas ∧ i.res_dual < s.full.feas := by
  have key : (checkConvergenceFull i bz qx s).status = .solved := by
    unfold checkTermination at h
    simp only at h
    generalize checkConvergenceFull i bz qx s = j at h ⊢
    by_contra hj
    repeat' split at h
    all_goals first
      | exact hj h
      | (simp only at h; cases h)
  have := solved_implies_test i bz qx s (by rw [h0]; decide) key
  exact ⟨this.1, this.2.1, this.2.2.1, this.2.2.2.1⟩

/-- **[S]** `Solution.post_process` copies the verdict and the residual figures of `info`
unchanged into the solution (no path modifies them). -/
theorem post_process_copies {β : Type} [Mul β] [Div β] [OfNat β 0] [OfNat β 1]
    (sol : Unscale.Solution β) (eq : Equil β) (pm : Option (Unscale.PresolveMap β))
    (v : Residuals.Vars β) (i : InfoS β) (r : Unscale.Solution β × Residuals.Vars β)
    (h : Unscale.postProcess sol eq pm v i = .ok r) :
    r.1.status = i.status ∧ r.1.iterations = i.iterations
    ∧ r.1.r_prim = some i.res_primal ∧ r.1.r_dual = some i.res_dual
    ∧ r.2 = Unscale.unscale v eq i.status.isInfeasible := by
  unfold Unscale.postProcess at h
  cases pm with
  | some p =>
    simp only [bind, Except.bind, pure, Except.pure] at h
    split at h
    · cases h
    · rename_i sol' hs
      unfold Unscale.reversePresolve at hs
      simp only [bind, Except.bind, pure, Except.pure] at hs
      split at hs
      · cases hs
      · split at hs
        · cases hs
        · cases hs; cases h; exact ⟨rfl, rfl, rfl, rfl, rfl⟩
  | none =>
    simp only [bind, Except.bind, pure, Except.pure] at h
    repeat' split at h
    all_goals first | (cases h; exact ⟨rfl, rfl, rfl, rfl, rfl⟩) | cases h

/-- **[S] `C01.presolve_transparent`** (any scalar type).  `reverse_presolve` puts the
entries of the reduced `s`, `z` back at the indices of the kept rows, in order
(`rank keep k` = number of kept rows before `k`), writes `s = infbound`, `z = 0` on the
dropped rows, and copies `x`. -/
theorem presolve_transparent {β : Type} [OfNat β 0] (p : Unscale.PresolveMap β)
    (sol : Unscale.Solution β) (v : Residuals.Vars β) (r : Unscale.Solution β)
    (h : Unscale.reversePresolve p sol v = .ok r) :
    r.x = v.x
    ∧ ∀ k, (hk : k < p.keep.toList.length) →
        (p.keep.toList[k] = true →
            r.s[k]? = v.s[Unscale.rank p.keep.toList k]? ∧ r.z[k]? = v.z[Unscale.rank p.keep.toList k]?
            ∧ (v.s[Unscale.rank p.keep.toList k]?).isSome ∧ (v.z[Unscale.rank p.keep.toList k]?).isSome)
        ∧ (p.keep.toList[k] = false → r.s[k]? = some p.infbound ∧ r.z[k]? = some 0) := by
  unfold Unscale.reversePresolve at h
  simp only [bind, Except.bind, pure, Except.pure] at h
  split at h
  · cases h
  · rename_i x' hx
    split at h
    · cases h
    · rename_i sz hsz
      obtain ⟨s', z'⟩ := sz
      have hxe : x' = v.x := by
        unfold Unscale.copyFrom at hx
        split at hx
        · cases hx
        · cases hx; rfl
      obtain ⟨_, hB⟩ := Unscale.reverseLoop_spec _ _ _ _ _ _ _ _ _ _ hsz
      cases h
      refine ⟨hxe, fun k hk => ?_⟩
      have := hB k hk
      simpa using this

end structural

section certificate
variable {n m : ℕ}

/-- **[F] `C01.certificate`** (over `ℝ`, exact arithmetic) — the property in one statement.
Let `info` carry the values `Info.update` assigns for the internal iterate `(x̂, ŝ, ẑ, τ)`
of the equilibrated problem `(cDPD, cDq, EAD, Eb)` (`update_assigns`: these are the assigned
expressions), with `normb`, `normq` the cached `‖b‖∞`, `‖q‖∞`.  If `check_convergence_full`
turns a non-`Solved` status into `Solved`, then the point `(x, s, z)` that `unscale` returns
satisfies the documented termination test **on the user's data**:
`‖Ax+s−b‖₂ / max(1, ‖b‖∞+‖x‖₂+‖s‖₂) < tol_feas`,
`‖Px+Aᵀz+q‖₂ / max(1, ‖q‖∞+‖x‖₂+‖z‖₂) < tol_feas`, and for `p = ½xᵀPx+qᵀx`,
`d = −bᵀz−½xᵀPx`: `|p−d| < tol_gap_abs` or `|p−d| / max(1, min(|p|,|d|)) < tol_gap_rel`. -/
theorem certificate (p : Problem ℝ n m) (sc : Scaling ℝ n m)
    (xh : Fin n → ℝ) (sh zh : Fin m → ℝ) (τ normb normq : ℝ)
    (hd : ∀ j, 0 < sc.d j) (he : ∀ i, 0 < sc.e i) (hc : 0 < sc.c) (hτ : 0 < τ)
    (i : InfoS ℝ) (bz qx : ℝ) (s : Settings ℝ)
    (hrp : i.res_primal = resPrimal p sc xh sh τ normb)
    (hrd : i.res_dual = resDual p sc xh zh τ normq)
    (hcp : i.cost_primal = costPrimal p sc xh τ)
    (hcd : i.cost_dual = costDual p sc xh zh τ)
    (hga : i.gap_abs = |i.cost_primal - i.cost_dual|)
    (hgr : i.gap_rel = i.gap_abs / max 1 (min |i.cost_primal| |i.cost_dual|))
    (h0 : i.status ≠ .solved)
    (h : (checkConvergenceFull i bz qx s).status = .solved) :
    let x := unX sc τ xh
    let sv := unS sc τ sh
    let z := unZ sc τ zh
    let pobj := dot x (mulV p.P x) / 2 + dot p.q x
    let dobj := -dot p.b z - dot x (mulV p.P x) / 2
    nrm (fun i => mulV p.A x i + sv i - p.b i) / max 1 (normb + nrm x + nrm sv) < s.full.feas
    ∧ nrm (fun j => mulV p.P x j + mulVT p.A z j + p.q j) / max 1 (normq + nrm x + nrm z) < s.full.feas
    ∧ (|pobj - dobj| < s.full.gap_abs
        ∨ |pobj - dobj| / max 1 (min |pobj| |dobj|) < s.full.gap_rel) := by
  intro x sv z pobj dobj
  obtain ⟨_, hgap, hp, hdl, _⟩ := solved_implies_test i bz qx s h0 h
  obtain ⟨e1, e2⟩ := res_identities p sc xh sh zh τ normb normq hd he hc hτ
  obtain ⟨c1, c2⟩ := cost_identities p sc xh zh τ hc.ne' hτ.ne'
  rw [hrp, e1] at hp
  rw [hrd, e2] at hdl
  rw [hcp, c1, hcd, c2] at hga hgr
  rw [hgr, hga] at hgap
  exact ⟨hp, hdl, hgap⟩

end certificate


/-! ## Round 3 — end to end on the USER's data, all seven cone kinds, presolve -/

section endtoend
open Clarabel.InfoUser Clarabel.Residuals

/-- **[R] `C01.residuals_update_dense`** — `DefaultResiduals::update` computes the dense
residuals (imports C16).  On canonical CSC `P` (n×n, one triangle), `A` (m×n) and vectors /
buffers of the lengths `DefaultSolver::new` allocates, `Residuals.update` (the model tied
bit-for-bit to the Rust code by the channel `residuals.update`) does not panic, and what it
returns is — read as functions on `Fin n`, `Fin m` — `rx = −Aᵀz − Px − τq`, `rz = Ax + s − τb`,
`rx_inf = −Aᵀz`, `rz_inf = Ax + s`, `Px`, `qᵀx`, `bᵀz`, `xᵀPx` of the dense problem the CSC
data mean (`P` standing for the symmetric matrix whose triangle it holds).  The imperative
kernels of `Residuals.lean` are identified with C16's (`update_eq_updateK`), whose dense
meaning is `C16.symv_spec`, `C16.gemvT_spec`, `C16.gemvN_spec`. -/
theorem residuals_update_dense (r0 : Resid ℝ) (v : Vars ℝ) (P A : Csc ℝ) (q b : Array ℝ) (n m : ℕ)
    (hP : C16.Canonical P) (hA : C16.Canonical A)
    (hPn : P.n = n) (hPm : P.m = n) (hAn : A.n = n) (hAm : A.m = m)
    (hq : q.size = n) (hb : b.size = m) (hsh : StateShapes n m v r0) :
    ∃ r, Residuals.update r0 v { P := P, q := q, A := A, b := b } = .ok r
      ∧ vecFn r.rx n = rx (problemOf P q A b n m) (vecFn v.x n) (vecFn v.z m) v.τ
      ∧ vecFn r.rz m = rz (problemOf P q A b n m) (vecFn v.x n) (vecFn v.s m) v.τ
      ∧ vecFn r.rx_inf n = rxInf (problemOf P q A b n m) (vecFn v.z m)
      ∧ vecFn r.rz_inf m = rzInf (problemOf P q A b n m) (vecFn v.x n) (vecFn v.s m)
      ∧ vecFn r.Px n = mulV (problemOf P q A b n m).P (vecFn v.x n)
      ∧ r.dot_qx = dot (problemOf P q A b n m).q (vecFn v.x n)
      ∧ r.dot_bz = dot (problemOf P q A b n m).b (vecFn v.z m)
      ∧ r.dot_xPx = dot (vecFn v.x n) (mulV (problemOf P q A b n m).P (vecFn v.x n)) := by
  obtain ⟨r, hr, -, -, -, -, -, b1, b2, b3, b4, b5, b6, b7, b8⟩ :=
    updateK_dense r0 v P A q b n m hP hA hPn hPm hAn hAm hq hb hsh.x hsh.s hsh.z hsh.Px hsh.rx
      hsh.rz hsh.rxi hsh.rzi
  have hbridge := Residuals.update_eq_updateK r0 v { P := P, q := q, A := A, b := b } hP hA
    (by show P.m = P.n; rw [hPm, hPn]) (by show v.x.size = P.n; rw [hsh.x, hPn])
    (by show v.x.size = A.n; rw [hsh.x, hAn]) (by show v.z.size = A.m; rw [hsh.z, hAm])
    (by show v.s.size = A.m; rw [hsh.s, hAm]) (by show r0.Px.size = P.n; rw [hsh.Px, hPn])
    (by show r0.rx_inf.size = A.n; rw [hsh.rxi, hAn])
  exact ⟨r, by rw [hbridge]; exact hr, b1, b2, b3, b4, b5, b6, b7, b8⟩

/-- **[R] `C01.solved_certifies_user_problem`** — the property, end to end, with no assumed
relation left between internal and user data.

Let `dt` be the problem data as `DefaultProblemData::new` leaves them (`UserData`: fresh
equilibration record, consistent shapes, `P`, `A` canonical CSC, cone list covering the `m`
rows, positive scaling bounds), let `dt'` be what the model's own `Equil.equilibrate` returns
for them, `r` what `Residuals.update` returns for an iterate `v` (`τ > 0`) on the INTERNAL
data `dt'`, `info'` what `Info.update` assigns from `r`, `v` and `dt'.equilibration`.  If
`check_convergence_full` then turns a non-`Solved` status into `Solved`, the point
`(x, s, z)` that `Variables.unscale` returns satisfies the documented termination test on the
USER's data `P, q, A, b` (dense meaning of `dt.P` — the symmetric matrix whose triangle it
holds —, `dt.q`, `dt.A`, `dt.b`):
`‖Ax+s−b‖₂ / max(1, normb+‖x‖₂+‖s‖₂) < tol_feas`,
`‖Px+Aᵀz+q‖₂ / max(1, normq+‖x‖₂+‖z‖₂) < tol_feas`, and with `p = ½xᵀPx+qᵀx`,
`d = −bᵀz−½xᵀPx`: `|p−d| < tol_gap_abs` or `|p−d| / max(1, min(|p|,|d|)) < tol_gap_rel`;
and `|x| = n`, `|s| = |z| = m`.

Composition of `C10.scaled_data` / `inverse_scalings` / `scalings_positive` (equilibration is
the exact change of variables `cDPD, cDq, EAD, Eb` with positive `d, e, c`),
`C16.symv_spec` / `gemvT_spec` / `gemvN_spec` (sparse kernels = dense products),
`residual_unscale` / `cost_unscale` and `solved_implies_test`.  `normb`, `normq` are the
numbers handed to `Info.update` (the cached `‖b‖∞`, `‖q‖∞`). -/
theorem solved_certifies_user_problem (dt dt' : ProblemData ℝ) (cones : List (ConeT ℝ))
    (es : Equil.Settings ℝ) (hu : UserData dt cones es)
    (heq : Equil.equilibrate dt cones es = .ok dt')
    (v : Vars ℝ) (r0 r : Resid ℝ) (hsh : StateShapes dt.n dt.m v r0) (hτ : 0 < v.τ)
    (hr : Residuals.update r0 v (toResidData dt') = .ok r)
    (i i' : InfoS ℝ) (normq normb : ℝ)
    (hi : Info.update i (toInfoEquil dt'.equilibration) normq normb v r = .ok i')
    (s : Settings ℝ) (h0 : i'.status ≠ .solved)
    (h : (checkConvergenceFull i' r.dot_bz r.dot_qx s).status = .solved) :
    let out := Unscale.unscale v (toInfoEquil dt'.equilibration) false
    let p := problemOf dt.P dt.q dt.A dt.b dt.n dt.m
    let x := vecFn out.x dt.n
    let sv := vecFn out.s dt.m
    let z := vecFn out.z dt.m
    let pobj := dot x (mulV p.P x) / 2 + dot p.q x
    let dobj := -dot p.b z - dot x (mulV p.P x) / 2
    nrm (fun i => mulV p.A x i + sv i - p.b i) / max 1 (normb + nrm x + nrm sv) < s.full.feas
    ∧ nrm (fun j => mulV p.P x j + mulVT p.A z j + p.q j) / max 1 (normq + nrm x + nrm z) < s.full.feas
    ∧ (|pobj - dobj| < s.full.gap_abs
        ∨ |pobj - dobj| / max 1 (min |pobj| |dobj|) < s.full.gap_rel)
    ∧ out.x.size = dt.n ∧ out.s.size = dt.m ∧ out.z.size = dt.m :=
  solved_chain dt dt' cones es hu heq v r0 r hsh hτ hr i i' normq normb hi s h0 h

/-- **[R] `C01.cone_membership` (generalised power cone)** — the model's own feasibility tests
`GenPowerCone::is_primal_feasible` / `is_dual_feasible` are invariant under the positive
uniform scaling `unscale` applies on such a cone (`unscale_uniform`; `αᵢ > 0`, `Σαᵢ = 1` as the
constructor asserts).  Uses C14's characterisation of the tests (`NonsymGenPow.lean`). -/
theorem cone_membership_genpow (al seg : Array ℝ) (k : ℝ) (hk : 0 < k)
    (ha : GenPow.AllPos al.toList) (hsum : al.toList.sum = 1) :
    (GenPow.isPrimalFeasible al seg = .ok true → GenPow.isPrimalFeasible al (Vec.scale seg k) = .ok true)
    ∧ (GenPow.isDualFeasible al seg = .ok true → GenPow.isDualFeasible al (Vec.scale seg k) = .ok true) :=
  ⟨(InfoCone.genpow_isPrimalFeasible_scale_vec al seg k hk hsum).mpr,
   (InfoCone.genpow_isDualFeasible_scale_vec al seg k hk ha hsum).mpr⟩

/-- **[R] `C01.cone_membership` (PSD cone, svec form)** — stated on the quadratic form
`vᵀ mat(x) v` with `mat = svec_to_mat` (C13, `ConesPsdSvec.lean`): positive semidefiniteness
and positive definiteness of `mat(x)` are invariant under the positive uniform scaling
`unscale` applies on the cone's segment.  The cone is self-dual: the same statement serves `z`. -/
theorem cone_membership_psd (n : ℕ) (seg : Array ℝ) (k : ℝ) (hk : 0 < k) :
    (InfoCone.PsdSvec n seg → InfoCone.PsdSvec n (Vec.scale seg k))
    ∧ (InfoCone.PdSvec n seg → InfoCone.PdSvec n (Vec.scale seg k)) :=
  ⟨(InfoCone.psd_scale_vec n seg k hk).mpr, (InfoCone.pd_scale_vec n seg k hk).mpr⟩

/-- **[R] `C01.returned_point_in_cones`** — `s ∈ K`, `z ∈ K*` for the returned point, ALL
SEVEN cone kinds in one statement.  For the scalings the model's own `equilibrate` returns
(`e` is uniform on every non-scalar cone: C10's `uniformOn_equilibrate`) and a cone list with
admissible parameters: if the internal iterate has `ŝ ∈ K`, `ẑ ∈ K*` (product cone cut
along the cone list as `rng_cones` does; per cone the model's own `is_primal_feasible` /
`is_dual_feasible` for exp / pow / genpow, `‖v‖² ≤ t², t ≥ 0` for the second-order cone,
`vᵀ mat(s) v ≥ 0 ∀v` for the PSD triangle, entrywise for zero / nonnegative), then so has the
τ-normalised point `unscale` returns. -/
theorem returned_point_in_cones (dt dt' : ProblemData ℝ) (cones : List (ConeT ℝ))
    (es : Equil.Settings ℝ) (hlo : 0 < es.minScaling) (hhi : 0 < es.maxScaling)
    (hfresh : dt.equilibration = EquilData.new dt.n dt.m) (hv : Equil.ValidCones cones)
    (heq : Equil.equilibrate dt cones es = .ok dt')
    (v : Vars ℝ) (hs : v.s.size = dt.m) (hz : v.z.size = dt.m) (hτ : 0 < v.τ)
    (hsK : Equil.CompositeMem Equil.ConeMem cones v.s.toList)
    (hzK : Equil.CompositeMem Equil.ConeMemDual cones v.z.toList) :
    let out := Unscale.unscale v (toInfoEquil dt'.equilibration) false
    Equil.CompositeMem Equil.ConeMem cones out.s.toList
    ∧ Equil.CompositeMem Equil.ConeMemDual cones out.z.toList :=
  InfoCone.unscaled_point_in_cones dt dt' cones es hlo hhi hfresh hv heq v hs hz false
    (by simpa using hτ) hsK hzK

end endtoend

section presolved
open Clarabel.InfoUser Clarabel.InfoPresolve Clarabel.Residuals

/-- **[R] `C01.solved_certifies_user_problem_presolved`** — rows dropped by presolve, excepted
exactly as the property says.  Let `A` (canonical, `m × n`), `b` be the user's constraint data,
`keepL` the presolver's `keep_logical`, `A' = A.select_rows(keep)` and `b' = b.select(keep)`
the reduced data the solver works on (`Presolver::reduce_A_b`), `vout` the un-scaled point of
the REDUCED problem and `r` what the model's `reverse_presolve` returns for it.  If `vout`
passes the documented termination test on the reduced data `(P, q, A', b')` — the conclusion
of `solved_certifies_user_problem` for the reduced problem — then the returned full-length
`(x, s, z)` satisfies on the user's FULL data `(P, q, A, b)`:
* the dual residual test verbatim (`z = 0` on dropped rows makes `Aᵀz = A'ᵀz'`, `‖z‖ = ‖z'‖`);
* the gap test verbatim (`bᵀz = b'ᵀz'`);
* the primal residual test with the residual norm and `‖s‖` taken over the KEPT rows;
* on every dropped row `s = infbound`, `z = 0`.
Composes `presolve_transparent` (the model's reversal), C09's `reduced_problem_dense`
(rows of `A'` are the kept rows of `A`, imports `C16.selectRows_spec`) and
`InfoPresolve.solved_full_problem`.  (`b'` is `select(b, keep)`; the additional cap
`min(·, infbound)` of the internal `b` is C09's `cap` and changes no kept row of a
nonnegative cone.) -/
theorem solved_certifies_user_problem_presolved {n m mr : ℕ} (keepL : List Bool)
    (hm : keepL.length = m) (hmr : keepL.count true = mr)
    (P : Fin n → Fin n → ℝ) (q : Fin n → ℝ)
    (A A' : Csc ℝ) (b : Array ℝ) (hAc : C16.Canonical A) (hAm : A.m = m) (hAn : A.n = n)
    (hb : b.size = m) (hsel : A.selectRows keepL.toArray = .ok A')
    (infbound : ℝ) (sol r : Unscale.Solution ℝ) (vout : Vars ℝ)
    (hrev : Unscale.reversePresolve { keep := keepL.toArray, infbound := infbound } sol vout = .ok r)
    (normb normq tolFeas tolGapAbs tolGapRel : ℝ)
    (hprim : nrm (fun k => mulV (matFn A' mr n) (vecFn vout.x n) k + vecFn vout.s mr k
                  - vecFn (Vec.select b keepL.toArray) mr k)
              / max 1 (normb + nrm (vecFn vout.x n) + nrm (vecFn vout.s mr)) < tolFeas)
    (hdual : nrm (fun j => mulV P (vecFn vout.x n) j + mulVT (matFn A' mr n) (vecFn vout.z mr) j + q j)
              / max 1 (normq + nrm (vecFn vout.x n) + nrm (vecFn vout.z mr)) < tolFeas)
    (hgap :
      let pobj := dot (vecFn vout.x n) (mulV P (vecFn vout.x n)) / 2 + dot q (vecFn vout.x n)
      let dobj := -dot (vecFn (Vec.select b keepL.toArray) mr) (vecFn vout.z mr)
                    - dot (vecFn vout.x n) (mulV P (vecFn vout.x n)) / 2
      |pobj - dobj| < tolGapAbs ∨ |pobj - dobj| / max 1 (min |pobj| |dobj|) < tolGapRel) :
    let x := vecFn r.x n
    let s := vecFn r.s m
    let z := vecFn r.z m
    let keep := keepFn keepL m
    let pobj := dot x (mulV P x) / 2 + dot q x
    let dobj := -dot (vecFn b m) z - dot x (mulV P x) / 2
    nrmKept keep (fun i => mulV (matFn A m n) x i + s i - vecFn b m i)
        / max 1 (normb + nrm x + nrmKept keep s) < tolFeas
    ∧ nrm (fun j => mulV P x j + mulVT (matFn A m n) z j + q j) / max 1 (normq + nrm x + nrm z) < tolFeas
    ∧ (|pobj - dobj| < tolGapAbs ∨ |pobj - dobj| / max 1 (min |pobj| |dobj|) < tolGapRel)
    ∧ ∀ i, keep i = false → s i = infbound ∧ z i = 0 := by
  obtain ⟨hx, hfacts⟩ := presolve_transparent _ sol vout r hrev
  have hfacts' : ∀ k, (hk : k < keepL.length) →
      (keepL[k] = true →
          r.s[k]? = vout.s[Unscale.rank keepL k]? ∧ r.z[k]? = vout.z[Unscale.rank keepL k]?
          ∧ (vout.s[Unscale.rank keepL k]?).isSome ∧ (vout.z[Unscale.rank keepL k]?).isSome)
      ∧ (keepL[k] = false → r.s[k]? = some infbound ∧ r.z[k]? = some 0) := by
    intro k hk
    have := hfacts k (by simpa using hk)
    simpa using this
  obtain ⟨hdrop, hkept⟩ := reversal_fn_facts_of_transparent keepL hm hmr infbound r.s r.z vout.s vout.z hfacts'
  obtain ⟨A'', hsel', -, -, -, hdense, -⟩ := C09.reduced_problem_dense A keepL hAc (by rw [hm, hAm])
  have hA'' : A'' = A' := by rw [hsel'] at hsel; exact Except.ok.inj hsel
  subst hA''
  have hA' := matFn_reduced (n := n) keepL hm hmr A A'' hAm hAn hdense
  have hb' := vecFn_select keepL hm hmr b hb
  rw [hx]
  exact solved_full_problem (embFin keepL hm hmr) (keepFn keepL m) (embFin_injective keepL hm hmr)
    (embFin_keep_iff keepL hm hmr) P q (matFn A m n) (vecFn b m) (vecFn r.s m) (vecFn r.z m)
    (matFn A'' mr n)
    (vecFn (Vec.select b keepL.toArray) mr) (vecFn vout.s mr) (vecFn vout.z mr)
    hA' hb' (fun k => (hkept k).1) (fun k => (hkept k).2) infbound hdrop (vecFn vout.x n)
    normb normq tolFeas tolGapAbs tolGapRel hprim hdual hgap

end presolved

/-! ### non-vacuity -/

/-- a 2×2 LP over `ℚ` with non-trivial `d, e, c, τ`: the hypotheses of `residual_unscale`
are satisfiable and the identity is a concrete equation -/
example :
    let p : Problem ℚ 2 2 := { P := fun _ _ => 0, q := ![1, -2], A := ![![1, 2], ![0, 3]], b := ![4, 5] }
    let sc : Scaling ℚ 2 2 := { d := ![2, 1/3], e := ![1/2, 4], c := 3 }
    (∀ j, 0 < sc.d j) ∧ (∀ i, 0 < sc.e i) ∧ 0 < sc.c ∧ (0:ℚ) < 5/7
      ∧ mulV p.A (unX sc (5/7) ![1, 2]) 0 + unS sc (5/7) ![3, 1] 0 - p.b 0 = 136/15 := by
  intro p sc
  refine ⟨?_, ?_, by norm_num [sc], by norm_num, ?_⟩
  · intro j; fin_cases j <;> norm_num [sc]
  · intro i; fin_cases i <;> norm_num [sc]
  · norm_num [p, sc, mulV, unX, unS, Fin.sum_univ_two]

/-- witness data for the non-vacuity example below -/
def exInfo : InfoS ℚ :=
  { cost_primal := 1, cost_dual := 1, res_primal := 0, res_dual := 0, res_primal_inf := 1,
    res_dual_inf := 1, gap_abs := 0, gap_rel := 0, ktratio := 1/2, prev_cost_primal := 0,
    prev_cost_dual := 0, prev_res_primal := 0, prev_res_dual := 0, prev_gap_abs := 0,
    prev_gap_rel := 0, iterations := 3, status := .unsolved }
/-- witness tolerances -/
def exTols : Tols ℚ :=
  { gap_abs := 1/100, gap_rel := 1/100, feas := 1/100, infeas_abs := 1/100, infeas_rel := 1/100,
    ktratio := 1/1000 }

/-- `solved_implies_test` is not vacuous: an `info` over `ℚ` that `check_convergence_full`
declares `Solved` -/
example : (checkConvergenceFull exInfo 0 0 { full := exTols, reduced := exTols, max_iter := 10 }).status
    = .solved := by
  norm_num [checkConvergenceFull, checkConvergence, isSolved, exInfo, exTols]

/-- the exponential-cone predicates are inhabited: `(0, 1, 2)` (since `log 2 > 0`) and
`(-1, 0, 1)` (since `0 + 1 + log 1 = 1 > 0`) -/
example : InExpInt 0 1 2 ∧ InExpDualInt (-1) 0 1 := by
  constructor
  · refine ⟨by norm_num, by norm_num, ?_⟩
    have : 0 < Real.log 2 := Real.log_pos (by norm_num)
    simpa using this
  · refine ⟨by norm_num, by norm_num, ?_⟩
    norm_num

/-- the power-cone predicate is inhabited: `(1, 1, 0)` for any `a` -/
example (a : ℝ) : InPowInt a 1 1 0 := by
  refine ⟨by norm_num, by norm_num, ?_⟩
  simp

/-- `InSOC` is inhabited by a non-trivial point -/
example : InSOC (5:ℚ) ![3, 4] := by
  constructor
  · norm_num
  · norm_num [sumsq, Fin.sum_univ_two]


/-- witness for `certificate`: the zero 1×1 problem, identity scaling, zero iterate, τ = 1 -/
noncomputable def zP : Problem ℝ 1 1 := { P := fun _ _ => 0, q := fun _ => 0, A := fun _ _ => 0, b := fun _ => 0 }
noncomputable def oSc : Scaling ℝ 1 1 := { d := fun _ => 1, e := fun _ => 1, c := 1 }
noncomputable def cInfo : InfoS ℝ :=
  { cost_primal := costPrimal zP oSc (fun _ => 0) 1, cost_dual := costDual zP oSc (fun _ => 0) (fun _ => 0) 1,
    res_primal := resPrimal zP oSc (fun _ => 0) (fun _ => 0) 1 0,
    res_dual := resDual zP oSc (fun _ => 0) (fun _ => 0) 1 0,
    res_primal_inf := 1, res_dual_inf := 1, gap_abs := 0, gap_rel := 0, ktratio := 0,
    prev_cost_primal := 0, prev_cost_dual := 0, prev_res_primal := 0, prev_res_dual := 0,
    prev_gap_abs := 0, prev_gap_rel := 0, iterations := 1, status := .unsolved }
noncomputable def cTols : Tols ℝ :=
  { gap_abs := 1, gap_rel := 1, feas := 1, infeas_abs := 1, infeas_rel := 1, ktratio := 1 }

/-- the hypotheses of `certificate` are satisfiable: `info` built from the assigned values
is declared `Solved` -/
example : (checkConvergenceFull cInfo 0 0 { full := cTols, reduced := cTols, max_iter := 5 }).status = .solved
    ∧ cInfo.gap_abs = |cInfo.cost_primal - cInfo.cost_dual| := by
  have h1 : cInfo.res_primal = 0 := by
    simp [cInfo, resPrimal, nrm, sumsq, rz, mulV, Problem.scaled, zP, oSc]
  have h2 : cInfo.res_dual = 0 := by
    simp [cInfo, resDual, nrm, sumsq, rx, mulV, mulVT, Problem.scaled, zP, oSc]
  have h3 : cInfo.cost_primal = 0 := by
    simp [cInfo, costPrimal, dot, mulV, Problem.scaled, zP, oSc]
  have h4 : cInfo.cost_dual = 0 := by
    simp [cInfo, costDual, dot, mulV, Problem.scaled, zP, oSc]
  constructor
  · unfold checkConvergenceFull checkConvergence isSolved
    rw [h1, h2]
    simp [cInfo, cTols]
  · rw [h3, h4]; simp [cInfo]

/-- witness `info` over `ℕ` (structural theorems hold for every scalar type) -/
def exInfoNat : InfoS Nat :=
  { cost_primal := 7, cost_dual := 6, res_primal := 1, res_dual := 2, res_primal_inf := 0,
    res_dual_inf := 0, gap_abs := 1, gap_rel := 1, ktratio := 0, prev_cost_primal := 0,
    prev_cost_dual := 0, prev_res_primal := 0, prev_res_dual := 0, prev_gap_abs := 0,
    prev_gap_rel := 0, iterations := 4, status := .primalInfeasible }

/-- `Solution.post_process` succeeds on a concrete input with a presolve map (3 rows, the
middle one dropped): the hypotheses `… = .ok r` of the structural theorems are satisfiable,
the objective is NaN (`none`) for the infeasible status, lengths are `1, 3, 3`. -/
example :
    (Unscale.postProcess (Unscale.Solution.new 1 3)
      { d := #[2], dinv := #[1], e := #[1, 3], einv := #[1, 1], c := 1 }
      (some { keep := #[true, false, true], infbound := 99 })
      { x := #[5], s := #[1, 2], z := #[3, 4], τ := 1, κ := 1 } exInfoNat).toOption.map
        (fun r => (r.1.x, r.1.s, r.1.z, r.1.obj_val, r.1.iterations))
    = some (#[10], #[1, 99, 2], #[3, 0, 12], none, 4) := by
  decide +kernel

section fromnew
open Clarabel.InfoUser Clarabel.Presolve Clarabel.Cones

/-- **[S] `C01.problemdata_new_supplies`** (imports `C09.problemdata_new_spec`) — what
`DefaultProblemData::new` supplies towards the hypotheses `UserData` of the end-to-end
theorems: for the record `d` it returns (canonical user `A` with `|b|` rows, cone list covering
them, square `P`), the equilibration data are fresh (`UserData.fresh`), `d.A` — the user's `A`
or its presolve reduction `A[keep,:]` — is canonical (`UserData.canA`), `d.q = q`, `d.n = A.n`,
and the (collapsed, possibly reduced) cone list covers the `d.m` rows (`UserData.numel`).
(`UserData.shape` and `UserData.canP` — the triangle `P.to_triu()` — are not derived here.) -/
theorem problemdata_new_supplies (P : Csc ℝ) (q : Array ℝ) (A : Csc ℝ) (b : Array ℝ)
    (cones : List (ConeT ℝ)) (presolve : Bool) (inf : ℝ) (d : ProblemData ℝ)
    (hA : C16.Canonical A) (hAm : A.m = b.size) (hnum : numel cones = b.size) (hPsq : P.m = P.n)
    (h : ProblemData.new P q A b cones presolve false inf = .ok d) :
    d.equilibration = EquilData.new d.n d.m ∧ C16.Canonical d.A ∧ d.q = q ∧ d.n = A.n
    ∧ numel d.cones = d.m := by
  obtain ⟨keep, Pn, d', -, -, -, -, hnew, -, hq, hn, hfresh, hrest⟩ :=
    C09.problemdata_new_spec P q A b cones presolve inf hA hAm hnum hPsq
  have hd : d' = d := by rw [hnew] at h; exact Except.ok.inj h
  subst hd
  refine ⟨hfresh, ?_, hq, hn, ?_⟩
  · split at hrest
    · obtain ⟨A', -, hc, hdA, -⟩ := hrest
      rw [hdA]; exact hc
    · rw [hrest.1]; exact hA
  · split at hrest
    · obtain ⟨A', -, -, -, -, -, -, -, hnm, -⟩ := hrest
      exact hnm
    · obtain ⟨-, -, hc, hm, -⟩ := hrest
      rw [hc, hm, C09.collapse_numel, hnum, hAm]

/-- non-vacuity: `ProblemData.new` succeeds under these hypotheses (`C09.problemdata_new_spec`
is an existence statement) — the 1×1 instance of `InfoEndToEndExample.lean` -/
example : ∃ d, ProblemData.new zData.P #[0] zData.A #[0] [.nonneg 1] true false (100:ℝ) = .ok d := by
  obtain ⟨_, _, d, _, _, _, _, hnew, _⟩ := C09.problemdata_new_spec zData.P #[0] zData.A #[0]
    [ConeT.nonneg 1] true (100:ℝ) zData_user.canA rfl rfl rfl
  exact ⟨d, hnew⟩

end fromnew

section norms
variable {α : Type} [Add α] [Sub α] [Mul α] [Div α] [OfNat α 0] [OfNat α 1] [LT α] [DecidableLT α]
  [BEq α] [FloatLike α]

/-- **[S] `C01.cached_norms_are_users`** (any scalar type, `Float` included) — the `normb`,
`normq` of the end-to-end theorems are the USER's `‖b‖∞`, `‖q‖∞` on a first solve:
`DefaultProblemData::new` caches `norm_inf` of the `b` (capped, row-reduced) and `q` it stores,
`equilibrate` never touches the cache (every pass rebuilds the record with `{dt with …}` on
other fields only), and `get_normb` / `get_normq` return a cached value unchanged — so the
numbers `Info.update` normalises the residuals with are the ∞-norms of the un-equilibrated
data, not of `E b`, `c D q`. -/
theorem cached_norms_are_users (P : Csc α) (q : Array α) (A : Csc α) (b : Array α)
    (cones : List (ConeT α)) (pe ce : Bool) (inf : α) (dt dt' : ProblemData α)
    (cones' : List (ConeT α)) (s : Equil.Settings α)
    (hnew : ProblemData.new P q A b cones pe ce inf = .ok dt)
    (heq : Equil.equilibrate dt cones' s = .ok dt') :
    Info.getNormb dt'.normb dt'.b dt'.equilibration.einv = .ok (Vec.normInf dt.b)
    ∧ Info.getNormq dt'.normq dt'.q dt'.equilibration.dinv dt'.equilibration.c = .ok (Vec.normInf q) :=
  InfoUser.norms_are_users P q A b cones pe ce inf dt dt' cones' s hnew heq

end norms

/-! ### non-vacuity of the round-3 theorems -/

section examples3
open Clarabel.InfoUser Clarabel.Residuals

/-- ALL hypotheses of `solved_certifies_user_problem` hold simultaneously on a concrete
instance (`InfoUser.chain_example`: the 1×1 problem with no stored entries over the cone `ℝ₊`,
equilibration disabled, the iterate `0`, `τ = 1`; `Residuals.update` and `Info.update` succeed
and `check_convergence_full` says `Solved`) -/
example : ∃ (dt dt' : ProblemData ℝ) (cones : List (ConeT ℝ)) (es : Equil.Settings ℝ) (v : Vars ℝ)
    (r0 r : Resid ℝ) (i i' : InfoS ℝ) (normq normb : ℝ) (s : Settings ℝ),
    UserData dt cones es ∧ Equil.equilibrate dt cones es = .ok dt'
    ∧ StateShapes dt.n dt.m v r0 ∧ 0 < v.τ
    ∧ Residuals.update r0 v (toResidData dt') = .ok r
    ∧ Info.update i (toInfoEquil dt'.equilibration) normq normb v r = .ok i'
    ∧ i'.status ≠ .solved
    ∧ (checkConvergenceFull i' r.dot_bz r.dot_qx s).status = .solved :=
  let ⟨r, i', h⟩ := chain_example
  ⟨zData, zData, _, zEs, zVars, zRes0, r, zInfo, i', 0, 0, zSettings, h⟩

/-- the hypotheses of `residuals_update_dense` are satisfiable (same instance) and the
theorem yields a successful `Residuals.update` -/
example : ∃ r, Residuals.update zRes0 zVars { P := zData.P, q := zData.q, A := zData.A, b := zData.b } = .ok r :=
  let ⟨r, h, _⟩ := residuals_update_dense zRes0 zVars zData.P zData.A zData.q zData.b 1 1
    zData_user.canP zData_user.canA rfl rfl rfl rfl rfl rfl zShapes
  ⟨r, h⟩

/-- `cone_membership_psd`: the identity 2×2 (svec `#[1, 0, 1]`) is PSD, hence so is its
un-scaled image -/
example : InfoCone.PsdSvec 2 (Vec.scale (#[1, 0, 1] : Array ℝ) 3) := by
  refine (cone_membership_psd 2 _ 3 (by norm_num)).1 ?_
  intro v
  have hq : InfoCone.psdQuad 2 #[1, 0, 1] v = v 0 * v 0 + v 1 * v 1 := by
    simp [InfoCone.psdQuad, Equil.quadForm, Fin.sum_univ_two, PsdTri.svecToMat, PsdIndex.triangularNumber]
  rw [hq]
  nlinarith [mul_self_nonneg (v 0), mul_self_nonneg (v 1)]

/-- `cone_membership_genpow`: `α = (½, ½)`, `(u, w) = (1, 1, 0)` passes the model's primal test,
hence so does its un-scaled image -/
example : GenPow.isPrimalFeasible (#[1/2, 1/2] : Array ℝ) (Vec.scale #[1, 1, 0] 3) = .ok true := by
  have ha : GenPow.AllPos ([1/2, 1/2] : List ℝ) := by
    intro x hx; simp at hx; rcases hx with rfl | rfl <;> norm_num
  refine (cone_membership_genpow #[1/2, 1/2] #[1, 1, 0] 3 (by norm_num) ha (by norm_num)).1 ?_
  have := (InfoCone.isPrimalFeasible_iff_int [1/2, 1/2] [1, 1] [0] rfl).mpr
    ⟨by intro x hx; simp at hx; subst hx; norm_num, by simp [GenPow.sumSq, GenPow.prodPhiP]⟩
  simpa using this

/-- `returned_point_in_cones`: its hypotheses are satisfiable — the instance above
(`equilibrate` succeeds, `ŝ = ẑ = 0 ∈ ℝ₊`, `τ = 1`) -/
example : Equil.ValidCones [ConeT.nonneg 1]
    ∧ Equil.equilibrate zData [.nonneg 1] zEs = .ok zData
    ∧ Equil.CompositeMem Equil.ConeMem [ConeT.nonneg 1] zVars.s.toList
    ∧ Equil.CompositeMem Equil.ConeMemDual [ConeT.nonneg 1] zVars.z.toList := by
  refine ⟨?_, zData_equil, ?_, ?_⟩
  · intro c hc; simp at hc; subst hc; simp [Equil.ValidCone]
  · simp [Equil.CompositeMem, Equil.ConeMem, ConeT.nvars, zVars]
  · simp [Equil.CompositeMem, Equil.ConeMemDual, ConeT.nvars, zVars]

/-- `solved_certifies_user_problem_presolved`: the model's reversal succeeds on a 3-row
problem whose middle row is dropped (so `hrev` is satisfiable; `InfoPresolveUser.lean` applies
`solved_full_problem` with every hypothesis discharged on such an instance) -/
example : ∃ r, Unscale.reversePresolve { keep := [true, false, true].toArray, infbound := (99:ℚ) }
    (Unscale.Solution.new 1 3) { x := #[5], s := #[1, 2], z := #[3, 4], τ := 1, κ := 1 } = .ok r
    ∧ r.s = #[1, 99, 2] ∧ r.z = #[3, 0, 4] := by
  refine ⟨_, rfl, ?_, ?_⟩ <;> rfl

/-- `cached_norms_are_users`: both hypotheses are satisfiable together (`ProblemData.new`
succeeds on the 1×1 instance — `C09.problemdata_new_spec` —, and with equilibration disabled
`equilibrate` returns its input) -/
example : ∃ dt : ProblemData ℝ,
    ProblemData.new zData.P #[0] zData.A #[0] [.nonneg 1] true false (100:ℝ) = .ok dt
    ∧ Equil.equilibrate dt [.nonneg 1] zEs = .ok dt := by
  obtain ⟨_, _, d, _, _, _, _, hnew, _⟩ := C09.problemdata_new_spec zData.P #[0] zData.A #[0]
    [ConeT.nonneg 1] true (100:ℝ) zData_user.canA rfl rfl rfl
  exact ⟨d, hnew, C10.disabled_is_identity _ _ _ rfl⟩

end examples3

end Clarabel.C01
