/-
  C01 — a `Solved` verdict is a certified approximate optimum of the user's problem.
  Property theorems and non-vacuity examples only; helper lemmas live in
  `ClarabelProofs/Lemmas/Info*.lean`.
-/
import ClarabelProofs.Lemmas.InfoConv
import ClarabelProofs.Lemmas.InfoUnscale
import ClarabelModel.Unscale
import ClarabelProofs.Lemmas.InfoLengths
import Mathlib.Tactic.NormNum
import Mathlib.Tactic.FinCases
import Mathlib.Data.Rat.Defs
import Mathlib.Data.Fin.VecNotation
import Mathlib.Algebra.BigOperators.Fin

namespace Clarabel.C01
open Clarabel.Dense Clarabel.Info Finset

section field
variable {α : Type} [Field α] [LinearOrder α] [IsStrictOrderedRing α] {n m : ℕ}

/-- **[F] `C01.residual_unscale`.**  For the internal data `P̂ = cDPD, Â = EAD, q̂ = cDq,
b̂ = Eb` and the returned point `x = Dx̂/τ, s = E⁻¹ŝ/τ, z = Eẑ/(cτ)` (all scalings positive):
`A x + s − b = E⁻¹ r̂z / τ` and `P x + Aᵀ z + q = −D⁻¹ r̂x /(cτ)` entry by entry, where
`r̂x, r̂z` are the residuals `Residuals.update` forms on the internal data. -/
theorem residual_unscale (p : Problem α n m) (sc : Scaling α n m)
    (xh : Fin n → α) (sh zh : Fin m → α) (τ : α)
    (hd : ∀ j, 0 < sc.d j) (he : ∀ i, 0 < sc.e i) (hc : 0 < sc.c) (hτ : 0 < τ) :
    (∀ i, mulV p.A (unX sc τ xh) i + unS sc τ sh i - p.b i
            = rz (p.scaled sc) xh sh τ i * (1 / sc.e i) * (1 / τ))
    ∧ (∀ j, mulV p.P (unX sc τ xh) j + mulVT p.A (unZ sc τ zh) j + p.q j
            = -(rx (p.scaled sc) xh zh τ j * (1 / sc.d j) * (1 / τ) * (1 / sc.c))) :=
  ⟨fun i => primal_residual_unscale p sc xh sh τ (fun i => (he i).ne') hτ.ne' i,
   fun j => dual_residual_unscale p sc xh zh τ (fun j => (hd j).ne') hc.ne' hτ.ne' j⟩

/-- **[F] `C01.residual_norms`.**  The squared numerators of `res_primal` / `res_dual` as
`Info.update` forms them (`‖E⁻¹r̂z‖²τ⁻²`, `‖D⁻¹r̂x‖²τ⁻²c⁻²`) are the squared 2-norms of the
user-space residuals of the returned point; likewise the variable norms. -/
theorem residual_norms (p : Problem α n m) (sc : Scaling α n m)
    (xh : Fin n → α) (sh zh : Fin m → α) (τ : α)
    (hd : ∀ j, 0 < sc.d j) (he : ∀ i, 0 < sc.e i) (hc : 0 < sc.c) (hτ : 0 < τ) :
    sumsq (fun i => rz (p.scaled sc) xh sh τ i * (1 / sc.e i)) * ((1 / τ) * (1 / τ))
        = sumsq (fun i => mulV p.A (unX sc τ xh) i + unS sc τ sh i - p.b i)
    ∧ sumsq (fun j => rx (p.scaled sc) xh zh τ j * (1 / sc.d j)) * ((1 / τ * (1 / sc.c)) * (1 / τ * (1 / sc.c)))
        = sumsq (fun j => mulV p.P (unX sc τ xh) j + mulVT p.A (unZ sc τ zh) j + p.q j)
    ∧ sumsq (fun j => xh j * sc.d j) * ((1 / τ) * (1 / τ)) = sumsq (unX sc τ xh)
    ∧ sumsq (fun i => sh i * (1 / sc.e i)) * ((1 / τ) * (1 / τ)) = sumsq (unS sc τ sh)
    ∧ sumsq (fun i => zh i * sc.e i) * ((1 / sc.c * (1 / τ)) * (1 / sc.c * (1 / τ))) = sumsq (unZ sc τ zh) := by
  obtain ⟨h1, h2⟩ := residual_unscale p sc xh sh zh τ hd he hc hτ
  refine ⟨?_, ?_, ?_, ?_, ?_⟩
  · rw [← sumsq_smul]; congr 1; funext i; rw [h1 i]
  · rw [← sumsq_smul]; unfold sumsq
    refine Finset.sum_congr rfl (fun j _ => ?_)
    beta_reduce
    rw [h2 j]; ring
  · rw [← sumsq_smul]; rfl
  · rw [← sumsq_smul]; rfl
  · rw [← sumsq_smul]; congr 1; funext i; unfold unZ; ring

/-- **[F] `C01.cost_unscale`.**  The numbers `Info.update` calls `cost_primal`, `cost_dual`
are `½xᵀPx + qᵀx` and `−bᵀz − ½xᵀPx` of the returned point; hence `gap_abs`, `gap_rel` are
the documented gap of the returned point. -/
theorem cost_unscale (p : Problem α n m) (sc : Scaling α n m)
    (xh : Fin n → α) (zh : Fin m → α) (τ : α) (hc : 0 < sc.c) (hτ : 0 < τ) :
    let dot_qx := dot (p.scaled sc).q xh
    let dot_bz := dot (p.scaled sc).b zh
    let dot_xPx := dot xh (mulV (p.scaled sc).P xh)
    let τinv := 1 / τ
    let cinv := 1 / sc.c
    let x := unX sc τ xh
    let z := unZ sc τ zh
    (dot_qx * τinv + dot_xPx * τinv * τinv / 2) * cinv = dot x (mulV p.P x) / 2 + dot p.q x
    ∧ (-dot_bz * τinv - dot_xPx * τinv * τinv / 2) * cinv = -dot p.b z - dot x (mulV p.P x) / 2 := by
  intro dot_qx dot_bz dot_xPx τinv cinv x z
  have h1 : dot_qx = sc.c * τ * dot p.q x := dot_qx_unscale p sc xh τ hτ.ne'
  have h2 : dot_bz = sc.c * τ * dot p.b z := dot_bz_unscale p sc zh τ hc.ne' hτ.ne'
  have h3 : dot_xPx = sc.c * (τ * τ) * dot x (mulV p.P x) := dot_xPx_unscale p sc xh τ hτ.ne'
  have hc' := hc.ne'
  have hτ' := hτ.ne'
  refine ⟨?_, ?_⟩
  · rw [h1, h3]; simp only [τinv, cinv]; field_simp; ring
  · rw [h2, h3]; simp only [τinv, cinv]; field_simp

/-- **[F] `C01.cone_membership` (nonnegative cone).**  Un-scaling by positive `e`, `c`, `τ`
keeps nonnegative entries nonnegative (primal and dual side). -/
theorem cone_membership_nonneg (sc : Scaling α n m) (sh zh : Fin m → α) (τ : α) (i : Fin m)
    (he : 0 < sc.e i) (hc : 0 < sc.c) (hτ : 0 < τ) (hs : 0 ≤ sh i) (hz : 0 ≤ zh i) :
    0 ≤ unS sc τ sh i ∧ 0 ≤ unZ sc τ zh i := by
  unfold unS unZ
  constructor <;> positivity

/-- second-order cone membership without square roots: `t ≥ 0` and `‖v‖² ≤ t²` -/
def InSOC {k : ℕ} (t : α) (v : Fin k → α) : Prop := 0 ≤ t ∧ sumsq v ≤ t * t

/-- **[F] `C01.cone_membership` (second-order cone).**  A second-order cone is invariant
under a positive *uniform* scaling — which is what un-scaling is on such a cone, `e` being
constant on every non-scalar cone (C10). -/
theorem cone_membership_soc {k : ℕ} (t : α) (v : Fin k → α) (lam : α) (hl : 0 < lam)
    (h : InSOC t v) : InSOC (t * lam) (fun i => v i * lam) := by
  obtain ⟨h0, h1⟩ := h
  refine ⟨by positivity, ?_⟩
  rw [sumsq_smul]
  have : sumsq v * (lam * lam) ≤ t * t * (lam * lam) :=
    mul_le_mul_of_nonneg_right h1 (by positivity)
  calc sumsq v * (lam * lam) ≤ t * t * (lam * lam) := this
    _ = t * lam * (t * lam) := by ring

/-- on a cone where `e` is the constant `e₀`, `unS`/`unZ` *are* uniform positive scalings -/
theorem unscale_uniform (sc : Scaling α n m) (sh zh : Fin m → α) (τ e₀ : α) (i : Fin m)
    (hi : sc.e i = e₀) :
    unS sc τ sh i = sh i * (1 / e₀ * (1 / τ)) ∧ unZ sc τ zh i = zh i * (e₀ * (1 / τ * (1 / sc.c))) := by
  unfold unS unZ
  rw [hi]
  constructor <;> ring

end field

section structural
variable {α : Type} [Mul α] [Div α] [Neg α] [OfNat α 1] [OfNat α 100] [OfNat α 1000]
  [LT α] [DecidableLT α] [LE α] [DecidableLE α]

/-- **[S] `C01.solved_implies_test`** (any scalar type, `Float` included).  If
`check_convergence_full` turns a non-`Solved` status into `Solved`, then `ktratio ≤ 1` and
the three documented inequalities hold on the `info` fields, and nothing but the status
field was modified. -/
theorem solved_implies_test (i : InfoS α) (bz qx : α) (s : Settings α)
    (h0 : i.status ≠ .solved)
    (h : (checkConvergenceFull i bz qx s).status = .solved) :
    i.ktratio ≤ 1
    ∧ (i.gap_abs < s.full.gap_abs ∨ i.gap_rel < s.full.gap_rel)
    ∧ i.res_primal < s.full.feas ∧ i.res_dual < s.full.feas
    ∧ checkConvergenceFull i bz qx s = { i with status := .solved } := by
  unfold checkConvergenceFull at h ⊢
  rcases checkConvergence_cases i bz qx s.full .solved .primalInfeasible .dualInfeasible with
    hc | hc | hc | hc
  · obtain ⟨e, hk, hs⟩ := hc
    have := (isSolved_iff i _ _ _).mp hs
    exact ⟨hk, this.1, this.2.1, this.2.2, e⟩
  · rw [hc.1] at h; cases h
  · rw [hc.1] at h; cases h
  · rw [hc] at h; exact absurd h h0

/-- **[S]** the same through `check_termination`: a pass that starts `Unsolved` and reports
`Solved` has passed the test (the later branches only overwrite `Unsolved`). -/
theorem termination_solved_implies_test [FloatLike α] (i : InfoS α) (bz qx : α) (s : Settings α)
    (iter : Nat) (tov : Bool) (h0 : i.status = .unsolved)
    (h : (checkTermination i bz qx s iter tov).1.status = .solved) :
    i.ktratio ≤ 1
    ∧ (i.gap_abs < s.full.gap_abs ∨ i.gap_rel < s.full.gap_rel)
    ∧ i.res_primal < s.full.feas ∧ i.res_dual < s.full.feas := by
  have key : (checkConvergenceFull i bz qx s).status = .solved := by
    unfold checkTermination at h
    simp only at h
    generalize checkConvergenceFull i bz qx s = j at h ⊢
    by_contra hj
    repeat' split at h
    all_goals first
      | exact hj h
      | (simp only at h; cases h)
  have := solved_implies_test i bz qx s (by rw [h0]; decide) key
  exact ⟨this.1, this.2.1, this.2.2.1, this.2.2.2.1⟩

/-- **[S]** `Solution.post_process` copies the verdict and the residual figures of `info`
unchanged into the solution (no path modifies them). -/
theorem post_process_copies {β : Type} [Mul β] [Div β] [OfNat β 0] [OfNat β 1]
    (sol : Unscale.Solution β) (eq : Equil β) (pm : Option (Unscale.PresolveMap β))
    (v : Residuals.Vars β) (i : InfoS β) (r : Unscale.Solution β × Residuals.Vars β)
    (h : Unscale.postProcess sol eq pm v i = .ok r) :
    r.1.status = i.status ∧ r.1.iterations = i.iterations
    ∧ r.1.r_prim = some i.res_primal ∧ r.1.r_dual = some i.res_dual
    ∧ r.2 = Unscale.unscale v eq i.status.isInfeasible := by
  unfold Unscale.postProcess at h
  cases pm with
  | some p =>
    simp only [bind, Except.bind, pure, Except.pure] at h
    split at h
    · cases h
    · rename_i sol' hs
      unfold Unscale.reversePresolve at hs
      simp only [bind, Except.bind, pure, Except.pure] at hs
      split at hs
      · cases hs
      · split at hs
        · cases hs
        · cases hs; cases h; exact ⟨rfl, rfl, rfl, rfl, rfl⟩
  | none =>
    simp only [bind, Except.bind, pure, Except.pure] at h
    repeat' split at h
    all_goals first | (cases h; exact ⟨rfl, rfl, rfl, rfl, rfl⟩) | cases h

/-- **[S] `C01.presolve_transparent`** (any scalar type).  `reverse_presolve` puts the
entries of the reduced `s`, `z` back at the indices of the kept rows, in order
(`rank keep k` = number of kept rows before `k`), writes `s = infbound`, `z = 0` on the
dropped rows, and copies `x`. -/
theorem presolve_transparent {β : Type} [OfNat β 0] (p : Unscale.PresolveMap β)
    (sol : Unscale.Solution β) (v : Residuals.Vars β) (r : Unscale.Solution β)
    (h : Unscale.reversePresolve p sol v = .ok r) :
    r.x = v.x
    ∧ ∀ k, (hk : k < p.keep.toList.length) →
        (p.keep.toList[k] = true →
            r.s[k]? = v.s[Unscale.rank p.keep.toList k]? ∧ r.z[k]? = v.z[Unscale.rank p.keep.toList k]?
            ∧ (v.s[Unscale.rank p.keep.toList k]?).isSome ∧ (v.z[Unscale.rank p.keep.toList k]?).isSome)
        ∧ (p.keep.toList[k] = false → r.s[k]? = some p.infbound ∧ r.z[k]? = some 0) := by
  unfold Unscale.reversePresolve at h
  simp only [bind, Except.bind, pure, Except.pure] at h
  split at h
  · cases h
  · rename_i x' hx
    split at h
    · cases h
    · rename_i sz hsz
      obtain ⟨s', z'⟩ := sz
      have hxe : x' = v.x := by
        unfold Unscale.copyFrom at hx
        split at hx
        · cases hx
        · cases hx; rfl
      obtain ⟨_, hB⟩ := Unscale.reverseLoop_spec _ _ _ _ _ _ _ _ _ _ hsz
      cases h
      refine ⟨hxe, fun k hk => ?_⟩
      have := hB k hk
      simpa using this

end structural

/-! ### non-vacuity -/

/-- a 2×2 LP over `ℚ` with non-trivial `d, e, c, τ`: the hypotheses of `residual_unscale`
are satisfiable and the identity is a concrete equation -/
example :
    let p : Problem ℚ 2 2 := { P := fun _ _ => 0, q := ![1, -2], A := ![![1, 2], ![0, 3]], b := ![4, 5] }
    let sc : Scaling ℚ 2 2 := { d := ![2, 1/3], e := ![1/2, 4], c := 3 }
    (∀ j, 0 < sc.d j) ∧ (∀ i, 0 < sc.e i) ∧ 0 < sc.c ∧ (0:ℚ) < 5/7
      ∧ mulV p.A (unX sc (5/7) ![1, 2]) 0 + unS sc (5/7) ![3, 1] 0 - p.b 0 = 136/15 := by
  intro p sc
  refine ⟨?_, ?_, by norm_num [sc], by norm_num, ?_⟩
  · intro j; fin_cases j <;> norm_num [sc]
  · intro i; fin_cases i <;> norm_num [sc]
  · norm_num [p, sc, mulV, unX, unS, Fin.sum_univ_two]

/-- witness data for the non-vacuity example below -/
def exInfo : InfoS ℚ :=
  { cost_primal := 1, cost_dual := 1, res_primal := 0, res_dual := 0, res_primal_inf := 1,
    res_dual_inf := 1, gap_abs := 0, gap_rel := 0, ktratio := 1/2, prev_cost_primal := 0,
    prev_cost_dual := 0, prev_res_primal := 0, prev_res_dual := 0, prev_gap_abs := 0,
    prev_gap_rel := 0, iterations := 3, status := .unsolved }
/-- witness tolerances -/
def exTols : Tols ℚ :=
  { gap_abs := 1/100, gap_rel := 1/100, feas := 1/100, infeas_abs := 1/100, infeas_rel := 1/100,
    ktratio := 1/1000 }

/-- `solved_implies_test` is not vacuous: an `info` over `ℚ` that `check_convergence_full`
declares `Solved` -/
example : (checkConvergenceFull exInfo 0 0 { full := exTols, reduced := exTols, max_iter := 10 }).status
    = .solved := by
  norm_num [checkConvergenceFull, checkConvergence, isSolved, exInfo, exTols]

/-- `InSOC` is inhabited by a non-trivial point -/
example : InSOC (5:ℚ) ![3, 4] := by
  constructor
  · norm_num
  · norm_num [sumsq, Fin.sum_univ_two]


/-- witness `info` over `ℕ` (structural theorems hold for every scalar type) -/
def exInfoNat : InfoS Nat :=
  { cost_primal := 7, cost_dual := 6, res_primal := 1, res_dual := 2, res_primal_inf := 0,
    res_dual_inf := 0, gap_abs := 1, gap_rel := 1, ktratio := 0, prev_cost_primal := 0,
    prev_cost_dual := 0, prev_res_primal := 0, prev_res_dual := 0, prev_gap_abs := 0,
    prev_gap_rel := 0, iterations := 4, status := .primalInfeasible }

/-- `Solution.post_process` succeeds on a concrete input with a presolve map (3 rows, the
middle one dropped): the hypotheses `… = .ok r` of the structural theorems are satisfiable,
the objective is NaN (`none`) for the infeasible status, lengths are `1, 3, 3`. -/
example :
    (Unscale.postProcess (Unscale.Solution.new 1 3)
      { d := #[2], dinv := #[1], e := #[1, 3], einv := #[1, 1], c := 1 }
      (some { keep := #[true, false, true], infbound := 99 })
      { x := #[5], s := #[1, 2], z := #[3, 4], τ := 1, κ := 1 } exInfoNat).toOption.map
        (fun r => (r.1.x, r.1.s, r.1.z, r.1.obj_val, r.1.iterations))
    = some (#[10], #[1, 99, 2], #[3, 0, 12], none, 4) := by
  decide +kernel

end Clarabel.C01
