/-
  C01 — a `Solved` verdict is a certified approximate optimum of the user's problem.
  Property theorems and non-vacuity examples only; helper lemmas live in
  `ClarabelProofs/Lemmas/Info*.lean`.
-/
import ClarabelProofs.Lemmas.InfoConv
import ClarabelProofs.Lemmas.InfoUnscale
import ClarabelProofs.Lemmas.InfoCert
import Mathlib.Analysis.SpecialFunctions.Log.Basic
import ClarabelModel.Unscale
import ClarabelProofs.Lemmas.InfoLengths
import Mathlib.Tactic.NormNum
import Mathlib.Tactic.FinCases
import Mathlib.Data.Rat.Defs
import Mathlib.Data.Fin.VecNotation
import Mathlib.Algebra.BigOperators.Fin

namespace Clarabel.C01
open Clarabel.Dense Clarabel.Info Finset

section field
variable {α : Type} [Field α] [LinearOrder α] [IsStrictOrderedRing α] {n m : ℕ}

/-- **[F] `C01.residual_unscale`.**  For the internal data `P̂ = cDPD, Â = EAD, q̂ = cDq,
b̂ = Eb` and the returned point `x = Dx̂/τ, s = E⁻¹ŝ/τ, z = Eẑ/(cτ)` (all scalings positive):
`A x + s − b = E⁻¹ r̂z / τ` and `P x + Aᵀ z + q = −D⁻¹ r̂x /(cτ)` entry by entry, where
`r̂x, r̂z` are the residuals `Residuals.update` forms on the internal data. -/
theorem residual_unscale (p : Problem α n m) (sc : Scaling α n m)
    (xh : Fin n → α) (sh zh : Fin m → α) (τ : α)
    (hd : ∀ j, 0 < sc.d j) (he : ∀ i, 0 < sc.e i) (hc : 0 < sc.c) (hτ : 0 < τ) :
    (∀ i, mulV p.A (unX sc τ xh) i + unS sc τ sh i - p.b i
            = rz (p.scaled sc) xh sh τ i * (1 / sc.e i) * (1 / τ))
    ∧ (∀ j, mulV p.P (unX sc τ xh) j + mulVT p.A (unZ sc τ zh) j + p.q j
            = -(rx (p.scaled sc) xh zh τ j * (1 / sc.d j) * (1 / τ) * (1 / sc.c))) :=
  ⟨fun i => primal_residual_unscale p sc xh sh τ (fun i => (he i).ne') hτ.ne' i,
   fun j => dual_residual_unscale p sc xh zh τ (fun j => (hd j).ne') hc.ne' hτ.ne' j⟩

/-- **[F] `C01.residual_norms`.**  The squared numerators of `res_primal` / `res_dual` as
`Info.update` forms them (`‖E⁻¹r̂z‖²τ⁻²`, `‖D⁻¹r̂x‖²τ⁻²c⁻²`) are the squared 2-norms of the
user-space residuals of the returned point; likewise the variable norms. -/
theorem residual_norms (p : Problem α n m) (sc : Scaling α n m)
    (xh : Fin n → α) (sh zh : Fin m → α) (τ : α)
    (hd : ∀ j, 0 < sc.d j) (he : ∀ i, 0 < sc.e i) (hc : 0 < sc.c) (hτ : 0 < τ) :
    sumsq (fun i => rz (p.scaled sc) xh sh τ i * (1 / sc.e i)) * ((1 / τ) * (1 / τ))
        = sumsq (fun i => mulV p.A (unX sc τ xh) i + unS sc τ sh i - p.b i)
    ∧ sumsq (fun j => rx (p.scaled sc) xh zh τ j * (1 / sc.d j)) * ((1 / τ * (1 / sc.c)) * (1 / τ * (1 / sc.c)))
        = sumsq (fun j => mulV p.P (unX sc τ xh) j + mulVT p.A (unZ sc τ zh) j + p.q j)
    ∧ sumsq (fun j => xh j * sc.d j) * ((1 / τ) * (1 / τ)) = sumsq (unX sc τ xh)
    ∧ sumsq (fun i => sh i * (1 / sc.e i)) * ((1 / τ) * (1 / τ)) = sumsq (unS sc τ sh)
    ∧ sumsq (fun i => zh i * sc.e i) * ((1 / sc.c * (1 / τ)) * (1 / sc.c * (1 / τ))) = sumsq (unZ sc τ zh) := by
  obtain ⟨h1, h2⟩ := residual_unscale p sc xh sh zh τ hd he hc hτ
  refine ⟨?_, ?_, ?_, ?_, ?_⟩
  · rw [← sumsq_smul]; congr 1; funext i; rw [h1 i]
  · rw [← sumsq_smul]; unfold sumsq
    refine Finset.sum_congr rfl (fun j _ => ?_)
    beta_reduce
    rw [h2 j]; ring
  · rw [← sumsq_smul]; rfl
  · rw [← sumsq_smul]; rfl
  · rw [← sumsq_smul]; congr 1; funext i; unfold unZ; ring

/-- **[F] `C01.cost_unscale`.**  The numbers `Info.update` calls `cost_primal`, `cost_dual`
are `½xᵀPx + qᵀx` and `−bᵀz − ½xᵀPx` of the returned point; hence `gap_abs`, `gap_rel` are
the documented gap of the returned point. -/
theorem cost_unscale (p : Problem α n m) (sc : Scaling α n m)
    (xh : Fin n → α) (zh : Fin m → α) (τ : α) (hc : 0 < sc.c) (hτ : 0 < τ) :
    let dot_qx := dot (p.scaled sc).q xh
    let dot_bz := dot (p.scaled sc).b zh
    let dot_xPx := dot xh (mulV (p.scaled sc).P xh)
    let τinv := 1 / τ
    let cinv := 1 / sc.c
    let x := unX sc τ xh
    let z := unZ sc τ zh
    (dot_qx * τinv + dot_xPx * τinv * τinv / 2) * cinv = dot x (mulV p.P x) / 2 + dot p.q x
    ∧ (-dot_bz * τinv - dot_xPx * τinv * τinv / 2) * cinv = -dot p.b z - dot x (mulV p.P x) / 2 := by
  intro dot_qx dot_bz dot_xPx τinv cinv x z
  have h1 : dot_qx = sc.c * τ * dot p.q x := dot_qx_unscale p sc xh τ hτ.ne'
  have h2 : dot_bz = sc.c * τ * dot p.b z := dot_bz_unscale p sc zh τ hc.ne' hτ.ne'
  have h3 : dot_xPx = sc.c * (τ * τ) * dot x (mulV p.P x) := dot_xPx_unscale p sc xh τ hτ.ne'
  have hc' := hc.ne'
  have hτ' := hτ.ne'
  refine ⟨?_, ?_⟩
  · rw [h1, h3]; simp only [τinv, cinv]; field_simp; ring
  · rw [h2, h3]; simp only [τinv, cinv]; field_simp

/-- **[F] `C01.cone_membership` (nonnegative cone).**  Un-scaling by positive `e`, `c`, `τ`
keeps nonnegative entries nonnegative (primal and dual side). -/
theorem cone_membership_nonneg (sc : Scaling α n m) (sh zh : Fin m → α) (τ : α) (i : Fin m)
    (he : 0 < sc.e i) (hc : 0 < sc.c) (hτ : 0 < τ) (hs : 0 ≤ sh i) (hz : 0 ≤ zh i) :
    0 ≤ unS sc τ sh i ∧ 0 ≤ unZ sc τ zh i := by
  unfold unS unZ
  constructor <;> positivity

/-- second-order cone membership without square roots: `t ≥ 0` and `‖v‖² ≤ t²` -/
def InSOC {k : ℕ} (t : α) (v : Fin k → α) : Prop := 0 ≤ t ∧ sumsq v ≤ t * t

/-- **[F] `C01.cone_membership` (second-order cone).**  A second-order cone is invariant
under a positive *uniform* scaling — which is what un-scaling is on such a cone, `e` being
constant on every non-scalar cone (C10). -/
theorem cone_membership_soc {k : ℕ} (t : α) (v : Fin k → α) (lam : α) (hl : 0 < lam)
    (h : InSOC t v) : InSOC (t * lam) (fun i => v i * lam) := by
  obtain ⟨h0, h1⟩ := h
  refine ⟨by positivity, ?_⟩
  rw [sumsq_smul]
  have : sumsq v * (lam * lam) ≤ t * t * (lam * lam) :=
    mul_le_mul_of_nonneg_right h1 (by positivity)
  calc sumsq v * (lam * lam) ≤ t * t * (lam * lam) := this
    _ = t * lam * (t * lam) := by ring

/-- on a cone where `e` is the constant `e₀`, `unS`/`unZ` *are* uniform positive scalings -/
theorem unscale_uniform (sc : Scaling α n m) (sh zh : Fin m → α) (τ e₀ : α) (i : Fin m)
    (hi : sc.e i = e₀) :
    unS sc τ sh i = sh i * (1 / e₀ * (1 / τ)) ∧ unZ sc τ zh i = zh i * (e₀ * (1 / τ * (1 / sc.c))) := by
  unfold unS unZ
  rw [hi]
  constructor <;> ring

end field



section nonsymmetric
open Real

/-- interior of the exponential cone as `ExponentialCone::is_primal_feasible` tests it:
`y, z > 0` and `y·log(z/y) − x > 0` -/
def InExpInt (x y z : ℝ) : Prop := 0 < z ∧ 0 < y ∧ 0 < y * Real.log (z / y) - x

/-- interior of the dual exponential cone (`is_dual_feasible`): `w > 0`, `u < 0`,
`v − u − u·log(−w/u) > 0` -/
def InExpDualInt (u v w : ℝ) : Prop := 0 < w ∧ u < 0 ∧ 0 < v - u - u * Real.log (-w / u)

/-- interior of the power cone (`PowerCone::is_primal_feasible`):
`x, y > 0`, `exp(2a·log x + 2(1−a)·log y) − z² > 0` -/
def InPowInt (a x y z : ℝ) : Prop :=
  0 < x ∧ 0 < y ∧ 0 < Real.exp (2 * a * Real.log x + 2 * (1 - a) * Real.log y) - z * z

/-- interior of the dual power cone (`is_dual_feasible`) -/
def InPowDualInt (a u v w : ℝ) : Prop :=
  0 < u ∧ 0 < v
    ∧ 0 < Real.exp (a * 2 * Real.log (u / a) + (1 - a) * Real.log (v / (1 - a)) * 2) - w * w

/-- **[R] `C01.cone_membership` (exponential cone).**  The exponential cone and its dual are
invariant under a positive uniform scaling — which is what `unscale` applies on such a cone
(`unscale_uniform`; `e` is constant on every 3-dimensional cone, C10). -/
theorem cone_membership_exp (x y z k : ℝ) (hk : 0 < k) :
    (InExpInt x y z → InExpInt (x * k) (y * k) (z * k))
    ∧ (InExpDualInt x y z → InExpDualInt (x * k) (y * k) (z * k)) := by
  constructor
  · rintro ⟨hz, hy, h⟩
    refine ⟨by positivity, by positivity, ?_⟩
    have e : z * k / (y * k) = z / y := by field_simp
    rw [e]
    have : y * k * Real.log (z / y) - x * k = (y * Real.log (z / y) - x) * k := by ring
    rw [this]
    positivity
  · rintro ⟨hw, hu, h⟩
    refine ⟨by positivity, by nlinarith, ?_⟩
    have hu' : x ≠ 0 := hu.ne
    have e : -(z * k) / (x * k) = -z / x := by field_simp
    rw [e]
    have : y * k - x * k - x * k * Real.log (-z / x) = (y - x - x * Real.log (-z / x)) * k := by ring
    rw [this]
    positivity

/-- **[R] `C01.cone_membership` (power cone).**  The power cone `K_a` and its dual are
invariant under a positive uniform scaling (the left-hand side is homogeneous of degree 2,
as is `z²`). -/
theorem cone_membership_pow (a x y z k : ℝ) (hk : 0 < k) :
    (InPowInt a x y z → InPowInt a (x * k) (y * k) (z * k))
    ∧ (InPowDualInt a x y z → InPowDualInt a (x * k) (y * k) (z * k)) := by
  have hk2 : Real.exp (2 * Real.log k) = k * k := by
    rw [two_mul, Real.exp_add, Real.exp_log hk]
  constructor
  · rintro ⟨hx, hy, h⟩
    refine ⟨by positivity, by positivity, ?_⟩
    rw [Real.log_mul hx.ne' hk.ne', Real.log_mul hy.ne' hk.ne']
    have e : 2 * a * (Real.log x + Real.log k) + 2 * (1 - a) * (Real.log y + Real.log k)
        = (2 * a * Real.log x + 2 * (1 - a) * Real.log y) + 2 * Real.log k := by ring
    rw [e, Real.exp_add, hk2]
    have : Real.exp (2 * a * Real.log x + 2 * (1 - a) * Real.log y) * (k * k) - z * k * (z * k)
        = (Real.exp (2 * a * Real.log x + 2 * (1 - a) * Real.log y) - z * z) * (k * k) := by ring
    rw [this]
    positivity
  · rintro ⟨hu, hv, h⟩
    refine ⟨by positivity, by positivity, ?_⟩
    by_cases ha : a = 0
    · -- `log (u/0) = log 0 = 0`: the first factor is constant; handled by the general algebra below
      subst ha
      simp only [zero_mul, div_zero, Real.log_zero, mul_zero, zero_add, sub_zero, div_one, one_mul] at h ⊢
      rw [Real.log_mul hv.ne' hk.ne']
      have e : (Real.log y + Real.log k) * 2 = Real.log y * 2 + 2 * Real.log k := by ring
      rw [e, Real.exp_add, hk2]
      have : Real.exp (Real.log y * 2) * (k * k) - z * k * (z * k)
          = (Real.exp (Real.log y * 2) - z * z) * (k * k) := by ring
      rw [this]
      positivity
    · by_cases ha1 : 1 - a = 0
      · have ha' : a = 1 := by linarith
        subst ha'
        simp only [sub_self, zero_mul, div_zero, Real.log_zero, mul_zero, add_zero, div_one, one_mul] at h ⊢
        rw [Real.log_mul hu.ne' hk.ne']
        have e : 2 * (Real.log x + Real.log k) = 2 * Real.log x + 2 * Real.log k := by ring
        rw [e, Real.exp_add, hk2]
        have : Real.exp (2 * Real.log x) * (k * k) - z * k * (z * k)
            = (Real.exp (2 * Real.log x) - z * z) * (k * k) := by ring
        rw [this]
        positivity
      · have e1 : x * k / a = x / a * k := by ring
        have e2 : y * k / (1 - a) = y / (1 - a) * k := by ring
        have hxa : x / a ≠ 0 := div_ne_zero hu.ne' ha
        have hya : y / (1 - a) ≠ 0 := div_ne_zero hv.ne' ha1
        rw [e1, e2, Real.log_mul hxa hk.ne', Real.log_mul hya hk.ne']
        have e : a * 2 * (Real.log (x / a) + Real.log k) + (1 - a) * (Real.log (y / (1 - a)) + Real.log k) * 2
            = (a * 2 * Real.log (x / a) + (1 - a) * Real.log (y / (1 - a)) * 2) + 2 * Real.log k := by ring
        rw [e, Real.exp_add, hk2]
        have : Real.exp (a * 2 * Real.log (x / a) + (1 - a) * Real.log (y / (1 - a)) * 2) * (k * k) - z * k * (z * k)
            = (Real.exp (a * 2 * Real.log (x / a) + (1 - a) * Real.log (y / (1 - a)) * 2) - z * z) * (k * k) := by ring
        rw [this]
        positivity

end nonsymmetric

section structural
variable {α : Type} [Mul α] [Div α] [Neg α] [OfNat α 1] [OfNat α 100] [OfNat α 1000]
  [LT α] [DecidableLT α] [LE α] [DecidableLE α]

/-- **[S] `C01.solved_implies_test`** (any scalar type, `Float` included).  If
`check_convergence_full` turns a non-`Solved` status into `Solved`, then `ktratio ≤ 1` and
the three documented inequalities hold on the `info` fields, and nothing but the status
field was modified. -/
theorem solved_implies_test (i : InfoS α) (bz qx : α) (s : Settings α)
    (h0 : i.status ≠ .solved)
    (h : (checkConvergenceFull i bz qx s).status = .solved) :
    i.ktratio ≤ 1
    ∧ (i.gap_abs < s.full.gap_abs ∨ i.gap_rel < s.full.gap_rel)
    ∧ i.res_primal < s.full.feas ∧ i.res_dual < s.full.feas
    ∧ checkConvergenceFull i bz qx s = { i with status := .solved } := by
  unfold checkConvergenceFull at h ⊢
  rcases checkConvergence_cases i bz qx s.full .solved .primalInfeasible .dualInfeasible with
    hc | hc | hc | hc
  · obtain ⟨e, hk, hs⟩ := hc
    have := (isSolved_iff i _ _ _).mp hs
    exact ⟨hk, this.1, this.2.1, this.2.2, e⟩
  · rw [hc.1] at h; cases h
  · rw [hc.1] at h; cases h
  · rw [hc] at h; exact absurd h h0

/-- **[S]** the same through `check_termination`: a pass that starts `Unsolved` and reports
`Solved` has passed the test (the later branches only overwrite `Unsolved`). -/
theorem termination_solved_implies_test [FloatLike α] (i : InfoS α) (bz qx : α) (s : Settings α)
    (iter : Nat) (tov : Bool) (h0 : i.status = .unsolved)
    (h : (checkTermination i bz qx s iter tov).1.status = .solved) :
    i.ktratio ≤ 1
    ∧ (i.gap_abs < s.full.gap_abs ∨ i.gap_rel < s.full.gap_rel)
    ∧ i.res_primal < s.full.feas ∧ i.res_dual < s.full.feas := by
  have key : (checkConvergenceFull i bz qx s).status = .solved := by
    unfold checkTermination at h
    simp only at h
    generalize checkConvergenceFull i bz qx s = j at h ⊢
    by_contra hj
    repeat' split at h
    all_goals first
      | exact hj h
      | (simp only at h; cases h)
  have := solved_implies_test i bz qx s (by rw [h0]; decide) key
  exact ⟨this.1, this.2.1, this.2.2.1, this.2.2.2.1⟩

/-- **[S]** `Solution.post_process` copies the verdict and the residual figures of `info`
unchanged into the solution (no path modifies them). -/
theorem post_process_copies {β : Type} [Mul β] [Div β] [OfNat β 0] [OfNat β 1]
    (sol : Unscale.Solution β) (eq : Equil β) (pm : Option (Unscale.PresolveMap β))
    (v : Residuals.Vars β) (i : InfoS β) (r : Unscale.Solution β × Residuals.Vars β)
    (h : Unscale.postProcess sol eq pm v i = .ok r) :
    r.1.status = i.status ∧ r.1.iterations = i.iterations
    ∧ r.1.r_prim = some i.res_primal ∧ r.1.r_dual = some i.res_dual
    ∧ r.2 = Unscale.unscale v eq i.status.isInfeasible := by
  unfold Unscale.postProcess at h
  cases pm with
  | some p =>
    simp only [bind, Except.bind, pure, Except.pure] at h
    split at h
    · cases h
    · rename_i sol' hs
      unfold Unscale.reversePresolve at hs
      simp only [bind, Except.bind, pure, Except.pure] at hs
      split at hs
      · cases hs
      · split at hs
        · cases hs
        · cases hs; cases h; exact ⟨rfl, rfl, rfl, rfl, rfl⟩
  | none =>
    simp only [bind, Except.bind, pure, Except.pure] at h
    repeat' split at h
    all_goals first | (cases h; exact ⟨rfl, rfl, rfl, rfl, rfl⟩) | cases h

/-- **[S] `C01.presolve_transparent`** (any scalar type).  `reverse_presolve` puts the
entries of the reduced `s`, `z` back at the indices of the kept rows, in order
(`rank keep k` = number of kept rows before `k`), writes `s = infbound`, `z = 0` on the
dropped rows, and copies `x`. -/
theorem presolve_transparent {β : Type} [OfNat β 0] (p : Unscale.PresolveMap β)
    (sol : Unscale.Solution β) (v : Residuals.Vars β) (r : Unscale.Solution β)
    (h : Unscale.reversePresolve p sol v = .ok r) :
    r.x = v.x
    ∧ ∀ k, (hk : k < p.keep.toList.length) →
        (p.keep.toList[k] = true →
            r.s[k]? = v.s[Unscale.rank p.keep.toList k]? ∧ r.z[k]? = v.z[Unscale.rank p.keep.toList k]?
            ∧ (v.s[Unscale.rank p.keep.toList k]?).isSome ∧ (v.z[Unscale.rank p.keep.toList k]?).isSome)
        ∧ (p.keep.toList[k] = false → r.s[k]? = some p.infbound ∧ r.z[k]? = some 0) := by
  unfold Unscale.reversePresolve at h
  simp only [bind, Except.bind, pure, Except.pure] at h
  split at h
  · cases h
  · rename_i x' hx
    split at h
    · cases h
    · rename_i sz hsz
      obtain ⟨s', z'⟩ := sz
      have hxe : x' = v.x := by
        unfold Unscale.copyFrom at hx
        split at hx
        · cases hx
        · cases hx; rfl
      obtain ⟨_, hB⟩ := Unscale.reverseLoop_spec _ _ _ _ _ _ _ _ _ _ hsz
      cases h
      refine ⟨hxe, fun k hk => ?_⟩
      have := hB k hk
      simpa using this

end structural

section certificate
variable {n m : ℕ}

/-- **[F] `C01.certificate`** (over `ℝ`, exact arithmetic) — the property in one statement.
Let `info` carry the values `Info.update` assigns for the internal iterate `(x̂, ŝ, ẑ, τ)`
of the equilibrated problem `(cDPD, cDq, EAD, Eb)` (`update_assigns`: these are the assigned
expressions), with `normb`, `normq` the cached `‖b‖∞`, `‖q‖∞`.  If `check_convergence_full`
turns a non-`Solved` status into `Solved`, then the point `(x, s, z)` that `unscale` returns
satisfies the documented termination test **on the user's data**:
`‖Ax+s−b‖₂ / max(1, ‖b‖∞+‖x‖₂+‖s‖₂) < tol_feas`,
`‖Px+Aᵀz+q‖₂ / max(1, ‖q‖∞+‖x‖₂+‖z‖₂) < tol_feas`, and for `p = ½xᵀPx+qᵀx`,
`d = −bᵀz−½xᵀPx`: `|p−d| < tol_gap_abs` or `|p−d| / max(1, min(|p|,|d|)) < tol_gap_rel`. -/
theorem certificate (p : Problem ℝ n m) (sc : Scaling ℝ n m)
    (xh : Fin n → ℝ) (sh zh : Fin m → ℝ) (τ normb normq : ℝ)
    (hd : ∀ j, 0 < sc.d j) (he : ∀ i, 0 < sc.e i) (hc : 0 < sc.c) (hτ : 0 < τ)
    (i : InfoS ℝ) (bz qx : ℝ) (s : Settings ℝ)
    (hrp : i.res_primal = resPrimal p sc xh sh τ normb)
    (hrd : i.res_dual = resDual p sc xh zh τ normq)
    (hcp : i.cost_primal = costPrimal p sc xh τ)
    (hcd : i.cost_dual = costDual p sc xh zh τ)
    (hga : i.gap_abs = |i.cost_primal - i.cost_dual|)
    (hgr : i.gap_rel = i.gap_abs / max 1 (min |i.cost_primal| |i.cost_dual|))
    (h0 : i.status ≠ .solved)
    (h : (checkConvergenceFull i bz qx s).status = .solved) :
    let x := unX sc τ xh
    let sv := unS sc τ sh
    let z := unZ sc τ zh
    let pobj := dot x (mulV p.P x) / 2 + dot p.q x
    let dobj := -dot p.b z - dot x (mulV p.P x) / 2
    nrm (fun i => mulV p.A x i + sv i - p.b i) / max 1 (normb + nrm x + nrm sv) < s.full.feas
    ∧ nrm (fun j => mulV p.P x j + mulVT p.A z j + p.q j) / max 1 (normq + nrm x + nrm z) < s.full.feas
    ∧ (|pobj - dobj| < s.full.gap_abs
        ∨ |pobj - dobj| / max 1 (min |pobj| |dobj|) < s.full.gap_rel) := by
  intro x sv z pobj dobj
  obtain ⟨_, hgap, hp, hdl, _⟩ := solved_implies_test i bz qx s h0 h
  obtain ⟨e1, e2⟩ := res_identities p sc xh sh zh τ normb normq hd he hc hτ
  obtain ⟨c1, c2⟩ := cost_identities p sc xh zh τ hc.ne' hτ.ne'
  rw [hrp, e1] at hp
  rw [hrd, e2] at hdl
  rw [hcp, c1, hcd, c2] at hga hgr
  rw [hgr, hga] at hgap
  exact ⟨hp, hdl, hgap⟩

end certificate

/-! ### non-vacuity -/

/-- a 2×2 LP over `ℚ` with non-trivial `d, e, c, τ`: the hypotheses of `residual_unscale`
are satisfiable and the identity is a concrete equation -/
example :
    let p : Problem ℚ 2 2 := { P := fun _ _ => 0, q := ![1, -2], A := ![![1, 2], ![0, 3]], b := ![4, 5] }
    let sc : Scaling ℚ 2 2 := { d := ![2, 1/3], e := ![1/2, 4], c := 3 }
    (∀ j, 0 < sc.d j) ∧ (∀ i, 0 < sc.e i) ∧ 0 < sc.c ∧ (0:ℚ) < 5/7
      ∧ mulV p.A (unX sc (5/7) ![1, 2]) 0 + unS sc (5/7) ![3, 1] 0 - p.b 0 = 136/15 := by
  intro p sc
  refine ⟨?_, ?_, by norm_num [sc], by norm_num, ?_⟩
  · intro j; fin_cases j <;> norm_num [sc]
  · intro i; fin_cases i <;> norm_num [sc]
  · norm_num [p, sc, mulV, unX, unS, Fin.sum_univ_two]

/-- witness data for the non-vacuity example below -/
def exInfo : InfoS ℚ :=
  { cost_primal := 1, cost_dual := 1, res_primal := 0, res_dual := 0, res_primal_inf := 1,
    res_dual_inf := 1, gap_abs := 0, gap_rel := 0, ktratio := 1/2, prev_cost_primal := 0,
    prev_cost_dual := 0, prev_res_primal := 0, prev_res_dual := 0, prev_gap_abs := 0,
    prev_gap_rel := 0, iterations := 3, status := .unsolved }
/-- witness tolerances -/
def exTols : Tols ℚ :=
  { gap_abs := 1/100, gap_rel := 1/100, feas := 1/100, infeas_abs := 1/100, infeas_rel := 1/100,
    ktratio := 1/1000 }

/-- `solved_implies_test` is not vacuous: an `info` over `ℚ` that `check_convergence_full`
declares `Solved` -/
example : (checkConvergenceFull exInfo 0 0 { full := exTols, reduced := exTols, max_iter := 10 }).status
    = .solved := by
  norm_num [checkConvergenceFull, checkConvergence, isSolved, exInfo, exTols]

/-- the exponential-cone predicates are inhabited: `(0, 1, 2)` (since `log 2 > 0`) and
`(-1, 0, 1)` (since `0 + 1 + log 1 = 1 > 0`) -/
example : InExpInt 0 1 2 ∧ InExpDualInt (-1) 0 1 := by
  constructor
  · refine ⟨by norm_num, by norm_num, ?_⟩
    have : 0 < Real.log 2 := Real.log_pos (by norm_num)
    simpa using this
  · refine ⟨by norm_num, by norm_num, ?_⟩
    norm_num

/-- the power-cone predicate is inhabited: `(1, 1, 0)` for any `a` -/
example (a : ℝ) : InPowInt a 1 1 0 := by
  refine ⟨by norm_num, by norm_num, ?_⟩
  simp

/-- `InSOC` is inhabited by a non-trivial point -/
example : InSOC (5:ℚ) ![3, 4] := by
  constructor
  · norm_num
  · norm_num [sumsq, Fin.sum_univ_two]


/-- witness for `certificate`: the zero 1×1 problem, identity scaling, zero iterate, τ = 1 -/
noncomputable def zP : Problem ℝ 1 1 := { P := fun _ _ => 0, q := fun _ => 0, A := fun _ _ => 0, b := fun _ => 0 }
noncomputable def oSc : Scaling ℝ 1 1 := { d := fun _ => 1, e := fun _ => 1, c := 1 }
noncomputable def cInfo : InfoS ℝ :=
  { cost_primal := costPrimal zP oSc (fun _ => 0) 1, cost_dual := costDual zP oSc (fun _ => 0) (fun _ => 0) 1,
    res_primal := resPrimal zP oSc (fun _ => 0) (fun _ => 0) 1 0,
    res_dual := resDual zP oSc (fun _ => 0) (fun _ => 0) 1 0,
    res_primal_inf := 1, res_dual_inf := 1, gap_abs := 0, gap_rel := 0, ktratio := 0,
    prev_cost_primal := 0, prev_cost_dual := 0, prev_res_primal := 0, prev_res_dual := 0,
    prev_gap_abs := 0, prev_gap_rel := 0, iterations := 1, status := .unsolved }
noncomputable def cTols : Tols ℝ :=
  { gap_abs := 1, gap_rel := 1, feas := 1, infeas_abs := 1, infeas_rel := 1, ktratio := 1 }

/-- the hypotheses of `certificate` are satisfiable: `info` built from the assigned values
is declared `Solved` -/
example : (checkConvergenceFull cInfo 0 0 { full := cTols, reduced := cTols, max_iter := 5 }).status = .solved
    ∧ cInfo.gap_abs = |cInfo.cost_primal - cInfo.cost_dual| := by
  have h1 : cInfo.res_primal = 0 := by
    simp [cInfo, resPrimal, nrm, sumsq, rz, mulV, Problem.scaled, zP, oSc]
  have h2 : cInfo.res_dual = 0 := by
    simp [cInfo, resDual, nrm, sumsq, rx, mulV, mulVT, Problem.scaled, zP, oSc]
  have h3 : cInfo.cost_primal = 0 := by
    simp [cInfo, costPrimal, dot, mulV, Problem.scaled, zP, oSc]
  have h4 : cInfo.cost_dual = 0 := by
    simp [cInfo, costDual, dot, mulV, Problem.scaled, zP, oSc]
  constructor
  · unfold checkConvergenceFull checkConvergence isSolved
    rw [h1, h2]
    simp [cInfo, cTols]
  · rw [h3, h4]; simp [cInfo]

/-- witness `info` over `ℕ` (structural theorems hold for every scalar type) -/
def exInfoNat : InfoS Nat :=
  { cost_primal := 7, cost_dual := 6, res_primal := 1, res_dual := 2, res_primal_inf := 0,
    res_dual_inf := 0, gap_abs := 1, gap_rel := 1, ktratio := 0, prev_cost_primal := 0,
    prev_cost_dual := 0, prev_res_primal := 0, prev_res_dual := 0, prev_gap_abs := 0,
    prev_gap_rel := 0, iterations := 4, status := .primalInfeasible }

/-- `Solution.post_process` succeeds on a concrete input with a presolve map (3 rows, the
middle one dropped): the hypotheses `… = .ok r` of the structural theorems are satisfiable,
the objective is NaN (`none`) for the infeasible status, lengths are `1, 3, 3`. -/
example :
    (Unscale.postProcess (Unscale.Solution.new 1 3)
      { d := #[2], dinv := #[1], e := #[1, 3], einv := #[1, 1], c := 1 }
      (some { keep := #[true, false, true], infbound := 99 })
      { x := #[5], s := #[1, 2], z := #[3, 4], τ := 1, κ := 1 } exInfoNat).toOption.map
        (fun r => (r.1.x, r.1.s, r.1.z, r.1.obj_val, r.1.iterations))
    = some (#[10], #[1, 99, 2], #[3, 0, 12], none, 4) := by
  decide +kernel

end Clarabel.C01
