/-
  C16 — sparse-matrix operations agree with their dense mathematical meaning.
  Property theorems only; helper lemmas live in `ClarabelProofs/Lemmas`.
-/
import ClarabelModel.Csc

namespace Clarabel.C16
open Clarabel Csc

variable {α : Type}

/-- no adjacent pair of the list satisfies `bad` -/
def NoBadAdjacent (bad : Nat → Nat → Prop) : List Nat → Prop
  | a :: b :: rest => ¬ bad a b ∧ NoBadAdjacent bad (b :: rest)
  | _ => True

theorem anyAdjacent_false_iff (bad : Nat → Nat → Bool) (l : List Nat) :
    anyAdjacent bad l = false ↔ NoBadAdjacent (fun a b => bad a b = true) l := by
  induction l with
  | nil => simp [anyAdjacent, NoBadAdjacent]
  | cons a t ih =>
    cases t with
    | nil => simp [anyAdjacent, NoBadAdjacent]
    | cons b rest =>
      simp only [anyAdjacent, NoBadAdjacent, Bool.or_eq_false_iff]
      rw [ih]
      simp

/-- The canonical encodings, exactly as the property states them: consistent lengths,
`colptr` monotone with last entry `nnz`, row indices strictly increasing inside every
column and all `< m`.  (`colptr[0] = 0` is *not* demanded — neither does the code.) -/
structure Canonical (M : Csc α) : Prop where
  len_eq : M.rowval.size = M.nzval.size
  colptr_size : M.colptr.size = M.n + 1
  colptr_last : M.colptr.getD M.n 0 = M.rowval.size
  colptr_mono : NoBadAdjacent (fun a b => a > b) M.colptr.toList
  rows_sorted : ∀ j, j < M.n → NoBadAdjacent (fun a b => a ≥ b) (M.colRows j)
  rows_bound : ∀ r ∈ M.rowval.toList, r < M.m

/-- [S] `check_format` accepts exactly the canonical encodings. -/
theorem check_format_iff (M : Csc α) : M.checkFormat = .ok () ↔ Canonical M := by
  unfold checkFormat checkDimensions
  constructor
  · intro h
    split at h
    · cases h
    · rename_i hd
      split at hd
      · cases hd
      · rename_i h1
        split at hd
        · cases hd
        · rename_i h2
          split at hd
          · cases hd
          · rename_i h3
            split at h
            · cases h
            · rename_i h4
              split at h
              · cases h
              · rename_i h5
                simp only [bne_iff_ne, ne_eq, Decidable.not_not] at h1
                simp only [Bool.or_eq_true, beq_iff_eq, bne_iff_ne, ne_eq, not_or, Decidable.not_not] at h2
                have h3' := (anyAdjacent_false_iff _ _).mp (by simpa using h3)
                refine ⟨h1, by omega, h2.2, ?_, ?_, ?_⟩
                · simpa using h3'
                · intro j hj
                  have : anyAdjacent (fun a b => decide (a ≥ b)) (M.colRows j) = false := by
                    have h4' : ∀ x, x < M.n → anyAdjacent (fun a b => decide (a ≥ b)) (M.colRows x) = false := by
                      simpa using h4
                    exact h4' j hj
                  simpa using (anyAdjacent_false_iff _ _).mp this
                · intro r hr
                  have hall : (M.rowval.toList.all (fun r => decide (r < M.m))) = true := by
                    cases hb : (M.rowval.toList.all (fun r => decide (r < M.m))) with
                    | true => rfl
                    | false => exact absurd (by rw [hb]; rfl) h5
                  exact of_decide_eq_true (List.all_eq_true.mp hall r hr)
  · intro ⟨h1, h2, h3, h4, h5, h6⟩
    have e1 : (M.rowval.size != M.nzval.size) = false := by simp [h1]
    have e2 : (M.colptr.size == 0 || M.colptr.size - 1 != M.n || M.colptr.getD M.n 0 != M.rowval.size) = false := by
      simp [h2, h3]
    have e3 : anyAdjacent (fun a b => decide (a > b)) M.colptr.toList = false :=
      (anyAdjacent_false_iff _ _).mpr (by simpa using h4)
    have e4 : (List.range M.n).any (fun j => anyAdjacent (fun a b => decide (a ≥ b)) (M.colRows j)) = false := by
      simp only [List.any_eq_false, List.mem_range]
      intro j hj
      simpa using (anyAdjacent_false_iff _ _).mpr (by simpa using h5 j hj)
    have e5 : (M.rowval.toList.all (fun r => decide (r < M.m))) = true :=
      List.all_eq_true.mpr (fun r hr => decide_eq_true (h6 r hr))
    simp only [e1, e2, e3, e4, e5, Bool.false_eq_true, ↓reduceIte, Bool.not_true]

/-- non-vacuity: a concrete 3×2 matrix is canonical and accepted. -/
example : (⟨3, 2, #[0, 2, 4], #[0, 1, 0, 2], #[1, 3, 2, 4]⟩ : Csc Nat).checkFormat = .ok () := by rfl

end Clarabel.C16
