/-
  C16 — sparse-matrix operations agree with their dense mathematical meaning.
  Property theorems only; helper lemmas live in `ClarabelProofs/Lemmas/Csc*.lean`
  (`Canonical`, `NoBadAdjacent` are defined in `Lemmas/CscBasic.lean`, namespace
  `Clarabel.C16`).

  Classes: [S] structural — holds for every scalar type, `Float` included;
           [F] exact arithmetic (commutative ring / ordered field).
-/
import ClarabelProofs.Lemmas.CscBasic
import ClarabelProofs.Lemmas.CscFormat
import ClarabelProofs.Lemmas.CscSort
import ClarabelProofs.Lemmas.CscGemv
import ClarabelProofs.Lemmas.CscEntry
import ClarabelProofs.Lemmas.CscScale
import ClarabelProofs.Lemmas.CscSym
import ClarabelProofs.Lemmas.CscCat
import ClarabelProofs.Lemmas.CscReduce
import ClarabelProofs.Lemmas.VecKernels
import ClarabelProofs.Lemmas.CscMisc
import ClarabelProofs.Lemmas.CscHvcat
import ClarabelProofs.Lemmas.VecMeanBounds
import ClarabelModel.Cones.Nonsym
import ClarabelProofs.Lemmas.DensePack
import ClarabelProofs.Lemmas.DenseBlas
import ClarabelProofs.Lemmas.DenseLapack
import ClarabelProofs.Lemmas.DenseBlockdiag
import ClarabelProofs.Lemmas.DenseQuad
import ClarabelProofs.Lemmas.DenseNorms
import ClarabelProofs.Lemmas.DenseSvec
import ClarabelProofs.Lemmas.DensePinv
import ClarabelProofs.Lemmas.DenseCscBridgeCat
import ClarabelProofs.Lemmas.DenseCscBridgeNorms

namespace Clarabel.C16
open Clarabel Csc

variable {α : Type}

/-- [S] `check_format` accepts exactly the canonical encodings: consistent lengths, `colptr`
starting at 0, monotone and ending at `nnz`, row indices strictly increasing inside every
column and all `< m` (`Canonical0` = `Canonical` ∧ `colptr[0] = 0`).  Since /repo 190e6c4;
before that fix the code accepted every `Canonical` encoding, also those whose first
`colptr[0]` stored entries belong to no column (`Csc.checkFormatOld_iff`). -/
theorem check_format_iff (M : Csc α) : M.checkFormat = .ok () ↔ Canonical0 M :=
  checkFormat_iff0 M

/-- [S] corollary for users of the column-wise predicate: an accepted encoding is
`Canonical` (and starts at 0). -/
theorem check_format_canonical (M : Csc α) (h : M.checkFormat = .ok ()) : Canonical M :=
  ((check_format_iff M).mp h).canon

/-- [S] the error kind for a shifted encoding: dimensions consistent but `colptr[0] ≠ 0` gives
`BadColptr` from `check_format` (and hence from `canonicalize`, see
`canonicalize_rejects_shifted`). -/
theorem check_format_shifted (M : Csc α) (hd : dimsConsistent M) (h0 : M.colptr.getD 0 0 ≠ 0) :
    M.checkFormat = .error .badColptr := by
  unfold checkFormat
  rw [checkDimensions_shifted M hd h0]

/-- non-vacuity of `check_format_shifted`, and the pre-fix behaviour on the same input (the
finding): the old `check_format` accepted `m=1 n=1 colptr=[1,1] rowval=[0] nzval=[5]`. -/
example : (⟨1, 1, #[1, 1], #[0], #[5]⟩ : Csc Int).checkFormat = .error .badColptr ∧
    (⟨1, 1, #[1, 1], #[0], #[5]⟩ : Csc Int).checkFormatOld = .ok () :=
  ⟨check_format_shifted _ ⟨rfl, rfl, rfl⟩ (by decide), by rfl⟩

/-- non-vacuity: a concrete 3×2 matrix is canonical and accepted. -/
example : (⟨3, 2, #[0, 2, 4], #[0, 1, 0, 2], #[1, 3, 2, 4]⟩ : Csc Nat).checkFormat = .ok () := by rfl

/-- the concrete matrix used by the non-vacuity examples below -/
def exM : Csc Int := ⟨3, 3, #[0, 2, 3, 5], #[0, 2, 1, 0, 2], #[1, 3, 2, 4, 5]⟩
theorem exM_canonical : Canonical exM := check_format_canonical exM (by rfl)
theorem exM_canonical0 : Canonical0 exM := (check_format_iff exM).mp (by rfl)

/-! ### select_rows (used by C09) -/

/-- [S] `select_rows` on a canonical matrix succeeds, returns a canonical matrix with
`count keep` rows and the same columns, and row `rankBefore keep i` of the result is row
`i` of the input for every kept `i`: the stored values at each position are the same list
(hence the same dense value, for every scalar type). -/
theorem selectRows_spec [Add α] [OfNat α 0] (M : Csc α) (keep : Array Bool)
    (hM : Canonical M) (hk : keep.size = M.m) :
    ∃ R, M.selectRows keep = .ok R ∧ Canonical R ∧
      R.m = (keep.toList.filter id).length ∧ R.n = M.n ∧
      ∀ i j, i < M.m → j < M.n → keep.getD i false = true →
        R.toDense (rankBefore keep i) j = M.toDense i j := by
  have hrows : (M.rowval.toList.all (fun r => decide (r < M.m))) = true :=
    List.all_eq_true.mpr (fun r hr => decide_eq_true (hM.rows_bound r hr))
  refine ⟨ofCols (keep.toList.filter id).length M.n ((List.range M.n).map (fun j =>
    ((M.col j).filter (fun e => keep.getD e.1 false)).map (fun e => (rankBefore keep e.1, e.2)))),
    ?_, ?_, rfl, rfl, ?_⟩
  · unfold selectRows
    simp only [hk, bne_self_eq_false, Bool.false_eq_true, ↓reduceIte, hrows, Bool.not_true]
    rfl
  · apply canonical_ofCols
    · simp
    · intro c hc
      simp only [List.mem_map, List.mem_range] at hc
      obtain ⟨j, hj, rfl⟩ := hc
      obtain ⟨hs, hb⟩ := colOK_of_canonical hM j hj
      constructor
      · rw [List.map_map, List.pairwise_map]
        have hs' : (M.col j).Pairwise (fun a b => a.1 < b.1) := by
          rwa [List.pairwise_map] at hs
        refine (hs'.filter _).imp_of_mem ?_
        intro a b ha hb' hab
        simp only [List.mem_filter] at ha hb'
        exact rankBefore_lt_of_lt keep a.1 b.1 hab (by have := hb b hb'.1; omega) ha.2
      · intro e he
        simp only [List.mem_map, List.mem_filter] at he
        obtain ⟨e', ⟨he', hke⟩, rfl⟩ := he
        exact rankBefore_lt_count keep e'.1 (by have := hb e' he'; omega) hke
  · intro i j hi hj hki
    rw [toDense_eq_foldl_colVals, toDense_eq_foldl_colVals, col_ofCols _ _ _ j (by simpa using hj)]
    simp only [List.getElem_map, List.getElem_range]
    rw [colVals_map_filter (M.col j) (fun r => keep.getD r false) (rankBefore keep) i hki]
    intro e he hke
    exact rankBefore_inj keep e.1 i (by have := (colOK_of_canonical hM j hj).2 e he; omega) (by omega) hke hki

/-- [S] every row of the `select_rows` result is the image of a kept row. -/
theorem selectRows_rows_onto (keep : Array Bool) (r : Nat) (hr : r < (keep.toList.filter id).length) :
    ∃ i, i < keep.size ∧ keep.getD i false = true ∧ rankBefore keep i = r :=
  rankBefore_surj keep r hr

/-- non-vacuity of `selectRows_spec` -/
example : ∃ R, exM.selectRows #[true, false, true] = .ok R ∧ Canonical R :=
  let ⟨R, h1, h2, _⟩ := selectRows_spec exM #[true, false, true] exM_canonical rfl
  ⟨R, h1, h2⟩


/-! ### to_triu (used by C05) -/

/-- [S] `to_triu` of a canonical square matrix succeeds, returns a canonical upper
triangular matrix of the same shape whose entries on and above the diagonal are those of
the input (same stored values, any scalar type) and which stores nothing below it. -/
theorem toTriu_spec [Add α] [OfNat α 0] (M : Csc α) (hM : Canonical M) (hsq : M.m = M.n) :
    ∃ R, M.toTriu = .ok R ∧ Canonical R ∧ R.m = M.m ∧ R.n = M.n ∧ R.isTriu = true ∧
      ∀ i j, j < M.n → R.toDense i j = if i ≤ j then M.toDense i j else 0 := by
  have hcols : (List.range M.n).map (fun j =>
      (M.col j).take (((M.col j).filter (fun e => decide (e.1 ≤ j))).length)) =
      (List.range M.n).map (fun j => (M.col j).filter (fun e => decide (e.1 ≤ j))) := by
    apply List.map_congr_left
    intro j hj
    exact take_filter_length_of_sorted (M.col j) (fun r => decide (r ≤ j))
      (colOK_of_canonical hM j (List.mem_range.mp hj)).1
      (fun a b hab hb => by simp only [decide_eq_true_eq] at hb ⊢; omega)
  refine ⟨ofCols M.m M.n ((List.range M.n).map (fun j =>
    (M.col j).filter (fun e => decide (e.1 ≤ j)))), ?_, ?_, rfl, rfl, ?_, ?_⟩
  · unfold toTriu
    simp only [hsq, bne_self_eq_false, Bool.false_eq_true, ↓reduceIte]
    rw [← hcols, ← hsq]
    rfl
  · apply canonical_ofCols
    · simp
    · intro c hc
      simp only [List.mem_map, List.mem_range] at hc
      obtain ⟨j, hj, rfl⟩ := hc
      exact colOK_filter _ _ _ (colOK_of_canonical hM j hj)
  · unfold isTriu
    simp only [ofCols_n, List.all_eq_true, List.mem_range, decide_eq_true_eq]
    intro j hj r hr
    rw [colRows_ofCols _ _ _ j (by simpa using hj)] at hr
    simp only [List.getElem_map, List.getElem_range, List.mem_map, List.mem_filter,
      decide_eq_true_eq] at hr
    obtain ⟨e, ⟨_, he⟩, rfl⟩ := hr
    exact he
  · intro i j hj
    rw [toDense_eq_foldl_colVals, toDense_eq_foldl_colVals, col_ofCols _ _ _ j (by simpa using hj)]
    simp only [List.getElem_map, List.getElem_range]
    rw [colVals_filter (M.col j) (fun r => decide (r ≤ j)) i]
    by_cases hij : i ≤ j <;> simp [hij]

/-- non-vacuity of `toTriu_spec` -/
example : ∃ R, exM.toTriu = .ok R ∧ Canonical R ∧ R.isTriu = true :=
  let ⟨R, h1, h2, _, _, h3, _⟩ := toTriu_spec exM exM_canonical rfl
  ⟨R, h1, h2, h3⟩

/-! ### transpose -/

/-- [S] the dense meaning of `transpose` (`From<Adjoint>`): entry `(j,i)` of the result
holds exactly the values stored at `(i,j)` of the input, for any well-dimensioned input
and any scalar type. -/
theorem transpose_dense [Add α] [OfNat α 0] (M : Csc α) (i j : Nat) (hi : i < M.m) (hj : j < M.n) :
    M.transpose.toDense j i = M.toDense i j := by
  rw [toDense_eq_foldl_colVals, toDense_eq_foldl_colVals]
  unfold transpose
  rw [col_ofCols _ _ _ i (by simpa using hi)]
  simp only [List.getElem_map, List.getElem_range]
  rw [colVals_flatten, List.map_map]
  rw [flatten_map_range_single M.n j _ hj]
  · simp only [Function.comp]
    unfold colVals
    rw [List.filter_map, List.map_map]
    have : ((M.col j).filter (fun e => e.1 == i)).filter ((fun e : Nat × α => e.1 == j) ∘ fun e => (j, e.2))
        = (M.col j).filter (fun e => e.1 == i) := by
      rw [List.filter_eq_self]; intro a _; simp
    rw [this]
    rfl
  · intro k _ hkj
    simp only [Function.comp]
    apply colVals_eq_nil_of_not_mem
    intro e he
    simp only [List.mem_map] at he
    obtain ⟨_, _, rfl⟩ := he
    exact hkj

/-- [S] `transpose` maps canonical matrices to canonical matrices of the swapped shape. -/
theorem transpose_canonical (M : Csc α) (hM : Canonical M) :
    Canonical M.transpose ∧ M.transpose.m = M.n ∧ M.transpose.n = M.m := by
  refine ⟨?_, rfl, rfl⟩
  unfold transpose
  apply canonical_ofCols
  · simp
  · intro c hc
    simp only [List.mem_map, List.mem_range] at hc
    obtain ⟨i, _, rfl⟩ := hc
    constructor
    · rw [List.map_flatten, List.map_map, List.pairwise_flatten]
      constructor
      · intro l hl
        simp only [List.mem_map, List.mem_range, Function.comp] at hl
        obtain ⟨j, hj, rfl⟩ := hl
        have hlen := filter_row_length_le_one (M.col j) i (colOK_of_canonical hM j hj).1
        match hf : (M.col j).filter (fun e => e.1 == i) with
        | [] => rw [hf]; simp
        | [_] => rw [hf]; simp
        | _ :: _ :: _ => rw [hf] at hlen; simp at hlen
      · rw [List.pairwise_map]
        refine List.Pairwise.imp ?_ List.pairwise_lt_range
        intro a b hab x hx y hy
        simp only [Function.comp, List.mem_map] at hx hy
        obtain ⟨_, ⟨_, _, rfl⟩, rfl⟩ := hx
        obtain ⟨_, ⟨_, _, rfl⟩, rfl⟩ := hy
        exact hab
    · intro e he
      simp only [List.mem_flatten, List.mem_map, List.mem_range] at he
      obtain ⟨_, ⟨j, hj, rfl⟩, he⟩ := he
      simp only [List.mem_map] at he
      obtain ⟨_, _, rfl⟩ := he
      exact hj

/-- non-vacuity of `transpose_canonical` / `transpose_dense` -/
example : Canonical exM.transpose ∧ exM.transpose.toDense 2 0 = exM.toDense 0 2 :=
  ⟨(transpose_canonical exM exM_canonical).1, transpose_dense exM 0 2 (by decide) (by decide)⟩


/-! ### canonicalize = deduplicate ∘ sort_indices, new_from_triplets -/

/-- [S] `canonicalize` fails exactly when `check_dimensions` does, with the same error. -/
theorem canonicalize_error_iff [Add α] (M : Csc α) (e : FormatError) :
    M.canonicalize = .error e ↔ M.checkDimensions = .error e := by
  unfold canonicalize
  cases h : M.checkDimensions with
  | error e' => simp
  | ok u => simp

/-- [F] (additive monoid: duplicates are added up) `canonicalize` of a dimensionally
consistent encoding with in-range rows — columns possibly unsorted and with repeated
entries — succeeds and returns a canonical matrix of the same shape and the same dense
meaning. -/
theorem canonicalize_spec [AddMonoid α] (M : Csc α) (hd : M.checkDimensions = .ok ())
    (hb : ∀ r ∈ M.rowval.toList, r < M.m) :
    ∃ R, M.canonicalize = .ok R ∧ Canonical R ∧ R.m = M.m ∧ R.n = M.n ∧
      ∀ i j, j < M.n → R.toDense i j = M.toDense i j := by
  refine ⟨M.sortIndices.deduplicate, ?_, ?_, rfl, rfl, ?_⟩
  · unfold canonicalize; rw [hd]
  · unfold deduplicate cols
    apply canonical_ofCols
    · simp [sortIndices]
    · intro c hc
      simp only [List.mem_map, List.mem_range] at hc
      obtain ⟨_, ⟨j, hj, rfl⟩, rfl⟩ := hc
      have hj' : j < M.n := hj
      rw [col_sortIndices M j hj']
      exact colOK_dedupe_sort M.m (M.col j) (fun e he => hb _ (mem_col_rowval M j e he))
  · intro i j hj
    rw [toDense_eq_sum_colVals, toDense_eq_sum_colVals,
      col_deduplicate _ j (by simpa [sortIndices] using hj), col_sortIndices M j hj,
      colVals_sum_dedupeRows, colVals_sortByRow]

/-- non-vacuity of `canonicalize_spec`: an unsorted column with a duplicate -/
example : ∃ R, (⟨2, 1, #[0, 3], #[1, 0, 1], #[5, 7, 2]⟩ : Csc Int).canonicalize = .ok R ∧
    Canonical R ∧ R.toDense 1 0 = 7 := by
  obtain ⟨R, h1, h2, _, _, h3⟩ := canonicalize_spec (⟨2, 1, #[0, 3], #[1, 0, 1], #[5, 7, 2]⟩ : Csc Int)
    (by rfl) (by decide)
  exact ⟨R, h1, h2, by rw [h3 1 0 (by decide)]; rfl⟩

/-- [F] (additive monoid) `new_from_triplets` on in-range triplets — in any order, with
repetitions — succeeds and returns a canonical `m × n` matrix whose `(i,j)` entry is the
sum of the values of all triplets at `(i,j)`. -/
theorem newFromTriplets_spec [AddMonoid α] (m n : Nat) (I J : Array Nat) (V : Array α)
    (hIJ : I.size = J.size) (hIV : I.size = V.size)
    (hJ : ∀ c ∈ J.toList, c < n) (hI : ∀ r ∈ I.toList, r < m) :
    ∃ R, newFromTriplets m n I J V = .ok R ∧ Canonical R ∧ R.m = m ∧ R.n = n ∧
      ∀ i j, j < n → R.toDense i j =
        (((I.toList.zip (J.toList.zip V.toList)).filter
          (fun t => t.1 == i && t.2.1 == j)).map (·.2.2)).sum := by
  have hJ' : (J.toList.any (fun c => decide (c > n))) = false := by
    rw [List.any_eq_false]
    intro c hc
    have := hJ c hc
    simp; omega
  refine ⟨ofCols m n ((List.range n).map (fun c => dedupeRows (sortByRow
    (((I.toList.zip (J.toList.zip V.toList)).filter (fun t => t.2.1 == c)).map
      (fun t => (t.1, t.2.2)))))), ?_, ?_, rfl, rfl, ?_⟩
  · unfold newFromTriplets
    simp only [hIJ, ← hIV, bne_self_eq_false, Bool.or_self, Bool.false_eq_true, ↓reduceIte, hJ']
    rfl
  · apply canonical_ofCols
    · simp
    · intro c hc
      simp only [List.mem_map, List.mem_range] at hc
      obtain ⟨j, _, rfl⟩ := hc
      apply colOK_dedupe_sort
      intro e he
      simp only [List.mem_map, List.mem_filter] at he
      obtain ⟨t, ⟨ht, _⟩, rfl⟩ := he
      exact hI _ (List.of_mem_zip ht).1
  · intro i j hj
    rw [toDense_eq_sum_colVals, col_ofCols _ _ _ j (by simpa using hj)]
    simp only [List.getElem_map, List.getElem_range]
    rw [colVals_sum_dedupeRows, colVals_sortByRow]
    unfold colVals
    rw [List.filter_map, List.filter_filter, List.map_map]
    rfl

/-- non-vacuity of `newFromTriplets_spec`: unsorted triplets with a repeated position -/
example : ∃ R, newFromTriplets 2 2 #[1, 0, 1] #[1, 0, 1] #[(5 : Int), 7, 2] = .ok R ∧
    Canonical R ∧ R.toDense 1 1 = 7 := by
  obtain ⟨R, h1, h2, _, _, h3⟩ := newFromTriplets_spec 2 2 #[1, 0, 1] #[1, 0, 1] #[(5 : Int), 7, 2]
    rfl rfl (by decide) (by decide)
  exact ⟨R, h1, h2, by rw [h3 1 1 (by decide)]; rfl⟩


/-! ### gemv -/

/-- [F] (commutative ring) `gemv` without transpose — all four `b` paths and all four `a`
paths — on a canonical matrix and vectors of matching length does not panic and returns
`b·y + a·A·x`, with `A` read through its dense meaning. -/
theorem gemvN_spec [CommRing α] [DecidableEq α] (A : Csc α) (y x : Array α) (a b : α)
    (hA : Canonical A) (hx : x.size = A.n) (hy : y.size = A.m) :
    ∃ y', A.gemvN y x a b = .ok y' ∧ y'.size = A.m ∧
      ∀ i, i < A.m → y'[i]? =
        some (b * y.getD i 0 + a * ∑ j ∈ Finset.range A.n, A.toDense i j * x.getD j 0) := by
  have hsz : (applyB b y).size = A.m := by rw [applyB_size, hy]
  have hget : ∀ i, i < A.m → (applyB b y)[i]? = some (b * y.getD i 0) := by
    intro i hi
    rw [applyB_get b y i (by omega), Array.getD_eq_getD_getElem?,
      Array.getElem?_eq_getElem (by omega)]
    rfl
  have hdense : ∀ i, (∑ j ∈ Finset.range A.n, (colVals (A.col j) i).sum * x.getD j 0)
      = ∑ j ∈ Finset.range A.n, A.toDense i j * x.getD j 0 := by
    intro i
    apply Finset.sum_congr rfl
    intro j _
    rw [toDense_eq_sum_colVals]
  have hbound : ∀ (g : α → α → α), ∀ e ∈ gemvTerms A x g, e.1 < (applyB b y).size := by
    intro g e he
    rw [gemvTerms_eq A x g 0] at he
    simp only [List.mem_flatten, List.mem_map, List.mem_range] at he
    obtain ⟨_, ⟨j, hj, rfl⟩, he⟩ := he
    simp only [List.mem_map] at he
    obtain ⟨e', he', rfl⟩ := he
    rw [hsz]
    exact (colOK_of_canonical hA j (by omega)).2 e' he'
  unfold gemvN
  by_cases ha0 : a = 0
  · refine ⟨applyB b y, by simp [ha0]; rfl, hsz, fun i hi => ?_⟩
    rw [hget i hi, ha0]; simp
  · have ha0' : (a == 0) = false := by simpa using ha0
    simp only [ha0', Bool.false_eq_true, ↓reduceIte, nzvalMatchesColptr_of_canonical hA, hx,
      bne_self_eq_false]
    by_cases ha1 : a = 1
    · simp only [ha1, beq_self_eq_true, ↓reduceIte]
      obtain ⟨y', h1, h2, h3⟩ := scatter_spec (fun yi t => yi + t) (applyB b y)
        (gemvTerms A x (fun v xj => v * xj)) (hbound _)
      refine ⟨y', h1, by rw [h2, hsz], fun i hi => ?_⟩
      rw [h3 i (by omega), hget i hi, Option.map_some, foldl_add_eq, gemvTerms_eq A x _ 0, hx,
        sum_colVals_terms A.n A.col (fun j => x.getD j 0) (fun v xj => v * xj) 1
          (fun v xj => by rw [one_mul]), hdense]
    · have ha1' : (a == 1) = false := by simpa using ha1
      simp only [ha1', Bool.false_eq_true, ↓reduceIte]
      by_cases ham : a = -1
      · simp only [ham, beq_self_eq_true, ↓reduceIte]
        obtain ⟨y', h1, h2, h3⟩ := scatter_spec (fun yi t => yi - t) (applyB b y)
          (gemvTerms A x (fun v xj => v * xj)) (hbound _)
        refine ⟨y', h1, by rw [h2, hsz], fun i hi => ?_⟩
        rw [h3 i (by omega), hget i hi, Option.map_some, foldl_sub_eq, gemvTerms_eq A x _ 0, hx,
          sum_colVals_terms A.n A.col (fun j => x.getD j 0) (fun v xj => v * xj) 1
            (fun v xj => by rw [one_mul]), hdense]
        rw [one_mul, neg_one_mul, sub_eq_add_neg]
      · have ham' : (a == -1) = false := by simpa using ham
        simp only [ham', Bool.false_eq_true, ↓reduceIte]
        obtain ⟨y', h1, h2, h3⟩ := scatter_spec (fun yi t => yi + t) (applyB b y)
          (gemvTerms A x (fun v xj => a * v * xj)) (hbound _)
        refine ⟨y', h1, by rw [h2, hsz], fun i hi => ?_⟩
        rw [h3 i (by omega), hget i hi, Option.map_some, foldl_add_eq, gemvTerms_eq A x _ 0, hx,
          sum_colVals_terms A.n A.col (fun j => x.getD j 0) (fun v xj => a * v * xj) a
            (fun v xj => rfl), hdense]

/-- non-vacuity of `gemvN_spec` -/
example : ∃ y', exM.gemvN #[1, 1, 1] #[1, 2, 3] 2 (-1) = .ok y' ∧ y'.size = 3 :=
  let ⟨y', h1, h2, _⟩ := gemvN_spec exM #[1, 1, 1] #[1, 2, 3] 2 (-1) exM_canonical rfl rfl
  ⟨y', h1, h2⟩


/-- [F] (commutative ring) transposed `gemv` (`A.t().gemv`), all fast paths, on a
canonical matrix and vectors of matching length does not panic and returns
`b·y + a·Aᵀ·x`. -/
theorem gemvT_spec [CommRing α] [DecidableEq α] (A : Csc α) (y x : Array α) (a b : α)
    (hA : Canonical A) (hx : x.size = A.m) (hy : y.size = A.n) :
    ∃ y', A.gemvT y x a b = .ok y' ∧ y'.size = A.n ∧
      ∀ j, j < A.n → y'[j]? =
        some (b * y.getD j 0 + a * ∑ i ∈ Finset.range A.m, A.toDense i j * x.getD i 0) := by
  have hsz : (applyB b y).size = A.n := by rw [applyB_size, hy]
  have hget : ∀ j, j < A.n → (applyB b y)[j]? = some (b * y.getD j 0) := by
    intro j hj
    rw [applyB_get b y j (by omega), Array.getD_eq_getD_getElem?,
      Array.getElem?_eq_getElem (by omega)]
    rfl
  unfold gemvT
  by_cases ha0 : a = 0
  · refine ⟨applyB b y, by simp [ha0]; rfl, hsz, fun j hj => ?_⟩
    rw [hget j hj, ha0]; simp
  · have ha0' : (a == 0) = false := by simpa using ha0
    simp only [ha0', Bool.false_eq_true, ↓reduceIte, nzvalMatchesColptr_of_canonical hA, hx,
      bne_self_eq_false]
    have hupd : ∀ acc v xr : α,
        (if (a == 1) = true then acc + (if (a == 1) = true then v * xr else if (a == -1) = true then v * xr else a * v * xr)
         else if (a == -1) = true then acc - (if (a == 1) = true then v * xr else if (a == -1) = true then v * xr else a * v * xr)
         else acc + (if (a == 1) = true then v * xr else if (a == -1) = true then v * xr else a * v * xr))
        = acc + a * v * xr := by
      intro acc v xr
      by_cases h1 : a = 1
      · simp [h1]
      · by_cases hm : a = -1
        · have : ¬ (-1 : α) = 1 := fun h => h1 (hm.trans h)
          simp [hm, this, sub_eq_add_neg]
        · simp [h1, hm]
    have hmap := mapM_eq_ok (applyB b y).toList.zipIdx
      (fun (p : α × Nat) => if p.2 < A.n then colDotM (A.col p.2) x
        (fun (acc t : α) => if a == 1 then acc + t else if a == -1 then acc - t else acc + t)
        (fun (v xr : α) => if a == 1 then v * xr else if a == -1 then v * xr else a * v * xr) p.1
        else pure p.1)
      (fun p => if p.2 < A.n then p.1 + a * ((A.col p.2).map (fun e => e.2 * x.getD e.1 0)).sum else p.1)
      (by
        intro p _
        by_cases hp : p.2 < A.n
        · simp only [hp, ↓reduceIte]
          rw [colDotM_eq _ x _ _ p.1 0 (fun e he => by
            have := (colOK_of_canonical hA p.2 hp).2 e he; omega)]
          simp only [hupd]
          rw [foldl_upd_add (A.col p.2) a (fun i => x.getD i 0) p.1]
        · simp only [hp, ↓reduceIte]; rfl)
    simp only [hmap]
    refine ⟨_, rfl, by simp [hsz], fun j hj => ?_⟩
    have hj' : j < (applyB b y).size := by omega
    have hgj := hget j hj
    rw [Array.getElem?_eq_getElem hj'] at hgj
    simp only [Option.some.injEq] at hgj
    simp only [List.getElem?_toArray, List.getElem?_map, List.getElem?_zipIdx, Array.getElem?_toList,
      Array.getElem?_eq_getElem hj', Option.map_some, Nat.zero_add, hj, ↓reduceIte, hgj]
    rw [sum_col_mul_eq (A.col j) (fun i => x.getD i 0) A.m (colOK_of_canonical hA j hj).2]
    congr 3
    apply Finset.sum_congr rfl
    intro i _
    rw [toDense_eq_sum_colVals]

/-- non-vacuity of `gemvT_spec` -/
example : ∃ y', exM.gemvT #[1, 1, 1] #[1, 2, 3] (-1) 0 = .ok y' ∧ y'.size = 3 :=
  let ⟨y', h1, h2, _⟩ := gemvT_spec exM #[1, 1, 1] #[1, 2, 3] (-1) 0 exM_canonical rfl rfl
  ⟨y', h1, h2⟩


/-! ### get_entry / set_entry -/

/-- [S] `get_entry` inside the bounds returns the stored value of the position, `none`
when nothing is stored there (statement of the model function; canonical columns hold at
most one entry per row). -/
theorem getEntry_eq (M : Csc α) (row col : Nat) (hr : row < M.m) (hc : col < M.n) :
    M.getEntry row col = .ok (((M.col col).find? (fun e => e.1 == row)).map (·.2)) := by
  unfold getEntry
  simp [hr, hc]
  rfl

/-- [S] `set_entry` / `get_entry` round trip on a canonical matrix, any scalar type:
the call succeeds, the result is canonical with the same shape, every other position reads
as before, and the written position reads back `v` — except that writing a zero to a
position that is not stored changes nothing ("no new zeros": the matrix is returned
unchanged and the position still reads `none`). -/
theorem setEntry_getEntry [Zero α] [DecidableEq α] (M : Csc α) (row col : Nat) (v : α)
    (hM : Canonical M) (hr : row < M.m) (hc : col < M.n) :
    ∃ R, M.setEntry row col v = .ok R ∧ Canonical R ∧ R.m = M.m ∧ R.n = M.n ∧
      (∀ i j, i < M.m → j < M.n → (i ≠ row ∨ j ≠ col) → R.getEntry i j = M.getEntry i j) ∧
      R.getEntry row col =
        (if M.getEntry row col = .ok none ∧ v = 0 then .ok none else .ok (some v)) ∧
      (M.getEntry row col = .ok none ∧ v = 0 → R = M) := by
  obtain ⟨hf, hcol⟩ := setCol_eq_upsert (M.col col) row v
  -- the column after the update, in both branches of the code
  have hnew : ∀ R, R = ofCols M.m M.n ((List.range M.n).map (fun j =>
      if j == col then (upsert row v (M.col col)).2 else M.col j)) →
      Canonical R ∧ R.m = M.m ∧ R.n = M.n ∧
      (∀ i j, i < M.m → j < M.n → (i ≠ row ∨ j ≠ col) → R.getEntry i j = M.getEntry i j) ∧
      R.getEntry row col = .ok (some v) := by
    intro R hR
    subst hR
    have hcolj : ∀ j, j < M.n → (ofCols M.m M.n ((List.range M.n).map (fun j =>
        if j == col then (upsert row v (M.col col)).2 else M.col j))).col j =
        if j = col then (upsert row v (M.col col)).2 else M.col j := by
      intro j hj
      rw [col_ofCols _ _ _ j (by simpa using hj)]
      simp
    refine ⟨?_, rfl, rfl, ?_, ?_⟩
    · apply canonical_ofCols
      · simp
      · intro c hc'
        simp only [List.mem_map, List.mem_range] at hc'
        obtain ⟨j, hj, rfl⟩ := hc'
        by_cases hjc : j = col
        · subst hjc
          simp only [beq_self_eq_true, ↓reduceIte]
          exact colOK_upsert M.m row v _ hr (colOK_of_canonical hM j hj)
        · have : (j == col) = false := by simpa using hjc
          simp only [this, Bool.false_eq_true, ↓reduceIte]
          exact colOK_of_canonical hM j hj
    · intro i j hi hj hne
      rw [getEntry_eq _ i j (by simpa using hi) (by simpa using hj), getEntry_eq M i j hi hj,
        hcolj j hj]
      by_cases hjc : j = col
      · subst hjc
        have hir : i ≠ row := by
          rcases hne with h | h
          · exact h
          · exact absurd rfl h
        simp only [↓reduceIte]
        rw [find_upsert_other row v (M.col j) i hir]
      · simp only [hjc, ↓reduceIte]
    · rw [getEntry_eq _ row col (by simpa using hr) (by simpa using hc), hcolj col hc]
      simp only [↓reduceIte]
      rw [find_upsert_self]
      rfl
  unfold setEntry
  simp only [hr, hc, decide_true, Bool.and_self, Bool.not_true, Bool.false_eq_true, ↓reduceIte]
  by_cases hfound : (upsert row v (M.col col)).1 = true
  · rw [hfound] at hf
    rw [hf] at hcol ⊢
    simp only [↓reduceIte] at hcol ⊢
    rw [hcol]
    obtain ⟨h1, h2, h3, h4, h5⟩ := hnew _ rfl
    obtain ⟨w, hw⟩ := find_some_of_upsert_true row v (M.col col) hfound
    have hget : M.getEntry row col = .ok (some w) := by
      rw [getEntry_eq M row col hr hc, hw]; rfl
    refine ⟨_, rfl, h1, h2, h3, h4, ?_, ?_⟩
    · rw [h5, hget]; simp
    · rw [hget]; intro h; simp at h
  · have hfound' : (upsert row v (M.col col)).1 = false := by simpa using hfound
    rw [hfound'] at hf
    rw [hf] at hcol ⊢
    simp only [Bool.false_eq_true, ↓reduceIte] at hcol ⊢
    have hget : M.getEntry row col = .ok none := by
      rw [getEntry_eq M row col hr hc,
        find_none_of_upsert_false row v (M.col col) (colOK_of_canonical hM col hc).1 hfound']
      rfl
    by_cases hv : v = 0
    · subst hv
      simp only [beq_self_eq_true, ↓reduceIte]
      exact ⟨M, rfl, hM, rfl, rfl, fun _ _ _ _ _ => rfl, by rw [hget]; simp, fun _ => rfl⟩
    · have hv' : (v == 0) = false := by simpa using hv
      simp only [hv', Bool.false_eq_true, ↓reduceIte]
      rw [hcol]
      obtain ⟨h1, h2, h3, h4, h5⟩ := hnew _ rfl
      refine ⟨_, rfl, h1, h2, h3, h4, ?_, ?_⟩
      · rw [h5]; simp [hv]
      · intro h; exact absurd h.2 hv

/-- non-vacuity of `setEntry_getEntry`: insertion of a new entry into `exM` -/
example : ∃ R, exM.setEntry 1 0 9 = .ok R ∧ Canonical R ∧ R.getEntry 1 0 = .ok (some 9) := by
  obtain ⟨R, h1, h2, _, _, _, h3, _⟩ := setEntry_getEntry exM 1 0 9 exM_canonical (by decide) (by decide)
  refine ⟨R, h1, h2, ?_⟩
  rw [h3]
  have : ¬ ((9 : Int) = 0) := by decide
  simp [this]


/-! ### dropzeros -/

/-- [F] (additive monoid) `dropzeros` keeps shape and canonical form, leaves the dense
meaning unchanged and stores no zero afterwards. -/
theorem dropzeros_spec [AddMonoid α] [DecidableEq α] (M : Csc α) (hM : Canonical M) :
    Canonical M.dropzeros ∧ M.dropzeros.m = M.m ∧ M.dropzeros.n = M.n ∧
      (∀ i j, j < M.n → M.dropzeros.toDense i j = M.toDense i j) ∧
      (∀ j, j < M.n → ∀ e ∈ M.dropzeros.col j, e.2 ≠ 0) := by
  have hcol : ∀ j, j < M.n → M.dropzeros.col j = (M.col j).filter (fun e => e.2 != 0) := by
    intro j hj
    unfold dropzeros cols
    rw [col_ofCols _ _ _ j (by simpa using hj)]
    simp
  refine ⟨?_, rfl, rfl, ?_, ?_⟩
  · unfold dropzeros cols
    apply canonical_ofCols
    · simp
    · intro c hc
      simp only [List.mem_map, List.mem_range] at hc
      obtain ⟨_, ⟨j, hj, rfl⟩, rfl⟩ := hc
      exact colOK_filter _ _ _ (colOK_of_canonical hM j hj)
  · intro i j hj
    rw [toDense_eq_sum_colVals, toDense_eq_sum_colVals, hcol j hj]
    generalize M.col j = c
    induction c with
    | nil => rfl
    | cons e t ih =>
      by_cases he : e.2 = 0
      · have : (e.2 != 0) = false := by simp [he]
        rw [List.filter_cons, this, if_neg (by simp), colVals_cons]
        by_cases hi : e.1 = i <;> simp [hi, ih, he]
      · have : (e.2 != 0) = true := by simp [he]
        rw [List.filter_cons, this, if_pos rfl, colVals_cons, colVals_cons]
        by_cases hi : e.1 = i <;> simp [hi, ih]
  · intro j hj e he
    rw [hcol j hj] at he
    simpa using (List.mem_filter.mp he).2

/-- non-vacuity of `dropzeros_spec` -/
example : Canonical exM.dropzeros := (dropzeros_spec exM exM_canonical).1


/-! ### scalings (used by C10) -/

/-- [F] (semiring) `scale`: same shape and pattern, canonical form kept, every dense entry
multiplied by `c`. -/
theorem scale_spec [Semiring α] (M : Csc α) (c : α) (hM : Canonical M) :
    Canonical (M.scale c) ∧ (M.scale c).m = M.m ∧ (M.scale c).n = M.n ∧
      (M.scale c).colptr = M.colptr ∧ (M.scale c).rowval = M.rowval ∧
      ∀ i j, (M.scale c).toDense i j = M.toDense i j * c := by
  refine ⟨canonical_of_same_pattern hM rfl rfl rfl rfl (by simp [scale]), rfl, rfl, rfl, rfl, ?_⟩
  intro i j
  rw [toDense_eq_sum_colVals, toDense_eq_sum_colVals,
    col_of_vals M (M.scale c) (fun _ v => v * c) rfl rfl
      (by rw [zipWith_const_left _ _ _ (by simpa using hM.len_eq)]; simp [scale]),
    colVals_map_val (M.col j) (fun v => v * c), sum_map_mul_right']

/-- [F] (ring) `negate`: same pattern, canonical form kept, every dense entry negated. -/
theorem negate_spec [Ring α] (M : Csc α) (hM : Canonical M) :
    Canonical M.negate ∧ M.negate.m = M.m ∧ M.negate.n = M.n ∧
      M.negate.colptr = M.colptr ∧ M.negate.rowval = M.rowval ∧
      ∀ i j, M.negate.toDense i j = - M.toDense i j := by
  refine ⟨canonical_of_same_pattern hM rfl rfl rfl rfl (by simp [negate]), rfl, rfl, rfl, rfl, ?_⟩
  intro i j
  rw [toDense_eq_sum_colVals, toDense_eq_sum_colVals,
    col_of_vals M M.negate (fun _ v => -v) rfl rfl
      (by rw [zipWith_const_left _ _ _ (by simpa using hM.len_eq)]; simp [negate]),
    colVals_map_val (M.col j) (fun v => -v), sum_map_neg']

/-- [F] (semiring) `lscale` = `Diagonal(l)·M`: with `l.len = m` no panic, same pattern,
canonical, entry `(i,j)` multiplied by `l i`. -/
theorem lscale_spec [Semiring α] (M : Csc α) (l : Array α) (hM : Canonical M) (hl : l.size = M.m) :
    ∃ R, M.lscale l = .ok R ∧ Canonical R ∧ R.m = M.m ∧ R.n = M.n ∧
      R.colptr = M.colptr ∧ R.rowval = M.rowval ∧
      ∀ i j, R.toDense i j = M.toDense i j * l.getD i 0 := by
  have hmap := mapM_eq_ok (M.nzval.toList.zip M.rowval.toList)
    (fun (p : α × Nat) => do
      let lr ← getE l p.2 "l[row]"
      pure (p.1 * lr))
    (fun p => p.1 * l.getD p.2 0)
    (by
      intro p hp
      have : p.2 < l.size := by rw [hl]; exact hM.rows_bound _ (List.of_mem_zip hp).2
      rw [getE_eq_ok l p.2 0 _ this]; rfl)
  have hlen : ((M.nzval.toList.zip M.rowval.toList).map (fun p => p.1 * l.getD p.2 0)).length
      = M.nzval.toList.length := by
    simp [hM.len_eq]
  refine ⟨{ M with nzval := ((M.nzval.toList.zip M.rowval.toList).map
    (fun p => p.1 * l.getD p.2 0)).toArray }, ?_, ?_, rfl, rfl, rfl, rfl, ?_⟩
  · unfold lscale
    rw [hmap]
    simp only [bind, Except.bind, pure, Except.pure]
    rw [hlen, List.drop_length, List.append_nil]
  · exact canonical_of_same_pattern hM rfl rfl rfl rfl (by simpa using hlen)
  · intro i j
    have hz := map_zip_eq_zipWith_swap M.nzval.toList M.rowval.toList (fun v r => v * l.getD r 0)
    have hc := col_of_vals M { M with nzval := ((M.nzval.toList.zip M.rowval.toList).map
        (fun p => p.1 * l.getD p.2 0)).toArray } (fun r v => v * l.getD r 0) rfl rfl
      (by simpa using hz) j
    rw [toDense_eq_sum_colVals, toDense_eq_sum_colVals, hc,
      colVals_map_rowval (M.col j) (fun r v => v * l.getD r 0), sum_map_mul_right']

/-- [F] (semiring) `rscale` = `M·Diagonal(r)`: with `r.len = n` no panic, canonical, same
shape, entry `(i,j)` multiplied by `r j`. -/
theorem rscale_spec [Semiring α] (M : Csc α) (r : Array α) (hM : Canonical M) (hr : r.size = M.n) :
    ∃ R, M.rscale r = .ok R ∧ Canonical R ∧ R.m = M.m ∧ R.n = M.n ∧
      ∀ i j, j < M.n → R.toDense i j = M.toDense i j * r.getD j 0 := by
  have hmap := mapM_eq_ok (List.range M.n)
    (fun i => do
      let ri ← getE r i "r[i]"
      pure ((M.col i).map (fun e => (e.1, e.2 * ri))))
    (fun i => (M.col i).map (fun e => (e.1, e.2 * r.getD i 0)))
    (by
      intro i hi
      rw [getE_eq_ok r i 0 _ (by rw [hr]; exact List.mem_range.mp hi)]; rfl)
  refine ⟨ofCols M.m M.n ((List.range M.n).map
    (fun i => (M.col i).map (fun e => (e.1, e.2 * r.getD i 0)))), ?_, ?_, rfl, rfl, ?_⟩
  · unfold rscale
    rw [nzvalMatchesColptr_of_canonical hM, hmap]
    rfl
  · apply canonical_ofCols
    · simp
    · intro c hc
      simp only [List.mem_map, List.mem_range] at hc
      obtain ⟨j, hj, rfl⟩ := hc
      exact colOK_map_val M.m (M.col j) (fun _ v => v * r.getD j 0) (colOK_of_canonical hM j hj)
  · intro i j hj
    rw [toDense_eq_sum_colVals, toDense_eq_sum_colVals, col_ofCols _ _ _ j (by simpa using hj)]
    simp only [List.getElem_map, List.getElem_range]
    rw [colVals_map_val (M.col j) (fun v => v * r.getD j 0), sum_map_mul_right']

/-- [F] (commutative ring) `lrscale` = `Diagonal(l)·M·Diagonal(r)`: with `l.len = m`,
`r.len = n` no panic, canonical, same shape, entry `(i,j)` becomes `l i · M i j · r j`. -/
theorem lrscale_spec [CommRing α] (M : Csc α) (l r : Array α) (hM : Canonical M)
    (hl : l.size = M.m) (hr : r.size = M.n) :
    ∃ R, M.lrscale l r = .ok R ∧ Canonical R ∧ R.m = M.m ∧ R.n = M.n ∧
      ∀ i j, j < M.n → R.toDense i j = l.getD i 0 * M.toDense i j * r.getD j 0 := by
  have hmap := mapM_eq_ok (List.range M.n) (lrscaleCol M l r)
    (fun i => (M.col i).map (fun e => (e.1, e.2 * (l.getD e.1 0 * r.getD i 0))))
    (by
      intro i hi
      have hi' : i < r.size := by rw [hr]; exact List.mem_range.mp hi
      unfold lrscaleCol
      rw [dif_pos hi']
      apply mapM_eq_ok
      intro e he
      have : e.1 < l.size := by
        rw [hl]; exact (colOK_of_canonical hM i (List.mem_range.mp hi)).2 e he
      rw [getE_eq_ok l e.1 0 _ this]
      simp [Array.getD_eq_getD_getElem?, Array.getElem?_eq_getElem hi'])
  refine ⟨ofCols M.m M.n ((List.range M.n).map
    (fun i => (M.col i).map (fun e => (e.1, e.2 * (l.getD e.1 0 * r.getD i 0))))), ?_, ?_, rfl, rfl, ?_⟩
  · unfold lrscale
    rw [nzvalMatchesColptr_of_canonical hM]
    have : ¬ r.size > M.n := by omega
    simp only [this, ↓reduceIte, hmap]
    rfl
  · apply canonical_ofCols
    · simp
    · intro c hc
      simp only [List.mem_map, List.mem_range] at hc
      obtain ⟨j, hj, rfl⟩ := hc
      exact colOK_map_val M.m (M.col j) (fun rr v => v * (l.getD rr 0 * r.getD j 0))
        (colOK_of_canonical hM j hj)
  · intro i j hj
    rw [toDense_eq_sum_colVals, toDense_eq_sum_colVals, col_ofCols _ _ _ j (by simpa using hj)]
    simp only [List.getElem_map, List.getElem_range]
    rw [colVals_map_rowval (M.col j) (fun rr v => v * (l.getD rr 0 * r.getD j 0)),
      sum_map_mul_right']
    simp only [mul_comm, mul_left_comm, mul_assoc]

/-- non-vacuity of the scaling theorems -/
example : ∃ R, exM.lrscale #[1, 2, 3] #[4, 5, 6] = .ok R ∧ Canonical R :=
  let ⟨R, h1, h2, _⟩ := lrscale_spec exM #[1, 2, 3] #[4, 5, 6] exM_canonical rfl rfl
  ⟨R, h1, h2⟩
example : ∃ R, exM.lscale #[1, 2, 3] = .ok R ∧ Canonical R :=
  let ⟨R, h1, h2, _⟩ := lscale_spec exM #[1, 2, 3] exM_canonical rfl
  ⟨R, h1, h2⟩
example : ∃ R, exM.rscale #[1, 2, 3] = .ok R ∧ Canonical R :=
  let ⟨R, h1, h2, _⟩ := rscale_spec exM #[1, 2, 3] exM_canonical rfl
  ⟨R, h1, h2⟩
example : Canonical (exM.scale 2) ∧ Canonical exM.negate :=
  ⟨(scale_spec exM 2 exM_canonical).1, (negate_spec exM exM_canonical).1⟩


/-! ### symv -/

/-- [F] (commutative ring) `symv` on a canonical square matrix with vectors of length `n`
does not panic and returns `b·y + a·(A + Aᵀ − diag A)·x`: the matrix applied is
`S i j = A i i` on the diagonal and `A i j + A j i` off it — for an upper-triangular `A`
this is the symmetric matrix whose upper triangle `A` holds.  (Both prologues — `y` filled
with zeros for `b == 0`, since /repo 1706c1f, and `y` scaled otherwise — give `b·y` in exact
arithmetic; at `f64` they differ when `y` holds NaN/Inf: `symv_beta_zero_ignores_y`.) -/
theorem symv_spec [CommRing α] [DecidableEq α] (A : Csc α) (y x : Array α) (a b : α)
    (hA : Canonical A) (hsq : A.m = A.n) (hx : x.size = A.n) (hy : y.size = A.n) :
    ∃ y', A.symv y x a b = .ok y' ∧ y'.size = A.n ∧
      ∀ i, i < A.n → y'[i]? = some (b * y.getD i 0 + a * ∑ j ∈ Finset.range A.n,
        (if i = j then A.toDense i i else A.toDense i j + A.toDense j i) * x.getD j 0) := by
  have hsz : (symvB b y).size = A.n := by rw [symvB_size, hy]
  obtain ⟨y', h1, h2, h3⟩ := scatter_spec (fun yi t => yi + t) (symvB b y)
    (symvTerms A x a).flatten.flatten
    (fun t ht => by rw [hsz]; exact symvTerms_bound A x a hA hsq t ht)
  refine ⟨y', ?_, by rw [h2, hsz], fun i hi => ?_⟩
  · unfold symv
    simp only [hx, hsz, hsq, bne_self_eq_false, Bool.false_eq_true, ↓reduceIte,
      symv_mapM_eq A x a hA hsq hx]
    exact h1
  · have : (symvB b y)[i]? = some (b * y.getD i 0) := symvB_get b y i (by omega)
    rw [h3 i (by omega), this, Option.map_some, foldl_add_eq, symvTerms_sum A x a hA hsq i hi]
    simp only [toDense_eq_sum_colVals]

/-- [S] `symv` with `b = 0` does not read `y` (since /repo 1706c1f): the result depends on
`y` only through its length — for every scalar type, `Float` included, whatever `y` holds
(NaN, ±∞ from an earlier solve).  Before the fix (`Csc.symvOld`: `y.scale(0)`) a NaN in `y`
survived, see the example below. -/
theorem symv_beta_zero_ignores_y [Add α] [Sub α] [Mul α] [Neg α] [BEq α] [OfNat α 0] [OfNat α 1]
    (A : Csc α) (y y' x : Array α) (a b : α) (hb : (b == 0) = true) (hlen : y.size = y'.size) :
    A.symv y x a b = A.symv y' x a b := by
  unfold symv
  rw [symvB_zero_congr b y y' hb hlen]

/-- non-vacuity of `symv_beta_zero_ignores_y` at `Float`, and the defect it repairs, shown on
the prologue (the only part of `symv` that changed): with `b = 0` and a NaN in `y` the current
prologue `symvB` yields zeros, the pre-fix prologue `y.scale(0)` of `symvOld` keeps the NaN
(`NaN * 0 = NaN`), which the scattered additions then carry into the result. -/
example :
    (⟨2, 2, #[0, 1, 2], #[0, 1], #[2.0, 3.0]⟩ : Csc Float).symv #[0.0 / 0.0, 1.0] #[1.0, 1.0] 1.0 0.0 =
      (⟨2, 2, #[0, 1, 2], #[0, 1], #[2.0, 3.0]⟩ : Csc Float).symv #[7.0, 7.0] #[1.0, 1.0] 1.0 0.0 ∧
    -- entry of the pre-fix prologue `y.scale(0)` for `yᵢ = NaN`, and of the current one (literal 0)
    FloatLike.isNaN ((0.0 / 0.0 : Float) * 0.0) = true ∧ FloatLike.isNaN (0 : Float) = false ∧
    (∀ y : Array Float, symvB (0.0 : Float) y = y.map (fun _ => 0)) :=
  ⟨symv_beta_zero_ignores_y _ _ _ _ _ _ (by decide) (by simp), by decide, by decide,
   fun y => by unfold symvB; rw [if_pos (by decide)]⟩

/-- non-vacuity of `symv_spec` (upper triangle of `exM`) -/
example : ∃ y', (⟨3, 3, #[0, 1, 2, 4], #[0, 1, 0, 2], #[1, 2, 4, 5]⟩ : Csc Int).symv
    #[1, 1, 1] #[1, 2, 3] 2 (-1) = .ok y' ∧ y'.size = 3 :=
  let ⟨y', h1, h2, _⟩ := symv_spec (⟨3, 3, #[0, 1, 2, 4], #[0, 1, 0, 2], #[1, 2, 4, 5]⟩ : Csc Int)
    #[1, 1, 1] #[1, 2, 3] 2 (-1) (check_format_canonical _ (by rfl)) rfl rfl rfl
  ⟨y', h1, h2⟩


/-! ### quad_form -/

/-- [F] (commutative ring) `quad_form` on a canonical upper-triangular matrix with vectors
of length `n` does not panic and returns `yᵀ·S·x`, `S = A + Aᵀ − diag A` the symmetric
matrix whose upper triangle `A` holds. -/
theorem quadForm_spec [CommRing α] [DecidableEq α] (M : Csc α) (y x : Array α)
    (hM : Canonical M) (hsq : M.m = M.n) (htri : M.isTriu = true)
    (hx : x.size = M.n) (hy : y.size = M.n) :
    M.quadForm y x = .ok (∑ i ∈ Finset.range M.n, ∑ j ∈ Finset.range M.n,
      y.getD i 0 * (if i = j then M.toDense i i else M.toDense i j + M.toDense j i) * x.getD j 0) := by
  have hle : ∀ j, j < M.n → ∀ e ∈ M.col j, e.1 ≤ j := by
    intro j hj e he
    unfold isTriu at htri
    simp only [List.all_eq_true, List.mem_range, decide_eq_true_eq] at htri
    have := htri j hj e.1
    rw [colRows_eq_map_col M hM.len_eq] at this
    exact this (List.mem_map_of_mem he)
  unfold quadForm
  simp only [hsq, hx, hy, hM.colptr_size, hM.len_eq, bne_self_eq_false, Bool.false_eq_true,
    ↓reduceIte]
  by_cases hn : M.n = 0
  · simp [hn]; rfl
  · have hn' : (M.n == 0) = false := by simpa using hn
    simp only [hn', Bool.false_eq_true, ↓reduceIte]
    rw [foldlM_add_eq (List.range M.n) (quadCol M y x)
      (fun j => ((M.col j).map (fun e => e.2 *
        quadW (fun k => x.getD k 0) (fun k => y.getD k 0) j e.1)).sum)
      (fun out j hj => quadCol_eq M y x out j (by rw [hx]; exact List.mem_range.mp hj)
        (by rw [hx, hy]) (hle j (List.mem_range.mp hj)))]
    congr 1
    rw [zero_add, list_sum_range_eq, ← quad_sum_eq M.n (fun i j => M.toDense i j)
      (fun k => x.getD k 0) (fun k => y.getD k 0)]
    apply Finset.sum_congr rfl
    intro j hj
    have hj' := Finset.mem_range.mp hj
    rw [sum_col_mul_eq (M.col j) (fun r => quadW (fun k => x.getD k 0) (fun k => y.getD k 0) j r) M.n
      (fun e he => by have := (colOK_of_canonical hM j hj').2 e he; omega)]
    apply Finset.sum_congr rfl
    intro i _
    rw [toDense_eq_sum_colVals]

/-- non-vacuity of `quadForm_spec` -/
example : ∃ v, (⟨3, 3, #[0, 1, 2, 4], #[0, 1, 0, 2], #[1, 2, 4, 5]⟩ : Csc Int).quadForm
    #[1, 1, 1] #[1, 2, 3] = .ok v :=
  ⟨_, quadForm_spec (⟨3, 3, #[0, 1, 2, 4], #[0, 1, 0, 2], #[1, 2, 4, 5]⟩ : Csc Int)
    #[1, 1, 1] #[1, 2, 3] (check_format_canonical _ (by rfl)) rfl (by rfl) rfl rfl⟩


/-! ### hcat / vcat / blockdiag -/

/-- [S] `hcat` fails (with `IncompatibleDimension`) exactly when the row counts differ. -/
theorem hcat_error_iff (A B : Csc α) :
    hcat A B = .error .incompatibleDimension ↔ A.m ≠ B.m := by
  by_cases h : A.m = B.m
  · simp [hcat, hvcat, hvcatDimCheck, rowOffsets, h, List.range_succ]
  · have h' : ¬ B.m = A.m := fun e => h e.symm
    simp [hcat, hvcat, hvcatDimCheck, rowOffsets, h, h', List.range_succ]

/-- [S] `hcat A B = [A B]`: canonical when both blocks are, `m × (nA + nB)`, the first
`nA` columns hold the stored values of `A`, the next `nB` those of `B` (any scalar type). -/
theorem hcat_spec [Add α] [OfNat α 0] (A B : Csc α) (h : A.m = B.m) :
    ∃ R, hcat A B = .ok R ∧ R.m = A.m ∧ R.n = A.n + B.n ∧
      (Canonical A → Canonical B → Canonical R) ∧
      (∀ i j, j < A.n → R.toDense i j = A.toDense i j) ∧
      (∀ i j, j < B.n → R.toDense i (A.n + j) = B.toDense i j) := by
  refine ⟨ofCols A.m (A.n + B.n) ((List.range A.n).map (fun c => shiftRows 0 (A.col c)) ++
    (List.range B.n).map (fun c => shiftRows 0 (B.col c))), ?_, rfl, rfl, ?_, ?_, ?_⟩
  · simp [hcat, hvcat, hvcatDimCheck, rowOffsets, h, List.range_succ]
  · intro hA hB
    apply canonical_ofCols
    · simp
    · intro c hc
      simp only [List.mem_append, List.mem_map, List.mem_range] at hc
      rcases hc with ⟨j, hj, rfl⟩ | ⟨j, hj, rfl⟩
      · rw [shiftRows_zero]; exact colOK_of_canonical hA j hj
      · rw [shiftRows_zero, h]; exact colOK_of_canonical hB j hj
  · intro i j hj
    rw [toDense_eq_foldl_colVals, toDense_eq_foldl_colVals,
      col_ofCols _ _ _ j (by simp; omega), List.getElem_append_left (by simpa using hj)]
    simp [shiftRows_zero]
  · intro i j hj
    rw [toDense_eq_foldl_colVals, toDense_eq_foldl_colVals,
      col_ofCols _ _ _ (A.n + j) (by simp; omega), List.getElem_append_right (by simp)]
    simp [shiftRows_zero]

/-- [S] `vcat` fails exactly when the column counts differ. -/
theorem vcat_error_iff (A B : Csc α) :
    vcat A B = .error .incompatibleDimension ↔ A.n ≠ B.n := by
  by_cases h : A.n = B.n
  · simp [vcat, hvcat, hvcatDimCheck, rowOffsets, h, List.range_succ]
  · have h' : ¬ B.n = A.n := fun e => h e.symm
    simp [vcat, hvcat, hvcatDimCheck, rowOffsets, h, h', List.range_succ]

/-- [S] `vcat A B = [A; B]`: `(mA + mB) × n`, canonical when both blocks are; rows
`< mA` hold the stored values of `A`, row `mA + i` those of row `i` of `B` (for `A`'s
row indices in range). -/
theorem vcat_spec [Add α] [OfNat α 0] (A B : Csc α) (h : A.n = B.n) :
    ∃ R, vcat A B = .ok R ∧ R.m = A.m + B.m ∧ R.n = A.n ∧
      (Canonical A → Canonical B → Canonical R) ∧
      (∀ i j, i < A.m → j < A.n → R.toDense i j = A.toDense i j) ∧
      (Canonical A → ∀ i j, j < A.n → R.toDense (A.m + i) j = B.toDense i j) := by
  refine ⟨ofCols (A.m + B.m) A.n ((List.range A.n).map
    (fun c => shiftRows 0 (A.col c) ++ shiftRows A.m (B.col c))), ?_, rfl, rfl, ?_, ?_, ?_⟩
  · simp [vcat, hvcat, hvcatDimCheck, rowOffsets, h, List.range_succ]
  · intro hA hB
    apply canonical_ofCols
    · simp
    · intro c hc
      simp only [List.mem_map, List.mem_range] at hc
      obtain ⟨j, hj, rfl⟩ := hc
      rw [shiftRows_zero]
      exact colOK_append_shift A.m B.m _ _ (colOK_of_canonical hA j hj)
        (colOK_of_canonical hB j (by omega))
  · intro i j hi hj
    rw [toDense_eq_foldl_colVals, toDense_eq_foldl_colVals, col_ofCols _ _ _ j (by simpa using hj)]
    simp only [List.getElem_map, List.getElem_range, shiftRows_zero, colVals_append,
      colVals_shiftRows]
    have : ¬ A.m ≤ i := by omega
    simp [this]
  · intro hA i j hj
    rw [toDense_eq_foldl_colVals, toDense_eq_foldl_colVals, col_ofCols _ _ _ j (by simpa using hj)]
    simp only [List.getElem_map, List.getElem_range, shiftRows_zero, colVals_append,
      colVals_shiftRows]
    have h1 : colVals (A.col j) (A.m + i) = [] := by
      apply colVals_eq_nil_of_not_mem
      intro e he
      have := (colOK_of_canonical hA j hj).2 e he
      omega
    simp [h1]

/-- [S] `blockdiag` fails exactly on the empty list. -/
theorem blockdiag_error_iff (mats : List (Csc α)) :
    blockdiag mats = .error .incompatibleDimension ↔ mats = [] := by
  unfold blockdiag
  cases mats with
  | nil => simp
  | cons a t => simp

/-- non-vacuity of the concatenation theorems -/
example : ∃ R, hcat exM exM = .ok R ∧ Canonical R :=
  let ⟨R, h1, _, _, h2, _⟩ := hcat_spec exM exM rfl
  ⟨R, h1, h2 exM_canonical exM_canonical⟩
example : ∃ R, vcat exM exM = .ok R ∧ Canonical R :=
  let ⟨R, h1, _, _, h2, _⟩ := vcat_spec exM exM rfl
  ⟨R, h1, h2 exM_canonical exM_canonical⟩


/-- [S] `blockdiag` of a non-empty list: shape `Σ m × Σ n`, canonical when every block
is; column `c` of block `k` sits at column `Σ_{k'<k} n_k' + c` and holds the stored values
of that block shifted down by `Σ_{k'<k} m_k'`, nothing above them (any scalar type; with
canonical blocks nothing below either, since their rows are `< m_k`). -/
theorem blockdiag_spec [Add α] [OfNat α 0] (mats : List (Csc α)) (hne : mats ≠ []) :
    ∃ R, blockdiag mats = .ok R ∧ R.m = (mats.map (·.m)).sum ∧ R.n = (mats.map (·.n)).sum ∧
      ((∀ M ∈ mats, Canonical M) → Canonical R) ∧
      ∀ k (hk : k < mats.length) c, c < mats[k].n → ∀ i,
        R.toDense i (((mats.take k).map (·.n)).sum + c) =
          if ((mats.take k).map (·.m)).sum ≤ i
          then mats[k].toDense (i - ((mats.take k).map (·.m)).sum) c else 0 := by
  have hlen : (bdBlocks mats).flatten.length = (mats.map (·.n)).sum := by
    rw [List.length_flatten, bdBlocks_map_length]
  refine ⟨ofCols (mats.map (·.m)).sum (mats.map (·.n)).sum (bdBlocks mats).flatten,
    ?_, rfl, rfl, ?_, ?_⟩
  · unfold blockdiag
    have : mats.isEmpty = false := by
      cases mats with
      | nil => exact absurd rfl hne
      | cons a t => rfl
    simp only [this, Bool.false_eq_true, ↓reduceIte]
    simp only [foldl_add_eq_sum ((mats.map (·.m))), foldl_add_eq_sum ((mats.map (·.n)))]
    rfl
  · intro hall
    apply canonical_ofCols _ _ _ hlen
    intro col hcol
    rw [List.mem_flatten] at hcol
    obtain ⟨blk, hblk, hcol⟩ := hcol
    obtain ⟨k, hk, rfl⟩ := List.mem_iff_getElem.mp hblk
    have hk' : k < mats.length := by rw [bdBlocks_length] at hk; exact hk
    rw [bdBlocks_getElem mats k hk'] at hcol
    simp only [List.mem_map, List.mem_range] at hcol
    obtain ⟨c, hc, rfl⟩ := hcol
    have hM := hall mats[k] (List.getElem_mem _)
    refine colOK_mono _ _ _ (colOK_shiftRows _ _ _ (colOK_of_canonical hM c hc)) ?_
    have := take_sum_add_le (mats.map (·.m)) k (by simpa using hk')
    simp only [List.getElem_map, List.map_take] at this ⊢
    omega
  · intro k hk c hc i
    have hk2 : k < (bdBlocks mats).length := by rw [bdBlocks_length]; exact hk
    have hc2 : c < (bdBlocks mats)[k].length := by rw [bdBlocks_getElem mats k hk]; simpa using hc
    have hget := getElem?_flatten_offset (bdBlocks mats) k c hk2 hc2
    rw [List.map_take, bdBlocks_map_length, ← List.map_take] at hget
    obtain ⟨hidx, hval⟩ := List.getElem?_eq_some_iff.mp hget
    rw [toDense_eq_foldl_colVals, col_ofCols _ _ _ _ hidx, hval]
    simp only [bdBlocks_getElem mats k hk, List.getElem_map, List.getElem_range, colVals_shiftRows]
    split_ifs
    · rw [toDense_eq_foldl_colVals]
    · rfl

/-- non-vacuity of `blockdiag_spec` -/
example : ∃ R, blockdiag [exM, exM] = .ok R ∧ Canonical R ∧ R.m = 6 :=
  let ⟨R, h1, h2, _, h3, _⟩ := blockdiag_spec [exM, exM] (by simp)
  ⟨R, h1, h3 (by intro M hM; simp at hM; rw [hM]; exact exM_canonical), h2⟩


/-! ### row / column sums -/

/-- [F] (additive commutative monoid) `col_sums`: slot `j` is `Σ_i A i j`. -/
theorem colSums_spec [AddCommMonoid α] (M : Csc α) (sums : Array α) (hM : Canonical M)
    (hs : sums.size = M.n) :
    ∃ v, M.colSums sums = .ok v ∧ v.size = M.n ∧
      ∀ j, j < M.n → v[j]? = some (∑ i ∈ Finset.range M.m, M.toDense i j) := by
  refine ⟨_, by unfold colSums; simp only [hs, bne_self_eq_false, Bool.false_eq_true, ↓reduceIte]; rfl,
    by simp, fun j hj => ?_⟩
  simp only [List.getElem?_toArray, List.getElem?_map, List.getElem?_range hj, Option.map_some]
  rw [foldl_add_snd, zero_add, sum_col_eq (M.col j) M.m (colOK_of_canonical hM j hj).2]
  congr 1
  apply Finset.sum_congr rfl
  intro i _
  rw [toDense_eq_sum_colVals]

/-- [F] (additive commutative monoid) `row_sums` on a canonical matrix whose `colptr`
starts at 0: slot `i` is `Σ_j A i j`, whatever the incoming content. -/
theorem rowSums_spec [AddCommMonoid α] (M : Csc α) (sums : Array α) (hM : Canonical M)
    (h0 : M.colptr.getD 0 0 = 0) (hs : sums.size = M.m) :
    ∃ v, M.rowSums sums = .ok v ∧ v.size = M.m ∧
      ∀ i, i < M.m → v[i]? = some (∑ j ∈ Finset.range M.n, M.toDense i j) := by
  have hb : ∀ e ∈ M.entries, e.1 < (sums.map (fun _ => (0 : α))).size := by
    intro e he
    simp only [Array.size_map, hs]
    exact hM.rows_bound _ (List.of_mem_zip he).1
  obtain ⟨v, h1, h2, h3⟩ := scatter_spec (fun s v => s + v) (sums.map (fun _ => (0 : α))) M.entries hb
  refine ⟨v, by unfold rowSums; simp only [hs, bne_self_eq_false, Bool.false_eq_true, ↓reduceIte]; exact h1,
    by simpa [hs] using h2, fun i hi => ?_⟩
  rw [h3 i (by simpa [hs] using hi)]
  have hi' : i < sums.size := by omega
  simp only [Array.getElem?_map, Array.getElem?_eq_getElem hi', Option.map_some]
  rw [foldl_add_eq, zero_add, entries_eq_flatten_cols M hM h0, colVals_flatten, List.sum_flatten]
  unfold cols
  rw [List.map_map, List.map_map, list_sum_range_eq]
  congr 1
  apply Finset.sum_congr rfl
  intro j _
  simp only [Function.comp, toDense_eq_sum_colVals]

/-- non-vacuity of the sum theorems -/
example : ∃ v, exM.colSums #[0, 0, 0] = .ok v ∧ v.size = 3 :=
  let ⟨v, h1, h2, _⟩ := colSums_spec exM #[0, 0, 0] exM_canonical rfl
  ⟨v, h1, h2⟩
example : ∃ v, exM.rowSums #[7, 7, 7] = .ok v ∧ v.size = 3 :=
  let ⟨v, h1, h2, _⟩ := rowSums_spec exM #[7, 7, 7] exM_canonical rfl rfl
  ⟨v, h1, h2⟩


/-! ### infinity norms -/

section norms
variable [Field α] [LinearOrder α] [IsStrictOrderedRing α] [FloatLike α] [LawfulFloatLike α]

/-- [F] (ordered field, `fmax = max`, `fabs = |·|`) `col_norms_no_reset`: slot `j` becomes
the maximum of its old content and the absolute values stored in column `j`. -/
theorem colNormsNoReset_spec (M : Csc α) (norms : Array α) (hM : Canonical M)
    (hs : norms.size = M.n) :
    ∃ v, M.colNormsNoReset norms = .ok v ∧ v.size = M.n ∧
      ∀ j, j < M.n → ∃ r, v[j]? = some r ∧
        IsMaxOf r (norms.getD j 0) ((M.col j).map (fun e => |e.2|)) := by
  have hc := hM.colptr_size
  have h1 : (M.colptr.size == 0) = false := by simp [hc]
  have h2 : (norms.size != M.colptr.size - 1) = false := by simp [hc, hs]
  refine ⟨_, by unfold colNormsNoReset; simp only [h1, h2, Bool.false_eq_true, ↓reduceIte]; rfl,
    by simp [hs], fun j hj => ?_⟩
  have hj' : j < norms.size := by omega
  refine ⟨(M.col j).foldl (fun m e => fmax m (fabs e.2)) (norms.getD j 0), ?_, ?_⟩
  · simp [List.getElem?_zipIdx, Array.getElem?_eq_getElem hj', Array.getD_eq_getD_getElem?]
  · have : (M.col j).foldl (fun m e => fmax m (fabs e.2)) (norms.getD j 0)
        = ((M.col j).map (fun e => |e.2|)).foldl (fun m a => max m a) (norms.getD j 0) := by
      rw [List.foldl_map]
      simp only [LawfulFloatLike.fmax_eq, LawfulFloatLike.fabs_eq]
    rw [this]
    exact foldl_max_isMaxOf _ _

/-- [F] `col_norms` = `col_norms_no_reset` started from zeros: slot `j` is the largest
absolute value stored in column `j` (0 for an empty column). -/
theorem colNorms_spec (M : Csc α) (norms : Array α) (hM : Canonical M) (hs : norms.size = M.n) :
    ∃ v, M.colNorms norms = .ok v ∧ v.size = M.n ∧
      ∀ j, j < M.n → ∃ r, v[j]? = some r ∧ IsMaxOf r 0 ((M.col j).map (fun e => |e.2|)) := by
  obtain ⟨v, h1, h2, h3⟩ := colNormsNoReset_spec M (norms.map (fun _ => (0 : α))) hM (by simpa using hs)
  refine ⟨v, h1, h2, fun j hj => ?_⟩
  obtain ⟨r, hr1, hr2⟩ := h3 j hj
  refine ⟨r, hr1, ?_⟩
  have : (norms.map (fun _ => (0 : α))).getD j 0 = 0 := by
    rw [Array.getD_eq_getD_getElem?]
    by_cases h : j < norms.size <;> simp [h]
  rwa [this] at hr2

/-- [F] `row_norms_no_reset` on a canonical matrix whose `colptr` starts at 0: slot `i`
becomes the maximum of its old content and the absolute values stored in row `i`. -/
theorem rowNormsNoReset_spec (M : Csc α) (norms : Array α) (hM : Canonical M)
    (h0 : M.colptr.getD 0 0 = 0) (hs : norms.size = M.m) :
    ∃ v, M.rowNormsNoReset norms = .ok v ∧ v.size = M.m ∧
      ∀ i, i < M.m → ∃ r, v[i]? = some r ∧
        IsMaxOf r (norms.getD i 0) ((M.cols.flatten.filter (fun e => e.1 == i)).map (fun e => |e.2|)) := by
  have hb : ∀ e ∈ M.entries.map (fun e => (e.1, fabs e.2)), e.1 < norms.size := by
    intro e he
    simp only [List.mem_map] at he
    obtain ⟨e', he', rfl⟩ := he
    rw [hs]
    exact hM.rows_bound _ (List.of_mem_zip he').1
  obtain ⟨v, h1, h2, h3⟩ := scatter_spec (fun m t => fmax m t) norms
    (M.entries.map (fun e => (e.1, fabs e.2))) hb
  have hback : M.colptr.back? = some M.rowval.size := by
    have hsz := hM.colptr_size
    have hlast := hM.colptr_last
    rw [Array.getD_eq_getD_getElem?, Array.getElem?_eq_getElem (by omega)] at hlast
    rw [Array.back?_eq_getElem?, hsz, Nat.add_sub_cancel, Array.getElem?_eq_getElem (by omega)]
    simpa using hlast
  refine ⟨v, ?_, by rw [h2, hs], fun i hi => ?_⟩
  · unfold rowNormsNoReset
    rw [hback]
    simp only [bne_self_eq_false, Bool.false_eq_true, ↓reduceIte]
    exact h1
  · have hi' : i < norms.size := by omega
    refine ⟨_, by rw [h3 i hi', Array.getElem?_eq_getElem hi', Option.map_some], ?_⟩
    have hget : norms[i] = norms.getD i 0 := by
      rw [Array.getD_eq_getD_getElem?, Array.getElem?_eq_getElem hi']; rfl
    rw [hget, colVals_map_val M.entries (fun v => fabs v) i, entries_eq_flatten_cols M hM h0]
    have : (fun (m t : α) => fmax m t) = (fun m a => max m a) := by
      funext m t; exact LawfulFloatLike.fmax_eq m t
    rw [this]
    have h4 : (colVals M.cols.flatten i).map (fun v => fabs v)
        = (M.cols.flatten.filter (fun e => e.1 == i)).map (fun e => |e.2|) := by
      unfold colVals
      rw [List.map_map]
      apply List.map_congr_left
      intro e _
      exact LawfulFloatLike.fabs_eq e.2
    rw [h4]
    exact foldl_max_isMaxOf _ _

/-- [F] `row_norms`: slot `i` is the largest absolute value stored in row `i`. -/
theorem rowNorms_spec (M : Csc α) (norms : Array α) (hM : Canonical M)
    (h0 : M.colptr.getD 0 0 = 0) (hs : norms.size = M.m) :
    ∃ v, M.rowNorms norms = .ok v ∧ v.size = M.m ∧
      ∀ i, i < M.m → ∃ r, v[i]? = some r ∧
        IsMaxOf r 0 ((M.cols.flatten.filter (fun e => e.1 == i)).map (fun e => |e.2|)) := by
  obtain ⟨v, h1, h2, h3⟩ := rowNormsNoReset_spec M (norms.map (fun _ => (0 : α))) hM h0
    (by simpa using hs)
  refine ⟨v, h1, h2, fun i hi => ?_⟩
  obtain ⟨r, hr1, hr2⟩ := h3 i hi
  refine ⟨r, hr1, ?_⟩
  have : (norms.map (fun _ => (0 : α))).getD i 0 = 0 := by
    rw [Array.getD_eq_getD_getElem?]
    by_cases h : i < norms.size <;> simp [h]
  rwa [this] at hr2

end norms

/-- non-vacuity of the norm theorems (over ℚ-like fields: instantiated at `ℝ`) -/
example : ∃ v, (⟨2, 2, #[0, 1, 2], #[0, 1], #[(-3 : ℝ), 2]⟩ : Csc ℝ).colNorms #[0, 0] = .ok v ∧ v.size = 2 :=
  let ⟨v, h1, h2, _⟩ := colNorms_spec (⟨2, 2, #[0, 1, 2], #[0, 1], #[(-3 : ℝ), 2]⟩ : Csc ℝ) #[0, 0]
    (check_format_canonical _ (by rfl)) rfl
  ⟨v, h1, h2⟩


/-- [F] `col_norms_sym_no_reset` on a canonical square matrix (the stored triangle of a
symmetric matrix): slot `k` becomes the maximum of its old content and the absolute values
of all stored entries lying in column `k` or in row `k`. -/
theorem colNormsSymNoReset_spec [Field α] [LinearOrder α] [IsStrictOrderedRing α] [FloatLike α]
    [LawfulFloatLike α] (M : Csc α) (norms : Array α) (hM : Canonical M) (hsq : M.m = M.n)
    (hs : norms.size = M.n) :
    ∃ v, M.colNormsSymNoReset norms = .ok v ∧ v.size = M.n ∧
      ∀ k, k < M.n → ∃ r, v[k]? = some r ∧ norms.getD k 0 ≤ r ∧
        (∀ j, j < M.n → ∀ e ∈ M.col j, (j = k ∨ e.1 = k) → |e.2| ≤ r) ∧
        (r = norms.getD k 0 ∨ ∃ j, j < M.n ∧ ∃ e ∈ M.col j, (j = k ∨ e.1 = k) ∧ r = |e.2|) := by
  have hc := hM.colptr_size
  have h1 : (M.colptr.size == 0) = false := by simp [hc]
  have h2 : (norms.size != M.colptr.size - 1) = false := by simp [hc, hs]
  let T : List (Nat × α) := ((List.range norms.size).map (fun i =>
      ((M.col i).map (fun e => [(i, fabs e.2), (e.1, fabs e.2)])).flatten)).flatten
  have hmem : ∀ t, t ∈ T ↔ ∃ j, j < M.n ∧ ∃ e ∈ M.col j, t = (j, |e.2|) ∨ t = (e.1, |e.2|) := by
    intro t
    constructor
    · intro ht
      simp only [T, List.mem_flatten, List.mem_map, List.mem_range, hs] at ht
      obtain ⟨_, ⟨j, hj, rfl⟩, ht⟩ := ht
      simp only [List.mem_flatten, List.mem_map] at ht
      obtain ⟨_, ⟨e, he, rfl⟩, ht⟩ := ht
      simp only [List.mem_cons, List.not_mem_nil, or_false, LawfulFloatLike.fabs_eq] at ht
      exact ⟨j, hj, e, he, ht⟩
    · rintro ⟨j, hj, e, he, ht⟩
      simp only [T, List.mem_flatten, List.mem_map, List.mem_range, hs]
      refine ⟨_, ⟨j, hj, rfl⟩, ?_⟩
      simp only [List.mem_flatten, List.mem_map]
      refine ⟨_, ⟨e, he, rfl⟩, ?_⟩
      simpa [LawfulFloatLike.fabs_eq] using ht
  have hb : ∀ t ∈ T, t.1 < norms.size := by
    intro t ht
    obtain ⟨j, hj, e, he, h | h⟩ := (hmem t).mp ht
    · rw [h, hs]; exact hj
    · rw [h, hs]; have := (colOK_of_canonical hM j hj).2 e he; simp only; omega
  obtain ⟨v, hv1, hv2, hv3⟩ := scatter_spec (fun m t => fmax m t) norms T hb
  refine ⟨v, by unfold colNormsSymNoReset; simp only [h1, h2, Bool.false_eq_true, ↓reduceIte]; exact hv1,
    by rw [hv2, hs], fun k hk => ?_⟩
  have hk' : k < norms.size := by omega
  have hget : norms[k] = norms.getD k 0 := by
    rw [Array.getD_eq_getD_getElem?, Array.getElem?_eq_getElem hk']; rfl
  have hfun : (fun (m t : α) => fmax m t) = (fun m a => max m a) := by
    funext m t; exact LawfulFloatLike.fmax_eq m t
  obtain ⟨m1, m2, m3⟩ := foldl_max_isMaxOf (colVals T k) (norms.getD k 0)
  have hcv : ∀ a, a ∈ colVals T k ↔ ∃ j, j < M.n ∧ ∃ e ∈ M.col j, (j = k ∨ e.1 = k) ∧ a = |e.2| := by
    intro a
    unfold colVals
    simp only [List.mem_map, List.mem_filter, beq_iff_eq]
    constructor
    · rintro ⟨t, ⟨ht, htk⟩, rfl⟩
      obtain ⟨j, hj, e, he, h | h⟩ := (hmem t).mp ht
      · subst h; exact ⟨j, hj, e, he, Or.inl htk, rfl⟩
      · subst h; exact ⟨j, hj, e, he, Or.inr htk, rfl⟩
    · rintro ⟨j, hj, e, he, h | h, rfl⟩
      · exact ⟨(j, |e.2|), ⟨(hmem _).mpr ⟨j, hj, e, he, Or.inl rfl⟩, h⟩, rfl⟩
      · exact ⟨(e.1, |e.2|), ⟨(hmem _).mpr ⟨j, hj, e, he, Or.inr rfl⟩, h⟩, rfl⟩
  refine ⟨_, by rw [hv3 k hk', Array.getElem?_eq_getElem hk', Option.map_some, hget, hfun], m1, ?_, ?_⟩
  · intro j hj e he hor
    exact m2 _ ((hcv _).mpr ⟨j, hj, e, he, hor, rfl⟩)
  · rcases m3 with h | h
    · exact Or.inl h
    · exact Or.inr ((hcv _).mp h)


/-! ### canonicalize is the identity on canonical matrices -/

/-- [S] `canonicalize` of a canonical matrix (whose `colptr` starts at 0) returns the
matrix unchanged, bit for bit: same arrays, no value is touched (any scalar type). -/
theorem canonicalize_of_canonical [Add α] (M : Csc α) (hM : Canonical M)
    (h0 : M.colptr.getD 0 0 = 0) : M.canonicalize = .ok M := by
  have hd : M.checkDimensions = .ok () := by
    have := (check_format_iff M).mpr ⟨hM, h0⟩
    unfold checkFormat at this
    cases h : M.checkDimensions with
    | error e => rw [h] at this; cases this
    | ok u => rfl
  have hsort : M.sortIndices = M := by
    unfold sortIndices
    have : M.cols.map sortByRow = M.cols := by
      unfold cols
      rw [List.map_map]
      apply List.map_congr_left
      intro j hj
      exact sortByRow_of_sorted _ (colOK_of_canonical hM j (List.mem_range.mp hj)).1
    rw [this, ofCols_cols_self M hM h0]
  have hdd : M.deduplicate = M := by
    unfold deduplicate
    have : M.cols.map dedupeRows = M.cols := by
      unfold cols
      rw [List.map_map]
      apply List.map_congr_left
      intro j hj
      exact dedupeRows_of_sorted _ (colOK_of_canonical hM j (List.mem_range.mp hj)).1
    rw [this, ofCols_cols_self M hM h0]
  unfold canonicalize
  rw [hd]
  simp only [hsort, hdd]

/-- [F] (additive monoid) `canonicalize` is idempotent: its result is a fixed point. -/
theorem canonicalize_idem [AddMonoid α] (M : Csc α) (hd : M.checkDimensions = .ok ())
    (hb : ∀ r ∈ M.rowval.toList, r < M.m) :
    ∃ R, M.canonicalize = .ok R ∧ R.canonicalize = .ok R := by
  obtain ⟨R, h1, h2, _⟩ := canonicalize_spec M hd hb
  refine ⟨R, h1, canonicalize_of_canonical R h2 ?_⟩
  unfold canonicalize at h1
  rw [hd] at h1
  simp only [Except.ok.injEq] at h1
  subst h1
  unfold deduplicate
  rw [ofCols_colptr_getD _ _ _ 0 (by omega)]
  simp

/-- non-vacuity: `exM` is a fixed point of `canonicalize` -/
example : exM.canonicalize = .ok exM := canonicalize_of_canonical exM exM_canonical rfl


/-! ### index_to_coord -/

/-- [S] `index_to_coord` on a canonical matrix whose `colptr` starts at 0: for a linear
index below `nnz` the call succeeds and returns the coordinates of the `idx`-th stored
entry — its row index, and the unique column whose pointer range contains `idx`. -/
theorem indexToCoord_spec (M : Csc α) (idx : Nat) (hM : Canonical M)
    (h0 : M.colptr.getD 0 0 = 0) (hidx : idx < M.nnz) :
    ∃ row col, M.indexToCoord idx = .ok (row, col) ∧ M.rowval[idx]? = some row ∧ col < M.n ∧
      M.colptr.getD col 0 ≤ idx ∧ idx < M.colptr.getD (col + 1) 0 := by
  have hs := hM.colptr_size
  have hnnz : M.nnz = M.rowval.size := hM.colptr_last
  have hidx' : idx < M.rowval.size := by omega
  obtain ⟨hp1, hp2⟩ := takeWhile_length_spec M.colptr.toList (fun c => decide (idx + 1 > c))
  set pp := (M.colptr.toList.takeWhile (fun c => decide (idx + 1 > c))).length with hpp
  have hlen : M.colptr.toList.length = M.n + 1 := by simp [hs]
  have hpp_le : pp ≤ M.n + 1 := by
    rw [← hlen]; exact (List.takeWhile_prefix _).length_le
  -- pp ≥ 1 : the first pointer is 0 ≤ idx
  have hpp_pos : 1 ≤ pp := by
    by_contra hc
    have hz : pp = 0 := by omega
    have := hp2 (by rw [hz, hlen]; omega)
    rw [toList_getElem_eq_getD _ pp (by omega), hz, h0] at this
    simp at this
  -- pp ≤ n : the last pointer is nnz > idx
  have hpp_n : pp ≤ M.n := by
    by_contra hc
    have hz : M.n < pp := by omega
    have := hp1 M.n (by rw [hlen]; omega) hz
    rw [toList_getElem_eq_getD _ M.n (by omega)] at this
    simp only [decide_eq_true_eq] at this
    unfold nnz at hidx
    omega
  refine ⟨M.rowval[idx], pp - 1, ?_, Array.getElem?_eq_getElem hidx', by omega, ?_, ?_⟩
  · unfold indexToCoord
    simp only [hidx, decide_true, Bool.not_true, Bool.false_eq_true, ↓reduceIte,
      Array.getElem?_eq_getElem hidx']
    rfl
  · have := hp1 (pp - 1) (by rw [hlen]; omega) (by omega)
    rw [toList_getElem_eq_getD _ (pp - 1) (by omega)] at this
    simp only [decide_eq_true_eq] at this
    omega
  · have := hp2 (by rw [hlen]; omega)
    rw [toList_getElem_eq_getD _ pp (by omega)] at this
    simp only [decide_eq_false_iff_not] at this
    have e : pp - 1 + 1 = pp := by omega
    rw [e]
    omega

/-- non-vacuity of `indexToCoord_spec` -/
example : ∃ row col, exM.indexToCoord 3 = .ok (row, col) ∧ col < 3 :=
  let ⟨r, c, h1, _, h2, _⟩ := indexToCoord_spec exM 3 exM_canonical rfl (by decide)
  ⟨r, c, h1, h2⟩


/-! ### zeros / identity -/

/-- [S] `zeros(m,n)` is canonical, `m × n`, stores nothing: every dense entry is 0. -/
theorem zeros_spec [Add α] [OfNat α 0] (m n : Nat) :
    Canonical (zeros m n : Csc α) ∧ (zeros m n : Csc α).m = m ∧ (zeros m n : Csc α).n = n ∧
      (zeros m n : Csc α).rowval.size = 0 ∧ ∀ i j, (zeros m n : Csc α).toDense i j = 0 := by
  have hcp : (zeros m n : Csc α).colptr.toList = List.replicate (n + 1) 0 := by
    simp [zeros, spalloc, List.replicate_succ']
  refine ⟨⟨rfl, by simp [zeros, spalloc], ?_, ?_, ?_, ?_⟩, rfl, rfl, rfl, ?_⟩
  · have : (zeros m n : Csc α).colptr.getD n 0 = 0 := by
      simp [zeros, spalloc, Array.getD_eq_getD_getElem?, Array.getElem_push]
    rw [show (zeros m n : Csc α).n = n from rfl, this]; rfl
  · rw [noBadAdjacent_iff_getElem, hcp]
    intro k hk
    simp
  · intro j _
    have : (zeros m n : Csc α).colRows j = [] := by simp [colRows, zeros, spalloc]
    rw [this]; trivial
  · intro r hr
    simp [zeros, spalloc] at hr
  · intro i j
    have : (zeros m n : Csc α).col j = [] := by simp [col, zeros, spalloc]
    simp [toDense, this]

/-- [S] `identity(n)` is canonical, `n × n`, with exactly the value `1` stored at every
diagonal position and nothing else. -/
theorem identity_spec [OfNat α 1] (n : Nat) :
    Canonical (identity n : Csc α) ∧ (identity n : Csc α).m = n ∧ (identity n : Csc α).n = n ∧
      ∀ j, j < n → (identity n : Csc α).col j = [(j, 1)] := by
  have hcol : ∀ j, j < n → (identity n : Csc α).col j = [(j, 1)] := by
    intro j hj
    have h1 : ((List.range (n + 1)).toArray).getD j 0 = j := by
      simp [Array.getD_eq_getD_getElem?, Array.getElem?_range, show j < n + 1 by omega]
    have h2 : ((List.range (n + 1)).toArray).getD (j + 1) 0 = j + 1 := by
      simp [Array.getD_eq_getD_getElem?, Array.getElem?_range, hj]
    unfold col identity
    simp only [h1, h2, Array.toList_extract, List.extract_eq_drop_take', List.toList_toArray,
      Array.toList_replicate]
    have e1 : ((List.range n).take (j + 1)).drop j = [j] := by
      rw [List.take_range, Nat.min_eq_left (by omega), List.range_succ]
      simp
    have e2 : ((List.replicate n (1 : α)).take (j + 1)).drop j = [1] := by
      rw [List.take_replicate, Nat.min_eq_left (by omega), List.drop_replicate]
      simp
    rw [e1, e2]; rfl
  refine ⟨⟨by simp [identity], by simp [identity], ?_, ?_, ?_, ?_⟩, rfl, rfl, hcol⟩
  · simp [identity, Array.getD_eq_getD_getElem?]
  · rw [noBadAdjacent_iff_getElem]
    intro k hk
    simp [identity] at hk ⊢
  · intro j hj
    rw [colRows_eq_map_col _ (by simp [identity]), hcol j hj]
    trivial
  · intro r hr
    simp [identity] at hr
    exact hr

/-- non-vacuity -/
example : Canonical (identity 3 : Csc Int) ∧ Canonical (zeros 2 3 : Csc Int) :=
  ⟨(identity_spec 3).1, (zeros_spec 2 3).1⟩


/-! ### construction from rows -/

/-- [F] (additive monoid) `CscMatrix::from(rows)` on a rectangular array of rows succeeds
and returns a canonical `m × n` matrix whose dense entries are the given numbers and which
stores no zero. -/
theorem fromRows_spec [AddMonoid α] [DecidableEq α] (rows : Array (Array α)) (n : Nat)
    (hrect : ∀ r ∈ rows.toList, r.size = n) (hn : rows.size = 0 → n = 0) :
    ∃ R, fromRows rows = .ok R ∧ Canonical R ∧ R.m = rows.size ∧ R.n = n ∧
      (∀ i j (hi : i < rows.size), j < n → ∀ v, rows[i][j]? = some v → R.toDense i j = v) ∧
      (∀ j, j < n → ∀ e ∈ R.col j, e.2 ≠ 0) := by
  have hn0 : rowsWidth rows = n := by
    unfold rowsWidth
    cases h : rows[0]? with
    | none =>
      have : rows.size = 0 := by
        by_contra hc
        rw [Array.getElem?_eq_getElem (by omega)] at h
        cases h
      exact (hn this).symm
    | some r =>
      have hmem : r ∈ rows.toList := by
        have := Array.mem_of_getElem? h
        simpa using this
      exact hrect r hmem
  have hall : (rows.toList.all (fun r => r.size == n)) = true := by
    rw [List.all_eq_true]
    intro r hr
    simpa using hrect r hr
  refine ⟨ofCols rows.size n ((List.range n).map (fun c =>
    rows.toList.zipIdx.filterMap (fromRowsEntry c))), ?_, ?_, rfl, rfl, ?_, ?_⟩
  · unfold fromRows
    simp only [hn0, hall, Bool.not_true, Bool.false_eq_true, ↓reduceIte]
    rfl
  · apply canonical_ofCols
    · simp
    · intro c hc
      simp only [List.mem_map, List.mem_range] at hc
      obtain ⟨j, _, rfl⟩ := hc
      obtain ⟨h1, h2, _⟩ := fromRows_col_spec rows.toList j 0
      exact ⟨h1, fun e he => by have := (h2 e he).2.1; simpa using this⟩
  · intro i j hi hj v hv
    rw [toDense_eq_sum_colVals, col_ofCols _ _ _ j (by simpa using hj)]
    simp only [List.getElem_map, List.getElem_range]
    have := (fromRows_col_spec rows.toList j 0).2.2 i (by simpa using hi) v (by simpa using hv)
    rw [Nat.zero_add] at this
    rw [this]
    by_cases hv0 : v = 0 <;> simp [hv0]
  · intro j hj e he
    rw [col_ofCols _ _ _ j (by simpa using hj)] at he
    simp only [List.getElem_map, List.getElem_range] at he
    exact ((fromRows_col_spec rows.toList j 0).2.1 e he).2.2

/-- non-vacuity of `fromRows_spec` -/
example : ∃ R, fromRows #[#[(1 : Int), 0], #[0, 2]] = .ok R ∧ Canonical R ∧ R.n = 2 :=
  let ⟨R, h1, h2, _, h3, _⟩ := fromRows_spec #[#[(1 : Int), 0], #[0, 2]] 2 (by decide) (by decide)
  ⟨R, h1, h2, h3⟩


/-! ## Round 3 — dense vector kernels (`vecmath.rs`, `ClarabelModel/Vec.lean`)

Structural statements ([S]) hold for every scalar type, `Float` included; [F] statements are
over a commutative (semi)ring or an ordered field whose `FloatLike` extras are the exact
ones (`LawfulFloatLike`: `fmax = max`, `fabs = |·|`, nothing is NaN); [R] statements are
over `ℝ` with `sqrt = Real.sqrt`. -/

/-- [S] `copy_from` succeeds exactly on equal lengths and then returns the source;
otherwise it panics (`copy_from_slice`). -/
theorem vec_copyFrom_spec (dst src : Array α) :
    (dst.size = src.size → Vec.copyFrom dst src = .ok src) ∧
    (dst.size ≠ src.size → ∃ s, Vec.copyFrom dst src = .error (.panic s)) := by
  unfold Vec.copyFrom
  refine ⟨fun h => by simp [h]; rfl, fun h => ⟨_, by simp [h]; rfl⟩⟩

/-- non-vacuity of `vec_copyFrom_spec` (both branches) -/
example : Vec.copyFrom #[1, 2] #[3, (4 : Int)] = .ok #[3, 4] ∧
    ∃ s, Vec.copyFrom #[1] #[3, (4 : Int)] = .error (.panic s) :=
  ⟨(vec_copyFrom_spec _ _).1 rfl, (vec_copyFrom_spec _ _).2 (by decide)⟩

/-- [S] `scalarop`: same length, entry `i` is `op` applied to entry `i`. -/
theorem vec_scalarop_spec (x : Array α) (op : α → α) :
    (Vec.scalarop x op).size = x.size ∧ ∀ i : Nat, (Vec.scalarop x op)[i]? = x[i]?.map op :=
  ⟨Vec.scalarop_size x op, Vec.scalarop_get x op⟩

/-- [S] the elementwise kernels are `scalarop` with the stated scalar function — so by
`vec_scalarop_spec` each keeps the length and maps entry `i` to `f xᵢ`:
`translate` `xᵢ + c`, `set` `c`, `scale` `xᵢ · c`, `recip` `1 / xᵢ`, `sqrt` `√xᵢ`,
`rsqrt` `1 / √xᵢ`, `negate` `−xᵢ`, `clip` `clip xᵢ lo hi`. -/
theorem vec_elementwise_eq_scalarop [Add α] [Mul α] [Sub α] [Div α] [Neg α] [OfNat α 0] [OfNat α 1]
    [LT α] [DecidableLT α] [FloatLike α] (x : Array α) (c lo hi : α) :
    Vec.translate x c = Vec.scalarop x (· + c) ∧
    Vec.setAll x c = Vec.scalarop x (fun _ => c) ∧
    Vec.scale x c = Vec.scalarop x (· * c) ∧
    Vec.recip x = Vec.scalarop x (fun v => 1 / v) ∧
    Vec.vsqrt x = Vec.scalarop x sqrt ∧
    Vec.rsqrt x = Vec.scalarop x (fun v => 1 / sqrt v) ∧
    Vec.negate x = Vec.scalarop x (fun v => -v) ∧
    Vec.vclip x lo hi = Vec.scalarop x (fun v => Vec.clip v lo hi) :=
  ⟨rfl, rfl, rfl, rfl, rfl, rfl, rfl, rfl⟩

/-- [S] `scalarop_from` writes `op vᵢ` into the first `min(len self, len v)` entries of
`self` and leaves the rest of `self` untouched (the Rust `zip` stops at the shorter slice). -/
theorem vec_scalaropFrom_spec (x v : Array α) (op : α → α) :
    (Vec.scalaropFrom x op v).size = x.size ∧
    ∀ i, i < x.size →
      (Vec.scalaropFrom x op v)[i]? = if i < v.size then v[i]?.map op else x[i]? :=
  ⟨Vec.scalaropFrom_size x v op, Vec.scalaropFrom_get x v op⟩

/-- non-vacuity of `vec_scalaropFrom_spec`: a shorter source leaves the tail alone -/
example : Vec.scalaropFrom #[1, 2, (3 : Int)] (· + 10) #[5] = #[15, 2, 3] := by rfl

/-- [S] `hadamard` (as the loop runs it): length of `self` is kept, entry `i` becomes
`xᵢ · yᵢ` while `y` lasts and is left alone beyond; on `len self ≤ len y` this is the
zip-map model `Vec.hadamard`. -/
theorem vec_hadamard_spec [Mul α] (x y : Array α) :
    (Vec.hadamardFull x y).size = x.size ∧
    (∀ i (hi : i < x.size), (Vec.hadamardFull x y)[i]? =
      if h : i < y.size then some (x[i] * y[i]) else x[i]?) ∧
    (x.size ≤ y.size → Vec.hadamardFull x y = Vec.hadamard x y) :=
  ⟨Vec.hadamardFull_size x y, fun i hi => Vec.hadamardFull_get x y i hi,
    Vec.hadamardFull_eq_hadamard x y⟩

/-- non-vacuity of `vec_hadamard_spec` -/
example : Vec.hadamardFull #[1, 2, (3 : Int)] #[5, 6] = #[5, 12, 3] := by rfl

/-- [S] `select`: panics exactly on a length mismatch; otherwise the result has one entry
per `true` flag and entry `rankBefore idx i` (the number of `true` flags before `i`) is `xᵢ`
for every kept `i` — every result position is of this form (`selectRows_rows_onto`). -/
theorem vec_select_spec (x : Array α) (idx : Array Bool) :
    (x.size ≠ idx.size → ∃ s, Vec.selectE x idx = .error (.panic s)) ∧
    (x.size = idx.size → ∃ r, Vec.selectE x idx = .ok r ∧
      r.size = (idx.toList.filter id).length ∧
      ∀ i, i < x.size → idx.getD i false = true → r[rankBefore idx i]? = x[i]?) := by
  unfold Vec.selectE
  refine ⟨fun h => ⟨_, by simp [h]; rfl⟩, fun h => ⟨Vec.select x idx, by simp [h]; rfl,
    Vec.select_size x idx h, fun i hi hk => Vec.select_get x idx h i hi hk⟩⟩

/-- non-vacuity of `vec_select_spec` -/
example : ∃ r, Vec.selectE #[7, 8, (9 : Int)] #[true, false, true] = .ok r ∧ r.size = 2 :=
  let ⟨r, h1, h2, _⟩ := (vec_select_spec #[7, 8, (9 : Int)] #[true, false, true]).2 rfl
  ⟨r, h1, h2⟩

/-- [S] `axpby` (`y ← a·x + b·y`): panics exactly on a length mismatch; otherwise length is
kept and entry `i` is `a·xᵢ + b·yᵢ` (this very expression, for every scalar type). -/
theorem vec_axpby_spec [Add α] [Mul α] [OfNat α 0] (a b : α) (x y : Array α) :
    (y.size ≠ x.size → ∃ s, Vec.axpbyE a x b y = .error (.panic s)) ∧
    (y.size = x.size → ∃ r, Vec.axpbyE a x b y = .ok r ∧ r.size = y.size ∧
      ∀ i (hx : i < x.size) (hy : i < y.size), r[i]? = some (a * x[i] + b * y[i])) := by
  unfold Vec.axpbyE
  refine ⟨fun h => ⟨_, by simp [h]; rfl⟩, fun h => ⟨Vec.axpby a x b y, by simp [h]; rfl,
    by rw [Vec.axpby_size]; omega, fun i hx hy => Vec.axpby_get a b x y i hx hy⟩⟩

/-- [S] `waxpby` (`w = a·x + b·y`): panics exactly when `len w ≠ len x` or `len w ≠ len y`;
otherwise the result has that length and entry `i` is `a·xᵢ + b·yᵢ`. -/
theorem vec_waxpby_spec [Add α] [Mul α] [OfNat α 0] (wlen : Nat) (a b : α) (x y : Array α) :
    ((wlen ≠ x.size ∨ wlen ≠ y.size) → ∃ s, Vec.waxpbyE wlen a x b y = .error (.panic s)) ∧
    (wlen = x.size → wlen = y.size → ∃ r, Vec.waxpbyE wlen a x b y = .ok r ∧ r.size = wlen ∧
      ∀ i (hx : i < x.size) (hy : i < y.size), r[i]? = some (a * x[i] + b * y[i])) := by
  unfold Vec.waxpbyE
  refine ⟨fun h => ?_, fun h1 h2 => ⟨Vec.waxpby a x b y, by simp [← h1, ← h2]; rfl,
    by rw [Vec.waxpby_size]; omega, fun i hx hy => Vec.waxpby_get a b x y i hx hy⟩⟩
  by_cases h1 : wlen = x.size
  · have h2 : wlen ≠ y.size := by rcases h with h | h; exact absurd h1 h; exact h
    exact ⟨_, by simp [← h1, h2]; rfl⟩
  · exact ⟨_, by simp [h1]; rfl⟩

/-- non-vacuity of `vec_axpby_spec` / `vec_waxpby_spec` -/
example : Vec.axpbyE 2 #[1, (1 : Int)] 3 #[1, 2] = .ok #[5, 8] ∧
    Vec.waxpbyE 2 2 #[1, (1 : Int)] 3 #[1, 2] = .ok #[5, 8] ∧
    ∃ s, Vec.waxpbyE 3 2 #[1, (1 : Int)] 3 #[1, 2] = .error (.panic s) :=
  ⟨by rfl, by rfl, (vec_waxpby_spec 3 2 3 #[1, (1 : Int)] #[1, 2]).1 (Or.inl (by decide))⟩

/-- [S] `is_finite` is `true` exactly when every entry is finite. -/
theorem vec_isFinite_iff [Add α] [Sub α] [Mul α] [Div α] [OfNat α 0] [OfNat α 1] [FloatLike α]
    (x : Array α) :
    Vec.isFinite x = true ↔ ∀ v ∈ x.toList, FloatLike.isFinite v = true := by
  unfold Vec.isFinite
  exact List.all_eq_true

/-- [S] NaN propagation of `norm_inf`, as the model (and the Rust early return) encodes it:
if any entry is a NaN the result is a NaN — for every scalar type, `Float` included. -/
theorem vec_normInf_nan [OfNat α 0] [FloatLike α] (x : Array α) (v : α) (hmem : v ∈ x.toList)
    (hv : FloatLike.isNaN v = true) : FloatLike.isNaN (Vec.normInf x) = true :=
  Vec.normInf_nan x v hmem hv

/-- non-vacuity of `vec_normInf_nan` at `Float` -/
example : FloatLike.isNaN (Vec.normInf #[1.0, (0.0 / 0.0 : Float), 3.0]) = true :=
  vec_normInf_nan _ (0.0 / 0.0) (by simp) (by decide)

/-- [S] `normalize`, the branch structure (any scalar type): a vector whose norm compares
equal to zero is returned untouched together with `0`; otherwise the norm is returned and
every entry is multiplied by `1 / norm`. -/
theorem vec_normalize_branches [Add α] [Sub α] [Mul α] [Div α] [OfNat α 0] [OfNat α 1] [BEq α]
    [FloatLike α] (x : Array α) :
    ((Vec.norm x == 0) = true → Vec.normalize x = (0, x)) ∧
    ((Vec.norm x == 0) = false →
      Vec.normalize x = (Vec.norm x, Vec.scalarop x (· * (1 / Vec.norm x)))) := by
  unfold Vec.normalize
  exact ⟨fun h => by simp [h], fun h => by simp [h]; rfl⟩


/-- [F] (semiring) `dot`, `sumsq`, `sum`, and the accumulator of `norm_scaled` are the finite
sums their names say (over the common index range — the Rust `zip` truncates). -/
theorem vec_sums_spec [Semiring α] (x y : Array α) :
    Vec.dot x y = ∑ i ∈ Finset.range (min x.size y.size), x.getD i 0 * y.getD i 0 ∧
    Vec.sumsq x = ∑ i ∈ Finset.range x.size, x.getD i 0 * x.getD i 0 ∧
    Vec.sum x = ∑ i ∈ Finset.range x.size, x.getD i 0 ∧
    Vec.sumsqScaled x y = ∑ i ∈ Finset.range (min x.size y.size),
      (x.getD i 0 * y.getD i 0) * (x.getD i 0 * y.getD i 0) :=
  ⟨Vec.dot_eq_sum x y, Vec.sumsq_eq_sum x, Vec.sum_eq_sum x, Vec.sumsqScaled_eq_sum x y⟩

/-- [F] (commutative semiring) `dot` is symmetric, and linear along `waxpby`:
`⟨a·x + b·y, z⟩ = a⟨x,z⟩ + b⟨y,z⟩` for equally long vectors. -/
theorem vec_dot_linear [CommSemiring α] (a b : α) (x y z : Array α)
    (hxy : x.size = y.size) (hxz : x.size = z.size) :
    Vec.dot x z = Vec.dot z x ∧
    Vec.dot (Vec.waxpby a x b y) z = a * Vec.dot x z + b * Vec.dot y z :=
  ⟨Vec.dot_comm x z, Vec.dot_waxpby a b x y z hxy hxz⟩

/-- non-vacuity of `vec_dot_linear` -/
example : Vec.dot (Vec.waxpby 2 #[1, (2 : Int)] 3 #[0, 1]) #[5, 7] =
    2 * Vec.dot #[1, (2 : Int)] #[5, 7] + 3 * Vec.dot #[0, (1 : Int)] #[5, 7] :=
  (vec_dot_linear 2 3 #[1, (2 : Int)] #[0, 1] #[5, 7] rfl rfl).2

/-- [F] (semiring) `dot_shifted`: panics exactly when one of its three length asserts fails;
otherwise it returns `Σ (sᵢ + α·dsᵢ)(zᵢ + α·dzᵢ)`. -/
theorem vec_dotShifted_spec [Semiring α] (z s dz ds : Array α) (a : α) :
    ((z.size ≠ s.size ∨ z.size ≠ dz.size ∨ s.size ≠ ds.size) →
      ∃ m, Vec.dotShiftedE z s dz ds a = .error (.panic m)) ∧
    (z.size = s.size → z.size = dz.size → s.size = ds.size →
      Vec.dotShiftedE z s dz ds a = .ok (∑ i ∈ Finset.range z.size,
        (s.getD i 0 + a * ds.getD i 0) * (z.getD i 0 + a * dz.getD i 0))) := by
  unfold Vec.dotShiftedE
  refine ⟨fun h => ?_, fun h1 h2 h3 => ?_⟩
  · split_ifs with c1 c2 c3
    · exact ⟨_, rfl⟩
    · exact ⟨_, rfl⟩
    · exact ⟨_, rfl⟩
    · exfalso
      simp only [bne_iff_ne, ne_eq, Decidable.not_not] at c1 c2 c3
      rcases h with h | h | h
      · exact h c1
      · exact h c2
      · exact h c3
  · rw [← Vec.dotShifted_eq_sum z s dz ds a h1 h2 h3]
    have e1 : (z.size != s.size) = false := by simp [h1]
    have e2 : (z.size != dz.size) = false := by simp [h2]
    have e3 : (s.size != ds.size) = false := by simp [h3]
    simp only [e1, e2, e3, Bool.false_eq_true, ↓reduceIte]
    rfl

/-- non-vacuity of `vec_dotShifted_spec` -/
example : ∃ v, Vec.dotShiftedE #[1, (2 : Int)] #[3, 4] #[1, 1] #[0, 2] 2 = .ok v :=
  ⟨_, (vec_dotShifted_spec #[1, (2 : Int)] #[3, 4] #[1, 1] #[0, 2] 2).2 rfl rfl rfl⟩

section lawful
variable [Field α] [LinearOrder α] [IsStrictOrderedRing α] [FloatLike α] [LawfulFloatLike α]

/-- [F] `sumsq ≥ 0`, and `sumsq x = 0` exactly for the zero vector. -/
theorem vec_sumsq_definite (x : Array α) :
    0 ≤ Vec.sumsq x ∧ (Vec.sumsq x = 0 ↔ ∀ i, i < x.size → x.getD i 0 = 0) :=
  ⟨Vec.sumsq_nonneg x, Vec.sumsq_eq_zero_iff x⟩

/-- [F] `norm_inf` is the largest absolute value: it is `≥ 0`, bounds every `|xᵢ|`, and is
attained by some entry unless it is `0` (in particular it is `0` on the empty vector). -/
theorem vec_normInf_spec (x : Array α) :
    0 ≤ Vec.normInf x ∧ (∀ v ∈ x.toList, |v| ≤ Vec.normInf x) ∧
    (Vec.normInf x = 0 ∨ ∃ v ∈ x.toList, Vec.normInf x = |v|) ∧
    (x.size = 0 → Vec.normInf x = 0) := by
  obtain ⟨h1, h2, h3⟩ := Vec.normInf_isMaxOf x
  refine ⟨h1, fun v hv => h2 _ (List.mem_map_of_mem hv), ?_, ?_⟩
  · rcases h3 with h | h
    · exact Or.inl h
    · obtain ⟨v, hv, he⟩ := List.mem_map.mp h
      exact Or.inr ⟨v, hv, he.symm⟩
  · intro h0
    have : x.toList = [] := by simpa using h0
    rcases h3 with h | h
    · exact h
    · rw [this] at h; simp at h

/-- [F] `norm_inf_scaled` / `norm_inf_diff` are the largest `|xᵢ·vᵢ|` / `|xᵢ − bᵢ|`
(`≥ 0`, upper bound, attained or zero). -/
theorem vec_normInfScaled_diff_spec (x v : Array α) :
    IsMaxOf (Vec.normInfScaled x v) 0 ((x.toList.zip v.toList).map (fun p => |p.1 * p.2|)) ∧
    IsMaxOf (Vec.normInfDiff x v) 0 ((x.toList.zip v.toList).map (fun p => |p.1 - p.2|)) :=
  ⟨Vec.normInfScaled_isMaxOf x v, Vec.normInfDiff_isMaxOf x v⟩

/-- [F] `norm_one = Σ|xᵢ|` and `norm_one_scaled = Σ|xᵢ·vᵢ|`. -/
theorem vec_normOne_spec (x v : Array α) :
    Vec.normOne x = ∑ i ∈ Finset.range x.size, |x.getD i 0| ∧
    Vec.normOneScaled x v = ∑ i ∈ Finset.range (min x.size v.size), |x.getD i 0 * v.getD i 0| :=
  ⟨Vec.normOne_eq_sum x, Vec.normOneScaled_eq_sum x v⟩

/-- [F] `minimum` / `maximum` of a non-empty vector are attained and bound every entry
(the model's `none` — Rust's `±∞` — is returned only for the empty vector). -/
theorem vec_min_max_spec (x : Array α) (hne : x.size ≠ 0) :
    (∃ r, Vec.minimum? x = some r ∧ r ∈ x.toList ∧ ∀ v ∈ x.toList, r ≤ v) ∧
    (∃ r, Vec.maximum? x = some r ∧ r ∈ x.toList ∧ ∀ v ∈ x.toList, v ≤ r) :=
  ⟨Vec.minimum?_spec x hne, Vec.maximum?_spec x hne⟩

/-- [F] `mean · n = Σ xᵢ` for a non-empty vector; the mean of the empty vector is `0`. -/
theorem vec_mean_spec (x : Array α) :
    (x.size ≠ 0 → Vec.mean x * (x.size : α) = ∑ i ∈ Finset.range x.size, x.getD i 0) ∧
    (x.size = 0 → Vec.mean x = 0) :=
  ⟨Vec.mean_mul_size x, fun h => by unfold Vec.mean; rw [if_pos h]⟩

/-- [F] `clip` with `lo ≤ hi`: the result lies in `[lo, hi]`, values already inside are
unchanged, and clipping twice is clipping once; the vector kernel does this entrywise. -/
theorem vec_clip_spec (x : Array α) (lo hi : α) (h : lo ≤ hi) :
    (∀ v : α, lo ≤ Vec.clip v lo hi ∧ Vec.clip v lo hi ≤ hi) ∧
    (∀ v : α, lo ≤ v → v ≤ hi → Vec.clip v lo hi = v) ∧
    (∀ v : α, Vec.clip (Vec.clip v lo hi) lo hi = Vec.clip v lo hi) ∧
    (Vec.vclip x lo hi).size = x.size ∧
    (∀ i : Nat, (Vec.vclip x lo hi)[i]? = x[i]?.map (fun v => Vec.clip v lo hi)) ∧
    Vec.vclip (Vec.vclip x lo hi) lo hi = Vec.vclip x lo hi := by
  refine ⟨fun v => Vec.clip_bounds v lo hi h, fun v => Vec.clip_of_mem v lo hi,
    fun v => Vec.clip_idem v lo hi h, Vec.scalarop_size _ _, Vec.scalarop_get _ _, ?_⟩
  unfold Vec.vclip Vec.scalarop
  rw [Array.map_map]
  congr 1
  funext v
  exact Vec.clip_idem v lo hi h

end lawful

/-- [S] on the empty vector `minimum`/`maximum` return the fold's start value (`±∞`). -/
theorem vec_min_max_empty [FloatLike α] :
    Vec.minimum? (#[] : Array α) = none ∧ Vec.maximum? (#[] : Array α) = none := ⟨rfl, rfl⟩


/-- non-vacuity of the ordered-field theorems (instantiated at `ℝ`) -/
example : (∃ r, Vec.minimum? #[(3 : ℝ), -1, 2] = some r ∧ r ∈ [(3 : ℝ), -1, 2]) ∧
    Vec.vclip (Vec.vclip #[(3 : ℝ), -1, 2] 0 1) 0 1 = Vec.vclip #[(3 : ℝ), -1, 2] 0 1 :=
  ⟨let ⟨r, h1, h2, _⟩ := (vec_min_max_spec #[(3 : ℝ), -1, 2] (by simp)).1; ⟨r, h1, by simpa using h2⟩,
   (vec_clip_spec #[(3 : ℝ), -1, 2] 0 1 (by norm_num)).2.2.2.2.2⟩

/-- [R] over `ℝ`: `norm = √(Σxᵢ²)`, `norm² = sumsq`, `norm ≥ 0`, `norm = 0` only for the zero
vector; `norm_scaled = √(Σ(xᵢvᵢ)²)`; `dist = √(Σ(xᵢ−yᵢ)²)`, symmetric, `dist x x = 0`. -/
theorem vec_norm_real (x y : Array ℝ) :
    Vec.norm x = Real.sqrt (∑ i ∈ Finset.range x.size, x.getD i 0 * x.getD i 0) ∧
    Vec.norm x * Vec.norm x = Vec.sumsq x ∧ 0 ≤ Vec.norm x ∧
    (Vec.norm x = 0 ↔ ∀ i, i < x.size → x.getD i 0 = 0) ∧
    Vec.normScaled x y = Real.sqrt (∑ i ∈ Finset.range (min x.size y.size),
      (x.getD i 0 * y.getD i 0) * (x.getD i 0 * y.getD i 0)) ∧
    Vec.dist x y = Real.sqrt (∑ i ∈ Finset.range (min x.size y.size),
      (x.getD i 0 - y.getD i 0) * (x.getD i 0 - y.getD i 0)) ∧
    Vec.dist x y = Vec.dist y x ∧ Vec.dist x x = 0 :=
  ⟨Vec.norm_real_eq x, Vec.norm_real_mul_self x, Vec.norm_real_nonneg x,
    Vec.norm_real_eq_zero_iff x, Vec.normScaled_real_eq x y, Vec.dist_real_eq x y,
    Vec.dist_real_comm x y, Vec.dist_real_self x⟩

/-- [R] `normalize` over `ℝ`: a vector of norm 0 (the zero vector) is returned untouched with
`0`, as the Rust code does; otherwise the norm is returned and the vector is divided by it,
and the result has norm exactly 1. -/
theorem vec_normalize_real (x : Array ℝ) :
    (Vec.norm x = 0 → Vec.normalize x = (0, x)) ∧
    (Vec.norm x ≠ 0 → Vec.normalize x = (Vec.norm x, Vec.scale x (1 / Vec.norm x)) ∧
      Vec.norm (Vec.scale x (1 / Vec.norm x)) = 1) :=
  Vec.normalize_real x

/-- non-vacuity of `vec_normalize_real`: `(3,4)` has norm `5 ≠ 0` -/
example : Vec.norm #[(3 : ℝ), 4] ≠ 0 := by
  intro h
  rw [(vec_norm_real #[(3 : ℝ), 4] #[]).2.2.2.1] at h
  have := h 0 (by simp)
  simp at this


/-! ## Round 3 — `hvcat` on a general block grid -/

/-- [S] `hvcat` fails (`IncompatibleDimension`) exactly when the block grid is inconsistent:
no block row, an empty first block row, block rows of different lengths, two blocks of one
block row with different heights, or two blocks of one block column with different widths
(`Csc.GridOK` is the conjunction of the five consistency conditions). -/
theorem hvcat_error_iff (mats : List (List (Csc α))) :
    hvcat mats = .error .incompatibleDimension ↔ ¬ GridOK mats :=
  hvcat_error_iff' mats

/-- [S] `hvcat` on a consistent grid: the result has `Σ heights` rows and `Σ widths`
columns, is canonical when every block is, and is the block matrix — the values stored at
`(Σ_{r'<r} h_r' + i, Σ_{k'<k} w_k' + c)` are exactly those stored at `(i, c)` of block
`(r, k)` (hence the same dense value, for every scalar type). -/
theorem hvcat_spec [Add α] [OfNat α 0] (mats : List (List (Csc α))) (g : GridOK mats) :
    ∃ R, hvcat mats = .ok R ∧ R.m = (mats.map headM).sum ∧
      R.n = ((mats.headD []).map (fun b : Csc α => b.n)).sum ∧
      ((∀ br ∈ mats, ∀ b ∈ br, Canonical b) →
        Canonical R ∧
        ∀ r k (hr : r < mats.length) (hk : k < mats[r].length) c i,
          c < mats[r][k].n → i < mats[r][k].m →
          R.toDense (((mats.take r).map headM).sum + i)
            ((((mats.headD []).map (fun b : Csc α => b.n)).take k).sum + c) =
            mats[r][k].toDense i c) := by
  refine ⟨_, hvcat_ok mats g, rfl, rfl, fun hcan => ⟨?_, ?_⟩⟩
  · apply canonical_ofCols
    · rw [List.length_flatten, hvBlocks_map_length]
    · intro col hcol
      rw [List.mem_flatten] at hcol
      obtain ⟨blk, hblk, hcol⟩ := hcol
      obtain ⟨k, hk, rfl⟩ := List.mem_iff_getElem.mp hblk
      have hk' : k < (mats.headD []).length := by rw [hvBlocks_length] at hk; exact hk
      rw [hvBlocks_getElem mats k hk'] at hcol
      simp only [List.mem_map, List.mem_range] at hcol
      obtain ⟨c, hc, rfl⟩ := hcol
      exact colOK_hvCol mats g hcan k c hk' hc
  · intro r k hr hk c i hc hi
    obtain ⟨hidx, hval⟩ := colVals_hvcat mats g hcan r k hr hk c i hc hi
    rw [toDense_eq_foldl_colVals, toDense_eq_foldl_colVals, col_ofCols _ _ _ _ hidx, hval]

/-- non-vacuity of `hvcat_spec` / `hvcat_error_iff`: a 2×2 grid of `exM`, and a grid whose
second block row is too short -/
example : (∃ R, hvcat [[exM, exM], [exM, exM]] = .ok R ∧ Canonical R ∧ R.m = 6 ∧ R.n = 6) ∧
    hvcat [[exM, exM], [exM]] = .error .incompatibleDimension := by
  have g : GridOK [[exM, exM], [exM, exM]] := (hvcatDimCheck_iff _).mp (by rfl)
  obtain ⟨R, h1, h2, h3, h4⟩ := hvcat_spec _ g
  refine ⟨⟨R, h1, (h4 ?_).1, h2, h3⟩, (hvcat_error_iff _).mpr ?_⟩
  · intro br hbr b hb
    simp only [List.mem_cons, List.not_mem_nil, or_false] at hbr
    rcases hbr with rfl | rfl <;>
    · simp only [List.mem_cons, List.not_mem_nil, or_false, or_self] at hb
      rw [hb]; exact exM_canonical
  · intro g'
    have := (hvcatDimCheck_iff _).mpr g'
    revert this
    decide

/-! ## Round 3 — `findnz`, `new`, `spalloc`, equality and sparsity comparison -/

/-- [S] `findnz` of a canonical (`check_format = Ok`) matrix returns `I = rowval`,
`V = nzval`, three arrays of length `nnz`, and the triples `(Iₚ, Jₚ, Vₚ)` are the stored
entries `(row, column, value)` in column-major storage order. -/
theorem findnz_spec (M : Csc α) (h : Canonical0 M) :
    M.findnz.1 = M.rowval ∧ M.findnz.2.2 = M.nzval ∧ M.findnz.2.1.size = M.rowval.size ∧
    M.findnz.1.toList.zip (M.findnz.2.1.toList.zip M.findnz.2.2.toList) =
      ((List.range M.n).map (fun c => (M.col c).map (fun e => (e.1, c, e.2)))).flatten := by
  refine ⟨rfl, rfl, ?_, findnz_triples M h.canon h.colptr_zero⟩
  have := findnz_J_length M h.canon
  have := h.colptr_zero
  omega

/-- [S] the dense reconstruction of `findnz` is the matrix itself: `new_from_triplets`
applied to the triplets returns the very same encoding (any scalar type — no sum is formed
since a canonical matrix has no duplicates). -/
theorem findnz_roundtrip [Add α] (M : Csc α) (h : Canonical0 M) :
    newFromTriplets M.m M.n M.findnz.1 M.findnz.2.1 M.findnz.2.2 = .ok M :=
  newFromTriplets_findnz M h.canon h.colptr_zero

/-- [S] `findnz` when `colptr[0] = k > 0` (unvalidated data: `check_format` rejects such an
encoding since /repo 190e6c4): `I` and `V`
still have `nnz` entries but `J` has only `nnz − k`, and `J` lines up with the entries of
the columns (the storage after the first `k` orphan entries), not with `I`/`V`. -/
theorem findnz_shifted (M : Csc α) (hM : Canonical M) :
    M.findnz.2.1.size + M.colptr.getD 0 0 = M.rowval.size ∧
    M.entries = M.orphans ++ M.cols.flatten ∧
    M.cols.flatten.zip M.findnz.2.1.toList =
      ((List.range M.n).map (fun c => (M.col c).map (fun e => (e, c)))).flatten :=
  ⟨findnz_J_length M hM, entries_eq_orphans_append M hM, cols_zip_findnz_J M hM⟩

/-- non-vacuity of the `findnz` theorems -/
example : newFromTriplets exM.m exM.n exM.findnz.1 exM.findnz.2.1 exM.findnz.2.2 = .ok exM ∧
    exM.findnz.2.1 = #[0, 0, 1, 2, 2] :=
  ⟨findnz_roundtrip exM exM_canonical0, by rfl⟩

/-- [S] `CscMatrix::new` succeeds exactly when its three assertions hold
(`rowval.len = nzval.len`, `colptr.len = n + 1`, `colptr[n] = rowval.len`) and then stores
its arguments unchanged; otherwise it panics.  Nothing else is checked (not `colptr`
monotonicity, not the row indices). -/
theorem new_spec (m n : Nat) (colptr rowval : Array Nat) (nzval : Array α) :
    (rowval.size = nzval.size ∧ colptr.size = n + 1 ∧ colptr.getD n 0 = rowval.size →
      Csc.new m n colptr rowval nzval = .ok ⟨m, n, colptr, rowval, nzval⟩) ∧
    (¬ (rowval.size = nzval.size ∧ colptr.size = n + 1 ∧ colptr.getD n 0 = rowval.size) →
      ∃ s, Csc.new m n colptr rowval nzval = .error (.panic s)) :=
  ⟨fun h => new_ok m n colptr rowval nzval h.1 h.2.1 h.2.2, new_panics m n colptr rowval nzval⟩

/-- non-vacuity of `new_spec` (both branches) -/
example : Csc.new 3 3 #[0, 2, 3, 5] #[0, 2, 1, 0, 2] #[(1 : Int), 3, 2, 4, 5] = .ok exM ∧
    ∃ s, Csc.new 3 3 #[0, 2, 3, 4] #[0, 2, 1, 0, 2] #[(1 : Int), 3, 2, 4, 5] = .error (.panic s) :=
  ⟨(new_spec _ _ _ _ _).1 ⟨rfl, rfl, rfl⟩, (new_spec _ _ _ _ _).2 (by decide)⟩

/-- [S] `spalloc(m, n, nnz)`: shape `m × n`, `colptr` of length `n + 1` that is `0`
everywhere except `colptr[n] = nnz`, `rowval`/`nzval` of length `nnz`; it satisfies the
asserts of `new`; it passes `check_dimensions` when `n > 0` or `nnz = 0` — and only then:
`spalloc(m, 0, nnz)` with `nnz > 0` has `colptr = [nnz]`, which does not start at 0
(`BadColptr` since /repo 190e6c4). -/
theorem spalloc_spec [OfNat α 0] (m n nnz : Nat) :
    (spalloc m n nnz : Csc α).m = m ∧ (spalloc m n nnz : Csc α).n = n ∧
    (spalloc m n nnz : Csc α).colptr.size = n + 1 ∧
    (∀ k, (spalloc m n nnz : Csc α).colptr.getD k 0 = if k = n then nnz else 0) ∧
    (spalloc m n nnz : Csc α).rowval.size = nnz ∧ (spalloc m n nnz : Csc α).nzval.size = nnz ∧
    (spalloc m n nnz : Csc α).nnz = nnz ∧
    ((0 < n ∨ nnz = 0) → (spalloc m n nnz : Csc α).checkDimensions = .ok ()) ∧
    (n = 0 → 0 < nnz → (spalloc m n nnz : Csc α).checkDimensions = .error .badColptr) ∧
    Csc.new m n (spalloc m n nnz : Csc α).colptr (spalloc m n nnz : Csc α).rowval
      (spalloc m n nnz : Csc α).nzval = .ok (spalloc m n nnz) := by
  have hn := spalloc_colptr_getD (α := α) m n nnz n
  simp only [↓reduceIte] at hn
  refine ⟨rfl, rfl, by simp [spalloc], spalloc_colptr_getD m n nnz, by simp [spalloc],
    by simp [spalloc], hn, spalloc_checkDimensions m n nnz, ?_, ?_⟩
  · intro h0 hpos
    subst h0
    exact spalloc_zero_cols_shifted m nnz hpos
  · exact new_ok m n _ _ _ (by simp [spalloc]) (by simp [spalloc]) (by rw [hn]; simp [spalloc])

/-- non-vacuity of the two `check_dimensions` clauses of `spalloc_spec` -/
example : (spalloc 2 3 4 : Csc Int).checkDimensions = .ok () ∧
    (spalloc 2 0 4 : Csc Int).checkDimensions = .error .badColptr :=
  ⟨(spalloc_spec 2 3 4).2.2.2.2.2.2.2.1 (Or.inl (by decide)),
   (spalloc_spec 2 0 4).2.2.2.2.2.2.2.2.1 rfl (by decide)⟩

/-- [S] the derived equality of `CscMatrix` (`==`) compares the five fields; over a scalar
type with a lawful `==` it is equality of the encodings.  (At `f64` the last conjunct is the
IEEE comparison of the value arrays: a stored NaN makes a matrix unequal to itself.) -/
theorem isEqual_iff [BEq α] (A B : Csc α) :
    (A.isEqual B = true ↔ A.m = B.m ∧ A.n = B.n ∧ A.colptr = B.colptr ∧ A.rowval = B.rowval ∧
      (A.nzval == B.nzval) = true) ∧
    (∀ [LawfulBEq α], A.isEqual B = true ↔ A = B) :=
  ⟨isEqual_iff_fields A B, fun {_} => isEqual_iff_eq A B⟩

/-- [S] canonical encodings are determined by their columns: two canonical
(`check_format = Ok`) matrices of the same shape whose columns hold the same `(row, value)` lists
are the same encoding — so `==` decides equality of the stored sparse matrices. -/
theorem canonical_encoding_unique (A B : Csc α) (hA : Canonical0 A) (hB : Canonical0 B)
    (hm : A.m = B.m) (hn : A.n = B.n) (hcol : ∀ j, j < A.n → A.col j = B.col j) : A = B :=
  canonical_ext A B hA.canon hB.canon hA.colptr_zero hB.colptr_zero hm hn hcol

/-- non-vacuity of `canonical_encoding_unique` -/
example : exM = ⟨3, 3, #[0, 2, 3, 5], #[0, 2, 1, 0, 2], #[1, 3, 2, 4, 5]⟩ :=
  canonical_encoding_unique _ _ exM_canonical0 exM_canonical0 rfl rfl (fun _ _ => rfl)

/-- [S] `is_equal_sparsity` / `check_equal_sparsity`: `Ok` exactly when the shapes, `colptr`
and `rowval` coincide; `IncompatibleDimension` exactly when the shapes differ;
`SparsityMismatch` exactly when the shapes agree but `colptr` or `rowval` differ. -/
theorem equal_sparsity_iff (A B : Csc α) :
    (A.isEqualSparsity B = true ↔
      A.m = B.m ∧ A.n = B.n ∧ A.colptr = B.colptr ∧ A.rowval = B.rowval) ∧
    (A.checkEqualSparsity B = .ok () ↔
      A.m = B.m ∧ A.n = B.n ∧ A.colptr = B.colptr ∧ A.rowval = B.rowval) ∧
    (A.checkEqualSparsity B = .error .incompatibleDimension ↔ ¬ (A.m = B.m ∧ A.n = B.n)) ∧
    (A.checkEqualSparsity B = .error .sparsityMismatch ↔
      A.m = B.m ∧ A.n = B.n ∧ ¬ (A.colptr = B.colptr ∧ A.rowval = B.rowval)) :=
  ⟨isEqualSparsity_iff A B, checkEqualSparsity_ok_iff A B, checkEqualSparsity_dim_iff A B,
    checkEqualSparsity_mismatch_iff A B⟩


/-! ## Round 3 — the `colptr[0] = 0` side hypothesis

`Canonical` (and, before /repo 190e6c4, `check_format`) admits encodings whose `colptr` starts
at `k > 0`: the first `k` stored entries (`Csc.orphans`) then belong to no column.
`check_format` and `canonicalize` now reject such encodings (`check_format_iff`,
`check_format_shifted`, `canonicalize_rejects_shifted`), but the accessors still run on
unvalidated data (`CscMatrix::new` does not call `check_format`, and the fields are public),
so the theorems below say what the row-wise operations compute there, and the examples show
that the hypothesis cannot be dropped from `rowSums_spec`, `rowNorms*_spec` and
`indexToCoord_spec`. -/

/-- a `Canonical` (accepted by `check_format` before /repo 190e6c4, `BadColptr` since) 1×1
encoding with `colptr = [1, 1]`: one stored entry `(0, 5)` that belongs to no column; its dense
meaning is the zero matrix -/
def exShift : Csc Int := ⟨1, 1, #[1, 1], #[0], #[5]⟩
theorem exShift_canonical : Canonical exShift := (checkFormatOld_iff exShift).mp (by rfl)

/-- [F] (additive commutative monoid) `row_sums` on any `Canonical` matrix, without
`colptr[0] = 0` (unvalidated data; `check_format` rejects `colptr[0] ≠ 0` since /repo 190e6c4): slot `i` is `Σ_j A i j` plus the orphan values stored at row `i`
(`rowSums_spec` is the case of no orphans). -/
theorem rowSums_general_spec [AddCommMonoid α] (M : Csc α) (sums : Array α) (hM : Canonical M)
    (hs : sums.size = M.m) :
    ∃ v, M.rowSums sums = .ok v ∧ v.size = M.m ∧
      ∀ i, i < M.m → v[i]? =
        some ((colVals M.orphans i).sum + ∑ j ∈ Finset.range M.n, M.toDense i j) :=
  rowSums_general M sums hM hs

/-- the hypothesis `colptr[0] = 0` of `rowSums_spec` is needed: on `exShift` the row sum is
the orphan value 5 while the dense row sum is 0 (the Rust code returns 5 as well:
`csc.row_sums m=1 n=1 colptr=1,1 rowval=0 nzval=5`). -/
example : (∃ v, exShift.rowSums #[0] = .ok v ∧ v[0]? = some 5) ∧ exShift.toDense 0 0 = 0 := by
  refine ⟨?_, by rfl⟩
  obtain ⟨v, h1, _, h3⟩ := rowSums_general_spec exShift #[0] exShift_canonical rfl
  refine ⟨v, h1, ?_⟩
  rw [h3 0 (by decide)]
  have e1 : (colVals exShift.orphans 0).sum = 5 := by decide
  have e2 : exShift.toDense 0 0 = 0 := by rfl
  have e3 : exShift.n = 1 := rfl
  rw [e1, e3, Finset.sum_range_one, e2]
  rfl

/-- non-vacuity of `rowSums_general_spec` -/
example : ∃ v, exShift.rowSums #[7] = .ok v ∧ v.size = 1 :=
  let ⟨v, h1, h2, _⟩ := rowSums_general_spec exShift #[7] exShift_canonical rfl
  ⟨v, h1, h2⟩

/-- [F] `row_norms_no_reset` on any `Canonical` matrix, without `colptr[0] = 0` (unvalidated
data; `check_format` rejects `colptr[0] ≠ 0` since /repo 190e6c4): slot `i`
becomes the maximum of its old content and the absolute values of the orphan entries and the
column entries stored at row `i`. -/
theorem rowNormsNoReset_general_spec [Field α] [LinearOrder α] [IsStrictOrderedRing α]
    [FloatLike α] [LawfulFloatLike α] (M : Csc α) (norms : Array α) (hM : Canonical M)
    (hs : norms.size = M.m) :
    ∃ v, M.rowNormsNoReset norms = .ok v ∧ v.size = M.m ∧
      ∀ i, i < M.m → ∃ r, v[i]? = some r ∧
        IsMaxOf r (norms.getD i 0)
          (((M.orphans ++ M.cols.flatten).filter (fun e => e.1 == i)).map (fun e => |e.2|)) :=
  rowNormsNoReset_general M norms hM hs

/-- non-vacuity of `rowNormsNoReset_general_spec` (a shifted encoding over ℝ) -/
example : ∃ v, (⟨1, 1, #[1, 1], #[0], #[(5 : ℝ)]⟩ : Csc ℝ).rowNormsNoReset #[0] = .ok v ∧ v.size = 1 :=
  let ⟨v, h1, h2, _⟩ := rowNormsNoReset_general_spec (⟨1, 1, #[1, 1], #[0], #[(5 : ℝ)]⟩ : Csc ℝ) #[0]
    ((checkFormatOld_iff _).mp (by rfl)) rfl
  ⟨v, h1, h2⟩

/-- [S] `index_to_coord` needs only `colptr[0] ≤ idx` (implied by `colptr[0] = 0`): the
call succeeds and returns the row of the `idx`-th stored entry and the unique column whose
pointer range contains `idx`. -/
theorem indexToCoord_general_spec (M : Csc α) (idx : Nat) (hM : Canonical M)
    (h0 : M.colptr.getD 0 0 ≤ idx) (hidx : idx < M.nnz) :
    ∃ row col, M.indexToCoord idx = .ok (row, col) ∧ M.rowval[idx]? = some row ∧ col < M.n ∧
      M.colptr.getD col 0 ≤ idx ∧ idx < M.colptr.getD (col + 1) 0 :=
  indexToCoord_general M idx hM h0 hidx

/-- [S] …and that hypothesis is needed (on unvalidated data; `check_format` rejects
`colptr[0] ≠ 0` since /repo 190e6c4): an index below `colptr[0]` lies in no column's
pointer range; the model then answers column 0 (the Rust expression
`partition_point(..) - 1` underflows there: a panic in a debug build, `usize::MAX` in a
release build — observed: `csc.index_to_coord m=1 n=1 colptr=1,1 rowval=0 idx=0` returns
`col=18446744073709551615`). -/
theorem indexToCoord_below_colptr0 (M : Csc α) (idx : Nat) (hM : Canonical M)
    (h0 : idx < M.colptr.getD 0 0) :
    (∃ row, M.indexToCoord idx = .ok (row, 0)) ∧
    ¬ ∃ col, col < M.n ∧ M.colptr.getD col 0 ≤ idx ∧ idx < M.colptr.getD (col + 1) 0 :=
  indexToCoord_orphan M idx hM h0

/-- non-vacuity of `indexToCoord_general_spec` / `indexToCoord_below_colptr0` -/
example : (∃ row col, (⟨2, 1, #[1, 2], #[0, 1], #[5, 7]⟩ : Csc Int).indexToCoord 1 = .ok (row, col) ∧ col < 1) ∧
    exShift.indexToCoord 0 = .ok (0, 0) := by
  refine ⟨?_, by rfl⟩
  obtain ⟨r, c, h1, _, h2, _⟩ := indexToCoord_general_spec (⟨2, 1, #[1, 2], #[0, 1], #[5, 7]⟩ : Csc Int) 1
    ((checkFormatOld_iff _).mp (by rfl)) (by decide) (by decide)
  exact ⟨r, c, h1, h2⟩

/-- [S] `canonicalize` rejects shifted input: an encoding that passes the dimension tests but
has `colptr[0] ≠ 0` gives `BadColptr`, for every scalar type (since /repo 190e6c4; this
replaces the round-3 counterexample `canonicalize_needs_colptr0`).  Together with
`canonicalize_error_iff` and `check_format_iff`: `canonicalize` succeeds only on encodings
that start at 0, where `canonicalize_spec` applies. -/
theorem canonicalize_rejects_shifted [Add α] (M : Csc α) (hd : dimsConsistent M)
    (h0 : M.colptr.getD 0 0 ≠ 0) : M.canonicalize = .error .badColptr := by
  unfold canonicalize
  rw [checkDimensions_shifted M hd h0]

/-- non-vacuity of `canonicalize_rejects_shifted`, and the pre-fix behaviour it repairs
(finding C16 `check_format`/`canonicalize` on `colptr[0] ≠ 0`): with the definitions before
/repo 190e6c4 `exShift` passed `check_format`, yet `canonicalize` did not return it unchanged
(the model rebuilt `colptr` from 0 and dropped the orphan entry; the Rust code merged the
orphan into column 0: `m=2 n=1 colptr=[1,2] rowval=[0,0] nzval=[5,7]` became
`colptr=[1,1] rowval=[0] nzval=[12]`, i.e. the dense matrix `[7; 0]` became the zero
matrix). -/
example : exShift.canonicalize = .error .badColptr ∧ exShift.checkFormat = .error .badColptr ∧
    exShift.checkFormatOld = .ok () ∧
    exShift.canonicalizeOld = .ok ⟨1, 1, #[0, 0], #[], #[]⟩ :=
  ⟨canonicalize_rejects_shifted exShift ⟨rfl, rfl, rfl⟩ (by decide),
   check_format_shifted exShift ⟨rfl, rfl, rfl⟩ (by decide), by rfl, by rfl⟩

/-- [S] `canonicalize` on an accepted (`Canonical0`) encoding is the identity — the
`Canonical0` form of `canonicalize_of_canonical`. -/
theorem canonicalize_of_canonical0 [Add α] (M : Csc α) (h : Canonical0 M) :
    M.canonicalize = .ok M :=
  canonicalize_of_canonical M h.canon h.colptr_zero

/-- non-vacuity of `canonicalize_of_canonical0` -/
example : exM.canonicalize = .ok exM := canonicalize_of_canonical0 exM exM_canonical0

/-! ## Round 3 — remaining small public methods -/

/-- [F] `col_norms_sym` = `col_norms_sym_no_reset` started from zeros: on a canonical square
matrix slot `k` is the largest absolute value among the stored entries lying in column `k`
or in row `k` (0 when there is none). -/
theorem colNormsSym_spec [Field α] [LinearOrder α] [IsStrictOrderedRing α] [FloatLike α]
    [LawfulFloatLike α] (M : Csc α) (norms : Array α) (hM : Canonical M) (hsq : M.m = M.n)
    (hs : norms.size = M.n) :
    ∃ v, M.colNormsSym norms = .ok v ∧ v.size = M.n ∧
      ∀ k, k < M.n → ∃ r, v[k]? = some r ∧ 0 ≤ r ∧
        (∀ j, j < M.n → ∀ e ∈ M.col j, (j = k ∨ e.1 = k) → |e.2| ≤ r) ∧
        (r = 0 ∨ ∃ j, j < M.n ∧ ∃ e ∈ M.col j, (j = k ∨ e.1 = k) ∧ r = |e.2|) := by
  obtain ⟨v, h1, h2, h3⟩ := colNormsSymNoReset_spec M (norms.map (fun _ => (0 : α))) hM hsq
    (by simpa using hs)
  refine ⟨v, h1, h2, fun k hk => ?_⟩
  obtain ⟨r, hr1, hr2, hr3, hr4⟩ := h3 k hk
  have : (norms.map (fun _ => (0 : α))).getD k 0 = 0 := by
    rw [Array.getD_eq_getD_getElem?]
    by_cases h : k < norms.size <;> simp [h]
  rw [this] at hr2 hr4
  exact ⟨r, hr1, hr2, hr3, hr4⟩

/-- non-vacuity of `colNormsSym_spec` -/
example : ∃ v, (⟨2, 2, #[0, 1, 3], #[0, 0, 1], #[(-3 : ℝ), 2, 1]⟩ : Csc ℝ).colNormsSym #[9, 9] = .ok v ∧
    v.size = 2 :=
  let ⟨v, h1, h2, _⟩ := colNormsSym_spec (⟨2, 2, #[0, 1, 3], #[0, 0, 1], #[(-3 : ℝ), 2, 1]⟩ : Csc ℝ)
    #[9, 9] (check_format_canonical _ (by rfl)) rfl rfl
  ⟨v, h1, h2⟩

/-- [S] `is_triu` is `true` exactly when no column stores an entry below the diagonal. -/
theorem isTriu_iff (M : Csc α) :
    M.isTriu = true ↔ ∀ j, j < M.n → ∀ r ∈ M.colRows j, r ≤ j := by
  unfold isTriu
  simp only [List.all_eq_true, List.mem_range, decide_eq_true_eq]

/-- [S] `nnz` reads `colptr[n]` (index panic when `colptr` is too short); `is_square` is
`m = n`. -/
theorem nnz_isSquare_spec (M : Csc α) :
    (M.n < M.colptr.size → M.nnzE = .ok M.nnz) ∧
    (M.colptr.size ≤ M.n → ∃ s, M.nnzE = .error (.panic s)) ∧
    (M.isSquare = true ↔ M.m = M.n) := by
  refine ⟨fun h => ?_, fun h => ?_, by simp [isSquare]⟩
  · unfold nnzE nnz getE
    rw [Array.getD_eq_getD_getElem?, Array.getElem?_eq_getElem h]
    rfl
  · refine ⟨"nnz: colptr[n]", ?_⟩
    unfold nnzE getE
    rw [Array.getElem?_eq_none (by omega)]
    rfl

/-- non-vacuity of `nnz_isSquare_spec` -/
example : exM.nnzE = .ok 5 ∧ ∃ s, (⟨1, 1, #[], #[], #[]⟩ : Csc Int).nnzE = .error (.panic s) :=
  ⟨(nnz_isSquare_spec exM).1 (by decide), (nnz_isSquare_spec _).2.1 (by decide)⟩


/-- [R] `ScalarMath::logsafe` over `ℝ`: the logarithm on positive arguments (hence monotone
there, and `logsafe 1 = 0`); for every scalar type a non-positive argument gives the
model's `-∞` token `negInf = -(1/0)` (definitional: that is the branch the code takes). -/
theorem logsafe_spec :
    (∀ x : ℝ, 0 < x → Nonsym.logsafe x = Real.log x) ∧
    (∀ x y : ℝ, 0 < x → x ≤ y → Nonsym.logsafe x ≤ Nonsym.logsafe y) ∧
    Nonsym.logsafe (1 : ℝ) = 0 ∧
    (∀ x : ℝ, x ≤ 0 → Nonsym.logsafe x = Nonsym.negInf) := by
  have h1 : ∀ x : ℝ, 0 < x → Nonsym.logsafe x = Real.log x := by
    intro x hx
    unfold Nonsym.logsafe
    rw [if_neg (not_le.mpr hx)]
    rfl
  refine ⟨h1, ?_, ?_, ?_⟩
  · intro x y hx hxy
    rw [h1 x hx, h1 y (lt_of_lt_of_le hx hxy)]
    exact Real.log_le_log hx hxy
  · rw [h1 1 one_pos, Real.log_one]
  · intro x hx
    unfold Nonsym.logsafe
    rw [if_pos hx]


/-- [S] NaN behaviour of `minimum` / `maximum` as the model encodes it (Rust:
`f64::min(+∞, NaN) = +∞`): NaN entries met while the accumulator is still the start value
`±∞` are skipped — a vector that begins with NaNs has the minimum / maximum of the rest, and
an all-NaN vector returns the start value.  Holds for every scalar type, `Float` included. -/
theorem vec_min_max_leading_nan [FloatLike α] (p l : List α)
    (hp : ∀ v ∈ p, FloatLike.isNaN v = true) :
    Vec.minimum? (p ++ l).toArray = Vec.minimum? l.toArray ∧
    Vec.maximum? (p ++ l).toArray = Vec.maximum? l.toArray := by
  unfold Vec.minimum? Vec.maximum?
  simp only [List.foldl_append]
  constructor
  · congr 1
    induction p with
    | nil => rfl
    | cons a t ih =>
      rw [List.foldl_cons]
      simp only [hp a (by simp), ↓reduceIte]
      exact ih (fun v hv => hp v (List.mem_cons_of_mem _ hv))
  · congr 1
    induction p with
    | nil => rfl
    | cons a t ih =>
      rw [List.foldl_cons]
      simp only [hp a (by simp), ↓reduceIte]
      exact ih (fun v hv => hp v (List.mem_cons_of_mem _ hv))

/-- non-vacuity of `vec_min_max_leading_nan` at `Float` -/
example : Vec.minimum? ([(0.0 / 0.0 : Float)] ++ [2.0, 1.0]).toArray = Vec.minimum? [(2.0 : Float), 1.0].toArray :=
  (vec_min_max_leading_nan [(0.0 / 0.0 : Float)] [2.0, 1.0] (by intro v hv; simp at hv; rw [hv]; decide)).1


/-! ### further non-vacuity examples for the round-3 theorems -/

/-- `vec_normalize_branches` at `Float`: a vector of (signed) zeros is returned untouched -/
example : Vec.normalize #[(0.0 : Float), -0.0] = (0, #[0.0, -0.0]) :=
  (vec_normalize_branches #[(0.0 : Float), -0.0]).1 (by decide)

/-- `vec_mean_spec` at `ℝ` -/
example : Vec.mean #[(1 : ℝ), 2, 6] * ((3 : Nat) : ℝ) = ∑ i ∈ Finset.range 3, #[(1 : ℝ), 2, 6].getD i 0 :=
  (vec_mean_spec #[(1 : ℝ), 2, 6]).1 (by simp)

/-- `isEqual_iff` with a lawful `==` (`Int`) -/
example : exM.isEqual exM = true := ((isEqual_iff exM exM).2).mpr rfl

/-- `indexToCoord_below_colptr0` on `exShift` (index 0 < `colptr[0]` = 1) -/
example : ¬ ∃ col, col < exShift.n ∧ exShift.colptr.getD col 0 ≤ 0 ∧ 0 < exShift.colptr.getD (col + 1) 0 :=
  (indexToCoord_below_colptr0 exShift 0 exShift_canonical (by decide)).2

/-- `logsafe_spec`: `logsafe 1 = 0` over `ℝ` and the `-∞` token at `Float` -/
example : Nonsym.logsafe (1 : ℝ) = 0 ∧ Nonsym.logsafe (0.0 : Float) == -(1.0 / 0.0) :=
  ⟨logsafe_spec.2.2.1, by decide⟩

/-! ## Round 5 — `min ≤ mean ≤ max`, and which `spalloc` results are canonical -/

section meanbounds
variable [Field α] [LinearOrder α] [IsStrictOrderedRing α] [FloatLike α] [LawfulFloatLike α]

/-- [F] `minimum ≤ mean ≤ maximum` for a non-empty vector (both exist: `vec_min_max_spec`); if
minimum and maximum coincide the mean is that value. -/
theorem vec_min_le_mean_le_max (x : Array α) (hne : x.size ≠ 0) :
    (∃ lo hi, Vec.minimum? x = some lo ∧ Vec.maximum? x = some hi ∧
      lo ≤ Vec.mean x ∧ Vec.mean x ≤ hi ∧ lo ≤ hi) ∧
    (∀ v, Vec.minimum? x = some v → Vec.maximum? x = some v → Vec.mean x = v) :=
  ⟨Vec.min_le_mean_le_max x hne, fun v h1 h2 => Vec.mean_eq_of_min_eq_max x hne v h1 h2⟩

end meanbounds

/-- non-vacuity of `vec_min_le_mean_le_max` at `ℝ` -/
example : ∃ lo hi, Vec.minimum? #[(1 : ℝ), 2, 6] = some lo ∧ Vec.maximum? #[(1 : ℝ), 2, 6] = some hi ∧
    lo ≤ Vec.mean #[(1 : ℝ), 2, 6] ∧ Vec.mean #[(1 : ℝ), 2, 6] ≤ hi :=
  let ⟨lo, hi, h1, h2, h3, h4, _⟩ := (vec_min_le_mean_le_max #[(1 : ℝ), 2, 6] (by simp)).1
  ⟨lo, hi, h1, h2, h3, h4⟩

/-- [S] **which `spalloc(m, n, nnz)` are canonical encodings.**  `spalloc` stores `nnz` entries
with row index `0`, all of them in the last column (`colptr = [0,…,0,nnz]`; with `n = 0` in no
column at all).  So it is `Canonical` iff nothing is stored, or `m > 0` (row `0` exists) and no
column holds two entries: `n = 0` or `nnz = 1`; and it is a canonical encoding in the sense of
`check_format` (`Canonical0`, `colptr[0] = 0` in addition) iff `nnz = 0`, or `m, n > 0` and
`nnz = 1`.  In particular `spalloc(m, n, nnz)` with `nnz ≥ 2` is a workspace to be filled, never
a valid matrix (its last column repeats row `0`). -/
theorem spalloc_canonical_iff [OfNat α 0] (m n nnz : Nat) :
    (Canonical (spalloc m n nnz : Csc α) ↔ nnz = 0 ∨ (0 < m ∧ (n = 0 ∨ nnz = 1))) ∧
    (Canonical0 (spalloc m n nnz : Csc α) ↔ nnz = 0 ∨ (0 < m ∧ 0 < n ∧ nnz = 1)) ∧
    ((spalloc m n nnz : Csc α).checkFormat = .ok () ↔ nnz = 0 ∨ (0 < m ∧ 0 < n ∧ nnz = 1)) :=
  ⟨Csc.spalloc_canonical_iff m n nnz, Csc.spalloc_canonical0_iff m n nnz,
   (check_format_iff _).trans (Csc.spalloc_canonical0_iff m n nnz)⟩

/-- both directions on concrete shapes -/
example : Canonical0 (spalloc 2 3 1 : Csc Int) ∧ ¬ Canonical (spalloc 2 3 2 : Csc Int) ∧
    Canonical (spalloc 2 0 5 : Csc Int) ∧ ¬ Canonical0 (spalloc 2 0 5 : Csc Int) :=
  ⟨(spalloc_canonical_iff 2 3 1).2.1.mpr (by decide), fun h => by
      have := (spalloc_canonical_iff (α := Int) 2 3 2).1.mp h; omega,
   (spalloc_canonical_iff 2 0 5).1.mpr (by decide), fun h => by
      have := (spalloc_canonical_iff (α := Int) 2 0 5).2.1.mp h; omega⟩

end Clarabel.C16

/-! ## The dense matrix module `src/algebra/dense/**` (sdp feature)

Model: `ClarabelModel/Dense.lean` (channels `dense.*`); lemmas: `Lemmas/Dense*.lean`.
`Dense.at? A i j` is the stored entry `data[i + m·j]?`, `Dense.atV? v A i j` the entry under a
view (`N` the matrix, `T` its `t()`, `S` its `sym()`), `Dense.WF A` is `data.size = m·n` (what
`Matrix::new` asserts; a `BorrowedMatrix` need not satisfy it). -/

namespace Clarabel.C16
open Clarabel Clarabel.Dense

variable {α : Type}

/-- [S] `Matrix::new((m, n), data)` succeeds exactly when `m·n = data.len()` and then is the matrix with that buffer (otherwise it panics, `Dense.new_panic`) -/
theorem dense_new_spec (m n : Nat) (d : Array α) (R : Dense α) :
    new m n d = .ok R ↔ m * n = d.size ∧ R = ⟨m, n, d⟩ := by
  apply Dense.new_ok_iff <;> assumption

/-- [S] `Matrix::zeros` is well formed -/
theorem dense_zeros_wf [OfNat α 0] (m n : Nat) : WF (zeros m n : Dense α) := by
  apply Dense.zeros_wf <;> assumption

/-- [S] every entry of `Matrix::zeros((m, n))` is `0` -/
theorem dense_zeros_spec [OfNat α 0] (m n : Nat) {i j : Nat} (hi : i < m) (hj : j < n) :
    at? (zeros m n : Dense α) i j = some 0 := by
  apply Dense.zeros_at <;> assumption

/-- [S] `Matrix::identity(n)` never panics and is the identity -/
theorem dense_identity_spec [OfNat α 0] [OfNat α 1] (n : Nat) :
    ∃ R : Dense α, identity n = .ok R ∧ R.m = n ∧ R.n = n ∧ WF R ∧
      ∀ i j, i < n → j < n → at? R i j = some (if i = j then 1 else 0) := by
  apply Dense.identity_spec <;> assumption

/-- [S] `set_identity` on a well-formed square matrix -/
theorem dense_setIdentity_spec [OfNat α 0] [OfNat α 1] (A : Dense α) (hA : WF A) (hsq : A.m = A.n) :
    ∃ R, setIdentity A = .ok R ∧ R.m = A.m ∧ R.n = A.n ∧ WF R ∧
      ∀ i j, i < A.m → j < A.n → at? R i j = some (if i = j then 1 else 0) := by
  apply Dense.setIdentity_spec <;> assumption

/-- [S] `Matrix::from(rows)`: rectangular rows give the matrix with those rows -/
theorem dense_fromRows_spec [OfNat α 0] (rows : Array (Array α))
    (hall : ∀ r ∈ rows.toList, r.size = rowsN rows) :
    ∃ R, fromRows rows = .ok R ∧ R.m = rows.size ∧ R.n = rowsN rows ∧ WF R ∧
      ∀ i j (hi : i < rows.size) (_ : j < rowsN rows),
        at? R i j = (rows[i]).toList[j]? := by
  apply Dense.fromRows_spec <;> assumption

/-- [S] ragged rows panic -/
theorem dense_fromRows_ragged [OfNat α 0] (rows : Array (Array α))
    (h : ∃ r ∈ rows.toList, r.size ≠ rowsN rows) :
    fromRows rows = .error (.panic "Matrix::from: assert row lengths") := by
  apply Dense.fromRows_ragged <;> assumption

/-- [S] `resize`: new dimensions, well-formed, the common prefix of the data is kept and
anything beyond the old data is zero -/
theorem dense_resize_spec [OfNat α 0] (A : Dense α) (m n : Nat) :
    (resize A m n).m = m ∧ (resize A m n).n = n ∧
    (WF A → WF (resize A m n)) ∧
    (∀ k, k < m * n → k < A.data.size → (resize A m n).data[k]? = A.data[k]?) ∧
    (∀ k, k < m * n → A.data.size ≤ k → (resize A m n).data[k]? = some 0) := by
  apply Dense.resize_spec <;> assumption

/-- [S] `(Aᵀ)ᵢⱼ = Aⱼᵢ`, for every matrix and every index pair (also out of range: both sides
then panic alike) -/
theorem dense_transpose_entry (A : Dense α) (i j : Nat) : get .T A i j = get .N A j i := by
  apply Dense.get_T <;> assumption

/-- [S] the symmetric view reads the upper triangle on both sides of the diagonal -/
theorem dense_sym_entry (A : Dense α) (i j : Nat) :
    get .S A i j = if i ≤ j then get .N A i j else get .N A j i := by
  apply Dense.get_S <;> assumption

/-- [S] the symmetric view is symmetric: `A.sym()[(i, j)] = A.sym()[(j, i)]` for every matrix and every index pair -/
theorem dense_sym_symmetric (A : Dense α) (i j : Nat) : get .S A i j = get .S A j i := by
  apply Dense.get_S_symm <;> assumption

/-- [S] sizes of the views: `t()` and `sym()` both report `(ncols, nrows)` of the source -/
theorem dense_view_shape (A : Dense α) :
    nrowsV .N A = A.m ∧ ncolsV .N A = A.n ∧ nrowsV .T A = A.n ∧ ncolsV .T A = A.m ∧
    nrowsV .S A = A.n ∧ ncolsV .S A = A.m ∧ shapeIsT .N = false ∧ shapeIsT .T = true ∧
    shapeIsT .S = false := by
  apply Dense.view_shape <;> assumption

/-- [S] transposition is an involution on well-formed matrices -/
theorem dense_transpose_involution [OfNat α 0] (A : Dense α) (hA : WF A) :
    Dense.transpose (Dense.transpose A) = A := by
  apply Dense.transpose_transpose <;> assumption

/-- [S] entry `(i, j)` of the materialised transpose is entry `(j, i)` of the matrix -/
theorem dense_transpose_at [OfNat α 0] (A : Dense α) (hA : WF A) {i j : Nat} (hi : i < A.n) (hj : j < A.m) :
    at? (Dense.transpose A) i j = at? A j i := by
  apply Dense.transpose_at <;> assumption

/-- [S] a checked read of a well-formed matrix at an in-range index of the view succeeds and returns the stored entry (`sym()` views: square source) -/
theorem dense_get_ok (v : DView) (A : Dense α) (hA : WF A) (hS : v = .S → A.m = A.n) {i j : Nat}
    (hi : i < nrowsV v A) (hj : j < ncolsV v A) :
    ∃ x, get v A i j = .ok x ∧ atV? v A i j = some x := by
  apply Dense.get_ok <;> assumption

/-- [S] `IndexMut` then `Index` -/
theorem dense_set_get (A : Dense α) (i j : Nat) (x : α) (h : i + A.m * j < A.data.size) :
    ∃ R, set A i j x = .ok R ∧ R.m = A.m ∧ R.n = A.n ∧ R.data.size = A.data.size ∧
      R.data[i + A.m * j]? = some x ∧ ∀ k, k ≠ i + A.m * j → R.data[k]? = A.data[k]? := by
  apply Dense.set_spec <;> assumption

/-- [S] `col_slice(col)` of a well-formed matrix: the `m` entries of column `col` -/
theorem dense_colSlice_spec (A : Dense α) (hA : WF A) {col : Nat} (hc : col < A.n) :
    ∃ s, colSlice A col = .ok s ∧ s.size = A.m ∧ ∀ i, i < A.m → s[i]? = at? A i col := by
  apply Dense.colSlice_spec <;> assumption

/-- [S] `copy_from_slice` -/
theorem dense_copyFromSlice_spec (A : Dense α) (src : Array α) :
    copyFromSlice A src = if A.data.size = src.size then .ok { A with data := src }
      else .error (.panic "copy_from_slice: length mismatch") := by
  apply Dense.copyFromSlice_spec <;> assumption

/-- [S] `is_triu` of a well-formed matrix: `true` exactly when every strictly lower entry
compares equal to zero (`!= 0` is false; a NaN makes it `false`) -/
theorem dense_isTriu_iff [OfNat α 0] [BEq α] (A : Dense α) (hA : WF A) :
    ∃ b, isTriu A = .ok b ∧
      (b = true ↔ ∀ r c, c < A.n → c < r → r < A.m → ∃ x, at? A r c = some x ∧ (x == 0) = true) := by
  apply Dense.isTriu_iff <;> assumption

/-- [S] `self.subsref(B, rows, cols)`: `self[(i, j)] = B[(rows[i], cols[j])]` for `i < rows.len()`,
`j < cols.len()`; every other entry of `self` is untouched (`B` any view) -/
theorem dense_subsref_spec (A S : Dense α) (vs : DView) (rows cols : Array Nat) (hA : WF A) (hSw : WF S)
    (hS : vs = .S → S.m = S.n) (hr : rows.size ≤ A.m) (hc : cols.size ≤ A.n)
    (hrows : ∀ r ∈ rows.toList, r < nrowsV vs S) (hcols : ∀ c ∈ cols.toList, c < ncolsV vs S) :
    ∃ R, subsref A vs S rows cols = .ok R ∧ R.m = A.m ∧ R.n = A.n ∧ WF R ∧
      (∀ i j (hi : i < rows.size) (hj : j < cols.size), at? R i j = atV? vs S rows[i] cols[j]) ∧
      (∀ i j, i < A.m → j < A.n → (rows.size ≤ i ∨ cols.size ≤ j) → at? R i j = at? A i j) := by
  apply Dense.subsref_spec <;> assumption

/-- [S] `self.subsasgn(rows, cols, B)`: `self[(rows[i], cols[j])] = B[(i, j)]` when the index
lists are in range and without repetitions; every other entry is untouched -/
theorem dense_subsasgn_spec (A S : Dense α) (vs : DView) (rows cols : Array Nat) (hA : WF A) (hSw : WF S)
    (hS : vs = .S → S.m = S.n) (hr : rows.size ≤ nrowsV vs S) (hc : cols.size ≤ ncolsV vs S)
    (hrows : ∀ r ∈ rows.toList, r < A.m) (hcols : ∀ c ∈ cols.toList, c < A.n)
    (hrn : rows.toList.Nodup) (hcn : cols.toList.Nodup) :
    ∃ R, subsasgn A rows cols vs S = .ok R ∧ R.m = A.m ∧ R.n = A.n ∧ WF R ∧
      (∀ i j (hi : i < rows.size) (hj : j < cols.size), at? R rows[i] cols[j] = atV? vs S i j) ∧
      (∀ i j, i < A.m → j < A.n → (i ∉ rows.toList ∨ j ∉ cols.toList) → at? R i j = at? A i j) := by
  apply Dense.subsasgn_spec <;> assumption

/-- [S] writing a modified view back: the parent keeps its length, the part outside
`[off, off+len)` is untouched, the part inside is the view's data -/
theorem dense_view_store (o : Opnd α) (A : Dense α) (off len : Nat) (hv : o.view = some (off, len))
    (hin : off + len ≤ o.parent.size) (hA : A.data.size = len) :
    (o.store A).size = o.parent.size ∧
    (∀ k, k < off → (o.store A)[k]? = o.parent[k]?) ∧
    (∀ k, k < len → (o.store A)[off + k]? = A.data[k]?) ∧
    (∀ k, off + len ≤ k → (o.store A)[k]? = o.parent[k]?) := by
  apply Dense.store_view <;> assumption

/-- [S] an owned operand is `Matrix::new`: it loads exactly when `m * n = len` -/
theorem dense_load_owned (o : Opnd α) (hv : o.view = none) :
    o.load = if o.m * o.n = o.parent.size then .ok ⟨o.m, o.n, o.parent⟩
      else .error (.panic "Matrix::new: assert size") := by
  apply Dense.load_owned <;> assumption

/-- [S] a borrowed operand is built without any check (only the slice must exist) -/
theorem dense_load_view (o : Opnd α) (off len : Nat) (hv : o.view = some (off, len))
    (hin : off + len ≤ o.parent.size) :
    o.load = .ok ⟨o.m, o.n, o.parent.extract off (off + len)⟩ := by
  apply Dense.load_view <;> assumption

/-- [S] `pack_triu`: the target must have `triangular_number(n)` entries and receives the upper
triangle of the (square, well-formed) source column by column -/
theorem dense_packTriu_spec (A : Dense α) (v : Array α) (hA : WF A) (hsq : A.m = A.n)
    (hv : v.size = triangularNumber A.m) :
    ∃ w, packTriu A v = .ok w ∧ w.size = triangularNumber A.m ∧
      ∀ k (hk : k < (upperPositions A.m).length),
        w[k]? = at? A (upperPositions A.m)[k].1 (upperPositions A.m)[k].2 := by
  apply Dense.packTriu_spec <;> assumption

/-- [S] `hcat(A, B)` of well-formed matrices with the same number of rows: `[A B]` -/
theorem dense_hcat_spec (A B : Dense α) (hA : WF A) (hB : WF B) (hm : A.m = B.m) :
    ∃ R, hcat A B = .ok R ∧ R.m = A.m ∧ R.n = A.n + B.n ∧ WF R ∧
      (∀ i j, i < A.m → j < A.n → at? R i j = at? A i j) ∧
      (∀ i j, i < A.m → j < B.n → at? R i (A.n + j) = at? B i j) := by
  apply Dense.hcat_spec <;> assumption

/-- [S] `hcat` of matrices with different row counts is `IncompatibleDimension` -/
theorem dense_hcat_error (A B : Dense α) (hm : A.m ≠ B.m) :
    hcat A B = .error (.err "IncompatibleDimension") := by
  apply Dense.hcat_error <;> assumption

/-- [S] `vcat(A, B)` of well-formed matrices with the same number of columns: `[A; B]` -/
theorem dense_vcat_spec (A B : Dense α) (hA : WF A) (hB : WF B) (hn : A.n = B.n) :
    ∃ R, vcat A B = .ok R ∧ R.m = A.m + B.m ∧ R.n = A.n ∧ WF R ∧
      (∀ i j, i < A.m → j < A.n → at? R i j = at? A i j) ∧
      (∀ i j, i < B.m → j < A.n → at? R (A.m + i) j = at? B i j) := by
  apply Dense.vcat_spec <;> assumption

/-- [S] `vcat` of matrices with different column counts is `IncompatibleDimension` -/
theorem dense_vcat_error (A B : Dense α) (hn : A.n ≠ B.n) :
    vcat A B = .error (.err "IncompatibleDimension") := by
  apply Dense.vcat_error <;> assumption

/-- [S] `hvcat` on any grid that fails `hvcat_dim_check` is `IncompatibleDimension` -/
theorem dense_hvcat_error (mats : List (List (Dense α))) (h : hvcatDimCheck mats = false) :
    hvcat mats = .error (.err "IncompatibleDimension") := by
  apply Dense.hvcat_error <;> assumption

/-- [S] Kronecker product: `K.kron(A, B)` with `K` of the right shape writes
`A[p,q]·B[r,s]` at `(p·rr + r, q·ss + s)`; `A`, `B` are any view (a `sym()` view of a square
matrix) -/
theorem dense_kron_spec [Mul α] (K A B : Dense α) (va vb : DView) (hK : WF K) (hA : WF A) (hB : WF B)
    (hSa : va = .S → A.m = A.n) (hSb : vb = .S → B.m = B.n)
    (hm : K.m = nrowsV va A * nrowsV vb B) (hn : K.n = ncolsV va A * ncolsV vb B) :
    ∃ R, kron K va A vb B = .ok R ∧ R.m = K.m ∧ R.n = K.n ∧ WF R ∧
      ∀ p q r s, p < nrowsV va A → q < ncolsV va A → r < nrowsV vb B → s < ncolsV vb B →
        ∃ a b, atV? va A p q = some a ∧ atV? vb B r s = some b ∧
          at? R (p * nrowsV vb B + r) (q * ncolsV vb B + s) = some (a * b) := by
  apply Dense.kron_spec <;> assumption

/-- [F] `I_a ⊗ I_b = I_{ab}` -/
theorem dense_kron_identity [MulZeroOneClass α] (a b : Nat) (Ia Ib K : Dense α)
    (hIa : identity a = .ok Ia) (hIb : identity b = .ok Ib) (hK : WF K)
    (hm : K.m = a * b) (hn : K.n = a * b) :
    ∃ R, kron K .N Ia .N Ib = .ok R ∧ R.m = a * b ∧ R.n = a * b ∧ WF R ∧
      ∀ i j, i < a * b → j < a * b → at? R i j = some (if i = j then 1 else 0) := by
  apply Dense.kron_identity <;> assumption

/-- [S] `scale(c)`: every stored value is multiplied by `c` -/
theorem dense_scale_spec [Add α] [Mul α] [OfNat α 0] (A : Dense α) (c : α) :
    (scale A c).m = A.m ∧ (scale A c).n = A.n ∧ (scale A c).data.size = A.data.size ∧
      ∀ i j, at? (scale A c) i j = (at? A i j).map (· * c) := by
  apply Dense.scale_spec <;> assumption

/-- [S] `negate` -/
theorem dense_negate_spec [Neg α] (A : Dense α) :
    (negate A).m = A.m ∧ (negate A).n = A.n ∧ (negate A).data.size = A.data.size ∧
      ∀ i j, at? (negate A) i j = (at? A i j).map (fun v => -v) := by
  apply Dense.negate_spec <;> assumption

/-- [S] `lscale(l)` with `l.len() == nrows`: entry `(i, j)` is multiplied by `l[i]` -/
theorem dense_lscale_spec [Add α] [Mul α] [OfNat α 0] (A : Dense α) (l : Array α) (hA : WF A)
    (hl : l.size = A.m) :
    ∃ R, lscale A l = .ok R ∧ R.m = A.m ∧ R.n = A.n ∧ WF R ∧
      ∀ i j (hi : i < A.m), j < A.n → at? R i j = (at? A i j).map (· * l[i]) := by
  apply Dense.lscale_spec <;> assumption

/-- [S] `rscale(r)` with `r.len() == ncols`: entry `(i, j)` is multiplied by `r[j]` -/
theorem dense_rscale_spec [Add α] [Mul α] [OfNat α 0] (A : Dense α) (r : Array α) (hA : WF A)
    (hr : r.size = A.n) :
    ∃ R, rscale A r = .ok R ∧ R.m = A.m ∧ R.n = A.n ∧ WF R ∧
      ∀ i j (_ : i < A.m) (hj : j < A.n), at? R i j = (at? A i j).map (· * r[j]) := by
  apply Dense.rscale_spec <;> assumption

/-- [S] `lrscale(l, r)`: entry `(i, j)` becomes `a·(l[i]·r[j])` -/
theorem dense_lrscale_spec [Add α] [Mul α] [OfNat α 0] (A : Dense α) (l r : Array α) (hA : WF A)
    (hl : l.size = A.m) (hr : r.size = A.n) :
    ∃ R, lrscale A l r = .ok R ∧ R.m = A.m ∧ R.n = A.n ∧ WF R ∧
      ∀ i j (hi : i < A.m) (hj : j < A.n),
        at? R i j = (at? A i j).map (fun a => a * (l[i] * r[j])) := by
  apply Dense.lrscale_spec <;> assumption

/-- [S] `symmetric_part` of a well-formed square matrix: off the diagonal entry `(i, j)` and
entry `(j, i)` both become `0.5·(A[r,c] + A[c,r])` with `r = max i j`, `c = min i j` (the order
in which the Rust code adds them); the diagonal is untouched; in particular the result is
symmetric -/
theorem dense_symmetricPart_spec [Add α] [Sub α] [Mul α] [Div α] [OfNat α 0] [OfNat α 1] [LT α] [DecidableLT α] [FloatLike α] (A : Dense α) (hA : WF A) (hsq : A.m = A.n) :
    ∃ R, symmetricPart A = .ok R ∧ R.m = A.m ∧ R.n = A.n ∧ WF R ∧
      (∀ i, i < A.m → at? R i i = at? A i i) ∧
      (∀ r c, c < r → r < A.m → ∃ x y, at? A r c = some x ∧ at? A c r = some y ∧
        at? R r c = some (half * (x + y)) ∧ at? R c r = some (half * (x + y))) := by
  apply Dense.symmetricPart_spec <;> assumption

/-- [F] `col_sums`: `sums[j] = Σᵢ A[i,j]` -/
theorem dense_colSums_spec [AddCommMonoid α] (A : Dense α) (sums : Array α) (hA : WF A)
    (hs : sums.size = A.n) :
    ∃ s, colSums A sums = .ok s ∧ s.size = A.n ∧
      ∀ j, j < A.n → s[j]? = some (∑ i ∈ Finset.range A.m, A.data.getD (i + A.m * j) 0) := by
  apply Dense.colSums_spec <;> assumption

/-- [F] `row_sums`: `sums[i] = Σⱼ A[i,j]` (the incoming values of `sums` are overwritten) -/
theorem dense_rowSums_spec [AddCommMonoid α] (A : Dense α) (sums : Array α) (hA : WF A)
    (hs : sums.size = A.m) :
    ∃ s, rowSums A sums = .ok s ∧ s.size = A.m ∧
      ∀ i, i < A.m → s[i]? = some (∑ j ∈ Finset.range A.n, A.data.getD (i + A.m * j) 0) := by
  apply Dense.rowSums_spec <;> assumption

/-- [F] (commutative ring, lawful `==`) `C.mul(A, B, α, β)` on well-formed operands of
matching, non-empty result shape: `C ← α·op(A)·op(B) + β·C`, entry by entry. -/
theorem dense_mul_spec [CommRing α] [BEq α] [LawfulBEq α] (C : Dense α) (va : DView) (A : Dense α)
    (vb : DView) (B : Dense α) (a b : α) (hC : WF C) (hA : WF A) (hB : WF B)
    (h1 : ncolsV va A = nrowsV vb B) (h2 : C.m = nrowsV va A) (h3 : C.n = ncolsV vb B)
    (hm : 0 < C.m) (hn : 0 < C.n) :
    ∃ R, mul C va A vb B a b = .ok R ∧ R.m = C.m ∧ R.n = C.n ∧ WF R ∧
      ∀ i j, i < C.m → j < C.n → at? R i j =
        some (a * (∑ l ∈ Finset.range (ncolsV va A), blasElem va A i l * blasElem vb B l j)
          + b * C.data.getD (i + C.m * j) 0) := by
  apply Dense.mul_spec <;> assumption

/-- [S] BLAS does not read `C` when `beta == 0`: two well-formed targets of the same shape
(any contents) give the same outcome -/
theorem dense_mul_beta_zero [Add α] [Mul α] [OfNat α 0] [BEq α] (C C' : Dense α) (va : DView) (A : Dense α) (vb : DView) (B : Dense α) (a b : α)
    (hb : (b == 0) = true) (hm : C.m = C'.m) (hn : C.n = C'.n) (hC : WF C) (hC' : WF C') :
    mul C va A vb B a b = mul C' va A vb B a b := by
  apply Dense.mul_beta_zero <;> assumption

/-- [S] empty result: quick return, nothing is read -/
theorem dense_mul_empty [Add α] [Mul α] [OfNat α 0] [BEq α] (C : Dense α) (va : DView) (A : Dense α) (vb : DView) (B : Dense α) (a b : α)
    (h1 : ncolsV va A = nrowsV vb B) (h2 : C.m = nrowsV va A) (h3 : C.n = ncolsV vb B)
    (h0 : C.m = 0 ∨ C.n = 0) : mul C va A vb B a b = .ok C := by
  apply Dense.mul_empty <;> assumption

/-- [S] the asserts of `mul` fail -/
theorem dense_mul_panic [Add α] [Mul α] [OfNat α 0] [BEq α] (C : Dense α) (va : DView) (A : Dense α) (vb : DView) (B : Dense α) (a b : α)
    (h : ¬ (ncolsV va A = nrowsV vb B ∧ C.m = nrowsV va A ∧ C.n = ncolsV vb B)) :
    mul C va A vb B a b = .error (.panic "gemm: assert dims") := by
  apply Dense.mul_panic <;> assumption

/-- [S] on a well-formed matrix the in-range entries of `op(A)` are exactly what BLAS reads -/
theorem dense_blasElem_is_entry [OfNat α 0] (v : DView) (A : Dense α) (hA : WF A) (hv : v = .N ∨ v = .T)
    {i l : Nat} (hi : i < nrowsV v A) (hl : l < ncolsV v A) :
    atV? v A i l = some (blasElem v A i l) := by
  apply Dense.atV_eq_blasElem <;> assumption

/-- [S] a `sym()` view of a square matrix is handed to BLAS as the plain buffer -/
theorem dense_blas_sym_view_is_plain [OfNat α 0] (A : Dense α) (h : A.m = A.n) : blasElem .S A = blasElem .N A := by
  apply Dense.blasElem_S_eq_N <;> assumption

/-- [F] (commutative ring, lawful `==`) `gemv` on a well-formed non-empty matrix (`A` itself or
`t()`) and vectors of the right lengths: `y ← α·op(A)·x + β·y` with the true entries of `op(A)`. -/
theorem dense_gemv_spec [CommRing α] [BEq α] [LawfulBEq α] (v : DView) (A : Dense α) (x y : Array α) (a b : α)
    (hv : v = .N ∨ v = .T) (hA : WF A) (hx : ncolsV v A = x.size) (hy : nrowsV v A = y.size)
    (hm : 0 < A.m) (hn : 0 < A.n) :
    ∃ y', gemv v A x y a b = .ok y' ∧ y'.size = y.size ∧
      ∀ i, i < y.size → y'[i]? =
        some (a * (∑ l ∈ Finset.range x.size, (atV? v A i l).getD 0 * x.getD l 0) + b * y.getD i 0) := by
  apply Dense.gemv_spec <;> assumption

/-- [S] BLAS `?gemv` returns at once on an empty matrix: `y` is NOT scaled by `beta` -/
theorem dense_gemv_empty_unscaled [Add α] [Mul α] [OfNat α 0] [BEq α] (v : DView) (A : Dense α) (x y : Array α) (a b : α)
    (hv : v = .N ∨ v = .T) (hx : ncolsV v A = x.size) (hy : nrowsV v A = y.size)
    (h0 : A.m = 0 ∨ A.n = 0) : gemv v A x y a b = .ok y := by
  apply Dense.gemv_empty_unscaled <;> assumption

/-- [F] (commutative ring, lawful `==`) `A.sym().symv(x, y, α, β)` on a well-formed non-empty
square matrix: `y ← α·sym(A)·x + β·y`, `sym(A)` read from the upper triangle. -/
theorem dense_symv_spec [CommRing α] [BEq α] [LawfulBEq α] (A : Dense α) (x y : Array α) (a b : α) (n : Nat)
    (hA : WF A) (hm : A.m = n) (hn : A.n = n) (h0 : 0 < n) (hx : x.size = n) (hy : y.size = n) :
    ∃ y', symv A x y a b = .ok y' ∧ y'.size = n ∧
      ∀ i, i < n → y'[i]? =
        some (a * (∑ l ∈ Finset.range n, symElem A n i l * x.getD l 0) + b * y.getD i 0) := by
  apply Dense.symv_spec <;> assumption

/-- [S] `?symv('U')` references the upper triangle only: two square well-formed matrices that
agree there give the same outcome -/
theorem dense_symv_upper_only [Add α] [Mul α] [OfNat α 0] [BEq α] (A A' : Dense α) (x y : Array α) (a b : α) (hm : A.m = A'.m) (hn : A.n = A'.n)
    (hsq : A.m = A.n) (hA : WF A) (hA' : WF A')
    (hup : ∀ i l, i ≤ l → l < A.m → A.data[i + A.m * l]? = A'.data[i + A.m * l]?) :
    symv A x y a b = symv A' x y a b := by
  apply Dense.symv_upper_only <;> assumption

/-- [F] (commutative ring, lawful `==`) `C.syrk(A, α, β)`: the upper triangle of `C` becomes
`α·op(A)·op(A)ᵀ + β·C`, the strictly lower triangle is left untouched. -/
theorem dense_syrk_spec [CommRing α] [BEq α] [LawfulBEq α] (C : Dense α) (va : DView) (A : Dense α) (a b : α)
    (hC : WF C) (hA : WF A) (h1 : C.m = nrowsV va A) (h2 : C.n = nrowsV va A) (hm : 0 < C.m)
    (hk : ¬ (shapeIsT va = true ∧ ncolsV va A = 0)) :
    ∃ R, syrk C va A a b = .ok R ∧ R.m = C.m ∧ R.n = C.n ∧ WF R ∧
      (∀ i j, i ≤ j → j < C.m → at? R i j =
        some (a * (∑ l ∈ Finset.range (ncolsV va A), blasElem va A i l * blasElem va A j l)
          + b * C.data.getD (i + C.m * j) 0)) ∧
      (∀ i j, j < i → i < C.m → at? R i j = at? C i j) := by
  apply Dense.syrk_spec <;> assumption

/-- [S] (finding) `C.syrk(A.t(), α, β)` with `A` having no rows (`k = 0`): the wrapper passes
`lda = 0`, BLAS rejects the call, `C` is returned as it was — `beta` is NOT applied. -/
theorem dense_syrk_adjoint_k0 [Add α] [Mul α] [OfNat α 0] [BEq α] (C A : Dense α) (a b : α) (h1 : C.m = nrowsV .T A) (h2 : C.n = nrowsV .T A)
    (hm : 0 < C.m) (hk : ncolsV .T A = 0) : syrk C .T A a b = .ok C := by
  apply Dense.syrk_adjoint_k0 <;> assumption

/-- [F] (commutative ring, lawful `==`) `C.syr2k(A, B, α, β)`: the upper triangle of `C` becomes
`α·(A·Bᵀ + B·Aᵀ) + β·C`, the strictly lower triangle is left untouched. -/
theorem dense_syr2k_spec [CommRing α] [BEq α] [LawfulBEq α] (C A B : Dense α) (a b : α)
    (hC : WF C) (hA : WF A) (hB : WF B)
    (h1 : C.m = A.m) (h2 : C.m = B.m) (h3 : C.n = B.m) (h4 : A.n = B.n) (hm : 0 < C.m) :
    ∃ R, syr2k C A B a b = .ok R ∧ R.m = C.m ∧ R.n = C.n ∧ WF R ∧
      (∀ i j, i ≤ j → j < C.m → at? R i j =
        some (a * (∑ l ∈ Finset.range A.n,
            (blasElem .N A i l * blasElem .N B j l + blasElem .N B i l * blasElem .N A j l))
          + b * C.data.getD (i + C.m * j) 0)) ∧
      (∀ i j, j < i → i < C.m → at? R i j = at? C i j) := by
  apply Dense.syr2k_spec <;> assumption

/-- [S] `factor`, dimension mismatch: `IncompatibleDimension`, the engine is untouched and
LAPACK is not called. -/
theorem dense_cholFactor_dim (L A : Dense α) (potrf : Array α → PotrfOut α)
    (hsq : L.m = L.n) (hd : (A.m, A.n) ≠ (L.m, L.n)) :
    cholFactor L A potrf = .ok (L, some .incompatibleDimension) := by
  apply Dense.cholFactor_dim <;> assumption

/-- [S] `factor` of an empty matrix with an empty engine: nothing is copied, the wrapper
passes `lda = 0` and LAPACK rejects argument 4 — the result is `Cholesky(-4)`, not `Ok`
(finding: an empty matrix is rejected). -/
theorem dense_cholFactor_empty (L A : Dense α) (potrf : Array α → PotrfOut α)
    (hLm : L.m = 0) (hLn : L.n = 0) (hAm : A.m = 0) (hAn : A.n = 0) :
    cholFactor L A potrf = .ok ({ L with data := L.data }, some (.cholesky (-4))) := by
  apply Dense.cholFactor_empty <;> assumption

/-- [S] `factor` on well-formed `n × n` operands, `n > 0`, relative to a `?potrf` that keeps
the buffer length: the copy loop does not panic, LAPACK receives the buffer `pre` whose LOWER
triangle is the transposed UPPER triangle of `A` and whose strictly upper part is whatever the
engine held; the engine's `L` becomes LAPACK's buffer and the result is `Cholesky(info)` iff
`info ≠ 0`. -/
theorem dense_cholFactor_run (L A : Dense α) (potrf : Array α → PotrfOut α) (n : Nat)
    (hL : WF L) (hA : WF A) (hLm : L.m = n) (hLn : L.n = n) (hAm : A.m = n) (hAn : A.n = n)
    (hn : 0 < n) (hp : ∀ buf, (potrf buf).buf.size = buf.size) :
    ∃ ws pre, cholCopyWrites n A = .ok ws ∧ applyWrites L.data ws = .ok pre ∧
      pre.size = n * n ∧
      cholFactor L A potrf = .ok ({ L with data := (potrf pre).buf },
        if (potrf pre).info ≠ 0 then some (.cholesky (potrf pre).info) else none) ∧
      (∀ i j, j ≤ i → i < n → pre[i + n * j]? = A.data[j + n * i]?) ∧
      (∀ i j, i < j → j < n → pre[i + n * j]? = L.data[i + n * j]?) := by
  apply Dense.cholFactor_run <;> assumption

/-- [F] `factor` relative to the `?potrf` contract: when the wrapper returns `Ok(())` the
lower triangle `Λ` of the engine's `L` satisfies `Λ Λᵀ = ` the symmetric completion of the
UPPER triangle of `A`, and the entries of `L` above the diagonal are the stale ones the
engine held before (LAPACK does not touch them: zeros stay zeros, but nothing zeroes them). -/
theorem dense_cholFactor_contract [CommRing α] (L A : Dense α) (potrf : Array α → PotrfOut α) (n : Nat)
    (hL : WF L) (hA : WF A) (hLm : L.m = n) (hLn : L.n = n) (hAm : A.m = n) (hAn : A.n = n)
    (hn : 0 < n) (hc : PotrfContract n potrf) (L' : Dense α)
    (hres : cholFactor L A potrf = .ok (L', none)) :
    L'.m = n ∧ L'.n = n ∧ WF L' ∧
    (∀ i j, i < n → j < n →
      ∑ k ∈ Finset.range n, cholLow n L'.data i k * cholLow n L'.data j k
        = if i ≤ j then A.data.getD (i + n * j) 0 else A.data.getD (j + n * i) 0) ∧
    (∀ i j, i < j → j < n → L'.data[i + n * j]? = L.data[i + n * j]?) := by
  apply Dense.cholFactor_contract <;> assumption

/-- [S] `factor` with the channel's `?potrf` (`info` and lower triangle as observed on the
implementation): the engine's `L` afterwards has the observed lower triangle and the engine's
previous (stale) entries strictly above the diagonal; the result is `Cholesky(info)` iff
`info ≠ 0`. -/
theorem dense_cholFactor_observed (L A : Dense α) (n : Nat) (info : Int) (res : Array α)
    (hL : WF L) (hA : WF A) (hLm : L.m = n) (hLn : L.n = n) (hAm : A.m = n) (hAn : A.n = n)
    (hn : 0 < n) (hr : res.size = n * n) :
    ∃ L', cholFactor L A (potrfObserved n info res) =
        .ok (L', if info ≠ 0 then some (.cholesky info) else none) ∧
      L'.m = n ∧ L'.n = n ∧ WF L' ∧
      (∀ i j, j ≤ i → i < n → L'.data[i + n * j]? = res[i + n * j]?) ∧
      (∀ i j, i < j → j < n → L'.data[i + n * j]? = L.data[i + n * j]?) := by
  apply Dense.cholFactor_observed <;> assumption

/-- [S] `solve` with an empty engine: `lda = 0` is illegal, `assert_eq!(info, 0)` fires -/
theorem dense_cholSolve_panic_empty (L B : Dense α) (potrs : Array α → Array α) (h : L.m = 0) :
    cholSolve L B potrs = .error (.panic "potrs: info -5") := by
  apply Dense.cholSolve_panic_empty <;> assumption

/-- [S] `solve` with a right-hand side that has fewer rows than the factor: `ldb < n` is
illegal, the assert fires -/
theorem dense_cholSolve_panic_rows (L B : Dense α) (potrs : Array α → Array α) (h0 : 0 < L.m)
    (h : B.m < L.m) : cholSolve L B potrs = .error (.panic "potrs: info -7") := by
  apply Dense.cholSolve_panic_rows <;> assumption

/-- [S] `solve` otherwise: `B`'s buffer becomes what `?potrs` leaves -/
theorem dense_cholSolve_ok (L B : Dense α) (potrs : Array α → Array α) (h0 : 0 < L.m)
    (h : L.m ≤ B.m) (hL : WF L) (hB : WF B) (hp : (potrs B.data).size = B.data.size) :
    cholSolve L B potrs = .ok { B with data := potrs B.data } := by
  apply Dense.cholSolve_ok <;> assumption

/-- [R] `logdet` of a well-formed square engine over ℝ does not panic and is twice the sum of
the logarithms of the diagonal of `L` (`= log det (L Lᵀ)` when the diagonal is positive; the
Rust code takes `ln` of whatever is there). -/
theorem dense_cholLogdet_spec (L : Dense ℝ) (hL : WF L) (hsq : L.m = L.n) :
    cholLogdet L = .ok (2 * ∑ i ∈ Finset.range L.m, Real.log (L.data.getD (i + L.m * i) 0)) := by
  apply Dense.cholLogdet_spec <;> assumption

/-- [S] `syevr` on a non-square matrix or one whose order differs from the engine's:
`IncompatibleDimension`, nothing is touched (in particular `V` is not allocated). -/
theorem dense_eig_dim [OfNat α 0] (E : EigEngine α) (A : Dense α) (wantV : Bool) (syevr : Array α → SyevrOut α)
    (h : A.m ≠ A.n ∨ A.m ≠ E.lam.size) :
    eigSyevr E A wantV syevr = .ok (E, A, some .incompatibleDimension) := by
  apply Dense.eigSyevr_dim <;> assumption

/-- [S] `syevr` of an empty matrix with an empty engine: the wrapper passes `lda = 0`, the
workspace query reports argument 6 — the result is `Eigen(-6)`, `A` is unchanged, and `V` has
already been allocated (as `zeros 0 0`) iff eigenvectors were requested for the first time. -/
theorem dense_eig_empty [OfNat α 0] (E : EigEngine α) (A : Dense α) (wantV : Bool) (syevr : Array α → SyevrOut α)
    (hsq : A.m = A.n) (hl : A.m = E.lam.size) (h0 : A.m = 0) :
    eigSyevr E A wantV syevr =
      .ok (if wantV && E.V.isNone then { E with V := some (zeros 0 0) } else E, A,
        some (.eigen (-6))) := by
  apply Dense.eigSyevr_empty <;> assumption

/-- [S] `syevr` on a well-formed square matrix of the engine's order `n > 0`, relative to a
`?syevr` that keeps the lengths of `a` and `w`: the result is `Eigen(info)` iff `info ≠ 0`;
`λ`, the work lengths and `A`'s buffer are LAPACK's; with `wantV` the engine's `V` (allocated
as `zeros n n` on the first request, kept with its shape afterwards) receives `z`; without
`wantV` the field `V` is unchanged. -/
theorem dense_eig_run [OfNat α 0] (E : EigEngine α) (A : Dense α) (wantV : Bool) (syevr : Array α → SyevrOut α)
    (hsq : A.m = A.n) (hl : A.m = E.lam.size) (h0 : 0 < A.m) (hA : WF A)
    (ha : (syevr A.data).a.size = A.data.size) (hw : (syevr A.data).w.size = E.lam.size) :
    eigSyevr E A wantV syevr =
      .ok ({ lam := (syevr A.data).w,
             V := if wantV then
                 some { (E.V.getD (zeros A.m A.m)) with data := (syevr A.data).z }
               else E.V,
             isuppzLen := E.isuppzLen,
             workLen := (syevr A.data).lwork,
             iworkLen := (syevr A.data).liwork },
           { A with data := (syevr A.data).a },
           if (syevr A.data).info ≠ 0 then some (.eigen (syevr A.data).info) else none) := by
  apply Dense.eigSyevr_run <;> assumption

/-- [S] `SVDEngine::new((m, n))`: `k = min m n` singular values, `U` is `m × k`, `Vt` is
`k × n`, both well formed; divide and conquer is the default algorithm. -/
theorem dense_svdNew_shape [OfNat α 0] (m n : Nat) :
    (svdNew m n : SvdEngine α).s.size = min m n ∧
    (svdNew m n : SvdEngine α).U.m = m ∧ (svdNew m n : SvdEngine α).U.n = min m n ∧
    (svdNew m n : SvdEngine α).Vt.m = min m n ∧ (svdNew m n : SvdEngine α).Vt.n = n ∧
    WF (svdNew m n : SvdEngine α).U ∧ WF (svdNew m n : SvdEngine α).Vt ∧
    (svdNew m n : SvdEngine α).qr = false := by
  apply Dense.svdNew_shape <;> assumption

/-- [S] `SVDEngine::resize((m, n))` from any state gives the shapes of `new((m, n))` -/
theorem dense_svdResize_shape [OfNat α 0] (E : SvdEngine α) (m n : Nat) :
    (svdResize E m n).s.size = min m n ∧
    (svdResize E m n).U.m = m ∧ (svdResize E m n).U.n = min m n ∧
    (svdResize E m n).Vt.m = min m n ∧ (svdResize E m n).Vt.n = n ∧
    WF (svdResize E m n).U ∧ WF (svdResize E m n).Vt ∧
    (svdResize E m n).qr = E.qr := by
  apply Dense.svdResize_shape <;> assumption

/-- [S] `factor` with an engine of another shape: `IncompatibleDimension`, nothing touched -/
theorem dense_svd_dim (E : SvdEngine α) (A : Dense α) (gesvd : Array α → GesvdOut α)
    (h : E.U.m ≠ A.m ∨ E.Vt.n ≠ A.n) :
    svdFactor E A gesvd = .ok (E, A, some .incompatibleDimension) := by
  apply Dense.svdFactor_dim <;> assumption

/-- [S] `factor` of a matrix without rows: the wrapper passes `lda = 0`; LAPACK reports
argument 5 (`?gesdd`) / 6 (`?gesvd`).  `iwork` has already been resized (to length 0) on the
divide-and-conquer path. -/
theorem dense_svd_norows (E : SvdEngine α) (A : Dense α) (gesvd : Array α → GesvdOut α)
    (hU : E.U.m = A.m) (hVt : E.Vt.n = A.n) (h0 : A.m = 0) :
    svdFactor E A gesvd =
      .ok (if E.qr then E else { E with iworkLen := 0 }, A,
        some (.svd (if E.qr then -6 else -5))) := by
  apply Dense.svdFactor_norows <;> assumption

/-- [S] `factor` of a matrix with rows but without columns: `ldvt = min(m, n) = 0`; LAPACK
reports argument 10 (`?gesdd`) / 11 (`?gesvd`). -/
theorem dense_svd_nocols (E : SvdEngine α) (A : Dense α) (gesvd : Array α → GesvdOut α)
    (hU : E.U.m = A.m) (hVt : E.Vt.n = A.n) (hm : 0 < A.m) (h0 : A.n = 0) :
    svdFactor E A gesvd =
      .ok (if E.qr then E else { E with iworkLen := 0 }, A,
        some (.svd (if E.qr then -11 else -10))) := by
  apply Dense.svdFactor_nocols <;> assumption

/-- [S] `factor` of a well-formed non-empty matrix with a well-formed engine of its shape,
relative to a `?gesdd`/`?gesvd` that keeps the buffer lengths: the result is `SVD(info)` iff
`info ≠ 0`; `s`, `U`, `Vt`, the work length and `A`'s buffer are LAPACK's (shapes kept);
`iwork` has length `8·min(m, n)` on the divide-and-conquer path and is untouched with `qr`. -/
theorem dense_svd_run (E : SvdEngine α) (A : Dense α) (gesvd : Array α → GesvdOut α)
    (hU : E.U.m = A.m) (hVt : E.Vt.n = A.n) (hm : 0 < A.m) (hn : 0 < A.n)
    (hA : WF A) (hEU : WF E.U) (hEVt : WF E.Vt) (hs : E.s.size = min A.m A.n)
    (ha : (gesvd A.data).a.size = A.data.size) (hos : (gesvd A.data).s.size = E.s.size)
    (hu : (gesvd A.data).u.size = E.U.data.size) (hvt : (gesvd A.data).vt.size = E.Vt.data.size) :
    svdFactor E A gesvd =
      .ok ({ s := (gesvd A.data).s,
             U := { E.U with data := (gesvd A.data).u },
             Vt := { E.Vt with data := (gesvd A.data).vt },
             qr := E.qr,
             workLen := (gesvd A.data).lwork,
             iworkLen := if E.qr then E.iworkLen else 8 * min A.m A.n },
           { A with data := (gesvd A.data).a },
           if (gesvd A.data).info ≠ 0 then some (.svd (gesvd A.data).info) else none) := by
  apply Dense.svdFactor_run <;> assumption

/-- [S] `solve` with a non-square engine: `assert_eq!(m, n)` fires -/
theorem dense_svdSolve_panic_square [Add α] [Mul α] [Div α] [OfNat α 0] [OfNat α 1] [BEq α] [LT α] [DecidableLT α] [FloatLike α] (E : SvdEngine α) (B : Dense α) (h : E.U.m ≠ E.Vt.n) :
    svdSolve E B = .error (.panic "svd solve: assert_eq m n") := by
  apply Dense.svdSolve_panic_square <;> assumption

/-- [S] `solve` with a right-hand side of another height: `assert_eq!(B.nrows(), m)` fires -/
theorem dense_svdSolve_panic_rows [Add α] [Mul α] [Div α] [OfNat α 0] [OfNat α 1] [BEq α] [LT α] [DecidableLT α] [FloatLike α] (E : SvdEngine α) (B : Dense α) (h : E.U.m = E.Vt.n)
    (hB : B.m ≠ E.U.m) :
    svdSolve E B = .error (.panic "svd solve: assert_eq B.nrows") := by
  apply Dense.svdSolve_panic_rows <;> assumption

/-- [S] `solve` with an engine that holds no singular value (`new((0, 0))`, or resized to
it) and a right-hand side without rows: the asserts pass and the tolerance reads `s[0]` —
index out of bounds. -/
theorem dense_svdSolve_panic_empty [Add α] [Mul α] [Div α] [OfNat α 0] [OfNat α 1] [BEq α] [LT α] [DecidableLT α] [FloatLike α] (E : SvdEngine α) (B : Dense α) (h : E.U.m = E.Vt.n)
    (hB : B.m = E.U.m) (hs : E.s.size = min E.U.m E.Vt.n) (h0 : E.s.size = 0) :
    svdSolve E B = .error (.panic "s[0]") := by
  apply Dense.svdSolve_panic_empty <;> assumption

/-- [S] `lusolve` with a non-square `A` or a `B` with another number of rows:
`IncompatibleDimension`, `ipiv` is not resized. -/
theorem dense_lu_dim (A B : Dense α) (ipiv : Array Int) (gesv : Array α → Array α → GesvOut α)
    (h : A.m ≠ A.n ∨ A.n ≠ B.m) :
    luSolve A B ipiv gesv = .ok (A, B, ipiv, some .incompatibleDimension) := by
  apply Dense.luSolve_dim <;> assumption

/-- [S] `lusolve` of an empty system: `ipiv` is resized to length 0, the wrapper passes
`lda = 0`, LAPACK reports argument 4 — `LU(-4)`. -/
theorem dense_lu_empty (A B : Dense α) (ipiv : Array Int) (gesv : Array α → Array α → GesvOut α)
    (hsq : A.m = A.n) (hB : A.n = B.m) (h0 : A.m = 0) :
    luSolve A B ipiv gesv = .ok (A, B, #[], some (.lu (-4))) := by
  apply Dense.luSolve_empty <;> assumption

/-- [S] `lusolve` of a well-formed square system of order `n > 0`, relative to a `?gesv` that
keeps the buffer lengths and returns `n` pivots: the result is `LU(info)` iff `info ≠ 0`; the
buffers of `A` (the factors), of `B` (the solution) and `ipiv` are LAPACK's. -/
theorem dense_lu_run (A B : Dense α) (ipiv : Array Int) (gesv : Array α → Array α → GesvOut α)
    (hsq : A.m = A.n) (hB : A.n = B.m) (h0 : 0 < A.m) (hA : WF A) (hBw : WF B)
    (ha : (gesv A.data B.data).a.size = A.data.size)
    (hb : (gesv A.data B.data).b.size = B.data.size)
    (hp : (gesv A.data B.data).ipiv.size = A.m) :
    luSolve A B ipiv gesv =
      .ok ({ A with data := (gesv A.data B.data).a }, { B with data := (gesv A.data B.data).b },
        (gesv A.data B.data).ipiv,
        if (gesv A.data B.data).info ≠ 0 then some (.lu (gesv A.data B.data).info) else none) := by
  apply Dense.luSolve_run <;> assumption

/-! ### non-vacuity of the dense-module theorems above (concrete matrices) -/

/-- the 2×2 matrix `[[1, 3], [2, 4]]` (column major) -/
def exD : Dense Int := ⟨2, 2, #[1, 2, 3, 4]⟩
/-- a 2×3 matrix -/
def exD23 : Dense Int := ⟨2, 3, #[1, 2, 3, 4, 5, 6]⟩
/-- the same 2×2 matrix over the reals (for the operations that need `FloatLike`) -/
noncomputable def exDR : Dense ℝ := ⟨2, 2, #[1, 2, 3, 4]⟩
theorem exD_wf : WF exD := rfl
theorem exD23_wf : WF exD23 := rfl
theorem exDR_wf : WF exDR := rfl

example : at? (zeros 2 3 : Dense Int) 1 2 = some 0 := dense_zeros_spec 2 3 (by decide) (by decide)

example : ∃ R, setIdentity exD = .ok R ∧ at? R 1 0 = some 0 ∧ at? R 1 1 = some 1 :=
  let ⟨R, h, _, _, _, he⟩ := dense_setIdentity_spec exD exD_wf rfl
  ⟨R, h, he 1 0 (by decide) (by decide), he 1 1 (by decide) (by decide)⟩

example : ∃ R, fromRows (#[#[1, 2], #[3, 4]] : Array (Array Int)) = .ok R ∧ R.m = 2 :=
  let ⟨R, h, hm, _⟩ := dense_fromRows_spec (#[#[1, 2], #[3, 4]] : Array (Array Int)) (by
    intro r hr
    simp only [List.mem_cons, List.not_mem_nil, or_false] at hr
    rcases hr with rfl | rfl <;> rfl)
  ⟨R, h, hm⟩

example : fromRows (#[#[1], #[]] : Array (Array Int)) = .error (.panic "Matrix::from: assert row lengths") :=
  dense_fromRows_ragged _ ⟨#[], by simp, by decide⟩

example : Dense.transpose (Dense.transpose exD) = exD := dense_transpose_involution exD exD_wf

example : at? (Dense.transpose exD23) 2 1 = at? exD23 1 2 :=
  dense_transpose_at exD23 exD23_wf (by decide) (by decide)

example : ∃ x, get .S exD 1 0 = .ok x :=
  let ⟨x, h, _⟩ := dense_get_ok .S exD exD_wf (fun _ => rfl) (i := 1) (j := 0) (by decide) (by decide)
  ⟨x, h⟩

example : ∃ R, Dense.set exD 0 1 7 = .ok R ∧ R.data[0 + exD.m * 1]? = some 7 :=
  let ⟨R, h, _, _, _, hx, _⟩ := dense_set_get exD 0 1 7 (by decide)
  ⟨R, h, hx⟩

example : ∃ s, colSlice exD23 2 = .ok s ∧ s.size = 2 :=
  let ⟨s, h, hs, _⟩ := dense_colSlice_spec exD23 exD23_wf (col := 2) (by decide)
  ⟨s, h, hs⟩

example : ∃ b, isTriu exD = .ok b := let ⟨b, h, _⟩ := dense_isTriu_iff exD exD_wf; ⟨b, h⟩

example : ∃ R, subsref (zeros 2 2 : Dense Int) .T exD23 #[2, 0] #[1] = .ok R :=
  let ⟨R, h, _⟩ := dense_subsref_spec (zeros 2 2 : Dense Int) exD23 .T #[2, 0] #[1] (dense_zeros_wf 2 2)
    exD23_wf (by simp) (by decide) (by decide) (by
      intro r hr
      simp only [List.mem_cons, List.not_mem_nil, or_false] at hr
      rcases hr with rfl | rfl <;> decide) (by
      intro c hc
      simp only [List.mem_cons, List.not_mem_nil, or_false] at hc
      subst hc; decide)
  ⟨R, h⟩

example : ∃ R, subsasgn (zeros 3 3 : Dense Int) #[2, 0] #[1] .N exD = .ok R :=
  let ⟨R, h, _⟩ := dense_subsasgn_spec (zeros 3 3 : Dense Int) exD .N #[2, 0] #[1] (dense_zeros_wf 3 3)
    exD_wf (by simp) (by decide) (by decide) (by
      intro r hr
      simp only [List.mem_cons, List.not_mem_nil, or_false] at hr
      rcases hr with rfl | rfl <;> decide) (by
      intro c hc
      simp only [List.mem_cons, List.not_mem_nil, or_false] at hc
      subst hc; decide) (by decide) (by decide)
  ⟨R, h⟩

example : ((⟨1, 2, #[9, 1, 2, 8], some (1, 2), .N⟩ : Opnd Int).store ⟨1, 2, #[5, 6]⟩).size = 4 :=
  (dense_view_store (⟨1, 2, #[9, 1, 2, 8], some (1, 2), .N⟩ : Opnd Int) ⟨1, 2, #[5, 6]⟩ 1 2 rfl
    (by decide) rfl).1

example : (⟨2, 2, #[1, 2, 3], none, .N⟩ : Opnd Int).load = .error (.panic "Matrix::new: assert size") :=
  dense_load_owned _ rfl

example : (⟨2, 2, #[1, 2, 3], some (1, 2), .N⟩ : Opnd Int).load = .ok ⟨2, 2, (#[1, 2, 3] : Array Int).extract 1 3⟩ :=
  dense_load_view _ 1 2 rfl (by decide)

example : ∃ w, packTriu exD #[0, 0, 0] = .ok w ∧ w.size = 3 :=
  let ⟨w, h, hs, _⟩ := dense_packTriu_spec exD #[0, 0, 0] exD_wf rfl rfl
  ⟨w, h, hs⟩

example : ∃ R, hcat exD exD23 = .ok R ∧ R.n = 5 ∧ at? R 1 (2 + 2) = at? exD23 1 2 :=
  let ⟨R, h, _, hn, _, _, hb⟩ := dense_hcat_spec exD exD23 exD_wf exD23_wf rfl
  ⟨R, h, hn, hb 1 2 (by decide) (by decide)⟩

example : hcat exD (⟨1, 1, #[1]⟩ : Dense Int) = .error (.err "IncompatibleDimension") :=
  dense_hcat_error _ _ (by decide)

example : ∃ R, vcat exD exD = .ok R ∧ R.m = 4 ∧ at? R (2 + 1) 0 = at? exD 1 0 :=
  let ⟨R, h, hm, _, _, _, hb⟩ := dense_vcat_spec exD exD exD_wf exD_wf rfl
  ⟨R, h, hm, hb 1 0 (by decide) (by decide)⟩

example : vcat exD exD23 = .error (.err "IncompatibleDimension") := dense_vcat_error _ _ (by decide)

example : hvcat ([] : List (List (Dense Int))) = .error (.err "IncompatibleDimension") :=
  dense_hvcat_error _ rfl

example : ∃ R, kron (zeros 4 6 : Dense Int) .T exD .N exD23 = .ok R :=
  let ⟨R, h, _⟩ := dense_kron_spec (zeros 4 6 : Dense Int) exD exD23 .T .N (dense_zeros_wf 4 6) exD_wf
    exD23_wf (by simp) (by simp) rfl rfl
  ⟨R, h⟩

example : ∃ Ia Ib R : Dense Int, identity 2 = .ok Ia ∧ identity 3 = .ok Ib ∧
    kron (zeros 6 6) .N Ia .N Ib = .ok R ∧ at? R 4 4 = some 1 ∧ at? R 4 1 = some 0 := by
  obtain ⟨Ia, ha, _⟩ := dense_identity_spec (α := Int) 2
  obtain ⟨Ib, hb, _⟩ := dense_identity_spec (α := Int) 3
  obtain ⟨R, h, _, _, _, he⟩ := dense_kron_identity 2 3 Ia Ib (zeros 6 6) ha hb (dense_zeros_wf 6 6) rfl rfl
  exact ⟨Ia, Ib, R, ha, hb, h, he 4 4 (by decide) (by decide), he 4 1 (by decide) (by decide)⟩

example : ∃ R, lscale exD #[2, 3] = .ok R ∧ at? R 1 0 = (at? exD 1 0).map (· * 3) :=
  let ⟨R, h, _, _, _, he⟩ := dense_lscale_spec exD #[2, 3] exD_wf rfl
  ⟨R, h, he 1 0 (by decide) (by decide)⟩

example : ∃ R, rscale exD #[2, 3] = .ok R ∧ at? R 1 1 = (at? exD 1 1).map (· * 3) :=
  let ⟨R, h, _, _, _, he⟩ := dense_rscale_spec exD #[2, 3] exD_wf rfl
  ⟨R, h, he 1 1 (by decide) (by decide)⟩

example : ∃ R, lrscale exD #[2, 3] #[5, 7] = .ok R ∧ at? R 1 0 = (at? exD 1 0).map (fun a => a * (3 * 5)) :=
  let ⟨R, h, _, _, _, he⟩ := dense_lrscale_spec exD #[2, 3] #[5, 7] exD_wf rfl rfl
  ⟨R, h, he 1 0 (by decide) (by decide)⟩

example : ∃ R, symmetricPart exDR = .ok R ∧ at? R 1 0 = at? R 0 1 := by
  obtain ⟨R, h, _, _, _, _, he⟩ := dense_symmetricPart_spec exDR exDR_wf rfl
  obtain ⟨x, y, _, _, h1, h2⟩ := he 1 0 (by decide) (by decide)
  exact ⟨R, h, by rw [h1, h2]⟩

example : ∃ s, colSums exD23 #[0, 0, 0] = .ok s ∧
    s[2]? = some (∑ i ∈ Finset.range 2, exD23.data.getD (i + 2 * 2) 0) :=
  let ⟨s, h, _, he⟩ := dense_colSums_spec exD23 #[0, 0, 0] exD23_wf rfl
  ⟨s, h, he 2 (by decide)⟩

example : ∃ s, rowSums exD23 #[7, 7] = .ok s ∧
    s[1]? = some (∑ j ∈ Finset.range 3, exD23.data.getD (1 + 2 * j) 0) :=
  let ⟨s, h, _, he⟩ := dense_rowSums_spec exD23 #[7, 7] exD23_wf rfl
  ⟨s, h, he 1 (by decide)⟩

/-- [F] the recorded observation on the dense `col_norms_sym`: no absolute value is taken — the
1×1 matrix `[-3]` has "norm" `0` (the CSC twin, `colNormsSym_spec` above, returns `3`) -/
theorem dense_colNormsSym_no_abs : colNormsSym (⟨1, 1, #[-3]⟩ : Dense ℝ) #[0] = .ok #[0] :=
  Dense.colNormsSym_no_abs

/-! ### non-vacuity of the BLAS / LAPACK wrapper theorems -/

/-- non-vacuity of `dense_blasElem_is_entry` -/
example : atV? .T (⟨2, 2, #[1, 2, 3, 4]⟩ : Dense Int) 0 1 = some (blasElem .T ⟨2, 2, #[1, 2, 3, 4]⟩ 0 1) :=
  dense_blasElem_is_entry .T ⟨2, 2, #[1, 2, 3, 4]⟩ rfl (Or.inr rfl) (by decide) (by decide)

/-- non-vacuity of `dense_blas_sym_view_is_plain` -/
example : blasElem .S (⟨2, 2, #[1, 2, 3, 4]⟩ : Dense Int) = blasElem .N ⟨2, 2, #[1, 2, 3, 4]⟩ :=
  dense_blas_sym_view_is_plain _ rfl

/-- non-vacuity of `dense_mul_panic` -/
example : mul (⟨2, 2, #[0, 0, 0, 0]⟩ : Dense Int) .N ⟨2, 1, #[1, 2]⟩ .N ⟨2, 2, #[1, 2, 3, 4]⟩ 1 1 =
    .error (.panic "gemm: assert dims") :=
  dense_mul_panic _ _ _ _ _ _ _ (by decide)

/-- non-vacuity of `dense_mul_empty` -/
example : mul (⟨0, 2, #[]⟩ : Dense Int) .N ⟨0, 1, #[]⟩ .N ⟨1, 2, #[3, 4]⟩ 1 1 = .ok ⟨0, 2, #[]⟩ :=
  dense_mul_empty _ _ _ _ _ _ _ rfl rfl rfl (Or.inl rfl)

/-- non-vacuity of `dense_mul_beta_zero` -/
example : mul (⟨2, 1, #[5, 6]⟩ : Dense Int) .N ⟨2, 2, #[1, 2, 3, 4]⟩ .N ⟨2, 1, #[1, 1]⟩ 2 0 =
    mul (⟨2, 1, #[-7, 9]⟩ : Dense Int) .N ⟨2, 2, #[1, 2, 3, 4]⟩ .N ⟨2, 1, #[1, 1]⟩ 2 0 :=
  dense_mul_beta_zero _ _ _ _ _ _ _ _ (by decide) rfl rfl rfl rfl

/-- non-vacuity of `dense_mul_spec` -/
example : ∃ R, mul (⟨2, 1, #[5, 6]⟩ : Dense Int) .N ⟨2, 2, #[1, 2, 3, 4]⟩ .N ⟨2, 1, #[1, 1]⟩ 2 3 = .ok R ∧
    at? R 1 0 = some (2 * (∑ l ∈ Finset.range 2, blasElem .N (⟨2, 2, #[1, 2, 3, 4]⟩ : Dense Int) 1 l *
      blasElem .N (⟨2, 1, #[1, 1]⟩ : Dense Int) l 0) + 3 * 6) := by
  obtain ⟨R, h, _, _, _, he⟩ := dense_mul_spec (⟨2, 1, #[5, 6]⟩ : Dense Int) .N ⟨2, 2, #[1, 2, 3, 4]⟩ .N
    ⟨2, 1, #[1, 1]⟩ 2 3 rfl rfl rfl rfl rfl rfl (by decide) (by decide)
  exact ⟨R, h, he 1 0 (by decide) (by decide)⟩

/-- non-vacuity of `dense_gemv_empty_unscaled` -/
example : gemv .N (⟨0, 2, #[]⟩ : Dense Int) #[1, 1] #[] 1 5 = .ok #[] :=
  dense_gemv_empty_unscaled .N ⟨0, 2, #[]⟩ _ _ _ _ (Or.inl rfl) rfl rfl (Or.inl rfl)

/-- non-vacuity of `dense_gemv_empty_unscaled` -/
example : gemv .T (⟨0, 2, #[]⟩ : Dense Int) #[] #[7, 8] 1 0 = .ok #[7, 8] :=
  dense_gemv_empty_unscaled .T ⟨0, 2, #[]⟩ _ _ _ _ (Or.inr rfl) rfl rfl (Or.inl rfl)

/-- non-vacuity of `dense_gemv_spec` -/
example : ∃ y', gemv .T (⟨2, 2, #[1, 2, 3, 4]⟩ : Dense Int) #[1, 1] #[5, 6] 2 3 = .ok y' ∧
    y'[1]? = some (2 * (∑ l ∈ Finset.range 2, (atV? .T (⟨2, 2, #[1, 2, 3, 4]⟩ : Dense Int) 1 l).getD 0 *
      (#[1, 1] : Array Int).getD l 0) + 3 * (#[5, 6] : Array Int).getD 1 0) := by
  obtain ⟨y', h, _, he⟩ := dense_gemv_spec .T (⟨2, 2, #[1, 2, 3, 4]⟩ : Dense Int) #[1, 1] #[5, 6] 2 3
    (Or.inr rfl) rfl rfl rfl (by decide) (by decide)
  exact ⟨y', h, he 1 (by decide)⟩

/-- non-vacuity of `dense_symv_upper_only` -/
example : symv (⟨2, 2, #[1, 100, 3, 4]⟩ : Dense Int) #[1, 1] #[5, 6] 2 3 =
    symv (⟨2, 2, #[1, -100, 3, 4]⟩ : Dense Int) #[1, 1] #[5, 6] 2 3 :=
  dense_symv_upper_only ⟨2, 2, #[1, 100, 3, 4]⟩ ⟨2, 2, #[1, -100, 3, 4]⟩ _ _ _ _ rfl rfl rfl rfl rfl (by
    intro i l hil hl
    have hl' : l < 2 := hl
    have : (i = 0 ∧ l = 0) ∨ (i = 0 ∧ l = 1) ∨ (i = 1 ∧ l = 1) := by omega
    rcases this with ⟨rfl, rfl⟩ | ⟨rfl, rfl⟩ | ⟨rfl, rfl⟩ <;> rfl)

/-- non-vacuity of `dense_symv_spec` -/
example : ∃ y', symv (⟨2, 2, #[1, 100, 3, 4]⟩ : Dense Int) #[1, 1] #[5, 6] 2 3 = .ok y' ∧
    y'[1]? = some (2 * (∑ l ∈ Finset.range 2, symElem (⟨2, 2, #[1, 100, 3, 4]⟩ : Dense Int) 2 1 l *
      (#[1, 1] : Array Int).getD l 0) + 3 * (#[5, 6] : Array Int).getD 1 0) := by
  obtain ⟨y', h, _, he⟩ := dense_symv_spec (⟨2, 2, #[1, 100, 3, 4]⟩ : Dense Int) #[1, 1] #[5, 6] 2 3 2
    rfl rfl rfl (by decide) rfl rfl
  exact ⟨y', h, he 1 (by decide)⟩

/-- non-vacuity of `dense_syrk_adjoint_k0` -/
example : syrk (⟨2, 2, #[1, 2, 3, 4]⟩ : Dense Int) .T ⟨0, 2, #[]⟩ 1 5 = .ok ⟨2, 2, #[1, 2, 3, 4]⟩ :=
  dense_syrk_adjoint_k0 ⟨2, 2, #[1, 2, 3, 4]⟩ ⟨0, 2, #[]⟩ 1 5 rfl rfl (by decide) rfl

/-- non-vacuity of `dense_syrk_spec` -/
example : ∃ R, syrk (⟨2, 2, #[1, 2, 3, 4]⟩ : Dense Int) .N ⟨2, 1, #[5, 6]⟩ 2 3 = .ok R ∧
    at? R 0 1 = some (2 * (∑ l ∈ Finset.range 1, blasElem .N (⟨2, 1, #[5, 6]⟩ : Dense Int) 0 l *
      blasElem .N (⟨2, 1, #[5, 6]⟩ : Dense Int) 1 l) + 3 * 3) ∧
    at? R 1 0 = some 2 := by
  obtain ⟨R, h, _, _, _, hu, hl⟩ := dense_syrk_spec (⟨2, 2, #[1, 2, 3, 4]⟩ : Dense Int) .N ⟨2, 1, #[5, 6]⟩ 2 3
    rfl rfl rfl rfl (by decide) (by decide)
  exact ⟨R, h, hu 0 1 (by decide) (by decide), (hl 1 0 (by decide) (by decide)).trans rfl⟩

/-- non-vacuity of `dense_syr2k_spec` -/
example : ∃ R, syr2k (⟨2, 2, #[1, 2, 3, 4]⟩ : Dense Int) ⟨2, 1, #[5, 6]⟩ ⟨2, 1, #[7, 8]⟩ 2 3 = .ok R ∧
    at? R 0 1 = some (2 * (∑ l ∈ Finset.range 1,
      (blasElem .N (⟨2, 1, #[5, 6]⟩ : Dense Int) 0 l * blasElem .N (⟨2, 1, #[7, 8]⟩ : Dense Int) 1 l +
       blasElem .N (⟨2, 1, #[7, 8]⟩ : Dense Int) 0 l * blasElem .N (⟨2, 1, #[5, 6]⟩ : Dense Int) 1 l))
      + 3 * 3) ∧
    at? R 1 0 = some 2 := by
  obtain ⟨R, h, _, _, _, hu, hl⟩ := dense_syr2k_spec (⟨2, 2, #[1, 2, 3, 4]⟩ : Dense Int) ⟨2, 1, #[5, 6]⟩
    ⟨2, 1, #[7, 8]⟩ 2 3 rfl rfl rfl rfl rfl rfl rfl (by decide)
  exact ⟨R, h, hu 0 1 (by decide) (by decide), (hl 1 0 (by decide) (by decide)).trans rfl⟩

/-- non-vacuity of `dense_cholFactor_dim` -/
example : cholFactor (⟨2, 2, #[1, 2, 3, 4]⟩ : Dense Int) ⟨1, 2, #[5, 6]⟩ (fun b => ⟨0, b⟩) =
    .ok (⟨2, 2, #[1, 2, 3, 4]⟩, some .incompatibleDimension) :=
  dense_cholFactor_dim _ _ _ rfl (by decide)

/-- non-vacuity of `dense_cholFactor_empty` -/
example : cholFactor (⟨0, 0, #[]⟩ : Dense Int) ⟨0, 0, #[]⟩ (fun b => ⟨0, b⟩) =
    .ok (⟨0, 0, #[]⟩, some (.cholesky (-4))) :=
  dense_cholFactor_empty _ _ _ rfl rfl rfl rfl

/-- non-vacuity of `dense_cholFactor_run` -/
example : ∃ pre, cholFactor (⟨2, 2, #[0, 0, 7, 0]⟩ : Dense Int) ⟨2, 2, #[4, 9, 2, 5]⟩
      (fun b => ⟨0, b⟩) = .ok (⟨2, 2, pre⟩, none) ∧ pre[1]? = some 2 ∧ pre[2]? = some 7 := by
  obtain ⟨ws, pre, _, _, _, h, h4, h5⟩ := dense_cholFactor_run (⟨2, 2, #[0, 0, 7, 0]⟩ : Dense Int)
    ⟨2, 2, #[4, 9, 2, 5]⟩ (fun b => ⟨0, b⟩) 2 rfl rfl rfl rfl rfl rfl (by decide) (fun _ => rfl)
  exact ⟨pre, by simpa using h, h4 1 0 (by decide) (by decide), h5 0 1 (by decide) (by decide)⟩

/-- non-vacuity of `dense_cholFactor_contract` -/
example : ∑ k ∈ Finset.range 1, cholLow 1 (#[2] : Array Int) 0 k * cholLow 1 #[2] 0 k = 4 :=
  (dense_cholFactor_contract (⟨1, 1, #[0]⟩ : Dense Int) ⟨1, 1, #[4]⟩ exPotrf1 1 rfl rfl rfl rfl rfl rfl
    (by decide) exPotrf1_contract ⟨1, 1, #[2]⟩ (by rfl)).2.2.2.1 0 0 (by decide) (by decide)

/-- non-vacuity of `dense_cholFactor_observed` -/
example : ∃ L', cholFactor (⟨2, 2, #[0, 0, 7, 0]⟩ : Dense Int) ⟨2, 2, #[4, 9, 2, 5]⟩
      (potrfObserved 2 0 #[2, 1, 99, 2]) = .ok (L', none) ∧ L'.data[2]? = some 7 := by
  obtain ⟨L', h, _, _, _, _, h5⟩ := dense_cholFactor_observed (⟨2, 2, #[0, 0, 7, 0]⟩ : Dense Int)
    ⟨2, 2, #[4, 9, 2, 5]⟩ 2 0 #[2, 1, 99, 2] rfl rfl rfl rfl rfl rfl (by decide) rfl
  exact ⟨L', by simpa using h, h5 0 1 (by decide) (by decide)⟩

/-- non-vacuity of `dense_cholSolve_panic_empty` -/
example : cholSolve (⟨0, 0, #[]⟩ : Dense Int) ⟨1, 1, #[3]⟩ id = .error (.panic "potrs: info -5") :=
  dense_cholSolve_panic_empty _ _ _ rfl

/-- non-vacuity of `dense_cholSolve_panic_rows` -/
example : cholSolve (⟨2, 2, #[1, 0, 0, 1]⟩ : Dense Int) ⟨1, 1, #[3]⟩ id
    = .error (.panic "potrs: info -7") :=
  dense_cholSolve_panic_rows _ _ _ (by decide) (by decide)

/-- non-vacuity of `dense_cholSolve_ok` -/
example : cholSolve (⟨1, 1, #[2]⟩ : Dense Int) ⟨1, 2, #[3, 4]⟩ (fun _ => #[4, 5])
    = .ok ⟨1, 2, #[4, 5]⟩ :=
  dense_cholSolve_ok (⟨1, 1, #[2]⟩ : Dense Int) ⟨1, 2, #[3, 4]⟩ (fun _ => #[4, 5])
    (by decide) (by decide) rfl rfl rfl

/-- non-vacuity of `dense_cholLogdet_spec` -/
example : cholLogdet (⟨2, 2, #[1, 5, 7, 1]⟩ : Dense ℝ) = .ok 0 := by
  rw [dense_cholLogdet_spec (⟨2, 2, #[1, 5, 7, 1]⟩ : Dense ℝ) (by rfl) rfl]
  simp [Finset.sum_range_succ, Array.getD]

/-- non-vacuity of `dense_eig_dim` -/
example : eigSyevr (eigNew 2 : EigEngine Int) ⟨1, 1, #[3]⟩ true (fun a => ⟨0, a, a, a, 1, 1⟩)
    = .ok (eigNew 2, ⟨1, 1, #[3]⟩, some .incompatibleDimension) :=
  dense_eig_dim _ _ _ _ (Or.inr (by decide))

/-- non-vacuity of `dense_eig_empty` -/
example : eigSyevr (eigNew 0 : EigEngine Int) ⟨0, 0, #[]⟩ true (fun a => ⟨0, a, a, a, 1, 1⟩)
    = .ok ({ (eigNew 0 : EigEngine Int) with V := some (zeros 0 0) }, ⟨0, 0, #[]⟩,
        some (.eigen (-6))) :=
  dense_eig_empty _ _ _ _ rfl rfl rfl

/-- non-vacuity of `dense_eig_run` -/
example : eigSyevr (eigNew 1 : EigEngine Int) ⟨1, 1, #[3]⟩ true (fun a => ⟨0, a, #[3], #[1], 26, 10⟩)
    = .ok (⟨#[3], some ⟨1, 1, #[1]⟩, 2, 26, 10⟩, ⟨1, 1, #[3]⟩, none) :=
  dense_eig_run (eigNew 1 : EigEngine Int) ⟨1, 1, #[3]⟩ true (fun a => ⟨0, a, #[3], #[1], 26, 10⟩)
    rfl rfl (by decide) rfl rfl rfl

/-- non-vacuity of `dense_svdResize_shape` -/
example : (svdResize (svdNew 3 2 : SvdEngine Int) 1 4).s.size = 1 ∧
    WF (svdResize (svdNew 3 2 : SvdEngine Int) 1 4).U :=
  ⟨(dense_svdResize_shape _ 1 4).1, (dense_svdResize_shape _ 1 4).2.2.2.2.2.1⟩

/-- non-vacuity of `dense_svd_dim` -/
example : svdFactor (svdNew 2 2 : SvdEngine Int) ⟨1, 2, #[3, 4]⟩ (fun a => ⟨0, a, a, a, a, 1⟩)
    = .ok (svdNew 2 2, ⟨1, 2, #[3, 4]⟩, some .incompatibleDimension) :=
  dense_svd_dim _ _ _ (Or.inl (by decide))

/-- non-vacuity of `dense_svd_norows` -/
example : svdFactor (svdNew 0 2 : SvdEngine Int) ⟨0, 2, #[]⟩ (fun a => ⟨0, a, a, a, a, 1⟩)
    = .ok ({ (svdNew 0 2 : SvdEngine Int) with iworkLen := 0 }, ⟨0, 2, #[]⟩, some (.svd (-5))) :=
  dense_svd_norows _ _ _ rfl rfl rfl

/-- non-vacuity of `dense_svd_nocols` -/
example : svdFactor ({ (svdNew 2 0 : SvdEngine Int) with qr := true }) ⟨2, 0, #[]⟩
      (fun a => ⟨0, a, a, a, a, 1⟩)
    = .ok ({ (svdNew 2 0 : SvdEngine Int) with qr := true }, ⟨2, 0, #[]⟩, some (.svd (-11))) :=
  dense_svd_nocols _ _ _ rfl rfl (by decide) rfl

/-- non-vacuity of `dense_svd_run` -/
example : svdFactor (svdNew 1 1 : SvdEngine Int) ⟨1, 1, #[-3]⟩ (fun a => ⟨0, a, #[3], #[-1], #[1], 7⟩)
    = .ok (⟨#[3], ⟨1, 1, #[-1]⟩, ⟨1, 1, #[1]⟩, false, 7, 8⟩, ⟨1, 1, #[-3]⟩, none) :=
  dense_svd_run (svdNew 1 1 : SvdEngine Int) ⟨1, 1, #[-3]⟩ (fun a => ⟨0, a, #[3], #[-1], #[1], 7⟩)
    rfl rfl (by decide) (by decide) rfl (by rfl) (by rfl) (by rfl) rfl rfl rfl rfl

/-- non-vacuity of `dense_lu_dim` -/
example : luSolve (⟨2, 2, #[1, 0, 0, 1]⟩ : Dense Int) ⟨1, 1, #[5]⟩ #[7] (fun a b => ⟨0, a, b, #[]⟩)
    = .ok (⟨2, 2, #[1, 0, 0, 1]⟩, ⟨1, 1, #[5]⟩, #[7], some .incompatibleDimension) :=
  dense_lu_dim _ _ _ _ (Or.inr (by decide))

/-- non-vacuity of `dense_lu_empty` -/
example : luSolve (⟨0, 0, #[]⟩ : Dense Int) ⟨0, 3, #[]⟩ #[7, 8] (fun a b => ⟨0, a, b, #[]⟩)
    = .ok (⟨0, 0, #[]⟩, ⟨0, 3, #[]⟩, #[], some (.lu (-4))) :=
  dense_lu_empty _ _ _ _ rfl rfl rfl

/-- non-vacuity of `dense_lu_run` -/
example : luSolve (⟨1, 1, #[2]⟩ : Dense Int) ⟨1, 1, #[6]⟩ #[] (fun a _ => ⟨0, a, #[3], #[1]⟩)
    = .ok (⟨1, 1, #[2]⟩, ⟨1, 1, #[3]⟩, #[1], none) :=
  dense_lu_run (⟨1, 1, #[2]⟩ : Dense Int) ⟨1, 1, #[6]⟩ #[] (fun a _ => ⟨0, a, #[3], #[1]⟩)
    rfl rfl (by decide) rfl rfl rfl rfl rfl

/-- non-vacuity of `dense_svdSolve_panic_square` -/
example : svdSolve (svdNew 2 3 : SvdEngine ℝ) ⟨2, 1, #[1, 1]⟩
    = .error (.panic "svd solve: assert_eq m n") :=
  dense_svdSolve_panic_square _ _ (by show (2 : Nat) ≠ 3; decide)

/-- non-vacuity of `dense_svdSolve_panic_rows` -/
example : svdSolve (svdNew 2 2 : SvdEngine ℝ) ⟨1, 1, #[1]⟩
    = .error (.panic "svd solve: assert_eq B.nrows") :=
  dense_svdSolve_panic_rows _ _ rfl (by show (1 : Nat) ≠ 2; decide)

/-- non-vacuity of `dense_svdSolve_panic_empty` -/
example : svdSolve (svdNew 0 0 : SvdEngine ℝ) ⟨0, 1, #[]⟩ = .error (.panic "s[0]") :=
  dense_svdSolve_panic_empty _ _ rfl rfl (by simp [svdNew, zeros]) (by simp [svdNew])

/-! ## Round 8 — dense module: `hvcat` on a general block grid, `blockdiag` -/

/-- [S] the dense `hvcat_dim_check` accepts exactly the consistent grids (`Dense.GridOK`: at least
one block row and one block column, block rows equally long, equal heights inside every block
row, equal widths inside every block column) -/
theorem dense_hvcatDimCheck_iff (mats : List (List (Dense α))) :
    Dense.hvcatDimCheck mats = true ↔ Dense.GridOK mats :=
  Dense.hvcatDimCheck_iff mats

/-- [S] dense `hvcat` on a consistent grid of well-formed blocks: the result has `Σ heights` rows
and `Σ widths` columns, is well formed, and is the block matrix — entry
`(Σ_{r'<r} h_r' + i, Σ_{k'<k} w_k' + j)` is entry `(i, j)` of block `(r, k)`, for every scalar
type -/
theorem dense_hvcat_spec (mats : List (List (Dense α))) (g : Dense.GridOK mats)
    (hwf : ∀ br ∈ mats, ∀ b ∈ br, WF b) :
    ∃ R, Dense.hvcat mats = .ok R ∧ R.m = (mats.map Dense.headM).sum ∧
      R.n = ((mats.headD []).map (fun b : Dense α => b.n)).sum ∧ WF R ∧
      ∀ r k (hr : r < mats.length) (hk : k < mats[r].length) i j,
        i < mats[r][k].m → j < mats[r][k].n →
        at? R (((mats.take r).map Dense.headM).sum + i)
          ((((mats.headD []).map (fun b : Dense α => b.n)).take k).sum + j) = at? mats[r][k] i j :=
  Dense.hvcat_spec mats g hwf

/-- [S] dense `hvcat` answers `IncompatibleDimension` exactly when the grid is inconsistent (a
consistent grid containing a block whose buffer does not fit its dimensions panics instead) -/
theorem dense_hvcat_error_iff (mats : List (List (Dense α))) :
    Dense.hvcat mats = .error (.err "IncompatibleDimension") ↔ ¬ Dense.GridOK mats :=
  Dense.hvcat_error_iff mats

/-- [S] dense `blockdiag` of a non-empty list of well-formed blocks: shape `Σ m × Σ n`, well
formed; column `j` of block `k` is column `Σ_{k'<k} n_k' + j` of the result, which holds the
block's column in the rows `Σ_{k'<k} m_k' ≤ i < Σ_{k'<k} m_k' + m_k` and `0` in every other row -/
theorem dense_blockdiag_spec [OfNat α 0] (mats : List (Dense α)) (hne : mats ≠ [])
    (hwf : ∀ b ∈ mats, WF b) :
    ∃ R, Dense.blockdiag mats = .ok R ∧ R.m = (mats.map (·.m)).sum ∧ R.n = (mats.map (·.n)).sum ∧
      WF R ∧
      ∀ k (hk : k < mats.length) j, j < mats[k].n → ∀ i, i < (mats.map (·.m)).sum →
        at? R i (((mats.take k).map (·.n)).sum + j) =
          if ((mats.take k).map (·.m)).sum ≤ i ∧ i < ((mats.take k).map (·.m)).sum + mats[k].m
          then at? mats[k] (i - ((mats.take k).map (·.m)).sum) j else some 0 :=
  Dense.blockdiag_spec mats hne hwf

/-- [S] dense `blockdiag` answers `IncompatibleDimension` exactly on the empty list -/
theorem dense_blockdiag_error_iff [OfNat α 0] (mats : List (Dense α)) :
    Dense.blockdiag mats = .error (.err "IncompatibleDimension") ↔ mats = [] :=
  Dense.blockdiag_error_iff mats

/-- non-vacuity of `dense_hvcat_spec` / `dense_hvcat_error_iff`: a 2×2 grid with blocks of
widths 2 and 3 (result 4×5; entry (2+1, 2+2) is entry (1, 2) of the lower right block), and a
grid whose second block row is too short -/
example : (∃ R, Dense.hvcat [[exD, exD23], [exD, exD23]] = .ok R ∧ R.m = 4 ∧ R.n = 5 ∧ WF R ∧
      at? R (2 + 1) (2 + 2) = at? exD23 1 2) ∧
    Dense.hvcat [[exD, exD23], [exD]] = .error (.err "IncompatibleDimension") := by
  have g : Dense.GridOK [[exD, exD23], [exD, exD23]] := (dense_hvcatDimCheck_iff _).mp (by decide)
  obtain ⟨R, h1, h2, h3, h4, h5⟩ := dense_hvcat_spec _ g (by
    intro br hbr b hb
    simp only [List.mem_cons, List.not_mem_nil, or_false] at hbr
    rcases hbr with rfl | rfl <;>
    · simp only [List.mem_cons, List.not_mem_nil, or_false] at hb
      rcases hb with rfl | rfl <;> rfl)
  refine ⟨⟨R, h1, h2, h3, h4, h5 1 1 (by decide) (by decide) 1 2 (by decide) (by decide)⟩, ?_⟩
  apply (dense_hvcat_error_iff _).mpr
  intro g'
  have := (dense_hvcatDimCheck_iff _).mpr g'
  revert this
  decide

/-- non-vacuity of `dense_blockdiag_spec` / `dense_blockdiag_error_iff`: `blockdiag(exD, exD23)` is
4×5; entry (2+1, 2+2) is entry (1, 2) of the second block and entry (0, 2+2) is zero -/
example : (∃ R, Dense.blockdiag [exD, exD23] = .ok R ∧ R.m = 4 ∧ R.n = 5 ∧
      at? R 3 (2 + 2) = at? exD23 1 2 ∧ at? R 0 (2 + 2) = some 0) ∧
    Dense.blockdiag ([] : List (Dense Int)) = .error (.err "IncompatibleDimension") := by
  obtain ⟨R, h1, h2, h3, _, h5⟩ := dense_blockdiag_spec [exD, exD23] (by simp) (by
    intro b hb
    simp only [List.mem_cons, List.not_mem_nil, or_false] at hb
    rcases hb with rfl | rfl <;> rfl)
  refine ⟨⟨R, h1, h2, h3, ?_, ?_⟩, (dense_blockdiag_error_iff _).mpr rfl⟩
  · have : at? R 3 (2 + 2) = if 2 ≤ 3 ∧ 3 < 2 + 2 then at? exD23 (3 - 2) 2 else some 0 :=
      h5 1 (by decide) 2 (by decide) 3 (by decide)
    simpa using this
  · have : at? R 0 (2 + 2) = if 2 ≤ 0 ∧ 0 < 2 + 2 then at? exD23 (0 - 2) 2 else some 0 :=
      h5 1 (by decide) 2 (by decide) 0 (by decide)
    simpa using this

/-! ## Round 8 — dense module: `quad_form` and the norm family (`matrix_math.rs`)

`Dense.symElem A n i j` is entry `(i, j)` of the symmetric matrix whose upper triangle `A` holds
(`A[min i j, max i j]`); `Dense.colAbs A j` / `Dense.rowAbs A i` list the absolute values of a
column / row, `Dense.symRow A k` the SIGNED entries of row `k` of that symmetric matrix;
`Csc.IsMaxOf r v0 l` says `r` is the maximum of `v0` and the members of `l`. -/

/-- [F] (commutative ring) `quad_form(y, x)` — implemented for the owned `Matrix` only — on a
well-formed square matrix with vectors of length `n` does not panic and returns
`yᵀ·S·x = Σᵢ Σⱼ yᵢ·Sᵢⱼ·xⱼ`, `S` the symmetric matrix whose upper triangle the matrix holds -/
theorem dense_quad_form_spec [CommRing α] (A : Dense α) (y x : Array α) (hA : WF A)
    (hsq : A.m = A.n) (hx : x.size = A.n) (hy : y.size = A.n) :
    quadForm A y x = .ok (∑ i ∈ Finset.range A.n, ∑ j ∈ Finset.range A.n,
      y.getD i 0 * symElem A A.n i j * x.getD j 0) :=
  Dense.quadForm_spec A y x hA hsq hx hy

/-- [F] `quad_form` never reads the strictly lower triangle: matrices with the same upper
triangle have the same quadratic form -/
theorem dense_quad_form_upper_only [CommRing α] (A A' : Dense α) (y x : Array α) (hA : WF A)
    (hA' : WF A') (hsq : A.m = A.n) (hm : A'.m = A.m) (hn : A'.n = A.n) (hx : x.size = A.n)
    (hy : y.size = A.n)
    (hup : ∀ i j, i ≤ j → j < A.n → A'.data.getD (i + A.n * j) 0 = A.data.getD (i + A.n * j) 0) :
    quadForm A' y x = quadForm A y x :=
  Dense.quadForm_upper_only A A' y x hA hA' hsq hm hn hx hy hup

/-- [S] `quad_form` on a non-square matrix panics (`assert!(self.is_square())`) -/
theorem dense_quad_form_panic_square [Add α] [Mul α] [OfNat α 0] (A : Dense α) (y x : Array α)
    (h : A.m ≠ A.n) : quadForm A y x = .error (.panic "quad_form: assert is_square") :=
  Dense.quadForm_panic_square A y x h

/-- non-vacuity of the `quad_form` theorems: `[[1,3],[2,4]]`, its upper triangle with a
different lower entry, and a 2×3 matrix -/
example : (∃ v, quadForm exD #[1, 1] #[1, 2] = .ok v) ∧
    quadForm (⟨2, 2, #[1, 9, 3, 4]⟩ : Dense Int) #[1, 1] #[1, 2] = quadForm exD #[1, 1] #[1, 2] ∧
    quadForm exD23 #[1, 1] #[1, 2] = .error (.panic "quad_form: assert is_square") := by
  refine ⟨⟨_, dense_quad_form_spec exD #[1, 1] #[1, 2] exD_wf rfl rfl rfl⟩,
    dense_quad_form_upper_only exD ⟨2, 2, #[1, 9, 3, 4]⟩ #[1, 1] #[1, 2] exD_wf rfl rfl rfl rfl rfl rfl ?_,
    dense_quad_form_panic_square _ _ _ (by decide)⟩
  intro i j hij hj
  have hj' : j < 2 := hj
  have h1 : j = 0 ∨ j = 1 := by omega
  have h2 : i = 0 ∨ i = 1 := by omega
  rcases h1 with rfl | rfl <;> rcases h2 with rfl | rfl <;> first | rfl | omega

section dense_norms
variable [Field α] [LinearOrder α] [IsStrictOrderedRing α] [FloatLike α] [LawfulFloatLike α]

/-- [F] (ordered field, `fmax = max`, `fabs = |·|`) dense `col_norms_no_reset` with at most
`ncols` slots: slot `j` becomes `max(norms[j], ‖column j‖∞)`, `‖column j‖∞` the largest
`|A[i,j]|` over ALL rows (`0` for a matrix without rows) — so a slot never ends below `0`,
unlike the CSC twin, which leaves a slot alone when the column stores nothing -/
theorem dense_colNormsNoReset_spec (A : Dense α) (norms : Array α) (hA : WF A)
    (hs : norms.size ≤ A.n) :
    ∃ v, colNormsNoReset A norms = .ok v ∧ v.size = norms.size ∧
      ∀ j (hj : j < norms.size), ∃ N, Csc.IsMaxOf N 0 (colAbs A j) ∧ v[j]? = some (max norms[j] N) :=
  Dense.colNormsNoReset_spec A norms hA hs

/-- [F] dense `col_norms`: slot `j` is `‖column j‖∞`, the largest `|A[i,j]|` (`0` without rows) -/
theorem dense_colNorms_spec (A : Dense α) (norms : Array α) (hA : WF A) (hs : norms.size ≤ A.n) :
    ∃ v, colNorms A norms = .ok v ∧ v.size = norms.size ∧
      ∀ j, j < norms.size → ∃ N, Csc.IsMaxOf N 0 (colAbs A j) ∧ v[j]? = some N :=
  Dense.colNorms_spec A norms hA hs

/-- [F] dense `row_norms_no_reset` with at least `nrows` slots: slot `i < nrows` becomes the
maximum of its old content and the `|A[i,j]|`; further slots are untouched -/
theorem dense_rowNormsNoReset_spec (A : Dense α) (norms : Array α) (hA : WF A)
    (hs : A.m ≤ norms.size) :
    ∃ v, rowNormsNoReset A norms = .ok v ∧ v.size = norms.size ∧
      (∀ i (hi : i < A.m), ∃ r, v[i]? = some r ∧ Csc.IsMaxOf r (norms[i]'(by omega)) (rowAbs A i)) ∧
      (∀ i, A.m ≤ i → v[i]? = norms[i]?) :=
  Dense.rowNormsNoReset_spec A norms hA hs

/-- [F] dense `row_norms`: slot `i < nrows` is the largest `|A[i,j]|` (`0` without columns) -/
theorem dense_rowNorms_spec (A : Dense α) (norms : Array α) (hA : WF A) (hs : A.m ≤ norms.size) :
    ∃ v, rowNorms A norms = .ok v ∧ v.size = norms.size ∧
      ∀ i, i < A.m → ∃ r, v[i]? = some r ∧ Csc.IsMaxOf r 0 (rowAbs A i) :=
  Dense.rowNorms_spec A norms hA hs

/-- [F] what the dense `col_norms_sym_no_reset` computes on a well-formed square matrix (the
upper triangle of a symmetric matrix `S`) with at least `n` slots: slot `k < n` becomes the
maximum of its old content and the SIGNED entries `S[k,j]`, `j < n` — NO absolute value is
taken (the recorded observation; the CSC twin takes `|·|`); further slots are untouched -/
theorem dense_colNormsSymNoReset_spec (A : Dense α) (norms : Array α) (hA : WF A)
    (hsq : A.m = A.n) (hs : A.n ≤ norms.size) :
    ∃ v, colNormsSymNoReset A norms = .ok v ∧ v.size = norms.size ∧
      (∀ k (hk : k < A.n), ∃ r, v[k]? = some r ∧ Csc.IsMaxOf r (norms[k]'(by omega)) (symRow A k)) ∧
      (∀ k, A.n ≤ k → v[k]? = norms[k]?) :=
  Dense.colNormsSymNoReset_spec A norms hA hsq hs

/-- [F] the dense `col_norms_sym`: slot `k < n` is `max(0, max_j S[k,j])`, the largest SIGNED
entry of row/column `k` of the symmetric matrix, or `0` when all of them are negative -/
theorem dense_colNormsSym_spec (A : Dense α) (norms : Array α) (hA : WF A) (hsq : A.m = A.n)
    (hs : A.n ≤ norms.size) :
    ∃ v, colNormsSym A norms = .ok v ∧ v.size = norms.size ∧
      ∀ k, k < A.n → ∃ r, v[k]? = some r ∧ Csc.IsMaxOf r 0 (symRow A k) :=
  Dense.colNormsSym_spec A norms hA hsq hs

/-- [F] consequence of the missing absolute value: on a matrix whose upper triangle is `≤ 0`
the dense `col_norms_sym` returns zeros whatever the magnitudes -/
theorem dense_colNormsSym_nonpos (A : Dense α) (norms : Array α) (hA : WF A) (hsq : A.m = A.n)
    (hs : A.n ≤ norms.size)
    (hneg : ∀ i j, i ≤ j → j < A.n → A.data.getD (i + A.m * j) 0 ≤ 0) :
    ∃ v, colNormsSym A norms = .ok v ∧ ∀ k, k < A.n → v[k]? = some 0 :=
  Dense.colNormsSym_nonpos A norms hA hsq hs hneg

/-- [F] on a matrix whose upper triangle is `≥ 0` the dense `col_norms_sym` does return the
∞-norms of the rows/columns of the symmetric matrix -/
theorem dense_colNormsSym_nonneg (A : Dense α) (norms : Array α) (hA : WF A) (hsq : A.m = A.n)
    (hs : A.n ≤ norms.size)
    (hpos : ∀ i j, i ≤ j → j < A.n → 0 ≤ A.data.getD (i + A.m * j) 0) :
    ∃ v, colNormsSym A norms = .ok v ∧ v.size = norms.size ∧
      ∀ k, k < A.n → ∃ r, v[k]? = some r ∧ Csc.IsMaxOf r 0 ((symRow A k).map (fun a => |a|)) :=
  Dense.colNormsSym_nonneg A norms hA hsq hs hpos

end dense_norms

/-- [S] dense `col_norms_no_reset` with more slots than columns panics (`col_slice`'s assert) -/
theorem dense_colNormsNoReset_panic [Add α] [Sub α] [Mul α] [Div α] [OfNat α 0] [OfNat α 1] [LT α]
    [DecidableLT α] [FloatLike α] (A : Dense α) (norms : Array α) (hA : WF A)
    (hs : A.n < norms.size) :
    colNormsNoReset A norms = .error (.panic "col_slice: assert col < n") :=
  Dense.colNormsNoReset_panic A norms hA hs

/-- the symmetric 2×2 matrix `[[-1, -2], [-2, -4]]` over the reals -/
noncomputable def exDNeg : Dense ℝ := ⟨2, 2, #[-1, -2, -2, -4]⟩
theorem exDNeg_wf : WF exDNeg := rfl

/-- non-vacuity of the norm theorems (over `ℝ`) -/
example : (∃ v, colNormsNoReset exDR #[5, 0] = .ok v ∧ v.size = 2) ∧
    (∃ v, colNorms exDR #[7] = .ok v ∧ v.size = 1) ∧
    (∃ v, rowNormsNoReset exDR #[0, 0, 9] = .ok v ∧ v[2]? = some 9) ∧
    (∃ v, rowNorms exDR #[7, 7] = .ok v ∧ v.size = 2) ∧
    (∃ v, colNormsSymNoReset exDR #[0, 0] = .ok v ∧ v.size = 2) ∧
    (∃ v, colNormsSym exDR #[7, 7] = .ok v ∧ v.size = 2) ∧
    colNormsNoReset exDR #[0, 0, 0] = .error (.panic "col_slice: assert col < n") := by
  have h2 : (2 : Nat) ≤ 2 := Nat.le_refl _
  refine ⟨?_, ?_, ?_, ?_, ?_, ?_, ?_⟩
  · obtain ⟨v, h, hs, _⟩ := dense_colNormsNoReset_spec exDR #[5, 0] exDR_wf h2
    exact ⟨v, h, hs⟩
  · obtain ⟨v, h, hs, _⟩ := dense_colNorms_spec exDR #[7] exDR_wf (by show 1 ≤ 2; omega)
    exact ⟨v, h, hs⟩
  · obtain ⟨v, h, _, _, hu⟩ := dense_rowNormsNoReset_spec exDR #[0, 0, 9] exDR_wf (by show 2 ≤ 3; omega)
    exact ⟨v, h, by rw [hu 2 h2]; rfl⟩
  · obtain ⟨v, h, hs, _⟩ := dense_rowNorms_spec exDR #[7, 7] exDR_wf h2
    exact ⟨v, h, hs⟩
  · obtain ⟨v, h, hs, _⟩ := dense_colNormsSymNoReset_spec exDR #[0, 0] exDR_wf rfl h2
    exact ⟨v, h, hs⟩
  · obtain ⟨v, h, hs, _⟩ := dense_colNormsSym_spec exDR #[7, 7] exDR_wf rfl h2
    exact ⟨v, h, hs⟩
  · exact dense_colNormsNoReset_panic exDR #[0, 0, 0] exDR_wf (by show 2 < 3; omega)

/-- non-vacuity of `dense_colNormsSym_nonpos` / `dense_colNormsSym_nonneg`: the negative
matrix `exDNeg` has dense "symmetric norms" `(0, 0)` although its entries have magnitude up to
`4`; the positive matrix `exDR` gets its true norms -/
example : (∃ v, colNormsSym exDNeg #[7, 7] = .ok v ∧ v[0]? = some 0 ∧ v[1]? = some 0) ∧
    (∃ v, colNormsSym exDR #[7, 7] = .ok v ∧ v.size = 2) := by
  constructor
  · obtain ⟨v, h, hz⟩ := dense_colNormsSym_nonpos exDNeg #[7, 7] exDNeg_wf rfl (Nat.le_refl _) (by
      intro i j hij hj
      have hj' : j < 2 := hj
      have h1 : j = 0 ∨ j = 1 := by omega
      have h2 : i = 0 ∨ i = 1 := by omega
      rcases h1 with rfl | rfl <;> rcases h2 with rfl | rfl <;> simp [exDNeg])
    exact ⟨v, h, hz 0 (by show 0 < 2; omega), hz 1 (by show 1 < 2; omega)⟩
  · obtain ⟨v, h, hs, _⟩ := dense_colNormsSym_nonneg exDR #[7, 7] exDR_wf rfl (Nat.le_refl _) (by
      intro i j hij hj
      have hj' : j < 2 := hj
      have h1 : j = 0 ∨ j = 1 := by omega
      have h2 : i = 0 ∨ i = 1 := by omega
      rcases h1 with rfl | rfl <;> rcases h2 with rfl | rfl <;> simp [exDR])
    exact ⟨v, h, hs⟩

/-! ## Round 8 — dense module: `svec_to_mat` / `mat_to_svec`

Convention of the code: the packed vector lists the upper triangle column by column
(`idx = col(col+1)/2 + row`, `row ≤ col`); diagonal entries are copied, off-diagonal entries
carry the factor `1/√2` (`FRAC_1_SQRT_2`) in both directions: `M[r,c] = M[c,r] = x[idx]/√2`,
`x[idx] = (M[r,c] + M[c,r])/√2` (`= √2·M[r,c]` for symmetric `M`).  Both functions coincide
with the entry-function model of C13 (`PsdTri.svecToMat`, `PsdTri.matToSvec`), so C13's
theorems about these maps apply to the dense module. -/

/-- [S] bridge to C13: `svec_to_mat(M, x)` on a well-formed square `n × n` matrix with
`x.len() ≥ n(n+1)/2` overwrites every entry, and entry `(i, j)` of the result is
`PsdTri.svecToMat x i j` (`x[idx]` on the diagonal, `x[idx]·(1/√2)` on both sides of it), for
every scalar type including `f64` -/
theorem dense_svec_to_mat_spec [Add α] [Sub α] [Mul α] [Div α] [OfNat α 0] [OfNat α 1] [LT α]
    [DecidableLT α] [FloatLike α] (A : Dense α) (x : Array α) (hA : WF A) (hsq : A.m = A.n)
    (hx : PsdIndex.triangularNumber A.n ≤ x.size) :
    ∃ R, svecToMat A x = .ok R ∧ R.m = A.m ∧ R.n = A.n ∧ WF R ∧
      ∀ i j, i < A.n → j < A.n → at? R i j = some (PsdTri.svecToMat x i j) :=
  Dense.svecToMat_bridge A x hA hsq hx

/-- [S] `svec_to_mat` panics on a vector shorter than `n(n+1)/2` -/
theorem dense_svec_to_mat_short [Add α] [Sub α] [Mul α] [Div α] [OfNat α 0] [OfNat α 1] [LT α]
    [DecidableLT α] [FloatLike α] (A : Dense α) (x : Array α)
    (hx : x.size < PsdIndex.triangularNumber A.n) :
    svecToMat A x = .error (.panic "x[idx]") :=
  Dense.svecToMat_short A x hx

/-- [S] bridge to C13: `mat_to_svec(x, M)` for any view `M` (`N`, `t()`, `sym()`) of a well-formed
square `n × n` matrix and `x.len() ≥ n(n+1)/2`: the first `n(n+1)/2` entries of `x` become
`PsdTri.matToSvec n M` (diagonal `M[r,r]`, off-diagonal `(M[r,c] + M[c,r])·(1/√2)`), the rest
of `x` is untouched; for every scalar type including `f64` -/
theorem dense_mat_to_svec_spec [Add α] [Sub α] [Mul α] [Div α] [OfNat α 0] [OfNat α 1] [LT α]
    [DecidableLT α] [FloatLike α] (x : Array α) (v : DView) (A : Dense α) (hA : WF A)
    (hsq : A.m = A.n) (hx : PsdIndex.triangularNumber A.n ≤ x.size) :
    ∃ y, matToSvec x v A = .ok y ∧ y.size = x.size ∧
      (∀ p, p < PsdIndex.triangularNumber A.n → y[p]? = (PsdTri.matToSvec A.n (viewFn v A))[p]?) ∧
      (∀ p, PsdIndex.triangularNumber A.n ≤ p → y[p]? = x[p]?) :=
  Dense.matToSvec_bridge x v A hA hsq hx

/-- [S] with `x.len() = n(n+1)/2` the result of `mat_to_svec` IS C13's model vector (for the
matrix itself: `PsdTri.matToSvec n (PsdTri.matOf n data)`) -/
theorem dense_mat_to_svec_exact [Add α] [Sub α] [Mul α] [Div α] [OfNat α 0] [OfNat α 1] [LT α]
    [DecidableLT α] [FloatLike α] (x : Array α) (v : DView) (A : Dense α) (hA : WF A)
    (hsq : A.m = A.n) (hx : x.size = PsdIndex.triangularNumber A.n) :
    matToSvec x v A = .ok (PsdTri.matToSvec A.n (viewFn v A)) ∧
      viewFn .N A = PsdTri.matOf A.n A.data :=
  ⟨Dense.matToSvec_bridge_exact x v A hA hsq hx, Dense.viewFn_N A A.n hsq⟩

/-- [R] `mat_to_svec ∘ svec_to_mat = id`: packing the matrix built from `x` (length `n(n+1)/2`)
returns `x` -/
theorem dense_svec_roundtrip (A : Dense ℝ) (x x' : Array ℝ) (hA : WF A) (hsq : A.m = A.n)
    (hx : x.size = PsdIndex.triangularNumber A.n) (hx' : x'.size = PsdIndex.triangularNumber A.n) :
    ∃ R, svecToMat A x = .ok R ∧ matToSvec x' .N R = .ok x :=
  Dense.matToSvec_svecToMat_real A x x' hA hsq hx hx'

/-- [R] `svec_to_mat ∘ mat_to_svec = id` on symmetric matrices (`Dense.IsSymmD A`: `A[i,j] = A[j,i]`) -/
theorem dense_mat_roundtrip (A A' : Dense ℝ) (x : Array ℝ) (hA : WF A) (hsq : A.m = A.n)
    (hA' : WF A') (hm' : A'.m = A.n) (hn' : A'.n = A.n) (hsym : IsSymmD A)
    (hx : x.size = PsdIndex.triangularNumber A.n) :
    ∃ s R, matToSvec x .N A = .ok s ∧ svecToMat A' s = .ok R ∧
      ∀ i j, i < A.n → j < A.n → at? R i j = at? A i j :=
  Dense.svecToMat_matToSvec_real A A' x hA hsq hA' hm' hn' hsym hx

/-- [R] the reason for the `√2` scaling: `⟨svec A, svec B⟩ = Σᵢⱼ AᵢⱼBᵢⱼ = tr(AB)` for symmetric
`A`, `B` -/
theorem dense_svec_inner_product (A B : Dense ℝ) (x x' : Array ℝ) (hA : WF A) (hB : WF B)
    (hsqA : A.m = A.n) (hsqB : B.m = B.n) (hn : B.n = A.n) (hsA : IsSymmD A) (hsB : IsSymmD B)
    (hx : x.size = PsdIndex.triangularNumber A.n) (hx' : x'.size = PsdIndex.triangularNumber A.n) :
    ∃ sa sb, matToSvec x .N A = .ok sa ∧ matToSvec x' .N B = .ok sb ∧
      Vec.dot sa sb = ∑ j ∈ Finset.range A.n, ∑ i ∈ Finset.range A.n,
        A.data.getD (i + A.m * j) 0 * B.data.getD (i + B.m * j) 0 :=
  Dense.dot_matToSvec_real A B x x' hA hB hsqA hsqB hn hsA hsB hx hx'

/-- the symmetric 2×2 matrix `[[1, 2], [2, 4]]` over the reals -/
noncomputable def exDS : Dense ℝ := ⟨2, 2, #[1, 2, 2, 4]⟩
theorem exDS_wf : WF exDS := rfl
theorem exDS_symm : IsSymmD exDS := by
  intro i j hi hj
  have hi' : i < 2 := hi
  have hj' : j < 2 := hj
  have h1 : j = 0 ∨ j = 1 := by omega
  have h2 : i = 0 ∨ i = 1 := by omega
  rcases h1 with rfl | rfl <;> rcases h2 with rfl | rfl <;> rfl

/-- non-vacuity of the svec theorems: a 2×2 matrix and vectors of length 3 = 2·3/2 (and a too
short one) -/
example : (∃ R, svecToMat exDR #[5, 6, 7] = .ok R ∧ at? R 1 0 = some (PsdTri.svecToMat #[5, 6, 7] 1 0)) ∧
    svecToMat exDR #[5, 6] = .error (.panic "x[idx]") ∧
    (∃ y, matToSvec #[0, 0, 0, 9] .S exDR = .ok y ∧ y[3]? = some 9) ∧
    matToSvec #[0, 0, 0] .T exDR = .ok (PsdTri.matToSvec 2 (viewFn .T exDR)) ∧
    (∃ R, svecToMat exDR #[5, 6, 7] = .ok R ∧ matToSvec #[0, 0, 0] .N R = .ok #[5, 6, 7]) ∧
    (∃ s R, matToSvec #[0, 0, 0] .N exDS = .ok s ∧ svecToMat exDR s = .ok R ∧ at? R 1 0 = at? exDS 1 0) ∧
    (∃ sa sb, matToSvec #[0, 0, 0] .N exDS = .ok sa ∧ matToSvec #[0, 0, 0] .N exDS = .ok sb ∧
      Vec.dot sa sb = ∑ j ∈ Finset.range 2, ∑ i ∈ Finset.range 2,
        exDS.data.getD (i + 2 * j) 0 * exDS.data.getD (i + 2 * j) 0) := by
  have h3 : PsdIndex.triangularNumber 2 = 3 := rfl
  refine ⟨?_, ?_, ?_, ?_, ?_, ?_, ?_⟩
  · obtain ⟨R, h, _, _, _, he⟩ := dense_svec_to_mat_spec exDR #[5, 6, 7] exDR_wf rfl (by show 3 ≤ 3; omega)
    exact ⟨R, h, he 1 0 (by show 1 < 2; omega) (by show 0 < 2; omega)⟩
  · exact dense_svec_to_mat_short exDR #[5, 6] (by show 2 < 3; omega)
  · obtain ⟨y, h, _, _, hu⟩ := dense_mat_to_svec_spec #[0, 0, 0, 9] .S exDR exDR_wf rfl (by show 3 ≤ 4; omega)
    exact ⟨y, h, by rw [hu 3 (by show 3 ≤ 3; omega)]; rfl⟩
  · exact (dense_mat_to_svec_exact #[0, 0, 0] .T exDR exDR_wf rfl rfl).1
  · exact dense_svec_roundtrip exDR #[5, 6, 7] #[0, 0, 0] exDR_wf rfl rfl rfl
  · obtain ⟨s, R, h1, h2, he⟩ := dense_mat_roundtrip exDS exDR #[0, 0, 0] exDS_wf rfl exDR_wf rfl rfl
      exDS_symm rfl
    exact ⟨s, R, h1, h2, he 1 0 (by show 1 < 2; omega) (by show 0 < 2; omega)⟩
  · exact dense_svec_inner_product exDS exDS #[0, 0, 0] #[0, 0, 0] exDS_wf exDS_wf rfl rfl rfl
      exDS_symm exDS_symm rfl rfl

/-! ## Round 8 — dense module: `SVDEngine::solve` is the pseudo-inverse relative to the SVD contract -/

/-- [R] what `SVDEngine::solve` computes: for a well-formed square engine of order `n > 0` (`U`, `Vt` : `n × n`, `n` singular values) and a well-formed `B` with `n` rows (`nrhs = 0` allowed: `B` is returned as it is), the call succeeds, keeps the shape of `B`, and entry `(i, j)` of the result is `Σ_l Vt[l,i]·(sinv l·Σ_p U[p,l]·B[p,j])` = `(V·Σ⁺·Uᵀ·B)[i,j]`, where `sinv l = 1/|s[l]|` iff `(eps·|s[0]|)·n < |s[l]|` (strict, product in the order of the code) and `0` otherwise -/
theorem dense_svdSolve_entry (E : SvdEngine ℝ) (B : Dense ℝ) (n : Nat)
    (hU : WF E.U) (hVt : WF E.Vt) (hB : WF B) (hUm : E.U.m = n) (hUn : E.U.n = n)
    (hVm : E.Vt.m = n) (hVn : E.Vt.n = n) (hs : E.s.size = n) (hn : 0 < n) (hBm : B.m = n) :
    ∃ X, svdSolve E B = .ok X ∧ X.m = n ∧ X.n = B.n ∧ WF X ∧
      ∀ i j, i < n → j < B.n → at? X i j =
        some (∑ l ∈ Finset.range n, E.Vt.data.getD (l + n * i) 0 *
          ((if FloatLike.eps * |E.s.getD 0 0| * (n : ℝ) < |E.s.getD l 0| then 1 / |E.s.getD l 0| else 0) *
            ∑ p ∈ Finset.range n, E.U.data.getD (p + n * l) 0 * B.data.getD (p + n * j) 0)) := by
  apply Dense.svdSolve_entry <;> assumption

/-- [R] `SVDEngine::solve` returns a least-squares solution: relative to the SVD contract for `A` (`A[i,j] = Σ_l U[i,l]·s[l]·Vt[l,j]`, `UᵀU = I`, `Vt·Vtᵀ = I`, `s ≥ 0`) and provided no nonzero singular value falls under the cutoff (`s[l] = 0` or `eps·|s[0]|·n < |s[l]|`; `s[0] = σ_max` under the LAPACK contract), the result `X` satisfies the normal equations `AᵀA·X = AᵀB` entry by entry -/
theorem dense_svdSolve_normal_equations (E : SvdEngine ℝ) (B : Dense ℝ) (n : Nat) (A : Nat → Nat → ℝ)
    (hU : WF E.U) (hVt : WF E.Vt) (hB : WF B) (hUm : E.U.m = n) (hUn : E.U.n = n)
    (hVm : E.Vt.m = n) (hVn : E.Vt.n = n) (hs : E.s.size = n) (hn : 0 < n) (hBm : B.m = n)
    (hA : ∀ i j, i < n → j < n → A i j =
      ∑ l ∈ Finset.range n, E.U.data.getD (i + n * l) 0 * E.s.getD l 0 * E.Vt.data.getD (l + n * j) 0)
    (hUU : ∀ a b, a < n → b < n →
      ∑ p ∈ Finset.range n, E.U.data.getD (p + n * a) 0 * E.U.data.getD (p + n * b) 0 = if a = b then 1 else 0)
    (hVV : ∀ a b, a < n → b < n →
      ∑ q ∈ Finset.range n, E.Vt.data.getD (a + n * q) 0 * E.Vt.data.getD (b + n * q) 0 = if a = b then 1 else 0)
    (hs0 : ∀ l, l < n → 0 ≤ E.s.getD l 0)
    (hcut : ∀ l, l < n → E.s.getD l 0 = 0 ∨
      FloatLike.eps * |E.s.getD 0 0| * (n : ℝ) < |E.s.getD l 0|) :
    ∃ X, svdSolve E B = .ok X ∧ X.m = n ∧ X.n = B.n ∧ WF X ∧
      ∀ i j, i < n → j < B.n →
        ∑ a ∈ Finset.range n, (∑ p ∈ Finset.range n, A p i * A p a) * X.data.getD (a + n * j) 0
          = ∑ p ∈ Finset.range n, A p i * B.data.getD (p + n * j) 0 := by
  apply Dense.svdSolve_normal_equations <;> assumption

/-- [R] `SVDEngine::solve` solves the system when nothing is cut off: with the same SVD contract and every singular value strictly above `eps·|s[0]|·n`, the result satisfies `A·X = B` entry by entry -/
theorem dense_svdSolve_full_rank (E : SvdEngine ℝ) (B : Dense ℝ) (n : Nat) (A : Nat → Nat → ℝ)
    (hU : WF E.U) (hVt : WF E.Vt) (hB : WF B) (hUm : E.U.m = n) (hUn : E.U.n = n)
    (hVm : E.Vt.m = n) (hVn : E.Vt.n = n) (hs : E.s.size = n) (hn : 0 < n) (hBm : B.m = n)
    (hA : ∀ i j, i < n → j < n → A i j =
      ∑ l ∈ Finset.range n, E.U.data.getD (i + n * l) 0 * E.s.getD l 0 * E.Vt.data.getD (l + n * j) 0)
    (hUU : ∀ a b, a < n → b < n →
      ∑ p ∈ Finset.range n, E.U.data.getD (p + n * a) 0 * E.U.data.getD (p + n * b) 0 = if a = b then 1 else 0)
    (hVV : ∀ a b, a < n → b < n →
      ∑ q ∈ Finset.range n, E.Vt.data.getD (a + n * q) 0 * E.Vt.data.getD (b + n * q) 0 = if a = b then 1 else 0)
    (hfull : ∀ l, l < n → FloatLike.eps * |E.s.getD 0 0| * (n : ℝ) < E.s.getD l 0) :
    ∃ X, svdSolve E B = .ok X ∧ X.m = n ∧ X.n = B.n ∧ WF X ∧
      ∀ i j, i < n → j < B.n →
        ∑ a ∈ Finset.range n, A i a * X.data.getD (a + n * j) 0 = B.data.getD (i + n * j) 0 := by
  apply Dense.svdSolve_full_rank <;> assumption

/-- non-vacuity of `dense_svdSolve_entry`: `U = Vt = I₂`, `s = (2, 0)`, `B = (4, 6)ᵀ` -/
example : ∃ X, svdSolve Dense.pinvExE Dense.pinvExB = .ok X ∧ X.m = 2 ∧ X.n = Dense.pinvExB.n ∧ WF X :=
  let ⟨X, h1, h2, h3, h4, _⟩ := dense_svdSolve_entry Dense.pinvExE Dense.pinvExB 2
    rfl rfl rfl rfl rfl rfl rfl rfl (by decide) rfl
  ⟨X, h1, h2, h3, h4⟩

/-- non-vacuity of `dense_svdSolve_normal_equations`: the rank-deficient `A = diag(2, 0)` (`U = Vt = I₂`, `s = (2, 0)`: the `0` is cut off, the `2` is kept since `2⁻⁵²·|2|·2 < 2`), `B = (4, 6)ᵀ` -/
example : ∃ X, svdSolve Dense.pinvExE Dense.pinvExB = .ok X ∧ X.m = 2 ∧ X.n = Dense.pinvExB.n ∧ WF X ∧
    ∀ i j, i < 2 → j < Dense.pinvExB.n →
      ∑ a ∈ Finset.range 2, (∑ p ∈ Finset.range 2, Dense.pinvExA p i * Dense.pinvExA p a) *
          X.data.getD (a + 2 * j) 0
        = ∑ p ∈ Finset.range 2, Dense.pinvExA p i * Dense.pinvExB.data.getD (p + 2 * j) 0 :=
  dense_svdSolve_normal_equations Dense.pinvExE Dense.pinvExB 2 Dense.pinvExA
    rfl rfl rfl rfl rfl rfl rfl rfl (by decide) rfl
    Dense.pinvEx_svd Dense.pinvEx_UU Dense.pinvEx_VV Dense.pinvEx_nonneg Dense.pinvEx_cut

/-- non-vacuity of `dense_svdSolve_full_rank`: `A = diag(2, 1)` (`U = Vt = I₂`, `s = (2, 1)`), `B = (4, 6)ᵀ` -/
example : ∃ X, svdSolve Dense.pinvExE' Dense.pinvExB = .ok X ∧ X.m = 2 ∧ X.n = Dense.pinvExB.n ∧ WF X ∧
    ∀ i j, i < 2 → j < Dense.pinvExB.n →
      ∑ a ∈ Finset.range 2, Dense.pinvExA' i a * X.data.getD (a + 2 * j) 0
        = Dense.pinvExB.data.getD (i + 2 * j) 0 :=
  dense_svdSolve_full_rank Dense.pinvExE' Dense.pinvExB 2 Dense.pinvExA'
    rfl rfl rfl rfl rfl rfl rfl rfl (by decide) rfl
    Dense.pinvEx_svd' Dense.pinvEx_UU Dense.pinvEx_VV Dense.pinvEx_full'

/-! ## Round 8 — the bridge between the two matrix types: dense ∘ csc = csc ∘ dense

`ofCsc M` (`Lemmas/DenseCscBridge.lean`) is the dense column-major matrix the CSC matrix `M`
denotes (the table of `Csc.toDense M`).  Every operation that exists on both matrix types
commutes with it: the dense operation applied to `ofCsc M` returns `ofCsc` of what the CSC
operation returns. -/

/-- [S] `ofCsc`: a well-formed `m × n` dense matrix whose entry `(i, j)` is `M.toDense i j`. -/
theorem dense_csc_ofCsc [Add α] [OfNat α 0] (M : Csc α) :
    WF (ofCsc M) ∧ (ofCsc M).m = M.m ∧ (ofCsc M).n = M.n ∧
      ∀ i j, i < M.m → j < M.n → at? (ofCsc M) i j = some (M.toDense i j) :=
  ⟨ofCsc_wf M, rfl, rfl, fun _ _ hi hj => ofCsc_at M hi hj⟩

/-- the example matrix as a dense matrix -/
example : ofCsc exM = ⟨3, 3, #[1, 0, 3, 0, 2, 0, 4, 0, 5]⟩ := by rfl

/-- [S] transposition commutes with `ofCsc` (any CSC matrix, any scalar type): the
materialised dense transpose is `ofCsc` of the CSC transpose, and the `t()` view of `ofCsc M`
reads the entries of the CSC transpose. -/
theorem dense_csc_transpose [Add α] [OfNat α 0] (M : Csc α) :
    Dense.transpose (ofCsc M) = ofCsc (Csc.transpose M) ∧
      ∀ i j, i < M.m → j < M.n →
        Dense.get .T (ofCsc M) j i = .ok ((Csc.transpose M).toDense j i) :=
  ⟨transpose_ofCsc M, fun _ _ hi hj => get_T_ofCsc M hi hj⟩

example : Dense.transpose (ofCsc exM) = ofCsc (Csc.transpose exM) ∧
    Dense.get .T (ofCsc exM) 2 0 = .ok ((Csc.transpose exM).toDense 2 0) :=
  ⟨(dense_csc_transpose exM).1, (dense_csc_transpose exM).2 0 2 (by decide) (by decide)⟩

/-- [F] (semiring) `scale` commutes with `ofCsc` on canonical matrices. -/
theorem dense_csc_scale [Semiring α] (M : Csc α) (c : α) (hM : Canonical M) :
    Dense.scale (ofCsc M) c = ofCsc (Csc.scale M c) :=
  scale_ofCsc M c (fun i j _ _ => (Clarabel.C16.scale_spec M c hM).2.2.2.2.2 i j)

example : Dense.scale (ofCsc exM) 2 = ofCsc (Csc.scale exM 2) := dense_csc_scale exM 2 exM_canonical

/-- [F] (ring) `negate` commutes with `ofCsc` on canonical matrices. -/
theorem dense_csc_negate [Ring α] (M : Csc α) (hM : Canonical M) :
    Dense.negate (ofCsc M) = ofCsc (Csc.negate M) :=
  negate_ofCsc M (fun i j _ _ => (Clarabel.C16.negate_spec M hM).2.2.2.2.2 i j)

example : Dense.negate (ofCsc exM) = ofCsc (Csc.negate exM) := dense_csc_negate exM exM_canonical

/-- [F] (semiring) `lscale(l)` with `l.len = m` commutes with `ofCsc` on canonical matrices:
both succeed and the dense result is `ofCsc` of the CSC result. -/
theorem dense_csc_lscale [Semiring α] (M : Csc α) (l : Array α) (hM : Canonical M)
    (hl : l.size = M.m) :
    ∃ R, Csc.lscale M l = .ok R ∧ Dense.lscale (ofCsc M) l = .ok (ofCsc R) := by
  obtain ⟨R, h1, _, hm, hn, _, _, hd⟩ := Clarabel.C16.lscale_spec M l hM hl
  exact ⟨R, h1, lscale_ofCsc M R l hl hm hn (fun i j _ _ => hd i j)⟩

example : ∃ R, Csc.lscale exM #[1, 2, 3] = .ok R ∧
    Dense.lscale (ofCsc exM) #[1, 2, 3] = .ok (ofCsc R) :=
  dense_csc_lscale exM #[1, 2, 3] exM_canonical rfl

/-- [F] (semiring) `rscale(r)` with `r.len = n` commutes with `ofCsc` on canonical matrices. -/
theorem dense_csc_rscale [Semiring α] (M : Csc α) (r : Array α) (hM : Canonical M)
    (hr : r.size = M.n) :
    ∃ R, Csc.rscale M r = .ok R ∧ Dense.rscale (ofCsc M) r = .ok (ofCsc R) := by
  obtain ⟨R, h1, _, hm, hn, hd⟩ := Clarabel.C16.rscale_spec M r hM hr
  exact ⟨R, h1, rscale_ofCsc M R r hr hm hn (fun i j _ hj => hd i j hj)⟩

example : ∃ R, Csc.rscale exM #[1, 2, 3] = .ok R ∧
    Dense.rscale (ofCsc exM) #[1, 2, 3] = .ok (ofCsc R) :=
  dense_csc_rscale exM #[1, 2, 3] exM_canonical rfl

/-- [F] (commutative ring) `lrscale(l, r)` with `l.len = m`, `r.len = n` commutes with `ofCsc`
on canonical matrices (the dense code computes `a·(l[i]·r[j])`, the CSC code `l i·a·r j`). -/
theorem dense_csc_lrscale [CommRing α] (M : Csc α) (l r : Array α) (hM : Canonical M)
    (hl : l.size = M.m) (hr : r.size = M.n) :
    ∃ R, Csc.lrscale M l r = .ok R ∧ Dense.lrscale (ofCsc M) l r = .ok (ofCsc R) := by
  obtain ⟨R, h1, _, hm, hn, hd⟩ := Clarabel.C16.lrscale_spec M l r hM hl hr
  refine ⟨R, h1, lrscale_ofCsc M R l r hl hr hm hn (fun i j _ hj => ?_)⟩
  rw [hd i j hj]
  ring

example : ∃ R, Csc.lrscale exM #[1, 2, 3] #[4, 5, 6] = .ok R ∧
    Dense.lrscale (ofCsc exM) #[1, 2, 3] #[4, 5, 6] = .ok (ofCsc R) :=
  dense_csc_lrscale exM #[1, 2, 3] #[4, 5, 6] exM_canonical rfl rfl

/-- [F] (additive commutative monoid) `col_sums` with `sums.len = n`: the dense and the CSC
code return the same vector on a canonical matrix. -/
theorem dense_csc_colSums [AddCommMonoid α] (M : Csc α) (s : Array α) (hM : Canonical M)
    (hs : s.size = M.n) :
    Dense.colSums (ofCsc M) s = Csc.colSums M s := by
  obtain ⟨v, h1, h2, h3⟩ := Clarabel.C16.colSums_spec M s hM hs
  exact colSums_ofCsc M s v hs h1 h2 h3

example : Dense.colSums (ofCsc exM) #[0, 0, 0] = Csc.colSums exM #[0, 0, 0] :=
  dense_csc_colSums exM #[0, 0, 0] exM_canonical rfl

/-- [F] (additive commutative monoid) `row_sums` with `sums.len = m`: the dense and the CSC
code return the same vector on a canonical matrix whose `colptr` starts at 0. -/
theorem dense_csc_rowSums [AddCommMonoid α] (M : Csc α) (s : Array α) (hM : Canonical M)
    (h0 : M.colptr.getD 0 0 = 0) (hs : s.size = M.m) :
    Dense.rowSums (ofCsc M) s = Csc.rowSums M s := by
  obtain ⟨v, h1, h2, h3⟩ := Clarabel.C16.rowSums_spec M s hM h0 hs
  exact rowSums_ofCsc M s v hs h1 h2 h3

example : Dense.rowSums (ofCsc exM) #[7, 7, 7] = Csc.rowSums exM #[7, 7, 7] :=
  dense_csc_rowSums exM #[7, 7, 7] exM_canonical rfl rfl

/-- [S] `hcat` commutes with `ofCsc` (equal row counts; any scalar type, no canonical form
needed): both succeed and `[ofCsc A  ofCsc B] = ofCsc [A B]`. -/
theorem dense_csc_hcat [Add α] [OfNat α 0] (A B : Csc α) (h : A.m = B.m) :
    ∃ R, Csc.hcat A B = .ok R ∧ Dense.hcat (ofCsc A) (ofCsc B) = .ok (ofCsc R) := by
  obtain ⟨R, h1, hm, hn, _, hl, hr⟩ := Clarabel.C16.hcat_spec A B h
  exact ⟨R, h1, hcat_ofCsc A B R h hm hn (fun i j _ hj => hl i j hj) (fun i j _ hj => hr i j hj)⟩

example : ∃ R, Csc.hcat exM exM = .ok R ∧ Dense.hcat (ofCsc exM) (ofCsc exM) = .ok (ofCsc R) :=
  dense_csc_hcat exM exM rfl

/-- [S] `vcat` commutes with `ofCsc` (equal column counts, canonical upper block; any scalar
type): both succeed and `[ofCsc A; ofCsc B] = ofCsc [A; B]`. -/
theorem dense_csc_vcat [Add α] [OfNat α 0] (A B : Csc α) (hA : Canonical A) (h : A.n = B.n) :
    ∃ R, Csc.vcat A B = .ok R ∧ Dense.vcat (ofCsc A) (ofCsc B) = .ok (ofCsc R) := by
  obtain ⟨R, h1, hm, hn, _, ht, hb⟩ := Clarabel.C16.vcat_spec A B h
  exact ⟨R, h1, vcat_ofCsc A B R h hm hn ht (fun i j _ hj => hb hA i j hj)⟩

example : ∃ R, Csc.vcat exM exM = .ok R ∧ Dense.vcat (ofCsc exM) (ofCsc exM) = .ok (ofCsc R) :=
  dense_csc_vcat exM exM exM_canonical rfl

/-! ### the bridge for the block operations: `blockdiag` and the general grid `hvcat` -/

/-- [S] `blockdiag` commutes with `ofCsc` (non-empty list of canonical blocks, any scalar
type): both succeed and `blockdiag (ofCsc M₁, …, ofCsc M_p) = ofCsc (blockdiag (M₁, …, M_p))`
(zeros outside the diagonal blocks on both sides). -/
theorem dense_csc_blockdiag [Add α] [OfNat α 0] (mats : List (Csc α)) (hne : mats ≠ [])
    (hcan : ∀ M ∈ mats, Canonical M) :
    ∃ R, Csc.blockdiag mats = .ok R ∧
      Dense.blockdiag (mats.map ofCsc) = .ok (ofCsc R) := by
  obtain ⟨R, h1, hm, hn, _, hd⟩ := Clarabel.C16.blockdiag_spec mats hne
  exact ⟨R, h1, blockdiag_ofCsc mats R hne hcan hm hn hd⟩

example : ∃ R, Csc.blockdiag [exM, exM] = .ok R ∧
    Dense.blockdiag ([exM, exM].map ofCsc) = .ok (ofCsc R) :=
  dense_csc_blockdiag [exM, exM] (by simp)
    (by intro M hM; simp at hM; rw [hM]; exact exM_canonical)

/-- [S] `hvcat` commutes with `ofCsc` (consistent grid of canonical blocks, any scalar type):
both succeed and the dense block matrix of the `ofCsc` blocks is `ofCsc` of the CSC block
matrix. -/
theorem dense_csc_hvcat [Add α] [OfNat α 0] (mats : List (List (Csc α))) (g : Csc.GridOK mats)
    (hcan : ∀ br ∈ mats, ∀ b ∈ br, Canonical b) :
    ∃ R, Csc.hvcat mats = .ok R ∧
      Dense.hvcat (mats.map (fun br => br.map ofCsc)) = .ok (ofCsc R) := by
  obtain ⟨R, h1, hm, hn, h⟩ := Clarabel.C16.hvcat_spec mats g
  exact ⟨R, h1, hvcat_ofCsc mats R g hm hn (h hcan).2⟩

example : ∃ R, Csc.hvcat [[exM, exM], [exM, exM]] = .ok R ∧
    Dense.hvcat ([[exM, exM], [exM, exM]].map (fun br => br.map ofCsc)) = .ok (ofCsc R) := by
  have g : Csc.GridOK [[exM, exM], [exM, exM]] := (Csc.hvcatDimCheck_iff _).mp (by rfl)
  refine dense_csc_hvcat _ g ?_
  intro br hbr b hb
  simp only [List.mem_cons, List.not_mem_nil, or_false] at hbr
  rcases hbr with rfl | rfl <;>
  · simp only [List.mem_cons, List.not_mem_nil, or_false, or_self] at hb
    rw [hb]; exact exM_canonical


/-! ### the bridge for `quad_form` and the ∞-norm kernels -/

/-- [F] (commutative ring) `quad_form(y, x)` on a canonical, square, upper triangular CSC
matrix with vectors of length `n`: the dense code on `ofCsc M` returns the same value. -/
theorem dense_csc_quadForm [CommRing α] [DecidableEq α] (M : Csc α) (y x : Array α)
    (hM : Canonical M) (hsq : M.m = M.n) (htri : M.isTriu = true)
    (hx : x.size = M.n) (hy : y.size = M.n) :
    Dense.quadForm (ofCsc M) y x = Csc.quadForm M y x :=
  quadForm_ofCsc M y x hsq (col_le_of_isTriu hM htri) hx hy
    (Clarabel.C16.quadForm_spec M y x hM hsq htri hx hy)

example : Dense.quadForm (ofCsc (⟨3, 3, #[0, 1, 2, 4], #[0, 1, 0, 2], #[1, 2, 4, 5]⟩ : Csc Int))
      #[1, 1, 1] #[1, 2, 3]
    = Csc.quadForm (⟨3, 3, #[0, 1, 2, 4], #[0, 1, 0, 2], #[1, 2, 4, 5]⟩ : Csc Int)
      #[1, 1, 1] #[1, 2, 3] :=
  dense_csc_quadForm _ _ _ (check_format_canonical _ (by rfl)) rfl (by rfl) rfl rfl

/-- [F] (ordered field, `fmax = max`, `fabs = |·|`) `col_norms` with `norms.len = n` on a
canonical matrix: the dense code on `ofCsc M` returns the same vector (the zeros it sees in
addition to the stored values do not matter against the floor `0`). -/
theorem dense_csc_colNorms [Field α] [LinearOrder α] [IsStrictOrderedRing α] [FloatLike α]
    [LawfulFloatLike α] (M : Csc α) (norms : Array α) (hM : Canonical M)
    (hs : norms.size = M.n) :
    Dense.colNorms (ofCsc M) norms = Csc.colNorms M norms := by
  obtain ⟨v, h1, h2, h3⟩ := Clarabel.C16.colNorms_spec M norms hM hs
  exact colNorms_ofCsc M norms v hM hs h1 h2 h3

/-- the example matrix for the norm bridges: `[[-3, 0], [0, 2]]` -/
example : Dense.colNorms (ofCsc (⟨2, 2, #[0, 1, 2], #[0, 1], #[(-3 : ℝ), 2]⟩ : Csc ℝ)) #[7, 7]
    = Csc.colNorms (⟨2, 2, #[0, 1, 2], #[0, 1], #[(-3 : ℝ), 2]⟩ : Csc ℝ) #[7, 7] :=
  dense_csc_colNorms _ _ (check_format_canonical _ (by rfl)) rfl

/-- [F] `row_norms` with `norms.len = m` on a canonical matrix whose `colptr` starts at 0: the
dense code on `ofCsc M` returns the same vector. -/
theorem dense_csc_rowNorms [Field α] [LinearOrder α] [IsStrictOrderedRing α] [FloatLike α]
    [LawfulFloatLike α] (M : Csc α) (norms : Array α) (hM : Canonical M)
    (h0 : M.colptr.getD 0 0 = 0) (hs : norms.size = M.m) :
    Dense.rowNorms (ofCsc M) norms = Csc.rowNorms M norms := by
  obtain ⟨v, h1, h2, h3⟩ := Clarabel.C16.rowNorms_spec M norms hM h0 hs
  exact rowNorms_ofCsc M norms v hM hs h1 h2 h3

example : Dense.rowNorms (ofCsc (⟨2, 2, #[0, 1, 2], #[0, 1], #[(-3 : ℝ), 2]⟩ : Csc ℝ)) #[7, 7]
    = Csc.rowNorms (⟨2, 2, #[0, 1, 2], #[0, 1], #[(-3 : ℝ), 2]⟩ : Csc ℝ) #[7, 7] :=
  dense_csc_rowNorms _ _ (check_format_canonical _ (by rfl)) rfl rfl

/-- [F] `col_norms_no_reset` with `norms.len = n` and every incoming slot `≥ 0`, on a canonical
matrix: the dense code on `ofCsc M` returns the same vector.  (The sign hypothesis is needed:
`dense_csc_colNormsNoReset_negative_slot`.) -/
theorem dense_csc_colNormsNoReset [Field α] [LinearOrder α] [IsStrictOrderedRing α] [FloatLike α]
    [LawfulFloatLike α] (M : Csc α) (norms : Array α) (hM : Canonical M)
    (hs : norms.size = M.n) (hpos : ∀ j (hj : j < norms.size), 0 ≤ norms[j]) :
    Dense.colNormsNoReset (ofCsc M) norms = Csc.colNormsNoReset M norms := by
  obtain ⟨v, h1, h2, h3⟩ := Clarabel.C16.colNormsNoReset_spec M norms hM hs
  exact colNormsNoReset_ofCsc M norms v hM hs hpos h1 h2 h3

example : Dense.colNormsNoReset (ofCsc (⟨2, 2, #[0, 1, 2], #[0, 1], #[(-3 : ℝ), 2]⟩ : Csc ℝ)) #[7, 0]
    = Csc.colNormsNoReset (⟨2, 2, #[0, 1, 2], #[0, 1], #[(-3 : ℝ), 2]⟩ : Csc ℝ) #[7, 0] :=
  dense_csc_colNormsNoReset _ _ (check_format_canonical _ (by rfl)) rfl (by
    intro j hj
    have hj' : j < 2 := hj
    rcases (by omega : j = 0 ∨ j = 1) with rfl | rfl <;> norm_num)

/-- [F] `row_norms_no_reset` with `norms.len = m` and every incoming slot `≥ 0`, on a canonical
matrix whose `colptr` starts at 0: the dense code on `ofCsc M` returns the same vector. -/
theorem dense_csc_rowNormsNoReset [Field α] [LinearOrder α] [IsStrictOrderedRing α] [FloatLike α]
    [LawfulFloatLike α] (M : Csc α) (norms : Array α) (hM : Canonical M)
    (h0 : M.colptr.getD 0 0 = 0) (hs : norms.size = M.m)
    (hpos : ∀ i (hi : i < norms.size), 0 ≤ norms[i]) :
    Dense.rowNormsNoReset (ofCsc M) norms = Csc.rowNormsNoReset M norms := by
  obtain ⟨v, h1, h2, h3⟩ := Clarabel.C16.rowNormsNoReset_spec M norms hM h0 hs
  exact rowNormsNoReset_ofCsc M norms v hM hs hpos h1 h2 h3

example : Dense.rowNormsNoReset (ofCsc (⟨2, 2, #[0, 1, 2], #[0, 1], #[(-3 : ℝ), 2]⟩ : Csc ℝ)) #[7, 0]
    = Csc.rowNormsNoReset (⟨2, 2, #[0, 1, 2], #[0, 1], #[(-3 : ℝ), 2]⟩ : Csc ℝ) #[7, 0] :=
  dense_csc_rowNormsNoReset _ _ (check_format_canonical _ (by rfl)) rfl rfl (by
    intro i hi
    have hi' : i < 2 := hi
    rcases (by omega : i = 0 ∨ i = 1) with rfl | rfl <;> norm_num)

/-- [F] the sign hypothesis of `dense_csc_colNormsNoReset` is needed: on the 1×1 zero matrix
(no stored entry) with the incoming slot `-1` the CSC code leaves `-1` (it only looks at stored
values), the dense code returns `max(-1, ‖column‖∞) = 0`. -/
theorem dense_csc_colNormsNoReset_negative_slot :
    Csc.colNormsNoReset (⟨1, 1, #[0, 0], #[], #[]⟩ : Csc ℝ) #[-1] = .ok #[-1] ∧
    Dense.colNormsNoReset (ofCsc (⟨1, 1, #[0, 0], #[], #[]⟩ : Csc ℝ)) #[-1] = .ok #[0] := by
  have hM : Canonical (⟨1, 1, #[0, 0], #[], #[]⟩ : Csc ℝ) := check_format_canonical _ (by rfl)
  constructor
  · obtain ⟨v, h1, h2, h3⟩ := Clarabel.C16.colNormsNoReset_spec _ #[-1] hM rfl
    rw [h1]
    congr 1
    obtain ⟨r, hr, _, _, hr3⟩ := h3 0 (by decide)
    have hcol : (⟨1, 1, #[0, 0], #[], #[]⟩ : Csc ℝ).col 0 = [] := by rfl
    rw [hcol] at hr3
    have hr' : r = -1 := by
      rcases hr3 with h | h
      · rw [h]; rfl
      · simp at h
    rw [hr'] at hr
    apply Array.ext
    · rw [h2]; rfl
    · intro k hk1 hk2
      have hk : k = 0 := by
        have : k < 1 := by simpa using hk2
        omega
      subst hk
      rw [Array.getElem?_eq_getElem hk1] at hr
      have := Option.some.inj hr
      rw [this]; rfl
  · obtain ⟨w, h1, h2, h3⟩ := Dense.colNormsNoReset_spec
      (ofCsc (⟨1, 1, #[0, 0], #[], #[]⟩ : Csc ℝ)) #[-1] (ofCsc_wf _) (by decide)
    rw [h1]
    congr 1
    obtain ⟨N, hN, hw⟩ := h3 0 (by decide)
    have hcol : (⟨1, 1, #[0, 0], #[], #[]⟩ : Csc ℝ).col 0 = [] := by rfl
    have hz : (⟨1, 1, #[0, 0], #[], #[]⟩ : Csc ℝ).toDense 0 0 = 0 := by
      rcases toDense_cases hM 0 (j := 0) (by decide) with h | ⟨e, he, _⟩
      · exact h
      · rw [hcol] at he; simp at he
    have hN0 : N = 0 := by
      rcases hN.2.2 with h | h
      · exact h
      · rw [colAbs_ofCsc _ (by decide)] at h
        obtain ⟨i, hi, rfl⟩ := List.mem_map.mp h
        have hi0 : i = 0 := by
          have : i < 1 := List.mem_range.mp hi
          omega
        rw [hi0, hz, abs_zero]
    have hmax : max (#[(-1 : ℝ)][0]) N = 0 := by
      rw [hN0]; exact max_eq_right (by norm_num)
    rw [hmax] at hw
    apply Array.ext
    · rw [h2]; rfl
    · intro k hk1 hk2
      have hk : k = 0 := by
        have : k < 1 := by simpa using hk2
        omega
      subst hk
      rw [Array.getElem?_eq_getElem hk1] at hw
      have := Option.some.inj hw
      rw [this]; rfl

/-- [F] `col_norms_sym` with `norms.len = n` on a canonical, square, upper triangular matrix
all of whose stored values are `≥ 0`: the dense code on `ofCsc M` returns the same vector.
(The dense code takes no absolute value, so the sign hypothesis is needed:
`dense_colNormsSym_no_abs` / `dense_csc_colNormsSym_differs`.) -/
theorem dense_csc_colNormsSym [Field α] [LinearOrder α] [IsStrictOrderedRing α] [FloatLike α]
    [LawfulFloatLike α] (M : Csc α) (norms : Array α) (hM : Canonical M) (hsq : M.m = M.n)
    (htri : M.isTriu = true) (hs : norms.size = M.n) (hnn : ∀ v ∈ M.nzval.toList, 0 ≤ v) :
    Dense.colNormsSym (ofCsc M) norms = Csc.colNormsSym M norms := by
  obtain ⟨v, h1, h2, h3⟩ := Clarabel.C16.colNormsSym_spec M norms hM hsq hs
  exact colNormsSym_ofCsc M norms v hM hsq (col_le_of_isTriu hM htri) hs
    (fun j _ e he => hnn _ (mem_col_nzval M j e he)) h1 h2 h3

example : Dense.colNormsSym (ofCsc (⟨2, 2, #[0, 1, 3], #[0, 0, 1], #[(3 : ℝ), 2, 1]⟩ : Csc ℝ)) #[9, 9]
    = Csc.colNormsSym (⟨2, 2, #[0, 1, 3], #[0, 0, 1], #[(3 : ℝ), 2, 1]⟩ : Csc ℝ) #[9, 9] :=
  dense_csc_colNormsSym _ _ (check_format_canonical _ (by rfl)) rfl (by rfl) rfl (by
    intro v hv
    simp only [List.mem_cons, List.not_mem_nil, or_false] at hv
    rcases hv with rfl | rfl | rfl <;> norm_num)

/-- [F] without the sign hypothesis the two `col_norms_sym` differ: on the 1×1 matrix `[-3]`
the CSC code returns `3` (`dense_colNormsSym_no_abs`: its dense twin returns `0`). -/
theorem dense_csc_colNormsSym_differs :
    Csc.colNormsSym (⟨1, 1, #[0, 1], #[0], #[(-3 : ℝ)]⟩ : Csc ℝ) #[0] = .ok #[3] ∧
    Dense.colNormsSym (ofCsc (⟨1, 1, #[0, 1], #[0], #[(-3 : ℝ)]⟩ : Csc ℝ)) #[0] = .ok #[0] := by
  have hM : Canonical (⟨1, 1, #[0, 1], #[0], #[(-3 : ℝ)]⟩ : Csc ℝ) := check_format_canonical _ (by rfl)
  have hcol : (⟨1, 1, #[0, 1], #[0], #[(-3 : ℝ)]⟩ : Csc ℝ).col 0 = [(0, -3)] := by rfl
  constructor
  · obtain ⟨v, h1, h2, h3⟩ := Clarabel.C16.colNormsSym_spec _ #[0] hM rfl rfl
    rw [h1]
    congr 1
    obtain ⟨r, hr, hr0, hr2, hr3⟩ := h3 0 (by decide)
    have hr' : r = 3 := by
      have hle : |(-3 : ℝ)| ≤ r := hr2 0 (by decide) (0, -3) (by rw [hcol]; simp) (Or.inl rfl)
      have h3' : |(-3 : ℝ)| = 3 := by norm_num
      rw [h3'] at hle
      rcases hr3 with h | ⟨j, hj, e, he, _, h⟩
      · rw [h] at hle; norm_num at hle
      · have hj0 : j = 0 := by
          have : j < 1 := hj
          omega
        subst hj0
        rw [hcol] at he
        have : e = (0, -3) := by simpa using he
        rw [h, this]; exact h3'
    rw [hr'] at hr
    apply Array.ext
    · rw [h2]; rfl
    · intro k hk1 hk2
      have hk : k = 0 := by
        have : k < 1 := by simpa using hk2
        omega
      subst hk
      rw [Array.getElem?_eq_getElem hk1] at hr
      have := Option.some.inj hr
      rw [this]; rfl
  · have : ofCsc (⟨1, 1, #[0, 1], #[0], #[(-3 : ℝ)]⟩ : Csc ℝ) = ⟨1, 1, #[-3]⟩ := by
      apply ext_at (ofCsc (⟨1, 1, #[0, 1], #[0], #[(-3 : ℝ)]⟩ : Csc ℝ)) ⟨1, 1, #[-3]⟩
        (ofCsc_wf _) (by rfl) rfl rfl
      intro i j hi hj
      have hi0 : i = 0 := by have : i < 1 := hi; omega
      have hj0 : j = 0 := by have : j < 1 := hj; omega
      subst hi0 hj0
      rw [ofCsc_at _ (by decide) (by decide)]
      have := toDense_of_mem hM (j := 0) (by decide) (e := (0, -3)) (by rw [hcol]; simp)
      rw [this]
      rfl
    rw [this]
    exact dense_colNormsSym_no_abs


end Clarabel.C16
