/-
  C07 — iterates stay strictly inside the cones; the trajectory does not depend on the
  iteration budget.

  [F] theorems: exact statements in any linear ordered field (they idealise f64 rounding).
  [S] theorems: structural, valid for `Float`.
  Not carried by a theorem: interior-ness for second-order / PSD / nonsymmetric cones after
  the composite minimum (needs the cone step lengths of C15 and cone convexity); the harness
  oracle `traj.margin` exercises it on every observed iterate.
-/
import ClarabelProofs.Lemmas.LoopPrefix
import ClarabelProofs.Lemmas.LoopStep
import ClarabelProofs.Lemmas.LoopSoc
import ClarabelProofs.Props.C15
import ClarabelProofs.Lemmas.SolverModelPrefix
import ClarabelProofs.Lemmas.SolverModelExample

namespace Clarabel.C07
open Clarabel Clarabel.Loop Clarabel.Loop.Step

section field
variable {α : Type} [Field α] [LinearOrder α] [IsStrictOrderedRing α] [FloatLike α] [LawfulFloatLike α]

/-- what the theorems need from `cones.step_length`: it returns step lengths in `[0, αmax]` -/
def ConeStepOk (coneStep : α → α × α) : Prop :=
  ∀ amax, 0 ≤ amax → 0 ≤ (coneStep amax).1 ∧ (coneStep amax).1 ≤ amax
    ∧ 0 ≤ (coneStep amax).2 ∧ (coneStep amax).2 ≤ amax

/-- [F] `C07.tau_kappa_pos`: with `τ, κ > 0` and `0 < max_step_fraction < 1`, the combined step
length `α = max_step_fraction · min(αz, αs)` computed by `calc_step_length` satisfies
`0 ≤ α ≤ max_step_fraction` and keeps `τ + αΔτ > 0`, `κ + αΔκ > 0`. -/
theorem tau_kappa_pos (tau kappa dtau dkappa maxValue f : α) (coneStep : α → α × α)
    (hτ : 0 < tau) (hκ : 0 < kappa) (hm : 0 < maxValue) (hf0 : 0 < f) (hf1 : f < 1)
    (hc : ConeStepOk coneStep) :
    0 ≤ calcStepLength tau kappa dtau dkappa maxValue coneStep true f
      ∧ calcStepLength tau kappa dtau dkappa maxValue coneStep true f ≤ f
      ∧ 0 < addStepScalar tau dtau (calcStepLength tau kappa dtau dkappa maxValue coneStep true f)
      ∧ 0 < addStepScalar kappa dkappa (calcStepLength tau kappa dtau dkappa maxValue coneStep true f) := by
  obtain ⟨hp, h1, hrt, hrk⟩ := alphaMax_bounds tau kappa dtau dkappa maxValue hτ hκ hm
  obtain ⟨c1, c2, c3, c4⟩ := hc _ (le_of_lt hp)
  have hcalc : calcStepLength tau kappa dtau dkappa maxValue coneStep true f
      = min (coneStep (alphaMax tau kappa dtau dkappa maxValue)).1
            (coneStep (alphaMax tau kappa dtau dkappa maxValue)).2 * f := by
    simp [calcStepLength, LawfulFloatLike.fmin_eq]
  rw [hcalc]
  set mn := min (coneStep (alphaMax tau kappa dtau dkappa maxValue)).1
            (coneStep (alphaMax tau kappa dtau dkappa maxValue)).2 with hmn
  have hmn0 : 0 ≤ mn := le_min c1 c3
  have hmn1 : mn ≤ alphaMax tau kappa dtau dkappa maxValue := le_trans (min_le_left _ _) c2
  have ha0 : 0 ≤ mn * f := mul_nonneg hmn0 (le_of_lt hf0)
  refine ⟨ha0, ?_, ?_, ?_⟩
  · calc mn * f ≤ 1 * f := mul_le_mul_of_nonneg_right (le_trans hmn1 h1) (le_of_lt hf0)
      _ = f := one_mul f
  · unfold addStepScalar
    apply scalar_pos tau dtau maxValue (mn * f) f hτ ha0 hf1 hf0
    rw [mul_comm]
    exact mul_le_mul_of_nonneg_left (le_trans hmn1 hrt) (le_of_lt hf0)
  · unfold addStepScalar
    apply scalar_pos kappa dkappa maxValue (mn * f) f hκ ha0 hf1 hf0
    rw [mul_comm]
    exact mul_le_mul_of_nonneg_left (le_trans hmn1 hrk) (le_of_lt hf0)

/-- [F] `NonnegativeCone::step_length` meets `ConeStepOk` on strictly positive `z, s`
(so `tau_kappa_pos` applies to LP/QP iterates as they are computed). -/
theorem nn_coneStepOk (z dz s ds : Array α) (hz : ∀ v ∈ z.toList, 0 < v) (hs : ∀ v ∈ s.toList, 0 < v) :
    ConeStepOk (nnStepLength z dz s ds) := by
  intro amax ha
  unfold nnStepLength nnStep
  simp only [nnFold_eq]
  refine ⟨nnFold_nonneg _ _ ha ?_, (nnFold_le _ _).1, nnFold_nonneg _ _ ha ?_, (nnFold_le _ _).1⟩
  · intro p hp; exact hz p.1 (List.of_mem_zip hp).1
  · intro p hp; exact hs p.1 (List.of_mem_zip hp).1

/-- [F] `C07.interior_preserved` (nonnegative cone): every component `v > 0` moved by
`α·dv` with `α ≤ f · nnStep(v, dv, αmax)`, `0 ≤ α`, `f < 1`, stays strictly positive. -/
theorem interior_preserved_nn (v dv : Array α) (amax a f : α) (hv : ∀ p ∈ v.toList.zip dv.toList, 0 < p.1)
    (ha0 : 0 ≤ a) (hf0 : 0 < f) (hf1 : f < 1) (ha : a ≤ f * nnStep v dv amax) :
    ∀ p ∈ v.toList.zip dv.toList, 0 < p.1 + a * p.2 := by
  intro p hp
  have hpos := hv p hp
  by_cases hd : p.2 < 0
  · have hle : nnStep v dv amax ≤ (-p.1) / p.2 := by
      unfold nnStep; rw [nnFold_eq]; exact (nnFold_le _ _).2 p hp hd
    have : a ≤ f * ratio p.1 p.2 1 := by
      unfold ratio; rw [if_pos hd]
      exact le_trans ha (mul_le_mul_of_nonneg_left hle (le_of_lt hf0))
    exact scalar_pos p.1 p.2 1 a f hpos ha0 hf1 hf0 this
  · have : 0 ≤ a * p.2 := mul_nonneg ha0 (not_lt.mp hd)
    linarith

/-- [F] `C07.step_in_unit`: a step length that `strategy_checkpoint_small_step` lets through
(`NoUpdate`, the only path to `add_step`) is strictly positive; the value produced by
`calc_step_length` is at most `max_step_fraction ≤ 1`, and barrier backtracking by
`linesearch_backtrack_step ∈ (0,1]` keeps it in `(0, α]`. -/
theorem step_in_unit (cfg : Config α) (a : α) (sc : Scaling) (h : cpSmallStep cfg a sc = .NoUpdate) :
    0 < a ∧ cfg.minTerminateStepLength < a := by
  unfold cpSmallStep at h
  split at h
  · cases h
  · split at h
    · cases h
    · rename_i hle
      rw [LawfulFloatLike.fmax_eq] at hle
      have := not_le.mp hle
      exact ⟨lt_of_le_of_lt (le_max_left _ _) this, lt_of_le_of_lt (le_max_right _ _) this⟩

theorem backtrack_in_unit (step a : α) (ok : α → Bool) (hs0 : 0 < step) (hs1 : step ≤ 1)
    (ha0 : 0 < a) (ha1 : a ≤ 1) :
    0 < backtrack step ok 50 a ∧ backtrack step ok 50 a ≤ 1 := by
  obtain ⟨h1, h2⟩ := backtrack_bounds step ok hs0 hs1 50 a ha0
  exact ⟨h1, le_trans h2 ha1⟩

/-- non-vacuity over `ℝ`: τ = κ = 1, Δτ = −2, Δκ = 1, no cone restriction: α = 0.99/2. -/
example : calcStepLength (1 : ℝ) 1 (-2) 1 100 (fun a => (a, a)) true (99 / 100) = 99 / 200 := by
  simp [calcStepLength, alphaMax, ratio]
  norm_num
example : ConeStepOk (fun a : ℝ => (a, a)) := fun a ha => ⟨ha, le_refl _, ha, le_refl _⟩

end field

section soc
open Clarabel.Soc

/-- [R] `C07.interior_preserved` (second-order cone): for `x ∈ int K`, any direction `y` and
`αmax ≥ 0`, with `t` the value `_step_length_soc_component` returns (safe and tight by
`C15.soc_step_safe_tight`), every step `0 ≤ a ≤ f·t` with `max_step_fraction = f < 1` lands
strictly inside the cone: `x + a·y ∈ int K`. -/
theorem interior_preserved_soc (x0 : ℝ) (x1 : List ℝ) (y0 : ℝ) (y1 : List ℝ) (amax f a : ℝ)
    (hx : Interior x0 x1) (hlen : x1.length = y1.length) (ham : 0 ≤ amax)
    (hf0 : 0 < f) (hf1 : f < 1) (ha0 : 0 ≤ a) :
    ∃ t, stepLengthComponentCore x0 x1 y0 y1 amax = .ok t ∧ 0 ≤ t ∧ t ≤ amax ∧
      (a ≤ f * t → Interior (x0 + a * y0) (axpyL x1 a y1)) := by
  obtain ⟨t, h1, h2, h3, h4, _⟩ := C15.soc_step_safe_tight x0 x1 y0 y1 amax hx hlen ham
  refine ⟨t, h1, h2, h3, fun hle => ?_⟩
  by_cases ht : t = 0
  · have : a = 0 := by rw [ht] at hle; simp at hle; linarith
    rw [this, axpyL_zero x1 y1 hlen]; simpa using hx
  · have htpos : 0 < t := lt_of_le_of_ne h2 (Ne.symm ht)
    have hat : a < t := lt_of_le_of_lt hle (by nlinarith)
    exact interior_of_segment x0 x1 y0 y1 t a hx hlen (h4 t h2 (le_refl _)) ha0 hat

/-- non-vacuity: `x = (2, [1])`, `y = (−1, [0])`, `αmax = 1`: interior start, step towards the boundary -/
example : Interior (2 : ℝ) [1] := by constructor <;> norm_num [dotL, Vec.dot]

end soc

section structural
set_option linter.unusedSectionVars false
variable {α : Type} [Mul α] [Div α] [Neg α] [OfNat α 0] [OfNat α 1]
  [LT α] [DecidableLT α] [LE α] [DecidableLE α] [BEq α] [FloatLike α]

/-- [S] `C07.prefix` (loop): the loop body reads `max_iter` only inside `check_termination`.
Hence, with the same answers of the numerics, a run with budget `k = cfg.maxIter ≤ k'` either
does exactly what the run with budget `k'` does, or it goes through the same passes as the
longer run up to the first check with `iter = k`, stops there with `MaxIterations`, and
hands the iterate of that state — the `k`-th iterate of the longer run — to post-processing. -/
theorem prefix_loop (cfg : Config α) (k' : Nat) (hk : cfg.maxIter ≤ k') (z : α)
    (os : List (PassOracle α)) (s : State α) (h : loop cfg os (initState cfg z) = .done s) :
    PrefixRel cfg k' os (initState cfg z) s :=
  Loop.prefix_loop cfg k' hk os (initState cfg z) s (Nat.zero_le _) h

/-- [S] `C07.prefix` (returned point): in the second case the point handed to `unscale` by the
short run is the symbolic iterate of the common state, i.e. the same sequence of
`add_step`s (pass numbers and step lengths) as in the longer run. -/
theorem prefix_returned_iterate (cfg : Config α) (k' : Nat) (hk : cfg.maxIter ≤ k') (z : α)
    (os : List (PassOracle α)) (r : Result α) (h : solve cfg z os = .done r) :
    (∃ s, loop (withBudget cfg k') os (initState cfg z) = .done s ∧ r = finish cfg s)
      ∨ ∃ pre o rest sk, os = pre ++ o :: rest
          ∧ advance (withBudget cfg k') pre (initState cfg z) = some sk
          ∧ advance cfg pre (initState cfg z) = some sk
          ∧ sk.iter = cfg.maxIter ∧ r.vars = sk.vars := by
  unfold solve at h
  cases hl : loop cfg os (initState cfg z) with
  | exhausted s => rw [hl] at h; cases h
  | panic m => rw [hl] at h; cases h
  | done s =>
    rw [hl] at h
    cases h
    cases prefix_loop cfg k' hk z os s hl with
    | same hs => exact Or.inl ⟨s, hs, rfl⟩
    | budget pre o rest sk hos h1 h2 h3 h4 _ _ =>
      exact Or.inr ⟨pre, o, rest, sk, hos, h2, h1, h3, h4⟩

/-- [S] the initial state does not depend on the budget -/
theorem init_budget_independent (cfg : Config α) (k' : Nat) (z : α) :
    initState (withBudget cfg k') z = initState cfg z := rfl

end structural

end Clarabel.C07

/-! ## The full model (`ClarabelModel/Solver/Solve.lean`: `DefaultSolver::new` + `solve()`)

Budget independence stated on `SolverSt.runSolve` itself (not on the skeleton): the executable
model that the channels `solve.full / solve.twice` of `harness/src/bin/solver.rs` compare bit for
bit with the implementation.  Class [S]: holds at `Float`.  Helper lemmas:
`Lemmas/SolverModelPrefix.lean`. -/
namespace Clarabel.C07
open Clarabel Clarabel.Solver

section full
set_option linter.unusedSectionVars false
variable {α : Type} [Add α] [Sub α] [Mul α] [Div α] [Neg α] [OfNat α 0] [OfNat α 1] [OfNat α 2]
  [OfNat α 100] [OfNat α 1000] [LT α] [DecidableLT α] [LE α] [DecidableLE α] [BEq α] [FloatLike α]

/-- [S] `C07.full_pass_budget_independent`: `max_iter` enters one pass of the full model through
the test `max_iter == iterations` of `check_termination` only.  A pass from a loop state `L` is
the same computation — same result or same error, bit for bit — under the budgets `k` and `k'`,
unless the numbers of this pass give no verdict (`verdictOf … = Unsolved`) and the iteration
counter sits exactly at one of the two budgets. -/
theorem full_pass_budget_independent (st : Solver.Settings α) (k k' : Nat) (L : LoopSt α)
    (h : ∀ r mu i1, topNumerics L.S L.iter = .ok (r, mu, i1) →
      verdictOf i1 r.dot_bz r.dot_qx st.info L.iter ≠ .unsolved ∨ (k ≠ L.iter ∧ k' ≠ L.iter)) :
    pass (withMaxIter st k) L = pass (withMaxIter st k') L :=
  pass_budget_indep st k k' L h

/-- [S] `C07.full_prefix`: budget independence of the full model.  Let `k ≤ k'` and let the run
with `max_iter = k` succeed with final loop state `Lk`.  Then both runs start their loop from the
same state `initLoopSt S0` (`default_start` does not read the budget) and

* the run with `max_iter = k'` reaches, through passes that all continue, a top-of-pass state `Lm`
  that the short run reaches too — the *same* loop state: every iterate, residual, scaling,
  KKT factor and trajectory record up to there is identical, bit for bit
  (`Reach (withMaxIter st k) … Lm` and `Reach (withMaxIter st k') … Lm`);
* the short run leaves its loop in the pass from `Lm`; either the long run does exactly the same in
  that pass (`FullPrefix.same`; then the long run returns the very same loop state:
  `S.runSolve (withMaxIter st k') = .ok Lk`), or (`FullPrefix.budget`) `Lm.iter = k`, the numbers give no
  verdict, the short run stops there with `MaxIterations` and hands `Lm`'s iterate —
  the `k`-th iterate of the longer run — unchanged to post-processing
  (`Lk.S.variables = Lm.S.variables`, `Lk.iter = k`, one more trajectory record whose iterate is
  that very point). -/
theorem full_prefix (S : SolverSt α) (st : Solver.Settings α) (k k' : Nat) (hk : k ≤ k') {Lk : LoopSt α}
    (h : S.runSolve (withMaxIter st k) = .ok Lk) :
    ∃ S0, (resetInfo S).defaultStart st = .ok S0
      ∧ FullPrefix st k k' (initLoopSt S0) Lk
      ∧ (S.runSolve (withMaxIter st k') = .ok Lk ∨ Lk.S.info.status = .maxIterations ∧ Lk.iter = k) :=
  runSolve_prefix S st k k' hk h

/-- [S] the start of a solve does not depend on the budget -/
theorem full_start_budget_independent (S : SolverSt α) (st : Solver.Settings α) (k : Nat) :
    S.defaultStart (withMaxIter st k) = S.defaultStart st := rfl

end full

/-! non-vacuity: the example of `Lemmas/SolverModelExample.lean`, evaluated by the kernel at `Int`:
the run with `max_iter = 0` (one pass, `MaxIterations`) is a prefix of the run with `max_iter = 3`
(two passes, `Solved` after one iteration), and returns the start point -/
section fullExamples
open Clarabel.Solver.Example
attribute [local instance] intFloatLike

example : withMaxIter (st 3) 0 = st 0 := rfl
example : (run 0).toOption.map (fun r => (r.passes, r.S.solution.status, r.S.solution.iterations))
    = some (1, .maxIterations, 0) := run0
example : (run 3).toOption.map (fun r => (r.passes, r.S.solution.status, r.S.solution.iterations))
    = some (2, .solved, 1) := run3
/-- the iterate of the first pass record is the same in both runs -/
example : (run 0).toOption.map (fun r => r.traj.head?.map (fun p => (p.vars.x.toList, p.vars.s.toList, p.vars.z.toList)))
    = (run 3).toOption.map (fun r => r.traj.head?.map (fun p => (p.vars.x.toList, p.vars.s.toList, p.vars.z.toList))) := by
  decide +kernel

end fullExamples

end Clarabel.C07
