/-
  C07 — iterates stay strictly inside the cones; the trajectory does not depend on the
  iteration budget.

  [F] theorems: exact statements in any linear ordered field (they idealise f64 rounding).
  [S] theorems: structural, valid for `Float`.
  [R] theorems: real analysis (exp / log / rpow), also idealising rounding.

  Round 3 (section "composite cones" at the end): interior-ness after the composite minimum is now
  carried by theorems for zero / nonnegative / second-order (any dimension) / exponential / power
  cones at full strength (`interior_preserved`, `all_iterates_interior*`), for PSD cones in the
  scaled space under C15's spectral contract, and for generalised power cones only up to the
  cone's own accepted candidates (`interior_preserved_mixed`; the stepped point would need
  convexity of that cone).  f64 rounding stays with the harness oracle `traj.margin`.

  Round 4 (last section): generalised power blocks at the stepped point itself (the open cone and
  its dual are convex) and PSD blocks in original coordinates (congruence with the NT scaling):
  `interior_preserved_all_cones`, `interior_preserved_all_nonsym`, `all_iterates_interior_genpow`.

  Round 5 (last section): `unit_initialization` of generalised power blocks is interior, so the
  trajectory theorem for all nonsymmetric cones starts from `unit_initialization`
  (`all_iterates_interior_all_nonsym`); PSD blocks enter the trajectory theorem under the named
  per-pass hypothesis `PsdPassOk` (`accepted_step_interior_all_cones`,
  `all_iterates_interior_all_cones`).
-/
import ClarabelProofs.Lemmas.LoopPrefix
import ClarabelProofs.Lemmas.LoopStep
import ClarabelProofs.Lemmas.LoopSoc
import ClarabelProofs.Props.C15
import ClarabelProofs.Lemmas.SolverModelPrefix
import ClarabelProofs.Props.C07NS
import ClarabelProofs.Lemmas.SolverModelExample
import ClarabelProofs.Lemmas.StepKInterior
import ClarabelProofs.Lemmas.StepKInit
import ClarabelProofs.Lemmas.StepKMixed
import ClarabelProofs.Lemmas.StepKAllCones
import ClarabelProofs.Lemmas.StepKAccept
import ClarabelProofs.Lemmas.LoopSwitch
import ClarabelProofs.Lemmas.StepKTotal
import ClarabelProofs.Lemmas.StepKInitGenPow
import ClarabelProofs.Lemmas.StepKPsdTraj
import ClarabelProofs.Lemmas.StepKPsdLapack
import ClarabelProofs.Lemmas.StepKPsdInit
import ClarabelProofs.Lemmas.StepKPsdLapackExample
import ClarabelProofs.Lemmas.StepKPsdEig

namespace Clarabel.C07
open Clarabel Clarabel.Loop Clarabel.Loop.Step

section field
variable {α : Type} [Field α] [LinearOrder α] [IsStrictOrderedRing α] [FloatLike α] [LawfulFloatLike α]

/-- what the theorems need from `cones.step_length`: it returns step lengths in `[0, αmax]` -/
def ConeStepOk (coneStep : α → α × α) : Prop :=
  ∀ amax, 0 ≤ amax → 0 ≤ (coneStep amax).1 ∧ (coneStep amax).1 ≤ amax
    ∧ 0 ≤ (coneStep amax).2 ∧ (coneStep amax).2 ≤ amax

/-- [F] `C07.tau_kappa_pos`: with `τ, κ > 0` and `0 < max_step_fraction < 1`, the combined step
length `α = max_step_fraction · min(αz, αs)` computed by `calc_step_length` satisfies
`0 ≤ α ≤ max_step_fraction` and keeps `τ + αΔτ > 0`, `κ + αΔκ > 0`. -/
theorem tau_kappa_pos (tau kappa dtau dkappa maxValue f : α) (coneStep : α → α × α)
    (hτ : 0 < tau) (hκ : 0 < kappa) (hm : 0 < maxValue) (hf0 : 0 < f) (hf1 : f < 1)
    (hc : ConeStepOk coneStep) :
    0 ≤ calcStepLength tau kappa dtau dkappa maxValue coneStep true f
      ∧ calcStepLength tau kappa dtau dkappa maxValue coneStep true f ≤ f
      ∧ 0 < addStepScalar tau dtau (calcStepLength tau kappa dtau dkappa maxValue coneStep true f)
      ∧ 0 < addStepScalar kappa dkappa (calcStepLength tau kappa dtau dkappa maxValue coneStep true f) := by
  obtain ⟨hp, h1, hrt, hrk⟩ := alphaMax_bounds tau kappa dtau dkappa maxValue hτ hκ hm
  obtain ⟨c1, c2, c3, c4⟩ := hc _ (le_of_lt hp)
  have hcalc : calcStepLength tau kappa dtau dkappa maxValue coneStep true f
      = min (coneStep (alphaMax tau kappa dtau dkappa maxValue)).1
            (coneStep (alphaMax tau kappa dtau dkappa maxValue)).2 * f := by
    simp [calcStepLength, LawfulFloatLike.fmin_eq]
  rw [hcalc]
  set mn := min (coneStep (alphaMax tau kappa dtau dkappa maxValue)).1
            (coneStep (alphaMax tau kappa dtau dkappa maxValue)).2 with hmn
  have hmn0 : 0 ≤ mn := le_min c1 c3
  have hmn1 : mn ≤ alphaMax tau kappa dtau dkappa maxValue := le_trans (min_le_left _ _) c2
  have ha0 : 0 ≤ mn * f := mul_nonneg hmn0 (le_of_lt hf0)
  refine ⟨ha0, ?_, ?_, ?_⟩
  · calc mn * f ≤ 1 * f := mul_le_mul_of_nonneg_right (le_trans hmn1 h1) (le_of_lt hf0)
      _ = f := one_mul f
  · unfold addStepScalar
    apply scalar_pos tau dtau maxValue (mn * f) f hτ ha0 hf1 hf0
    rw [mul_comm]
    exact mul_le_mul_of_nonneg_left (le_trans hmn1 hrt) (le_of_lt hf0)
  · unfold addStepScalar
    apply scalar_pos kappa dkappa maxValue (mn * f) f hκ ha0 hf1 hf0
    rw [mul_comm]
    exact mul_le_mul_of_nonneg_left (le_trans hmn1 hrk) (le_of_lt hf0)

/-- [F] `NonnegativeCone::step_length` meets `ConeStepOk` on strictly positive `z, s`
(so `tau_kappa_pos` applies to LP/QP iterates as they are computed). -/
theorem nn_coneStepOk (z dz s ds : Array α) (hz : ∀ v ∈ z.toList, 0 < v) (hs : ∀ v ∈ s.toList, 0 < v) :
    ConeStepOk (nnStepLength z dz s ds) := by
  intro amax ha
  unfold nnStepLength nnStep
  simp only [nnFold_eq]
  refine ⟨nnFold_nonneg _ _ ha ?_, (nnFold_le _ _).1, nnFold_nonneg _ _ ha ?_, (nnFold_le _ _).1⟩
  · intro p hp; exact hz p.1 (List.of_mem_zip hp).1
  · intro p hp; exact hs p.1 (List.of_mem_zip hp).1

/-- [F] `C07.interior_preserved` (nonnegative cone): every component `v > 0` moved by
`α·dv` with `α ≤ f · nnStep(v, dv, αmax)`, `0 ≤ α`, `f < 1`, stays strictly positive. -/
theorem interior_preserved_nn (v dv : Array α) (amax a f : α) (hv : ∀ p ∈ v.toList.zip dv.toList, 0 < p.1)
    (ha0 : 0 ≤ a) (hf0 : 0 < f) (hf1 : f < 1) (ha : a ≤ f * nnStep v dv amax) :
    ∀ p ∈ v.toList.zip dv.toList, 0 < p.1 + a * p.2 := by
  intro p hp
  have hpos := hv p hp
  by_cases hd : p.2 < 0
  · have hle : nnStep v dv amax ≤ (-p.1) / p.2 := by
      unfold nnStep; rw [nnFold_eq]; exact (nnFold_le _ _).2 p hp hd
    have : a ≤ f * ratio p.1 p.2 1 := by
      unfold ratio; rw [if_pos hd]
      exact le_trans ha (mul_le_mul_of_nonneg_left hle (le_of_lt hf0))
    exact scalar_pos p.1 p.2 1 a f hpos ha0 hf1 hf0 this
  · have : 0 ≤ a * p.2 := mul_nonneg ha0 (not_lt.mp hd)
    linarith

/-- [F] `C07.step_in_unit`: a step length that `strategy_checkpoint_small_step` lets through
(`NoUpdate`, the only path to `add_step`) is strictly positive; the value produced by
`calc_step_length` is at most `max_step_fraction ≤ 1`, and barrier backtracking by
`linesearch_backtrack_step ∈ (0,1]` keeps it in `(0, α]`. -/
theorem step_in_unit (cfg : Config α) (a : α) (sc : Scaling) (h : cpSmallStep cfg a sc = .NoUpdate) :
    0 < a ∧ cfg.minTerminateStepLength < a := by
  unfold cpSmallStep at h
  split at h
  · cases h
  · split at h
    · cases h
    · rename_i hle
      rw [LawfulFloatLike.fmax_eq] at hle
      have := not_le.mp hle
      exact ⟨lt_of_le_of_lt (le_max_left _ _) this, lt_of_le_of_lt (le_max_right _ _) this⟩

theorem backtrack_in_unit (step a : α) (ok : α → Bool) (hs0 : 0 < step) (hs1 : step ≤ 1)
    (ha0 : 0 < a) (ha1 : a ≤ 1) :
    0 < backtrack step ok 50 a ∧ backtrack step ok 50 a ≤ 1 := by
  obtain ⟨h1, h2⟩ := backtrack_bounds step ok hs0 hs1 50 a ha0
  exact ⟨h1, le_trans h2 ha1⟩

/-- non-vacuity over `ℝ`: τ = κ = 1, Δτ = −2, Δκ = 1, no cone restriction: α = 0.99/2. -/
example : calcStepLength (1 : ℝ) 1 (-2) 1 100 (fun a => (a, a)) true (99 / 100) = 99 / 200 := by
  simp [calcStepLength, alphaMax, ratio]
  norm_num
example : ConeStepOk (fun a : ℝ => (a, a)) := fun a ha => ⟨ha, le_refl _, ha, le_refl _⟩

end field

section soc
open Clarabel.Soc

/-- [R] `C07.interior_preserved` (second-order cone): for `x ∈ int K`, any direction `y` and
`αmax ≥ 0`, with `t` the value `_step_length_soc_component` returns (safe and tight by
`C15.soc_step_safe_tight`), every step `0 ≤ a ≤ f·t` with `max_step_fraction = f < 1` lands
strictly inside the cone: `x + a·y ∈ int K`. -/
theorem interior_preserved_soc (x0 : ℝ) (x1 : List ℝ) (y0 : ℝ) (y1 : List ℝ) (amax f a : ℝ)
    (hx : Interior x0 x1) (hlen : x1.length = y1.length) (ham : 0 ≤ amax)
    (hf0 : 0 < f) (hf1 : f < 1) (ha0 : 0 ≤ a) :
    ∃ t, stepLengthComponentCore x0 x1 y0 y1 amax = .ok t ∧ 0 ≤ t ∧ t ≤ amax ∧
      (a ≤ f * t → Interior (x0 + a * y0) (axpyL x1 a y1)) := by
  obtain ⟨t, h1, h2, h3, h4, _⟩ := C15.soc_step_safe_tight x0 x1 y0 y1 amax hx hlen ham
  refine ⟨t, h1, h2, h3, fun hle => ?_⟩
  by_cases ht : t = 0
  · have : a = 0 := by rw [ht] at hle; simp at hle; linarith
    rw [this, axpyL_zero x1 y1 hlen]; simpa using hx
  · have htpos : 0 < t := lt_of_le_of_ne h2 (Ne.symm ht)
    have hat : a < t := lt_of_le_of_lt hle (by nlinarith)
    exact interior_of_segment x0 x1 y0 y1 t a hx hlen (h4 t h2 (le_refl _)) ha0 hat

/-- non-vacuity: `x = (2, [1])`, `y = (−1, [0])`, `αmax = 1`: interior start, step towards the boundary -/
example : Interior (2 : ℝ) [1] := by constructor <;> norm_num [dotL, Vec.dot]

end soc

section structural
set_option linter.unusedSectionVars false
variable {α : Type} [Mul α] [Div α] [Neg α] [OfNat α 0] [OfNat α 1]
  [LT α] [DecidableLT α] [LE α] [DecidableLE α] [BEq α] [FloatLike α]

/-- [S] `C07.prefix` (loop): the loop body reads `max_iter` only inside `check_termination`.
Hence, with the same answers of the numerics, a run with budget `k = cfg.maxIter ≤ k'` either
does exactly what the run with budget `k'` does, or it goes through the same passes as the
longer run up to the first check with `iter = k`, stops there with `MaxIterations`, and
hands the iterate of that state — the `k`-th iterate of the longer run — to post-processing. -/
theorem prefix_loop (cfg : Config α) (k' : Nat) (hk : cfg.maxIter ≤ k') (z : α)
    (os : List (PassOracle α)) (s : State α) (h : loop cfg os (initState cfg z) = .done s) :
    PrefixRel cfg k' os (initState cfg z) s :=
  Loop.prefix_loop cfg k' hk os (initState cfg z) s (Nat.zero_le _) h

/-- [S] `C07.prefix` (returned point): in the second case the point handed to `unscale` by the
short run is the symbolic iterate of the common state, i.e. the same sequence of
`add_step`s (pass numbers and step lengths) as in the longer run. -/
theorem prefix_returned_iterate (cfg : Config α) (k' : Nat) (hk : cfg.maxIter ≤ k') (z : α)
    (os : List (PassOracle α)) (r : Result α) (h : solve cfg z os = .done r) :
    (∃ s, loop (withBudget cfg k') os (initState cfg z) = .done s ∧ r = finish cfg s)
      ∨ ∃ pre o rest sk, os = pre ++ o :: rest
          ∧ advance (withBudget cfg k') pre (initState cfg z) = some sk
          ∧ advance cfg pre (initState cfg z) = some sk
          ∧ sk.iter = cfg.maxIter ∧ r.vars = sk.vars := by
  unfold solve at h
  cases hl : loop cfg os (initState cfg z) with
  | exhausted s => rw [hl] at h; cases h
  | panic m => rw [hl] at h; cases h
  | done s =>
    rw [hl] at h
    cases h
    cases prefix_loop cfg k' hk z os s hl with
    | same hs => exact Or.inl ⟨s, hs, rfl⟩
    | budget pre o rest sk hos h1 h2 h3 h4 _ _ =>
      exact Or.inr ⟨pre, o, rest, sk, hos, h2, h1, h3, h4⟩

/-- [S] the initial state does not depend on the budget -/
theorem init_budget_independent (cfg : Config α) (k' : Nat) (z : α) :
    initState (withBudget cfg k') z = initState cfg z := rfl

end structural

end Clarabel.C07

/-! ## The full model (`ClarabelModel/Solver/Solve.lean`: `DefaultSolver::new` + `solve()`)

Budget independence stated on `SolverSt.runSolve` itself (not on the skeleton): the executable
model that the channels `solve.full / solve.twice` of `harness/src/bin/solver.rs` compare bit for
bit with the implementation.  Class [S]: holds at `Float`.  Helper lemmas:
`Lemmas/SolverModelPrefix.lean`. -/
namespace Clarabel.C07
open Clarabel Clarabel.Solver

section full
set_option linter.unusedSectionVars false
variable {α : Type} [Add α] [Sub α] [Mul α] [Div α] [Neg α] [OfNat α 0] [OfNat α 1] [OfNat α 2]
  [OfNat α 100] [OfNat α 1000] [LT α] [DecidableLT α] [LE α] [DecidableLE α] [BEq α] [FloatLike α]

/-- [S] `C07.full_pass_budget_independent`: `max_iter` enters one pass of the full model through
the test `max_iter == iterations` of `check_termination` only.  A pass from a loop state `L` is
the same computation — same result or same error, bit for bit — under the budgets `k` and `k'`,
unless the numbers of this pass give no verdict (`verdictOf … = Unsolved`) and the iteration
counter sits exactly at one of the two budgets. -/
theorem full_pass_budget_independent (st : Solver.Settings α) (k k' : Nat) (L : LoopSt α)
    (h : ∀ r mu i1, topNumerics L.S L.iter = .ok (r, mu, i1) →
      verdictOf i1 r.dot_bz r.dot_qx st.info L.iter ≠ .unsolved ∨ (k ≠ L.iter ∧ k' ≠ L.iter)) :
    pass (withMaxIter st k) L = pass (withMaxIter st k') L :=
  pass_budget_indep st k k' L h

/-- [S] `C07.full_prefix`: budget independence of the full model.  Let `k ≤ k'` and let the run
with `max_iter = k` succeed with final loop state `Lk`.  Then both runs start their loop from the
same state `initLoopSt S0` (`default_start` does not read the budget) and

* the run with `max_iter = k'` reaches, through passes that all continue, a top-of-pass state `Lm`
  that the short run reaches too — the *same* loop state: every iterate, residual, scaling,
  KKT factor and trajectory record up to there is identical, bit for bit
  (`Reach (withMaxIter st k) … Lm` and `Reach (withMaxIter st k') … Lm`);
* the short run leaves its loop in the pass from `Lm`; either the long run does exactly the same in
  that pass (`FullPrefix.same`; then the long run returns the very same loop state:
  `S.runSolve (withMaxIter st k') = .ok Lk`), or (`FullPrefix.budget`) `Lm.iter = k`, the numbers give no
  verdict, the short run stops there with `MaxIterations` and hands `Lm`'s iterate —
  the `k`-th iterate of the longer run — unchanged to post-processing
  (`Lk.S.variables = Lm.S.variables`, `Lk.iter = k`, one more trajectory record whose iterate is
  that very point). -/
theorem full_prefix (S : SolverSt α) (st : Solver.Settings α) (k k' : Nat) (hk : k ≤ k') {Lk : LoopSt α}
    (h : S.runSolve (withMaxIter st k) = .ok Lk) :
    ∃ S0, (resetInfo S).defaultStart st = .ok S0
      ∧ FullPrefix st k k' (initLoopSt S0) Lk
      ∧ (S.runSolve (withMaxIter st k') = .ok Lk ∨ Lk.S.info.status = .maxIterations ∧ Lk.iter = k) :=
  runSolve_prefix S st k k' hk h

/-- [S] the start of a solve does not depend on the budget -/
theorem full_start_budget_independent (S : SolverSt α) (st : Solver.Settings α) (k : Nat) :
    S.defaultStart (withMaxIter st k) = S.defaultStart st := rfl

end full

/-! non-vacuity: the example of `Lemmas/SolverModelExample.lean`, evaluated by the kernel at `Int`:
the run with `max_iter = 0` (one pass, `MaxIterations`) is a prefix of the run with `max_iter = 3`
(two passes, `Solved` after one iteration), and returns the start point -/
section fullExamples
open Clarabel.Solver.Example
attribute [local instance] intFloatLike

example : withMaxIter (st 3) 0 = st 0 := rfl
example : (run 0).toOption.map (fun r => (r.passes, r.S.solution.status, r.S.solution.iterations))
    = some (1, .maxIterations, 0) := run0
example : (run 3).toOption.map (fun r => (r.passes, r.S.solution.status, r.S.solution.iterations))
    = some (2, .solved, 1) := run3
/-- the iterate of the first pass record is the same in both runs -/
example : (run 0).toOption.map (fun r => r.traj.head?.map (fun p => (p.vars.x.toList, p.vars.s.toList, p.vars.z.toList)))
    = (run 3).toOption.map (fun r => r.traj.head?.map (fun p => (p.vars.x.toList, p.vars.s.toList, p.vars.z.toList))) := by
  decide +kernel

end fullExamples

end Clarabel.C07

/-! ## Round 3: composite cones — `calc_step_length` + `add_step` keep every iterate interior

Model: `ClarabelModel/StepK.lean` (`StepK.calcStepLength`, `StepK.addStep`, `StepK.acceptStep`: the
functions the channel `vars.step_k` compares bit for bit with `DefaultVariables::calc_step_length`
/ `add_step` over composites of all seven cone kinds).  The per-cone facts are C15's
(`Props/C15.lean`) and C14's (`*_unit_initialization_central`); helper lemmas:
`Lemmas/StepK{Interior,Init,Mixed,Accept}.lean`. -/
namespace Clarabel.C07
open Clarabel Clarabel.StepK Clarabel.Loop Clarabel.Loop.Step

/-- [R] `C07.interior_preserved`: let `(s, z, τ, κ)` be interior — `τ, κ > 0` and every block
strictly inside `K × K*` (`Pt.Interior`: zero, nonnegative, second-order of any dimension,
exponential, power cones with `0 < a < 1`, in any combination and order) — and let the direction
be of the right shape, otherwise arbitrary.  Then the value `α` of
`calc_step_length(Combined)` with `0 < max_step_fraction = f < 1` satisfies
`0 ≤ α ≤ f · min(1, ατ, ακ) ≤ f`, moreover `α ≤ f²` when a nonsymmetric cone is present, and for
every `0 ≤ a ≤ α` (so also for what `backtrack_step_to_barrier` makes of `α`) the iterate
`(s + a ds, z + a dz, τ + a dτ, κ + a dκ)` produced by `add_step` is interior again. -/
theorem interior_preserved (maxValue : ℝ) (ls : LineSearch ℝ) (hs0 : 0 ≤ ls.step) (hs1 : ls.step ≤ 1)
    (hmax : 0 < maxValue) (p : Pt ℝ) (hI : p.Interior) (hD : p.DirOk) (f α : ℝ) (hf0 : 0 < f)
    (hf1 : f < 1) (h : StepK.calcStepLength maxValue ls p true f = .ok α) :
    0 ≤ α ∧ α ≤ f * alphaMax p.τ p.κ p.dτ p.dκ maxValue ∧
      alphaMax p.τ p.κ p.dτ p.dκ maxValue ≤ 1 ∧
      (p.blks.all Blk.symmetric = false → α ≤ f * f) ∧
      ∀ a, 0 ≤ a → a ≤ α → (StepK.addStep p a).Interior :=
  StepK.interior_step maxValue ls hs0 hs1 hmax p hI hD f α hf0 hf1 h

/-- [R] no panic: from an interior iterate over zero / nonnegative / second-order cones (any
dimension) and any direction of the right shape, `calc_step_length` returns a value — the SOC line
search's `panic!("starting point of line search not in SOC")` is unreachable. -/
theorem calc_step_length_total_symmetric (maxValue : ℝ) (ls : LineSearch ℝ) (hs0 : 0 ≤ ls.step)
    (hs1 : ls.step ≤ 1) (hmax : 0 < maxValue) (p : Pt ℝ) (hI : p.Interior) (hD : p.DirOk)
    (hk : ∀ b ∈ p.blks, b.SymKind) (combined : Bool) (f : ℝ) (hf0 : 0 ≤ f) :
    ∃ α, StepK.calcStepLength maxValue ls p combined f = .ok α :=
  StepK.calcStepLength_ok_symmetric maxValue ls hs0 hs1 hmax p hI hD hk combined f hf0

/-- [R] the affine step length (no `max_step_fraction`) from an interior iterate is in `[0, 1]` -/
theorem affine_step_in_unit (maxValue : ℝ) (ls : LineSearch ℝ) (hs0 : 0 ≤ ls.step) (hs1 : ls.step ≤ 1)
    (hmax : 0 < maxValue) (p : Pt ℝ) (hI : p.Interior) (hD : p.DirOk) (f α : ℝ) (hf0 : 0 < f)
    (hf1 : f < 1) (h : StepK.calcStepLength maxValue ls p false f = .ok α) :
    0 ≤ α ∧ α ≤ alphaMax p.τ p.κ p.dτ p.dκ maxValue ∧ α ≤ 1 :=
  StepK.affine_step_bounds maxValue ls hs0 hs1 hmax p hI hD f α hf0 hf1 h

/-- [R] `C07.interior_preserved`, all seven cone kinds: covered blocks as above; **PSD** blocks
under C15's spectral contract (`PsdContract`: `Λisqrt = Λ^{-1/2} > 0`, the two LAPACK answers are
the least eigenvalues of the scaled directions) stay positive definite *in the scaled space*
(`Λ + a·mat(W Δz) ≻ 0`, `Λ + a·mat(W⁻ᵀ Δs) ≻ 0`); for **generalised power** blocks the step `a` is
below two candidates accepted by that cone's own search, which lie in the open cones
(`Blk.After`).  `τ + a dτ > 0`, `κ + a dκ > 0` and `0 ≤ α ≤ f·min(1, ατ, ακ)` as before. -/
theorem interior_preserved_mixed (maxValue : ℝ) (ls : LineSearch ℝ) (hs0 : 0 ≤ ls.step)
    (hs1 : ls.step ≤ 1) (hmax : 0 < maxValue) (p : Pt ℝ) (hτ : 0 < p.τ) (hκ : 0 < p.κ)
    (hok : ∀ b ∈ p.blks, b.StepOk)
    (hgp : ∀ al z s dz ds, Blk.genpow al z s dz ds ∈ p.blks → ∀ x ∈ al.toList, 0 < x)
    (f α : ℝ) (hf0 : 0 < f) (hf1 : f < 1) (h : StepK.calcStepLength maxValue ls p true f = .ok α) :
    0 ≤ α ∧ α ≤ f * alphaMax p.τ p.κ p.dτ p.dκ maxValue ∧
      ∀ a, 0 ≤ a → a ≤ α → 0 < addStepScalar p.τ p.dτ a ∧ 0 < addStepScalar p.κ p.dκ a ∧
        ∀ b ∈ p.blks, b.After ls a :=
  StepK.mixed_step maxValue ls hs0 hs1 hmax p hτ hκ hok hgp f α hf0 hf1 h

/-- [R] `C07.init_interior` (symmetric problems): after `symmetric_initialization` — the shift of
`s` and of `z` to the cone interior, `τ = κ = 1` — applied to **any** output of the initial KKT
solve, the iterate over zero / nonnegative / second-order cones is interior. -/
theorem init_interior_symmetric (specs : List Composite.Spec) (x z s : Array ℝ)
    (hs : ∀ sp ∈ specs, Composite.SymSpec sp) (hz : Composite.totalNumel specs ≤ z.size)
    (hss : Composite.totalNumel specs ≤ s.size) :
    ∃ z' s' pz ps, Composite.shiftToConeInterior specs s true = .ok s' ∧
      Composite.shiftToConeInterior specs z false = .ok z' ∧ Composite.cut specs z' = .ok pz ∧
      Composite.cut specs s' = .ok ps ∧ (⟨x, #[], blksOf pz ps, 1, 1, 0, 0⟩ : Pt ℝ).Interior :=
  StepK.symmetric_init_interior specs x z s hs hz hss

/-- [R] `C07.init_interior` (problems with a nonsymmetric cone): after `unit_initialization`
the iterate is interior with `τ = κ = 1` (zero / nonnegative / second-order / exponential / power
cones in any combination). -/
theorem init_interior_unit (p : Pt ℝ) (h : ∀ b ∈ p.blks, b.UnitShape) :
    ∃ p', StepK.unitInitialization p = .ok p' ∧ p'.Interior ∧ p'.τ = 1 ∧ p'.κ = 1 :=
  StepK.unit_init_interior p h

/-- [R] `C07.step_in_unit` on `calc_step_length`'s actual output: a pass that reaches `add_step`
from an interior iterate (`AcceptedPass`: any direction of the right shape; `α` from
`calc_step_length`; `a = α` or a barrier back-track of `α`; `strategy_checkpoint_small_step(a) =
NoUpdate`) has `0 < a`, `min_terminate_step_length < a ≤ α ≤ f·min(1, ατ, ακ) ≤ f < 1`, and the new
iterate is interior: every accepted step is a feasible interior step of length in `(0, 1)`. -/
theorem accepted_step_interior {c : StepCfg} (hc : c.Ok) {cfg : Loop.Config ℝ} {sc : Loop.Scaling}
    {p p' : Pt ℝ} (h : AcceptedPass c cfg sc p p') (hI : p.Interior) :
    p'.Interior ∧ ∃ q α a, Pt.SamePoint p q ∧ p' = StepK.addStep q a ∧
      StepK.calcStepLength c.maxValue c.ls q true c.f = .ok α ∧
      0 < a ∧ cfg.minTerminateStepLength < a ∧ a ≤ α ∧
      α ≤ c.f * alphaMax q.τ q.κ q.dτ q.dκ c.maxValue ∧ α ≤ c.f ∧ a < 1 :=
  h.interior hc hI

/-- [R] `C07.all_iterates_interior`: by induction over the passes of the loop — `add_step` after
an accepted pass, `reset_to_prev_iterate` back to the previous iterate, every other pass leaves the
iterate alone (`Traj`) — every iterate of a solve that starts from an interior point is interior,
whatever directions (of the right shape) the numerics supply. -/
theorem all_iterates_interior {c : StepCfg} (hc : c.Ok) {cfg : Loop.Config ℝ} {p0 : Pt ℝ}
    (h0 : p0.Interior) {l : List (Pt ℝ)} (h : Traj c cfg p0 l) : ∀ p ∈ l, p.Interior :=
  h.interior hc h0

/-- [R] …from `unit_initialization` (problems with exponential / power cones next to zero /
nonnegative / second-order cones): every iterate of every solve is interior. -/
theorem all_iterates_interior_unit {c : StepCfg} (hc : c.Ok) {cfg : Loop.Config ℝ} (p p0 : Pt ℝ)
    (hsh : ∀ b ∈ p.blks, b.UnitShape) (h0 : StepK.unitInitialization p = .ok p0)
    {l : List (Pt ℝ)} (h : Traj c cfg p0 l) : ∀ q ∈ l, q.Interior := by
  obtain ⟨p', e, hI, _, _⟩ := StepK.unit_init_interior p hsh
  rw [h0] at e
  cases e
  exact h.interior hc hI

/-- [R] …from `symmetric_initialization` (zero / nonnegative / second-order cones): every iterate
of every solve is interior, for any output `(x, s, z)` of the initial KKT solve. -/
theorem all_iterates_interior_symmetric {c : StepCfg} (hc : c.Ok) {cfg : Loop.Config ℝ}
    (specs : List Composite.Spec) (x z s : Array ℝ) (hs : ∀ sp ∈ specs, Composite.SymSpec sp)
    (hz : Composite.totalNumel specs ≤ z.size) (hss : Composite.totalNumel specs ≤ s.size) :
    ∃ z' s' pz ps, Composite.shiftToConeInterior specs s true = .ok s' ∧
      Composite.shiftToConeInterior specs z false = .ok z' ∧ Composite.cut specs z' = .ok pz ∧
      Composite.cut specs s' = .ok ps ∧
      ∀ l, Traj c cfg (⟨x, #[], blksOf pz ps, 1, 1, 0, 0⟩ : Pt ℝ) l → ∀ q ∈ l, q.Interior := by
  obtain ⟨z', s', pz, ps, e1, e2, c1, c2, hI⟩ := StepK.symmetric_init_interior specs x z s hs hz hss
  exact ⟨z', s', pz, ps, e1, e2, c1, c2, fun l hl => hl.interior hc hI⟩

/-! ### step acceptance and NaN ([S]: every scalar type, `Float` included) -/
section nan
set_option linter.unusedSectionVars false
variable {α : Type} [Add α] [Sub α] [Mul α] [Div α] [Neg α] [LT α] [LE α] [DecidableLT α]
  [DecidableLE α] [BEq α] [OfNat α 0] [OfNat α 1] [OfNat α 2] [OfNat α 3] [OfNat α 4]
  [OfScientific α] [FloatLike α]

/-- [S] `add_step` is reached exactly when `strategy_checkpoint_small_step` answers `NoUpdate` -/
theorem add_step_iff_no_update (cfg : Loop.Config α) (sc : Loop.Scaling) (p : Pt α) (a : α) :
    (acceptStep cfg sc p a).isSome = true ↔ cpSmallStep cfg a sc = .NoUpdate :=
  StepK.acceptStep_iff cfg sc p a

/-- [S] the NaN observation.  A step length for which both comparisons of the checkpoint are
false (`¬ a < min_switch_step_length`, `¬ a ≤ max(0, min_terminate_step_length)` — true of every
IEEE NaN) is **accepted**: the checkpoint answers `NoUpdate`, leaves the status alone, and
`add_step(a)` is executed.  `step_in_unit` (`0 < a`) is an ordered-field statement and does not
exclude this at `Float`. -/
theorem nan_step_length_accepted (cfg : Loop.Config α) (sc : Loop.Scaling) (st : Loop.Status)
    (p : Pt α) (a : α) (h1 : ¬ a < cfg.minSwitchStepLength)
    (h2 : ¬ a ≤ fmax 0 cfg.minTerminateStepLength) :
    cpSmallStep cfg a sc = .NoUpdate ∧ cpSmallStepStatus cfg a st sc = st ∧
      acceptStep cfg sc p a = some (StepK.addStep p a) :=
  ⟨(StepK.cpSmallStep_unordered cfg a sc st h1 h2).1, (StepK.cpSmallStep_unordered cfg a sc st h1 h2).2,
    StepK.acceptStep_unordered cfg sc p a h1 h2⟩

/-- [S] …on the loop skeleton: with both KKT solves reported successful, such a step length takes
the pass to `save_prev_iterate` / `add_step`; the iterate becomes `step vars pass a`. -/
theorem nan_step_reaches_add_step (cfg : Loop.Config α) (o : PassOracle α) (st1 : State α)
    (hk : o.kktAffOk = true ∧ o.kktCombOk = true) (h1 : ¬ o.alpha < cfg.minSwitchStepLength)
    (h2 : ¬ o.alpha ≤ fmax 0 cfg.minTerminateStepLength) :
    ∃ st', passKkt cfg o st1 = .cont st' ∧ st'.vars = .step st1.vars (st1.passes - 1) o.alpha ∧
      st'.alpha = o.alpha ∧ st'.prevVars = st1.vars ∧ st'.saved = true :=
  StepK.unordered_step_reaches_add_step cfg o st1 hk h1 h2

/-- [S] whether `add_step` is ever reached with a NaN: `calc_step_length` cannot produce one
before its last multiplication.  If `fmin` ignores a NaN argument (`MinIgnoresNaN`, true of
`f64::min` and proved for the model's `Float` instance below) and `1` is not NaN, then for **any**
iterate and direction — NaN / infinite entries included — the value is `m` (affine) resp.
`m · max_step_fraction` (combined) with `m` not NaN.  Hence a NaN step length requires
`max_step_fraction` itself to be NaN or `m · max_step_fraction = ∞ · 0`; with a finite positive
`max_step_fraction` the value handed to the checkpoint is never NaN (the *iterate* can still
become NaN through a NaN direction: `0.99 · NaN`). -/
theorem calc_step_length_nan_free (hmin : MinIgnoresNaN α) (h1 : FloatLike.isNaN (1 : α) = false)
    (maxValue : α) (ls : LineSearch α) (p : Pt α) (combined : Bool) (f a : α)
    (h : StepK.calcStepLength maxValue ls p combined f = .ok a) :
    ∃ m, FloatLike.isNaN m = false ∧ a = if combined then m * f else m :=
  StepK.calcStepLength_nan hmin h1 maxValue ls p combined f a h

/-- [S] cutting `(z, s)` into the cones' ranges commutes with `add_step`: the flat vectors after
the block-wise `add_step` are `axpby(a, d·, 1)` of the flat vectors — `DefaultVariables::add_step`,
the function the channel `vars.add_step` compares bit for bit. -/
theorem add_step_blockwise (p : Pt α) (a : α)
    (hz : ∀ b ∈ p.blks, b.zList.length = b.dzList.length)
    (hs : ∀ b ∈ p.blks, b.sList.length = b.dsList.length) :
    (StepK.addStep p a).zFlat = axpbyL a p.zFlat p.dzFlat ∧
      (StepK.addStep p a).sFlat = axpbyL a p.sFlat p.dsFlat :=
  StepK.addStep_flat p a hz hs

end nan

/-- [S] the model's `Float` minimum (Rust `f64::min`) ignores a NaN argument -/
theorem float_min_ignores_nan : MinIgnoresNaN Float := StepK.float_minIgnoresNaN

/-! ### non-vacuity -/
section examples3

/-- an interior iterate with a nonnegative, a second-order, an exponential and a power block -/
noncomputable def exPt : Pt ℝ :=
  { x := #[0], dx := #[1],
    blks := [.nn #[1, 2] #[3, 1] #[-1, 0] #[0, -2], .soc #[2, 1] #[3, 0] #[0, 1] #[-1, 0],
             .exp (-1, 1, 1) (-1, 1, 1) (0, 0, 0) (0, 0, 0),
             .pow (1 / 2) (1 / 2, 1 / 2, 0) (1, 1, 0) (0, 0, 0) (0, 0, 0)],
    τ := 1, κ := 1, dτ := -2, dκ := 1 }

example : exPt.Interior ∧ exPt.DirOk := by
  refine ⟨⟨one_pos, one_pos, ?_⟩, ?_⟩
  · intro b hb
    simp only [exPt, List.mem_cons, List.not_mem_nil, or_false] at hb
    rcases hb with rfl | rfl | rfl | rfl
    · refine ⟨rfl, ?_, ?_⟩ <;> (intro v hv; simp at hv; rcases hv with rfl | rfl <;> norm_num)
    · refine ⟨2, [1], 3, [0], rfl, rfl, ?_, ?_⟩ <;> (constructor <;> norm_num [Soc.dotL_cons])
    · constructor
      · refine ⟨by norm_num, by norm_num, ?_⟩
        have : Real.exp (1 / -1 - 1) < 1 := Real.exp_lt_one_iff.mpr (by norm_num)
        linarith
      · refine ⟨by norm_num, by norm_num, ?_⟩
        have : Real.exp (-1 / 1) < 1 := Real.exp_lt_one_iff.mpr (by norm_num)
        linarith
    · refine ⟨by norm_num, by norm_num, ⟨by norm_num, by norm_num, ?_⟩, ⟨by norm_num, by norm_num, ?_⟩⟩
      · norm_num
      · norm_num
  · intro b hb
    simp only [exPt, List.mem_cons, List.not_mem_nil, or_false] at hb
    rcases hb with rfl | rfl | rfl | rfl
    · exact ⟨rfl, rfl⟩
    · exact ⟨rfl, rfl⟩
    · trivial
    · trivial

/-- `exNN` (below) is made of symmetric blocks only -/
example : ∀ b ∈ ([.nn #[1] #[1] #[-1] #[-1], .soc #[2, 1] #[3, 0] #[0, 1] #[-1, 0]] : List (Blk ℝ)),
    b.SymKind := by
  intro b hb
  simp only [List.mem_cons, List.not_mem_nil, or_false] at hb
  rcases hb with rfl | rfl <;> trivial

/-- the settings of the solver's defaults meet `StepCfg.Ok` -/
example : (⟨100, ⟨4 / 5, 1 / 10000, 100⟩, 99 / 100, 4 / 5⟩ : StepCfg).Ok := by
  refine ⟨by norm_num, by norm_num, by norm_num, by norm_num, by norm_num, by norm_num, by norm_num⟩

/-- shapes covered by `init_interior_unit` -/
example : ∀ b ∈ exPt.blks, b.UnitShape := by
  intro b hb
  simp only [exPt, List.mem_cons, List.not_mem_nil, or_false] at hb
  rcases hb with rfl | rfl | rfl | rfl
  · rfl
  · exact ⟨by decide, by decide⟩
  · trivial
  · exact ⟨by norm_num, by norm_num⟩

/-- `calc_step_length` on one nonnegative block `z = s = (1)`, `dz = ds = (−1)`, `τ = κ = 1`,
`dτ = dκ = 0`: the cone allows `1`, the combined step is `max_step_fraction = 0.99` -/
noncomputable def exNN : Pt ℝ :=
  { x := #[], dx := #[], blks := [.nn #[1] #[1] #[-1] #[-1]], τ := 1, κ := 1, dτ := 0, dκ := 0 }

/-- [R] non-vacuity helper: the value of `calc_step_length` on `exNN` -/
theorem exNN_calc : StepK.calcStepLength (100 : ℝ) ⟨4 / 5, 1 / 10000, 100⟩ exNN true (99 / 100)
    = .ok (99 / 100) := by
  simp only [StepK.calcStepLength, exNN, coneStep, alphaMax, ratio, Composite.stepLength,
    Composite.inner, List.map_cons, List.map_nil, Blk.coneFn, List.foldlM_cons, List.foldlM_nil,
    Nonneg.stepLength, Nonneg.stepComponent, Nonneg.ratio, List.all_cons, List.all_nil, bind,
    Except.bind, pure, Except.pure]
  norm_num [FloatLike.fmin]

/-- an accepted pass (and hence a two-point trajectory) exists -/
example : ∃ cfg : Loop.Config ℝ, ∃ p', AcceptedPass ⟨100, ⟨4 / 5, 1 / 10000, 100⟩, 99 / 100, 4 / 5⟩ cfg
    .PrimalDual exNN p' := by
  let t : Loop.Tols ℝ := ⟨0, 0, 0, 0, 0, 0⟩
  refine ⟨⟨10, 0, false, t, t, 1 / 10, 1 / 10000, true, true, true⟩, StepK.addStep exNN (99 / 100),
    exNN, 99 / 100, 99 / 100, ?_, ?_, exNN_calc, Or.inl rfl, ?_⟩
  · refine ⟨rfl, rfl, rfl, ?_⟩
    exact List.Forall₂.cons (Blk.SamePoint.nn _ _ _ _ _ _) List.Forall₂.nil
  · intro b hb
    simp only [exNN, List.mem_singleton] at hb
    subst hb; exact ⟨rfl, rfl⟩
  · simp only [acceptStep, cpSmallStep]
    norm_num [FloatLike.fmax]

/-- a PSD block under the spectral contract: `n = 1`, `λ = R = R⁻¹ = Λisqrt = 1`, `Δz = Δs = (−2)` -/
example : (Blk.psd (⟨1, #[1], #[1], #[1], #[1], #[]⟩ : PsdTri.Cone ℝ) (some (-2)) (some (-2)) #[1] #[1]
    #[-2] #[-2]).StepOk := by
  refine ⟨-2, -2, rfl, rfl, by decide, ?_, ?_, ?_⟩
  · intro i hi
    have hi' : i < 1 := hi
    have : i = 0 := by omega
    subst this; simp
  · intro d h
    simp [PsdTri.mulW, PsdTri.mulWx, PsdTri.sizeGuard, PsdIndex.triangularNumber, PsdTri.mulWxInner,
      PsdTri.matToSvec, PsdTri.packed, PsdTri.gemm, PsdTri.mm, PsdTri.tr, PsdTri.matOf,
      PsdTri.svecToMat, PsdTri.sumN, PsdTri.isZero, bind, Except.bind, pure, Except.pure] at h
    subst h
    refine ⟨?_, fun _ => 1, ?_, ?_⟩
    · intro v
      simp [PsdStep.nrm2, PsdStep.qform, PsdStep.scaledDir, PsdTri.svecToMat, PsdIndex.triangularNumber]
      linarith
    · simp [PsdStep.nrm2]
    · simp [PsdStep.nrm2, PsdStep.qform, PsdStep.scaledDir, PsdTri.svecToMat, PsdIndex.triangularNumber]
  · intro d h
    simp [PsdTri.mulWinv, PsdTri.mulWx, PsdTri.sizeGuard, PsdIndex.triangularNumber, PsdTri.mulWxInner,
      PsdTri.matToSvec, PsdTri.packed, PsdTri.gemm, PsdTri.mm, PsdTri.tr, PsdTri.matOf,
      PsdTri.svecToMat, PsdTri.sumN, PsdTri.isZero, bind, Except.bind, pure, Except.pure] at h
    subst h
    refine ⟨?_, fun _ => 1, ?_, ?_⟩
    · intro v
      simp [PsdStep.nrm2, PsdStep.qform, PsdStep.scaledDir, PsdTri.svecToMat, PsdIndex.triangularNumber]
      linarith
    · simp [PsdStep.nrm2]
    · simp [PsdStep.nrm2, PsdStep.qform, PsdStep.scaledDir, PsdTri.svecToMat, PsdIndex.triangularNumber]

/-- the hypotheses of the NaN theorems are met by ordinary numbers too (over `ℝ`: a step above
both thresholds) — and by no ordered-field element that `step_in_unit` excludes -/
example : ¬ ((99 / 100 : ℝ) < 1 / 10) ∧ ¬ ((99 / 100 : ℝ) ≤ fmax 0 (1 / 10000)) := by
  constructor <;> norm_num [FloatLike.fmax]

end examples3

end Clarabel.C07

/-! ## Round 3: reproducibility with strategy switches (loop skeleton, nonsymmetric cones) -/
namespace Clarabel.C07
open Clarabel Clarabel.Loop

section switches
set_option linter.unusedSectionVars false
variable {α : Type} [Mul α] [Div α] [Neg α] [OfNat α 0] [OfNat α 1]
  [LT α] [DecidableLT α] [LE α] [DecidableLE α] [BEq α] [FloatLike α]

/-- [S] a pass that changes the scaling strategy happens only for nonsymmetric cones, only
`PrimalDual → Dual`, and does **not** execute `add_step`: the iterate is left as it is, or (the
insufficient-progress checkpoint) rolled back to `prev_vars`.  So the symbolic iterate
`Iter.step … pass a` returned under a budget counts accepted steps only. -/
theorem switch_pass_keeps_iterate (cfg : Config α) (o : PassOracle α) (st st' : State α)
    (h : pass cfg o st = .cont st') (hsw : st'.scaling ≠ st.scaling) :
    cfg.symmetric = false ∧ st.scaling = .PrimalDual ∧ st'.scaling = .Dual ∧
      (st'.vars = st.vars ∨ st'.vars = st.prevVars) :=
  Loop.switch_pass cfg o st st' h hsw

/-- [S] `C07.prefix` for problems with nonsymmetric cones (`cones.is_symmetric() = false`, strategy
switches possible): the budget enters through `check_termination` only, so the run with budget
`k ≤ k'` goes through the same passes — including the same switches `PrimalDual → Dual` at the same
passes: the common top-of-pass state `sk` of `PrefixRel.budget` carries `scaling` and the
checkpoint log — and returns the iterate of `sk`. -/
theorem prefix_loop_nonsymmetric (cfg : Config α) (hns : cfg.symmetric = false) (k' : Nat)
    (hk : cfg.maxIter ≤ k') (z : α) (os : List (PassOracle α)) (s : State α)
    (h : loop cfg os (initState cfg z) = .done s) :
    PrefixRel cfg k' os (initState cfg z) s ∧ (withBudget cfg k').symmetric = false :=
  ⟨prefix_loop cfg k' hk z os s h, hns⟩

end switches

/-! non-vacuity, evaluated by the kernel at `Int`: a nonsymmetric problem whose first pass ends in
the small-step switch `Update(Dual)` (α = 1 < min_switch_step_length = 5) and whose later passes
accept α = 9.  Budget 2 stops after 3 passes with the iterate `step (start) 1 9` (one `add_step`,
from pass 1; the switch pass 0 contributed none); budget 3 goes through the same three passes —
same switch — and one more. -/
section switchExample
open Clarabel.Solver.Example
attribute [local instance] intFloatLike

def swT : Tols Int := ⟨0, 0, 0, 0, 0, 0⟩
def swCfg (k : Nat) : Config Int :=
  { maxIter := k, timeLimit := 100, verbose := false, full := swT, reduced := swT,
    minSwitchStepLength := 5, minTerminateStepLength := 0, symmetric := false, allowsPD := true }
def swOrc (alpha : Int) : PassOracle Int :=
  { dotBz := 0, dotQx := 0, mu := 1, costPrimal := 1, costDual := 1, resPrimal := 1, resDual := 1,
    resPrimalInf := 1, resDualInf := 1, gapAbs := 1, gapRel := 1, ktratio := 2, solveTime := 0,
    scaleOk := true, kktAffOk := true, alphaAff := 1, sigma := 1, kktCombOk := true, alpha := alpha }
def swOs : List (PassOracle Int) := [swOrc 1, swOrc 9, swOrc 9, swOrc 9, swOrc 9]
def swSumm (r : Outcome (Result Int)) : Option (Status × Nat × Nat × List (Option Checkpoint)) :=
  match r with
  | .done r => some (r.status, r.iterations, r.passes, r.log.map (·.smallStep))
  | _ => none

example : swSumm (solve (swCfg 2) 0 swOs)
    = some (.MaxIterations, 2, 3, [some (.Update .Dual), some .NoUpdate, none]) := by decide
example : swSumm (solve (swCfg 3) 0 swOs)
    = some (.MaxIterations, 3, 4, [some (.Update .Dual), some .NoUpdate, some .NoUpdate, none]) := by
  decide
example : withBudget (swCfg 2) 3 = swCfg 3 := rfl

end switchExample
end Clarabel.C07

/-! ## Round 4 (cone geometry): `interior_preserved` for generalised power and PSD blocks at full strength -/
namespace Clarabel.C07
open Clarabel Clarabel.StepK Clarabel.Loop Clarabel.Loop.Step

/-- [R] `C07.interior_preserved`, **all seven cone kinds at full strength** (strengthens
`interior_preserved_mixed`, which covered generalised power blocks only up to the cone's accepted
candidates and PSD blocks only in the scaled space).  `τ, κ > 0`; every block `StepOkAll`: zero /
nonnegative / second-order / exponential / power blocks interior with a direction of the right shape;
**generalised power** blocks with positive exponents summing to one and `(z, s) ∈ int K* × int K`
(`GenPowInterior`); **PSD** blocks under C15's spectral contract for the two LAPACK answers and
C13's Nesterov–Todd contract `NtOk K z s` of the scaling in use (`W z = λ = W⁻ᵀ s`, `R·R⁻¹ = I`).
Then the value `α` of `calc_step_length(Combined)` (`0 < f = max_step_fraction < 1`) lies in
`[0, f·min(1, ατ, ακ)]` (`≤ f²` with a nonsymmetric cone), and for **every** `0 ≤ a ≤ α`:
`τ + a·dτ > 0`, `κ + a·dκ > 0`, and after `add_step(a)` every block is interior (`InteriorAll`) —
generalised power blocks at the stepped point itself (convexity of the open cone and its dual), PSD
blocks with `mat(z + a·dz) ≻ 0`, `mat(s + a·ds) ≻ 0` **in original coordinates** (congruence
`Rᵀ(Z + aΔZ)R = Λ + a·mat(WΔz)`). -/
theorem interior_preserved_all_cones (maxValue : ℝ) (ls : LineSearch ℝ) (hs0 : 0 ≤ ls.step)
    (hs1 : ls.step ≤ 1) (hmax : 0 < maxValue) (p : Pt ℝ) (hτ : 0 < p.τ) (hκ : 0 < p.κ)
    (hok : ∀ b ∈ p.blks, b.StepOkAll) (f α : ℝ) (hf0 : 0 < f) (hf1 : f < 1)
    (h : StepK.calcStepLength maxValue ls p true f = .ok α) :
    0 ≤ α ∧ α ≤ f * alphaMax p.τ p.κ p.dτ p.dκ maxValue ∧
      (p.blks.all Blk.symmetric = false → α ≤ f * f) ∧
      ∀ a, 0 ≤ a → a ≤ α → 0 < addStepScalar p.τ p.dτ a ∧ 0 < addStepScalar p.κ p.dκ a ∧
        ∀ b ∈ p.blks, (b.addStep a).InteriorAll :=
  StepK.all_step maxValue ls hs0 hs1 hmax p hτ hκ hok f α hf0 hf1 h

/-- [R] …read off for one **PSD** block of the iterate: `z + a·dz ≻ 0` and `s + a·ds ≻ 0` (as
matrices `mat(·)` of the `svec` slices `add_step` writes), for every `0 ≤ a ≤ α`. -/
theorem interior_preserved_psd_unscaled (maxValue : ℝ) (ls : LineSearch ℝ) (hs0 : 0 ≤ ls.step)
    (hs1 : ls.step ≤ 1) (hmax : 0 < maxValue) (p : Pt ℝ) (hτ : 0 < p.τ) (hκ : 0 < p.κ)
    (hok : ∀ b ∈ p.blks, b.StepOkAll) (f α : ℝ) (hf0 : 0 < f) (hf1 : f < 1)
    (h : StepK.calcStepLength maxValue ls p true f = .ok α) (K : PsdTri.Cone ℝ) (γz γs : Option ℝ)
    (z s dz ds : Array ℝ) (hb : Blk.psd K γz γs z s dz ds ∈ p.blks) (a : ℝ) (ha0 : 0 ≤ a)
    (ha : a ≤ α) :
    PsdStep.PosDef K.n (PsdTri.svecToMat (addStepVec z dz a)) ∧
      PsdStep.PosDef K.n (PsdTri.svecToMat (addStepVec s ds a)) :=
  ((StepK.all_step maxValue ls hs0 hs1 hmax p hτ hκ hok f α hf0 hf1 h).2.2.2 a ha0 ha).2.2 _ hb

/-- [R] …and for one **generalised power** block: the stepped slices split as `u ++ w` with
`|u| = |α|` and lie in `int K*` resp. `int K`, for every `0 ≤ a ≤ α`. -/
theorem interior_preserved_genpow_block (maxValue : ℝ) (ls : LineSearch ℝ) (hs0 : 0 ≤ ls.step)
    (hs1 : ls.step ≤ 1) (hmax : 0 < maxValue) (p : Pt ℝ) (hτ : 0 < p.τ) (hκ : 0 < p.κ)
    (hok : ∀ b ∈ p.blks, b.StepOkAll) (f α : ℝ) (hf0 : 0 < f) (hf1 : f < 1)
    (h : StepK.calcStepLength maxValue ls p true f = .ok α) (al z s dz ds : Array ℝ)
    (hb : Blk.genpow al z s dz ds ∈ p.blks) (a : ℝ) (ha0 : 0 ≤ a) (ha : a ≤ α) :
    ∃ uz wz us ws, (addStepVec z dz a).toList = uz ++ wz ∧ al.toList.length = uz.length ∧
      (addStepVec s ds a).toList = us ++ ws ∧ al.toList.length = us.length ∧
      C14.GenPowDualInterior al.toList uz wz ∧ C14.GenPowPrimalInterior al.toList us ws :=
  (((StepK.all_step maxValue ls hs0 hs1 hmax p hτ hκ hok f α hf0 hf1 h).2.2.2 a ha0 ha).2.2 _ hb).2.2

/-- [R] `C07.interior_preserved` for **all nonsymmetric cones** in the form of round 3's
`interior_preserved`: from an interior iterate (`Pt.InteriorG`: zero / nonnegative / second-order /
exponential / power / **generalised power** blocks) and any direction of the right shape, every
`0 ≤ a ≤ α` leads to an interior iterate again. -/
theorem interior_preserved_all_nonsym (maxValue : ℝ) (ls : LineSearch ℝ) (hs0 : 0 ≤ ls.step)
    (hs1 : ls.step ≤ 1) (hmax : 0 < maxValue) (p : Pt ℝ) (hI : p.InteriorG) (hD : p.DirOk)
    (f α : ℝ) (hf0 : 0 < f) (hf1 : f < 1) (h : StepK.calcStepLength maxValue ls p true f = .ok α) :
    0 ≤ α ∧ α ≤ f * alphaMax p.τ p.κ p.dτ p.dκ maxValue ∧
      (p.blks.all Blk.symmetric = false → α ≤ f * f) ∧
      ∀ a, 0 ≤ a → a ≤ α → (StepK.addStep p a).InteriorG :=
  StepK.interior_stepG maxValue ls hs0 hs1 hmax p hI hD f α hf0 hf1 h

/-- [R] `C07.step_in_unit` / accepted pass with generalised power blocks: as
`accepted_step_interior`, for `Pt.InteriorG`. -/
theorem accepted_step_interior_genpow {c : StepCfg} (hc : c.Ok) {cfg : Loop.Config ℝ}
    {sc : Loop.Scaling} {p p' : Pt ℝ} (h : AcceptedPass c cfg sc p p') (hI : p.InteriorG) :
    p'.InteriorG ∧ ∃ q α a, Pt.SamePoint p q ∧ p' = StepK.addStep q a ∧
      StepK.calcStepLength c.maxValue c.ls q true c.f = .ok α ∧
      0 < a ∧ cfg.minTerminateStepLength < a ∧ a ≤ α ∧
      α ≤ c.f * alphaMax q.τ q.κ q.dτ q.dκ c.maxValue ∧ α ≤ c.f ∧ a < 1 :=
  h.interiorG hc hI

/-- [R] `C07.all_iterates_interior` with generalised power blocks: every iterate of a solve that
starts from an interior point (`Pt.InteriorG`) is interior, whatever directions (of the right
shape) the numerics supply. -/
theorem all_iterates_interior_genpow {c : StepCfg} (hc : c.Ok) {cfg : Loop.Config ℝ} {p0 : Pt ℝ}
    (h0 : p0.InteriorG) {l : List (Pt ℝ)} (h : Traj c cfg p0 l) : ∀ p ∈ l, p.InteriorG :=
  h.interiorG hc h0

/-! ### non-vacuity -/
section examples4

/-- a generalised power block that meets `StepOkAll`: `α = (½, ½)`, `z = (1, 1 | 1)`,
`s = (1, 1 | 0)`, directions of the right length -/
example : (Blk.genpow (#[1 / 2, 1 / 2] : Array ℝ) #[1, 1, 1] #[1, 1, 0] #[0, -1, 0] #[1, 0, 0]).StepOkAll := by
  refine ⟨⟨by intro a ha; simp at ha; subst ha; norm_num, by norm_num, [1, 1], [1], [1, 1], [0], rfl,
    rfl, rfl, rfl, ⟨by simp, by norm_num⟩, ⟨by simp, by norm_num⟩⟩, rfl, rfl⟩

/-- an interior iterate (`Pt.InteriorG`) with a nonnegative and a generalised power block, and a
direction of the right shape -/
example : ∃ p : Pt ℝ, p.InteriorG ∧ p.DirOk :=
  ⟨{ x := #[0], dx := #[1],
     blks := [.nn #[1, 2] #[3, 1] #[-1, 0] #[0, -2],
              .genpow #[1 / 2, 1 / 2] #[1, 1, 1] #[1, 1, 0] #[0, -1, 0] #[1, 0, 0]],
     τ := 1, κ := 1, dτ := -2, dκ := 1 }, by
    refine ⟨⟨one_pos, one_pos, ?_⟩, ?_⟩
    · intro b hb
      simp only [List.mem_cons, List.not_mem_nil, or_false] at hb
      rcases hb with rfl | rfl
      · refine ⟨rfl, ?_, ?_⟩ <;> (intro v hv; simp at hv; rcases hv with rfl | rfl <;> norm_num)
      · exact ⟨by intro a ha; simp at ha; subst ha; norm_num, by norm_num, [1, 1], [1], [1, 1], [0],
          rfl, rfl, rfl, rfl, ⟨by simp, by norm_num⟩, ⟨by simp, by norm_num⟩⟩
    · intro b hb
      simp only [List.mem_cons, List.not_mem_nil, or_false] at hb
      rcases hb with rfl | rfl
      · exact ⟨rfl, rfl⟩
      · exact ⟨rfl, rfl⟩⟩

/-- a PSD block that meets `StepOkAll`: `n = 1`, `λ = Λisqrt = R = R⁻¹ = 1`, `z = s = (1)`,
`Δz = Δs = (−2)` with least eigenvalues `−2` (spectral contract) and `W z = λ = W⁻ᵀ s` (NT contract) -/
example : (Blk.psd (⟨1, #[1], #[1], #[1], #[1], #[]⟩ : PsdTri.Cone ℝ) (some (-2)) (some (-2)) #[1] #[1]
    #[-2] #[-2]).StepOkAll := by
  refine ⟨⟨-2, -2, rfl, rfl, by decide, ?_, ?_, ?_⟩, PsdStep.ntOk_example, rfl, rfl⟩
  · intro i hi
    have hi' : i < 1 := hi
    have : i = 0 := by omega
    subst this; simp
  · intro d h
    simp [PsdTri.mulW, PsdTri.mulWx, PsdTri.sizeGuard, PsdIndex.triangularNumber, PsdTri.mulWxInner,
      PsdTri.matToSvec, PsdTri.packed, PsdTri.gemm, PsdTri.mm, PsdTri.tr, PsdTri.matOf,
      PsdTri.svecToMat, PsdTri.sumN, PsdTri.isZero, bind, Except.bind, pure, Except.pure] at h
    subst h
    refine ⟨?_, fun _ => 1, ?_, ?_⟩
    · intro v
      simp [PsdStep.nrm2, PsdStep.qform, PsdStep.scaledDir, PsdTri.svecToMat, PsdIndex.triangularNumber]
      linarith
    · simp [PsdStep.nrm2]
    · simp [PsdStep.nrm2, PsdStep.qform, PsdStep.scaledDir, PsdTri.svecToMat, PsdIndex.triangularNumber]
  · intro d h
    simp [PsdTri.mulWinv, PsdTri.mulWx, PsdTri.sizeGuard, PsdIndex.triangularNumber, PsdTri.mulWxInner,
      PsdTri.matToSvec, PsdTri.packed, PsdTri.gemm, PsdTri.mm, PsdTri.tr, PsdTri.matOf,
      PsdTri.svecToMat, PsdTri.sumN, PsdTri.isZero, bind, Except.bind, pure, Except.pure] at h
    subst h
    refine ⟨?_, fun _ => 1, ?_, ?_⟩
    · intro v
      simp [PsdStep.nrm2, PsdStep.qform, PsdStep.scaledDir, PsdTri.svecToMat, PsdIndex.triangularNumber]
      linarith
    · simp [PsdStep.nrm2]
    · simp [PsdStep.nrm2, PsdStep.qform, PsdStep.scaledDir, PsdTri.svecToMat, PsdIndex.triangularNumber]

end examples4

end Clarabel.C07

/-! ## Round 5: generalised power blocks from `unit_initialization`; PSD blocks in the trajectory under `PsdPassOk` -/
namespace Clarabel.C07
open Clarabel Clarabel.StepK Clarabel.Loop Clarabel.Loop.Step

/-- [R] `GenPowCone::unit_initialization`: the point `z = s = (√(1+αᵢ))ᵢ ⊕ 0` lies in
`int K* × int K` (`GenPowInterior`: `u > 0`, `‖w‖² = 0 < Π (uᵢ/αᵢ)^{2αᵢ}` resp. `< Π uᵢ^{2αᵢ}`) for
positive exponents summing to one, whatever the numbers of trailing zeros. -/
theorem unit_initialization_genpow_interior (al : Array ℝ) (hal : ∀ a ∈ al.toList, 0 < a)
    (hsum : al.toList.sum = 1) (dz ds : Nat) :
    GenPowInterior al (GenPow.unitInitialization al dz) (GenPow.unitInitialization al ds) :=
  StepK.genpow_unit_interior al hal hsum dz ds

/-- [R] `C07.init_interior` (problems with a nonsymmetric cone), **generalised power blocks
included**: after `unit_initialization` the iterate is interior (`Pt.InteriorG`) with `τ = κ = 1` —
zero / nonnegative / second-order / exponential / power / generalised power cones in any
combination (`Blk.UnitShapeG`: as `Blk.UnitShape`, and for a generalised power block positive
exponents summing to one and slices at least as long as `α`).  Extends `init_interior_unit`. -/
theorem init_interior_unit_genpow (p : Pt ℝ) (h : ∀ b ∈ p.blks, b.UnitShapeG) :
    ∃ p', StepK.unitInitialization p = .ok p' ∧ p'.InteriorG ∧ p'.τ = 1 ∧ p'.κ = 1 :=
  StepK.unit_init_interiorG p h

/-- [R] `C07.all_iterates_interior` **for all nonsymmetric cones, from `unit_initialization`**
(`all_iterates_interior_unit` had no generalised power blocks, `all_iterates_interior_genpow` an
assumed interior start): for a problem over zero / nonnegative / second-order / exponential / power /
generalised power cones, every iterate of every solve that starts from `unit_initialization` is
interior, whatever directions (of the right shape) the numerics supply. -/
theorem all_iterates_interior_all_nonsym {c : StepCfg} (hc : c.Ok) {cfg : Loop.Config ℝ} (p p0 : Pt ℝ)
    (hsh : ∀ b ∈ p.blks, b.UnitShapeG) (h0 : StepK.unitInitialization p = .ok p0)
    {l : List (Pt ℝ)} (h : Traj c cfg p0 l) : ∀ q ∈ l, q.InteriorG :=
  StepK.Traj.interiorG_unit hc p p0 hsh h0 h

/-- [R] `C07.step_in_unit` / accepted pass, **all seven cone kinds**.  `Pt.InteriorAllP`: `τ, κ > 0`,
zero … power blocks as `Blk.Interior`, generalised power blocks `GenPowInterior`, PSD blocks
`mat z ≻ 0 ∧ mat s ≻ 0` in original coordinates.  `AcceptedPassP` is `AcceptedPass` plus the
**named per-pass hypothesis `PsdPassOk q`** on the pass's iterate-with-direction `q`: for every PSD
block `.psd K γz γs z s dz ds` of `q`, both `eigvals` calls answered, C15's spectral contract
(`PsdContract`: `Λisqrt = Λ^{-1/2} > 0`, `γz`/`γs` least eigenvalues of the scaled directions) and
C13's Nesterov–Todd contract `NtOk K z s` — "this pass's `update_scaling` re-established
`W z = λ = W⁻ᵀ s`, `R·R⁻¹ = I` at the current point".  That is assumed, not proved (it is what the
harness can check pass by pass); everything else is derived: the new iterate is interior for all
seven cone kinds and `0 < a`, `min_terminate_step_length < a ≤ α ≤ f·min(1, ατ, ακ) ≤ f < 1`. -/
theorem accepted_step_interior_all_cones {c : StepCfg} (hc : c.Ok) {cfg : Loop.Config ℝ}
    {sc : Loop.Scaling} {p p' : Pt ℝ} (h : AcceptedPassP c cfg sc p p') (hI : p.InteriorAllP) :
    p'.InteriorAllP ∧ ∃ q α a, Pt.SamePoint p q ∧ PsdPassOk q ∧ p' = StepK.addStep q a ∧
      StepK.calcStepLength c.maxValue c.ls q true c.f = .ok α ∧
      0 < a ∧ cfg.minTerminateStepLength < a ∧ a ≤ α ∧
      α ≤ c.f * alphaMax q.τ q.κ q.dτ q.dκ c.maxValue ∧ α ≤ c.f ∧ a < 1 :=
  h.interiorAllP hc hI

/-- [R] `C07.all_iterates_interior`, **all seven cone kinds**: every iterate of a solve that starts
from a point interior for all cone kinds (`Pt.InteriorAllP`) is interior for all cone kinds,
**provided every accepted pass of the solve meets `PsdPassOk`** — `TrajP` is `Traj` with
`AcceptedPassP` in place of `AcceptedPass` (`traj_p_is_traj`), i.e. the hypothesis is attached to
each pass that reaches `add_step`; passes that end before `add_step` and `reset_to_prev_iterate`
carry no obligation.  Assumed: the interior start and `PsdPassOk` per accepted pass; derived: the
rest (directions arbitrary of the right shape). -/
theorem all_iterates_interior_all_cones {c : StepCfg} (hc : c.Ok) {cfg : Loop.Config ℝ} {p0 : Pt ℝ}
    (h0 : p0.InteriorAllP) {l : List (Pt ℝ)} (h : TrajP c cfg p0 l) : ∀ p ∈ l, p.InteriorAllP :=
  h.interiorAllP hc h0

/-- [S] `TrajP` only adds a hypothesis: forgetting it gives a `Traj` -/
theorem traj_p_is_traj {c : StepCfg} {cfg : Loop.Config ℝ} {p0 : Pt ℝ} {l : List (Pt ℝ)}
    (h : TrajP c cfg p0 l) : Traj c cfg p0 l :=
  h.toTraj

/-- [S] …and without PSD blocks the hypothesis is void: every `AcceptedPass` from an iterate
without PSD blocks is an `AcceptedPassP` -/
theorem accepted_pass_p_of_no_psd {c : StepCfg} {cfg : Loop.Config ℝ} {sc : Loop.Scaling}
    {p p' : Pt ℝ} (h : AcceptedPass c cfg sc p p') (hn : ∀ b ∈ p.blks, b.NotPsd) :
    AcceptedPassP c cfg sc p p' :=
  h.toP hn

/-! ### non-vacuity -/
section examples5

/-- exponents `(½, ½)` meet the hypotheses of `unit_initialization_genpow_interior` -/
example : (∀ a ∈ (#[1 / 2, 1 / 2] : Array ℝ).toList, 0 < a) ∧ (#[1 / 2, 1 / 2] : Array ℝ).toList.sum = 1 :=
  ⟨by intro a ha; simp at ha; subst ha; norm_num, by norm_num⟩

/-- a nonnegative block and a generalised power block `α = (½, ½)` with slices of length 3 -/
noncomputable def exUnitG : Pt ℝ :=
  { x := #[0], dx := #[0],
    blks := [.nn #[0, 0] #[0, 0] #[] #[], .genpow #[1 / 2, 1 / 2] #[0, 0, 0] #[0, 0, 0] #[] #[]],
    τ := 0, κ := 0, dτ := 0, dκ := 0 }

/-- shapes covered by `init_interior_unit_genpow` -/
example : ∀ b ∈ exUnitG.blks, b.UnitShapeG := by
  intro b hb
  simp only [exUnitG, List.mem_cons, List.not_mem_nil, or_false] at hb
  rcases hb with rfl | rfl
  · rfl
  · exact ⟨by intro a ha; simp at ha; subst ha; norm_num, by norm_num, by decide, by decide⟩

/-- the hypotheses of `all_iterates_interior_all_nonsym` are met (one-point trajectory from
`unit_initialization` of `exUnitG`) -/
example : ∃ p0, (∀ b ∈ exUnitG.blks, b.UnitShapeG) ∧ StepK.unitInitialization exUnitG = .ok p0 ∧
    Traj ⟨100, ⟨4 / 5, 1 / 10000, 100⟩, 99 / 100, 4 / 5⟩
      (⟨10, 0, false, ⟨0, 0, 0, 0, 0, 0⟩, ⟨0, 0, 0, 0, 0, 0⟩, 1 / 10, 1 / 10000, true, true, true⟩ :
        Loop.Config ℝ) p0 [p0] := by
  have hsh : ∀ b ∈ exUnitG.blks, b.UnitShapeG := by
    intro b hb
    simp only [exUnitG, List.mem_cons, List.not_mem_nil, or_false] at hb
    rcases hb with rfl | rfl
    · rfl
    · exact ⟨by intro a ha; simp at ha; subst ha; norm_num, by norm_num, by decide, by decide⟩
  obtain ⟨p0, e, _⟩ := StepK.unit_init_interiorG exUnitG hsh
  exact ⟨p0, hsh, e, .start⟩

/-- an iterate with a nonnegative and a PSD block that is interior for all cone kinds, and whose
pass data meet `PsdPassOk` -/
example : StepK.exPsd.InteriorAllP ∧ PsdPassOk StepK.exPsd :=
  ⟨StepK.exPsd_interiorAllP, StepK.exPsd_psdPassOk⟩

/-- an accepted pass with a PSD block under `PsdPassOk` exists (`calc_step_length = 0.99 · ½`), and
with it a two-point `TrajP` from an `InteriorAllP` start -/
example : ∃ cfg : Loop.Config ℝ, ∃ p',
    AcceptedPassP ⟨100, ⟨4 / 5, 1 / 10000, 100⟩, 99 / 100, 4 / 5⟩ cfg .PrimalDual StepK.exPsd p' ∧
    TrajP ⟨100, ⟨4 / 5, 1 / 10000, 100⟩, 99 / 100, 4 / 5⟩ cfg StepK.exPsd [p', StepK.exPsd] := by
  obtain ⟨cfg, p', h⟩ := StepK.exPsd_acceptedPassP
  exact ⟨cfg, p', h, .step _ .start h⟩

/-- a pass without PSD blocks (`exNN`): the hypothesis of `accepted_pass_p_of_no_psd` -/
example : ∀ b ∈ exNN.blks, b.NotPsd := by
  intro b hb
  simp only [exNN, List.mem_singleton] at hb
  subst hb; trivial

end examples5

end Clarabel.C07

/-! ## Round 7: the per-pass PSD hypothesis reduced to the LAPACK contracts; the solver's own initialisations as base case for all seven cone kinds -/
namespace Clarabel.C07
open Clarabel Clarabel.StepK Clarabel.Loop Clarabel.Loop.Step

/-- [R] **`PSDTriangleCone::update_scaling` re-establishes the Nesterov–Todd contract.**  If
`update_scaling(s, z)` of a non-empty PSD cone (any previous scaling state `K0`) returns `true` with
the scaling `K`, and its three LAPACK results meet their contracts `ScalingLapackOk` — `?potrf`
twice: `mat s = L₁L₁ᵀ`, `mat z = L₂L₂ᵀ`; `?gesdd`: `L₂ᵀL₁ = U·diag σ·Vt`, `UᵀU = I`, `Vt·Vtᵀ = I`,
`σ > 0` — then `NtOk K z s` (`W z = λ = W⁻ᵀ s` as `svec(diag λ)`, `R·R⁻¹ = I`, sizes) and
`Λisqrt = Λ^{-1/2} > 0` hold, the cone keeps its order and the order is positive.  The slice
lengths and the sizes of the LAPACK outputs are not assumed: they follow from the success of the
call (`sizeGuard`s of the model = the `assert`s / slice lengths of the code). -/
theorem update_scaling_reestablishes_nt (K0 K : PsdTri.Cone ℝ) (s z L1 L2 U Vt sig : Array ℝ)
    (hs : s.isEmpty = false)
    (h : PsdTri.updateScaling K0 s z ⟨some L1, some L2, some (U, Vt, sig)⟩ = .ok (true, K))
    (hc : ScalingLapackOk K.n s z L1 L2 U Vt sig) :
    K.n = K0.n ∧ 0 < K.n ∧ PsdStep.NtOk K z s ∧ PsdStep.ScalingOk K.n K.lam K.lamIsqrt :=
  StepK.updateScaling_lapack_nt K0 K s z L1 L2 U Vt sig hs h hc

/-- [R] **`PsdPassOk` from the LAPACK contracts of the pass.**  `LapackPassOk q`: for every PSD block
`.psd K γz γs z s dz ds` of the pass's iterate-with-direction `q` (non-empty cone), `K` is what this
pass's `update_scaling(s, z)` left behind on its success path from LAPACK results meeting
`ScalingLapackOk` (Cholesky ×2, SVD), and both `?syevr` calls of `step_length` answered with the
least eigenvalue of the matrix handed over (`IsMinEig`, Rayleigh form).  Nothing else: `NtOk`,
`Λisqrt = Λ^{-1/2}`, `n > 0` of `PsdPassOk` are derived (`update_scaling_reestablishes_nt`). -/
theorem lapack_pass_ok_implies_psd_pass_ok {q : Pt ℝ} (h : LapackPassOk q) : PsdPassOk q :=
  h.psdPassOk

/-- [R] `C07.step_in_unit` / accepted pass, **all seven cone kinds, LAPACK contracts only**:
`AcceptedPassL` is `AcceptedPass` plus `LapackPassOk q`.  From an iterate interior for all cone
kinds the new iterate is interior again and
`0 < a`, `min_terminate_step_length < a ≤ α ≤ f·min(1, ατ, ακ) ≤ f < 1`. -/
theorem accepted_step_interior_lapack {c : StepCfg} (hc : c.Ok) {cfg : Loop.Config ℝ}
    {sc : Loop.Scaling} {p p' : Pt ℝ} (h : AcceptedPassL c cfg sc p p') (hI : p.InteriorAllP) :
    p'.InteriorAllP ∧ ∃ q α a, Pt.SamePoint p q ∧ p' = StepK.addStep q a ∧
      StepK.calcStepLength c.maxValue c.ls q true c.f = .ok α ∧
      0 < a ∧ cfg.minTerminateStepLength < a ∧ a ≤ α ∧
      α ≤ c.f * alphaMax q.τ q.κ q.dτ q.dκ c.maxValue ∧ α ≤ c.f ∧ a < 1 :=
  h.interiorAllP hc hI

/-- [R] `C07.all_iterates_interior`, **all seven cone kinds, the per-pass hypothesis being ONLY the
LAPACK contracts of that pass's calls** (`TrajL`: `Traj` with `AcceptedPassL`; Cholesky ×2 and SVD in
`update_scaling`, `?syevr` ×2 in `step_length`).  Strengthens `all_iterates_interior_all_cones`
(whose `PsdPassOk` also assumed `NtOk`). -/
theorem all_iterates_interior_lapack {c : StepCfg} (hc : c.Ok) {cfg : Loop.Config ℝ} {p0 : Pt ℝ}
    (h0 : p0.InteriorAllP) {l : List (Pt ℝ)} (h : TrajL c cfg p0 l) : ∀ p ∈ l, p.InteriorAllP :=
  h.interiorAllP hc h0

/-- [R] a `TrajL` is a `TrajP` (hence a `Traj`): the LAPACK contracts imply `PsdPassOk` pass by pass -/
theorem traj_l_is_traj_p {c : StepCfg} {cfg : Loop.Config ℝ} {p0 : Pt ℝ} {l : List (Pt ℝ)}
    (h : TrajL c cfg p0 l) : TrajP c cfg p0 l :=
  h.toTrajP

/-- [S] without PSD blocks the hypothesis is void: every `AcceptedPass` is an `AcceptedPassL` -/
theorem accepted_pass_l_of_no_psd {c : StepCfg} {cfg : Loop.Config ℝ} {sc : Loop.Scaling}
    {p p' : Pt ℝ} (h : AcceptedPass c cfg sc p p') (hn : ∀ b ∈ p.blks, b.NotPsd) :
    AcceptedPassL c cfg sc p p' :=
  h.toL hn

/-- [R] `PSDTriangleCone::unit_initialization` on one slice of the cone's length: the result
(zero fill, then `+1` at the packed diagonal positions) is `svec(I)` — `mat` of it is the identity on
the leading `n × n` part — and positive definite. -/
theorem unit_initialization_psd_interior (n : Nat) (z : Array ℝ)
    (hz : z.size = PsdIndex.triangularNumber n) :
    ∃ z', PsdIndex.scaledUnitShift n (z.map (fun _ => (0 : ℝ))) 1 = .ok z' ∧
      z'.size = PsdIndex.triangularNumber n ∧ PsdStep.PosDef n (PsdTri.svecToMat z') ∧
      ∀ i j, i < n → j < n → PsdTri.svecToMat z' i j = if i = j then 1 else 0 :=
  StepK.psd_unit_posDef n z hz

/-- [R] `C07.init_interior` (problems with a nonsymmetric cone), **all seven cone kinds**: after
`unit_initialization` the iterate is interior (`Pt.InteriorAllP`) with `τ = κ = 1`
(`Blk.UnitShapeAll`: as `Blk.UnitShapeG`, and PSD slices of the cone's length `n(n+1)/2`).
Extends `init_interior_unit_genpow`. -/
theorem init_interior_unit_all_cones (p : Pt ℝ) (h : ∀ b ∈ p.blks, b.UnitShapeAll) :
    ∃ p', StepK.unitInitialization p = .ok p' ∧ p'.InteriorAllP ∧ p'.τ = 1 ∧ p'.κ = 1 :=
  StepK.unit_init_interiorAllP p h

/-- [R] `C07.init_interior` (symmetric problems), **PSD cones included**: after
`symmetric_initialization` — `_shift_to_cone_interior` on `s` and on `z`, `τ = κ = 1` — the iterate is
interior, for any `(x, s, z)` the initial KKT solve produced and any list of zero / nonnegative /
second-order / PSD cones, provided the eigenvalue lists `?syevr` returned for the PSD blocks of `s`
and of `z` in `margins` meet their contract (`EigContracts`: present, non-empty, least entry a
lower Rayleigh bound of `mat(block)`).  Extends `init_interior_symmetric`. -/
theorem init_interior_symmetric_all_cones (specs : List Composite.Spec) (x z s : Array ℝ)
    (eigZ eigS : List (Option (Array ℝ))) (hs : ∀ sp ∈ specs, Composite.SymSpecE sp)
    (hz : Composite.totalNumel specs ≤ z.size) (hss : Composite.totalNumel specs ≤ s.size)
    (hcz : Composite.EigContracts specs z eigZ) (hcs : Composite.EigContracts specs s eigS) :
    ∃ z' s' pz ps, Composite.shiftToConeInteriorE specs s true eigS = .ok s' ∧
      Composite.shiftToConeInteriorE specs z false eigZ = .ok z' ∧
      Composite.cut specs z' = .ok pz ∧ Composite.cut specs s' = .ok ps ∧
      (⟨x, #[], blksOf pz ps, 1, 1, 0, 0⟩ : Pt ℝ).InteriorAllP :=
  StepK.symmetric_init_interiorAllP specs x z s eigZ eigS hs hz hss hcz hcs

/-- [R] `C07.all_iterates_interior`, **all seven cone kinds, from `unit_initialization`**: every
iterate of every solve that starts from `unit_initialization` (the start of problems with a
nonsymmetric cone; PSD blocks `s = z = svec(I)`) is interior for all cone kinds, the only
assumption on the numerics being the LAPACK contracts of each accepted pass's calls. -/
theorem all_iterates_interior_from_unit_init {c : StepCfg} (hc : c.Ok) {cfg : Loop.Config ℝ}
    (p p0 : Pt ℝ) (hsh : ∀ b ∈ p.blks, b.UnitShapeAll) (h0 : StepK.unitInitialization p = .ok p0)
    {l : List (Pt ℝ)} (h : TrajL c cfg p0 l) : ∀ q ∈ l, q.InteriorAllP :=
  StepK.TrajL.interiorAllP_unit hc p p0 hsh h0 h

/-- [R] `C07.all_iterates_interior`, **from `symmetric_initialization` with PSD cones**: every
iterate of every solve of a problem over zero / nonnegative / second-order / PSD cones that starts
from the two shifts (PSD margins from `?syevr`'s eigenvalues, under that call's contract) is
interior, the accepted passes meeting the LAPACK contracts of their calls. -/
theorem all_iterates_interior_from_symmetric_init {c : StepCfg} (hc : c.Ok) {cfg : Loop.Config ℝ}
    (specs : List Composite.Spec) (x z s z' s' : Array ℝ) (eigZ eigS : List (Option (Array ℝ)))
    (pz ps : List (Composite.Spec × Array ℝ)) (hs : ∀ sp ∈ specs, Composite.SymSpecE sp)
    (hz : Composite.totalNumel specs ≤ z.size) (hss : Composite.totalNumel specs ≤ s.size)
    (hcz : Composite.EigContracts specs z eigZ) (hcs : Composite.EigContracts specs s eigS)
    (e1 : Composite.shiftToConeInteriorE specs s true eigS = .ok s')
    (e2 : Composite.shiftToConeInteriorE specs z false eigZ = .ok z')
    (c2 : Composite.cut specs z' = .ok pz) (c1 : Composite.cut specs s' = .ok ps) {l : List (Pt ℝ)}
    (h : TrajL c cfg (⟨x, #[], blksOf pz ps, 1, 1, 0, 0⟩ : Pt ℝ) l) : ∀ q ∈ l, q.InteriorAllP :=
  StepK.TrajL.interiorAllP_symmetric hc specs x z s z' s' eigZ eigS pz ps hs hz hss hcz hcs e1 e2 c2 c1 h

/-- [R] **an accepted pass has had every `eigvals` call of its non-empty PSD blocks answered.**  If
`calc_step_length` returned `α`, `get_step_length` returned `a` (`α` or a barrier back-track of it)
and `strategy_checkpoint_small_step` let `a` through to `add_step`, then for every PSD block of order
`n > 0` of the pass neither `γz` nor `γs` is `none`: a failed `?syevr` makes
`step_length_psd_component` return `0`, the composite step is a minimum over the cones, so `a ≤ α ≤ 0`
and the checkpoint does not answer `NoUpdate`.  No hypothesis on the other cones or on the
directions. -/
theorem accepted_pass_eigvals_answered {c : StepCfg} (hc : c.Ok) {cfg : Loop.Config ℝ}
    {sc : Loop.Scaling} {q p' : Pt ℝ} {α a : ℝ}
    (hcalc : StepK.calcStepLength c.maxValue c.ls q true c.f = .ok α)
    (hbt : Backtracked c.btStep α a) (hacc : StepK.acceptStep cfg sc q a = some p')
    (K : PsdTri.Cone ℝ) (γz γs : Option ℝ) (z s dz ds : Array ℝ)
    (hb : Blk.psd K γz γs z s dz ds ∈ q.blks) (hn : 0 < K.n) : γz ≠ none ∧ γs ≠ none :=
  StepK.accepted_eigvals_answered hc hcalc hbt hacc K γz γs z s dz ds hb hn

/-- [R] hence the LAPACK contracts may be taken in **conditional form** (`LapackPassSound`: the
factorisation contracts of `update_scaling`, and each `?syevr` answer right *whenever* the call
answers): an accepted pass under them is an `AcceptedPassL` -/
theorem accepted_pass_s_is_l {c : StepCfg} (hc : c.Ok) {cfg : Loop.Config ℝ} {sc : Loop.Scaling}
    {p p' : Pt ℝ} (h : AcceptedPassS c cfg sc p p') : AcceptedPassL c cfg sc p p' :=
  h.toL hc

/-- [R] a `TrajS` is a `TrajL` (so `all_iterates_interior_from_unit_init` /
`all_iterates_interior_from_symmetric_init` apply to it), and conversely -/
theorem traj_s_iff_traj_l {c : StepCfg} (hc : c.Ok) {cfg : Loop.Config ℝ} {p0 : Pt ℝ} {l : List (Pt ℝ)} :
    TrajS c cfg p0 l ↔ TrajL c cfg p0 l :=
  ⟨fun h => h.toTrajL hc, fun h => h.toTrajS⟩

/-- [R] `C07.all_iterates_interior`, all seven cone kinds, under the conditional LAPACK contracts
(`TrajS`) -/
theorem all_iterates_interior_lapack_sound {c : StepCfg} (hc : c.Ok) {cfg : Loop.Config ℝ} {p0 : Pt ℝ}
    (h0 : p0.InteriorAllP) {l : List (Pt ℝ)} (h : TrajS c cfg p0 l) : ∀ p ∈ l, p.InteriorAllP :=
  h.interiorAllP hc h0

/-! ### non-vacuity -/
section examples7

/-- `accepted_pass_eigvals_answered`: the accepted pass `exPassL` with its PSD block of order 1 -/
example : ∃ cfg : Loop.Config ℝ, ∃ p',
    StepK.calcStepLength (100 : ℝ) ⟨4 / 5, 1 / 10000, 100⟩ StepK.exPassL true (99 / 100) = .ok (99 / 200) ∧
    Backtracked (4 / 5) (99 / 200) (99 / 200) ∧
    StepK.acceptStep cfg .PrimalDual StepK.exPassL (99 / 200) = some p' ∧
    Blk.psd StepK.exKL (some (-2)) (some (-2)) #[1] #[1] #[-2] #[-2] ∈ StepK.exPassL.blks ∧
    0 < StepK.exKL.n :=
  StepK.exPassL_accept_parts

/-- `accepted_pass_s_is_l` / `all_iterates_interior_lapack_sound`: an `AcceptedPassS` and a two-point
`TrajS` from the start `unit_initialization` produced -/
example : ∃ cfg : Loop.Config ℝ, ∃ p',
    AcceptedPassS ⟨100, ⟨4 / 5, 1 / 10000, 100⟩, 99 / 100, 4 / 5⟩ cfg .PrimalDual StepK.exStartL p' ∧
    TrajS ⟨100, ⟨4 / 5, 1 / 10000, 100⟩, 99 / 100, 4 / 5⟩ cfg StepK.exStartL [p', StepK.exStartL] := by
  obtain ⟨cfg, p', h⟩ := StepK.exPassL_accepted
  exact ⟨cfg, p', h.toS, .step _ .start h.toS⟩

/-- `update_scaling_reestablishes_nt`: at `s = z = (1)` with `L₁ = L₂ = U = Vt = σ = (1)` the call
succeeds and the contracts hold -/
example : (#[1] : Array ℝ).isEmpty = false ∧
    PsdTri.updateScaling StepK.exKL (#[1] : Array ℝ) #[1] ⟨some #[1], some #[1], some (#[1], #[1], #[1])⟩
      = .ok (true, StepK.exKL) ∧
    ScalingLapackOk StepK.exKL.n (#[1] : Array ℝ) #[1] #[1] #[1] #[1] #[1] #[1] :=
  ⟨rfl, StepK.exKL_update, StepK.exKL_lapack⟩

/-- `lapack_pass_ok_implies_psd_pass_ok`: a pass with a nonnegative and a PSD block meeting
`LapackPassOk` -/
example : LapackPassOk StepK.exPassL := StepK.exPassL_lapack

/-- `accepted_step_interior_lapack` / `all_iterates_interior_lapack` /
`all_iterates_interior_from_unit_init`: `unit_initialization` of a problem with a nonnegative and a
`1 × 1` PSD block, then one accepted pass (`calc_step_length = 0.99 · ½`) whose LAPACK results meet
their contracts — a two-point `TrajL` from the solver's own start -/
example : ∃ (cfg : Loop.Config ℝ) (p' : Pt ℝ),
    (∀ b ∈ StepK.exInitL.blks, b.UnitShapeAll) ∧
    StepK.unitInitialization StepK.exInitL = .ok StepK.exStartL ∧
    TrajL ⟨100, ⟨4 / 5, 1 / 10000, 100⟩, 99 / 100, 4 / 5⟩ cfg StepK.exStartL [p', StepK.exStartL] :=
  StepK.exTrajL_unit

/-- …and the start is interior for all cone kinds, the pass an `AcceptedPassL` -/
example : StepK.exStartL.InteriorAllP ∧ ∃ cfg : Loop.Config ℝ, ∃ p',
    AcceptedPassL ⟨100, ⟨4 / 5, 1 / 10000, 100⟩, 99 / 100, 4 / 5⟩ cfg .PrimalDual StepK.exStartL p' := by
  obtain ⟨p', e, hI, _, _⟩ := StepK.unit_init_interiorAllP StepK.exInitL StepK.exInitL_shape
  rw [StepK.exInitL_unit] at e
  cases e
  exact ⟨hI, StepK.exPassL_accepted⟩

/-- `unit_initialization_psd_interior`: a slice of the length of the `2 × 2` cone -/
example : (#[7, 8, 9] : Array ℝ).size = PsdIndex.triangularNumber 2 := rfl

/-- `init_interior_symmetric_all_cones` / `all_iterates_interior_from_symmetric_init`: an NN cone and
a `1 × 1` PSD cone, `z = (−1, 2 | −3)` with eigenvalue list `(−3)`, `s = (1, 1 | 5)` with `(5)` -/
example : (∀ sp ∈ [Composite.Spec.nonneg 2, .psd 1], Composite.SymSpecE sp) ∧
    Composite.totalNumel [.nonneg 2, .psd 1] ≤ (#[-1, 2, -3] : Array ℝ).size ∧
    Composite.totalNumel [.nonneg 2, .psd 1] ≤ (#[1, 1, 5] : Array ℝ).size ∧
    Composite.EigContracts [.nonneg 2, .psd 1] (#[-1, 2, -3] : Array ℝ) [none, some #[-3]] ∧
    Composite.EigContracts [.nonneg 2, .psd 1] (#[1, 1, 5] : Array ℝ) [none, some #[5]] :=
  StepK.exSymInit_hyps

/-- …with the one-point trajectory from the shifted start -/
example : ∃ z' s' pz ps,
    Composite.shiftToConeInteriorE [.nonneg 2, .psd 1] (#[1, 1, 5] : Array ℝ) true [none, some #[5]] = .ok s' ∧
    Composite.shiftToConeInteriorE [.nonneg 2, .psd 1] (#[-1, 2, -3] : Array ℝ) false [none, some #[-3]] = .ok z' ∧
    Composite.cut [.nonneg 2, .psd 1] z' = .ok pz ∧ Composite.cut [.nonneg 2, .psd 1] s' = .ok ps ∧
    TrajL ⟨100, ⟨4 / 5, 1 / 10000, 100⟩, 99 / 100, 4 / 5⟩
      (⟨10, 0, false, ⟨0, 0, 0, 0, 0, 0⟩, ⟨0, 0, 0, 0, 0, 0⟩, 1 / 10, 1 / 10000, true, true, true⟩ :
        Loop.Config ℝ) (⟨#[], #[], blksOf pz ps, 1, 1, 0, 0⟩ : Pt ℝ)
      [(⟨#[], #[], blksOf pz ps, 1, 1, 0, 0⟩ : Pt ℝ)] := by
  obtain ⟨h1, h2, h3, h4, h5⟩ := StepK.exSymInit_hyps
  obtain ⟨z', s', pz, ps, e1, e2, c2, c1, _⟩ :=
    StepK.symmetric_init_interiorAllP [.nonneg 2, .psd 1] #[] #[-1, 2, -3] #[1, 1, 5] [none, some #[-3]]
      [none, some #[5]] h1 h2 h3 h4 h5
  exact ⟨z', s', pz, ps, e1, e2, c2, c1, .start⟩

/-- a pass without PSD blocks (`exNN`): the hypothesis of `accepted_pass_l_of_no_psd` -/
example : ∀ b ∈ exNN.blks, b.NotPsd := by
  intro b hb
  simp only [exNN, List.mem_singleton] at hb
  subst hb; trivial

end examples7

end Clarabel.C07
