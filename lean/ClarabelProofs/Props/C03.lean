/-
  C03 — the solver's report about its own result is truthful and self-consistent.
  Property theorems and non-vacuity examples only.
-/
import ClarabelProofs.Lemmas.InfoConv
import ClarabelProofs.Lemmas.InfoCert
import ClarabelProofs.Lemmas.InfoLengths
import ClarabelModel.Unscale
import Mathlib.Tactic.NormNum
import ClarabelProofs.Lemmas.SolverModelRefine
import ClarabelProofs.Lemmas.SolverModelExample

namespace Clarabel.C03
open Clarabel.Dense Clarabel.Info Finset

section structural
variable {α : Type} [Mul α] [Div α] [Neg α] [OfNat α 1] [OfNat α 100] [OfNat α 1000]
  [LT α] [DecidableLT α] [LE α] [DecidableLE α]

/-- **[S] `C03.almost_only_if`** (any scalar type).  `Info.post_process` produces an
`Almost*` status out of a non-`Almost*` one only when the status was an error / iteration
limit / time limit, and only when the corresponding test holds with the *reduced*
tolerances on the `info` fields. -/
theorem almost_only_if (i : InfoS α) (bz qx : α) (s : Settings α)
    (h0 : i.status.isAlmost = false)
    (h : (Info.postProcess i bz qx s).status.isAlmost = true) :
    (i.status.isErrored = true ∨ i.status = .maxIterations ∨ i.status = .maxTime)
    ∧ (((Info.postProcess i bz qx s).status = .almostSolved
          ∧ i.ktratio ≤ 1
          ∧ (i.gap_abs < s.reduced.gap_abs ∨ i.gap_rel < s.reduced.gap_rel)
          ∧ i.res_primal < s.reduced.feas ∧ i.res_dual < s.reduced.feas)
       ∨ ((Info.postProcess i bz qx s).status = .almostPrimalInfeasible
          ∧ i.ktratio > (1 / s.reduced.ktratio) * 1000
          ∧ bz < -s.reduced.infeas_abs ∧ i.res_primal_inf < -s.reduced.infeas_rel * bz)
       ∨ ((Info.postProcess i bz qx s).status = .almostDualInfeasible
          ∧ i.ktratio > (1 / s.reduced.ktratio) * 1000
          ∧ qx < -s.reduced.infeas_abs ∧ i.res_dual_inf < -s.reduced.infeas_rel * qx)) := by
  unfold Info.postProcess at h ⊢
  by_cases hc : (i.status.isErrored || i.status == .maxIterations || i.status == .maxTime) = true
  · rw [if_pos hc] at h ⊢
    constructor
    · simp only [Bool.or_eq_true, beq_iff_eq] at hc
      rcases hc with (hc | hc) | hc
      · exact Or.inl hc
      · exact Or.inr (Or.inl hc)
      · exact Or.inr (Or.inr hc)
    · unfold checkConvergenceAlmost at h ⊢
      rcases checkConvergence_cases i bz qx s.reduced .almostSolved .almostPrimalInfeasible
          .almostDualInfeasible with hh | hh | hh | hh
      · left
        rw [hh.1]
        have := (isSolved_iff i _ _ _).mp hh.2.2
        exact ⟨rfl, hh.2.1, this.1, this.2.1, this.2.2⟩
      · right; left
        rw [hh.1]
        have := (isPrimalInfeasible_iff i _ _ _).mp hh.2.2.2
        exact ⟨rfl, hh.2.2.1, this.1, this.2⟩
      · right; right
        rw [hh.1]
        have := (isDualInfeasible_iff i _ _ _).mp hh.2.2.2.2
        exact ⟨rfl, hh.2.2.1, this.1, this.2⟩
      · rw [hh] at h
        rw [h0] at h
        cases h
  · rw [if_neg hc] at h
    rw [h0] at h
    cases h

/-- **[S] `C03.termination_never_almost`.**  `check_termination` never assigns an `Almost*`
status: `Almost*` can only originate in `post_process`. -/
theorem termination_never_almost [FloatLike α] (i : InfoS α) (bz qx : α) (s : Settings α)
    (iter : Nat) (tov : Bool) (h0 : i.status.isAlmost = false) :
    (checkTermination i bz qx s iter tov).1.status.isAlmost = false := by
  have hconv : (checkConvergenceFull i bz qx s).status.isAlmost = false := by
    unfold checkConvergenceFull
    rcases checkConvergence_cases i bz qx s.full .solved .primalInfeasible .dualInfeasible with
      hh | hh | hh | hh
    · rw [hh.1]; rfl
    · rw [hh.1]; rfl
    · rw [hh.1]; rfl
    · rw [hh]; exact h0
  unfold checkTermination
  simp only
  generalize checkConvergenceFull i bz qx s = j at hconv ⊢
  repeat' split
  all_goals first | exact hconv | rfl

/-- **[S] `C03.reset_after_save`.**  `save_prev_iterate` followed — after arbitrary updates
of the *current* fields — by `reset_to_prev_iterate` restores exactly the six scalars that
were current when the iterate was saved: the restored scalars and the restored variables
(copied in the same two calls) describe one and the same iterate. -/
theorem reset_after_save (i j : InfoS α)
    (hj : j.prev_cost_primal = (savePrev i).prev_cost_primal
        ∧ j.prev_cost_dual = (savePrev i).prev_cost_dual
        ∧ j.prev_res_primal = (savePrev i).prev_res_primal
        ∧ j.prev_res_dual = (savePrev i).prev_res_dual
        ∧ j.prev_gap_abs = (savePrev i).prev_gap_abs
        ∧ j.prev_gap_rel = (savePrev i).prev_gap_rel) :
    (resetToPrev j).cost_primal = i.cost_primal ∧ (resetToPrev j).cost_dual = i.cost_dual
    ∧ (resetToPrev j).res_primal = i.res_primal ∧ (resetToPrev j).res_dual = i.res_dual
    ∧ (resetToPrev j).gap_abs = i.gap_abs ∧ (resetToPrev j).gap_rel = i.gap_rel
    ∧ (resetToPrev j).ktratio = j.ktratio
    ∧ (resetToPrev j).res_primal_inf = j.res_primal_inf
    ∧ (resetToPrev j).res_dual_inf = j.res_dual_inf := by
  obtain ⟨h1, h2, h3, h4, h5, h6⟩ := hj
  exact ⟨h1, h2, h3, h4, h5, h6, rfl, rfl, rfl⟩

end structural

/-- **[S] `C03.update_assigns`** (any scalar type, `Float` included).  What `Info.update`
assigns, field by field: these are the expressions whose exact-arithmetic meaning
`report_matches_point` / `report_residuals` / `C02.primal_cert` identify with the user-space
quantities (`Vec.normScaled x v = sqrt Σ (xᵢvᵢ)²`).  `status` and `iterations` are untouched. -/
theorem update_assigns {α : Type} [Add α] [Sub α] [Mul α] [Div α] [Neg α] [OfNat α 0] [OfNat α 1] [OfNat α 2]
    [LT α] [DecidableLT α] [FloatLike α] (i i' : InfoS α) (eq : Equil α) (normq normb : α) (v : Residuals.Vars α) (r : Residuals.Resid α)
    (h : Info.update i eq normq normb v r = .ok i') :
    let τinv := 1 / v.τ
    let cinv := 1 / eq.c
    let nx := Vec.normScaled v.x eq.d
    let nz := Vec.normScaled v.z eq.e * cinv
    let ns := Vec.normScaled v.s eq.einv
    i'.cost_primal = (r.dot_qx * τinv + r.dot_xPx * τinv * τinv / 2) * cinv
    ∧ i'.cost_dual = (-r.dot_bz * τinv - r.dot_xPx * τinv * τinv / 2) * cinv
    ∧ i'.res_primal_inf = (Vec.normScaled r.rx_inf eq.dinv * cinv) / fmax 1 nz
    ∧ i'.res_dual_inf = fmax (Vec.normScaled r.Px eq.dinv / fmax 1 nx)
                             (Vec.normScaled r.rz_inf eq.einv / fmax 1 (nx + ns))
    ∧ i'.res_primal = Vec.normScaled r.rz eq.einv * τinv / fmax 1 (normb + nx * τinv + ns * τinv)
    ∧ i'.res_dual = Vec.normScaled r.rx eq.dinv * τinv * cinv / fmax 1 (normq + nx * τinv + nz * τinv)
    ∧ i'.gap_abs = fabs (i'.cost_primal - i'.cost_dual)
    ∧ i'.gap_rel = i'.gap_abs / fmax 1 (fmin (fabs i'.cost_primal) (fabs i'.cost_dual))
    ∧ i'.ktratio = v.κ * τinv
    ∧ i'.status = i.status ∧ i'.iterations = i.iterations :=
  Info.update_fields i i' eq normq normb v r h

section post
variable {β : Type} [Mul β] [Div β] [OfNat β 0] [OfNat β 1]

/-- **[S] `C03.lengths` / `C03.iterations_field`.**  On every non-panicking path of
`Solution.post_process` (with or without presolve reversal) the returned vectors keep the
lengths of the solution object — `n`, `m`, `m` of the user's problem for
`DefaultSolution::new(n, m)` — and `iterations`, `status`, `r_prim`, `r_dual` are copies of
the `info` fields. -/
theorem lengths (n m : Nat) (eq : Equil β) (pm : Option (Unscale.PresolveMap β))
    (v : Residuals.Vars β) (i : InfoS β) (r : Unscale.Solution β × Residuals.Vars β)
    (h : Unscale.postProcess (Unscale.Solution.new n m) eq pm v i = .ok r) :
    r.1.x.size = n ∧ r.1.s.size = m ∧ r.1.z.size = m
    ∧ r.1.iterations = i.iterations ∧ r.1.status = i.status
    ∧ r.1.r_prim = some i.res_primal ∧ r.1.r_dual = some i.res_dual := by
  unfold Unscale.postProcess at h
  cases pm with
  | some p =>
    simp only [bind, Except.bind, pure, Except.pure] at h
    split at h
    · cases h
    · rename_i sol' hs
      unfold Unscale.reversePresolve at hs
      simp only [bind, Except.bind, pure, Except.pure] at hs
      split at hs
      · cases hs
      · rename_i x' hx
        split at hs
        · cases hs
        · rename_i sz hsz
          obtain ⟨s', z'⟩ := sz
          have hsize := Unscale.reverseLoop_size _ _ _ _ _ _ _ _ _ _ hsz
          have hxs := Unscale.copyFrom_size _ _ _ hx
          cases hs; cases h
          refine ⟨?_, ?_, ?_, rfl, rfl, rfl, rfl⟩
          · simpa [Unscale.Solution.new] using hxs
          · simpa [Unscale.Solution.new] using hsize.1
          · simpa [Unscale.Solution.new] using hsize.2
  | none =>
    simp only [bind, Except.bind, pure, Except.pure] at h
    split at h
    · cases h
    · rename_i x' hx
      split at h
      · cases h
      · rename_i z' hz
        split at h
        · cases h
        · rename_i s' hs
          have h1 := Unscale.copyFrom_size _ _ _ hx
          have h2 := Unscale.copyFrom_size _ _ _ hz
          have h3 := Unscale.copyFrom_size _ _ _ hs
          cases h
          refine ⟨?_, ?_, ?_, rfl, rfl, rfl, rfl⟩
          · simpa [Unscale.Solution.new] using h1
          · simpa [Unscale.Solution.new] using h3
          · simpa [Unscale.Solution.new] using h2

end post

section field
variable {α : Type} [Field α] [LinearOrder α] [IsStrictOrderedRing α] {n m : ℕ}

/-- **[F] `C03.report_matches_point`.**  For a non-infeasible terminal status, if the `info`
costs are the values `Info.update` assigns to the iterate `(x̂, ẑ, τ)` that is un-scaled
into the solution, then the reported `obj_val`, `obj_val_dual` are `½xᵀPx + qᵀx` and
`−bᵀz − ½xᵀPx` of the returned point on the user's data. -/
theorem report_matches_point (p : Problem α n m) (sc : Scaling α n m)
    (xh : Fin n → α) (zh : Fin m → α) (τ : α) (hc : 0 < sc.c) (hτ : 0 < τ)
    (sol : Unscale.Solution α) (eq : Equil α) (pm : Option (Unscale.PresolveMap α))
    (v : Residuals.Vars α) (i : InfoS α) (r : Unscale.Solution α × Residuals.Vars α)
    (hcp : i.cost_primal = costPrimal p sc xh τ) (hcd : i.cost_dual = costDual p sc xh zh τ)
    (hst : i.status.isInfeasible = false)
    (h : Unscale.postProcess sol eq pm v i = .ok r) :
    r.1.obj_val = some (dot (unX sc τ xh) (mulV p.P (unX sc τ xh)) / 2 + dot p.q (unX sc τ xh))
    ∧ r.1.obj_val_dual
        = some (-dot p.b (unZ sc τ zh) - dot (unX sc τ xh) (mulV p.P (unX sc τ xh)) / 2) := by
  have key : r.1.obj_val = some i.cost_primal ∧ r.1.obj_val_dual = some i.cost_dual := by
    unfold Unscale.postProcess at h
    rw [hst] at h
    cases pm with
    | some pp =>
      simp only [bind, Except.bind, pure, Except.pure] at h
      split at h
      · cases h
      · rename_i sol' hs
        unfold Unscale.reversePresolve at hs
        simp only [bind, Except.bind, pure, Except.pure] at hs
        split at hs
        · cases hs
        · split at hs
          · cases hs
          · cases hs; cases h; exact ⟨rfl, rfl⟩
    | none =>
      simp only [bind, Except.bind, pure, Except.pure] at h
      repeat' split at h
      all_goals first | (cases h; first | exact ⟨rfl, rfl⟩ | simp_all) | cases h
  have hcu := Clarabel.Dense.cost_identities p sc xh zh τ hc.ne' hτ.ne'
  rw [key.1, key.2, hcp, hcd, hcu.1, hcu.2]
  exact ⟨rfl, rfl⟩

end field


/-- **[F/R] `C03.report_residuals`** (over `ℝ`).  The numbers reported as `r_prim`, `r_dual`
*are* the documented normalised residuals of the returned point on the user's data:
`‖Ax+s−b‖₂ / max(1, ‖b‖∞+‖x‖₂+‖s‖₂)` and `‖Px+Aᵀz+q‖₂ / max(1, ‖q‖∞+‖x‖₂+‖z‖₂)`. -/
theorem report_residuals {n m : ℕ} (p : Problem ℝ n m) (sc : Scaling ℝ n m) (xh : Fin n → ℝ)
    (sh zh : Fin m → ℝ) (τ normb normq : ℝ)
    (hd : ∀ j, 0 < sc.d j) (he : ∀ i, 0 < sc.e i) (hc : 0 < sc.c) (hτ : 0 < τ) :
    resPrimal p sc xh sh τ normb
        = nrm (fun i => mulV p.A (unX sc τ xh) i + unS sc τ sh i - p.b i)
            / max 1 (normb + nrm (unX sc τ xh) + nrm (unS sc τ sh))
    ∧ resDual p sc xh zh τ normq
        = nrm (fun j => mulV p.P (unX sc τ xh) j + mulVT p.A (unZ sc τ zh) j + p.q j)
            / max 1 (normq + nrm (unX sc τ xh) + nrm (unZ sc τ zh)) :=
  res_identities p sc xh sh zh τ normb normq hd he hc hτ

/-! ### non-vacuity -/

/-- an `info` that ran out of iterations and meets the reduced test becomes `AlmostSolved` -/
def exInfo : InfoS ℚ :=
  { cost_primal := 1, cost_dual := 1, res_primal := 1/1000, res_dual := 1/1000, res_primal_inf := 1,
    res_dual_inf := 1, gap_abs := 1/1000, gap_rel := 1/1000, ktratio := 1/2, prev_cost_primal := 0,
    prev_cost_dual := 0, prev_res_primal := 0, prev_res_dual := 0, prev_gap_abs := 0,
    prev_gap_rel := 0, iterations := 5, status := .maxIterations }
def exFull : Tols ℚ :=
  { gap_abs := 1/100000, gap_rel := 1/100000, feas := 1/100000, infeas_abs := 1/100000,
    infeas_rel := 1/100000, ktratio := 1/1000 }
def exReduced : Tols ℚ :=
  { gap_abs := 1/100, gap_rel := 1/100, feas := 1/100, infeas_abs := 1/100, infeas_rel := 1/100,
    ktratio := 1/100 }

example : exInfo.status.isAlmost = false
    ∧ (Info.postProcess exInfo 0 0 { full := exFull, reduced := exReduced, max_iter := 5 }).status
        = .almostSolved := by
  constructor
  · rfl
  · norm_num [Info.postProcess, checkConvergenceAlmost, checkConvergence, isSolved, exInfo, exReduced,
      SolverStatus.isErrored]


/-- witness `info` over `ℕ` (structural theorems hold for every scalar type) -/
def exInfoNat : InfoS Nat :=
  { cost_primal := 7, cost_dual := 6, res_primal := 1, res_dual := 2, res_primal_inf := 0,
    res_dual_inf := 0, gap_abs := 1, gap_rel := 1, ktratio := 0, prev_cost_primal := 0,
    prev_cost_dual := 0, prev_res_primal := 0, prev_res_dual := 0, prev_gap_abs := 0,
    prev_gap_rel := 0, iterations := 4, status := .primalInfeasible }

/-- `Solution.post_process` succeeds on a concrete input with a presolve map (3 rows, the
middle one dropped): the hypotheses `… = .ok r` of the structural theorems are satisfiable,
the objective is NaN (`none`) for the infeasible status, lengths are `1, 3, 3`. -/
example :
    (Unscale.postProcess (Unscale.Solution.new 1 3)
      { d := #[2], dinv := #[1], e := #[1, 3], einv := #[1, 1], c := 1 }
      (some { keep := #[true, false, true], infbound := 99 })
      { x := #[5], s := #[1, 2], z := #[3, 4], τ := 1, κ := 1 } exInfoNat).toOption.map
        (fun r => (r.1.x, r.1.s, r.1.z, r.1.obj_val, r.1.iterations))
    = some (#[10], #[1, 99, 2], #[3, 0, 12], none, 4) := by
  decide +kernel

end Clarabel.C03

/-! ## The full model (`ClarabelModel/Solver/Solve.lean`: `DefaultSolver::new` + `solve()`)

Theorems about the composed executable model that the channels `solve.setup / solve.init /
solve.full / solve.twice` of `harness/src/bin/solver.rs` compare bit for bit with the
implementation.  Class [S]: they hold at `Float`.  Helper lemmas: `Lemmas/SolverModel*.lean`. -/
namespace Clarabel.C03
open Clarabel Clarabel.Solver

set_option linter.unusedSectionVars false

section full
variable {α : Type} [Add α] [Sub α] [Mul α] [Div α] [Neg α] [OfNat α 0] [OfNat α 1] [OfNat α 2]
  [OfNat α 100] [OfNat α 1000] [LT α] [DecidableLT α] [LE α] [DecidableLE α] [BEq α] [FloatLike α]

/-- **[S] `C03.full_iterations_eq_kkt_updates`.**  On the full model the iteration count reported
in `solution.iterations` (= `info.iterations`) is the number of KKT updates performed during the
solve, i.e. the number of passes of the loop that reached `kktsystem.update` (`kktUpdates`: the
pass records carrying a `kktSuccess` flag) — on every way out of the loop: convergence or
infeasibility verdict, iteration limit, insufficient-progress rollback, failed scaling update,
failed KKT solve (`NumericalError`) and too short a step.  On the last two the count is set by
the final `save_scalars`, which the code guards with `α == 0`; the hypothesis says that this
comparison of the literal `0` with itself is `true` on the scalar type (it is for `f64`). -/
theorem full_iterations_eq_kkt_updates {S : Solver α} {st : Solver.Settings α} {r : SolveResult α}
    (hbeq : ((0 : α) == 0) = true) (h : S.solve st = .ok r) :
    r.S.solution.iterations = kktUpdates r.traj ∧ r.S.st.info.iterations = kktUpdates r.traj := by
  obtain ⟨L, hL, ht, hi, _, hit, _⟩ := solve_inv h
  have := (finishInfo_spec (runSolve_exit hL)).2.2 hbeq
  rw [hit, hi, ht]
  exact ⟨this, this⟩

/-- **[S] `C03.full_solution_lengths`** (`solution_lengths`).  On the full model — `DefaultSolver::new`
followed by any number of `solve()` calls (here: one, and one more) — the returned `x`, `s`, `z`
have the user's lengths `n = A.n`, `m = A.m`, `m`, also when cones were collapsed and rows were
dropped by the presolver (they are restored by `reverse_presolve`); the settings of the solves
need not be the ones of `new`. -/
theorem full_solution_lengths {P : Csc α} {q : Array α} {A : Csc α} {b : Array α}
    {cones : List (ConeT α)} {st0 st1 st2 : Solver.Settings α} {perm : Array Nat} {S : Solver α}
    {r1 : SolveResult α} (hn : Solver.new P q A b cones st0 perm = .ok S) (h1 : S.solve st1 = .ok r1) :
    (r1.S.solution.x.size = A.n ∧ r1.S.solution.s.size = A.m ∧ r1.S.solution.z.size = A.m)
    ∧ ∀ r2, r1.S.solve st2 = .ok r2 →
        r2.S.solution.x.size = A.n ∧ r2.S.solution.s.size = A.m ∧ r2.S.solution.z.size = A.m := by
  have hsol : S.solution = Unscale.Solution.new A.n A.m := by
    unfold Solver.new at hn
    obtain ⟨_, _, hn⟩ := bind_ok_inv hn
    obtain ⟨_, _, hn⟩ := bind_ok_inv hn
    cases hn
    rfl
  obtain ⟨_, _, _, _, _, _, hx, hs, hz⟩ := solve_inv h1
  have e1 : r1.S.solution.x.size = A.n := by rw [hx, hsol]; simp [Unscale.Solution.new]
  have e2 : r1.S.solution.s.size = A.m := by rw [hs, hsol]; simp [Unscale.Solution.new]
  have e3 : r1.S.solution.z.size = A.m := by rw [hz, hsol]; simp [Unscale.Solution.new]
  refine ⟨⟨e1, e2, e3⟩, fun r2 h2 => ?_⟩
  obtain ⟨_, _, _, _, _, _, hx2, hs2, hz2⟩ := solve_inv h2
  exact ⟨hx2.trans e1, hs2.trans e2, hz2.trans e3⟩

end full

/-! non-vacuity of the two theorems: a concrete run of the full model in the kernel (`Int`) -/
section fullExamples
open Clarabel.Solver.Example
attribute [local instance] intFloatLike

/-- `new` and `solve()` succeed on the example (hypotheses `hn`, `h1`, `h`): `Solved` after one
iteration, two passes -/
example : (run 3).toOption.map (fun r => (r.passes, r.S.solution.status, r.S.solution.iterations))
    = some (2, .solved, 1) := run3
/-- `0 == 0` on the example's scalar type -/
example : ((0 : Int) == 0) = true := by decide

end fullExamples

end Clarabel.C03
