/-
  C03 — the solver's report about its own result is truthful and self-consistent.
  Property theorems and non-vacuity examples only.
-/
import ClarabelProofs.Lemmas.InfoConv
import ClarabelProofs.Lemmas.InfoCert
import ClarabelProofs.Lemmas.InfoLengths
import ClarabelModel.Unscale
import Mathlib.Tactic.NormNum
import ClarabelProofs.Lemmas.SolverModelRefine
import ClarabelProofs.Lemmas.SolverModelExample
import ClarabelProofs.Lemmas.InfoReport
import ClarabelProofs.Lemmas.InfoReportExample
import ClarabelProofs.Lemmas.SolverReport
import ClarabelModel.InfoReset
import ClarabelProofs.Props.C03Full2
import ClarabelProofs.Props.C03NS
import ClarabelProofs.Props.C03Total
import ClarabelProofs.Props.C03NSTotal

namespace Clarabel.C03
open Clarabel.Dense Clarabel.Info Finset

section structural
variable {α : Type} [Mul α] [Div α] [Neg α] [OfNat α 1] [OfNat α 100] [OfNat α 1000]
  [LT α] [DecidableLT α] [LE α] [DecidableLE α]

/-- **[S] `C03.almost_only_if`** (any scalar type).  `Info.post_process` produces an
`Almost*` status out of a non-`Almost*` one only when the status was an error / iteration
limit / time limit, and only when the corresponding test holds with the *reduced*
tolerances on the `info` fields. -/
theorem almost_only_if (i : InfoS α) (bz qx : α) (s : Settings α)
    (h0 : i.status.isAlmost = false)
    (h : (Info.postProcess i bz qx s).status.isAlmost = true) :
    (i.status.isErrored = true ∨ i.status = .maxIterations ∨ i.status = .maxTime)
    ∧ (((Info.postProcess i bz qx s).status = .almostSolved
          ∧ i.ktratio ≤ 1
          ∧ (i.gap_abs < s.reduced.gap_abs ∨ i.gap_rel < s.reduced.gap_rel)
          ∧ i.res_primal < s.reduced.feas ∧ i.res_dual < s.reduced.feas)
       ∨ ((Info.postProcess i bz qx s).status = .almostPrimalInfeasible
          ∧ i.ktratio > (1 / s.reduced.ktratio) * 1000
          ∧ bz < -s.reduced.infeas_abs ∧ i.res_primal_inf < -s.reduced.infeas_rel * bz)
       ∨ ((Info.postProcess i bz qx s).status = .almostDualInfeasible
          ∧ i.ktratio > (1 / s.reduced.ktratio) * 1000
          ∧ qx < -s.reduced.infeas_abs ∧ i.res_dual_inf < -s.reduced.infeas_rel * qx)) := by
  unfold Info.postProcess at h ⊢
  by_cases hc : (i.status.isErrored || i.status == .maxIterations || i.status == .maxTime) = true
  · rw [if_pos hc] at h ⊢
    constructor
    · simp only [Bool.or_eq_true, beq_iff_eq] at hc
      rcases hc with (hc | hc) | hc
      · exact Or.inl hc
      · exact Or.inr (Or.inl hc)
      · exact Or.inr (Or.inr hc)
    · unfold checkConvergenceAlmost at h ⊢
      rcases checkConvergence_cases i bz qx s.reduced .almostSolved .almostPrimalInfeasible
          .almostDualInfeasible with hh | hh | hh | hh
      · left
        rw [hh.1]
        have := (isSolved_iff i _ _ _).mp hh.2.2
        exact ⟨rfl, hh.2.1, this.1, this.2.1, this.2.2⟩
      · right; left
        rw [hh.1]
        have := (isPrimalInfeasible_iff i _ _ _).mp hh.2.2.2
        exact ⟨rfl, hh.2.2.1, this.1, this.2⟩
      · right; right
        rw [hh.1]
        have := (isDualInfeasible_iff i _ _ _).mp hh.2.2.2.2
        exact ⟨rfl, hh.2.2.1, this.1, this.2⟩
      · rw [hh] at h
        rw [h0] at h
        cases h
  · rw [if_neg hc] at h
    rw [h0] at h
    cases h

/-- **[S] `C03.termination_never_almost`.**  `check_termination` never assigns an `Almost*`
status: `Almost*` can only originate in `post_process`. -/
theorem termination_never_almost [FloatLike α] (i : InfoS α) (bz qx : α) (s : Settings α)
    (iter : Nat) (tov : Bool) (h0 : i.status.isAlmost = false) :
    (checkTermination i bz qx s iter tov).1.status.isAlmost = false := by
  have hconv : (checkConvergenceFull i bz qx s).status.isAlmost = false := by
    unfold checkConvergenceFull
    rcases checkConvergence_cases i bz qx s.full .solved .primalInfeasible .dualInfeasible with
      hh | hh | hh | hh
    · rw [hh.1]; rfl
    · rw [hh.1]; rfl
    · rw [hh.1]; rfl
    · rw [hh]; exact h0
  unfold checkTermination
  simp only
  generalize checkConvergenceFull i bz qx s = j at hconv ⊢
  repeat' split
  all_goals first | exact hconv | rfl

/-- **[S] `C03.reset_after_save`.**  `save_prev_iterate` followed — after arbitrary updates
of the *current* fields — by `reset_to_prev_iterate` restores exactly the six scalars that
were current when the iterate was saved: the restored scalars and the restored variables
(copied in the same two calls) describe one and the same iterate. -/
theorem reset_after_save (i j : InfoS α)
    (hj : j.prev_cost_primal = (savePrev i).prev_cost_primal
        ∧ j.prev_cost_dual = (savePrev i).prev_cost_dual
        ∧ j.prev_res_primal = (savePrev i).prev_res_primal
        ∧ j.prev_res_dual = (savePrev i).prev_res_dual
        ∧ j.prev_gap_abs = (savePrev i).prev_gap_abs
        ∧ j.prev_gap_rel = (savePrev i).prev_gap_rel) :
    (resetToPrev j).cost_primal = i.cost_primal ∧ (resetToPrev j).cost_dual = i.cost_dual
    ∧ (resetToPrev j).res_primal = i.res_primal ∧ (resetToPrev j).res_dual = i.res_dual
    ∧ (resetToPrev j).gap_abs = i.gap_abs ∧ (resetToPrev j).gap_rel = i.gap_rel
    ∧ (resetToPrev j).ktratio = j.ktratio
    ∧ (resetToPrev j).res_primal_inf = j.res_primal_inf
    ∧ (resetToPrev j).res_dual_inf = j.res_dual_inf := by
  obtain ⟨h1, h2, h3, h4, h5, h6⟩ := hj
  exact ⟨h1, h2, h3, h4, h5, h6, rfl, rfl, rfl⟩

end structural

/-- **[S] `C03.update_assigns`** (any scalar type, `Float` included).  What `Info.update`
assigns, field by field: these are the expressions whose exact-arithmetic meaning
`report_matches_point` / `report_residuals` / `C02.primal_cert` identify with the user-space
quantities (`Vec.normScaled x v = sqrt Σ (xᵢvᵢ)²`).  `status` and `iterations` are untouched. -/
theorem update_assigns {α : Type} [Add α] [Sub α] [Mul α] [Div α] [Neg α] [OfNat α 0] [OfNat α 1] [OfNat α 2]
    [LT α] [DecidableLT α] [FloatLike α] (i i' : InfoS α) (eq : Equil α) (normq normb : α) (v : Residuals.Vars α) (r : Residuals.Resid α)
    (h : Info.update i eq normq normb v r = .ok i') :
    let τinv := 1 / v.τ
    let cinv := 1 / eq.c
    let nx := Vec.normScaled v.x eq.d
    let nz := Vec.normScaled v.z eq.e * cinv
    let ns := Vec.normScaled v.s eq.einv
    i'.cost_primal = (r.dot_qx * τinv + r.dot_xPx * τinv * τinv / 2) * cinv
    ∧ i'.cost_dual = (-r.dot_bz * τinv - r.dot_xPx * τinv * τinv / 2) * cinv
    ∧ i'.res_primal_inf = (Vec.normScaled r.rx_inf eq.dinv * cinv) / fmax 1 nz
    ∧ i'.res_dual_inf = fmax (Vec.normScaled r.Px eq.dinv / fmax 1 nx)
                             (Vec.normScaled r.rz_inf eq.einv / fmax 1 (nx + ns))
    ∧ i'.res_primal = Vec.normScaled r.rz eq.einv * τinv / fmax 1 (normb + nx * τinv + ns * τinv)
    ∧ i'.res_dual = Vec.normScaled r.rx eq.dinv * τinv * cinv / fmax 1 (normq + nx * τinv + nz * τinv)
    ∧ i'.gap_abs = fabs (i'.cost_primal - i'.cost_dual)
    ∧ i'.gap_rel = i'.gap_abs / fmax 1 (fmin (fabs i'.cost_primal) (fabs i'.cost_dual))
    ∧ i'.ktratio = v.κ * τinv
    ∧ i'.status = i.status ∧ i'.iterations = i.iterations :=
  Info.update_fields i i' eq normq normb v r h

section post
variable {β : Type} [Mul β] [Div β] [OfNat β 0] [OfNat β 1]

/-- **[S] `C03.lengths` / `C03.iterations_field`.**  On every non-panicking path of
`Solution.post_process` (with or without presolve reversal) the returned vectors keep the
lengths of the solution object — `n`, `m`, `m` of the user's problem for
`DefaultSolution::new(n, m)` — and `iterations`, `status`, `r_prim`, `r_dual` are copies of
the `info` fields. -/
theorem lengths (n m : Nat) (eq : Equil β) (pm : Option (Unscale.PresolveMap β))
    (v : Residuals.Vars β) (i : InfoS β) (r : Unscale.Solution β × Residuals.Vars β)
    (h : Unscale.postProcess (Unscale.Solution.new n m) eq pm v i = .ok r) :
    r.1.x.size = n ∧ r.1.s.size = m ∧ r.1.z.size = m
    ∧ r.1.iterations = i.iterations ∧ r.1.status = i.status
    ∧ r.1.r_prim = some i.res_primal ∧ r.1.r_dual = some i.res_dual := by
  unfold Unscale.postProcess at h
  cases pm with
  | some p =>
    simp only [bind, Except.bind, pure, Except.pure] at h
    split at h
    · cases h
    · rename_i sol' hs
      unfold Unscale.reversePresolve at hs
      simp only [bind, Except.bind, pure, Except.pure] at hs
      split at hs
      · cases hs
      · rename_i x' hx
        split at hs
        · cases hs
        · rename_i sz hsz
          obtain ⟨s', z'⟩ := sz
          have hsize := Unscale.reverseLoop_size _ _ _ _ _ _ _ _ _ _ hsz
          have hxs := Unscale.copyFrom_size _ _ _ hx
          cases hs; cases h
          refine ⟨?_, ?_, ?_, rfl, rfl, rfl, rfl⟩
          · simpa [Unscale.Solution.new] using hxs
          · simpa [Unscale.Solution.new] using hsize.1
          · simpa [Unscale.Solution.new] using hsize.2
  | none =>
    simp only [bind, Except.bind, pure, Except.pure] at h
    split at h
    · cases h
    · rename_i x' hx
      split at h
      · cases h
      · rename_i z' hz
        split at h
        · cases h
        · rename_i s' hs
          have h1 := Unscale.copyFrom_size _ _ _ hx
          have h2 := Unscale.copyFrom_size _ _ _ hz
          have h3 := Unscale.copyFrom_size _ _ _ hs
          cases h
          refine ⟨?_, ?_, ?_, rfl, rfl, rfl, rfl⟩
          · simpa [Unscale.Solution.new] using h1
          · simpa [Unscale.Solution.new] using h3
          · simpa [Unscale.Solution.new] using h2

end post

section field
variable {α : Type} [Field α] [LinearOrder α] [IsStrictOrderedRing α] {n m : ℕ}

/-- **[F] `C03.report_matches_point`.**  For a non-infeasible terminal status, if the `info`
costs are the values `Info.update` assigns to the iterate `(x̂, ẑ, τ)` that is un-scaled
into the solution, then the reported `obj_val`, `obj_val_dual` are `½xᵀPx + qᵀx` and
`−bᵀz − ½xᵀPx` of the returned point on the user's data. -/
theorem report_matches_point (p : Problem α n m) (sc : Scaling α n m)
    (xh : Fin n → α) (zh : Fin m → α) (τ : α) (hc : 0 < sc.c) (hτ : 0 < τ)
    (sol : Unscale.Solution α) (eq : Equil α) (pm : Option (Unscale.PresolveMap α))
    (v : Residuals.Vars α) (i : InfoS α) (r : Unscale.Solution α × Residuals.Vars α)
    (hcp : i.cost_primal = costPrimal p sc xh τ) (hcd : i.cost_dual = costDual p sc xh zh τ)
    (hst : i.status.isInfeasible = false)
    (h : Unscale.postProcess sol eq pm v i = .ok r) :
    r.1.obj_val = some (dot (unX sc τ xh) (mulV p.P (unX sc τ xh)) / 2 + dot p.q (unX sc τ xh))
    ∧ r.1.obj_val_dual
        = some (-dot p.b (unZ sc τ zh) - dot (unX sc τ xh) (mulV p.P (unX sc τ xh)) / 2) := by
  have key : r.1.obj_val = some i.cost_primal ∧ r.1.obj_val_dual = some i.cost_dual := by
    unfold Unscale.postProcess at h
    rw [hst] at h
    cases pm with
    | some pp =>
      simp only [bind, Except.bind, pure, Except.pure] at h
      split at h
      · cases h
      · rename_i sol' hs
        unfold Unscale.reversePresolve at hs
        simp only [bind, Except.bind, pure, Except.pure] at hs
        split at hs
        · cases hs
        · split at hs
          · cases hs
          · cases hs; cases h; exact ⟨rfl, rfl⟩
    | none =>
      simp only [bind, Except.bind, pure, Except.pure] at h
      repeat' split at h
      all_goals first | (cases h; first | exact ⟨rfl, rfl⟩ | simp_all) | cases h
  have hcu := Clarabel.Dense.cost_identities p sc xh zh τ hc.ne' hτ.ne'
  rw [key.1, key.2, hcp, hcd, hcu.1, hcu.2]
  exact ⟨rfl, rfl⟩

end field


/-- **[F/R] `C03.report_residuals`** (over `ℝ`).  The numbers reported as `r_prim`, `r_dual`
*are* the documented normalised residuals of the returned point on the user's data:
`‖Ax+s−b‖₂ / max(1, ‖b‖∞+‖x‖₂+‖s‖₂)` and `‖Px+Aᵀz+q‖₂ / max(1, ‖q‖∞+‖x‖₂+‖z‖₂)`. -/
theorem report_residuals {n m : ℕ} (p : Problem ℝ n m) (sc : Scaling ℝ n m) (xh : Fin n → ℝ)
    (sh zh : Fin m → ℝ) (τ normb normq : ℝ)
    (hd : ∀ j, 0 < sc.d j) (he : ∀ i, 0 < sc.e i) (hc : 0 < sc.c) (hτ : 0 < τ) :
    resPrimal p sc xh sh τ normb
        = nrm (fun i => mulV p.A (unX sc τ xh) i + unS sc τ sh i - p.b i)
            / max 1 (normb + nrm (unX sc τ xh) + nrm (unS sc τ sh))
    ∧ resDual p sc xh zh τ normq
        = nrm (fun j => mulV p.P (unX sc τ xh) j + mulVT p.A (unZ sc τ zh) j + p.q j)
            / max 1 (normq + nrm (unX sc τ xh) + nrm (unZ sc τ zh)) :=
  res_identities p sc xh sh zh τ normb normq hd he hc hτ

/-! ### non-vacuity -/

/-- an `info` that ran out of iterations and meets the reduced test becomes `AlmostSolved` -/
def exInfo : InfoS ℚ :=
  { cost_primal := 1, cost_dual := 1, res_primal := 1/1000, res_dual := 1/1000, res_primal_inf := 1,
    res_dual_inf := 1, gap_abs := 1/1000, gap_rel := 1/1000, ktratio := 1/2, prev_cost_primal := 0,
    prev_cost_dual := 0, prev_res_primal := 0, prev_res_dual := 0, prev_gap_abs := 0,
    prev_gap_rel := 0, iterations := 5, status := .maxIterations }
def exFull : Tols ℚ :=
  { gap_abs := 1/100000, gap_rel := 1/100000, feas := 1/100000, infeas_abs := 1/100000,
    infeas_rel := 1/100000, ktratio := 1/1000 }
def exReduced : Tols ℚ :=
  { gap_abs := 1/100, gap_rel := 1/100, feas := 1/100, infeas_abs := 1/100, infeas_rel := 1/100,
    ktratio := 1/100 }

example : exInfo.status.isAlmost = false
    ∧ (Info.postProcess exInfo 0 0 { full := exFull, reduced := exReduced, max_iter := 5 }).status
        = .almostSolved := by
  constructor
  · rfl
  · norm_num [Info.postProcess, checkConvergenceAlmost, checkConvergence, isSolved, exInfo, exReduced,
      SolverStatus.isErrored]


/-- witness `info` over `ℕ` (structural theorems hold for every scalar type) -/
def exInfoNat : InfoS Nat :=
  { cost_primal := 7, cost_dual := 6, res_primal := 1, res_dual := 2, res_primal_inf := 0,
    res_dual_inf := 0, gap_abs := 1, gap_rel := 1, ktratio := 0, prev_cost_primal := 0,
    prev_cost_dual := 0, prev_res_primal := 0, prev_res_dual := 0, prev_gap_abs := 0,
    prev_gap_rel := 0, iterations := 4, status := .primalInfeasible }

/-- `Solution.post_process` succeeds on a concrete input with a presolve map (3 rows, the
middle one dropped): the hypotheses `… = .ok r` of the structural theorems are satisfiable,
the objective is NaN (`none`) for the infeasible status, lengths are `1, 3, 3`. -/
example :
    (Unscale.postProcess (Unscale.Solution.new 1 3)
      { d := #[2], dinv := #[1], e := #[1, 3], einv := #[1, 1], c := 1 }
      (some { keep := #[true, false, true], infbound := 99 })
      { x := #[5], s := #[1, 2], z := #[3, 4], τ := 1, κ := 1 } exInfoNat).toOption.map
        (fun r => (r.1.x, r.1.s, r.1.z, r.1.obj_val, r.1.iterations))
    = some (#[10], #[1, 99, 2], #[3, 0, 12], none, 4) := by
  decide +kernel

end Clarabel.C03

/-! ## The full model (`ClarabelModel/Solver/Solve.lean`: `DefaultSolver::new` + `solve()`)

Theorems about the composed executable model that the channels `solve.setup / solve.init /
solve.full / solve.twice` of `harness/src/bin/solver.rs` compare bit for bit with the
implementation.  Class [S]: they hold at `Float`.  Helper lemmas: `Lemmas/SolverModel*.lean`. -/
namespace Clarabel.C03
open Clarabel Clarabel.Solver

set_option linter.unusedSectionVars false

section full
variable {α : Type} [Add α] [Sub α] [Mul α] [Div α] [Neg α] [OfNat α 0] [OfNat α 1] [OfNat α 2]
  [OfNat α 100] [OfNat α 1000] [LT α] [DecidableLT α] [LE α] [DecidableLE α] [BEq α] [FloatLike α]

/-- **[S] `C03.full_iterations_eq_kkt_updates`.**  On the full model the iteration count reported
in `solution.iterations` (= `info.iterations`) is the number of KKT updates performed during the
solve, i.e. the number of passes of the loop that reached `kktsystem.update` (`kktUpdates`: the
pass records carrying a `kktSuccess` flag) — on every way out of the loop: convergence or
infeasibility verdict, iteration limit, insufficient-progress rollback, failed scaling update,
failed KKT solve (`NumericalError`) and too short a step.  On the last two the count is set by
the final `save_scalars`, which the code guards with `α == 0`; the hypothesis says that this
comparison of the literal `0` with itself is `true` on the scalar type (it is for `f64`). -/
theorem full_iterations_eq_kkt_updates {S : Solver α} {st : Solver.Settings α} {r : SolveResult α}
    (hbeq : ((0 : α) == 0) = true) (h : S.solve st = .ok r) :
    r.S.solution.iterations = kktUpdates r.traj ∧ r.S.st.info.iterations = kktUpdates r.traj := by
  obtain ⟨L, hL, ht, hi, _, hit, _⟩ := solve_inv h
  have := (finishInfo_spec (runSolve_exit hL)).2.2 hbeq
  rw [hit, hi, ht]
  exact ⟨this, this⟩

/-- **[S] `C03.full_solution_lengths`** (`solution_lengths`).  On the full model — `DefaultSolver::new`
followed by any number of `solve()` calls (here: one, and one more) — the returned `x`, `s`, `z`
have the user's lengths `n = A.n`, `m = A.m`, `m`, also when cones were collapsed and rows were
dropped by the presolver (they are restored by `reverse_presolve`); the settings of the solves
need not be the ones of `new`. -/
theorem full_solution_lengths {P : Csc α} {q : Array α} {A : Csc α} {b : Array α}
    {cones : List (ConeT α)} {st0 st1 st2 : Solver.Settings α} {perm : Array Nat} {S : Solver α}
    {r1 : SolveResult α} (hn : Solver.new P q A b cones st0 perm = .ok S) (h1 : S.solve st1 = .ok r1) :
    (r1.S.solution.x.size = A.n ∧ r1.S.solution.s.size = A.m ∧ r1.S.solution.z.size = A.m)
    ∧ ∀ r2, r1.S.solve st2 = .ok r2 →
        r2.S.solution.x.size = A.n ∧ r2.S.solution.s.size = A.m ∧ r2.S.solution.z.size = A.m := by
  have hsol : S.solution = Unscale.Solution.new A.n A.m := by
    unfold Solver.new at hn
    obtain ⟨_, _, hn⟩ := bind_ok_inv hn
    obtain ⟨_, _, hn⟩ := bind_ok_inv hn
    cases hn
    rfl
  obtain ⟨_, _, _, _, _, _, hx, hs, hz⟩ := solve_inv h1
  have e1 : r1.S.solution.x.size = A.n := by rw [hx, hsol]; simp [Unscale.Solution.new]
  have e2 : r1.S.solution.s.size = A.m := by rw [hs, hsol]; simp [Unscale.Solution.new]
  have e3 : r1.S.solution.z.size = A.m := by rw [hz, hsol]; simp [Unscale.Solution.new]
  refine ⟨⟨e1, e2, e3⟩, fun r2 h2 => ?_⟩
  obtain ⟨_, _, _, _, _, _, hx2, hs2, hz2⟩ := solve_inv h2
  exact ⟨hx2.trans e1, hs2.trans e2, hz2.trans e3⟩

end full

/-! non-vacuity of the two theorems: a concrete run of the full model in the kernel (`Int`) -/
section fullExamples
open Clarabel.Solver.Example
attribute [local instance] intFloatLike

/-- `new` and `solve()` succeed on the example (hypotheses `hn`, `h1`, `h`): `Solved` after one
iteration, two passes -/
example : (run 3).toOption.map (fun r => (r.passes, r.S.solution.status, r.S.solution.iterations))
    = some (2, .solved, 1) := run3
/-- `0 == 0` on the example's scalar type -/
example : ((0 : Int) == 0) = true := by decide

end fullExamples

end Clarabel.C03


/-! ## Round 3 (second part) — the report on the USER's data, the `Almost*` clause on both paths,
nothing stale

Helper lemmas: `Lemmas/InfoFigures.lean` (who may write the six figures), `Lemmas/InfoReport.lean`
(the chain over `ℝ`), `Lemmas/InfoReportExample.lean` (non-vacuity), `Lemmas/SolverReport.lean`
(whole-solver model). -/
namespace Clarabel.C03
open Clarabel Clarabel.Dense Clarabel.InfoUser Clarabel.InfoReport Clarabel.Residuals Clarabel.Info Finset

section structural2
variable {β : Type} [Mul β] [Div β] [OfNat β 0] [OfNat β 1]

/-- **[S] `C03.report_nan_iff_infeasible`** (any scalar type).  After `Solution.post_process`, with
or without presolve reversal: `obj_val` is NaN (`none`) iff `obj_val_dual` is NaN iff the status is
one of the four infeasibility statuses; otherwise they are `info.cost_primal`, `info.cost_dual`;
`r_prim`, `r_dual`, `status`, `iterations` are copies of the `info` fields on every path
(`report_status_iterations_copied`). -/
theorem report_nan_iff_infeasible (sol : Unscale.Solution β) (eq : Equil β)
    (pm : Option (Unscale.PresolveMap β)) (v : Vars β) (i : InfoS β)
    (r : Unscale.Solution β × Vars β) (h : Unscale.postProcess sol eq pm v i = .ok r) :
    (r.1.obj_val = none ↔ i.status.isInfeasible = true)
    ∧ (r.1.obj_val_dual = none ↔ i.status.isInfeasible = true)
    ∧ (i.status.isInfeasible = false →
        r.1.obj_val = some i.cost_primal ∧ r.1.obj_val_dual = some i.cost_dual)
    ∧ r.1.r_prim = some i.res_primal ∧ r.1.r_dual = some i.res_dual
    ∧ r.1.status = i.status ∧ r.1.iterations = i.iterations := by
  obtain ⟨a, b, c, d, e, f⟩ := postProcess_scalars sol eq pm v i r h
  refine ⟨?_, ?_, ?_, c, d, e, f⟩
  · rw [a]; cases i.status.isInfeasible <;> simp
  · rw [b]; cases i.status.isInfeasible <;> simp
  · intro hi; rw [a, b, hi]; exact ⟨rfl, rfl⟩

/-- **[S] `C03.report_overwrites_solution`** (part of `report_not_stale`).  `Solution.post_process`
overwrites every scalar of the solution object: whatever an earlier solve left in `status`,
`obj_val`, `obj_val_dual`, `iterations`, `r_prim`, `r_dual` has no influence on the result. -/
theorem report_overwrites_solution (sol : Unscale.Solution β) (eq : Equil β)
    (pm : Option (Unscale.PresolveMap β)) (v : Vars β) (i : InfoS β)
    (st : SolverStatus) (o1 o2 r1 r2 : Option β) (k : Nat) :
    Unscale.postProcess { sol with status := st, obj_val := o1, obj_val_dual := o2, iterations := k,
                                   r_prim := r1, r_dual := r2 } eq pm v i
      = Unscale.postProcess sol eq pm v i :=
  postProcess_overwrites sol eq pm v i st o1 o2 r1 r2 k

end structural2

section figures
variable {α : Type} [Mul α] [Div α] [Neg α] [OfNat α 1] [OfNat α 100] [OfNat α 1000]
  [LT α] [DecidableLT α] [LE α] [DecidableLE α]

/-- **[S] `C03.status_changes_keep_figures`** (any scalar type).  Between `Info.update` and
`Solution.post_process` nothing writes the six figures of the report: `check_termination` and
`Info::post_process` return the info they were given up to `status`; `save_prev_iterate` followed
by `reset_to_prev_iterate` returns the figures that were saved. -/
theorem status_changes_keep_figures [FloatLike α] (i : InfoS α) (bz qx : α) (s : Settings α) (iter : Nat)
    (tov : Bool) :
    (∃ st, (checkTermination i bz qx s iter tov).1 = { i with status := st })
    ∧ (∃ st, Info.postProcess i bz qx s = { i with status := st })
    ∧ SameFigures (resetToPrev (savePrev i)) i :=
  ⟨checkTermination_eq_status i bz qx s iter tov, postProcess_eq_status i bz qx s,
   sameFigures_resetToPrev (prevIs_savePrev i)⟩

end figures

section reset
variable {α : Type} [Add α] [Sub α] [Mul α] [Div α] [Neg α] [OfNat α 0] [OfNat α 1] [OfNat α 2]
  [LT α] [DecidableLT α] [FloatLike α]

/-- **[S] `C03.reset_then_update_not_stale`** (`report_not_stale`, component form; any scalar
type).  `info.reset` at the start of a solve followed by the first `save_scalars` / `Info.update`
leaves nothing of the previous solve in the fields `Solution.post_process` reads (nor in any
other field but `prev_*`): started from two arbitrary old `info` blocks `i₁`, `i₂`, the results
agree in `status` (= `Unsolved`), `iterations`, the nine figures.  A `reset` that forgot `status`
(or `iterations`) falsifies this. -/
theorem reset_then_update_not_stale (i₁ i₂ j₁ j₂ : InfoS α) (eq : Equil α) (normq normb : α)
    (v : Vars α) (r : Resid α) (k : Nat)
    (h₁ : Info.update (saveScalars (reset i₁) k) eq normq normb v r = .ok j₁)
    (h₂ : Info.update (saveScalars (reset i₂) k) eq normq normb v r = .ok j₂) :
    j₁.status = .unsolved ∧ j₁.iterations = k
    ∧ j₁.status = j₂.status ∧ j₁.iterations = j₂.iterations
    ∧ j₁.cost_primal = j₂.cost_primal ∧ j₁.cost_dual = j₂.cost_dual
    ∧ j₁.res_primal = j₂.res_primal ∧ j₁.res_dual = j₂.res_dual
    ∧ j₁.res_primal_inf = j₂.res_primal_inf ∧ j₁.res_dual_inf = j₂.res_dual_inf
    ∧ j₁.gap_abs = j₂.gap_abs ∧ j₁.gap_rel = j₂.gap_rel ∧ j₁.ktratio = j₂.ktratio := by
  have f₁ := Info.update_fields _ _ _ _ _ _ _ h₁
  have f₂ := Info.update_fields _ _ _ _ _ _ _ h₂
  simp only at f₁ f₂
  obtain ⟨a1, a2, a3, a4, a5, a6, a7, a8, a9, a10, a11⟩ := f₁
  obtain ⟨b1, b2, b3, b4, b5, b6, b7, b8, b9, b10, b11⟩ := f₂
  have c1 : j₁.cost_primal = j₂.cost_primal := a1.trans b1.symm
  have c2 : j₁.cost_dual = j₂.cost_dual := a2.trans b2.symm
  have c7 : j₁.gap_abs = j₂.gap_abs := by rw [a7, b7, c1, c2]
  refine ⟨a10, a11, a10.trans b10.symm, a11.trans b11.symm, c1, c2, a5.trans b5.symm,
    a6.trans b6.symm, a3.trans b3.symm, a4.trans b4.symm, c7, ?_, a9.trans b9.symm⟩
  rw [a8, b8, c7, c1, c2]

end reset

section userdata

/-- **[R] `C03.report_on_user_data`** (`report_obj_val` + `report_residuals`, end to end).  `dt`: the
data as `DefaultProblemData::new` leaves them (`UserData`); `dt'`: what the model's own
`Equil.equilibrate` returns; `r`: what `Residuals.update` returns on the internal data for the
iterate `v` (`τ > 0`); `info'`: what `Info.update` assigns; `ifin`: the info handed to
`Solution.post_process` — any info with the six figures of `info'` (`status_changes_keep_figures`:
everything in between changes `status` only) and a non-infeasible status, i.e. EVERY terminal
status `Solved`, `AlmostSolved`, `MaxIterations`, `MaxTime`, `NumericalError`,
`InsufficientProgress`.  Then for the `x, s, z` that `Solution.post_process` returns and the USER's
`P, q, A, b` (dense meaning of `dt.P` — the symmetric matrix whose triangle it holds —, `dt.q`,
`dt.A`, `dt.b`):
`obj_val = ½xᵀPx + qᵀx`, `obj_val_dual = −bᵀz − ½xᵀPx`,
`r_prim = ‖Ax+s−b‖₂ / max(1, normb+‖x‖₂+‖s‖₂)`, `r_dual = ‖Px+Aᵀz+q‖₂ / max(1, normq+‖x‖₂+‖z‖₂)`,
`info.gap_abs = |obj_val − obj_val_dual|`,
`info.gap_rel = gap_abs / max(1, min(|obj_val|, |obj_val_dual|))`, status and iterations are those
of `ifin`, and `|x| = n`, `|s| = |z| = m`.  (`normb`, `normq`: the numbers handed to `Info.update`,
the cached `‖b‖∞`, `‖q‖∞` — `C01.cached_norms_are_users`.) -/
theorem report_on_user_data (dt dt' : ProblemData ℝ) (cones : List (ConeT ℝ))
    (es : Equil.Settings ℝ) (hu : UserData dt cones es)
    (heq : Equil.equilibrate dt cones es = .ok dt')
    (v : Vars ℝ) (r0 r : Resid ℝ) (hsh : StateShapes dt.n dt.m v r0) (hτ : 0 < v.τ)
    (hr : Residuals.update r0 v (toResidData dt') = .ok r)
    (i i' : InfoS ℝ) (normq normb : ℝ)
    (hi : Info.update i (toInfoEquil dt'.equilibration) normq normb v r = .ok i')
    (ifin : InfoS ℝ) (hfig : SameFigures ifin i') (hst : ifin.status.isInfeasible = false)
    (sol : Unscale.Solution ℝ) (out : Unscale.Solution ℝ × Vars ℝ)
    (hpost : Unscale.postProcess sol (toInfoEquil dt'.equilibration) none v ifin = .ok out) :
    let p := problemOf dt.P dt.q dt.A dt.b dt.n dt.m
    let x := vecFn out.1.x dt.n
    let sv := vecFn out.1.s dt.m
    let z := vecFn out.1.z dt.m
    let pobj := dot x (mulV p.P x) / 2 + dot p.q x
    let dobj := -dot p.b z - dot x (mulV p.P x) / 2
    out.1.obj_val = some pobj
    ∧ out.1.obj_val_dual = some dobj
    ∧ out.1.r_prim = some (nrm (fun k => mulV p.A x k + sv k - p.b k) / max 1 (normb + nrm x + nrm sv))
    ∧ out.1.r_dual = some (nrm (fun j => mulV p.P x j + mulVT p.A z j + p.q j) / max 1 (normq + nrm x + nrm z))
    ∧ ifin.gap_abs = |pobj - dobj|
    ∧ ifin.gap_rel = |pobj - dobj| / max 1 (min |pobj| |dobj|)
    ∧ out.1.status = ifin.status ∧ out.1.iterations = ifin.iterations
    ∧ out.1.x.size = dt.n ∧ out.1.s.size = dt.m ∧ out.1.z.size = dt.m :=
  report_chain dt dt' cones es hu heq v r0 r hsh hτ hr i i' normq normb hi ifin hfig hst sol out hpost

/-- **[R] `C03.report_on_user_data_presolved`** — rows dropped by presolve.  If `ov, od, rp, rd` are
the documented expressions of the un-scaled REDUCED point on the reduced data `(P, q, A', b')`
(the conclusion of `report_on_user_data` for the problem the solver works on, `A' =
A.select_rows(keep)`, `b' = b.select(keep)`), then for the full-length vectors the model's
`reverse_presolve` returns they are the documented expressions on the user's FULL `(P, q, A, b)`:
`obj_val`, `obj_val_dual` (dropped rows have `z = 0` and contribute nothing to `bᵀz`) and `r_dual`
verbatim; `r_prim` with the residual norm and `‖s‖` taken over the kept rows (dropped rows:
`s = infbound`).  Composes C09's `reduced_problem_dense` with `reverse_presolve`'s specification. -/
theorem report_on_user_data_presolved {n m mr : ℕ} (keepL : List Bool)
    (hm : keepL.length = m) (hmr : keepL.count true = mr)
    (P : Fin n → Fin n → ℝ) (q : Fin n → ℝ)
    (A A' : Csc ℝ) (b : Array ℝ) (hAc : C16.Canonical A) (hAm : A.m = m) (hAn : A.n = n)
    (hb : b.size = m) (hsel : A.selectRows keepL.toArray = .ok A')
    (infbound : ℝ) (sol r : Unscale.Solution ℝ) (vout : Vars ℝ)
    (hrev : Unscale.reversePresolve { keep := keepL.toArray, infbound := infbound } sol vout = .ok r)
    (normb normq ov od rp rd : ℝ)
    (hov : ov = dot (vecFn vout.x n) (mulV P (vecFn vout.x n)) / 2 + dot q (vecFn vout.x n))
    (hod : od = -dot (vecFn (Vec.select b keepL.toArray) mr) (vecFn vout.z mr)
                  - dot (vecFn vout.x n) (mulV P (vecFn vout.x n)) / 2)
    (hrp : rp = nrm (fun k => mulV (matFn A' mr n) (vecFn vout.x n) k + vecFn vout.s mr k
                  - vecFn (Vec.select b keepL.toArray) mr k)
              / max 1 (normb + nrm (vecFn vout.x n) + nrm (vecFn vout.s mr)))
    (hrd : rd = nrm (fun j => mulV P (vecFn vout.x n) j + mulVT (matFn A' mr n) (vecFn vout.z mr) j + q j)
              / max 1 (normq + nrm (vecFn vout.x n) + nrm (vecFn vout.z mr))) :
    let x := vecFn r.x n
    let s := vecFn r.s m
    let z := vecFn r.z m
    let keep := InfoPresolve.keepFn keepL m
    ov = dot x (mulV P x) / 2 + dot q x
    ∧ od = -dot (vecFn b m) z - dot x (mulV P x) / 2
    ∧ rp = InfoPresolve.nrmKept keep (fun i => mulV (matFn A m n) x i + s i - vecFn b m i)
            / max 1 (normb + nrm x + InfoPresolve.nrmKept keep s)
    ∧ rd = nrm (fun j => mulV P x j + mulVT (matFn A m n) z j + q j) / max 1 (normq + nrm x + nrm z)
    ∧ ∀ i, keep i = false → s i = infbound ∧ z i = 0 :=
  report_presolved keepL hm hmr P q A A' b hAc hAm hAn hb hsel infbound sol r vout hrev normb normq
    ov od rp rd hov hod hrp hrd

/-- **[R] `C03.almost_only_when_reduced_met`** — the `AlmostSolved` clause on the path WITHOUT
rollback, end to end.  `j`: the info the loop leaves for the LAST iterate `v` (the `Info.update`
result `info'` up to status changes), not yet `AlmostSolved`.  If `Info::post_process` makes it
`AlmostSolved`, the point that is returned (`Variables.unscale v`) passes the documented
termination test with the REDUCED tolerances on the USER's data.  (`almost_only_if`: `Almost*`
arises nowhere else; the `Almost*Infeasible` verdicts are
`C02.{primal,dual}_infeasible_certifies_user_problem` with `almost := true`.) -/
theorem almost_only_when_reduced_met (dt dt' : ProblemData ℝ) (cones : List (ConeT ℝ))
    (es : Equil.Settings ℝ) (hu : UserData dt cones es)
    (heq : Equil.equilibrate dt cones es = .ok dt')
    (v : Vars ℝ) (r0 r : Resid ℝ) (hsh : StateShapes dt.n dt.m v r0) (hτ : 0 < v.τ)
    (hr : Residuals.update r0 v (toResidData dt') = .ok r)
    (i i' : InfoS ℝ) (normq normb : ℝ)
    (hi : Info.update i (toInfoEquil dt'.equilibration) normq normb v r = .ok i')
    (j : InfoS ℝ) (hfig : SameFigures j i') (bz qx : ℝ) (s : Settings ℝ)
    (h0 : j.status ≠ .almostSolved)
    (h : (Info.postProcess j bz qx s).status = .almostSolved) :
    let out := Unscale.unscale v (toInfoEquil dt'.equilibration) false
    let p := problemOf dt.P dt.q dt.A dt.b dt.n dt.m
    let x := vecFn out.x dt.n
    let sv := vecFn out.s dt.m
    let z := vecFn out.z dt.m
    let pobj := dot x (mulV p.P x) / 2 + dot p.q x
    let dobj := -dot p.b z - dot x (mulV p.P x) / 2
    nrm (fun k => mulV p.A x k + sv k - p.b k) / max 1 (normb + nrm x + nrm sv) < s.reduced.feas
    ∧ nrm (fun j => mulV p.P x j + mulVT p.A z j + p.q j) / max 1 (normq + nrm x + nrm z) < s.reduced.feas
    ∧ (|pobj - dobj| < s.reduced.gap_abs
        ∨ |pobj - dobj| / max 1 (min |pobj| |dobj|) < s.reduced.gap_rel) :=
  almost_solved_chain dt dt' cones es hu heq v r0 r hsh hτ hr i i' normq normb hi j hfig bz qx s h0 h

/-- **[R] `C03.almost_solved_after_rollback_consistent`** — the `AlmostSolved` clause on the
insufficient-progress ROLLBACK path, decided: the verdict IS judged on the restored iterate.
Pass `k`: `Info.update` assigns `ip'` for the iterate `vp`; the loop goes on
(`save_prev_iterate` on an info `a` carrying the figures of `ip'`; `add_step`).  Pass `k+1`: the
info `idisc` of the new iterate still has `prev_* =` those figures (`Info.update` does not touch
`prev_*`), `check_termination` says `InsufficientProgress`, `reset_to_prev_iterate` restores the
six figures and the variables `vp`, `Info::post_process` runs.  If it says `AlmostSolved`, then
(1) the six figures of the final info — hence `obj_val`, `obj_val_dual`, `r_prim`, `r_dual` by
`report_on_user_data` — are those of `vp`, and (2) the point that is returned, `unscale vp`,
passes the REDUCED documented test on the USER's data.  (Contrast `C02.rollback_counterexample`:
`ktratio`, `res_*_inf`, `dot_bz/qx` are NOT restored; `is_solved` reads none of them except
`ktratio ≤ 1`, which is not part of the documented test.) -/
theorem almost_solved_after_rollback_consistent (dt dt' : ProblemData ℝ) (cones : List (ConeT ℝ))
    (es : Equil.Settings ℝ) (hu : UserData dt cones es)
    (heq : Equil.equilibrate dt cones es = .ok dt')
    (vp : Vars ℝ) (r0 rp : Resid ℝ) (hsh : StateShapes dt.n dt.m vp r0) (hτ : 0 < vp.τ)
    (hr : Residuals.update r0 vp (toResidData dt') = .ok rp)
    (i ip' : InfoS ℝ) (normq normb : ℝ)
    (hi : Info.update i (toInfoEquil dt'.equilibration) normq normb vp rp = .ok ip')
    (a : InfoS ℝ) (ha : SameFigures a ip')
    (idisc : InfoS ℝ) (hprev : PrevIs idisc (savePrev a))
    (bz qx : ℝ) (s : Settings ℝ) (iter : Nat) (tov : Bool)
    (hip : (checkTermination idisc bz qx s iter tov).1.status = .insufficientProgress)
    (h : (Info.postProcess (resetToPrev (checkTermination idisc bz qx s iter tov).1) bz qx s).status
          = .almostSolved) :
    let ifin := Info.postProcess (resetToPrev (checkTermination idisc bz qx s iter tov).1) bz qx s
    let out := Unscale.unscale vp (toInfoEquil dt'.equilibration) false
    let p := problemOf dt.P dt.q dt.A dt.b dt.n dt.m
    let x := vecFn out.x dt.n
    let sv := vecFn out.s dt.m
    let z := vecFn out.z dt.m
    let pobj := dot x (mulV p.P x) / 2 + dot p.q x
    let dobj := -dot p.b z - dot x (mulV p.P x) / 2
    SameFigures ifin ip'
    ∧ nrm (fun k => mulV p.A x k + sv k - p.b k) / max 1 (normb + nrm x + nrm sv) < s.reduced.feas
    ∧ nrm (fun j => mulV p.P x j + mulVT p.A z j + p.q j) / max 1 (normq + nrm x + nrm z) < s.reduced.feas
    ∧ (|pobj - dobj| < s.reduced.gap_abs
        ∨ |pobj - dobj| / max 1 (min |pobj| |dobj|) < s.reduced.gap_rel) :=
  almost_solved_rollback_chain dt dt' cones es hu heq vp r0 rp hsh hτ hr i ip' normq normb hi a ha
    idisc hprev bz qx s iter tov hip h

end userdata

/-! ### non-vacuity of the end-to-end theorems (instances: `Lemmas/InfoReportExample.lean`) -/

/-- ALL hypotheses of `report_on_user_data` hold simultaneously (status `MaxIterations`) -/
example : ∃ (dt dt' : ProblemData ℝ) (cones : List (ConeT ℝ)) (es : Equil.Settings ℝ) (v : Vars ℝ)
    (r0 r : Resid ℝ) (i i' ifin : InfoS ℝ) (normq normb : ℝ) (sol : Unscale.Solution ℝ)
    (out : Unscale.Solution ℝ × Vars ℝ),
    UserData dt cones es ∧ Equil.equilibrate dt cones es = .ok dt'
    ∧ StateShapes dt.n dt.m v r0 ∧ 0 < v.τ
    ∧ Residuals.update r0 v (toResidData dt') = .ok r
    ∧ Info.update i (toInfoEquil dt'.equilibration) normq normb v r = .ok i'
    ∧ SameFigures ifin i' ∧ ifin.status.isInfeasible = false
    ∧ Unscale.postProcess sol (toInfoEquil dt'.equilibration) none v ifin = .ok out :=
  let ⟨r, i', ifin, out, h⟩ := report_example
  ⟨zData, zData, _, zEs, zVars, zRes0, r, zInfo, i', ifin, 0, 0, _, out, h⟩

/-- the hypotheses of `almost_only_when_reduced_met` hold simultaneously: the loop ran out of
iterations on an iterate that meets the reduced test -/
example : ∃ (r : Resid ℝ) (i' j : InfoS ℝ),
    Residuals.update zRes0 zVars (toResidData zData) = .ok r
    ∧ Info.update zInfo (toInfoEquil zData.equilibration) 0 0 zVars r = .ok i'
    ∧ SameFigures j i' ∧ j.status ≠ .almostSolved
    ∧ (Info.postProcess j 0 0 zSettings).status = .almostSolved := almost_example

/-- the hypotheses of `almost_solved_after_rollback_consistent` hold simultaneously: pass `k+1`
(`zDisc`, residuals 1000× worse) is judged `InsufficientProgress`, the rollback restores pass `k`,
`post_process` says `AlmostSolved` -/
example : ∃ (r : Resid ℝ) (ip' : InfoS ℝ),
    Residuals.update zRes0 zVars (toResidData zData) = .ok r
    ∧ Info.update zInfo (toInfoEquil zData.equilibration) 0 0 zVars r = .ok ip'
    ∧ SameFigures ip' ip' ∧ PrevIs zDisc (savePrev ip')
    ∧ (checkTermination zDisc 0 0 zSettings 3 false).1.status = .insufficientProgress
    ∧ (Info.postProcess (resetToPrev (checkTermination zDisc 0 0 zSettings 3 false).1) 0 0 zSettings).status
        = .almostSolved := rollback_example

/-- `reset_then_update_not_stale`: `Info.update` succeeds after `reset` on the witness of
`report_on_user_data` whatever the old block held (here: `Solved`, 99 iterations) -/
example : ∃ (r : Resid ℝ) (j : InfoS ℝ),
    Info.update (saveScalars (reset { zInfo with status := .solved, iterations := 99 }) 0)
      (toInfoEquil zData.equilibration) 0 0 zVars r = .ok j := by
  obtain ⟨r, hr, hres⟩ := residuals_of_equilibrate zData zData _ zEs zData_user zData_equil zVars zRes0 zShapes
  have hrep := represents_of_equilibrate zData zData _ zEs zData_user zData_equil
  obtain ⟨j, hj⟩ := info_update_total _ _ hrep zVars r zShapes.x zShapes.s zShapes.z hres.szrx hres.szrz
    hres.szrxi hres.szrzi hres.szPx (saveScalars (reset { zInfo with status := .solved, iterations := 99 }) 0) 0 0
  exact ⟨r, j, hj⟩

/-- a presolve reversal on which `report_on_user_data_presolved` applies: 3 rows, the middle one
dropped -/
example : ∃ r, Unscale.reversePresolve { keep := [true, false, true].toArray, infbound := (99:ℚ) }
    (Unscale.Solution.new 1 3) { x := #[5], s := #[1, 2], z := #[3, 4], τ := 1, κ := 1 } = .ok r
    ∧ r.s = #[1, 99, 2] ∧ r.z = #[3, 0, 4] := by
  refine ⟨_, rfl, ?_, ?_⟩ <;> rfl

end Clarabel.C03

/-! ## The full model, second part: whose figures the report carries; nothing stale -/
namespace Clarabel.C03
open Clarabel Clarabel.Solver Clarabel.InfoReport

set_option linter.unusedSectionVars false

section full2
variable {α : Type} [Add α] [Sub α] [Mul α] [Div α] [Neg α] [OfNat α 0] [OfNat α 1] [OfNat α 2]
  [OfNat α 100] [OfNat α 1000] [LT α] [DecidableLT α] [LE α] [DecidableLE α] [BEq α] [FloatLike α]

/-- **[S] `C03.full_report_figures_of_returned_iterate`** (`report_matches_point` on the full
model; valid at `Float`).  After `solve()` on the full model there is a pass record `p` of THIS
solve's trajectory such that
* `p.info` is what the numerics at the top of that pass — `residuals.update`, `info.update` on this
  solver's (unchanged) internal data — assigned for the iterate `p.vars` (`RecOK`);
* the six figures of the final `info` are those of `p.info`, and `obj_val`, `obj_val_dual`
  (NaN for an infeasibility status), `r_prim`, `r_dual`, `status`, `iterations` of the solution are
  copies of them;
* the variables left in the solver (those copied / presolve-reversed into the solution) are
  `Variables.unscale p.vars`;
* `p` is the LAST pass's record — except after an insufficient-progress rollback, where it is the
  last but one (the saved `prev_*` scalars and `prev_vars` are one pair).
Scalars and vectors of the report describe one and the same iterate on every way out of the
loop.  With `report_on_user_data` (whose hypotheses are exactly `RecOK` over `ℝ`): the documented
expressions of the returned point on the user's data. -/
theorem full_report_figures_of_returned_iterate {S : Solver α} {st : Solver.Settings α}
    {r : SolveResult α} (h : S.solve st = .ok r) :
    ∃ p, p ∈ r.traj ∧ RecOK S.st.data p
      ∧ SameFigures r.S.st.info p.info
      ∧ r.S.st.variables
          = Unscale.unscale p.vars (equilView S.st.data.equilibration) r.S.st.info.status.isInfeasible
      ∧ r.S.solution.obj_val = (if r.S.st.info.status.isInfeasible then none else some p.info.cost_primal)
      ∧ r.S.solution.obj_val_dual = (if r.S.st.info.status.isInfeasible then none else some p.info.cost_dual)
      ∧ r.S.solution.r_prim = some p.info.res_primal ∧ r.S.solution.r_dual = some p.info.res_dual
      ∧ r.S.solution.status = r.S.st.info.status ∧ r.S.solution.iterations = r.S.st.info.iterations
      ∧ (r.traj.getLast? = some p
          ∨ ∃ pre last, r.traj = pre ++ [p, last] ∧ last.isdone = true
              ∧ last.status = .insufficientProgress) :=
  figures_of_returned_iterate h

/-- **[S] `C03.full_final_status_is_post_process`** (the `Almost*` clause on the full model).  The
final `info` is `Info::post_process` applied — with the REDUCED tolerances of the settings and the
`dot_bz`, `dot_qx` of the LAST pass — to a terminal (`≠ Unsolved`) info `j` whose six figures are
the final (= returned iterate's) ones and whose `ktratio`, `res_primal_inf`, `res_dual_inf` are the
LAST pass's.  With `almost_only_if`: an `Almost*` status of the full model means the reduced test
on exactly these numbers — on the rollback path the figures of the restored iterate for
`AlmostSolved` (`almost_solved_after_rollback_consistent`), those of the discarded one for
`Almost*Infeasible` (`C02.rollback_counterexample`, excluded for `reduced_tol_ktratio ≤ 1000` by
`C02.rollback_never_infeasible`). -/
theorem full_final_status_is_post_process {S : Solver α} {st : Solver.Settings α} {r : SolveResult α}
    (h : S.solve st = .ok r) :
    ∃ (l : PassRec α) (j : Info.InfoS α), r.traj.getLast? = some l
      ∧ r.S.st.info = Info.postProcess j l.dotBz l.dotQx st.info
      ∧ j.ktratio = l.info.ktratio ∧ j.res_primal_inf = l.info.res_primal_inf
      ∧ j.res_dual_inf = l.info.res_dual_inf
      ∧ SameFigures j r.S.st.info ∧ j.status ≠ .unsolved :=
  final_status_is_postProcess h

/-- **[S] `C03.full_report_not_stale`** (second solve on the same object).  The whole result of
`solve()` on the full model — report, final state, trajectory, or the error — does not depend on
what an earlier solve left in the six scalars of the solution object (`status`, `obj_val`,
`obj_val_dual`, `iterations`, `r_prim`, `r_dual`) nor in the `info` block (the nine figures, `μ`,
`σ`, `step_length`, `iterations`, `status`) apart from `prev_*`: `info.reset` rewrites `status`
and `iterations`, the first pass rewrites the figures before anything reads them, and
`solution.post_process` overwrites every scalar.  The `prev_*` fields are never read before
`save_prev_iterate` has rewritten them in the same solve (`C04.full_no_stale_prev`;
`full_report_figures_of_returned_iterate`: the restored figures are a record of THIS solve).
A `reset` that forgot `status` falsifies this statement (take `i.status = Solved`). -/
theorem full_report_not_stale (S : Solver α) (st : Solver.Settings α) (i : Info.InfoS α) (a b c : α)
    (hp : PrevEq i S.st.info) (s0 : Info.SolverStatus) (o1 o2 r1 r2 : Option α) (k : Nat) :
    ({ st := withInfo S.st i a b c,
       solution := { S.solution with status := s0, obj_val := o1, obj_val_dual := o2, iterations := k,
                                     r_prim := r1, r_dual := r2 } } : Solver α).solve st
      = S.solve st :=
  report_not_stale S st i a b c hp s0 o1 o2 r1 r2 k

/-- `info.reset` of the full model is `Info.reset` (the model of `DefaultInfo::reset` tied to the
code by the channel `info.reset`) -/
theorem full_reset_is_info_reset (S : SolverSt α) :
    resetInfo S = { S with info := Info.reset S.info } := rfl

end full2

/-! non-vacuity: `solve()` succeeds on the kernel-evaluated example (`Int`), also from a state whose
`info` block and solution scalars hold leftovers -/
section full2Examples
open Clarabel.Solver.Example
attribute [local instance] intFloatLike

example : (run 0).toOption.map (fun r => (r.passes, r.S.solution.status, r.S.solution.iterations))
    = some (1, .maxIterations, 0) := run0
example (i : Info.InfoS Int) :
    PrevEq { i with cost_primal := 7, status := .solved, iterations := 99 } i :=
  ⟨rfl, rfl, rfl, rfl, rfl, rfl⟩

end full2Examples

end Clarabel.C03
