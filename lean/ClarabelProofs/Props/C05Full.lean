/-
  C05 — the same solver solved twice; the internal problem of `DefaultSolver::new`: theorems about
  the FULL model (`ClarabelModel/Solver/Solve.lean`), the executable model that the channels
  `solve.setup / solve.full / solve.twice` of `harness/src/bin/solver.rs` compare bit for bit with
  the implementation.  Helper lemmas: `Lemmas/SolverModelIdem.lean`.

  ### What is, and what is not, a theorem about "solve twice"

  Intended statement (`C05.full_solve_idempotent`): for every solver state `S`,
  `solve (solve S).state = solve S` — the result of `solve()` depends only on the
  `data` / `settings` / KKT-structure components of the state, not on the mutable ones.

  As a statement about the f64 code (class [S]) this is FALSE in general, for two reasons that the
  model makes explicit (and the channel `solve.twice` exercises on the real code, bit for bit):

  1. `y.axpby(a, x, 0)` computes `a·x + 0·y` with the *previous* content of `y`
     (`solve_constant_rhs`: `workx = −q + 0·workx`; `residuals.update`: `Px = P·x + 0·Px`,
     `rx_inf = −Aᵀz + 0·rx_inf`).  With a finite stale `y` the term is `±0`, whose sign follows the
     sign of the stale entry and survives when `a·x` is a zero of the other sign; with a
     non-finite stale `y` (left by a solve that ended in `NumericalError`) it is `NaN`.
  2. `default_start()` does not check the result of `solve_initial_point`: when that KKT solve
     fails, the iterate left by the previous solve is kept and shifted into the cone.

  Observed on the implementation (thorough tier, replays in `/verif/replays/SOLVER/`): the second
  solve differs from the first only after a first solve that ended in `NumericalError`; after a
  solve with a verdict the two are bit-identical on all generated inputs, and the oracle of
  `solve.twice` requires equal status / iterations / values there.

  Proved here ([S], `…_partial`): the part of the state that is *always* irrelevant — the whole
  `info` block except `prev_*` — and that the data is never written.  The irrelevance of the other
  mutable components (which needs the well-formedness invariants of the QDLDL workspace, C12
  `refactor_eq_fresh`, carried through `kktsystem.update/solve`, and the "`0·stale` is the same
  zero" side condition above) is not carried by a theorem.

  REPAIRED in /repo 1706c1f: reason 1 is gone (`solve_constant_rhs` / `solve_initial_point` now form `−q` with
  `scalarop_from`, `symv` fills with zero when `b == 0`); reason 2 is unchanged.

  ADDED LATER (`Props/C05Idem.lean`, `Lemmas/SolverStale*.lean`): the irrelevance of ALL the other
  mutable components is now a theorem (`C05.full_solve_reads_only`, `full_solve_idempotent_finite`),
  with exactly the side condition 2. above and one remaining hypothesis about `KKTSolver::update` (`QW`).

  REPAIRED in /repo 7c1c881: reason 2 is gone too (`solve_initial_point` zero-fills `variables.x/s/z`
  before its KKT solves, so a failed solve leaves the start of a fresh solver object; observed before
  the repair also after a first solve that ended with MaxIterations and finite figures:
  `corpus/SOLVER/stale-start-after-failed-init-0.json`).  The intended statement is now a theorem with
  structural hypotheses only: `C05.full_solve_idempotent_any_start` (`Props/C05Idem.lean`), and the
  oracle of `solve.twice` requires a bit-identical second solve after EVERY first solve.
-/
import ClarabelProofs.Lemmas.SolverModelIdem
import ClarabelProofs.Lemmas.SolverNormCachesC
import ClarabelProofs.Lemmas.SolverNormCaches
import ClarabelProofs.Lemmas.SolverModelExample
import ClarabelProofs.Props.C10
import Mathlib.Algebra.Order.Field.Rat

namespace Clarabel.C05
open Clarabel Clarabel.Solver
open Clarabel.Info (InfoS)

set_option linter.unusedSectionVars false

section full
variable {α : Type} [Add α] [Sub α] [Mul α] [Div α] [Neg α] [OfNat α 0] [OfNat α 1] [OfNat α 2]
  [OfNat α 100] [OfNat α 1000] [LT α] [DecidableLT α] [LE α] [DecidableLE α] [BEq α] [FloatLike α]

/-- [S] `C05.full_solve_info_irrelevant` (part of `full_solve_idempotent`): the result of `solve()`
on the full model — the whole `SolveResult`: final state, solution, trajectory, or the error —
does not depend on the `info` block (`DefaultInfo`: the nine figures of the last `info.update`,
`μ`, `σ`, `step_length`, `iterations`, `status`) of the state it starts from, except for the six
`prev_*` fields: replacing the block by any other one with the same `prev_*` changes nothing.
(`info.reset` resets `status` / `iterations`, the top of the first pass overwrites the rest; the
`prev_*` fields are passed on untouched until the first completed step and are only *read*
after one — `C04.full_no_stale_prev`, `Loop.prev_saved_before_reset`.) -/
theorem full_solve_info_irrelevant (S : Solver α) (st : Solver.Settings α) (i : InfoS α) (a b c : α)
    (hp : PrevEq i S.st.info) :
    ({ S with st := withInfo S.st i a b c } : Solver α).solve st = S.solve st :=
  solve_withInfo S st i a b c hp

/-- [S] `C05.full_solve_keeps_data`: `solve()` writes nothing of the internal problem data (`P, q, A,
b`, cones, `n`, `m`, equilibration, presolver map) EXCEPT THE TWO NORM CACHES: the data of the returned
object is the data at entry with `normq`, `normb` replaced (by what: `full_solve_fills_norm_caches`).
(Until round 8 the model's `solve()` did not store the caches `DefaultInfo::update` fills — the
statement then read `r.S.st.data = S.st.data`, true of the model and false of the real object.) -/
theorem full_solve_keeps_data {S : Solver α} {st : Solver.Settings α} {r : SolveResult α}
    (h : S.solve st = .ok r) :
    r.S.st.data = { S.st.data with normq := r.S.st.data.normq, normb := r.S.st.data.normb } := by
  obtain ⟨nq, nb, _, _, e⟩ := solve_data_eq h
  rw [e]

/-- [S] `C05.full_solve_fills_norm_caches`: what `solve()` leaves in the two norm caches of the solver
object — `DefaultInfo::update` calls `data.get_normq()` / `data.get_normb()` at the top of every pass,
and these FILL a cache that is `None` —: after a `solve()` that returned, `normq = Some(v_q)`,
`normb = Some(v_b)` with `v_q`, `v_b` the answers of `get_normq` / `get_normb` on the data AT ENTRY: the
value a cache already held (also a STALE one, after a rejected partial `update_q` / `update_b`), else
`‖D⁻¹q̂‖∞ / c`, `‖E⁻¹b̂‖∞` computed from the current `q̂`, `b̂` and the equilibration.  In one formula:
the data returned is `fillNorms` of the data at entry. -/
theorem full_solve_fills_norm_caches {S : Solver α} {st : Solver.Settings α} {r : SolveResult α}
    (h : S.solve st = .ok r) :
    fillNorms S.st.data = .ok r.S.st.data
    ∧ ∃ vq vb, Info.getNormq S.st.data.normq S.st.data.q S.st.data.equilibration.dinv
          S.st.data.equilibration.c = .ok vq
        ∧ Info.getNormb S.st.data.normb S.st.data.b S.st.data.equilibration.einv = .ok vb
        ∧ r.S.st.data.normq = some vq ∧ r.S.st.data.normb = some vb := by
  refine ⟨solve_data h, ?_⟩
  obtain ⟨nq, nb, hq, hb, e⟩ := solve_data_eq h
  exact ⟨nq, nb, hq, hb, by rw [e], by rw [e]⟩

/-- [S] `C05.full_second_solve_keeps_data`: from the second `solve()` on, NOTHING of the data changes,
the caches included: a cache that is `Some(v)` answers `v` and stays `Some(v)`. -/
theorem full_second_solve_keeps_data {S : Solver α} {st : Solver.Settings α} {r1 r2 : SolveResult α}
    (h1 : S.solve st = .ok r1) (h2 : r1.S.solve st = .ok r2) : r2.S.st.data = r1.S.st.data := by
  obtain ⟨nq, nb, _, _, e1⟩ := solve_data_eq h1
  obtain ⟨nq', nb', hq, hb, e2⟩ := solve_data_eq h2
  rw [e1] at hq hb
  have hq' : nq' = nq := (Except.ok.inj hq).symm
  have hb' : nb' = nb := (Except.ok.inj hb).symm
  rw [e2, hq', hb', e1]

/-- [S] `C05.full_solve_idempotent_partial`: the second of two `solve()` calls on the same object is
the solve from the state in which the `info` block left by the first call is replaced by the one
the first call started from (keeping the `prev_*` the first call left: `withInfoOf`), on the same data
up to the norm caches the first call filled.
Full statement (not a theorem at `Float`, see the header): `r1.S.solve st = S.solve st` up to the
final state — i.e. the same replacement for `variables`, `residuals`, `kktsystem`, `cones`,
`stepLhs`, `stepRhs`, `prevVars`. -/
theorem full_solve_idempotent_partial {S : Solver α} {st : Solver.Settings α} {r1 : SolveResult α}
    (h : S.solve st = .ok r1) :
    fillNorms S.st.data = .ok r1.S.st.data
    ∧ r1.S.solve st = (withInfoOf S r1.S).solve st :=
  ⟨solve_data h, (solve_withInfoOf S r1.S st).symm⟩

/-- [S] `C05.full_solve_stores_caches_as_the_code`: **where the norm caches are stored does not matter.**
`Solver.solveC` (`ClarabelModel/Solver/SolveC.lean`) is `solve()` with the caches stored IN THE PASS, at
`Info.update` — where the Rust code stores them (`get_normq` / `get_normb` fill `self.normq` /
`self.normb`) —, and nowhere else; `Solver.solve`, the model every other theorem is about and the
correspondence channels run, reads the caches at entry in every pass and stores the filled caches once,
in the object it returns.  The two are the same function: same error, or same trajectory, same solution,
same returned solver object, caches included. -/
theorem full_solve_stores_caches_as_the_code (S : Solver α) (st : Solver.Settings α) :
    S.solveC st = S.solve st :=
  solveC_eq_solve S st

/-- [S] `C05.full_next_solve_on_entry_data`: the `solve()` AFTER a `solve()` is the `solve()` on the
returned object with the data at entry put back: the two caches the first call filled answer
`get_normq` / `get_normb` exactly as the caches at entry did.  (This is what lets every statement about
"the second solve on the same data" — `full_solve_idempotent*`, `C08`'s histories — apply to the real
second solve, whose data differs from the first's in the two caches.) -/
theorem full_next_solve_on_entry_data {S : Solver α} {st : Solver.Settings α} {r : SolveResult α}
    (h : S.solve st = .ok r) (st' : Solver.Settings α) :
    r.S.solve st' = (r.S.withData S.st.data).solve st' :=
  solve_putBack h st'

end full

/-! non-vacuity: `solve()` succeeds on the example (`Lemmas/SolverModelExample.lean`, kernel, `Int`) -/
section fullExamples
open Clarabel.Solver.Example
attribute [local instance] intFloatLike

example : (run 3).toOption.map (fun r => (r.passes, r.S.solution.status, r.S.solution.iterations))
    = some (2, .solved, 1) := run3
/-- `PrevEq` is satisfiable by a block that differs in every other field -/
example (i : InfoS Int) : PrevEq { i with cost_primal := 7, status := .solved, iterations := 99 } i :=
  ⟨rfl, rfl, rfl, rfl, rfl, rfl⟩

end fullExamples

section internal
variable {α : Type} [Field α] [LinearOrder α] [IsStrictOrderedRing α] [FloatLike α]

/-- [F] `C05.full_internal_data_is_scaled_user_data`: the problem the full model iterates on is the
user's problem after collapse / presolve / cap (`ProblemData.new`, C09), equilibrated: with the
accumulated scalings `d, e, c` stored next to it, entry for entry `P̂ = c·D P D`, `Â = E A D`,
`q̂ = c·D q`, `b̂ = E b` (`Equil.Inv`, the content of `C10.scaled_data`), same sparsity patterns.
(Exact arithmetic; at `Float` the channel `solve.setup` compares the internal data bit for bit.) -/
theorem full_internal_data_is_scaled_user_data {P : Csc α} {q : Array α} {A : Csc α} {b : Array α}
    {cones : List (ConeT α)} {st : Solver.Settings α} {perm : Array Nat} {S : SolverSt α}
    (h : SolverSt.new P q A b cones st perm = .ok S) :
    ∃ d0, ProblemData.new P q A b cones st.presolveEnable false st.infbound = .ok d0
      ∧ Equil.Inv d0 S.data := by
  unfold SolverSt.new at h
  obtain ⟨data, hd, h⟩ := bind_ok_inv h
  obtain ⟨K, _, h⟩ := bind_ok_inv h
  obtain ⟨ks, _, h⟩ := bind_ok_inv h
  cases h
  unfold internalData at hd
  obtain ⟨d0, h0, hd⟩ := bind_ok_inv hd
  obtain ⟨K0, _, hd⟩ := bind_ok_inv hd
  split at hd
  · cases hd
  · refine ⟨d0, h0, C10.scaled_data d0 data d0.cones st.equil ?_ hd⟩
    unfold ProblemData.new at h0
    obtain ⟨_, _, h0⟩ := bind_ok_inv h0
    obtain ⟨_, _, h0⟩ := bind_ok_inv h0
    obtain ⟨_, _, h0⟩ := bind_ok_inv h0
    split at h0
    · cases h0
    · cases h0
      rfl

end internal

/-! non-vacuity of `full_internal_data_is_scaled_user_data`: `DefaultSolver::new` succeeds on a
one-row problem over `ℚ` with equilibration switched on (evaluated by the kernel) -/
namespace InternalExample

@[reducible] def ratFloatLike : FloatLike ℚ where
  sqrt := id
  exp := id
  log := id
  powf := fun a _ => a
  fmax := max
  fmin := min
  fabs := fun a => |a|
  isNaN := fun _ => false
  isFinite := fun _ => true
  eps := 0
  ofNat := fun n => (n : ℚ)

attribute [local instance] ratFloatLike

def tols : Clarabel.Info.Tols ℚ := ⟨1, 1, 1, 1, 1, 1⟩
def st : Solver.Settings ℚ :=
  { info := { full := tols, reduced := tols, max_iter := 3 }, maxStepFraction := 1,
    minTerminateStepLength := 0,
    equil := { enable := true, maxIter := 2, minScaling := 1/10, maxScaling := 10 },
    lin := { staticRegEnable := false, staticRegConstant := 0, staticRegProportional := 0,
             dynRegEps := 1, dynRegDelta := 1, irEnable := false, irReltol := 0, irAbstol := 0,
             irMaxIter := 0, irStopRatio := 1 },
    presolveEnable := false, infbound := 1000000, maxValue := 1000000 }
def P : Csc ℚ := { m := 1, n := 1, colptr := #[0, 0], rowval := #[], nzval := #[] }
def A : Csc ℚ := { m := 1, n := 1, colptr := #[0, 1], rowval := #[0], nzval := #[4] }

example : (SolverSt.new P #[1] A #[1] [.nonneg 1] st #[0, 1]).toOption.isSome = true := by decide +kernel

end InternalExample

end Clarabel.C05
