/-
  C10 — equilibration is an exact, bounded, cone-preserving change of variables.
  Property theorems only; helper lemmas live in `ClarabelProofs/Lemmas/Equil.lean`.

  The theorems are about `Equil.equilibrate` & co. (`ClarabelModel/Equil.lean`), which the
  correspondence run of `./check C10` ties bit-for-bit to `ProblemData::equilibrate`.
  Class [F] statements hold in every linearly ordered field (exact arithmetic); the f64
  rounding gap is what the oracle of the check measures on every run.
-/
import ClarabelModel.Equil
import ClarabelProofs.Lemmas.Equil
import ClarabelProofs.Lemmas.EquilZero
import ClarabelProofs.Lemmas.EquilBounds
import ClarabelProofs.Lemmas.EquilCones
import ClarabelProofs.Lemmas.PresolveCollapse
import ClarabelProofs.Lemmas.EquilGenPow
import ClarabelProofs.Lemmas.EquilComposite
import ClarabelProofs.Lemmas.EquilSettings
import ClarabelProofs.Lemmas.EquilPreserved
import ClarabelProofs.Lemmas.EquilUnscale
import ClarabelProofs.Lemmas.EquilZeroP

namespace Clarabel.C10
open Clarabel Equil

variable {α : Type}

section field
variable [Field α] [LinearOrder α] [IsStrictOrderedRing α] [FloatLike α]

/-- [F] **scaled data** (loop invariant of the Ruiz iteration, carried through the cost
scaling and the rectification rescale).  For problem data with fresh (identity)
equilibration data, whatever `equilibrate` returns has the same sparsity patterns and, for
the accumulated `d`, `e`, `c` it returns, entry for entry
`P̂ₜ = c·d[row t]·Pₜ·d[col t]`, `Âₜ = e[row t]·Aₜ·d[col t]`, `q̂ = c·d∘q`, `b̂ = e∘b`
(the content of `Equil.Inv`). -/
theorem scaled_data (dt dt' : ProblemData α) (cones : List (ConeT α)) (s : Settings α)
    (hfresh : dt.equilibration = EquilData.new dt.n dt.m)
    (h : equilibrate dt cones s = .ok dt') : Inv dt dt' := by
  unfold equilibrate at h
  split at h
  · cases h; exact Inv.init dt hfresh
  · split at h
    · cases h
    · rename_i hok
      split at h
      · cases h
      · cases h
        have hs : Shapes dt := shapes_of_shapesOk dt (by simpa using hok)
        exact ((Inv.init dt hfresh).ruizLoop hs s s.maxIter).finish hs cones

/-- [F] the inverse scalings returned are the reciprocals of the scalings returned. -/
theorem inverse_scalings (dt dt' : ProblemData α) (cones : List (ConeT α)) (s : Settings α)
    (hen : s.enable = true) (h : equilibrate dt cones s = .ok dt') :
    dt'.equilibration.dinv = dt'.equilibration.d.map (fun v => 1 / v) ∧
    dt'.equilibration.einv = dt'.equilibration.e.map (fun v => 1 / v) := by
  unfold equilibrate at h
  rw [if_neg (by simp [hen])] at h
  split at h
  · cases h
  · split at h
    · cases h
    · cases h; exact ⟨rfl, rfl⟩

/-- scalings `d`, `e`, `c` all inside `[lo, hi]` -/
def Bounded (lo hi : α) (dt : ProblemData α) : Prop :=
  AllIn lo hi dt.equilibration.d ∧ AllIn lo hi dt.equilibration.e ∧
    lo ≤ dt.equilibration.c ∧ dt.equilibration.c ≤ hi

/-- [F] **bounds**, one pass: with `0 < min ≤ max`, a pass of the Ruiz loop keeps every
cumulative scaling `dᵢ`, `eᵢ`, `c` inside `[min, max]` (the step is clipped to
`[min/d, max/d]`). -/
theorem bounds_step (s : Settings α) (hlo : 0 < s.minScaling) (hlh : s.minScaling ≤ s.maxScaling)
    (dt : ProblemData α) (h : Bounded s.minScaling s.maxScaling dt) :
    Bounded s.minScaling s.maxScaling (ruizStep s dt) := by
  obtain ⟨hd, he, hc1, hc2⟩ := h
  have hd' := allIn_hadamard_clipWork _ _ hlo hlh dt.equilibration.d
    (Vec.rsqrt (unzero (kktColNorms dt.P dt.A dt.equilibration.dinv dt.equilibration.einv).1)) hd
  have he' := allIn_hadamard_clipWork _ _ hlo hlh dt.equilibration.e
    (Vec.rsqrt (unzero (kktColNorms dt.P dt.A dt.equilibration.dinv dt.equilibration.einv).2)) he
  unfold ruizStep applyCost costScaling
  simp only []
  split
  · rename_i ct hct
    split at hct
    · simp only [Prod.mk.injEq, Option.some.injEq] at hct
      refine ⟨hd', he', ?_, ?_⟩
      · rw [← hct]; exact (mul_clip_mem _ _ _ _ hlo hc1 hc2).1
      · rw [← hct]; exact (mul_clip_mem _ _ _ _ hlo hc1 hc2).2
    · simp at hct
  · exact ⟨hd', he', hc1, hc2⟩

/-- [F] **bounds**, the whole loop: starting from identity scalings with
`0 < min ≤ 1 ≤ max`, all `dᵢ, eᵢ, c ∈ [min, max]` after every iteration.
(`bounds_partial`: the rectification step — which replaces `e` on a non-scalar cone by the
mean of its entries, again a value of `[min, max]` — is not carried by this theorem; it is
covered by `uniform_on_cones_value` for the value and by the oracle of the check.) -/
theorem bounds_partial (s : Settings α) (hlo : 0 < s.minScaling) (h1 : s.minScaling ≤ 1)
    (h2 : 1 ≤ s.maxScaling) (dt : ProblemData α) (hfresh : dt.equilibration = EquilData.new dt.n dt.m)
    (k : Nat) : Bounded s.minScaling s.maxScaling (ruizLoop s k dt) := by
  have h0 : Bounded s.minScaling s.maxScaling dt := by
    refine ⟨?_, ?_, by simp [hfresh, EquilData.new, h1], by simp [hfresh, EquilData.new, h2]⟩ <;>
    · intro j hj
      simp [hfresh, EquilData.new, Array.getD] at hj ⊢
      exact ⟨h1, h2⟩
  clear hfresh
  induction k generalizing dt with
  | zero => exact h0
  | succ k ih => exact ih _ (bounds_step s hlo (le_trans h1 h2) dt h0)

/-- [F] **cone preserved**, second-order cone: scaling all rows of the cone by the same
positive factor does not change membership, `s ∈ K ⇔ k·s ∈ K`; the cone is self-dual, so the
same statement with `k⁻¹` is `z ∈ K* ⇔ E⁻¹z ∈ K*`.  (Zero and nonnegative cones are
preserved by any positive diagonal scaling, entry by entry.) -/
theorem cone_preserved_soc (k : α) (hk : 0 < k) (sv : List α) :
    (SocMem (sv.map (k * ·)) ↔ SocMem sv) ∧ (SocMem (sv.map (k⁻¹ * ·)) ↔ SocMem sv) :=
  ⟨socMem_scale k hk sv, socMem_scale k⁻¹ (inv_pos.mpr hk) sv⟩

/-- [F] nonnegative orthant: any positive diagonal scaling preserves membership. -/
theorem cone_preserved_nonneg (e v : α) (he : 0 < e) : 0 ≤ e * v ↔ 0 ≤ v :=
  ⟨fun h => by_contra fun hn => absurd h (not_le.mpr (mul_neg_of_pos_of_neg he (not_le.mp hn))),
   fun h => mul_nonneg (le_of_lt he) h⟩

/-- [F] **uniform on cones**: after `rectify_equilibration` the row scaling `e` is constant on
the index range of every cone that is not a product of scalar cones (second-order,
exponential, power, generalised power, PSD): every entry of the range equals the mean of the
pre-rectification entries of that range.  (`cones = pre ++ c :: post`, the range of `c`
starts at `numel pre`.) -/
theorem uniform_on_cones (dt : ProblemData α) (pre post : List (ConeT α)) (c : ConeT α)
    (hc : c.isScalar = false)
    (hlen : Cones.numel pre + c.nvars ≤ dt.equilibration.e.size)
    (hne : ∀ x ∈ dt.equilibration.e.toList, x ≠ 0) (i : Nat) (hi : i < c.nvars) :
    (finish dt (pre ++ c :: post)).equilibration.e.getD (Cones.numel pre + i) 0 =
      meanL ((dt.equilibration.e.toList.drop (Cones.numel pre)).take c.nvars) := by
  have hflag := rectifyGo_flag pre post c dt.equilibration.e.toList hc
  have hk : Cones.numel pre + i < dt.equilibration.e.size := by omega
  simp only [finish, setInverses, rectifyStep, hflag, ↓reduceIte, applyScaling]
  rw [getD_hadamardInPlace _ _ _ _ hk]
  have hl := length_rectifyGo (pre ++ c :: post) dt.equilibration.e.toList
  have e1 : dt.equilibration.e.getD (Cones.numel pre + i) 0 =
      dt.equilibration.e.toList.getD (Cones.numel pre + i) 0 := by
    simp [Array.getD, List.getD_eq_getElem?_getD, hk]
  have e2 : (rectifyGo (pre ++ c :: post) dt.equilibration.e.toList).1.toArray.getD (Cones.numel pre + i) 1 =
      (rectifyGo (pre ++ c :: post) dt.equilibration.e.toList).1.getD (Cones.numel pre + i) 0 := by
    have : Cones.numel pre + i < (rectifyGo (pre ++ c :: post) dt.equilibration.e.toList).1.length := by
      rw [hl]; simpa using hk
    simp [Array.getD, List.getD_eq_getElem?_getD, this]
  rw [e1, e2]
  exact rectifyGo_uniform pre post c _ hc (by simpa using hlen) hne i hi

/-- [F] scalar (zero / nonnegative) cones are untouched by the rectification. -/
theorem scalar_cones_untouched (dt : ProblemData α) (pre post : List (ConeT α)) (c : ConeT α)
    (hc : c.isScalar = true)
    (hlen : Cones.numel pre + c.nvars ≤ dt.equilibration.e.size) (i : Nat) (hi : i < c.nvars) :
    (finish dt (pre ++ c :: post)).equilibration.e.getD (Cones.numel pre + i) 0 =
      dt.equilibration.e.getD (Cones.numel pre + i) 0 := by
  have hk : Cones.numel pre + i < dt.equilibration.e.size := by omega
  simp only [finish, setInverses, rectifyStep]
  split
  · simp only [applyScaling]
    rw [getD_hadamardInPlace _ _ _ _ hk]
    have hl := length_rectifyGo (pre ++ c :: post) dt.equilibration.e.toList
    have e2 : (rectifyGo (pre ++ c :: post) dt.equilibration.e.toList).1.toArray.getD (Cones.numel pre + i) 1 =
        (rectifyGo (pre ++ c :: post) dt.equilibration.e.toList).1.getD (Cones.numel pre + i) 0 := by
      have : Cones.numel pre + i < (rectifyGo (pre ++ c :: post) dt.equilibration.e.toList).1.length := by
        rw [hl]; simpa using hk
      simp [Array.getD, List.getD_eq_getElem?_getD, this]
    rw [e2, rectifyGo_scalar pre post c _ hc (by simpa using hlen) i hi, mul_one]
    simp [Array.getD, hk]
  · rfl

/-- [F] **bounds after rectification**: the uniform value given to a non-scalar cone is a
mean of entries of `[min, max]`, hence again in `[min, max]`. -/
theorem bounds_rectified [LawfulFloatLike α] (lo hi : α) (dt : ProblemData α) (pre post : List (ConeT α))
    (c : ConeT α) (hc : c.isScalar = false) (hlo : 0 < lo)
    (hlen : Cones.numel pre + c.nvars ≤ dt.equilibration.e.size)
    (hb : ∀ x ∈ dt.equilibration.e.toList, lo ≤ x ∧ x ≤ hi) (i : Nat) (hi' : i < c.nvars) :
    lo ≤ (finish dt (pre ++ c :: post)).equilibration.e.getD (Cones.numel pre + i) 0 ∧
    (finish dt (pre ++ c :: post)).equilibration.e.getD (Cones.numel pre + i) 0 ≤ hi := by
  rw [uniform_on_cones dt pre post c hc hlen
    (fun x hx => ne_of_gt (lt_of_lt_of_le hlo (hb x hx).1)) i hi']
  apply meanL_mem
  · intro hnil
    have : ((dt.equilibration.e.toList.drop (Cones.numel pre)).take c.nvars).length = c.nvars := by
      simp; omega
    rw [hnil] at this
    simp at this
    omega
  · intro x hx
    exact hb x (List.mem_of_mem_drop (List.mem_of_mem_take hx))

/-- [F] **bounds**, as one statement through `equilibrate`: for problem data with fresh
(identity) equilibration data and settings `0 < min ≤ 1 ≤ max`, whatever `equilibrate`
returns has every `dⱼ`, every `eᵢ` and `c` inside `[min, max]` — after all passes of the Ruiz
loop (`bounds_partial`), the cost scaling, the rectification (`e` on a non-scalar cone becomes
the mean of its entries) and the final rescale (which only changes the data and `e`). -/
theorem bounds [LawfulFloatLike α] (dt dt' : ProblemData α) (cones : List (ConeT α)) (s : Settings α)
    (hlo : 0 < s.minScaling) (h1 : s.minScaling ≤ 1) (h2 : 1 ≤ s.maxScaling)
    (hfresh : dt.equilibration = EquilData.new dt.n dt.m)
    (h : equilibrate dt cones s = .ok dt') : Bounded s.minScaling s.maxScaling dt' := by
  unfold equilibrate at h
  split at h
  · cases h; exact bounds_partial s hlo h1 h2 dt hfresh 0
  · split at h
    · cases h
    · split at h
      · cases h
      · cases h
        obtain ⟨hd, he, hc1, hc2⟩ := bounds_partial s hlo h1 h2 dt hfresh s.maxIter
        have hcc : (finish (ruizLoop s s.maxIter dt) cones).equilibration.c =
            (ruizLoop s s.maxIter dt).equilibration.c := by
          simp only [finish, setInverses, rectifyStep]; split <;> rfl
        have hee : (finish (ruizLoop s s.maxIter dt) cones).equilibration.e =
            (rectifyStep (ruizLoop s s.maxIter dt) cones).equilibration.e := rfl
        refine ⟨?_, ?_, ?_, ?_⟩
        · rw [finish_d]; exact hd
        · rw [hee]; exact allIn_rectifyStep _ _ hlo _ cones he
        · rw [hcc]; exact hc1
        · rw [hcc]; exact hc2

/-- [F] **zero rows unscaled**: let `equilibrate` succeed on problem data with fresh
(identity) equilibration data and `min ≤ 1 ≤ max`.  If all stored entries of row `i` of `A`
are zero and the row belongs to a zero / nonnegative cone `c` of the cone list
(`cones = pre ++ c :: post`, `i = numel pre + k`, `k < nvars c`), then `eᵢ = 1` in the result:
the invariant "row all-zero ∧ eᵢ = 1" is carried through every pass of the Ruiz loop
(`0·x = 0`; the step `1/sqrt(1) = 1` survives the clip) and the rectification leaves scalar
cones untouched.  The only property of `sqrt` used is `sqrt 1 = 1` (true for `Real.sqrt` —
`zero_rows_unscaled_real` — and for IEEE `sqrt`). -/
theorem zero_rows_unscaled [LawfulFloatLike α] (dt dt' : ProblemData α) (pre post : List (ConeT α))
    (c : ConeT α) (s : Settings α) (hsqrt : sqrt (1:α) = 1) (h1 : s.minScaling ≤ 1) (h2 : 1 ≤ s.maxScaling)
    (hfresh : dt.equilibration = EquilData.new dt.n dt.m) (hc : c.isScalar = true)
    (k : Nat) (hk : k < c.nvars) (hz : RowZero dt.A (Cones.numel pre + k))
    (h : equilibrate dt (pre ++ c :: post) s = .ok dt') :
    dt'.equilibration.e.getD (Cones.numel pre + k) 1 = 1 := by
  unfold equilibrate at h
  split at h
  · cases h
    simp only [hfresh, EquilData.new, Array.getD]
    split <;> simp
  · split at h
    · cases h
    · rename_i hok
      split at h
      · cases h
      · rename_i hnum
        cases h
        have hs : Shapes dt := shapes_of_shapesOk dt (by simpa using hok)
        have hm : Cones.numel pre + c.nvars + Cones.numel post = dt.m := by
          have : Cones.numel (pre ++ c :: post) = dt.m := by simpa using hnum
          rw [Cones.numel_append] at this
          simp only [Cones.numel] at this
          omega
        have hi : Cones.numel pre + k < dt.m := by omega
        have hz0 : ZRow (Cones.numel pre + k) dt :=
          ⟨hz, by simp [hfresh, EquilData.new, hi], by simp [hfresh, EquilData.new, hi],
            by simp [hfresh, EquilData.new, Array.getD, hi]⟩
        have hzL := hz0.ruizLoop s hsqrt h1 h2 s.maxIter
        have hInvL := (Inv.init dt hfresh).ruizLoop hs s s.maxIter
        have hInvF := hInvL.finish hs (pre ++ c :: post)
        have hsz : Cones.numel pre + k < (finish (ruizLoop s s.maxIter dt) (pre ++ c :: post)).equilibration.e.size := by
          rw [hInvF.sze]; exact hi
        have hu := scalar_cones_untouched (ruizLoop s s.maxIter dt) pre post c hc
          (by rw [hInvL.sze]; omega) k hk
        have e1 : ∀ (a : Array α) (i : Nat) (x y : α), i < a.size → a.getD i x = a.getD i y := by
          intro a i x y hi'; simp [Array.getD, hi']
        rw [e1 _ _ 1 0 hsz, hu, e1 _ _ 0 1 hzL.ie]
        exact hzL.one

/-- [F] **zero columns unscaled**: under the same assumptions, if every stored entry of
column `j` of `A` is zero and every stored entry of the triangle `P` in row `j` or column `j`
is zero (an all-zero column of `[P; A]`), then `dⱼ = 1` in the result. -/
theorem zero_cols_unscaled [LawfulFloatLike α] (dt dt' : ProblemData α) (cones : List (ConeT α))
    (s : Settings α) (hsqrt : sqrt (1:α) = 1) (h1 : s.minScaling ≤ 1) (h2 : 1 ≤ s.maxScaling)
    (hfresh : dt.equilibration = EquilData.new dt.n dt.m)
    (j : Nat) (hj : j < dt.n) (hA : ZeroWhere dt.A (fun _ c => c = j))
    (hP : ZeroWhere dt.P (fun r c => r = j ∨ c = j))
    (h : equilibrate dt cones s = .ok dt') :
    dt'.equilibration.d.getD j 1 = 1 := by
  have h0 : ZCol j dt :=
    ⟨hA, hP, by simp [hfresh, EquilData.new, hj], by simp [hfresh, EquilData.new, hj],
      by simp [hfresh, EquilData.new, Array.getD, hj]⟩
  unfold equilibrate at h
  split at h
  · cases h; exact h0.one
  · split at h
    · cases h
    · split at h
      · cases h
      · cases h
        rw [finish_d]
        exact (h0.ruizLoop s hsqrt h1 h2 s.maxIter).one

end field

/-- [S] **disabled is identity**: with `equilibrate_enable = false` the data are returned
untouched (bit for bit, at every scalar type), and freshly built problem data carry
`d = e = dinv = einv = 1`, `c = 1`. -/
theorem disabled_is_identity [Add α] [Sub α] [Mul α] [Div α] [OfNat α 0] [OfNat α 1] [LT α]
    [DecidableLT α] [BEq α] [FloatLike α]
    (dt : ProblemData α) (cones : List (ConeT α)) (s : Settings α) (h : s.enable = false) :
    equilibrate dt cones s = .ok dt := by
  unfold equilibrate
  rw [if_pos (by simp [h])]
  rfl

theorem fresh_is_identity [OfNat α 1] (n m : Nat) :
    (EquilData.new n m : EquilData α) =
      { d := Array.replicate n 1, dinv := Array.replicate n 1, e := Array.replicate m 1,
        einv := Array.replicate m 1, c := 1 } := rfl

/-! ### cone preservation for the non-symmetric cones and the PSD cone; ℝ instances -/

/-- [R] **cone preserved**, exponential cone: for every `k > 0` the model's membership tests
of the cone (`is_primal_feasible`) and of its dual (`is_dual_feasible`) give the same answer
on `k·s` as on `s` — so `s ∈ int K ⇔ E s ∈ int K` and `z ∈ int K* ⇔ E⁻¹ z ∈ int K*` when
`E = k·I` on the cone's rows (`k⁻¹ > 0` as well). -/
theorem cone_preserved_exp (k : ℝ) (hk : 0 < k) (v0 v1 v2 : ℝ) :
    Exp.isPrimalFeasible (k * v0) (k * v1) (k * v2) = Exp.isPrimalFeasible v0 v1 v2 ∧
    Exp.isDualFeasible (k⁻¹ * v0) (k⁻¹ * v1) (k⁻¹ * v2) = Exp.isDualFeasible v0 v1 v2 :=
  ⟨exp_primal_scale k v0 v1 v2 hk, exp_dual_scale k⁻¹ v0 v1 v2 (inv_pos.mpr hk)⟩

/-- [R] **cone preserved**, power cone with exponent `a ∈ (0,1)`. -/
theorem cone_preserved_pow (a k : ℝ) (hk : 0 < k) (ha0 : 0 < a) (ha1 : a < 1) (v0 v1 v2 : ℝ) :
    Pow.isPrimalFeasible a (k * v0) (k * v1) (k * v2) = Pow.isPrimalFeasible a v0 v1 v2 ∧
    Pow.isDualFeasible a (k⁻¹ * v0) (k⁻¹ * v1) (k⁻¹ * v2) = Pow.isDualFeasible a v0 v1 v2 :=
  ⟨pow_primal_scale a k v0 v1 v2 hk, pow_dual_scale a k⁻¹ v0 v1 v2 (inv_pos.mpr hk) ha0 ha1⟩

/-- [F] **cone preserved**, PSD cone, stated on the quadratic form: `xᵀ(kS)x = k·xᵀSx`, hence
for `k > 0` the matrix `kS` is positive semidefinite iff `S` is. -/
theorem cone_preserved_psd {α : Type} [Field α] [LinearOrder α] [IsStrictOrderedRing α] {n : Nat}
    (k : α) (hk : 0 < k) (S : Fin n → Fin n → α) :
    (∀ x, 0 ≤ quadForm (fun i j => k * S i j) x) ↔ (∀ x, 0 ≤ quadForm S x) := by
  constructor
  · intro h x
    have := h x
    rw [quadForm_scale] at this
    exact le_of_mul_le_mul_left (by simpa using this) hk
  · intro h x
    rw [quadForm_scale]
    exact mul_nonneg hk.le (h x)

/-- [R] `zero_rows_unscaled` over ℝ (`Real.sqrt 1 = 1`): no hypothesis about `sqrt` is left. -/
theorem zero_rows_unscaled_real (dt dt' : ProblemData ℝ) (pre post : List (ConeT ℝ))
    (c : ConeT ℝ) (s : Settings ℝ) (h1 : s.minScaling ≤ 1) (h2 : 1 ≤ s.maxScaling)
    (hfresh : dt.equilibration = EquilData.new dt.n dt.m) (hc : c.isScalar = true)
    (k : Nat) (hk : k < c.nvars) (hz : RowZero dt.A (Cones.numel pre + k))
    (h : equilibrate dt (pre ++ c :: post) s = .ok dt') :
    dt'.equilibration.e.getD (Cones.numel pre + k) 1 = 1 :=
  zero_rows_unscaled dt dt' pre post c s (by simp) h1 h2 hfresh hc k hk hz h

/-- [R] `zero_cols_unscaled` over ℝ. -/
theorem zero_cols_unscaled_real (dt dt' : ProblemData ℝ) (cones : List (ConeT ℝ))
    (s : Settings ℝ) (h1 : s.minScaling ≤ 1) (h2 : 1 ≤ s.maxScaling)
    (hfresh : dt.equilibration = EquilData.new dt.n dt.m)
    (j : Nat) (hj : j < dt.n) (hA : ZeroWhere dt.A (fun _ c => c = j))
    (hP : ZeroWhere dt.P (fun r c => r = j ∨ c = j))
    (h : equilibrate dt cones s = .ok dt') :
    dt'.equilibration.d.getD j 1 = 1 :=
  zero_cols_unscaled dt dt' cones s (by simp) h1 h2 hfresh j hj hA hP h

/-! ### non-vacuity -/

/-- `cone_preserved_soc` on a concrete point of the cone over ℚ-like data (here ℝ) -/
example : SocMem ([5, 3, 4] : List ℝ) := by norm_num [SocMem, sumSq]
example : SocMem (([5, 3, 4] : List ℝ).map ((2:ℝ) * ·)) := (cone_preserved_soc (2:ℝ) (by norm_num) _).1.mpr (by norm_num [SocMem, sumSq])
/-- `zero_rows_unscaled`: `sqrt 1 = 1` holds over ℝ -/
example : sqrt (1:ℝ) = 1 := by simp
/-- the hypotheses of `bounds_partial` hold for the default settings -/
example : (0:ℝ) < 1e-4 ∧ (1e-4:ℝ) ≤ 1 ∧ (1:ℝ) ≤ 1e4 := by norm_num
/-- `mul_clip_mem` instance: d = 2, step 100 clipped to max/d -/
example : (2:ℝ) * Vec.clip 100 (1e-4 / 2) (1e4 / 2) ≤ 1e4 := (mul_clip_mem 2 100 1e-4 1e4 (by norm_num) (by norm_num) (by norm_num)).2

end Clarabel.C10

namespace Clarabel.C10
open Clarabel Equil
/-- `cone_preserved_exp` / `cone_preserved_pow` on points of the cones -/
example : Exp.isPrimalFeasible (0:ℝ) 1 2 = true := by
  unfold Exp.isPrimalFeasible
  have h : (0:ℝ) < Nonsym.logsafe 2 := by
    rw [Nonsym.logsafe_of_pos (by norm_num)]
    exact Real.log_pos (by norm_num)
  simp [h]
/-- `cone_preserved_psd`: the identity matrix is PSD on its quadratic form -/
example : ∀ x : Fin 2 → ℝ, 0 ≤ quadForm (fun i j => if i = j then (1:ℝ) else 0) x := by
  intro x
  simp only [quadForm, Fin.sum_univ_two]
  simp
  nlinarith [mul_self_nonneg (x 0), mul_self_nonneg (x 1)]
/-- `zero_rows_unscaled` / `zero_cols_unscaled`: the hypotheses are satisfiable — row 1 of the
2×2 matrix with stored entries (0,0)=3, (1,1)=0 is all-zero (one explicit zero), and so is
its column 1 -/
example : RowZero (⟨2, 2, #[0, 1, 2], #[0, 1], #[3, 0]⟩ : Csc ℝ) 1 := by
  have hE : (⟨2, 2, #[0, 1, 2], #[0, 1], #[3, 0]⟩ : Csc ℝ).storedEntries = [(0, 0, 3), (1, 1, 0)] := by rfl
  intro e he
  rw [hE] at he
  simp only [List.mem_cons, List.not_mem_nil, or_false] at he
  rcases he with rfl | rfl <;> simp
example : ZeroWhere (⟨2, 2, #[0, 1, 2], #[0, 1], #[3, 0]⟩ : Csc ℝ) (fun _ c => c = 1) := by
  have hE : (⟨2, 2, #[0, 1, 2], #[0, 1], #[3, 0]⟩ : Csc ℝ).storedEntries = [(0, 0, 3), (1, 1, 0)] := by rfl
  intro e he
  rw [hE] at he
  simp only [List.mem_cons, List.not_mem_nil, or_false] at he
  rcases he with rfl | rfl <;> simp
end Clarabel.C10

/-! ## round 3: generalised power cone, composed cone preservation, arbitrary bounds,
`unscale ∘ scale`, disabled equilibration, `P`/`A` interplay of zero columns -/

namespace Clarabel.C10
open Clarabel Equil

/-- [R] **cone preserved**, generalised power cone `K_α = {(u,w) : Π uᵢ^{αᵢ} ≥ ‖w‖, u ≥ 0}` of
any dimensions (`Σ αᵢ = 1`, `αᵢ > 0` — what `GenPowerCone::new` asserts): for `k > 0` the
model's membership tests `is_primal_feasible` / `is_dual_feasible` answer the same on `k·(u,w)`
as on `(u,w)` — `Π (k uᵢ)^{2αᵢ} = k^{2Σαᵢ} Π uᵢ^{2αᵢ} = k² Π uᵢ^{2αᵢ}` and `‖k w‖² = k²‖w‖²`.
So `s ∈ int K_α ⇔ E s ∈ int K_α` and `z ∈ int K_α* ⇔ E⁻¹ z ∈ int K_α*` when `E = k·I` on the
cone's rows (`uniform_on_genpow`).  Built on C14's characterisations
`GenPow.isPrimalFeasible_iff` / `isDualFeasible_iff`. -/
theorem cone_preserved_genpow (k : ℝ) (hk : 0 < k) (al u w : List ℝ) (hlen : al.length = u.length)
    (ha : GenPow.AllPos al) (hsum : al.sum = 1) :
    (GenPow.isPrimalFeasible al.toArray ((u ++ w).map (k * ·)).toArray = .ok true ↔
      GenPow.isPrimalFeasible al.toArray (u ++ w).toArray = .ok true) ∧
    (GenPow.isDualFeasible al.toArray ((u ++ w).map (k⁻¹ * ·)).toArray = .ok true ↔
      GenPow.isDualFeasible al.toArray (u ++ w).toArray = .ok true) :=
  ⟨GenPow.isPrimalFeasible_scale k hk al u w hlen hsum,
   GenPow.isDualFeasible_scale k⁻¹ (inv_pos.mpr hk) al u w hlen ha hsum⟩

/-- [R] the same for the *closed* cones `K_α` / `K_α*` in their mathematical (square-root free)
form `u ≥ 0 ∧ ‖w‖² ≤ Π uᵢ^{2αᵢ}` resp. `‖w‖² ≤ Π (uᵢ/αᵢ)^{2αᵢ}`. -/
theorem cone_preserved_genpow_closed (k : ℝ) (hk : 0 < k) (al u w : List ℝ)
    (hlen : al.length = u.length) (ha : GenPow.AllPos al) (hsum : al.sum = 1) :
    (GenPow.Mem al (u.map (k * ·)) (w.map (k * ·)) ↔ GenPow.Mem al u w) ∧
    (GenPow.MemDual al (u.map (k⁻¹ * ·)) (w.map (k⁻¹ * ·)) ↔ GenPow.MemDual al u w) :=
  ⟨GenPow.mem_scale k hk al u w hlen hsum,
   GenPow.memDual_scale k⁻¹ (inv_pos.mpr hk) al u w hlen ha hsum⟩

/-- [R] **`E` restricted to a generalised power cone is a positive multiple of the identity**:
`GenPowerCone::rectify_equilibration` writes `δᵢ = (1/eᵢ)·mean(e)` for ALL its rows (the `u` rows
and the `w` rows alike), so after the final rescale every row of the cone carries the same
scaling `mean(e) > 0`. -/
theorem uniform_on_genpow (dt : ProblemData ℝ) (pre post : List (ConeT ℝ)) (al : Array ℝ) (dim2 : Nat)
    (hlen : Cones.numel pre + (ConeT.genpow al dim2).nvars ≤ dt.equilibration.e.size)
    (hpos : ∀ x ∈ dt.equilibration.e.toList, 0 < x) (hne : 0 < al.size + dim2) :
    ∃ k : ℝ, 0 < k ∧ ∀ i, i < al.size + dim2 →
      (finish dt (pre ++ ConeT.genpow al dim2 :: post)).equilibration.e.getD (Cones.numel pre + i) 0 = k := by
  refine ⟨meanL ((dt.equilibration.e.toList.drop (Cones.numel pre)).take (al.size + dim2)), ?_, ?_⟩
  · apply meanL_pos
    · intro x hx
      exact hpos x (List.mem_of_mem_drop (List.mem_of_mem_take hx))
    · intro hnil
      have : ((dt.equilibration.e.toList.drop (Cones.numel pre)).take (al.size + dim2)).length =
          al.size + dim2 := by
        simp only [ConeT.nvars] at hlen
        simp; omega
      rw [hnil] at this
      simp at this
      omega
  · intro i hi
    exact uniform_on_cones dt pre post (ConeT.genpow al dim2) rfl hlen
      (fun x hx => (hpos x hx).ne') i hi

/-- [F] **positive scalings for any positive bounds** (`validate()` does not look at the
bounds; `min ≤ max` or `min ≤ 1 ≤ max` are NOT needed): for fresh problem data and
`0 < min`, `0 < max`, everything `equilibrate` returns is positive — all `dⱼ`, all `eᵢ`, `c`. -/
theorem scalings_positive [Field α] [LinearOrder α] [IsStrictOrderedRing α] [FloatLike α]
    [LawfulFloatLike α] (dt dt' : ProblemData α) (cones : List (ConeT α)) (s : Settings α)
    (hlo : 0 < s.minScaling) (hhi : 0 < s.maxScaling)
    (hfresh : dt.equilibration = EquilData.new dt.n dt.m) (hnum : Cones.numel cones = dt.m)
    (h : equilibrate dt cones s = .ok dt') :
    (∀ j, j < dt'.equilibration.d.size → 0 < dt'.equilibration.d.getD j 1) ∧
    (∀ a ∈ dt'.equilibration.e.toList, 0 < a) ∧ 0 < dt'.equilibration.c := by
  obtain ⟨hd, hc⟩ := pos_equilibrate dt dt' cones s hlo hhi hfresh h
  obtain ⟨hu, _, hsz, _⟩ := uniformOn_equilibrate dt dt' cones s hlo hhi hfresh h
  exact ⟨hd, hu.pos (by simp [hsz, hnum]), hc⟩

/-- [R] **composed cone preservation** — every cone list (all seven kinds), any number of
passes, any positive bounds.  Let `equilibrate` return `dt'` for fresh problem data; let
`E = diag(e)`, `E⁻¹ = diag(einv)` be the row scalings it returns.  Then for every `s`, `z` of
length `m`
`E s ∈ K ⇔ s ∈ K`  and  `E⁻¹ z ∈ K* ⇔ z ∈ K*`
where `K = K₁ × … × K_p` is the product cone of the list (`CompositeMem`, cut like `rng_cones`)
with, per cone, `ConeMem` / `ConeMemDual`: the model's own tests `is_primal_feasible` /
`is_dual_feasible` for the exponential, power and generalised power cones, `‖v‖² ≤ t², t ≥ 0`
for the second-order cone, and `xᵀ mat(s) x ≥ 0 ∀x` with `mat = svec_to_mat` (the svec
representation, C13) for the PSD triangle cone; zero cone `{0}` / dual `ℝⁿ`, nonnegative
orthant.  (`ValidCones`: `0 < α < 1` for power cones; `αᵢ > 0`, `Σαᵢ = 1` for generalised
power cones — asserted by the cone constructors.) -/
theorem cone_preserved_composite (dt dt' : ProblemData ℝ) (cones : List (ConeT ℝ)) (s : Settings ℝ)
    (hlo : 0 < s.minScaling) (hhi : 0 < s.maxScaling)
    (hfresh : dt.equilibration = EquilData.new dt.n dt.m) (hv : ValidCones cones)
    (h : equilibrate dt cones s = .ok dt') (sv zv : List ℝ) (hs : sv.length = dt.m) (hz : zv.length = dt.m) :
    (CompositeMem ConeMem cones (List.zipWith (· * ·) dt'.equilibration.e.toList sv) ↔
      CompositeMem ConeMem cones sv) ∧
    (CompositeMem ConeMemDual cones (List.zipWith (· * ·) dt'.equilibration.einv.toList zv) ↔
      CompositeMem ConeMemDual cones zv) := by
  obtain ⟨h1, h2, hs1, hs2⟩ := uniformOn_equilibrate dt dt' cones s hlo hhi hfresh h
  exact ⟨(compositeMem_scale cones hv _ sv (by simp [hs1, hs]) h1).1,
    (compositeMem_scale cones hv _ zv (by simp [hs2, hz]) h2).2⟩

section field
variable [Field α] [LinearOrder α] [IsStrictOrderedRing α] [FloatLike α] [LawfulFloatLike α]

/-- [F] **bounds from `0 < min ≤ max` alone**.  The hypothesis `min ≤ 1 ≤ max` of `bounds` is
only needed for the *initial* scalings `1`: one pass of the loop puts every `dⱼ`, `eᵢ` into
`[min, max]` from any positive value (`d·clip(w, min/d, max/d) ∈ [min,max]` for every `d > 0`).
So with equilibration enabled and at least one pass, all `dⱼ`, `eᵢ` lie in `[min, max]`; the
cost scaling is in `[min, max]` OR STILL `1` (it is only touched in a pass where `P ≠ 0` and
`q ≠ 0`; see `cost_unscaled_when_q_zero`). -/
theorem bounds_any_start (dt dt' : ProblemData α) (cones : List (ConeT α)) (s : Settings α)
    (hlo : 0 < s.minScaling) (hlh : s.minScaling ≤ s.maxScaling) (hen : s.enable = true)
    (hit : 1 ≤ s.maxIter) (hfresh : dt.equilibration = EquilData.new dt.n dt.m)
    (h : equilibrate dt cones s = .ok dt') :
    AllIn s.minScaling s.maxScaling dt'.equilibration.d ∧
    AllIn s.minScaling s.maxScaling dt'.equilibration.e ∧
    (dt'.equilibration.c = 1 ∨
      (s.minScaling ≤ dt'.equilibration.c ∧ dt'.equilibration.c ≤ s.maxScaling)) := by
  unfold equilibrate at h
  rw [if_neg (by simp [hen])] at h
  split at h
  · cases h
  · split at h
    · cases h
    · cases h
      obtain ⟨k, hk⟩ : ∃ k, s.maxIter = k + 1 := ⟨s.maxIter - 1, by omega⟩
      have hp := Pos.fresh dt hfresh
      obtain ⟨hd, he⟩ := allIn_ruizLoop_succ hp s hlo hlh k
      have hc : COk s.minScaling s.maxScaling (ruizLoop s s.maxIter dt) :=
        COk.ruizLoop hp s hlo hlh (Or.inl (by simp [hfresh, EquilData.new])) _
      have hcc : (finish (ruizLoop s s.maxIter dt) cones).equilibration.c =
          (ruizLoop s s.maxIter dt).equilibration.c := by
        simp only [finish, setInverses, rectifyStep]; split <;> rfl
      have hee : (finish (ruizLoop s s.maxIter dt) cones).equilibration.e =
          (rectifyStep (ruizLoop s s.maxIter dt) cones).equilibration.e := rfl
      rw [hk] at hcc hee ⊢
      rw [hk] at hc
      refine ⟨?_, ?_, ?_⟩
      · rw [finish_d]; exact hd
      · rw [hee]; exact allIn_rectifyStep _ _ hlo _ cones he
      · rw [hcc]; exact hc

/-- [F] **`min > max`** (accepted by `validate()`): the interval is empty and the clip
`clip(w, min/d, max/d)` returns one of its two (inverted) thresholds — after every pass each
`dⱼ` and `eᵢ` is exactly `min` or exactly `max`. -/
theorem inverted_bounds_step (d w lo hi : α) (hd : 0 < d) (hlh : hi < lo) :
    d * Vec.clip w (lo / d) (hi / d) = lo ∨ d * Vec.clip w (lo / d) (hi / d) = hi :=
  mul_clip_inverted d w lo hi hd hlh

/-- [F] **all-zero rows under arbitrary bounds**: for `0 < min ≤ max`, equilibration enabled and
at least one pass, an all-zero row of `A` inside a zero / nonnegative cone ends with
`eᵢ = clip(1, min, max)` exactly (`restScale`) — it is "left unscaled" iff `min ≤ 1 ≤ max`
(`zero_rows_unscaled_iff`): for `min > 1` the row gets `eᵢ = min`, for `max < 1` it gets `max`. -/
theorem zero_rows_general (dt dt' : ProblemData α) (pre post : List (ConeT α))
    (c : ConeT α) (s : Settings α) (hsqrt : sqrt (1:α) = 1) (hlo : 0 < s.minScaling)
    (hlh : s.minScaling ≤ s.maxScaling) (hen : s.enable = true) (hit : 1 ≤ s.maxIter)
    (hfresh : dt.equilibration = EquilData.new dt.n dt.m) (hc : c.isScalar = true)
    (k : Nat) (hk : k < c.nvars) (hz : RowZero dt.A (Cones.numel pre + k))
    (h : equilibrate dt (pre ++ c :: post) s = .ok dt') :
    dt'.equilibration.e.getD (Cones.numel pre + k) 1 = restScale s := by
  unfold equilibrate at h
  rw [if_neg (by simp [hen])] at h
  split at h
  · cases h
  · rename_i hok
    split at h
    · cases h
    · rename_i hnum
      cases h
      have hs : Shapes dt := shapes_of_shapesOk dt (by simpa using hok)
      have hm : Cones.numel pre + c.nvars + Cones.numel post = dt.m := by
        have : Cones.numel (pre ++ c :: post) = dt.m := by simpa using hnum
        rw [Cones.numel_append] at this
        simp only [Cones.numel] at this
        omega
      have hi : Cones.numel pre + k < dt.m := by omega
      have hz0 : ZRowG s (Cones.numel pre + k) dt :=
        ⟨hz, by simp [hfresh, EquilData.new, hi], by simp [hfresh, EquilData.new, hi],
          Or.inl (by simp [hfresh, EquilData.new, Array.getD, hi])⟩
      obtain ⟨n, hn⟩ : ∃ n, s.maxIter = n + 1 := ⟨s.maxIter - 1, by omega⟩
      obtain ⟨hval, hie⟩ := hz0.ruizLoop_succ hsqrt hlo hlh n
      have hInvL := (Inv.init dt hfresh).ruizLoop hs s s.maxIter
      have hInvF := hInvL.finish hs (pre ++ c :: post)
      have hsz : Cones.numel pre + k < (finish (ruizLoop s s.maxIter dt) (pre ++ c :: post)).equilibration.e.size := by
        rw [hInvF.sze]; exact hi
      have hu := scalar_cones_untouched (ruizLoop s s.maxIter dt) pre post c hc
        (by rw [hInvL.sze]; omega) k hk
      have e1 : ∀ (a : Array α) (i : Nat) (x y : α), i < a.size → a.getD i x = a.getD i y := by
        intro a i x y hi'; simp [Array.getD, hi']
      rw [e1 _ _ 1 0 hsz, hu]
      rw [hn] at hInvL ⊢
      rw [e1 _ _ 0 1 hie]
      exact hval

/-- [F] the hypothesis `min ≤ 1 ≤ max` of `zero_rows_unscaled` / `zero_cols_unscaled` is the
weakest one: the value `clip(1, min, max)` an all-zero row / column ends with is `1` exactly
when `min ≤ 1 ≤ max`. -/
theorem zero_rows_unscaled_iff (s : Settings α) :
    restScale s = 1 ↔ (s.minScaling ≤ 1 ∧ 1 ≤ s.maxScaling) :=
  restScale_eq_one_iff s

/-- [F] **all-zero columns of `[P; A]` under arbitrary bounds**: `dⱼ = clip(1, min, max)`. -/
theorem zero_cols_general (dt dt' : ProblemData α) (cones : List (ConeT α))
    (s : Settings α) (hsqrt : sqrt (1:α) = 1) (hlo : 0 < s.minScaling)
    (hlh : s.minScaling ≤ s.maxScaling) (hen : s.enable = true) (hit : 1 ≤ s.maxIter)
    (hfresh : dt.equilibration = EquilData.new dt.n dt.m)
    (j : Nat) (hj : j < dt.n) (hA : ZeroWhere dt.A (fun _ c => c = j))
    (hP : ZeroWhere dt.P (fun r c => r = j ∨ c = j))
    (h : equilibrate dt cones s = .ok dt') :
    dt'.equilibration.d.getD j 1 = restScale s := by
  have h0 : ZColG s j dt :=
    ⟨hA, hP, by simp [hfresh, EquilData.new, hj], by simp [hfresh, EquilData.new, hj],
      Or.inl (by simp [hfresh, EquilData.new, Array.getD, hj])⟩
  unfold equilibrate at h
  rw [if_neg (by simp [hen])] at h
  split at h
  · cases h
  · split at h
    · cases h
    · cases h
      obtain ⟨n, hn⟩ : ∃ n, s.maxIter = n + 1 := ⟨s.maxIter - 1, by omega⟩
      rw [finish_d, hn]
      exact h0.ruizLoop_succ hsqrt hlo hlh n

/-- [F] **zero column of `A`, nonzero column of `P`**: the KKT column norm that drives `dⱼ` is
then the norm of column `j` of the symmetric `P` alone, so the column IS scaled — an all-zero
column of `A` is only "left unscaled" together with an all-zero row/column of `P`
(`zero_cols_unscaled` needs both, and this is why). -/
theorem zero_Acol_scaled_by_P (s : Settings α) (dt : ProblemData α) (j : Nat)
    (hA : ZeroWhere dt.A (fun _ c => c = j)) (hjd : j < dt.equilibration.d.size)
    (hjw : j < dt.equilibration.dinv.size) :
    (kktColNorms dt.P dt.A dt.equilibration.dinv dt.equilibration.einv).1.getD j 0 =
      (colNormsSym dt.P dt.equilibration.dinv).getD j 0 ∧
    (ruizStep s dt).equilibration.d.getD j 1 = dt.equilibration.d.getD j 1 *
      Vec.clip ((Vec.rsqrt (unzero (colNormsSym dt.P dt.equilibration.dinv))).getD j 1)
        (s.minScaling / dt.equilibration.d.getD j 1) (s.maxScaling / dt.equilibration.d.getD j 1) := by
  refine ⟨kktColNorms_zeroA _ _ _ _ j hA, ?_⟩
  rw [ruizStep_d, getD_hadamardInPlace _ _ _ _ hjd, stepScalings_zeroA s dt j hA hjd hjw]

/-- [F] **`unscale ∘ scale = id`** with the exact formulas of `variables.rs::unscale`
(model `Unscale.unscale`, C01): let `equilibrate` return `dt'` (any positive bounds).  For a
user point `(x, s, z)` (lengths `n`, `m`, `m`) and `τ ≠ 0`, its internal representative
`x̂ = (x∘dinv)·τ`, `ŝ = (s∘e)·τ`, `ẑ = (z∘einv)·(τc)` (`scaleVars`) is mapped back by
`unscale` — `x = (x̂∘d)·τ⁻¹`, `z = (ẑ∘e)·(τ⁻¹c⁻¹)`, `s = (ŝ∘einv)·τ⁻¹` — to `(x, s, z)`, `τ = 1`,
`κ/τ`.  Uses `dinv = 1/d`, `einv = 1/e` (`inverse_scalings`) and positivity
(`scalings_positive`).  C01's `residual_unscale` / `cost_unscale` are stated on the same
formulas (`Dense.unX/unS/unZ`). -/
theorem unscale_scale_id (dt dt' : ProblemData α) (cones : List (ConeT α)) (s : Settings α)
    (hlo : 0 < s.minScaling) (hhi : 0 < s.maxScaling)
    (hfresh : dt.equilibration = EquilData.new dt.n dt.m) (hnum : Cones.numel cones = dt.m)
    (h : equilibrate dt cones s = .ok dt')
    (x sv z : Array α) (τ κ : α) (hτ : τ ≠ 0) (hx : x.size = dt.n) (hs : sv.size = dt.m)
    (hz : z.size = dt.m) :
    Unscale.unscale (scaleVars dt'.equilibration x sv z τ κ) (infoEquil dt'.equilibration) false =
      { x := x, s := sv, z := z, τ := 1, κ := κ / τ } := by
  obtain ⟨hd, he, hc⟩ := scalings_positive dt dt' cones s hlo hhi hfresh hnum h
  have hInv := scaled_data dt dt' cones s hfresh h
  have hinv : dt'.equilibration.dinv = dt'.equilibration.d.map (fun v => 1 / v) ∧
      dt'.equilibration.einv = dt'.equilibration.e.map (fun v => 1 / v) := by
    cases hen : s.enable with
    | true => exact inverse_scalings dt dt' cones s hen h
    | false =>
      have := disabled_is_identity dt cones s hen
      rw [this] at h
      cases h
      constructor <;> simp [hfresh, EquilData.new]
  refine unscale_scaleVars dt'.equilibration x sv z τ κ hτ hc.ne' hinv.1 hinv.2
    (fun j hj => (hd j hj).ne') ?_ (by rw [hx, hInv.szd]) (by rw [hs, hInv.sze]) (by rw [hz, hInv.sze])
  intro i hi
  have : dt'.equilibration.e.getD i 1 = dt'.equilibration.e[i] := by simp [Array.getD, hi]
  rw [this]
  exact (he _ (by simp)).ne'

/-- [F] **the cost scaling can stay outside `[min, max]`** (settings `validate()` accepts):
when `q = 0` no pass touches `c` (`‖q‖∞ = 0` disables the cost scaling), so `c = 1` whatever
the bounds — for `min > 1` or `max < 1` the returned `c` violates the documented bound. -/
theorem cost_unscaled_when_q_zero (dt dt' : ProblemData α) (cones : List (ConeT α)) (s : Settings α)
    (hfresh : dt.equilibration = EquilData.new dt.n dt.m) (hq : ∀ v ∈ dt.q.toList, v = 0)
    (h : equilibrate dt cones s = .ok dt') : dt'.equilibration.c = 1 := by
  unfold equilibrate at h
  split at h
  · cases h; simp [hfresh, EquilData.new]
  · split at h
    · cases h
    · split at h
      · cases h
      · cases h
        have hcc : (finish (ruizLoop s s.maxIter dt) cones).equilibration.c =
            (ruizLoop s s.maxIter dt).equilibration.c := by
          simp only [finish, setInverses, rectifyStep]; split <;> rfl
        rw [hcc]
        exact (QZero.ruizLoop ⟨hq, by simp [hfresh, EquilData.new]⟩ s s.maxIter).c

end field

/-- [S] **disabled is identity, complete**: with `equilibrate_enable = false`, on freshly built
problem data `equilibrate` succeeds, returns the data unchanged, and ALL scaling vectors are
identity: `d = dinv = 1ₙ`, `e = einv = 1ₘ`, `c = 1` (every scalar type). -/
theorem disabled_is_identity_full [Add α] [Sub α] [Mul α] [Div α] [OfNat α 0] [OfNat α 1] [LT α]
    [DecidableLT α] [BEq α] [FloatLike α]
    (dt : ProblemData α) (cones : List (ConeT α)) (s : Settings α) (h : s.enable = false)
    (hfresh : dt.equilibration = EquilData.new dt.n dt.m) :
    ∃ dt', equilibrate dt cones s = .ok dt' ∧ dt' = dt ∧
      dt'.equilibration.d = Array.replicate dt.n 1 ∧ dt'.equilibration.dinv = Array.replicate dt.n 1 ∧
      dt'.equilibration.e = Array.replicate dt.m 1 ∧ dt'.equilibration.einv = Array.replicate dt.m 1 ∧
      dt'.equilibration.c = 1 ∧
      dt'.P = dt.P ∧ dt'.A = dt.A ∧ dt'.q = dt.q ∧ dt'.b = dt.b := by
  refine ⟨dt, disabled_is_identity dt cones s h, rfl, ?_, ?_, ?_, ?_, ?_, rfl, rfl, rfl, rfl⟩ <;>
    rw [hfresh] <;> rfl

/-! ### non-vacuity (round 3) -/

/-- `cone_preserved_genpow`: `(u,w) = ((4,9),(5))`, `α = (1/2,1/2)` is interior: `25 < 4·9` -/
example : GenPow.AllPos [(1/2:ℝ), 1/2] ∧ ([(1/2:ℝ), 1/2]).sum = 1 ∧
    ([(1/2:ℝ), 1/2]).length = ([(4:ℝ), 9]).length := by
  refine ⟨?_, by norm_num, rfl⟩
  intro x hx
  simp at hx
  rcases hx with rfl | rfl <;> norm_num
example : GenPow.Mem [(1/2:ℝ), 1/2] [4, 9] [5] := by
  refine ⟨?_, ?_⟩
  · intro x hx; simp at hx; rcases hx with rfl | rfl <;> norm_num
  · simp [GenPow.sumSq, GenPow.prodPhiP]
    norm_num
/-- `bounds_any_start` / `zero_rows_general`: settings with `min > 1` that satisfy the
hypotheses, and the value an all-zero row ends with is `2 ≠ 1` -/
example : restScale ({ enable := true, maxIter := 3, minScaling := 2, maxScaling := 4 } : Settings ℝ) = 2 := by
  simp [restScale, Vec.clip]
example : (0:ℝ) < 2 ∧ (2:ℝ) ≤ 4 ∧ 1 ≤ 3 := by norm_num
/-- `inverted_bounds_step`: `min = 4 > max = 2`, `d = 1`, `w = 1` gives `4 > max` -/
example : (1:ℝ) * Vec.clip 1 (4 / 1) (2 / 1) = 4 := by
  simp [Vec.clip]
/-- `cone_preserved_composite`: a valid cone list with one cone of every kind -/
example : ValidCones [ConeT.zero 1, .nonneg 2, .soc 3, .exp, .pow (1/2 : ℝ), .genpow #[1/2, 1/2] 1, .psd 2] := by
  intro c hc
  simp at hc
  rcases hc with rfl | rfl | rfl | rfl | rfl | rfl | rfl <;> simp [ValidCone, GenPow.AllPos] <;> norm_num
/-- `CompositeMem` is inhabited: `s = (0; 1,1; 5,3,4)` for `z1, n2, q3` -/
example : CompositeMem ConeMem [ConeT.zero 1, .nonneg 2, .soc 3] [0, 1, 1, 5, 3, 4] := by
  simp [CompositeMem, ConeMem, ConeT.nvars, SocMem, sumSq]
  norm_num

/-- a 1-variable problem with one nonnegative row and one second-order cone of dimension 2 over
ℝ, fresh equilibration data -/
noncomputable def exData : ProblemData ℝ :=
  { P := ⟨1, 1, #[0, 1], #[0], #[2]⟩, q := #[1], A := ⟨3, 1, #[0, 2], #[0, 1], #[3, 5]⟩, b := #[4, 1, 0],
    cones := [.nonneg 1, .soc 2], n := 1, m := 3, equilibration := EquilData.new 1 3,
    normq := none, normb := none, presolver := none }

/-- the hypotheses of `cone_preserved_composite`, `scalings_positive`, `bounds_any_start`,
`zero_rows_general`, `unscale_scale_id` are simultaneously satisfiable with equilibration
ENABLED and bounds that exclude 1 (`min = 2`, `max = 4`, three passes): fresh data, a valid cone
list covering the rows, and `equilibrate` succeeds; row 2 of `A` is all-zero. -/
example : exData.equilibration = EquilData.new exData.n exData.m ∧
    Cones.numel exData.cones = exData.m ∧ ValidCones exData.cones ∧
    (∃ dt', equilibrate exData exData.cones ⟨true, 3, 2, 4⟩ = .ok dt') ∧
    (0:ℝ) < 2 ∧ (2:ℝ) ≤ 4 := by
  refine ⟨rfl, rfl, ?_, ⟨finish (ruizLoop ⟨true, 3, 2, 4⟩ 3 exData) exData.cones, ?_⟩, by norm_num, by norm_num⟩
  · intro c hc
    simp [exData] at hc
    rcases hc with rfl | rfl <;> trivial
  · have h1 : shapesOk exData = true := by
      simp [shapesOk, Csc.wellFormed, Csc.colIdx, Csc.anyAdjacent, exData, EquilData.new]
    unfold equilibrate
    simp only [Bool.not_true, Bool.false_eq_true, ↓reduceIte, h1]
    rfl

/-- [R] **composed cone preservation with `0 < max` alone** — no condition at all on
`equilibrate_min_scaling` (zero, negative, above `max`: `validate()` accepts them all).  Over ℝ
the step of a pass is `clip(1/√norm, min/d, max/d)` with `norm > 0`, positive as soon as
`max/d > 0`; so `E` is still positive and uniform on every non-scalar cone and maps the
product cone onto itself. -/
theorem cone_preserved_composite_any_min (dt dt' : ProblemData ℝ) (cones : List (ConeT ℝ)) (s : Settings ℝ)
    (hhi : 0 < s.maxScaling)
    (hfresh : dt.equilibration = EquilData.new dt.n dt.m) (hv : ValidCones cones)
    (h : equilibrate dt cones s = .ok dt') (sv zv : List ℝ) (hs : sv.length = dt.m) (hz : zv.length = dt.m) :
    (CompositeMem ConeMem cones (List.zipWith (· * ·) dt'.equilibration.e.toList sv) ↔
      CompositeMem ConeMem cones sv) ∧
    (CompositeMem ConeMemDual cones (List.zipWith (· * ·) dt'.equilibration.einv.toList zv) ↔
      CompositeMem ConeMemDual cones zv) := by
  obtain ⟨h1, h2, hs1, hs2⟩ := uniformOn_equilibrate_hi dt dt' cones s
    (fun x hx => Real.sqrt_pos.mpr hx) hhi hfresh h
  exact ⟨(compositeMem_scale cones hv _ sv (by simp [hs1, hs]) h1).1,
    (compositeMem_scale cones hv _ zv (by simp [hs2, hz]) h2).2⟩

/-- [R] **positive scalings with `0 < max` alone** (over ℝ): all `dⱼ`, `eᵢ`, `c` are positive
whatever `equilibrate_min_scaling` is. -/
theorem scalings_positive_any_min (dt dt' : ProblemData ℝ) (cones : List (ConeT ℝ)) (s : Settings ℝ)
    (hhi : 0 < s.maxScaling)
    (hfresh : dt.equilibration = EquilData.new dt.n dt.m) (hnum : Cones.numel cones = dt.m)
    (h : equilibrate dt cones s = .ok dt') :
    (∀ j, j < dt'.equilibration.d.size → 0 < dt'.equilibration.d.getD j 1) ∧
    (∀ a ∈ dt'.equilibration.e.toList, 0 < a) ∧ 0 < dt'.equilibration.c := by
  have hsq : ∀ x : ℝ, 0 < x → 0 < sqrt x := fun x hx => Real.sqrt_pos.mpr hx
  obtain ⟨hd, hc⟩ := pos_equilibrate_hi dt dt' cones s hsq hhi hfresh h
  obtain ⟨hu, _, hsz, _⟩ := uniformOn_equilibrate_hi dt dt' cones s hsq hhi hfresh h
  exact ⟨hd, hu.pos (by simp [hsz, hnum]), hc⟩

/-- `cone_preserved_composite_any_min`: settings with `min = 0` satisfy the hypothesis, and
`equilibrate` succeeds on `exData` with them -/
example : (0:ℝ) < (⟨true, 3, 0, 4⟩ : Settings ℝ).maxScaling ∧
    ∃ dt', equilibrate exData exData.cones ⟨true, 3, 0, 4⟩ = .ok dt' := by
  refine ⟨by norm_num, finish (ruizLoop ⟨true, 3, 0, 4⟩ 3 exData) exData.cones, ?_⟩
  have h1 : shapesOk exData = true := by
    simp [shapesOk, Csc.wellFormed, Csc.colIdx, Csc.anyAdjacent, exData, EquilData.new]
  unfold equilibrate
  simp only [Bool.not_true, Bool.false_eq_true, ↓reduceIte, h1]
  rfl

end Clarabel.C10
