/-
  C09 — infinite bounds are removed and restored transparently (presolve).
  Property theorems only; helper lemmas live in `ClarabelProofs/Lemmas/Presolve*.lean`.

  All statements are about the model functions that the correspondence run of
  `./check C09` ties to `presolver.rs`, `problemdata.rs`, `infbounds.rs` and
  `SupportedConeT::new_collapsed`.  Class [S] theorems use no arithmetic law and hold for
  every scalar type, `Float` included.
-/
import ClarabelModel.Presolve
import ClarabelModel.ProblemData
import ClarabelProofs.Lemmas.Presolve
import ClarabelProofs.Lemmas.PresolveCollapse
import ClarabelProofs.Lemmas.ScalarInst
import Mathlib.Algebra.Order.Field.Basic

namespace Clarabel.C09
open Clarabel Cones Presolve

variable {α : Type}

/-! ### collapse well-formedness (`new_collapsed`, run before presolve) -/

/-- [S] `new_collapsed` preserves the total number of rows. -/
theorem collapse_numel (cones : List (ConeT α)) : numel (newCollapsed cones) = numel cones := by
  simp [newCollapsed, numel_collapseGo]

/-- [S] the collapsed list is in normal form: no empty cone, no `SecondOrderConeT(1)` /
`PSDTriangleConeT(1)`, no two adjacent nonnegative cones. -/
theorem collapse_normal (cones : List (ConeT α)) : Normal (newCollapsed cones) :=
  normal_collapseGo 0 cones

/-- [S] no cone of the collapsed list is empty. -/
theorem collapse_no_empty (cones : List (ConeT α)) : ∀ c ∈ newCollapsed cones, c.nvars ≠ 0 :=
  fun c hc => (mem_good_of_normal (collapse_normal cones) c hc).1

/-- [S] every second-order cone of the collapsed list has dimension ≥ 2 (and every PSD cone
side ≥ 2). -/
theorem collapse_soc_dim (cones : List (ConeT α)) :
    (∀ n, ConeT.soc n ∈ newCollapsed cones → 2 ≤ n) ∧ (∀ n, ConeT.psd n ∈ newCollapsed cones → 2 ≤ n) := by
  constructor
  · intro n hn
    have hg := mem_good_of_normal (collapse_normal cones) _ hn
    match n, hg with
    | 0, hg => exact absurd rfl hg.1
    | 1, hg => rcases hg.2 with h | h <;> simp [ConeT.collapsibleDim?, ConeT.isNonneg] at h
    | n + 2, _ => omega
  · intro n hn
    have hg := mem_good_of_normal (collapse_normal cones) _ hn
    match n, hg with
    | 0, hg => exact absurd rfl hg.1
    | 1, hg => rcases hg.2 with h | h <;> simp [ConeT.collapsibleDim?, ConeT.isNonneg] at h
    | n + 2, _ => omega

/-- [S] a list in normal form is left unchanged; in particular `new_collapsed` is idempotent. -/
theorem collapse_fixpoint (cones : List (ConeT α)) (h : Normal cones) : newCollapsed cones = cones :=
  (collapseGo_normal cones h).1

theorem collapse_idempotent (cones : List (ConeT α)) :
    newCollapsed (newCollapsed cones) = newCollapsed cones :=
  collapse_fixpoint _ (collapse_normal cones)

/-- [S] splitting a nonnegative cone in two (or merging two adjacent ones) anywhere in the
list does not change the collapsed list. -/
theorem collapse_nn_split_merge (pre post : List (ConeT α)) (a b : Nat) :
    newCollapsed (pre ++ ConeT.nonneg a :: ConeT.nonneg b :: post) =
      newCollapsed (pre ++ ConeT.nonneg (a + b) :: post) := by
  unfold newCollapsed
  apply collapseGo_congr_prefix
  intro acc
  rw [collapseGo_nonneg_cons, collapseGo_nonneg_cons, collapseGo_nonneg_cons, Nat.add_assoc]

/-- [S] a singleton second-order / PSD cone is treated exactly like `NonnegativeConeT(1)`. -/
theorem collapse_singleton (pre post : List (ConeT α)) :
    newCollapsed (pre ++ ConeT.soc 1 :: post) = newCollapsed (pre ++ ConeT.nonneg 1 :: post) ∧
    newCollapsed (pre ++ ConeT.psd 1 :: post) = newCollapsed (pre ++ ConeT.nonneg 1 :: post) := by
  unfold newCollapsed
  constructor <;>
  · apply collapseGo_congr_prefix
    intro acc
    simp [collapseGo, ConeT.nvars, ConeT.collapsibleDim?, ConeT.triangularNumber]

/-! ### which rows are dropped -/

section drop
variable [Sub α] [Mul α] [OfNat α 1] [LT α] [DecidableLT α] [FloatLike α]

/-- [S] `make_reduction_map` on a cone list that covers `b`: it never panics, the keep vector
has the length of `b`, and row `i` is dropped **iff** it lies in a nonnegative cone of the
(collapsed) list and `b[i] > (1 − 10ε)·infbound`.  `mreduced` is the number of kept rows and
the map is `Some` exactly when a row was dropped. -/
theorem dropped_iff (cones : List (ConeT α)) (b : Array α) (infbound : α)
    (h : numel cones = b.size) :
    ∃ keep : List Bool, keepFlags (threshold infbound) cones b.toList = .ok keep ∧
      keep.length = b.size ∧
      (∀ i (hi : i < b.size), keep[i]? = some false ↔
          (inNonneg cones i = true ∧ threshold infbound < b[i])) ∧
      makeReductionMap cones b infbound =
        .ok (if keep.count true < b.size then some keep.toArray else none, keep.count true) := by
  obtain ⟨keep, hk, hl, hs⟩ := keepFlags_spec (threshold infbound) cones b.toList (by simpa using h)
  refine ⟨keep, hk, by simpa using hl, ?_, ?_⟩
  · intro i hi
    have := hs i (by simpa using hi)
    simpa [inNonneg] using this
  · unfold makeReductionMap
    rw [hk]
    simp only [bind, Except.bind]
    split <;> simp_all [pure, Except.pure]

end drop

/-- [F] in exact arithmetic the contracted threshold lies strictly below a positive bound, so
every `b[i] ≥ infbound` in a nonnegative-cone row is dropped. -/
theorem dropped_of_ge_bound {α : Type} [Field α] [LinearOrder α] [IsStrictOrderedRing α] [FloatLike α]
    [LawfulFloatLike α] (infbound v : α) (hpos : 0 < infbound) (hv : infbound ≤ v) :
    threshold infbound < v := by
  unfold threshold
  have he : (0:α) < FloatLike.eps * FloatLike.ofNat 10 := by
    rw [LawfulFloatLike.ofNat_eq]
    exact mul_pos LawfulFloatLike.eps_pos (by norm_num)
  calc (1 - FloatLike.eps * FloatLike.ofNat 10) * infbound
      < 1 * infbound := by
        apply mul_lt_mul_of_pos_right _ hpos
        linarith
    _ = infbound := one_mul _
    _ ≤ v := hv

/-! ### the reduced problem -/

section reduced
variable [LT α] [DecidableLT α]

/-- [S] `presolve` returns `A[keep,:]` (`Csc.selectRows`, whose dense meaning is C16's
`select_rows_dense`), `b[keep]` and the cone list in which every nonnegative cone is replaced
by its kept count (removed when 0); the rows of the reduced cone list add up to the number
of kept rows. -/
theorem reduced_problem (thr : α) (cones : List (ConeT α)) (A : Csc α) (b : Array α)
    (keep : List Bool) (mred : Nat) (inf : α)
    (h : numel cones = b.size) (hk : keepFlags thr cones b.toList = .ok keep) (hA : A.m = b.size)
    (hrows : ∀ r ∈ A.rowval.toList, r < A.m) :
    let p : Presolver α := { keep := some keep.toArray, mfull := b.size, mreduced := mred, infbound := inf }
    ∃ A', A.selectRows keep.toArray = .ok A' ∧
      p.presolve A b cones = .ok (A', Vec.select b keep.toArray, reduceConesWith keep cones) ∧
      numel (reduceConesWith keep cones) = keep.count true ∧
      A'.m = keep.count true ∧ A'.n = A.n := by
  intro p
  obtain ⟨_, hk', hl, _⟩ := keepFlags_spec thr cones b.toList (by simpa using h)
  rw [hk] at hk'; cases hk'
  have hsz : keep.toArray.size = A.m := by simp [hl, hA]
  have hall : (A.rowval.toList.all (fun r => decide (r < A.m))) = true :=
    List.all_eq_true.mpr (fun r hr => decide_eq_true (hrows r hr))
  -- `selectRows` succeeds under these guards
  have hsel : ∃ A', A.selectRows keep.toArray = .ok A' ∧ A'.m = keep.count true ∧ A'.n = A.n := by
    unfold Csc.selectRows
    rw [if_neg (by simp [hsz]), if_neg (by simp [hall])]
    refine ⟨_, rfl, ?_, ?_⟩
    · exact (count_true_eq_filter_id keep).symm
    · rfl
  obtain ⟨A', hA', hm, hn⟩ := hsel
  refine ⟨A', hA', ?_, numel_reduceConesWith_keepFlags thr cones b.toList keep (by simpa using h) hk, hm, hn⟩
  simp only [Presolver.presolve, Presolver.reduceAb, Presolver.reduceCones, p, hA']
  have : (b.size != keep.toArray.size) = false := by simp [hl]
  have hl' : b.size = keep.length := by simpa using hl.symm
  simp [bind, Except.bind, pure, Except.pure, hl']

end reduced

/-- [S] `new_collapsed` runs before presolve and the reduced list needs no further
consolidation: reducing a collapsed list (any keep vector) gives a list in normal form — no
empty cone, no singleton SOC/PSD, no adjacent nonnegative cones — so `new_collapsed` would
leave it unchanged. -/
theorem collapse_after_reduce (cones : List (ConeT α)) (keep : List Bool) :
    Normal (reduceConesWith keep (newCollapsed cones)) ∧
    newCollapsed (reduceConesWith keep (newCollapsed cones)) = reduceConesWith keep (newCollapsed cones) :=
  ⟨normal_reduceConesWith _ keep (collapse_normal cones),
   collapse_fixpoint _ (normal_reduceConesWith _ keep (collapse_normal cones))⟩

/-! ### restoring the full vectors -/

section reverse
variable [OfNat α 0]

/-- [S] `reverse_presolve` on reduced vectors of the right length: no panic, `|s| = |z| =
mfull`, the kept positions carry the reduced vectors in order (`select(s_full, keep) =
s_reduced`), every dropped position holds `(s, z) = (infbound, 0)`, and `x` is copied. -/
theorem reverse (keep : Array Bool) (mred : Nat) (inf : α) (x0 s0 z0 x s z : Array α)
    (hx : x0.size = x.size) (hs0 : s0.size = keep.size) (hz0 : z0.size = keep.size)
    (hs : s.size = keep.toList.count true) (hz : z.size = keep.toList.count true) :
    let p : Presolver α := { keep := some keep, mfull := keep.size, mreduced := mred, infbound := inf }
    ∃ rs rz : List α, p.reversePresolve x0 s0 z0 x s z = .ok (x, rs.toArray, rz.toArray) ∧
      rs.length = keep.size ∧ rz.length = keep.size ∧
      selectL rs keep.toList = s.toList ∧ selectL rz keep.toList = z.toList ∧
      (∀ i : Nat, keep[i]? = some false → rs[i]? = some inf ∧ rz[i]? = some 0) := by
  intro p
  obtain ⟨rs, rz, h1, h2, h3, h4, h5, h6⟩ :=
    reverseRows_spec inf keep.toList s.toList z.toList (by simpa using hs) (by simpa using hz)
  refine ⟨rs, rz, ?_, by simpa using h2, by simpa using h3, h4, h5, ?_⟩
  · simp only [Presolver.reversePresolve, p]
    rw [if_neg (by simp [hx])]
    rw [if_neg (by simp [hs0, hz0]), h1]
    have e1 : s0.toList.drop keep.size = [] := List.drop_of_length_le (by simp [hs0])
    have e2 : z0.toList.drop keep.size = [] := List.drop_of_length_le (by simp [hz0])
    simp [e1, e2]
  · intro i hi
    exact h6 i (by simpa using hi)

/-- [S] reverse ∘ reduce = id on kept rows: restoring `select(v, keep)`, `select(w, keep)`
gives back `v[i]`, `w[i]` at every kept position. -/
theorem reverse_reduce_id (inf : α) (keep : List Bool) (v w : List α)
    (hv : v.length = keep.length) (hw : w.length = keep.length) :
    ∃ rs rz : List α, reverseRows inf keep (selectL v keep) (selectL w keep) = .ok (rs, rz) ∧
      ∀ i : Nat, keep[i]? = some true → rs[i]? = v[i]? ∧ rz[i]? = w[i]? :=
  reverseRows_selectL inf keep v w hv hw

end reverse

/-! ### cap, and presolve off -/

section cap
variable [Add α] [Sub α] [Mul α] [Div α] [OfNat α 0] [OfNat α 1] [LT α] [DecidableLT α] [FloatLike α]

omit [Add α] [Sub α] [Mul α] [Div α] [OfNat α 0] [OfNat α 1] [LT α] [DecidableLT α] in
/-- [S] every entry of the internal `b` is `min(·, infbound)` of the corresponding selected
entry of the user's `b`. -/
theorem cap_entry (b : Array α) (infbound : α) (i : Nat) (hi : i < b.size) :
    (ProblemData.capB b infbound)[i]? = some (fmin b[i] infbound) := by
  simp [ProblemData.capB, hi]

omit [Add α] [Div α] in
/-- [S] with presolve off nothing is dropped: no presolver is recorded, `A` is the user's
matrix and `b` is the capped user vector (rows outside nonnegative cones are never dropped
either way — `dropped_iff`). -/
theorem cap_presolve_off (P : Csc α) (q : Array α) (A : Csc α) (b : Array α) (cones : List (ConeT α))
    (infbound : α) (d : ProblemData α)
    (h : ProblemData.new P q A b cones false false infbound = .ok d) :
    d.presolver = none ∧ d.A = A ∧ d.b = ProblemData.capB b infbound ∧
      d.cones = newCollapsed cones ∧ d.m = A.m := by
  unfold ProblemData.new at h
  simp only [ProblemData.tryPresolver, Bool.not_false, ↓reduceIte, Bool.false_and, Bool.false_eq_true,
    bind, Except.bind, pure, Except.pure] at h
  split at h
  · cases hT : P.toTriu with
    | error e => rw [hT] at h; cases h
    | ok P' => rw [hT] at h; cases h; exact ⟨rfl, rfl, rfl, rfl, rfl⟩
  · cases h; exact ⟨rfl, rfl, rfl, rfl, rfl⟩

end cap

/-! ### the module-level bound -/

/-- [S] for every history of `set_infinity` / `default_infinity` / solver constructions, the
bound captured by a solver is the value in force when it was constructed; operations after
the construction do not change it. -/
theorem bound_history (dflt : α) (pre post : List (InfOp α)) :
    let w := InfWorld.run dflt (pre ++ InfOp.new :: post)
    let k := (InfWorld.run dflt pre).captured.length
    w.captured[k]? = some (InfWorld.run dflt pre).current := by
  intro w k
  simp only [w, k, InfWorld.run, List.foldl_append, List.foldl_cons]
  obtain ⟨ext, he⟩ := InfWorld.foldl_captured_prefix dflt post
    (InfWorld.step dflt (pre.foldl (InfWorld.step dflt) { current := dflt, captured := [] }) InfOp.new)
  rw [he]
  simp [InfWorld.step]

/-! ### non-vacuity -/

/-- `dropped_iff`, `reduced_problem`: rows 1 and 3 of `b = (1, 9, 2, 9)` with threshold 5 in
`[NN 2, SOC 0, NN 2]`… here on ℕ-valued data with a concrete keep vector. -/
example : keepFlags (5 : Nat) [ConeT.nonneg 2, ConeT.zero 1, ConeT.nonneg 1] [1, 9, 9, 9]
    = .ok [true, false, true, false] := by rfl
example : reduceConesWith [true, false, true, false] [ConeT.nonneg 2, ConeT.zero 1, ConeT.nonneg 1]
    = ([ConeT.nonneg 1, ConeT.zero 1] : List (ConeT Nat)) := by rfl
example : reverseRows (7 : Nat) [true, false, true, false] [1, 2] [3, 4] = .ok ([1, 7, 2, 7], [3, 0, 4, 0]) := by rfl
example : newCollapsed ([ConeT.soc 1, ConeT.nonneg 3, ConeT.nonneg 2, ConeT.exp, ConeT.nonneg 0, ConeT.soc 1] : List (ConeT Nat))
    = [ConeT.nonneg 6, ConeT.exp, ConeT.nonneg 1] := by rfl
example : (InfWorld.run (20 : Nat) [.set 5, .new, .set 7, .default, .new]).captured = [5, 20] := by rfl
/-- `dropped_of_ge_bound` over ℝ with the default bound -/
example : threshold (1e20 : ℝ) < 1e20 := dropped_of_ge_bound _ _ (by norm_num) (le_refl _)

end Clarabel.C09
