/-
  C09 — infinite bounds are removed and restored transparently (presolve).
  Property theorems only; helper lemmas live in `ClarabelProofs/Lemmas/Presolve*.lean`.

  All statements are about the model functions that the correspondence run of
  `./check C09` ties to `presolver.rs`, `problemdata.rs`, `infbounds.rs` and
  `SupportedConeT::new_collapsed`.  Class [S] theorems use no arithmetic law and hold for
  every scalar type, `Float` included.
-/
import ClarabelModel.Presolve
import ClarabelModel.ProblemData
import ClarabelProofs.Lemmas.Presolve
import ClarabelProofs.Lemmas.PresolveCollapse
import ClarabelProofs.Lemmas.PresolveSpec
import ClarabelProofs.Lemmas.PresolveInfCapture
import ClarabelProofs.Lemmas.PresolveHandReduce
import ClarabelProofs.Lemmas.PresolveSolveTransparent
import ClarabelProofs.Lemmas.PresolveTransparent
import ClarabelProofs.Lemmas.PresolveTransparentFull
import ClarabelProofs.Props.C09NS
import ClarabelProofs.Props.C16
import ClarabelProofs.Lemmas.ScalarInst
import Mathlib.Algebra.Order.Field.Basic

namespace Clarabel.C09
open Clarabel Cones Presolve

variable {α : Type}

/-! ### collapse well-formedness (`new_collapsed`, run before presolve) -/

/-- [S] `new_collapsed` preserves the total number of rows. -/
theorem collapse_numel (cones : List (ConeT α)) : numel (newCollapsed cones) = numel cones := by
  simp [newCollapsed, numel_collapseGo]

/-- [S] the collapsed list is in normal form: no empty cone, no `SecondOrderConeT(1)` /
`PSDTriangleConeT(1)`, no two adjacent nonnegative cones. -/
theorem collapse_normal (cones : List (ConeT α)) : Normal (newCollapsed cones) :=
  normal_collapseGo 0 cones

/-- [S] no cone of the collapsed list is empty. -/
theorem collapse_no_empty (cones : List (ConeT α)) : ∀ c ∈ newCollapsed cones, c.nvars ≠ 0 :=
  fun c hc => (mem_good_of_normal (collapse_normal cones) c hc).1

/-- [S] every second-order cone of the collapsed list has dimension ≥ 2 (and every PSD cone
side ≥ 2). -/
theorem collapse_soc_dim (cones : List (ConeT α)) :
    (∀ n, ConeT.soc n ∈ newCollapsed cones → 2 ≤ n) ∧ (∀ n, ConeT.psd n ∈ newCollapsed cones → 2 ≤ n) := by
  constructor
  · intro n hn
    have hg := mem_good_of_normal (collapse_normal cones) _ hn
    match n, hg with
    | 0, hg => exact absurd rfl hg.1
    | 1, hg => rcases hg.2 with h | h <;> simp [ConeT.collapsibleDim?, ConeT.isNonneg] at h
    | n + 2, _ => omega
  · intro n hn
    have hg := mem_good_of_normal (collapse_normal cones) _ hn
    match n, hg with
    | 0, hg => exact absurd rfl hg.1
    | 1, hg => rcases hg.2 with h | h <;> simp [ConeT.collapsibleDim?, ConeT.isNonneg] at h
    | n + 2, _ => omega

/-- [S] a list in normal form is left unchanged; in particular `new_collapsed` is idempotent. -/
theorem collapse_fixpoint (cones : List (ConeT α)) (h : Normal cones) : newCollapsed cones = cones :=
  (collapseGo_normal cones h).1

theorem collapse_idempotent (cones : List (ConeT α)) :
    newCollapsed (newCollapsed cones) = newCollapsed cones :=
  collapse_fixpoint _ (collapse_normal cones)

/-- [S] splitting a nonnegative cone in two (or merging two adjacent ones) anywhere in the
list does not change the collapsed list. -/
theorem collapse_nn_split_merge (pre post : List (ConeT α)) (a b : Nat) :
    newCollapsed (pre ++ ConeT.nonneg a :: ConeT.nonneg b :: post) =
      newCollapsed (pre ++ ConeT.nonneg (a + b) :: post) := by
  unfold newCollapsed
  apply collapseGo_congr_prefix
  intro acc
  rw [collapseGo_nonneg_cons, collapseGo_nonneg_cons, collapseGo_nonneg_cons, Nat.add_assoc]

/-- [S] a singleton second-order / PSD cone is treated exactly like `NonnegativeConeT(1)`. -/
theorem collapse_singleton (pre post : List (ConeT α)) :
    newCollapsed (pre ++ ConeT.soc 1 :: post) = newCollapsed (pre ++ ConeT.nonneg 1 :: post) ∧
    newCollapsed (pre ++ ConeT.psd 1 :: post) = newCollapsed (pre ++ ConeT.nonneg 1 :: post) := by
  unfold newCollapsed
  constructor <;>
  · apply collapseGo_congr_prefix
    intro acc
    simp [collapseGo, ConeT.nvars, ConeT.collapsibleDim?, ConeT.triangularNumber]

/-! ### which rows are dropped -/

section drop
variable [Sub α] [Mul α] [OfNat α 1] [LT α] [DecidableLT α] [FloatLike α]

/-- [S] `make_reduction_map` on a cone list that covers `b`: it never panics, the keep vector
has the length of `b`, and row `i` is dropped **iff** it lies in a nonnegative cone of the
(collapsed) list and `b[i] > (1 − 10ε)·infbound`.  `mreduced` is the number of kept rows and
the map is `Some` exactly when a row was dropped. -/
theorem dropped_iff (cones : List (ConeT α)) (b : Array α) (infbound : α)
    (h : numel cones = b.size) :
    ∃ keep : List Bool, keepFlags (threshold infbound) cones b.toList = .ok keep ∧
      keep.length = b.size ∧
      (∀ i (hi : i < b.size), keep[i]? = some false ↔
          (inNonneg cones i = true ∧ threshold infbound < b[i])) ∧
      makeReductionMap cones b infbound =
        .ok (if keep.count true < b.size then some keep.toArray else none, keep.count true) := by
  obtain ⟨keep, hk, hl, hs⟩ := keepFlags_spec (threshold infbound) cones b.toList (by simpa using h)
  refine ⟨keep, hk, by simpa using hl, ?_, ?_⟩
  · intro i hi
    have := hs i (by simpa using hi)
    simpa [inNonneg] using this
  · unfold makeReductionMap
    rw [hk]
    simp only [bind, Except.bind]
    split <;> simp_all [pure, Except.pure]

end drop

/-- [F] in exact arithmetic the contracted threshold lies strictly below a positive bound, so
every `b[i] ≥ infbound` in a nonnegative-cone row is dropped. -/
theorem dropped_of_ge_bound {α : Type} [Field α] [LinearOrder α] [IsStrictOrderedRing α] [FloatLike α]
    [LawfulFloatLike α] (infbound v : α) (hpos : 0 < infbound) (hv : infbound ≤ v) :
    threshold infbound < v := by
  unfold threshold
  have he : (0:α) < FloatLike.eps * FloatLike.ofNat 10 := by
    rw [LawfulFloatLike.ofNat_eq]
    exact mul_pos LawfulFloatLike.eps_pos (by norm_num)
  calc (1 - FloatLike.eps * FloatLike.ofNat 10) * infbound
      < 1 * infbound := by
        apply mul_lt_mul_of_pos_right _ hpos
        linarith
    _ = infbound := one_mul _
    _ ≤ v := hv

/-! ### the reduced problem -/

section reduced
variable [LT α] [DecidableLT α]

/-- [S] `presolve` returns `A[keep,:]` (`Csc.selectRows`, whose dense meaning is C16's
`select_rows_dense`), `b[keep]` and the cone list in which every nonnegative cone is replaced
by its kept count (removed when 0); the rows of the reduced cone list add up to the number
of kept rows. -/
theorem reduced_problem (thr : α) (cones : List (ConeT α)) (A : Csc α) (b : Array α)
    (keep : List Bool) (mred : Nat) (inf : α)
    (h : numel cones = b.size) (hk : keepFlags thr cones b.toList = .ok keep) (hA : A.m = b.size)
    (hrows : ∀ r ∈ A.rowval.toList, r < A.m) :
    let p : Presolver α := { keep := some keep.toArray, mfull := b.size, mreduced := mred, infbound := inf }
    ∃ A', A.selectRows keep.toArray = .ok A' ∧
      p.presolve A b cones = .ok (A', Vec.select b keep.toArray, reduceConesWith keep cones) ∧
      numel (reduceConesWith keep cones) = keep.count true ∧
      A'.m = keep.count true ∧ A'.n = A.n := by
  intro p
  obtain ⟨_, hk', hl, _⟩ := keepFlags_spec thr cones b.toList (by simpa using h)
  rw [hk] at hk'; cases hk'
  have hsz : keep.toArray.size = A.m := by simp [hl, hA]
  have hall : (A.rowval.toList.all (fun r => decide (r < A.m))) = true :=
    List.all_eq_true.mpr (fun r hr => decide_eq_true (hrows r hr))
  -- `selectRows` succeeds under these guards
  have hsel : ∃ A', A.selectRows keep.toArray = .ok A' ∧ A'.m = keep.count true ∧ A'.n = A.n := by
    unfold Csc.selectRows
    rw [if_neg (by simp [hsz]), if_neg (by simp [hall])]
    refine ⟨_, rfl, ?_, ?_⟩
    · exact (count_true_eq_filter_id keep).symm
    · rfl
  obtain ⟨A', hA', hm, hn⟩ := hsel
  refine ⟨A', hA', ?_, numel_reduceConesWith_keepFlags thr cones b.toList keep (by simpa using h) hk, hm, hn⟩
  simp only [Presolver.presolve, Presolver.reduceAb, Presolver.reduceCones, p, hA']
  have : (b.size != keep.toArray.size) = false := by simp [hl]
  have hl' : b.size = keep.length := by simpa using hl.symm
  simp [bind, Except.bind, pure, Except.pure, hl']

end reduced

/-- [S] `new_collapsed` runs before presolve and the reduced list needs no further
consolidation: reducing a collapsed list (any keep vector) gives a list in normal form — no
empty cone, no singleton SOC/PSD, no adjacent nonnegative cones — so `new_collapsed` would
leave it unchanged. -/
theorem collapse_after_reduce (cones : List (ConeT α)) (keep : List Bool) :
    Normal (reduceConesWith keep (newCollapsed cones)) ∧
    newCollapsed (reduceConesWith keep (newCollapsed cones)) = reduceConesWith keep (newCollapsed cones) :=
  ⟨normal_reduceConesWith _ keep (collapse_normal cones),
   collapse_fixpoint _ (normal_reduceConesWith _ keep (collapse_normal cones))⟩

/-! ### restoring the full vectors -/

section reverse
variable [OfNat α 0]

/-- [S] `reverse_presolve` on reduced vectors of the right length: no panic, `|s| = |z| =
mfull`, the kept positions carry the reduced vectors in order (`select(s_full, keep) =
s_reduced`), every dropped position holds `(s, z) = (infbound, 0)`, and `x` is copied. -/
theorem reverse (keep : Array Bool) (mred : Nat) (inf : α) (x0 s0 z0 x s z : Array α)
    (hx : x0.size = x.size) (hs0 : s0.size = keep.size) (hz0 : z0.size = keep.size)
    (hs : s.size = keep.toList.count true) (hz : z.size = keep.toList.count true) :
    let p : Presolver α := { keep := some keep, mfull := keep.size, mreduced := mred, infbound := inf }
    ∃ rs rz : List α, p.reversePresolve x0 s0 z0 x s z = .ok (x, rs.toArray, rz.toArray) ∧
      rs.length = keep.size ∧ rz.length = keep.size ∧
      selectL rs keep.toList = s.toList ∧ selectL rz keep.toList = z.toList ∧
      (∀ i : Nat, keep[i]? = some false → rs[i]? = some inf ∧ rz[i]? = some 0) := by
  intro p
  obtain ⟨rs, rz, h1, h2, h3, h4, h5, h6⟩ :=
    reverseRows_spec inf keep.toList s.toList z.toList (by simpa using hs) (by simpa using hz)
  refine ⟨rs, rz, ?_, by simpa using h2, by simpa using h3, h4, h5, ?_⟩
  · simp only [Presolver.reversePresolve, p]
    rw [if_neg (by simp [hx])]
    rw [if_neg (by simp [hs0, hz0]), h1]
    have e1 : s0.toList.drop keep.size = [] := List.drop_of_length_le (by simp [hs0])
    have e2 : z0.toList.drop keep.size = [] := List.drop_of_length_le (by simp [hz0])
    simp [e1, e2]
  · intro i hi
    exact h6 i (by simpa using hi)

/-- [S] reverse ∘ reduce = id on kept rows: restoring `select(v, keep)`, `select(w, keep)`
gives back `v[i]`, `w[i]` at every kept position. -/
theorem reverse_reduce_id (inf : α) (keep : List Bool) (v w : List α)
    (hv : v.length = keep.length) (hw : w.length = keep.length) :
    ∃ rs rz : List α, reverseRows inf keep (selectL v keep) (selectL w keep) = .ok (rs, rz) ∧
      ∀ i : Nat, keep[i]? = some true → rs[i]? = v[i]? ∧ rz[i]? = w[i]? :=
  reverseRows_selectL inf keep v w hv hw

end reverse

/-! ### cap, and presolve off -/

section cap
variable [Add α] [Sub α] [Mul α] [Div α] [OfNat α 0] [OfNat α 1] [LT α] [DecidableLT α] [FloatLike α]

omit [Add α] [Sub α] [Mul α] [Div α] [OfNat α 0] [OfNat α 1] [LT α] [DecidableLT α] in
/-- [S] every entry of the internal `b` is `min(·, infbound)` of the corresponding selected
entry of the user's `b`. -/
theorem cap_entry (b : Array α) (infbound : α) (i : Nat) (hi : i < b.size) :
    (ProblemData.capB b infbound)[i]? = some (fmin b[i] infbound) := by
  simp [ProblemData.capB, hi]

omit [Add α] [Div α] in
/-- [S] with presolve off nothing is dropped: no presolver is recorded, `A` is the user's
matrix and `b` is the capped user vector (rows outside nonnegative cones are never dropped
either way — `dropped_iff`). -/
theorem cap_presolve_off (P : Csc α) (q : Array α) (A : Csc α) (b : Array α) (cones : List (ConeT α))
    (infbound : α) (d : ProblemData α)
    (h : ProblemData.new P q A b cones false false infbound = .ok d) :
    d.presolver = none ∧ d.A = A ∧ d.b = ProblemData.capB b infbound ∧
      d.cones = newCollapsed cones ∧ d.m = A.m := by
  unfold ProblemData.new at h
  simp only [ProblemData.tryPresolver, ProblemData.reduceStep, Bool.not_false, ↓reduceIte, Bool.false_and,
    Bool.false_eq_true, bind, Except.bind, pure, Except.pure] at h
  cases hT : ProblemData.triuStep P with
  | error e => rw [hT] at h; cases h
  | ok P' => rw [hT] at h; cases h; exact ⟨rfl, rfl, rfl, rfl, rfl⟩

end cap

/-- [S] **end-to-end specification of `DefaultProblemData::new`** at model level (chordal
decomposition off): the output is `cap ∘ drop ∘ collapse` of the user's data.  For a canonical
`A` (C16) with `A.m = |b| = Σ nvars cones` and a square `P`, `ProblemData.new` never panics and
returns `d` with

* `d.P` = `P` made upper triangular, `d.q = q`, `d.n = A.n`, identity equilibration data;
* a keep vector `keep` over the **collapsed** cone list with the exact drop criterion
  (`dropped_iff`);
* if presolve is on and some row is dropped: `d.A = A[keep,:]` — `select_rows` succeeds, the
  result is canonical and (imported `C16.selectRows_spec`) its row `rankBefore keep i` is row
  `i` of `A`, entry for entry, for every kept `i`; `d.b = min(b[keep], infbound)`;
  `d.cones` = the reduced list, whose rows add up to `d.m = count keep` and which needs no
  further consolidation (`Normal`); the presolver record holds `keep`, `mfull = |b|`,
  `mreduced = d.m` and the bound in force;
* otherwise (presolve off, or nothing to drop): `d.A = A`, `d.b = min(b, infbound)`,
  `d.cones` = the collapsed list, no presolver. -/
theorem problemdata_new_spec [Add α] [Sub α] [Mul α] [Div α] [OfNat α 0] [OfNat α 1] [LT α]
    [DecidableLT α] [FloatLike α] (P : Csc α) (q : Array α) (A : Csc α) (b : Array α) (cones : List (ConeT α))
    (presolve : Bool) (inf : α)
    (hA : C16.Canonical A) (hAm : A.m = b.size) (hnum : numel cones = b.size) (hPsq : P.m = P.n) :
    ∃ (keep : List Bool) (Pn : Csc α) (d : ProblemData α),
      keepFlags (threshold inf) (newCollapsed cones) b.toList = .ok keep ∧ keep.length = b.size ∧
      (∀ i (hi : i < b.size), keep[i]? = some false ↔
        (inNonneg (newCollapsed cones) i = true ∧ threshold inf < b[i])) ∧
      ProblemData.triuStep P = .ok Pn ∧
      ProblemData.new P q A b cones presolve false inf = .ok d ∧
      d.P = Pn ∧ d.q = q ∧ d.n = A.n ∧ d.equilibration = EquilData.new d.n d.m ∧
      (if presolve = true ∧ keep.count true < b.size then
        ∃ A', A.selectRows keep.toArray = .ok A' ∧ C16.Canonical A' ∧ d.A = A' ∧
          (∀ i j, i < A.m → j < A.n → keep.toArray.getD i false = true →
            A'.toDense (Csc.rankBefore keep.toArray i) j = A.toDense i j) ∧
          d.b = ProblemData.capB (Vec.select b keep.toArray) inf ∧
          d.cones = reduceConesWith keep (newCollapsed cones) ∧
          d.m = keep.count true ∧ numel d.cones = d.m ∧ Normal d.cones ∧
          d.presolver = some (recordOf keep b inf)
      else
        d.A = A ∧ d.b = ProblemData.capB b inf ∧ d.cones = newCollapsed cones ∧ d.m = A.m ∧
          d.presolver = none) := by
  have hnum' : numel (newCollapsed cones) = b.size := by rw [collapse_numel]; exact hnum
  obtain ⟨keep, hk, hl, hiff, _⟩ := dropped_iff (newCollapsed cones) b inf hnum'
  obtain ⟨Pn, hPn⟩ := triuStep_ok P hPsq
  by_cases hcond : presolve = true ∧ keep.count true < b.size
  · obtain ⟨hp, hc⟩ := hcond
    have hpre : ProblemData.tryPresolver b (newCollapsed cones) presolve inf =
        .ok (some (recordOf keep b inf)) := by
      rw [hp, tryPresolver_on _ _ _ _ hk, if_pos hc]
    obtain ⟨A', hsel, hpres, hnumel, hm, hn⟩ :=
      reduced_problem (threshold inf) (newCollapsed cones) A b keep (keep.count true) inf hnum' hk hAm
        hA.rows_bound
    obtain ⟨R, hR, hRcan, _, _, hdense⟩ := C16.selectRows_spec A keep.toArray hA (by simp [hl, hAm])
    rw [hsel] at hR
    cases hR
    have hred : ProblemData.reduceStep (some (recordOf keep b inf)) A b (newCollapsed cones) =
        .ok (A', Vec.select b keep.toArray, reduceConesWith keep (newCollapsed cones)) := hpres
    refine ⟨keep, Pn, _, hk, hl, hiff, hPn, new_eq_of_steps P q A b cones presolve inf Pn _ _ hPn hpre hred,
      rfl, rfl, hn, rfl, ?_⟩
    rw [if_pos ⟨hp, hc⟩]
    exact ⟨A', hsel, hRcan, rfl, hdense, rfl, rfl, hm, by simp [ProblemData.assemble, hnumel, hm],
      normal_reduceConesWith _ keep (collapse_normal cones), rfl⟩
  · have hpre : ProblemData.tryPresolver b (newCollapsed cones) presolve inf = .ok none := by
      cases presolve with
      | false => rfl
      | true =>
        rw [tryPresolver_on _ _ _ _ hk, if_neg (by intro hc; exact hcond ⟨rfl, hc⟩)]
    have hred : ProblemData.reduceStep none A b (newCollapsed cones) = .ok (A, b, newCollapsed cones) := rfl
    refine ⟨keep, Pn, _, hk, hl, hiff, hPn, new_eq_of_steps P q A b cones presolve inf Pn _ _ hPn hpre hred,
      rfl, rfl, rfl, rfl, ?_⟩
    rw [if_neg hcond]
    exact ⟨rfl, rfl, rfl, rfl, rfl⟩


/-- [S] **cap**, both paths in one statement: under the hypotheses of `problemdata_new_spec`
every entry of the internal `b` is `min(·, infbound)` of the corresponding entry of the user's
`b` restricted to the kept rows (all rows when no presolver was recorded). -/
theorem cap [Add α] [Sub α] [Mul α] [Div α] [OfNat α 0] [OfNat α 1] [LT α] [DecidableLT α] [FloatLike α]
    (P : Csc α) (q : Array α) (A : Csc α) (b : Array α) (cones : List (ConeT α))
    (presolve : Bool) (inf : α) (d : ProblemData α)
    (hA : C16.Canonical A) (hAm : A.m = b.size) (hnum : numel cones = b.size) (hPsq : P.m = P.n)
    (h : ProblemData.new P q A b cones presolve false inf = .ok d) :
    d.b = ProblemData.capB (match d.presolver with
      | some p => Vec.select b (p.keep.getD #[])
      | none => b) inf := by
  obtain ⟨keep, Pn, d0, _, _, _, _, hnew, _, _, _, _, hcase⟩ :=
    problemdata_new_spec P q A b cones presolve inf hA hAm hnum hPsq
  rw [hnew] at h
  cases h
  split at hcase
  · obtain ⟨A', _, _, _, _, hb, _, _, _, _, hp⟩ := hcase
    rw [hb, hp]
    rfl
  · obtain ⟨_, hb, _, _, hp⟩ := hcase
    rw [hb, hp]

/-- [S] **reduced problem, dense meaning** (imports `C16.selectRows_spec`): for a canonical `A`
and a keep vector of length `A.m`, `select_rows` returns a canonical matrix with `count keep`
rows whose row `rankBefore keep i` equals row `i` of `A` entry for entry, for every kept `i`,
and every row of the result is such an image. -/
theorem reduced_problem_dense [Add α] [OfNat α 0] (A : Csc α) (keep : List Bool)
    (hA : C16.Canonical A) (hk : keep.length = A.m) :
    ∃ A', A.selectRows keep.toArray = .ok A' ∧ C16.Canonical A' ∧ A'.m = keep.count true ∧ A'.n = A.n ∧
      (∀ i j, i < A.m → j < A.n → keep.toArray.getD i false = true →
        A'.toDense (Csc.rankBefore keep.toArray i) j = A.toDense i j) ∧
      (∀ r, r < A'.m → ∃ i, i < A.m ∧ keep.toArray.getD i false = true ∧ Csc.rankBefore keep.toArray i = r) := by
  obtain ⟨R, hR, hcan, hm, hn, hd⟩ := C16.selectRows_spec A keep.toArray hA (by simpa using hk)
  have hm' : R.m = keep.count true := by rw [hm]; simpa using (count_true_eq_filter_id keep).symm
  refine ⟨R, hR, hcan, hm', hn, hd, ?_⟩
  intro r hr
  obtain ⟨i, hi, hki, hri⟩ := C16.selectRows_rows_onto keep.toArray r (by rw [← hm]; exact hr)
  exact ⟨i, by simpa [hk] using hi, hki, hri⟩

/-! ### the module-level bound -/

/-- [S] for every history of `set_infinity` / `default_infinity` / solver constructions, the
bound captured by a solver is the value in force when it was constructed; operations after
the construction do not change it. -/
theorem bound_history (dflt : α) (pre post : List (InfOp α)) :
    let w := InfWorld.run dflt (pre ++ InfOp.new :: post)
    let k := (InfWorld.run dflt pre).captured.length
    w.captured[k]? = some (InfWorld.run dflt pre).current := by
  intro w k
  simp only [w, k, InfWorld.run, List.foldl_append, List.foldl_cons]
  obtain ⟨ext, he⟩ := InfWorld.foldl_captured_prefix dflt post
    (InfWorld.step dflt (pre.foldl (InfWorld.step dflt) { current := dflt, captured := [] }) InfOp.new)
  rw [he]
  simp [InfWorld.step]

/-- [S] **capture at construction** (`DefaultProblemData::new`, either value of the chordal
switch): every use of the module-level bound by the constructed object is the value `inf` read
at construction — the presolver record stores `inf` (what `reverse_presolve` later writes into
the dropped rows of `s`) together with `mfull = |b|` and the keep vector computed with
`threshold inf` on the collapsed cone list, and the internal `b` is `min(·, inf)` of the selected
rows (all rows when no presolver was recorded).  Nothing in the object refers to the global
again, so later `set_infinity` / `default_infinity` calls cannot affect it. -/
theorem bound_captured_at_construction [Add α] [Sub α] [Mul α] [Div α] [OfNat α 0] [OfNat α 1] [LT α]
    [DecidableLT α] [FloatLike α] (P : Csc α) (q : Array α) (A : Csc α) (b : Array α)
    (cones : List (ConeT α)) (presolve chordal : Bool) (inf : α) (d : ProblemData α)
    (h : ProblemData.new P q A b cones presolve chordal inf = .ok d) :
    (∀ p, d.presolver = some p →
        p.infbound = inf ∧ p.mfull = b.size ∧
        ∃ keep, keepFlags (threshold inf) (newCollapsed cones) b.toList = .ok keep ∧
          p.keep = some keep.toArray ∧ p.mreduced = keep.count true) ∧
    (∃ bsel, d.b = ProblemData.capB bsel inf ∧ (d.presolver = none → bsel = b)) :=
  new_captures_bound P q A b cones presolve chordal inf d h

/-- [S] **capture at construction along a history**: in any history of `set_infinity` /
`default_infinity` / constructions, the object built by the `new` that follows the prefix `pre`
is `ProblemData.new … inf₀` with `inf₀` the bound in force after `pre`; whatever comes later
(`post`) does not change it.  With `bound_captured_at_construction` its record, drop test and
cap all use `inf₀`. -/
theorem bound_history_new [Add α] [Sub α] [Mul α] [Div α] [OfNat α 0] [OfNat α 1] [LT α]
    [DecidableLT α] [FloatLike α] (dflt : α) (pre post : List (InfOp α)) (P : Csc α) (q : Array α)
    (A : Csc α) (b : Array α) (cones : List (ConeT α)) (presolve chordal : Bool) :
    (InfWorld.constructed dflt (pre ++ InfOp.new :: post) P q A b cones presolve chordal)[
        (InfWorld.run dflt pre).captured.length]?
      = some (ProblemData.new P q A b cones presolve chordal (InfWorld.run dflt pre).current) :=
  constructed_in_history dflt pre post P q A b cones presolve chordal

/-- [S] **the chordal-decomposition switch**.  `new_collapsed` and `reduce_cones` neither create
nor remove a PSD cone of side > 3, so (1) with `chordal_decomposition_enable = true` and no such
cone in the user's list the constructed object is exactly the one with the switch off (the bound
is captured the same way), and (2) with such a cone the model refuses explicitly
(`err:chordal-not-modelled`; the decomposition is property C18's model) — after `try_presolver`
captured the bound and never with a silently different object.  In the Rust code the
decomposition (`chordal/*`) never reads `get_infinity()`; the cap is applied after
`decomp_augment` to the augmented `b` with the same single read. -/
theorem chordal_switch [Add α] [Sub α] [Mul α] [Div α] [OfNat α 0] [OfNat α 1] [LT α]
    [DecidableLT α] [FloatLike α] (P : Csc α) (q : Array α) (A : Csc α) (b : Array α)
    (cones : List (ConeT α)) (presolve : Bool) (inf : α) :
    (ProblemData.hasLargePsd cones = false →
      ProblemData.new P q A b cones presolve true inf = ProblemData.new P q A b cones presolve false inf) ∧
    (ProblemData.hasLargePsd cones = true → ∀ d,
      ProblemData.new P q A b cones presolve false inf = .ok d →
      ProblemData.new P q A b cones presolve true inf = .error (.err "chordal-not-modelled")) :=
  ⟨new_chordal_on_small P q A b cones presolve inf,
   fun hl d h => new_chordal_on_large P q A b cones presolve inf d hl h⟩

/-! ### round 3: the reduced internal problem IS `new(hand-reduced problem)` -/

/-- [S] **reduce then collapse = collapse then reduce.**  Shrinking, in the user's ORIGINAL cone
list, every cone that `new_collapsed` treats as nonnegative (`NonnegativeConeT(d)`,
`SecondOrderConeT(1)`, `PSDTriangleConeT(1)`) to its kept count (`handReduceCones`, the hand
reduction of the harness oracle) and collapsing afterwards gives exactly the list the solver
builds: the collapsed list reduced by `reduce_cones` — for EVERY keep vector of the right
length, i.e. every placement of infinite rows. -/
theorem collapse_hand_reduce (cones : List (ConeT α)) (keep : List Bool)
    (hk : keep.length = numel cones) :
    newCollapsed (handReduceCones keep cones) = reduceConesWith keep (newCollapsed cones) :=
  collapse_handReduceCones cones keep hk

/-- [S] **the reduced internal problem is `new(hand-reduced problem)`.**  For a well-formed
problem in which presolve drops at least one row, let `(A', b', cones')` be the user's
hand-reduced problem `handReduce keep A b cones` — rows with `keep = false` deleted from `A` and
`b`, nonnegative-like cones shrunk.  Then `DefaultProblemData::new` with presolve ON applied to
the original problem and with presolve OFF applied to the hand-reduced one return THE SAME
record — `P`, `q`, `A`, `b` (capped), collapsed cones, `n`, `m`, identity equilibration data,
norm caches — except for the `presolver` field; and presolve ON applied to the hand-reduced
problem finds nothing more to drop (idempotence).  (If no row is dropped, presolve on = presolve
off on the same problem: `presolve_on_nothing_dropped`.) -/
theorem internal_problem_is_hand_reduced [Add α] [Sub α] [Mul α] [Div α] [OfNat α 0] [OfNat α 1]
    [LT α] [DecidableLT α] [FloatLike α] (P : Csc α) (q : Array α) (A : Csc α) (b : Array α)
    (cones : List (ConeT α)) (inf : α) (keep : List Bool) (d : ProblemData α)
    (hA : C16.Canonical A) (hAm : A.m = b.size) (hnum : numel cones = b.size) (hPsq : P.m = P.n)
    (hk : keepFlags (threshold inf) (newCollapsed cones) b.toList = .ok keep)
    (hc : keep.count true < b.size)
    (hnew : ProblemData.new P q A b cones true false inf = .ok d) :
    ∃ (A' : Csc α) (b' : Array α) (cones' : List (ConeT α)),
      handReduce keep A b cones = .ok (A', b', cones') ∧
      ProblemData.new P q A' b' cones' false false inf = .ok { d with presolver := none } ∧
      ProblemData.new P q A' b' cones' true false inf = .ok { d with presolver := none } :=
  problemdata_new_hand_reduced P q A b cones inf keep d hA hAm hnum hPsq hk hc hnew

/-- [S] the degenerate case: when no row is dropped no presolver is recorded and presolve on
equals presolve off on the same problem. -/
theorem presolve_on_nothing_dropped [Add α] [Sub α] [Mul α] [Div α] [OfNat α 0] [OfNat α 1]
    [LT α] [DecidableLT α] [FloatLike α] (P : Csc α) (q : Array α) (A : Csc α) (b : Array α)
    (cones : List (ConeT α)) (inf : α) (keep : List Bool) (d : ProblemData α)
    (hk : keepFlags (threshold inf) (newCollapsed cones) b.toList = .ok keep)
    (hc : keep.count true = b.size)
    (hnew : ProblemData.new P q A b cones true false inf = .ok d) :
    d.presolver = none ∧ ProblemData.new P q A b cones false false inf = .ok d :=
  problemdata_new_nothing_dropped P q A b cones inf keep d hk hc hnew

/-! ### round 3: solve-level transparency on the whole-solver model -/

section transparent
open Clarabel.Solver
variable [Add α] [Sub α] [Mul α] [Div α] [Neg α] [OfNat α 0] [OfNat α 1] [OfNat α 2]
  [OfNat α 100] [OfNat α 1000] [LT α] [DecidableLT α] [LE α] [DecidableLE α] [BEq α] [FloatLike α]

/-- [S] **the solver reads the `presolver` record only in `solution.post_process`** (whole-solver
model `ClarabelModel/Solver/Solve.lean`, tied to the implementation bit for bit by C05's
`solve.full` channel): `solve()` on a solver object and on the same object with the `presolver`
record erased (and `solution` vectors of the reduced length) run through the SAME trajectory —
every pass record — and end in the same internal state, verdict, iteration count, objective
values and residuals; the latter returns the un-scaled reduced variables as `(x, s, z)`, the
former their `reverse_presolve` image: kept row `k` ↦ entry `rank keep k`, dropped row ↦
`(s, z) = (infbound, 0)`.  Equilibration, KKT assembly/factorisation, `default_start`, every pass
of the loop and `info.post_process` are functions of `(P, q, A, b, cones, n, m, equilibration,
norm caches)` and the settings only.  The length hypotheses are the length invariant of the
iteration (`|variables.s| = |variables.z| = data.m`), needed only for `copy_from`. -/
theorem solve_ignores_presolver_record (S : Solver α) (st : Settings α) (r : SolveResult α)
    (pm : Unscale.PresolveMap α) (sol' : Unscale.Solution α)
    (hr : S.solve st = .ok r) (hpm : presolveMap S.st.data = some pm)
    (hx : sol'.x.size = S.solution.x.size)
    (hs : r.S.st.variables.s.size = sol'.s.size) (hz : r.S.st.variables.z.size = sol'.z.size) :
    ∃ r', Solver.solve { st := S.st.setPre none, solution := sol' } st = .ok r' ∧
      r'.traj = r.traj ∧ r'.S.st = r.S.st.setPre none
      ∧ r'.S.solution.status = r.S.solution.status ∧ r'.S.solution.iterations = r.S.solution.iterations
      ∧ r'.S.solution.obj_val = r.S.solution.obj_val ∧ r'.S.solution.obj_val_dual = r.S.solution.obj_val_dual
      ∧ r'.S.solution.r_prim = r.S.solution.r_prim ∧ r'.S.solution.r_dual = r.S.solution.r_dual
      ∧ r'.S.solution.x = r.S.solution.x
      ∧ r'.S.solution.s = r.S.st.variables.s ∧ r'.S.solution.z = r.S.st.variables.z
      ∧ ∀ k, (hk : k < pm.keep.size) →
        (pm.keep[k] = true →
            r.S.solution.s[k]? = r'.S.solution.s[Unscale.rank pm.keep.toList k]?
            ∧ r.S.solution.z[k]? = r'.S.solution.z[Unscale.rank pm.keep.toList k]?
            ∧ (r'.S.solution.s[Unscale.rank pm.keep.toList k]?).isSome
            ∧ (r'.S.solution.z[Unscale.rank pm.keep.toList k]?).isSome)
        ∧ (pm.keep[k] = false → r.S.solution.s[k]? = some pm.infbound ∧ r.S.solution.z[k]? = some 0) := by
  obtain ⟨r', h1, h2⟩ := solve_presolve_transparent S st r pm sol' hr hpm hx hs hz
  exact ⟨r', h1, h2.explicit⟩

/-- [S] **`presolve_transparent` — end to end.**  Let `DefaultSolver::new(P, q, A, b, cones)`
succeed with presolve enabled (canonical `A`; the dimension asserts are part of `Solver.new`),
let `keep` be the keep vector of `make_reduction_map` on the collapsed cone list and suppose at
least one row is dropped.  Then for the user's HAND-REDUCED problem `(A', b', cones') =
handReduce keep A b cones` (rows deleted, nonnegative-like cones shrunk — every placement of
infinite rows):
1. `DefaultSolver::new(P, q, A', b', cones')` with presolve OFF succeeds (same AMD ordering `perm`:
   the KKT pattern is the same) and the two solver objects are EQUAL except for the `presolver`
   record (internal data after equilibration, cones, KKT system and its factorisation, all work
   vectors) — `internal_problem_is_hand_reduced` + the construction being a function of the
   internal data;
2. the row map used by `post_process` is `(keep, infbound)` with the bound captured at construction;
3. every successful `solve()` of the presolve-on solver is matched by a `solve()` of the
   hand-reduced one with the identical trajectory, internal state, verdict, iteration count,
   objective values and residuals, and the same `x`;
4. the `(s, z)` returned for the hand-reduced problem are the entries of the presolve-on `(s, z)`
   at the kept rows, in order, and the dropped rows carry `(s, z) = (infbound, 0)`.
Hypotheses besides the success of `new`/`solve`: `|variables.s| = |variables.z| = A'.m` after the
solve (length invariant of the iteration, see `solve_ignores_presolver_record`). -/
theorem presolve_transparent {P : Csc α} {q : Array α} {A : Csc α} {b : Array α}
    {cones : List (ConeT α)} {st : Settings α} {perm : Array Nat} {S : Solver α} {keep : List Bool}
    (hA : C16.Canonical A) (hpre : st.presolveEnable = true)
    (hnew : Solver.new P q A b cones st perm = .ok S)
    (hk : keepFlags (threshold st.infbound) (newCollapsed cones) b.toList = .ok keep)
    (hc : keep.count true < b.size) :
    ∃ (A' : Csc α) (b' : Array α) (cones' : List (ConeT α)) (S' : Solver α),
      handReduce keep A b cones = .ok (A', b', cones') ∧
      A'.m = keep.count true ∧ A'.n = A.n ∧
      Solver.new P q A' b' cones' { st with presolveEnable := false } perm = .ok S' ∧
      S'.st = S.st.setPre none ∧ S'.solution = Unscale.Solution.new A'.n A'.m ∧
      presolveMap S.st.data = some { keep := keep.toArray, infbound := st.infbound } ∧
      ∀ r, S.solve st = .ok r → r.S.st.variables.s.size = A'.m → r.S.st.variables.z.size = A'.m →
        ∃ r', S'.solve { st with presolveEnable := false } = .ok r' ∧
          r'.traj = r.traj ∧ r'.S.st = r.S.st.setPre none
          ∧ r'.S.solution.status = r.S.solution.status
          ∧ r'.S.solution.iterations = r.S.solution.iterations
          ∧ r'.S.solution.obj_val = r.S.solution.obj_val
          ∧ r'.S.solution.obj_val_dual = r.S.solution.obj_val_dual
          ∧ r'.S.solution.r_prim = r.S.solution.r_prim ∧ r'.S.solution.r_dual = r.S.solution.r_dual
          ∧ r'.S.solution.x = r.S.solution.x
          ∧ ∀ k, (hk : k < keep.length) →
            (keep[k] = true →
                r.S.solution.s[k]? = r'.S.solution.s[Unscale.rank keep k]?
                ∧ r.S.solution.z[k]? = r'.S.solution.z[Unscale.rank keep k]?
                ∧ (r'.S.solution.s[Unscale.rank keep k]?).isSome
                ∧ (r'.S.solution.z[Unscale.rank keep k]?).isSome)
            ∧ (keep[k] = false →
                r.S.solution.s[k]? = some st.infbound ∧ r.S.solution.z[k]? = some 0) := by
  obtain ⟨A', b', cones', S', h1, h2, h3, h4, h5, h6, h7, h8⟩ :=
    presolve_transparent_model hA hpre hnew hk hc
  refine ⟨A', b', cones', S', h1, h2, h3, h4, h5, h6, h7, ?_⟩
  intro r hr hs hz
  obtain ⟨r', hr', hrel⟩ := h8 r hr hs hz
  obtain ⟨e1, e2, e3, e4, e5, e6, e7, e8, e9, _, _, e12⟩ := hrel.explicit
  refine ⟨r', hr', e1, e2, e3, e4, e5, e6, e7, e8, e9, ?_⟩
  intro k hk
  have := e12 k (by simpa using hk)
  simpa using this

end transparent

/-! ### non-vacuity -/

/-- `dropped_iff`, `reduced_problem`: rows 1 and 3 of `b = (1, 9, 2, 9)` with threshold 5 in
`[NN 2, SOC 0, NN 2]`… here on ℕ-valued data with a concrete keep vector. -/
example : keepFlags (5 : Nat) [ConeT.nonneg 2, ConeT.zero 1, ConeT.nonneg 1] [1, 9, 9, 9]
    = .ok [true, false, true, false] := by rfl
example : reduceConesWith [true, false, true, false] [ConeT.nonneg 2, ConeT.zero 1, ConeT.nonneg 1]
    = ([ConeT.nonneg 1, ConeT.zero 1] : List (ConeT Nat)) := by rfl
example : reverseRows (7 : Nat) [true, false, true, false] [1, 2] [3, 4] = .ok ([1, 7, 2, 7], [3, 0, 4, 0]) := by rfl
example : newCollapsed ([ConeT.soc 1, ConeT.nonneg 3, ConeT.nonneg 2, ConeT.exp, ConeT.nonneg 0, ConeT.soc 1] : List (ConeT Nat))
    = [ConeT.nonneg 6, ConeT.exp, ConeT.nonneg 1] := by rfl
example : (InfWorld.run (20 : Nat) [.set 5, .new, .set 7, .default, .new]).captured = [5, 20] := by rfl
/-- `dropped_of_ge_bound` over ℝ with the default bound -/
example : threshold (1e20 : ℝ) < 1e20 := dropped_of_ge_bound _ _ (by norm_num) (le_refl _)

/-- `problemdata_new_spec` / `cap` / `reduced_problem_dense`: the hypotheses hold for a
concrete 2×1 problem over ℝ (canonical `A`, one nonnegative cone of dimension 2, empty `P`) -/
example : ∃ (keep : List Bool) (Pn : Csc ℝ) (d : ProblemData ℝ),
    ProblemData.new (⟨1, 1, #[0, 0], #[], #[]⟩ : Csc ℝ) #[1] ⟨2, 1, #[0, 2], #[0, 1], #[1, 2]⟩ #[1, 1e30]
      [ConeT.nonneg 2] true false 1e20 = .ok d ∧ d.P = Pn ∧ keep.length = 2 := by
  have hA : C16.Canonical (⟨2, 1, #[0, 2], #[0, 1], #[1, 2]⟩ : Csc ℝ) := C16.check_format_canonical _ (by rfl)
  obtain ⟨keep, Pn, d, _, hl, _, _, hnew, hP, _⟩ :=
    problemdata_new_spec (⟨1, 1, #[0, 0], #[], #[]⟩ : Csc ℝ) #[1] ⟨2, 1, #[0, 2], #[0, 1], #[1, 2]⟩
      #[1, 1e30] [ConeT.nonneg 2] true 1e20 hA rfl rfl rfl
  exact ⟨keep, Pn, d, hnew, hP, hl⟩

/-- `bound_captured_at_construction` / `chordal_switch` (2): the hypotheses are satisfiable — a
problem whose only cone is `PSDTriangleConeT(4)` (10 rows, empty `A`) is constructed with the
switch off, and `hasLargePsd` holds -/
example : ProblemData.hasLargePsd ([ConeT.psd 4] : List (ConeT ℝ)) = true ∧
    ∃ d, ProblemData.new (⟨1, 1, #[0, 0], #[], #[]⟩ : Csc ℝ) #[1] ⟨10, 1, #[0, 0], #[], #[]⟩
      #[1, 1, 1, 1, 1, 1, 1, 1, 1, 1] [ConeT.psd 4] true false 1e20 = .ok d := by
  refine ⟨by rfl, ?_⟩
  have hA : C16.Canonical (⟨10, 1, #[0, 0], #[], #[]⟩ : Csc ℝ) := C16.check_format_canonical _ (by rfl)
  obtain ⟨_, _, d, _, _, _, _, hnew, _⟩ :=
    problemdata_new_spec (⟨1, 1, #[0, 0], #[], #[]⟩ : Csc ℝ) #[1] ⟨10, 1, #[0, 0], #[], #[]⟩
      #[1, 1, 1, 1, 1, 1, 1, 1, 1, 1] [ConeT.psd 4] true 1e20 hA rfl rfl rfl
  exact ⟨d, hnew⟩
/-- `bound_history_new`: the second solver of `set 5; new; set 7; default; new; set 9` captures
the default again -/
example : (InfWorld.run (20 : Nat) ([.set 5, .new, .set 7, .default] ++ InfOp.new :: [.set 9])).captured[
    (InfWorld.run (20 : Nat) [.set 5, .new, .set 7, .default]).captured.length]? = some 20 := by rfl

section examples_round3
open Clarabel.Solver Clarabel.Solver.PresolveExample

attribute [local instance] intFloatLike in
/-- `presolve_transparent` / `solve_ignores_presolver_record`: the hypotheses are satisfiable —
on the instance `min x s.t. x + s₀ = 1, x + s₁ = 2·10⁶, s ≥ 0` with bound `10⁶` (scalar type `ℤ`,
`Lemmas/PresolveSolveTransparent.lean`) `Solver.new` succeeds with presolve enabled, `A` is
canonical, the keep vector is `[keep, drop]` (so a row is dropped).  (That `solve()` then ends
`Solved` after two passes with `s = [0, 10⁶]`, `z = [1, 0]` was evaluated by the kernel in a
separate process; see the comment there.) -/
example : (∃ S, Solver.new PresolveExample.P #[1] PresolveExample.A PresolveExample.b [.nonneg 2]
      PresolveExample.st #[0, 1] = .ok S) ∧
    PresolveExample.st.presolveEnable = true ∧
    keepFlags (threshold PresolveExample.st.infbound) (newCollapsed [ConeT.nonneg 2])
      PresolveExample.b.toList = .ok [true, false] ∧
    C16.Canonical PresolveExample.A := by
  refine ⟨?_, rfl, by rfl, C16.check_format_canonical _ (by rfl)⟩
  have h : (Solver.new PresolveExample.P #[1] PresolveExample.A PresolveExample.b [.nonneg 2]
      PresolveExample.st #[0, 1]).toOption.map (fun S => S.solution.x.size) = some 1 := by
    decide +kernel
  cases hS : Solver.new PresolveExample.P #[1] PresolveExample.A PresolveExample.b [.nonneg 2]
      PresolveExample.st #[0, 1] with
  | error e => rw [hS] at h; cases h
  | ok S => exact ⟨S, rfl⟩

attribute [local instance] natFloatLike in
/-- `internal_problem_is_hand_reduced`: the hypotheses hold on the 5×2 instance of
`Lemmas/PresolveHandReduce.lean` (cones `[SOC 1, NN 2, Zero 1, NN 1]`, one row dropped in the
`SOC 1`, one in the `NN 2`, a capped row in the zero cone) -/
example : C16.Canonical toyA ∧
    keepFlags (threshold (5 : Nat)) (newCollapsed toyCones) (#[9, 1, 9, 9, 2] : Array Nat).toList =
      .ok [false, true, false, true, true] ∧
    ∃ d, ProblemData.new toyP #[1, 1] toyA #[9, 1, 9, 9, 2] toyCones true false 5 = .ok d :=
  ⟨C16.check_format_canonical _ (by rfl), by rfl, ⟨_, rfl⟩⟩

end examples_round3

/-! ## Round 4 — `presolve_transparent` with the length invariant discharged -/

section transparent_full
open Clarabel.Solver
variable [Add α] [Sub α] [Mul α] [Div α] [Neg α] [OfNat α 0] [OfNat α 1] [OfNat α 2]
  [OfNat α 100] [OfNat α 1000] [LT α] [DecidableLT α] [LE α] [DecidableLE α] [BEq α] [FloatLike α]

/-- [S] **`presolve_transparent_full` — `presolve_transparent` without the length hypothesis.**
Same statement as `presolve_transparent`; the hypotheses `|variables.s| = |variables.z| = A'.m`
after the solve are now CONCLUSIONS: `DefaultSolver::new` allocates `variables` with the lengths
`(n, m)` of the internal (reduced) problem, every `solve()` that returns keeps them (the size part
of the state invariant of the whole-solver model — C04's `Shapes` / `full_solve_keeps_invariant`,
obtained here from C05's shape frame so that no hypothesis besides the success of `solve()` is
needed), and the reduced internal problem has exactly `A'.m = #kept rows` rows.  Hypotheses left:
canonical `A`, presolve enabled, `new` succeeds, `keep` is the keep vector of
`make_reduction_map`, at least one row is dropped — all about the user's input. -/
theorem presolve_transparent_full {P : Csc α} {q : Array α} {A : Csc α} {b : Array α}
    {cones : List (ConeT α)} {st : Settings α} {perm : Array Nat} {S : Solver α} {keep : List Bool}
    (hA : C16.Canonical A) (hpre : st.presolveEnable = true)
    (hnew : Solver.new P q A b cones st perm = .ok S)
    (hk : keepFlags (threshold st.infbound) (newCollapsed cones) b.toList = .ok keep)
    (hc : keep.count true < b.size) :
    ∃ (A' : Csc α) (b' : Array α) (cones' : List (ConeT α)) (S' : Solver α),
      handReduce keep A b cones = .ok (A', b', cones') ∧
      A'.m = keep.count true ∧ A'.n = A.n ∧
      Solver.new P q A' b' cones' { st with presolveEnable := false } perm = .ok S' ∧
      S'.st = S.st.setPre none ∧ S'.solution = Unscale.Solution.new A'.n A'.m ∧
      presolveMap S.st.data = some { keep := keep.toArray, infbound := st.infbound } ∧
      S.st.data.m = A'.m ∧
      ∀ r, S.solve st = .ok r →
        (r.S.st.variables.s.size = A'.m ∧ r.S.st.variables.z.size = A'.m) ∧
        ∃ r', S'.solve { st with presolveEnable := false } = .ok r' ∧
          r'.traj = r.traj ∧ r'.S.st = r.S.st.setPre none
          ∧ r'.S.solution.status = r.S.solution.status
          ∧ r'.S.solution.iterations = r.S.solution.iterations
          ∧ r'.S.solution.obj_val = r.S.solution.obj_val
          ∧ r'.S.solution.obj_val_dual = r.S.solution.obj_val_dual
          ∧ r'.S.solution.r_prim = r.S.solution.r_prim ∧ r'.S.solution.r_dual = r.S.solution.r_dual
          ∧ r'.S.solution.x = r.S.solution.x
          ∧ ∀ k, (hk : k < keep.length) →
            (keep[k] = true →
                r.S.solution.s[k]? = r'.S.solution.s[Unscale.rank keep k]?
                ∧ r.S.solution.z[k]? = r'.S.solution.z[Unscale.rank keep k]?
                ∧ (r'.S.solution.s[Unscale.rank keep k]?).isSome
                ∧ (r'.S.solution.z[Unscale.rank keep k]?).isSome)
            ∧ (keep[k] = false →
                r.S.solution.s[k]? = some st.infbound ∧ r.S.solution.z[k]? = some 0) := by
  obtain ⟨A', b', cones', S', h1, h2, h3, h4, h5, h6, h7, hm, h8⟩ :=
    presolve_transparent_model_full hA hpre hnew hk hc
  refine ⟨A', b', cones', S', h1, h2, h3, h4, h5, h6, h7, hm, ?_⟩
  intro r hr
  obtain ⟨hsz, r', hr', hrel⟩ := h8 r hr
  obtain ⟨e1, e2, e3, e4, e5, e6, e7, e8, e9, _, _, e12⟩ := hrel.explicit
  refine ⟨hsz, r', hr', e1, e2, e3, e4, e5, e6, e7, e8, e9, ?_⟩
  intro k hk
  have := e12 k (by simpa using hk)
  simpa using this

/-- [S] the length invariant on its own: after `DefaultSolver::new` and any `solve()` that
returns, `variables.x/s/z` have the lengths `n, m, m` of the internal problem, and with presolve
off `m` is the number of rows of the user's `A`; the internal data is untouched except for the two norm
caches, which `solve()` fills (`fillNorms`: `get_normq(); get_normb()` of `DefaultInfo::update`). -/
theorem variables_keep_internal_lengths {P : Csc α} {q : Array α} {A : Csc α} {b : Array α}
    {cones : List (ConeT α)} {st0 st : Settings α} {perm : Array Nat} {S : Solver α}
    {r : SolveResult α} (hnew : Solver.new P q A b cones st0 perm = .ok S)
    (hr : S.solve st = .ok r) :
    fillNorms S.st.data = .ok r.S.st.data ∧ r.S.st.variables.x.size = S.st.data.n
      ∧ r.S.st.variables.s.size = S.st.data.m ∧ r.S.st.variables.z.size = S.st.data.m
      ∧ (st0.presolveEnable = false → S.st.data.m = A.m) :=
  let ⟨a, b, c, d⟩ := new_solve_variables_sized hnew hr
  ⟨a, b, c, d, fun hoff => solverNew_off_m hoff hnew⟩

end transparent_full

section examples_round4
open Clarabel.Solver Clarabel.Solver.PresolveExample

attribute [local instance] intFloatLike in
/-- non-vacuity of `presolve_transparent_full`: its hypotheses are those of `presolve_transparent`
minus the two length hypotheses; they hold on the instance of `Lemmas/PresolveSolveTransparent.lean`
(`new` evaluated by the kernel; the `solve()` is NOT evaluated in the build) -/
example : ∃ (A' : Csc Int) (S' : Solver Int), A'.m = 1 ∧
    (∃ S, Solver.new PresolveExample.P #[1] PresolveExample.A PresolveExample.b [.nonneg 2]
      PresolveExample.st #[0, 1] = .ok S ∧ S'.st = S.st.setPre none ∧ S.st.data.m = A'.m) := by
  have h : (Solver.new PresolveExample.P #[1] PresolveExample.A PresolveExample.b [.nonneg 2]
      PresolveExample.st #[0, 1]).toOption.map (fun S => S.solution.x.size) = some 1 := by
    decide +kernel
  cases hS : Solver.new PresolveExample.P #[1] PresolveExample.A PresolveExample.b [.nonneg 2]
      PresolveExample.st #[0, 1] with
  | error e => rw [hS] at h; cases h
  | ok S =>
    obtain ⟨A', b', cones', S', -, h2, -, -, h5, -, -, hm, -⟩ :=
      presolve_transparent_full (keep := [true, false])
        (C16.check_format_canonical PresolveExample.A (by rfl)) rfl hS (by rfl) (by decide)
    exact ⟨A', S', h2, S, rfl, h5, hm⟩

end examples_round4

end Clarabel.C09
