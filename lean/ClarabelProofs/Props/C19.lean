/-
  C19 — saving a problem to JSON and loading it back reproduces the same problem.
  Property theorems only (about `ClarabelModel/Json.lean`); serde_json's text layer is
  library code and is exercised by the harness, not modelled.
-/
import ClarabelModel.Json
import ClarabelProofs.Lemmas.UpdateJson

namespace Clarabel.C19
open Clarabel Clarabel.Update Clarabel.Json

variable {α β : Type}

/-- [S] `desanitize ∘ sanitize` is the identity on every settings value except
`time_limit = f64::MAX`, which comes back as `+∞`; all other fields are copied. -/
theorem settings_roundtrip (s : Settings α β) :
    (s.timeLimit ≠ .maxValue → desanitize (sanitize s) = s) ∧
    (s.timeLimit = .maxValue → desanitize (sanitize s) = { s with timeLimit := .infinity }) ∧
    (desanitize (sanitize s)).rest = s.rest ∧
    (sanitize s).timeLimit ≠ .infinity := by
  obtain ⟨tl, rest⟩ := s
  cases tl <;> simp [sanitize, desanitize]

/-- [S] the one value that does not come back literally is an *equivalent* limit: for every
elapsed time `t ≤ f64::MAX` the test `t > time_limit` of the main loop gives the same
answer before and after the round trip. -/
theorem settings_roundtrip_equivalent_limit [LT α] [DecidableLT α] (s : Settings α β) (maxv t : α)
    (ht : ¬ maxv < t) :
    exceeded maxv t (desanitize (sanitize s)).timeLimit = exceeded maxv t s.timeLimit := by
  obtain ⟨tl, rest⟩ := s
  cases tl <;> simp [sanitize, desanitize, exceeded, ht]

/-- [F] **Un-equilibration on save.**  In exact arithmetic, with `dinv = 1/d`, `einv = 1/e`,
the numbers `save_to_file` writes are the user-level data `State.abs` of the solver state —
the internal data with `D`, `E`, `c` divided out: `P̂/(c·d·dᵀ)`, `q̂/(c·d)`, `Â/(e·dᵀ)`, `b̂/e`.
For a fresh solver that is the pre-equilibration internal problem (C10: `P̂ = c·D·P·D` …),
after data updates it is the plain-overwrite result (`C08.refines_spec_run`). -/
theorem unscale_on_save [Field α] (st : State α)
    (hdinv : ∀ i, st.dinv.getD i 0 = (st.d.getD i 0)⁻¹)
    (heinv : ∀ i, st.einv.getD i 0 = (st.e.getD i 0)⁻¹) :
    saveData st = st.abs :=
  saveData_eq_abs st hdinv heinv

/-- [S] **Exact when equilibration is off.**  With `dinv = einv = 1`, `c = 1` (the state
`DefaultEquilibrationData::new` creates and `equilibrate` leaves alone when disabled) every
saved number is the internal number multiplied / divided by the literal `1` only —
`v * (1 * 1) * (1 / 1)`, `v * 1 * (1 / 1)`, `v * (1 * 1)`, `v * 1`.  No arithmetic law is used,
so this holds for `Float`; `x·1 = x`, `1/1 = 1` are IEEE facts of the trusted base. -/
theorem exact_when_off [Mul α] [Div α] [OfNat α 0] [OfNat α 1] (st : State α)
    (hd : ∀ i, i < st.dinv.size → st.dinv[i]? = some 1)
    (he : ∀ i, i < st.einv.size → st.einv[i]? = some 1)
    (hc : st.c = 1)
    (hP : ∀ k, k < st.P.nzval.size → rowOf st.P k < st.dinv.size ∧ colOf st.P.colptr k < st.dinv.size)
    (hA : ∀ k, k < st.A.nzval.size → rowOf st.A k < st.einv.size ∧ colOf st.A.colptr k < st.dinv.size)
    (hq : st.q.size ≤ st.dinv.size) (hb : st.b.size ≤ st.einv.size) :
    (∀ k (h : k < st.P.nzval.size), (saveData st).P[k]? = some (st.P.nzval[k] * (1 * 1) * (1 / 1))) ∧
    (∀ k (h : k < st.q.size), (saveData st).q[k]? = some (st.q[k] * 1 * (1 / 1))) ∧
    (∀ k (h : k < st.A.nzval.size), (saveData st).A[k]? = some (st.A.nzval[k] * (1 * 1))) ∧
    (∀ k (h : k < st.b.size), (saveData st).b[k]? = some (st.b[k] * 1)) :=
  saveData_exact_when_off st hd he hc hP hA hq hb

/-- non-vacuity of `unscale_on_save`: the equilibrated 1×1 state over `ℚ` of C08
(`d = 2`, `dinv = 1/2`, `e = 3`, `einv = 1/3`, `c = 2`). -/
example : saveData exStateQ = exStateQ.abs :=
  unscale_on_save exStateQ
    (by intro i; cases i <;> simp [exStateQ])
    (by intro i; cases i <;> simp [exStateQ])

/-- non-vacuity of `exact_when_off`: the same state with identity scaling. -/
example : (saveData exOff).P[0]? = some (8 * (1 * 1) * (1 / 1)) :=
  (exact_when_off exOff
    (by intro i hi; have : i = 0 := by simpa [exOff] using hi
        subst this; rfl)
    (by intro i hi; have : i = 0 := by simpa [exOff] using hi
        subst this; rfl)
    rfl
    (by intro k hk; have : k = 0 := by simpa [exOff, exStateQ] using hk
        subst this; decide)
    (by intro k hk; have : k = 0 := by simpa [exOff, exStateQ] using hk
        subst this; decide)
    (by decide) (by decide)).1 0 (by decide)

/-- [S] `load_from_file(file, Some(settings))` builds the solver with the supplied settings,
whatever the file contains; without the argument it uses the desanitised file settings. -/
theorem override (fileSettings s : Settings α β) :
    loadSettings fileSettings (some s) = s ∧
    loadSettings fileSettings none = desanitize fileSettings := by
  simp [loadSettings]

/-- non-vacuity of `settings_roundtrip_equivalent_limit`: an elapsed time below the maximum. -/
example : exceeded (100 : Nat) 7 (desanitize (sanitize (⟨.maxValue, ()⟩ : Settings Nat Unit))).timeLimit
    = exceeded 100 7 (TimeLimit.maxValue : TimeLimit Nat) :=
  settings_roundtrip_equivalent_limit _ _ _ (by decide)

end Clarabel.C19
