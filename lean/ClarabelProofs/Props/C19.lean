/-
  C19 — saving a problem to JSON and loading it back reproduces the same problem.
  Property theorems only (about `ClarabelModel/Json.lean`); serde_json's text layer is
  library code and is exercised by the harness, not modelled.
-/
import ClarabelModel.Json
import ClarabelProofs.Lemmas.UpdateJson
import ClarabelProofs.Props.C09

namespace Clarabel.C19
open Clarabel Clarabel.Update Clarabel.Json

variable {α β : Type}

/-- [S] `desanitize ∘ sanitize` is the identity on every settings value except
`time_limit = f64::MAX`, which comes back as `+∞`; all other fields are copied. -/
theorem settings_roundtrip (s : Settings α β) :
    (s.timeLimit ≠ .maxValue → desanitize (sanitize s) = s) ∧
    (s.timeLimit = .maxValue → desanitize (sanitize s) = { s with timeLimit := .infinity }) ∧
    (desanitize (sanitize s)).rest = s.rest ∧
    (sanitize s).timeLimit ≠ .infinity := by
  obtain ⟨tl, rest⟩ := s
  cases tl <;> simp [sanitize, desanitize]

/-- [S] the one value that does not come back literally is an *equivalent* limit: for every
elapsed time `t ≤ f64::MAX` the test `t > time_limit` of the main loop gives the same
answer before and after the round trip. -/
theorem settings_roundtrip_equivalent_limit [LT α] [DecidableLT α] (s : Settings α β) (maxv t : α)
    (ht : ¬ maxv < t) :
    exceeded maxv t (desanitize (sanitize s)).timeLimit = exceeded maxv t s.timeLimit := by
  obtain ⟨tl, rest⟩ := s
  cases tl <;> simp [sanitize, desanitize, exceeded, ht]

/-- [F] **Un-equilibration on save.**  In exact arithmetic, with `dinv = 1/d`, `einv = 1/e`,
the numbers `save_to_file` writes are the user-level data `State.abs` of the solver state —
the internal data with `D`, `E`, `c` divided out: `P̂/(c·d·dᵀ)`, `q̂/(c·d)`, `Â/(e·dᵀ)`, `b̂/e`.
For a fresh solver that is the pre-equilibration internal problem (C10: `P̂ = c·D·P·D` …),
after data updates it is the plain-overwrite result (`C08.refines_spec_run`). -/
theorem unscale_on_save [Field α] (st : State α)
    (hdinv : ∀ i, st.dinv.getD i 0 = (st.d.getD i 0)⁻¹)
    (heinv : ∀ i, st.einv.getD i 0 = (st.e.getD i 0)⁻¹) :
    saveData st = st.abs :=
  saveData_eq_abs st hdinv heinv

/-- [S] **Exact when equilibration is off.**  With `dinv = einv = 1`, `c = 1` (the state
`DefaultEquilibrationData::new` creates and `equilibrate` leaves alone when disabled) every
saved number is the internal number multiplied / divided by the literal `1` only —
`v * (1 * 1) * (1 / 1)`, `v * 1 * (1 / 1)`, `v * (1 * 1)`, `v * 1`.  No arithmetic law is used,
so this holds for `Float`; `x·1 = x`, `1/1 = 1` are IEEE facts of the trusted base. -/
theorem exact_when_off [Mul α] [Div α] [OfNat α 0] [OfNat α 1] (st : State α)
    (hd : ∀ i, i < st.dinv.size → st.dinv[i]? = some 1)
    (he : ∀ i, i < st.einv.size → st.einv[i]? = some 1)
    (hc : st.c = 1)
    (hP : ∀ k, k < st.P.nzval.size → rowOf st.P k < st.dinv.size ∧ colOf st.P.colptr k < st.dinv.size)
    (hA : ∀ k, k < st.A.nzval.size → rowOf st.A k < st.einv.size ∧ colOf st.A.colptr k < st.dinv.size)
    (hq : st.q.size ≤ st.dinv.size) (hb : st.b.size ≤ st.einv.size) :
    (∀ k (h : k < st.P.nzval.size), (saveData st).P[k]? = some (st.P.nzval[k] * (1 * 1) * (1 / 1))) ∧
    (∀ k (h : k < st.q.size), (saveData st).q[k]? = some (st.q[k] * 1 * (1 / 1))) ∧
    (∀ k (h : k < st.A.nzval.size), (saveData st).A[k]? = some (st.A.nzval[k] * (1 * 1))) ∧
    (∀ k (h : k < st.b.size), (saveData st).b[k]? = some (st.b[k] * 1)) :=
  saveData_exact_when_off st hd he hc hP hA hq hb

/-- non-vacuity of `unscale_on_save`: the equilibrated 1×1 state over `ℚ` of C08
(`d = 2`, `dinv = 1/2`, `e = 3`, `einv = 1/3`, `c = 2`). -/
example : saveData exStateQ = exStateQ.abs :=
  unscale_on_save exStateQ
    (by intro i; cases i <;> simp [exStateQ])
    (by intro i; cases i <;> simp [exStateQ])

/-- non-vacuity of `exact_when_off`: the same state with identity scaling. -/
example : (saveData exOff).P[0]? = some (8 * (1 * 1) * (1 / 1)) :=
  (exact_when_off exOff
    (by intro i hi; have : i = 0 := by simpa [exOff] using hi
        subst this; rfl)
    (by intro i hi; have : i = 0 := by simpa [exOff] using hi
        subst this; rfl)
    rfl
    (by intro k hk; have : k = 0 := by simpa [exOff, exStateQ] using hk
        subst this; decide)
    (by intro k hk; have : k = 0 := by simpa [exOff, exStateQ] using hk
        subst this; decide)
    (by decide) (by decide)).1 0 (by decide)

/-- [S] `load_from_file(file, Some(settings))` builds the solver with the supplied settings,
whatever the file contains; without the argument it uses the desanitised file settings. -/
theorem override (fileSettings s : Settings α β) :
    loadSettings fileSettings (some s) = s ∧
    loadSettings fileSettings none = desanitize fileSettings := by
  simp [loadSettings]

/-- non-vacuity of `settings_roundtrip_equivalent_limit`: an elapsed time below the maximum. -/
example : exceeded (100 : Nat) 7 (desanitize (sanitize (⟨.maxValue, ()⟩ : Settings Nat Unit))).timeLimit
    = exceeded 100 7 (TimeLimit.maxValue : TimeLimit Nat) :=
  settings_roundtrip_equivalent_limit _ _ _ (by decide)

/-! ### loading rebuilds the same internal problem -/

section load
open Clarabel.Cones Clarabel.Presolve
variable [Add α] [Sub α] [Mul α] [Div α] [OfNat α 0] [OfNat α 1] [LT α] [DecidableLT α] [FloatLike α]

/-- [S] **`new(saved data)` re-derives the same internal problem.**  Let `d` be the internal
problem `DefaultProblemData::new` (model `ProblemData.new` of C09, chordal decomposition off)
builds from canonical user data, with no presolve reduction recorded (`d.presolver = none`).
Feeding `d`'s own `P, q, A, b, cones` — what `save_to_file` writes when equilibration is the
identity, resp. what it writes up to `unscale_on_save` otherwise — to the constructor again
returns exactly `d`: collapse is idempotent (`C09.collapse_idempotent`), the upper triangle
of an upper-triangular matrix is itself (`C16.toTriu_spec`: `to_triu` yields `is_triu`), and
the cap is idempotent.  Hypotheses that are facts about `min` / the drop test and not about
this code: `hmin` (`min(min(x,B),B) = min(x,B)`; an IEEE fact, true in every ordered field)
and `hpre` (the presolver still finds nothing to drop in `d.b`; automatic when presolve is
off, see `load_builds_same_internal_presolve_off`). -/
theorem load_builds_same_internal (P : Csc α) (q : Array α) (A : Csc α) (b : Array α)
    (cones : List (ConeT α)) (presolve : Bool) (inf : α) (d : ProblemData α)
    (hP : C16.Canonical P) (hPsq : P.m = P.n)
    (hA : C16.Canonical A) (hAm : A.m = b.size) (hnum : numel cones = b.size)
    (h : ProblemData.new P q A b cones presolve false inf = .ok d)
    (hnone : d.presolver = none)
    (hmin : ∀ x : α, fmin (fmin x inf) inf = fmin x inf)
    (hpre : ProblemData.tryPresolver d.b d.cones presolve inf = .ok none) :
    ProblemData.new d.P d.q d.A d.b d.cones presolve false inf = .ok d := by
  obtain ⟨keep, Pn, d0, _, _, _, hPn, hnew, hdP, hdq, _, _, hcase⟩ :=
    C09.problemdata_new_spec P q A b cones presolve inf hA hAm hnum hPsq
  have hdd : d0 = d := by rw [hnew] at h; injection h
  subst hdd
  -- the first run took the "nothing dropped" branch
  have hshape : d0.A = A ∧ d0.b = ProblemData.capB b inf ∧ d0.cones = newCollapsed cones := by
    split at hcase
    · obtain ⟨_, _, _, _, _, _, _, _, _, _, hp⟩ := hcase
      rw [hp] at hnone; cases hnone
    · exact ⟨hcase.1, hcase.2.1, hcase.2.2.1⟩
  obtain ⟨hdA, hdb, hdc⟩ := hshape
  -- `d.P` is upper triangular, so the triu step returns it unchanged
  have htri : Pn.isTriu = true := by
    unfold ProblemData.triuStep at hPn
    by_cases ht : P.isTriu = true
    · simp only [ht, Bool.not_true, Bool.false_eq_true, ↓reduceIte, pure, Except.pure] at hPn
      cases hPn; exact ht
    · simp only [ht, Bool.not_false, ↓reduceIte] at hPn
      obtain ⟨R, hR, _, _, _, hRt, _⟩ := C16.toTriu_spec P hP hPsq
      rw [hR] at hPn; cases hPn; exact hRt
  have hPn2 : ProblemData.triuStep d0.P = .ok d0.P := by
    rw [hdP]; unfold ProblemData.triuStep; simp [htri]; rfl
  have hcones2 : newCollapsed d0.cones = d0.cones := by rw [hdc]; exact C09.collapse_idempotent cones
  have hpre2 : ProblemData.tryPresolver d0.b (newCollapsed d0.cones) presolve inf = .ok none := by
    rw [hcones2]; exact hpre
  have hred2 : ProblemData.reduceStep none d0.A d0.b (newCollapsed d0.cones) =
      .ok (d0.A, d0.b, newCollapsed d0.cones) := rfl
  rw [new_eq_of_steps d0.P d0.q d0.A d0.b d0.cones presolve inf d0.P none _ hPn2 hpre2 hred2]
  -- the assembled record is the one we started from
  have hd0 : d0 = ProblemData.assemble Pn q A b (newCollapsed cones) none inf := by
    have h2 := hnew
    unfold ProblemData.new at h2
    simp only [hPn, bind, Except.bind, pure, Except.pure, Bool.false_and, Bool.false_eq_true,
      ↓reduceIte] at h2
    cases hpr : ProblemData.tryPresolver b (newCollapsed cones) presolve inf with
    | error e => rw [hpr] at h2; cases h2
    | ok pres =>
      rw [hpr] at h2
      simp only [] at h2
      cases hr : ProblemData.reduceStep pres A b (newCollapsed cones) with
      | error e => rw [hr] at h2; cases h2
      | ok r =>
        rw [hr] at h2
        simp only [] at h2
        injection h2 with h2
        have hp : pres = none := by
          have := hnone
          rw [← h2] at this
          exact this
        subst hp
        have hr' : r = (A, b, newCollapsed cones) := by
          have : ProblemData.reduceStep none A b (newCollapsed cones) = .ok (A, b, newCollapsed cones) := rfl
          rw [this] at hr
          injection hr with hr
          exact hr.symm
        subst hr'
        exact h2.symm
  have hcap : ProblemData.capB (ProblemData.capB b inf) inf = ProblemData.capB b inf := by
    unfold ProblemData.capB
    rw [Array.map_map]
    apply Array.map_congr_left
    intro x _
    exact hmin x
  congr 1
  rw [hcones2]
  conv_rhs => rw [hd0]
  rw [hd0]
  simp only [ProblemData.assemble, hcap]

/-- [S] the same with presolve disabled — no hypothesis on the drop test is needed. -/
theorem load_builds_same_internal_presolve_off (P : Csc α) (q : Array α) (A : Csc α) (b : Array α)
    (cones : List (ConeT α)) (inf : α) (d : ProblemData α)
    (hP : C16.Canonical P) (hPsq : P.m = P.n)
    (hA : C16.Canonical A) (hAm : A.m = b.size) (hnum : numel cones = b.size)
    (h : ProblemData.new P q A b cones false false inf = .ok d)
    (hmin : ∀ x : α, fmin (fmin x inf) inf = fmin x inf) :
    ProblemData.new d.P d.q d.A d.b d.cones false false inf = .ok d :=
  load_builds_same_internal P q A b cones false inf d hP hPsq hA hAm hnum h
    (C09.cap_presolve_off P q A b cones inf d h).1 hmin rfl

end load

end Clarabel.C19
