/-
  C19 — saving a problem to JSON and loading it back reproduces the same problem.
  Property theorems only (about `ClarabelModel/Json.lean`); serde_json's text layer is
  library code and is exercised by the harness, not modelled.
-/
import ClarabelModel.Json
import ClarabelModel.JsonLoad
import ClarabelProofs.Lemmas.UpdateJson
import ClarabelProofs.Lemmas.JsonLoad
import ClarabelProofs.Lemmas.JsonCones
import ClarabelProofs.Lemmas.JsonLoadNew
import ClarabelProofs.Props.C09

namespace Clarabel.C19
open Clarabel Clarabel.Update Clarabel.Json

variable {α β : Type}

/-- [S] `desanitize ∘ sanitize` is the identity on every settings value except
`time_limit = f64::MAX`, which comes back as `+∞`; all other fields are copied. -/
theorem settings_roundtrip (s : Settings α β) :
    (s.timeLimit ≠ .maxValue → desanitize (sanitize s) = s) ∧
    (s.timeLimit = .maxValue → desanitize (sanitize s) = { s with timeLimit := .infinity }) ∧
    (desanitize (sanitize s)).rest = s.rest ∧
    (sanitize s).timeLimit ≠ .infinity := by
  obtain ⟨tl, rest⟩ := s
  cases tl <;> simp [sanitize, desanitize]

/-- [S] the one value that does not come back literally is an *equivalent* limit: for every
elapsed time `t ≤ f64::MAX` the test `t > time_limit` of the main loop gives the same
answer before and after the round trip. -/
theorem settings_roundtrip_equivalent_limit [LT α] [DecidableLT α] (s : Settings α β) (maxv t : α)
    (ht : ¬ maxv < t) :
    exceeded maxv t (desanitize (sanitize s)).timeLimit = exceeded maxv t s.timeLimit := by
  obtain ⟨tl, rest⟩ := s
  cases tl <;> simp [sanitize, desanitize, exceeded, ht]

/-- [F] **Un-equilibration on save.**  In exact arithmetic, with `dinv = 1/d`, `einv = 1/e`,
the numbers `save_to_file` writes are the user-level data `State.abs` of the solver state —
the internal data with `D`, `E`, `c` divided out: `P̂/(c·d·dᵀ)`, `q̂/(c·d)`, `Â/(e·dᵀ)`, `b̂/e`.
For a fresh solver that is the pre-equilibration internal problem (C10: `P̂ = c·D·P·D` …),
after data updates it is the plain-overwrite result (`C08.refines_spec_run`). -/
theorem unscale_on_save [Field α] (st : State α)
    (hdinv : ∀ i, st.dinv.getD i 0 = (st.d.getD i 0)⁻¹)
    (heinv : ∀ i, st.einv.getD i 0 = (st.e.getD i 0)⁻¹) :
    saveData st = st.abs :=
  saveData_eq_abs st hdinv heinv

/-- [S] **Exact when equilibration is off.**  With `dinv = einv = 1`, `c = 1` (the state
`DefaultEquilibrationData::new` creates and `equilibrate` leaves alone when disabled) every
saved number is the internal number multiplied / divided by the literal `1` only —
`v * (1 * 1) * (1 / 1)`, `v * 1 * (1 / 1)`, `v * (1 * 1)`, `v * 1`.  No arithmetic law is used,
so this holds for `Float`; `x·1 = x`, `1/1 = 1` are IEEE facts of the trusted base. -/
theorem exact_when_off [Mul α] [Div α] [OfNat α 0] [OfNat α 1] (st : State α)
    (hd : ∀ i, i < st.dinv.size → st.dinv[i]? = some 1)
    (he : ∀ i, i < st.einv.size → st.einv[i]? = some 1)
    (hc : st.c = 1)
    (hP : ∀ k, k < st.P.nzval.size → rowOf st.P k < st.dinv.size ∧ colOf st.P.colptr k < st.dinv.size)
    (hA : ∀ k, k < st.A.nzval.size → rowOf st.A k < st.einv.size ∧ colOf st.A.colptr k < st.dinv.size)
    (hq : st.q.size ≤ st.dinv.size) (hb : st.b.size ≤ st.einv.size) :
    (∀ k (h : k < st.P.nzval.size), (saveData st).P[k]? = some (st.P.nzval[k] * (1 * 1) * (1 / 1))) ∧
    (∀ k (h : k < st.q.size), (saveData st).q[k]? = some (st.q[k] * 1 * (1 / 1))) ∧
    (∀ k (h : k < st.A.nzval.size), (saveData st).A[k]? = some (st.A.nzval[k] * (1 * 1))) ∧
    (∀ k (h : k < st.b.size), (saveData st).b[k]? = some (st.b[k] * 1)) :=
  saveData_exact_when_off st hd he hc hP hA hq hb

/-- non-vacuity of `unscale_on_save`: the equilibrated 1×1 state over `ℚ` of C08
(`d = 2`, `dinv = 1/2`, `e = 3`, `einv = 1/3`, `c = 2`). -/
example : saveData exStateQ = exStateQ.abs :=
  unscale_on_save exStateQ
    (by intro i; cases i <;> simp [exStateQ])
    (by intro i; cases i <;> simp [exStateQ])

/-- non-vacuity of `exact_when_off`: the same state with identity scaling. -/
example : (saveData exOff).P[0]? = some (8 * (1 * 1) * (1 / 1)) :=
  (exact_when_off exOff
    (by intro i hi; have : i = 0 := by simpa [exOff] using hi
        subst this; rfl)
    (by intro i hi; have : i = 0 := by simpa [exOff] using hi
        subst this; rfl)
    rfl
    (by intro k hk; have : k = 0 := by simpa [exOff, exStateQ] using hk
        subst this; decide)
    (by intro k hk; have : k = 0 := by simpa [exOff, exStateQ] using hk
        subst this; decide)
    (by decide) (by decide)).1 0 (by decide)

/-- [S] `load_from_file(file, Some(settings))` builds the solver with the supplied settings,
whatever the file contains; without the argument it uses the desanitised file settings. -/
theorem override (fileSettings s : Settings α β) :
    loadSettings fileSettings (some s) = s ∧
    loadSettings fileSettings none = desanitize fileSettings := by
  simp [loadSettings]

/-- non-vacuity of `settings_roundtrip_equivalent_limit`: an elapsed time below the maximum. -/
example : exceeded (100 : Nat) 7 (desanitize (sanitize (⟨.maxValue, ()⟩ : Settings Nat Unit))).timeLimit
    = exceeded 100 7 (TimeLimit.maxValue : TimeLimit Nat) :=
  settings_roundtrip_equivalent_limit _ _ _ (by decide)

/-! ### loading rebuilds the same internal problem -/

section load
open Clarabel.Cones Clarabel.Presolve
variable [Add α] [Sub α] [Mul α] [Div α] [OfNat α 0] [OfNat α 1] [LT α] [DecidableLT α] [FloatLike α]

/-- [S] **`new(saved data)` re-derives the same internal problem.**  Let `d` be the internal
problem `DefaultProblemData::new` (model `ProblemData.new` of C09, chordal decomposition off)
builds from canonical user data, with no presolve reduction recorded (`d.presolver = none`).
Feeding `d`'s own `P, q, A, b, cones` — what `save_to_file` writes when equilibration is the
identity, resp. what it writes up to `unscale_on_save` otherwise — to the constructor again
returns exactly `d`: collapse is idempotent (`C09.collapse_idempotent`), the upper triangle
of an upper-triangular matrix is itself (`C16.toTriu_spec`: `to_triu` yields `is_triu`), and
the cap is idempotent.  Hypotheses that are facts about `min` / the drop test and not about
this code: `hmin` (`min(min(x,B),B) = min(x,B)`; an IEEE fact, true in every ordered field)
and `hpre` (the presolver still finds nothing to drop in `d.b`; automatic when presolve is
off, see `load_builds_same_internal_presolve_off`). -/
theorem load_builds_same_internal (P : Csc α) (q : Array α) (A : Csc α) (b : Array α)
    (cones : List (ConeT α)) (presolve : Bool) (inf : α) (d : ProblemData α)
    (hP : C16.Canonical P) (hPsq : P.m = P.n)
    (hA : C16.Canonical A) (hAm : A.m = b.size) (hnum : numel cones = b.size)
    (h : ProblemData.new P q A b cones presolve false inf = .ok d)
    (hnone : d.presolver = none)
    (hmin : ∀ x : α, fmin (fmin x inf) inf = fmin x inf)
    (hpre : ProblemData.tryPresolver d.b d.cones presolve inf = .ok none) :
    ProblemData.new d.P d.q d.A d.b d.cones presolve false inf = .ok d := by
  obtain ⟨keep, Pn, d0, _, _, _, hPn, hnew, hdP, hdq, _, _, hcase⟩ :=
    C09.problemdata_new_spec P q A b cones presolve inf hA hAm hnum hPsq
  have hdd : d0 = d := by rw [hnew] at h; injection h
  subst hdd
  -- the first run took the "nothing dropped" branch
  have hshape : d0.A = A ∧ d0.b = ProblemData.capB b inf ∧ d0.cones = newCollapsed cones := by
    split at hcase
    · obtain ⟨_, _, _, _, _, _, _, _, _, _, hp⟩ := hcase
      rw [hp] at hnone; cases hnone
    · exact ⟨hcase.1, hcase.2.1, hcase.2.2.1⟩
  obtain ⟨hdA, hdb, hdc⟩ := hshape
  -- `d.P` is upper triangular, so the triu step returns it unchanged
  have htri : Pn.isTriu = true := by
    unfold ProblemData.triuStep at hPn
    by_cases ht : P.isTriu = true
    · simp only [ht, Bool.not_true, Bool.false_eq_true, ↓reduceIte, pure, Except.pure] at hPn
      cases hPn; exact ht
    · simp only [ht, Bool.not_false, ↓reduceIte] at hPn
      obtain ⟨R, hR, _, _, _, hRt, _⟩ := C16.toTriu_spec P hP hPsq
      rw [hR] at hPn; cases hPn; exact hRt
  have hPn2 : ProblemData.triuStep d0.P = .ok d0.P := by
    rw [hdP]; unfold ProblemData.triuStep; simp [htri]; rfl
  have hcones2 : newCollapsed d0.cones = d0.cones := by rw [hdc]; exact C09.collapse_idempotent cones
  have hpre2 : ProblemData.tryPresolver d0.b (newCollapsed d0.cones) presolve inf = .ok none := by
    rw [hcones2]; exact hpre
  have hred2 : ProblemData.reduceStep none d0.A d0.b (newCollapsed d0.cones) =
      .ok (d0.A, d0.b, newCollapsed d0.cones) := rfl
  rw [new_eq_of_steps d0.P d0.q d0.A d0.b d0.cones presolve inf d0.P none _ hPn2 hpre2 hred2]
  -- the assembled record is the one we started from
  have hd0 : d0 = ProblemData.assemble Pn q A b (newCollapsed cones) none inf := by
    have h2 := hnew
    unfold ProblemData.new at h2
    simp only [hPn, bind, Except.bind, pure, Except.pure, Bool.false_and, Bool.false_eq_true,
      ↓reduceIte] at h2
    cases hpr : ProblemData.tryPresolver b (newCollapsed cones) presolve inf with
    | error e => rw [hpr] at h2; cases h2
    | ok pres =>
      rw [hpr] at h2
      simp only [] at h2
      cases hr : ProblemData.reduceStep pres A b (newCollapsed cones) with
      | error e => rw [hr] at h2; cases h2
      | ok r =>
        rw [hr] at h2
        simp only [] at h2
        injection h2 with h2
        have hp : pres = none := by
          have := hnone
          rw [← h2] at this
          exact this
        subst hp
        have hr' : r = (A, b, newCollapsed cones) := by
          have : ProblemData.reduceStep none A b (newCollapsed cones) = .ok (A, b, newCollapsed cones) := rfl
          rw [this] at hr
          injection hr with hr
          exact hr.symm
        subst hr'
        exact h2.symm
  have hcap : ProblemData.capB (ProblemData.capB b inf) inf = ProblemData.capB b inf := by
    unfold ProblemData.capB
    rw [Array.map_map]
    apply Array.map_congr_left
    intro x _
    exact hmin x
  congr 1
  rw [hcones2]
  conv_rhs => rw [hd0]
  rw [hd0]
  simp only [ProblemData.assemble, hcap]

/-- [S] the same with presolve disabled — no hypothesis on the drop test is needed. -/
theorem load_builds_same_internal_presolve_off (P : Csc α) (q : Array α) (A : Csc α) (b : Array α)
    (cones : List (ConeT α)) (inf : α) (d : ProblemData α)
    (hP : C16.Canonical P) (hPsq : P.m = P.n)
    (hA : C16.Canonical A) (hAm : A.m = b.size) (hnum : numel cones = b.size)
    (h : ProblemData.new P q A b cones false false inf = .ok d)
    (hmin : ∀ x : α, fmin (fmin x inf) inf = fmin x inf) :
    ProblemData.new d.P d.q d.A d.b d.cones false false inf = .ok d :=
  load_builds_same_internal P q A b cones false inf d hP hPsq hA hAm hnum h
    (C09.cap_presolve_off P q A b cones inf d h).1 hmin rfl

end load

/-! ### round 3: `load_from_file` after the parse, `save_to_file` before the text layer -/

section loadfile
open Clarabel.JsonLoad Clarabel.Cones
variable {γ : Type}

section verdict
variable [Add α] [Sub α] [Mul α] [LT α] [DecidableLT α] [OfNat α 0] [OfNat α 1] [OfScientific α]
  [FloatLike α]

/-- [S] **Which error for which defect.**  The verdict of `load_from_file` on a record that
parsed is determined test by test, in the order of the code:
1. `P.check_format()` fails with `e` (not `Canonical0`, `C16.check_format_iff`) → `invalid matrix P: e`;
2. else `A.check_format()` fails with `e` → `invalid matrix A: e`;
3. else the settings in force (the argument if given, else the de-sanitised file settings)
   carry an unknown `direct_solve_method` / `chordal_decomposition_merge_method` → that
   `validate` error;
4. else some `GenPowerConeT` exponent vector fails the constructor's test → `invalid
   GenPowerConeT exponents`;
5. else `P` not square, `P.n ≠ |q|`, `A.n ≠ |q|`, `A.m ≠ |b|` or the checked `usize` sum of the
   cone sizes is not `|b|` (overflow included) → `inconsistent problem dimensions`;
6. else `Ok`: `DefaultSolver::new` is called with the record's `P, q, A, b, cones` and those
   settings.
The separate `colptr.first()` test can never fire (`check_format` already rejects a nonzero
first column pointer since /repo 190e6c4). -/
theorem load_error_kinds (ft : Features) (d : Record α γ) (arg : Option (LSettings α γ)) :
    (∀ e, d.P.checkFormat = .error e → loadRecord ft d arg = .error (.invalidP e)) ∧
    (d.P.checkFormat = .ok () → ∀ e, d.A.checkFormat = .error e →
      loadRecord ft d arg = .error (.invalidA e)) ∧
    (d.P.checkFormat = .ok () → d.A.checkFormat = .ok () →
      ∀ f, validateSettings ft (loadSettings d.settings arg) = .error f →
      loadRecord ft d arg = .error (.settings f)) ∧
    (d.P.checkFormat = .ok () → d.A.checkFormat = .ok () →
      validateSettings ft (loadSettings d.settings arg) = .ok () →
      d.cones.any badGenpow = true → loadRecord ft d arg = .error .genpow) ∧
    (d.P.checkFormat = .ok () → d.A.checkFormat = .ok () →
      validateSettings ft (loadSettings d.settings arg) = .ok () →
      d.cones.any badGenpow = false → ¬ DimsOk d → loadRecord ft d arg = .error .dimensions) ∧
    (d.P.checkFormat = .ok () → d.A.checkFormat = .ok () →
      validateSettings ft (loadSettings d.settings arg) = .ok () →
      d.cones.any badGenpow = false → DimsOk d → loadRecord ft d arg = .ok (inputOf d arg)) ∧
    loadRecord ft d arg ≠ .error .colptr :=
  ⟨(loadRecord_cases ft d arg).1, (loadRecord_cases ft d arg).2.1, (loadRecord_cases ft d arg).2.2.1,
   (loadRecord_cases ft d arg).2.2.2.1, (loadRecord_cases ft d arg).2.2.2.2.1,
   (loadRecord_cases ft d arg).2.2.2.2.2, loadRecord_ne_colptr ft d arg⟩

/-- [S] conversely an accepted record passed every test, and the solver is built from the
record's own data with the settings in force. -/
theorem load_ok_iff (ft : Features) (d : Record α γ) (arg : Option (LSettings α γ))
    (inp : SolverInput α γ) :
    loadRecord ft d arg = .ok inp ↔
      (d.P.checkFormat = .ok () ∧ d.A.checkFormat = .ok () ∧
       validateSettings ft (loadSettings d.settings arg) = .ok () ∧
       d.cones.any badGenpow = false ∧ DimsOk d ∧ inp = inputOf d arg) := by
  constructor
  · exact loadRecord_ok ft d arg inp
  · rintro ⟨hP, hA, hS, hg, hD, rfl⟩
    exact (loadRecord_cases ft d arg).2.2.2.2.2 hP hA hS hg hD

end verdict

section pre
variable [Add α] [Sub α] [Mul α] [Div α] [Neg α] [LT α] [LE α] [DecidableLT α] [DecidableLE α]
  [BEq α] [OfNat α 0] [OfNat α 1] [OfNat α 2] [OfNat α 3] [OfScientific α] [FloatLike α]

omit [Neg α] [LE α] [DecidableLE α] [BEq α] [OfNat α 2] [OfNat α 3] in
/-- [S] **A validated file meets every precondition of `DefaultSolver::new`.**  If the
model's validation returns `Ok(inp)` then
* the five asserts of `_check_dimensions` pass (`NewPre.checkDims`, with the true sizes);
* `P` and `A` are canonical CSC encodings (`Canonical0`: lengths consistent, `colptr[0] = 0`,
  monotone, last = nnz, rows strictly increasing per column and `< m`) — what `to_triu`,
  `select_rows`, the equilibration's `lrscale`/norms, `gemv` and the KKT assembly index on;
* `Σ nvars = |b|` in true arithmetic (`assert_eq!(cones.numel, data.m)`, `rng_cones`) and no
  cone's `usize` size arithmetic wraps (`NoWrap`: `α.len() + dim2 < 2^64`, `k·(k+1) < 2^64`) —
  since /repo fb4bc53; before it a wrapped size could match `|b|`, see
  `load_wrapped_cone_size_before_fix`;
* the two assertions of `GenPowerCone::new` hold for every generalized power cone;
* the option strings are among those the KKT / chordal code matches on;
* the modelled part of the constructor (`_check_dimensions` with the wrapping sum as compiled,
  no wrapped cone constructor, `DefaultProblemData::new`: collapse, upper triangle, presolve,
  row selection, cap) returns a record — it does not panic; with
  `chordal_decomposition_enable` the model may answer `chordal-not-modelled` (C18's domain),
  never a panic.
Hence none of the documented panics (`A and b incompatible dimensions.`, `Constraint
dimensions inconsistent with size of cones.`, `A and q …`, `P and q …`, `P not square.`,
the `GenPowerCone` assertions, `capacity overflow` in a cone constructor, out-of-range row /
column indexing) is reachable from a file that parses and is accepted. -/
theorem load_validated_implies_new_preconditions (ft : Features) (d : Record α γ)
    (arg : Option (LSettings α γ)) (inp : SolverInput α γ) (inf : α)
    (h : loadRecord ft d arg = .ok inp) :
    NewPre ft inp ∧ NoWrap inp.cones ∧
    (∃ dd, ProblemData.new inp.P inp.q inp.A inp.b (inp.cones.filter (fun c => c.nvars != 0))
        inp.settings.rest.presolveEnable false inf = .ok dd ∧
      (buildFromInput inp inf = .ok dd ∨
        buildFromInput inp inf = .error (.err "chordal-not-modelled")) ∧
      (inp.settings.rest.chordalEnable = false → buildFromInput inp inf = .ok dd)) ∧
    (∀ site, buildFromInput inp inf ≠ .error (.panic site)) := by
  have hpre := newPre_of_loadRecord ft d arg inp h
  obtain ⟨_, _, _, _, hD, rfl⟩ := loadRecord_ok ft d arg inp h
  have hb := buildFromInput_ok (inputOf d arg) inf hpre.canonA hpre.squareP hpre.colsP hpre.colsA
    hpre.rowsA hD.2.2.2.2
  refine ⟨hpre, (numel_of_checkedSum _ _ hD.2.2.2.2).2, hb, ?_⟩
  obtain ⟨dd, _, hor, _⟩ := hb
  intro site hs
  rcases hor with h1 | h1 <;> rw [h1] at hs <;> cases hs

end pre

/-- [S] **The finding behind /repo fb4bc53**, as a statement about the two sums: for the cone
list `[PSDTriangleConeT(2^64 − 2)]` the pre-fix sum (`checked_add` over the *wrapping*
`nvars()`) is `Some(1)` — so a file with `|b| = 1` passed the dimension test although the
cone has `(2^64−2)(2^64−1)/2` rows, and `PSDTriangleCone::new` panicked with `capacity
overflow` — whereas the sum over `checked_nvars` is `None` (→ `inconsistent problem
dimensions`).  Same for `GenPowerConeT([½,½], 2^64 − 1)`. -/
theorem load_wrapped_cone_size_before_fix :
    checkedSumOld [(ConeT.psd 18446744073709551614 : ConeT α)] = some 1 ∧
    checkedSum [(ConeT.psd 18446744073709551614 : ConeT α)] = none ∧
    numel [(ConeT.psd 18446744073709551614 : ConeT α)] ≠ 1 ∧
    (∀ a b : α, checkedSumOld [ConeT.genpow #[a, b] 18446744073709551615] = some 1 ∧
      checkedSum [ConeT.genpow #[a, b] 18446744073709551615] = none) := by
  refine ⟨rfl, rfl, ?_, fun a b => ⟨?_, ?_⟩⟩
  · simp [numel, ConeT.nvars, ConeT.triangularNumber]
  · simp [checkedSumOld, nvarsU, wrap, usizeMod]
  · simp [checkedSum, checkedNvars, usizeMod]

end loadfile

/-! ### round 3: the record `save_to_file` writes, and its way back -/

section saveload
open Clarabel.JsonLoad Clarabel.Cones
variable {γ : Type}
variable [Add α] [Sub α] [Mul α] [Div α] [LT α] [DecidableLT α] [OfNat α 0] [OfNat α 1]
  [OfScientific α] [FloatLike α]

/-- [S] **Save → load round trip at record level.**  Let `s` be what `save_to_file` reads of a
solver (`solver.data`'s internal `P q A b` with the equilibration vectors, `data.cones`,
`settings`), well-formed as a problem (`SaveState.Wf`: canonical patterns, matching
dimensions, valid `GenPowerConeT` exponents, cone sizes adding up to `m` — facts of every
constructed solver), with valid option strings in the settings in force.  Then loading the
saved record succeeds, and `DefaultSolver::new` is called with
* the same patterns (`m, n, colptr, rowval` of `P` and `A`) and the saved numbers
  `Json.saveData s.st` (what `unscale_on_save` / `exact_when_off` describe);
* the identical cone list — all seven variants, `GenPowerConeT`'s `α` vector and `dim2`,
  PSD dimensions included;
* the settings argument when one is given (`override`), otherwise the saved settings with
  all fields but `time_limit` unchanged, `time_limit` unchanged unless it was `f64::MAX`,
  which comes back as `+∞` (`settings_roundtrip`, an equivalent limit by
  `settings_roundtrip_equivalent_limit`). -/
theorem save_load_roundtrip (ft : Features) (s : SaveState α γ) (arg : Option (LSettings α γ))
    (hw : s.Wf) (hS : validateSettings ft (arg.getD s.settings) = .ok ()) :
    ∃ inp, loadRecord ft (saveRecord s) arg = .ok inp ∧
      (inp.P.m = s.st.P.m ∧ inp.P.n = s.st.P.n ∧ inp.P.colptr = s.st.P.colptr ∧
        inp.P.rowval = s.st.P.rowval) ∧
      (inp.A.m = s.st.A.m ∧ inp.A.n = s.st.A.n ∧ inp.A.colptr = s.st.A.colptr ∧
        inp.A.rowval = s.st.A.rowval) ∧
      (inp.P.nzval = (saveData s.st).P ∧ inp.q = (saveData s.st).q ∧
        inp.A.nzval = (saveData s.st).A ∧ inp.b = (saveData s.st).b) ∧
      inp.cones = s.cones ∧
      (∀ a, arg = some a → inp.settings = a) ∧
      (arg = none → inp.settings.rest = s.settings.rest ∧
        (s.settings.timeLimit ≠ .maxValue → inp.settings = s.settings) ∧
        (s.settings.timeLimit = .maxValue → inp.settings = { s.settings with timeLimit := .infinity })) := by
  refine ⟨savedInput s arg, load_saveRecord ft s arg hw hS, ⟨rfl, rfl, rfl, rfl⟩, ⟨rfl, rfl, rfl, rfl⟩,
    ⟨rfl, rfl, rfl, rfl⟩, rfl, ?_, ?_⟩
  · rintro a rfl; rfl
  · rintro rfl
    have h := settings_roundtrip s.settings
    exact ⟨h.2.2.1, h.1, h.2.1⟩

/-- [S] **`new(saved data)` re-derives the same internal problem** (record level, presolve
and chordal decomposition off): for a solver state whose cone list is in the normal form of
`new_collapsed` (`C09.collapse_normal`: every `solver.data.cones` is) and whose `P` is stored
as an upper triangle (`C16.toTriu_spec`: every `solver.data.P` is), the constructor applied
to the loaded input returns internal data with the **same cone list** (collapse is
idempotent on normal lists, `C09.collapse_fixpoint`), the same `P` and `A` (the upper
triangle of an upper triangle is itself; nothing is dropped), the saved `q`, and `b` =
the saved `b` capped at the infinity bound.  With `load_builds_same_internal` (the cap and
the drop test are idempotent) this is the internal problem the saving solver had. -/
theorem load_builds_same_internal_record (s : SaveState α γ) (arg : Option (LSettings α γ)) (inf : α)
    (hw : s.Wf) (hnorm : Normal s.cones) (htriu : s.st.P.isTriu = true)
    (hpre : (savedInput s arg).settings.rest.presolveEnable = false)
    (hch : (savedInput s arg).settings.rest.chordalEnable = false) :
    ∃ dd, buildFromInput (savedInput s arg) inf = .ok dd ∧
      dd.cones = s.cones ∧ dd.P = (savedInput s arg).P ∧ dd.q = (saveData s.st).q ∧
      dd.A = (savedInput s arg).A ∧ dd.b = ProblemData.capB (saveData s.st).b inf ∧
      dd.presolver = none :=
  build_savedInput s arg inf hw hnorm htriu hpre hch

end saveload

section saveload_field
open Clarabel.JsonLoad
variable {γ : Type}

/-- [F] the round trip in exact arithmetic: with `dinv = 1/d`, `einv = 1/e` the numbers the
loaded solver is built from are the user-level data `State.abs` of the saving solver
(`P̂/(c·d·dᵀ)`, `q̂/(c·d)`, `Â/(e·dᵀ)`, `b̂/e`) — composition of `save_load_roundtrip` and
`unscale_on_save`. -/
theorem save_load_roundtrip_userdata [Field α] [LT α] [DecidableLT α] [OfScientific α] [FloatLike α]
    (ft : Features) (s : SaveState α γ) (arg : Option (LSettings α γ))
    (hw : s.Wf) (hS : validateSettings ft (arg.getD s.settings) = .ok ())
    (hdinv : ∀ i, s.st.dinv.getD i 0 = (s.st.d.getD i 0)⁻¹)
    (heinv : ∀ i, s.st.einv.getD i 0 = (s.st.e.getD i 0)⁻¹) :
    ∃ inp, loadRecord ft (saveRecord s) arg = .ok inp ∧
      inp.P.nzval = s.st.abs.P ∧ inp.q = s.st.abs.q ∧ inp.A.nzval = s.st.abs.A ∧
      inp.b = s.st.abs.b ∧ inp.cones = s.cones := by
  obtain ⟨inp, h, _, _, ⟨h1, h2, h3, h4⟩, hc, _⟩ := save_load_roundtrip ft s arg hw hS
  have hu := unscale_on_save s.st hdinv heinv
  exact ⟨inp, h, by rw [h1, hu], by rw [h2, hu], by rw [h3, hu], by rw [h4, hu], hc⟩

end saveload_field

/-! ### round 3: the serde representation of the cone list -/

section conejson
open Clarabel.JsonCones

/-- [S] **decode ∘ encode = id on every cone variant.**  The decoder of the serde
representation of `SupportedConeT` (`{"ZeroConeT":n}`, `{"NonnegativeConeT":n}`,
`{"SecondOrderConeT":n}`, `{"ExponentialConeT":[]}`, `{"PowerConeT":α}`,
`{"GenPowerConeT":[[α…],dim2]}`, `{"PSDTriangleConeT":n}`) inverts the encoder, for every cone
whose `usize` payload is a `usize` and every float token layer that round-trips
(`fparse (ftok a) = some a` — serde_json's printer and `float_roundtrip` parser); hence for
every cone list, and the encoder is injective: distinct cone lists never share a file. -/
theorem cone_decode_encode (ftok : α → String) (fparse : String → Option α)
    (hrt : ∀ a, fparse (ftok a) = some a) :
    (∀ c : ConeT α, coneFits c = true →
      decodeCone fparse true (encodeCone ftok c) = some c) ∧
    (∀ cs : List (ConeT α), (∀ c ∈ cs, coneFits c = true) →
      decodeCones fparse true (encodeCones ftok cs) = some cs) ∧
    (∀ c c' : ConeT α, coneFits c = true → coneFits c' = true →
      encodeCone ftok c = encodeCone ftok c' → c = c') :=
  ⟨fun c h => decodeCone_encodeCone ftok fparse hrt c h true (fun _ => rfl),
   fun cs h => decodeCones_encodeCones ftok fparse hrt cs h,
   fun c c' h1 h2 h => encodeCone_injective ftok fparse hrt c c' h1 h2 h⟩

/-- [S] without the `sdp` feature a file with a PSD cone is rejected (unknown variant), it is
not read as something else. -/
theorem cone_decode_psd_needs_sdp (ftok : α → String) (fparse : String → Option α) (n : Nat) :
    decodeCone fparse false (encodeCone ftok (.psd n : ConeT α)) = none :=
  decodeCone_psd_without_sdp ftok fparse n

/-- non-vacuity of `cone_decode_encode`: a token layer that round-trips (`Nat` payloads
printed in decimal), on a list with every variant. -/
example : decodeCones (fun t => t.toNat?) true
    (encodeCones Nat.repr [.zero 1, .nonneg 2, .soc 3, .exp, .pow 4, .genpow #[3, 7] 1, .psd 2])
    = some [.zero 1, .nonneg 2, .soc 3, .exp, .pow 4, .genpow #[3, 7] 1, .psd 2] :=
  (cone_decode_encode Nat.repr (fun t => t.toNat?) Nat.toNat?_repr).2.1 _
    (by intro c hc; simp only [List.mem_cons, List.not_mem_nil, or_false] at hc
        rcases hc with rfl | rfl | rfl | rfl | rfl | rfl | rfl <;> decide)

end conejson

/-! ### non-vacuity of the round-3 theorems (data in `Lemmas/JsonLoad.lean`) -/

section nonvacuity
open Clarabel.JsonLoad Clarabel.Cones
attribute [local instance] floatLikeQ

/-- `load_error_kinds`, clause 1: a shifted first column pointer in `P` is
`invalid matrix P: BadColptr` -/
example : loadRecord exFeatures exRecordBadP none = .error (.invalidP .badColptr) :=
  (load_error_kinds exFeatures exRecordBadP none).1 _ rfl

/-- `load_error_kinds`, clause 5: cone sizes that do not add up to `|b|` -/
example : loadRecord exFeatures exRecordBadDims none = .error .dimensions :=
  (load_error_kinds exFeatures exRecordBadDims none).2.2.2.2.1 rfl rfl exSettings_valid rfl (by decide)

/-- `load_error_kinds`, clause 3: an unknown option string in the settings argument -/
example : loadRecord exFeatures exRecord
    (some { exSettings with rest := { exSettings.rest with directSolveMethod := "foo" } })
    = .error (.settings .directSolveMethod) :=
  (load_error_kinds exFeatures exRecord _).2.2.1 rfl rfl _
    (by simp [validateSettings, validDirectSolveMethod, loadSettings, exSettings, exFeatures])

/-- `load_error_kinds`, clause 6 / hypothesis of `load_validated_implies_new_preconditions`:
an accepted record -/
example : loadRecord exFeatures exRecord none = .ok (inputOf exRecord none) :=
  (load_error_kinds exFeatures exRecord none).2.2.2.2.2.1 rfl rfl exSettings_valid rfl (by decide)

example : NewPre exFeatures (inputOf exRecord none) ∧
    ∀ site, buildFromInput (inputOf exRecord none) (100 : ℚ) ≠ .error (.panic site) :=
  let h := load_validated_implies_new_preconditions exFeatures exRecord none _ (100 : ℚ) exRecord_loads
  ⟨h.1, h.2.2.2⟩

/-- `save_load_roundtrip` on the equilibrated state `exSave` -/
example : ∃ inp, loadRecord exFeatures (saveRecord exSave) none = .ok inp ∧
    inp.cones = [.nonneg 1] ∧ inp.settings = exSettings := by
  obtain ⟨inp, h, _, _, _, hc, _, hs⟩ :=
    save_load_roundtrip exFeatures exSave none exSave_wf exSettings_valid
  exact ⟨inp, h, hc, (hs rfl).2.1 (by decide)⟩

/-- `save_load_roundtrip_userdata`: the loaded `P` is the user's `8/(2·2·2) = 1` -/
example : ∃ inp, loadRecord exFeatures (saveRecord exSave) none = .ok inp ∧
    inp.P.nzval = exStateQ.abs.P := by
  obtain ⟨inp, h, hP, _⟩ := save_load_roundtrip_userdata exFeatures exSave none exSave_wf
    exSettings_valid (by intro i; cases i <;> simp [exSave, exStateQ])
    (by intro i; cases i <;> simp [exSave, exStateQ])
  exact ⟨inp, h, hP⟩

/-- `load_builds_same_internal_record`: hypotheses hold for `exSave` -/
example : ∃ dd, buildFromInput (savedInput exSave none) (100 : ℚ) = .ok dd ∧ dd.cones = [.nonneg 1] := by
  obtain ⟨dd, h, hc, _⟩ := load_builds_same_internal_record exSave none (100 : ℚ) exSave_wf
    (by simp [exSave, Normal, Good, ConeT.nvars, ConeT.isNonneg]) rfl rfl rfl
  exact ⟨dd, h, hc⟩

end nonvacuity

/-! ### round 5: C19 ∘ C04 — a file that parses and is accepted cannot panic `DefaultSolver::new` -/

section loadnew
open Clarabel.JsonLoad Clarabel.Cones
variable {γ : Type}
variable [Add α] [Sub α] [Mul α] [Div α] [Neg α] [LT α] [LE α] [DecidableLT α] [DecidableLE α]
  [BEq α] [OfNat α 0] [OfNat α 1] [OfNat α 2] [OfNat α 3] [OfNat α 100] [OfNat α 1000]
  [OfScientific α] [FloatLike α]

set_option linter.unusedSectionVars false

/-- [S] **No documented construction panic is reachable from an accepted file — all cone
kinds.**  If the validation of `load_from_file` returns `Ok(inp)` then the arguments handed to
`DefaultSolver::new` pass every construction guard of `NewGuards.newGuards`
(`C04.new_guards_ok_iff`): the five asserts of `_check_dimensions` (`A and b incompatible
dimensions`, `Constraint dimensions inconsistent with size of cones`, `A and q …`, `P and q …`,
`P not square`) and the assertions of every cone constructor reached after `new_collapsed`
(`GenPowerConeData::new`: `powers > 0`, `powers sum to 1`; `SecondOrderCone::new`: `dim >= 2`,
unreachable anyway) — for zero, nonnegative, second-order, exponential, power, generalized power
and PSD cones alike.  So `newGuards` is `.ok ()`, in particular not `.panic site` for any of the
sites listed by `C04.new_guards_error_list`. -/
theorem load_passes_new_guards (ft : Features) (d : Record α γ) (arg : Option (LSettings α γ))
    (inp : SolverInput α γ) (h : loadRecord ft d arg = .ok inp) :
    NewGuards.newGuards inp.P.m inp.P.n inp.q.size inp.A.m inp.A.n inp.b.size inp.cones = .ok () ∧
    (∀ site, NewGuards.newGuards inp.P.m inp.P.n inp.q.size inp.A.m inp.A.n inp.b.size inp.cones
      ≠ .error (.panic site)) := by
  have hg := newGuards_of_newPre (newPre_of_loadRecord ft d arg inp h)
  exact ⟨hg, fun site hs => by rw [hg] at hs; cases hs⟩

/-- [S] **`load_from_file` then `DefaultSolver::new` never panics** (composition of
`load_validated_implies_new_preconditions` with `C04.full_new_no_panic` on the whole-solver
model `Solver.new`, the model tied bit for bit to the code by the `solve.*` channels).
Let the validation accept the record (`loadRecord … = .ok inp`).  Then `inp` is well-formed
input in the sense of C04 (`InputOK`: canonical `P`, `A`, matching dimensions, `Σ nvars = m`),
and for every settings value `st` of the model (in particular the one with the file's
`presolve_enable`) and ordering `perm`, under the remaining side conditions —
* `0 < |q|`: at least one variable (QDLDL panics on a `0×0` KKT matrix: observation
  "QDLDL panics on 0×0", not excluded by the load validation);
* `PermFor`: `perm` — AMD's output in the code, an input of the model — is a permutation of
  the KKT dimension of the internal problem;
* `PivotOK st.lin`: the scalar law "dynamic regularisation leaves no exactly zero pivot"
  (`refactor().unwrap()`; true at `Float` for `dynamic_regularization_eps > 0`, `delta ≠ 0`)
— `Solver.new` does not return `.panic` (whatever the cone kinds: an exponential / power / PSD
cone gives `.err "cone-not-modelled"`, the whole-solver model's domain boundary); and if all
cones are zero / nonnegative / second-order cones (any dimensions, `SecondOrderConeT(0)`, `(1)`
included) it returns **`.ok S`**, `S` satisfies the invariant of `solve()`, and (`FmaxOK`, the
scalar law `¬ max(0,r) < 0`) `S.solve` returns `.ok` as well. -/
theorem load_then_new_never_panics (ft : Features) (d : Record α γ) (arg : Option (LSettings α γ))
    (inp : SolverInput α γ) (h : loadRecord ft d arg = .ok inp)
    (st : Solver.Settings α) (perm : Array Nat) (hn : 0 < inp.q.size)
    (hperm : Solver.PermFor inp.P inp.q inp.A inp.b inp.cones st perm)
    (hpiv : Solver.PivotOK st.lin) :
    Solver.InputOK inp.P inp.q inp.A inp.b inp.cones ∧
    Solver.NoPanic (Solver.Solver.new inp.P inp.q inp.A inp.b inp.cones st perm) ∧
    ((∀ c ∈ inp.cones, Solver.ConeT.modelled c) →
      ∃ S, Solver.Solver.new inp.P inp.q inp.A inp.b inp.cones st perm = .ok S ∧ Solver.SolverInvQ S ∧
        (Solver.FmaxOK α → ∃ r, S.solve st = .ok r ∧ Solver.SolverInvQ r.S)) := by
  have hpre := newPre_of_loadRecord ft d arg inp h
  have hin := inputOK_of_newPre hpre
  have hn' : 0 < inp.P.n := by rw [hpre.colsP]; exact hn
  refine ⟨hin, C04.full_new_no_panic hin hn' hperm hpiv, fun hm => ?_⟩
  obtain ⟨S, hS, hI⟩ := Solver.solverNew_ok_of_modelled hin hm hn' hperm hpiv
  exact ⟨S, hS, hI, fun hf => C04.full_solve_keeps_invariant hf st hI⟩

end loadnew

/-! non-vacuity of the round-5 theorems: the kernel-evaluable example of the whole-solver model
(`Int`), read as a parsed file (`Lemmas/JsonLoadNew.lean`) -/
section nonvacuity5
open Clarabel.JsonLoad Clarabel.JsonLoad.ExampleInt Clarabel.Solver.Example
attribute [local instance] intFloatLike intOfScientific

example : NewGuards.newGuards 1 1 1 1 1 1 ([.nonneg 1] : List (ConeT Int)) = .ok () :=
  (load_passes_new_guards exFeatures exRecordInt none _ exRecordInt_loads).1

/-- every hypothesis of `load_then_new_never_panics` holds on the example, and the solver object
is built and solves -/
example : ∃ S r, Solver.Solver.new Solver.Example.P #[1] Solver.Example.A #[1] [.nonneg 1] (st 3) #[0, 1]
    = .ok S ∧ S.solve (st 3) = .ok r := by
  obtain ⟨S, hS, _, hs⟩ := (load_then_new_never_panics exFeatures exRecordInt none _ exRecordInt_loads
    (st 3) #[0, 1] (by decide) exPermFor (exPivotOK 3)).2.2
    (by intro c hc; simp only [inputOf, exRecordInt, List.mem_cons, List.not_mem_nil, or_false] at hc
        subst hc; trivial)
  obtain ⟨r, hr, _⟩ := hs exFmaxOK
  exact ⟨S, r, hS, hr⟩

end nonvacuity5

end Clarabel.C19
