/-
  C05 — "the same solver solved twice", "a different LDL backend or thread count": what `solve()` may
  read of the mutable state of the solver object, as theorems about the FULL model
  (`ClarabelModel/Solver/*.lean`, tied bit for bit to `DefaultSolver::new` + `solve()` by the channels
  `solve.setup / solve.init / solve.full / solve.twice`).  Helper lemmas: `Lemmas/SolverStale*.lean`.

  ### The characterisation (relation `Solver.Stale`, `Lemmas/SolverStaleRel.lean`)

  Of the state a previous `solve()` (or anything else) left in the solver object, `solve()` reads
    (0) the problem data, the LENGTHS of all work vectors, the SHAPE of the cone objects
        (`Solver.SameShape` — preserved by `solve()` itself);
    (i) NOT the `info` block — neither the nine figures, `μ, σ, step_length, iterations, status`
        (`full_solve_info_irrelevant`) nor the six `prev_*` fields: `check_termination` reads them only
        under `iter > 1`, `reset_to_prev_iterate` only after an insufficient-progress verdict (which
        needs `iter > 1`), and by then `save_prev_iterate` of THIS solve has written them.  They only
        show in the private `prev_*` copies inside the first pass's `info` snapshot (`RecEqv`);
   (ii) NOTHING through a multiplication by zero any more.  Until /repo 1706c1f two stale buffers were
        read that way: `kktsystem.workx` as `0 · workx` (`solve_constant_rhs`: `workx.axpby(-1, q, 0)`)
        and `residuals.Px` as `Px · 0` (`symv(Px, x, 1, 0)` started with `y.scale(0)`), so that a NaN left
        by a broken solve poisoned the next one (KF-C03-resolve-after-nan) and a finite entry could flip
        the sign of a zero.  Now `workx.scalarop_from(|q| -q, &data.q)` and `symv`'s `y.fill(0)` for
        `b == 0` (as `gemv` always did; needs only `0 == 0`, hypothesis `hbeq`) overwrite them: both
        buffers are dead (`workx` up to the length of `q`: `WorkxSized`);
  (iii) NOT the stale ITERATE any more.  Until /repo 7c1c881 it was read when `solve_initial_point`
        failed (`default_start` does not check its result and shifted whatever was in `variables` —
        the un-scaled result of the previous `solve()` — into the cone): hypothesis `InitPointOk` of the
        theorems below.  Now `solve_initial_point` zero-fills `variables.x/s/z` first: the three
        vectors are dead (`full_solve_ignores_iterate`, `full_solve_iterate_dead`), and the
        `…_any_start` theorems at the end of this file drop the hypothesis;
   (iv) the linear solver object through `update` / `setrhs`+`solve` only (`KktSim`): two objects that
        answer these calls alike are indistinguishable — `max_threads` and `direct_solve_method` are
        not even fields of the model's `Settings`, they live behind that interface
        (`full_solve_linear_solver_only`).  For the QDLDL object of the model the simulation is
        proved (`qdldl_kktSim`: the content of its work vectors `x, b, work1, work2` is dead), up to
        one fact that is NOT derived here and stays an explicit hypothesis `QW`: that
        `KKTSolver::update` rewrites every numeric entry a previous solve changed (KKT values at the
        `Hs`/sparse-cone positions, the permuted copy, `L, D, D⁻¹` — C11 `update_*`, C12
        `refactor_eq_fresh`).
  Everything else — iterate, residuals, `step_lhs`, `step_rhs`, `prev_vars`, cone scalings
  `w, λ, η, u, v, d`, `x1, z1, x2, z2, workz, work_conic`, the `solution` object — is dead.
-/
import ClarabelProofs.Lemmas.SolverStaleIdem
import ClarabelProofs.Lemmas.SolverStaleExample
import ClarabelProofs.Lemmas.KktQwNew
import ClarabelProofs.Lemmas.SolverStaleAnyStart
import ClarabelProofs.Lemmas.SolverModelNoPanicExample

namespace Clarabel.C05
open Clarabel Clarabel.Solver
open Clarabel.Info (InfoS)

set_option linter.unusedSectionVars false

section stale
variable {α : Type} [Add α] [Sub α] [Mul α] [Div α] [Neg α] [OfNat α 0] [OfNat α 1] [OfNat α 2]
  [OfNat α 100] [OfNat α 1000] [LT α] [DecidableLT α] [LE α] [DecidableLE α] [BEq α] [FloatLike α]

/-- [S] `C05.full_solve_reads_only`: **what `solve()` may read of the mutable state.**  Two solver
objects related by `Stale` (same data, same vector lengths and cone shapes, linear-solver objects
related by a simulation `(Bw, Bs)`) whose `solution` objects have the
same lengths, and such that `solve_initial_point` succeeds (or the incoming iterates agree): `solve()`
fails with the same error on both, or succeeds on both with the same `solution`, the same trajectory
(every pass record: iterate, `μ, σ, α`, the nine `info` figures, verdicts, `α_aff`, … — up to the private
`prev_*` copies), the same final iterate and `info` block. -/
theorem full_solve_reads_only (hbeq : ((0 : α) == 0) = true) {Bw Bs : KktSolver α → KktSolver α → Prop}
    (hsim : KktSim Bw Bs) (st : Solver.Settings α) {S S' : Solver α} (h : Stale Bw S.st S'.st)
    (hsol : SolShape ((presolveMap S.st.data).map (fun m => m.keep.size)) S.solution S'.solution)
    (hinit : InitPointOk (resetInfo S.st) st ∨ VarsXSZ S.st.variables S'.st.variables) :
    RelM SolveObs (S.solve st) (S'.solve st) :=
  solve_rel hbeq hsim st h hsol hinit

/-- [S] `C05.full_solve_linear_solver_only` (threads / backends): the model's `solve()` uses the linear
solver object only through `update` and `setrhs`+`solve`.  Replace the object by ANY other one that
answers these calls alike (a bisimulation `B`: e.g. the same factorisation computed with another
thread count, or another engine returning the same solves): same error or same `solution`,
trajectory, final iterate and figures.  (`max_threads`, `direct_solve_method` are not fields of
`Solver.Settings`: they cannot enter in any other way.) -/
theorem full_solve_linear_solver_only (hbeq : ((0 : α) == 0) = true) {B : KktSolver α → KktSolver α → Prop}
    (hsim : KktSim B B) (st : Solver.Settings α) (S : Solver α) (K' : KktSolver α)
    (hB : B S.st.kktsystem.kktsolver K') :
    RelM SolveObs (S.solve st)
      (({ S with st := { S.st with kktsystem := { S.st.kktsystem with kktsolver := K' } } } : Solver α).solve st) :=
  solve_rel hbeq hsim st (Stale.swapSolver S.st K' hB) (SolShape.rfl' _ _) (Or.inr ⟨rfl, rfl, rfl⟩)

/-- [S] `C05.full_solve_info_block_dead` (connects `solve_is_function_of_data` / `full_solve_info_irrelevant`
to the six `prev_*` fields): replace the WHOLE `info` block of a solver object — the nine figures, `μ`,
`σ`, `step_length`, `iterations`, `status` AND `prev_*` — by anything: `solve()` gives the same
observable result.  (`prev_*` are read only under `iter > 1`, after `save_prev_iterate` of this solve.) -/
theorem full_solve_info_block_dead (hbeq : ((0 : α) == 0) = true) (st : Solver.Settings α) (S : Solver α)
    (i : InfoS α) (a b c : α) :
    RelM SolveObs (S.solve st) (({ S with st := withInfo S.st i a b c } : Solver α).solve st) :=
  solve_rel hbeq qdldl_kktSim st
    { data := rfl, «variables» := VarsShape.of_eq rfl, residuals := ResidShape.of_eq rfl,
      kktsystem := ⟨QW.rfl' _, rfl, rfl, rfl, rfl, SameFrom.rfl' _ _, rfl, SameFrom.rfl' _ _⟩,
      cones := ConesShape.rfl' _, stepLhs := StepShape.of_eq rfl, stepRhs := StepShape.of_eq rfl,
      prevVars := VarsShape.of_eq rfl }
    (SolShape.rfl' _ _) (Or.inr ⟨rfl, rfl, rfl⟩)

/-- [S] `C05.full_solve_stale`: for the concrete linear solver of the model (QDLDL): given the structural
facts (`SameShape`, `WellSized`, `WorkxSized`: lengths and shapes, which `solve()` preserves), (iii), and
the hypothesis `QW` of (iv) on the two KKT solver objects, `solve()` cannot tell the two solver objects
apart — whatever is in ANY of their mutable buffers (NaN, ±∞ included). -/
theorem full_solve_stale (hbeq : ((0 : α) == 0) = true) (st : Solver.Settings α) {S S' : Solver α}
    (hsh : SameShape S.st S'.st) (hw : WellSized S.st) (hq : WorkxSized S.st)
    (hK : QW S.st.kktsystem.kktsolver S'.st.kktsystem.kktsolver)
    (hsol : SolShape ((presolveMap S.st.data).map (fun m => m.keep.size)) S.solution S'.solution)
    (hinit : InitPointOk (resetInfo S.st) st ∨ VarsXSZ S.st.variables S'.st.variables) :
    RelM SolveObs (S.solve st) (S'.solve st) :=
  solve_rel hbeq qdldl_kktSim st (Stale.of_sameShape hsh hw hq hK) hsol hinit

/-- [S] `C05.full_solve_stale_qdldl` (superseded by `full_solve_stale`; stated for the code before /repo
1706c1f, where `0·workx` and `Px·0` were read: the hypotheses `hPx`, `hwx` are no longer needed). -/
theorem full_solve_stale_qdldl (hbeq : ((0 : α) == 0) = true) (st : Solver.Settings α) {S S' : Solver α}
    (hsh : SameShape S.st S'.st) (hw : WellSized S.st) (hq : WorkxSized S.st)
    (hK : QW S.st.kktsystem.kktsolver S'.st.kktsystem.kktsolver)
    (_hPx : zmulR S.st.residuals.Px = zmulR S'.st.residuals.Px)
    (_hwx : zmulL S.st.kktsystem.workx = zmulL S'.st.kktsystem.workx)
    (hsol : SolShape ((presolveMap S.st.data).map (fun m => m.keep.size)) S.solution S'.solution)
    (hinit : InitPointOk (resetInfo S.st) st ∨ VarsXSZ S.st.variables S'.st.variables) :
    RelM SolveObs (S.solve st) (S'.solve st) :=
  full_solve_stale hbeq st hsh hw hq hK hsol hinit

/-- [S] `C05.full_solve_stale_field` (superseded by `full_solve_stale`: the ring laws `0·a = 0 = a·0` are
no longer needed, the statement holds for every scalar type). -/
theorem full_solve_stale_field (hbeq : ((0 : α) == 0) = true) (_h0l : ∀ a : α, 0 * a = 0) (_h0r : ∀ a : α, a * 0 = 0)
    (st : Solver.Settings α) {S S' : Solver α} (hsh : SameShape S.st S'.st) (hw : WellSized S.st)
    (hq : WorkxSized S.st) (hK : QW S.st.kktsystem.kktsolver S'.st.kktsystem.kktsolver)
    (hsol : SolShape ((presolveMap S.st.data).map (fun m => m.keep.size)) S.solution S'.solution)
    (hinit : InitPointOk (resetInfo S.st) st ∨ VarsXSZ S.st.variables S'.st.variables) :
    RelM SolveObs (S.solve st) (S'.solve st) :=
  full_solve_stale hbeq st hsh hw hq hK hsol hinit

/-- [S] `C05.full_solve_idempotent_finite`: **the same solver solved twice** (for the code since /repo
1706c1f).  If the first `solve()` on a solver object returned `r1` — with whatever figures: a
`NumericalError` with a NaN iterate included —, then the second `solve()` on the object it left returns
the same observable result: the same `solution` (status, `x, s, z`, objectives, iterations, residuals),
the same trajectory pass by pass, the same final iterate and `info` figures, provided
  (iii) `solve_initial_point` succeeds (`default_start` does not check its result: otherwise the iterate
        of the first solve is the start of the second — unchanged by the fix);
  (iv)  `QW`: `KKTSolver::update` rewrites every numeric entry of the linear solver object that the
        first solve changed.
No finiteness condition is left: every mutable buffer is dead.  `ConesOk`, `WellSized`, `WorkxSized` and
`hsz` are structural facts about the object (every object built by `DefaultSolver::new` has them:
`full_new_solver_is_well_formed`; `solve()` preserves them, so the theorem chains to a third, fourth …
call).
NOT PROVED: the same without hypothesis (iv).  (iv) is a statement about `KKTSolver::update` alone (C11
`update_*`: every non-`P`/`A` entry of the KKT matrix and of the engine's permuted copy is rewritten;
C12 `refactor_eq_fresh`: `L, D, D⁻¹` do not depend on the previous factors); its derivation needs the
well-formedness invariants of the QDLDL workspace carried through a whole solve.  It is checked on
the implementation by the `update-does-not-forget` oracle of channel `meta.repeat`. -/
theorem full_solve_idempotent_finite (hbeq : ((0 : α) == 0) = true) (st : Solver.Settings α) {S : Solver α}
    {r1 : SolveResult α} (h1 : S.solve st = .ok r1) (hc : ConesOk S.st.cones) (hw : WellSized S.st)
    (hq : WorkxSized S.st)
    (hsz : ∀ n, (presolveMap S.st.data).map (fun m => m.keep.size) = some n →
      S.solution.s.size ≤ n ∧ S.solution.z.size ≤ n)
    (hinit : InitPointOk (resetInfo S.st) st)
    (hK : QW S.st.kktsystem.kktsolver r1.S.st.kktsystem.kktsolver) :
    (∃ r2, r1.S.solve st = .ok r2 ∧ SolveObs r1 r2)
      ∧ ConesOk r1.S.st.cones ∧ WellSized r1.S.st ∧ WorkxSized r1.S.st :=
  ⟨solve_twice_obs hbeq st h1 hc hw hq hsz hK hinit, solve_conesOk h1 hc, solve_wellSized h1 hc hw,
    solve_workxSized h1 hc hq⟩

/-- [S] `C05.full_solve_idempotent_finite_partial` (superseded by `full_solve_idempotent_finite`; stated
for the code before /repo 1706c1f, where condition (ii) "the first solve left the same `0·v` zeros in
`Px` and `workx`" was needed: `hPx`, `hwx` are no longer used). -/
theorem full_solve_idempotent_finite_partial (hbeq : ((0 : α) == 0) = true) (st : Solver.Settings α) {S : Solver α}
    {r1 : SolveResult α} (h1 : S.solve st = .ok r1) (hc : ConesOk S.st.cones) (hw : WellSized S.st)
    (hq : WorkxSized S.st)
    (hsz : ∀ n, (presolveMap S.st.data).map (fun m => m.keep.size) = some n →
      S.solution.s.size ≤ n ∧ S.solution.z.size ≤ n)
    (_hPx : zmulR S.st.residuals.Px = zmulR r1.S.st.residuals.Px)
    (_hwx : zmulL S.st.kktsystem.workx = zmulL r1.S.st.kktsystem.workx)
    (hinit : InitPointOk (resetInfo S.st) st)
    (hK : QW S.st.kktsystem.kktsolver r1.S.st.kktsystem.kktsolver) :
    (∃ r2, r1.S.solve st = .ok r2 ∧ SolveObs r1 r2)
      ∧ ConesOk r1.S.st.cones ∧ WellSized r1.S.st :=
  have h := full_solve_idempotent_finite hbeq st h1 hc hw hq hsz hinit hK
  ⟨h.1, h.2.1, h.2.2.1⟩

/-- [S] `C05.full_solve_idempotent_field_partial` (superseded by `full_solve_idempotent_finite`: the ring
laws are no longer needed). -/
theorem full_solve_idempotent_field_partial (hbeq : ((0 : α) == 0) = true) (_h0l : ∀ a : α, 0 * a = 0)
    (_h0r : ∀ a : α, a * 0 = 0) (st : Solver.Settings α) {S : Solver α}
    {r1 : SolveResult α} (h1 : S.solve st = .ok r1) (hc : ConesOk S.st.cones) (hw : WellSized S.st)
    (hq : WorkxSized S.st)
    (hsz : ∀ n, (presolveMap S.st.data).map (fun m => m.keep.size) = some n →
      S.solution.s.size ≤ n ∧ S.solution.z.size ≤ n)
    (hinit : InitPointOk (resetInfo S.st) st)
    (hK : QW S.st.kktsystem.kktsolver r1.S.st.kktsystem.kktsolver) :
    ∃ r2, r1.S.solve st = .ok r2 ∧ SolveObs r1 r2 :=
  (full_solve_idempotent_finite hbeq st h1 hc hw hq hsz hinit hK).1

/-- [S] `C05.full_new_solver_is_well_formed`: the structural hypotheses of the theorems above hold
for every solver object built by `DefaultSolver::new`. -/
theorem full_new_solver_is_well_formed {P : Csc α} {q : Array α} {A : Csc α} {b : Array α}
    {cones : List (ConeT α)} {st : Solver.Settings α} {perm : Array Nat} {S : Solver α}
    (h : Solver.new P q A b cones st perm = .ok S) :
    ConesOk S.st.cones ∧ WellSized S.st ∧ WorkxSized S.st :=
  ⟨(solverNew_frame h).1, (solverNew_frame h).2, solverNew_workxSized h⟩

end stale

/-! non-vacuity: for every solver object `S`, `poison S` (garbage in every dead component, scalar type
`Int`) is `Stale`-related to `S` (`Lemmas/SolverStaleExample.lean`); on the example problem
`solve_initial_point` succeeds (kernel evaluation) -/
section staleExamples
open Clarabel.Solver.Example
attribute [local instance] intFloatLike

/-- `full_solve_reads_only` applies: the poisoned copy of the example solver solves exactly like the
fresh one -/
example {S : Solver Int} (h : newSolver 3 = .ok S) : RelM SolveObs (S.solve (st 3)) ((poison S).solve (st 3)) :=
  full_solve_reads_only (by decide) qdldl_kktSim (st 3) (stale_poison S) (solShape_poison _ S)
    (Or.inl (example_initPointOk h))

/-- `QB` (same QDLDL object up to the content of `x, b, work1, work2`) is a bisimulation, so
`full_solve_linear_solver_only` applies to it -/
example (S : Solver Int) :
    RelM SolveObs (S.solve (st 3))
      (({ S with st := { S.st with kktsystem := { S.st.kktsystem with kktsolver :=
          { S.st.kktsystem.kktsolver with x := junk S.st.kktsystem.kktsolver.x 5,
                                          work2 := junk S.st.kktsystem.kktsolver.work2 6 } } } } : Solver Int).solve (st 3)) :=
  full_solve_linear_solver_only (by decide)
    ⟨fun c s h => h.update c s, fun h => h, qdldl_kktSim.solve⟩ (st 3) S _
    (QB.set _ (junk_size _ _) rfl rfl (junk_size _ _))

/-- the hypotheses of `full_solve_idempotent_finite` on the example: `DefaultSolver::new` succeeds
(`run3`), the object it builds is well formed, `solve_initial_point` succeeds on it, no presolver (so
`hsz` is void); hypothesis (iv) `QW` holds between any two objects that differ in the content of the
four work vectors (`QB.toQW`) — its instance "before / after a solve" is the fact that is not derived -/
example {S : Solver Int} (h : newSolver 3 = .ok S) :
    (ConesOk S.st.cones ∧ WellSized S.st ∧ WorkxSized S.st) ∧ InitPointOk (resetInfo S.st) (st 3)
      ∧ QW S.st.kktsystem.kktsolver { S.st.kktsystem.kktsolver with b := junk S.st.kktsystem.kktsolver.b 3 } :=
  ⟨full_new_solver_is_well_formed h, example_initPointOk h,
    (QB.set _ rfl (junk_size _ _) rfl rfl).toQW⟩

/-- the scalar hypothesis `hbeq` (and the superseded ring laws of `full_solve_stale_field` /
`full_solve_idempotent_field_partial`) at `Int` -/
example : (((0 : Int) == 0) = true) ∧ (∀ a : Int, 0 * a = 0) ∧ (∀ a : Int, a * 0 = 0) :=
  ⟨by decide, Int.zero_mul, Int.mul_zero⟩

end staleExamples

/-! ### round 4: hypothesis (iv) `QW` is a theorem about the model's `DirectLDLKKTSolver` + QDLDL

  `QW K K'` asks the two objects to answer `update(cones, st)` alike for EVERY cone list and EVERY
  settings.  Between the object a `solve()` started from and the object it left this is too strong —
  it is false in general, for two reasons that have nothing to do with `solve()`:
    * a cone list with FEWER sparse (expanded) second-order cones than the object has expansion maps
      (same `Hs` length, e.g. a nonnegative cone in the place of a large second-order cone) passes every
      guard of `update` and leaves the `u, v, D` entries written by the last solve in place;
    * an `update` under settings with static regularisation OFF does not rewrite the `± ε` that an
      `update` with static regularisation ON put on the diagonal of the engine's permuted copy.
  `solve()` calls `update` with its own cone list (same shape on every call) and its own settings only,
  and only the FIRST `update` of a `solve()` (in `default_start`) meets the object the previous `solve()`
  left: after it the two runs hold `QB`-related objects and `qdldl_kktSim` applies.  So the statement
  proved here is `QW` restricted to these calls (`full_update_forgets`; its conclusion is literally the
  body of `QW`), and `full_solve_idempotent` is `full_solve_idempotent_finite` without hypothesis (iv).

  Ingredients (`Lemmas/KktQw*.lean`): lock-step lemmas for `_update_values / _scale_values /
  csc_update_sparsecone` on both copies of the matrix (`AgreeOn`, `LS`, `QR`); C12
  `factor_buffers_irrelevant` + `HistInv` ("`refactor` is a function of `triuA` and the symbolic data":
  `refactor_ls`); C11 `regularizeAndRestore_restores` (the solver's own copy is restored bit for bit);
  single-run frames through `update`, `setrhs`, `solve` and the whole `solve()` (`solve_kstep`). -/
section forgets
variable {α : Type} [Add α] [Sub α] [Mul α] [Div α] [Neg α] [OfNat α 0] [OfNat α 1] [OfNat α 2]
  [OfNat α 100] [OfNat α 1000] [LT α] [DecidableLT α] [LE α] [DecidableLE α] [BEq α] [FloatLike α]

/-- [S] `C05.full_update_forgets` — **hypothesis `QW` as a theorem**, for the calls `solve()` makes.
`K'` is `K` up to what an `update` under the settings `st` rewrites (`Upd st K K'`: same structural
data; the solver's own KKT values agree off the `Hs` / sparse-cone positions; the engine's permuted copy
agrees off the slots behind these positions and — static regularisation on — behind the diagonal;
`L, D, D⁻¹`, the counters, `is_symbolic`, `Hsblocks`, `x, b, work1, work2`, and — static regularisation
on — `diagonal_regularizer` hold ANYTHING of the same lengths); `K`'s QDLDL object was built by
`QDLDLFactorisation::new` and has since been updated / refactored only (`LdlInv`, C12 `HistInv`); the
cone list has at least as many sparse second-order cones as `K` has expansion maps.  Then
`update(cones, st)` answers alike on both: the same error, or the same flag and objects that differ in
the content of the four work vectors only.  The conclusion is the body of `QW` (`Lemmas/
SolverStaleQdldl.lean`) for this `(cones, st)`. -/
theorem full_update_forgets {st : LinSettings α} {K K' : KktSolver α} (h : Upd st K K')
    (hI : Clarabel.Solver.LdlInv K.ldl) (cones : List (ConeSt α))
    (hfit : K.map.sparse_maps.size ≤ nSp cones) :
    RelM (fun r r' => r.1 = r'.1 ∧ QB r.2 r'.2) (K.update cones st) (K'.update cones st) :=
  update_forgets h hI cones hfit

/-- [S] `C05.full_update_forgets_QW` — hypothesis `QW` in its EXACT shape (every cone list, every
settings), in the case where it is true: `K'` was reached from `K` under settings WITHOUT static
regularisation and the object has no expansion maps (no second-order cone of dimension `> 4`).  (With
static regularisation or a sparse cone `QW` itself fails — see the section header — and
`full_update_forgets` / `full_solve_idempotent` take its place.) -/
theorem full_update_forgets_QW {st : LinSettings α} {K K' : KktSolver α} (h : Upd st K K')
    (hI : Clarabel.Solver.LdlInv K.ldl) (hoff : st.staticRegEnable = false)
    (hsp : K.map.sparse_maps.size = 0) : QW K K' :=
  qw_of_upd h hI hoff hsp

/-- [S] `C05.full_solve_leaves_updatable_object`: a whole `solve()` changes the linear-solver object only
in what the next `update` rewrites (`Upd`), keeps its invariant `KInv` (C12's history invariant, common
length of the work vectors) — hence (`full_update_forgets`) the object it leaves answers the first
`update` of the next `solve()` exactly like the object it started from (`QW1`), and `KktOk` holds
again. -/
theorem full_solve_leaves_updatable_object {S : Solver α} {st : Solver.Settings α} {r : SolveResult α}
    (h : S.solve st = .ok r) (hc : ConesOk S.st.cones) (hk : KktOk S.st) :
    Upd st.lin S.st.kktsystem.kktsolver r.S.st.kktsystem.kktsolver ∧ KktOk r.S.st ∧
      QW1 (setIdentityScaling S.st.cones) st.lin S.st.kktsystem.kktsolver r.S.st.kktsystem.kktsolver :=
  ⟨(solve_kstep h hk.inv).1, (solve_kktOk h hc hk).1, (solve_kktOk h hc hk).2⟩

/-- [S] `C05.full_new_solver_kkt_well_formed`: the structural invariant `KktOk` (the QDLDL object
satisfies C12's history invariant; `x, b, work1, work2` have one common length; one expansion map per
sparse second-order cone) holds for every solver object built by `DefaultSolver::new` on well-formed
input — canonical CSC data of matching dimensions (`InputOK`), at least one variable, and an ordering
`perm` of the right length (`PermFor`; the AMD ordering is an input of the model).  These are the
hypotheses of `C04.full_new_establishes_invariant` without the scalar law `PivotOK`. -/
theorem full_new_solver_kkt_well_formed {P : Csc α} {q : Array α} {A : Csc α} {b : Array α}
    {cones : List (ConeT α)} {st : Solver.Settings α} {perm : Array Nat} (hin : InputOK P q A b cones)
    (hn : 0 < P.n) (hperm : PermFor P q A b cones st perm) {S : Solver α}
    (h : Solver.new P q A b cones st perm = .ok S) : KktOk S.st :=
  solverNew_kktOk hin hn hperm h

/-- [S] `C05.full_solve_idempotent`: **the same solver solved twice — hypothesis (iv) `QW` removed.**
If the first `solve()` on a solver object returned `r1` (with whatever figures: a `NumericalError` with
a NaN iterate included), the second `solve()` on the object it left returns the same observable result
— the same `solution` (status, `x, s, z`, objectives, iterations, residuals), the same trajectory pass
by pass, the same final iterate and `info` figures — provided
  (iii) `solve_initial_point` succeeds (`default_start` does not check its result: otherwise the iterate
        of the first solve was the start of the second — until /repo 7c1c881; the hypothesis is no
        longer needed: `full_solve_idempotent_any_start`).
`ConesOk`, `WellSized`, `WorkxSized`, `KktOk` and `hsz` are structural facts about the object: every
object built by `DefaultSolver::new` has them (`full_new_solver_is_well_formed`,
`full_new_solver_kkt_well_formed`), and `solve()` preserves them, so the theorem chains to a third,
fourth … call.  Valid for every scalar type (bit-identical at `Float`): every numeric entry of the
linear-solver object that the first solve changed — KKT values at the `Hs` / sparse-cone positions, the
engine's permuted copy incl. its `± ε` diagonal, `L, D, D⁻¹`, the counters, `Hsblocks`, the work
vectors, `diagonal_regularizer` — is rewritten before it is read. -/
theorem full_solve_idempotent (hbeq : ((0 : α) == 0) = true) (st : Solver.Settings α) {S : Solver α}
    {r1 : SolveResult α} (h1 : S.solve st = .ok r1) (hc : ConesOk S.st.cones) (hw : WellSized S.st)
    (hq : WorkxSized S.st) (hk : KktOk S.st)
    (hsz : ∀ n, (presolveMap S.st.data).map (fun m => m.keep.size) = some n →
      S.solution.s.size ≤ n ∧ S.solution.z.size ≤ n)
    (hinit : InitPointOk (resetInfo S.st) st) :
    (∃ r2, r1.S.solve st = .ok r2 ∧ SolveObs r1 r2)
      ∧ ConesOk r1.S.st.cones ∧ WellSized r1.S.st ∧ WorkxSized r1.S.st ∧ KktOk r1.S.st :=
  ⟨solve_twice_obs1 hbeq st h1 hc hw hq hk hsz hinit, solve_conesOk h1 hc, solve_wellSized h1 hc hw,
    solve_workxSized h1 hc hq, (solve_kktOk h1 hc hk).1⟩

/-- [S] `C05.full_solve_idempotent_new`: the same for a solver object fresh from `DefaultSolver::new` on
well-formed input: all structural hypotheses are discharged; what is left is (iii) and the input
hypotheses of `new`. -/
theorem full_solve_idempotent_new (hbeq : ((0 : α) == 0) = true) {P : Csc α} {q : Array α} {A : Csc α}
    {b : Array α} {cones : List (ConeT α)} {st : Solver.Settings α} {perm : Array Nat}
    (hin : InputOK P q A b cones) (hn : 0 < P.n) (hperm : PermFor P q A b cones st perm) {S : Solver α}
    (hS : Solver.new P q A b cones st perm = .ok S) {r1 : SolveResult α} (h1 : S.solve st = .ok r1)
    (hsz : ∀ n, (presolveMap S.st.data).map (fun m => m.keep.size) = some n →
      S.solution.s.size ≤ n ∧ S.solution.z.size ≤ n)
    (hinit : InitPointOk (resetInfo S.st) st) :
    ∃ r2, r1.S.solve st = .ok r2 ∧ SolveObs r1 r2 :=
  have hf := full_new_solver_is_well_formed hS
  (full_solve_idempotent hbeq st h1 hf.1 hf.2.1 hf.2.2 (solverNew_kktOk hin hn hperm hS) hsz hinit).1

end forgets

/-! non-vacuity of the round-4 theorems on the example problem (scalar type `Int`) -/
section forgetsExamples
open Clarabel.Solver.Example
attribute [local instance] intFloatLike

/-- the input hypotheses of `full_new_solver_kkt_well_formed` / `full_solve_idempotent_new` hold on the
example, `new` succeeds, and (iii) holds on the object it builds -/
example : InputOK P #[1] A #[1] ([.nonneg 1] : List (ConeT Int)) ∧ 0 < P.n ∧
    PermFor P #[1] A #[1] ([.nonneg 1] : List (ConeT Int)) (st 3) #[0, 1] ∧
    ∃ S, newSolver 3 = .ok S ∧ KktOk S.st ∧ InitPointOk (resetInfo S.st) (st 3) := by
  obtain ⟨S, hS⟩ := exNew_ok
  exact ⟨exInputOK, by decide, exPermFor, S, hS, full_new_solver_kkt_well_formed exInputOK (by decide) exPermFor hS,
    example_initPointOk hS⟩

/-- `full_update_forgets` applies to the object `new` builds and the same object with junk in the
work vectors; `Upd` is reflexive, and (by `full_solve_leaves_updatable_object`) relates the object
before and after any `solve()` -/
example {S : Solver Int} (h : newSolver 3 = .ok S) :
    RelM (fun r r' => r.1 = r'.1 ∧ QB r.2 r'.2)
      (S.st.kktsystem.kktsolver.update S.st.cones (st 3).lin)
      (S.st.kktsystem.kktsolver.update S.st.cones (st 3).lin) :=
  full_update_forgets (Upd.rfl' _ _)
    (full_new_solver_kkt_well_formed exInputOK (by decide) exPermFor h).inv.ldl _
    (full_new_solver_kkt_well_formed exInputOK (by decide) exPermFor h).fit

/-- `full_update_forgets_QW` applies on the example (its settings have static regularisation off, its
cone list has no second-order cone): for the object `new` builds and the object its `solve()` leaves,
hypothesis (iv) of `full_solve_idempotent_finite` holds in its original form -/
example {S : Solver Int} (h : newSolver 3 = .ok S) {r : SolveResult Int} (hr : S.solve (st 3) = .ok r)
    (hsp : S.st.kktsystem.kktsolver.map.sparse_maps.size = 0) :
    QW S.st.kktsystem.kktsolver r.S.st.kktsystem.kktsolver :=
  have hk := full_new_solver_kkt_well_formed exInputOK (by decide) exPermFor h
  full_update_forgets_QW (full_solve_leaves_updatable_object hr (full_new_solver_is_well_formed h).1 hk).1
    hk.inv.ldl rfl hsp

end forgetsExamples

/-! ### condition (iii) removed (code since /repo 7c1c881)

  `solve_initial_point` zero-fills `variables.x/s/z` before its KKT solves, so when a solve fails
  (iterative refinement meets a non-finite number) `default_start` shifts the zero vector into the
  cone — the start a fresh solver object has — instead of the un-scaled iterate the previous `solve()`
  left.  Before the repair the second of two `solve()` calls could return another `x, s, z` after a
  first call that ended with an ordinary status (finding KF-C05-stale-start-after-failed-init,
  regression `regressions/C05-stale-start-after-failed-init`). -/
section anyStart
variable {α : Type} [Add α] [Sub α] [Mul α] [Div α] [Neg α] [OfNat α 0] [OfNat α 1] [OfNat α 2]
  [OfNat α 100] [OfNat α 1000] [LT α] [DecidableLT α] [LE α] [DecidableLE α] [BEq α] [FloatLike α]

/-- [S] `C05.full_solve_ignores_iterate`: **`solve()` does not read `variables.x/s/z`.**  Zero-fill the
three vectors of the solver object (`Solver.zeroVars`) before the call: `solve()` is the same function
— the same error, or the same `SolveResult` (solution, trajectory, final state), as an EQUATION, for
every scalar type, whether the initial KKT solve succeeds or not. -/
theorem full_solve_ignores_iterate (S : Solver α) (st : Solver.Settings α) :
    S.zeroVars.solve st = S.solve st :=
  solve_zeroVars S st

/-- [S] `C05.full_solve_iterate_dead`: replace the WHOLE iterate `variables` (`x, s, z, τ, κ`) of a solver
object by anything of the same lengths (NaN, ±∞, the result of an earlier solve …): `solve()` gives the
same observable result. -/
theorem full_solve_iterate_dead (hbeq : ((0 : α) == 0) = true) (st : Solver.Settings α) (S : Solver α)
    (v : Residuals.Vars α) (hv : VarsShape S.st.«variables» v) :
    RelM SolveObs (S.solve st) (({ S with st := { S.st with «variables» := v } } : Solver α).solve st) :=
  solve_rel_any hbeq qdldl_kktSim st
    { data := rfl, «variables» := hv, residuals := ResidShape.of_eq rfl,
      kktsystem := ⟨QW.rfl' _, rfl, rfl, rfl, rfl, SameFrom.rfl' _ _, rfl, SameFrom.rfl' _ _⟩,
      cones := ConesShape.rfl' _, stepLhs := StepShape.of_eq rfl, stepRhs := StepShape.of_eq rfl,
      prevVars := VarsShape.of_eq rfl }
    (SolShape.rfl' _ _)

/-- [S] `C05.full_solve_reads_only_any_start`: `full_solve_reads_only` without its hypothesis on the
initial point.  Two `Stale`-related solver objects (same data, same vector lengths and cone shapes,
linear-solver objects related by a simulation) whose `solution` objects have the same lengths: `solve()`
fails with the same error on both, or succeeds on both with the same observable result. -/
theorem full_solve_reads_only_any_start (hbeq : ((0 : α) == 0) = true)
    {Bw Bs : KktSolver α → KktSolver α → Prop} (hsim : KktSim Bw Bs) (st : Solver.Settings α)
    {S S' : Solver α} (h : Stale Bw S.st S'.st)
    (hsol : SolShape ((presolveMap S.st.data).map (fun m => m.keep.size)) S.solution S'.solution) :
    RelM SolveObs (S.solve st) (S'.solve st) :=
  solve_rel_any hbeq hsim st h hsol

/-- [S] `C05.full_solve_stale_any_start`: `full_solve_stale` without its hypothesis on the initial point:
given the structural facts and `QW` on the two linear-solver objects, `solve()` cannot tell the two
solver objects apart — whatever is in ANY of their mutable buffers, the iterate included. -/
theorem full_solve_stale_any_start (hbeq : ((0 : α) == 0) = true) (st : Solver.Settings α) {S S' : Solver α}
    (hsh : SameShape S.st S'.st) (hw : WellSized S.st) (hq : WorkxSized S.st)
    (hK : QW S.st.kktsystem.kktsolver S'.st.kktsystem.kktsolver)
    (hsol : SolShape ((presolveMap S.st.data).map (fun m => m.keep.size)) S.solution S'.solution) :
    RelM SolveObs (S.solve st) (S'.solve st) :=
  solve_rel_any hbeq qdldl_kktSim st (Stale.of_sameShape hsh hw hq hK) hsol

/-- [S] `C05.full_solve_idempotent_any_start`: **the same solver solved twice — no condition left.**  If
the first `solve()` on a solver object returned `r1` (with whatever status and figures), the second
`solve()` on the object it left returns the same observable result — the same `solution` (status,
`x, s, z`, objectives, iterations, residuals), the same trajectory pass by pass, the same final iterate
and `info` figures.  The hypotheses are the structural facts every object built by `DefaultSolver::new`
has and `solve()` preserves (`full_new_solver_is_well_formed`, `full_new_solver_kkt_well_formed`); the
theorem chains to a third, fourth … call.  `full_solve_idempotent` without (iii). -/
theorem full_solve_idempotent_any_start (hbeq : ((0 : α) == 0) = true) (st : Solver.Settings α) {S : Solver α}
    {r1 : SolveResult α} (h1 : S.solve st = .ok r1) (hc : ConesOk S.st.cones) (hw : WellSized S.st)
    (hq : WorkxSized S.st) (hk : KktOk S.st)
    (hsz : ∀ n, (presolveMap S.st.data).map (fun m => m.keep.size) = some n →
      S.solution.s.size ≤ n ∧ S.solution.z.size ≤ n) :
    (∃ r2, r1.S.solve st = .ok r2 ∧ SolveObs r1 r2)
      ∧ ConesOk r1.S.st.cones ∧ WellSized r1.S.st ∧ WorkxSized r1.S.st ∧ KktOk r1.S.st :=
  ⟨solve_twice_obs1_any hbeq st h1 hc hw hq hk hsz, solve_conesOk h1 hc, solve_wellSized h1 hc hw,
    solve_workxSized h1 hc hq, (solve_kktOk h1 hc hk).1⟩

/-- [S] `C05.full_solve_idempotent_finite_any_start`: `full_solve_idempotent_finite` (hypothesis `QW` in
its original shape) without (iii). -/
theorem full_solve_idempotent_finite_any_start (hbeq : ((0 : α) == 0) = true) (st : Solver.Settings α)
    {S : Solver α} {r1 : SolveResult α} (h1 : S.solve st = .ok r1) (hc : ConesOk S.st.cones)
    (hw : WellSized S.st) (hq : WorkxSized S.st)
    (hsz : ∀ n, (presolveMap S.st.data).map (fun m => m.keep.size) = some n →
      S.solution.s.size ≤ n ∧ S.solution.z.size ≤ n)
    (hK : QW S.st.kktsystem.kktsolver r1.S.st.kktsystem.kktsolver) :
    ∃ r2, r1.S.solve st = .ok r2 ∧ SolveObs r1 r2 :=
  solve_twice_obs_any hbeq st h1 hc hw hq hsz hK

/-- [S] `C05.full_solve_idempotent_new_any_start`: the same for a solver object fresh from
`DefaultSolver::new` on well-formed input: what is left are the input hypotheses of `new`. -/
theorem full_solve_idempotent_new_any_start (hbeq : ((0 : α) == 0) = true) {P : Csc α} {q : Array α}
    {A : Csc α} {b : Array α} {cones : List (ConeT α)} {st : Solver.Settings α} {perm : Array Nat}
    (hin : InputOK P q A b cones) (hn : 0 < P.n) (hperm : PermFor P q A b cones st perm) {S : Solver α}
    (hS : Solver.new P q A b cones st perm = .ok S) {r1 : SolveResult α} (h1 : S.solve st = .ok r1)
    (hsz : ∀ n, (presolveMap S.st.data).map (fun m => m.keep.size) = some n →
      S.solution.s.size ≤ n ∧ S.solution.z.size ≤ n) :
    ∃ r2, r1.S.solve st = .ok r2 ∧ SolveObs r1 r2 :=
  have hf := full_new_solver_is_well_formed hS
  (full_solve_idempotent_any_start hbeq st h1 hf.1 hf.2.1 hf.2.2 (solverNew_kktOk hin hn hperm hS) hsz).1

end anyStart

/-! non-vacuity of the `…_any_start` theorems on the example problem (scalar type `Int`) -/
section anyStartExamples
open Clarabel.Solver.Example
attribute [local instance] intFloatLike

/-- `full_solve_reads_only_any_start` applies to the example solver and its poisoned copy (garbage in
every dead component — the iterate included) with no side condition -/
example (S : Solver Int) : RelM SolveObs (S.solve (st 3)) ((poison S).solve (st 3)) :=
  full_solve_reads_only_any_start (by decide) qdldl_kktSim (st 3) (stale_poison S) (solShape_poison _ S)

/-- `full_solve_iterate_dead`: any iterate of the same lengths -/
example (S : Solver Int) :
    RelM SolveObs (S.solve (st 3))
      (({ S with st := { S.st with «variables» :=
          { S.st.«variables» with x := junk S.st.«variables».x 7, τ := 5 } } } : Solver Int).solve (st 3)) :=
  full_solve_iterate_dead (by decide) (st 3) S _ ⟨junk_size _ _, rfl, rfl⟩

/-- the hypotheses of `full_solve_idempotent_new_any_start` hold on the example: well-formed input on
which `new` succeeds (the example has no presolver, so `hsz` is void) -/
example : InputOK P #[1] A #[1] ([.nonneg 1] : List (ConeT Int)) ∧ 0 < P.n ∧
    PermFor P #[1] A #[1] ([.nonneg 1] : List (ConeT Int)) (st 3) #[0, 1] ∧ ∃ S, newSolver 3 = .ok S := by
  obtain ⟨S, hS⟩ := exNew_ok
  exact ⟨exInputOK, by decide, exPermFor, S, hS⟩

end anyStartExamples

end Clarabel.C05
