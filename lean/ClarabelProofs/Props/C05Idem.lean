/-
  C05 — "the same solver solved twice", "a different LDL backend or thread count": what `solve()` may
  read of the mutable state of the solver object, as theorems about the FULL model
  (`ClarabelModel/Solver/*.lean`, tied bit for bit to `DefaultSolver::new` + `solve()` by the channels
  `solve.setup / solve.init / solve.full / solve.twice`).  Helper lemmas: `Lemmas/SolverStale*.lean`.

  ### The characterisation (relation `Solver.Stale`, `Lemmas/SolverStaleRel.lean`)

  Of the state a previous `solve()` (or anything else) left in the solver object, `solve()` reads
    (0) the problem data, the LENGTHS of all work vectors, the SHAPE of the cone objects
        (`Solver.SameShape` — preserved by `solve()` itself);
    (i) NOT the `info` block — neither the nine figures, `μ, σ, step_length, iterations, status`
        (`full_solve_info_irrelevant`) nor the six `prev_*` fields: `check_termination` reads them only
        under `iter > 1`, `reset_to_prev_iterate` only after an insufficient-progress verdict (which
        needs `iter > 1`), and by then `save_prev_iterate` of THIS solve has written them.  They only
        show in the private `prev_*` copies inside the first pass's `info` snapshot (`RecEqv`);
   (ii) two stale buffers through a multiplication by zero:
        `kktsystem.workx` as `0 · workx` (`solve_constant_rhs`: `workx.axpby(-1, q, 0)`), and
        `residuals.Px`   as `Px · 0`    (`residuals.update`: `symv(Px, x, 1, 0)` starts with `y.scale(0)`).
        (`residuals.rx_inf` is NOT of this kind: `gemv` with `b = 0` fills with zero — needs only
        `0 == 0`, hypothesis `hbeq`.)  Over a field both products are `0` and the buffers are dead
        (`full_solve_stale_field`).  At `Float`: `0 · v` is `NaN` for a non-finite `v`, and `+0` / `−0`
        according to the sign bit of a finite `v`; in `a·x + 0·v` the signed zero is absorbed unless
        `a·x` is itself a zero, where `(−0) + (−0) = −0` but `(−0) + (+0) = +0`.  So a finite stale
        buffer can only show as the sign of a zero entry of `−q` resp. `P·x`; the theorems below state
        the sufficient condition "same `0 · v` entrywise" (`zmulL`, `zmulR`) — for a freshly built
        solver (buffers `+0`) that is: the stale entries are finite with sign bit `+`;
  (iii) the stale ITERATE, only when `solve_initial_point` fails (`default_start` does not check its
        result and shifts whatever is in `variables` into the cone): hypothesis `InitPointOk`;
   (iv) the linear solver object through `update` / `setrhs`+`solve` only (`KktSim`): two objects that
        answer these calls alike are indistinguishable — `max_threads` and `direct_solve_method` are
        not even fields of the model's `Settings`, they live behind that interface
        (`full_solve_linear_solver_only`).  For the QDLDL object of the model the simulation is
        proved (`qdldl_kktSim`: the content of its work vectors `x, b, work1, work2` is dead), up to
        one fact that is NOT derived here and stays an explicit hypothesis `QW`: that
        `KKTSolver::update` rewrites every numeric entry a previous solve changed (KKT values at the
        `Hs`/sparse-cone positions, the permuted copy, `L, D, D⁻¹` — C11 `update_*`, C12
        `refactor_eq_fresh`).
  Everything else — iterate (given (iii)), residuals, `step_lhs`, `step_rhs`, `prev_vars`, cone scalings
  `w, λ, η, u, v, d`, `x1, z1, x2, z2, workz, work_conic`, the `solution` object — is dead.
-/
import ClarabelProofs.Lemmas.SolverStaleIdem
import ClarabelProofs.Lemmas.SolverStaleExample

namespace Clarabel.C05
open Clarabel Clarabel.Solver
open Clarabel.Info (InfoS)

set_option linter.unusedSectionVars false

section stale
variable {α : Type} [Add α] [Sub α] [Mul α] [Div α] [Neg α] [OfNat α 0] [OfNat α 1] [OfNat α 2]
  [OfNat α 100] [OfNat α 1000] [LT α] [DecidableLT α] [LE α] [DecidableLE α] [BEq α] [FloatLike α]

/-- [S] `C05.full_solve_reads_only`: **what `solve()` may read of the mutable state.**  Two solver
objects related by `Stale` (same data, same vector lengths and cone shapes, the same `0·workx` and
`Px·0`, linear-solver objects related by a simulation `(Bw, Bs)`) whose `solution` objects have the
same lengths, and such that `solve_initial_point` succeeds (or the incoming iterates agree): `solve()`
fails with the same error on both, or succeeds on both with the same `solution`, the same trajectory
(every pass record: iterate, `μ, σ, α`, the nine `info` figures, verdicts, `α_aff`, … — up to the private
`prev_*` copies), the same final iterate and `info` block. -/
theorem full_solve_reads_only (hbeq : ((0 : α) == 0) = true) {Bw Bs : KktSolver α → KktSolver α → Prop}
    (hsim : KktSim Bw Bs) (st : Solver.Settings α) {S S' : Solver α} (h : Stale Bw S.st S'.st)
    (hsol : SolShape ((presolveMap S.st.data).map (fun m => m.keep.size)) S.solution S'.solution)
    (hinit : InitPointOk (resetInfo S.st) st ∨ VarsXSZ S.st.variables S'.st.variables) :
    RelM SolveObs (S.solve st) (S'.solve st) :=
  solve_rel hbeq hsim st h hsol hinit

/-- [S] `C05.full_solve_linear_solver_only` (threads / backends): the model's `solve()` uses the linear
solver object only through `update` and `setrhs`+`solve`.  Replace the object by ANY other one that
answers these calls alike (a bisimulation `B`: e.g. the same factorisation computed with another
thread count, or another engine returning the same solves): same error or same `solution`,
trajectory, final iterate and figures.  (`max_threads`, `direct_solve_method` are not fields of
`Solver.Settings`: they cannot enter in any other way.) -/
theorem full_solve_linear_solver_only (hbeq : ((0 : α) == 0) = true) {B : KktSolver α → KktSolver α → Prop}
    (hsim : KktSim B B) (st : Solver.Settings α) (S : Solver α) (K' : KktSolver α)
    (hB : B S.st.kktsystem.kktsolver K') :
    RelM SolveObs (S.solve st)
      (({ S with st := { S.st with kktsystem := { S.st.kktsystem with kktsolver := K' } } } : Solver α).solve st) :=
  solve_rel hbeq hsim st (Stale.swapSolver S.st K' hB) (SolShape.rfl' _ _) (Or.inr ⟨rfl, rfl, rfl⟩)

/-- [S] `C05.full_solve_info_block_dead` (connects `solve_is_function_of_data` / `full_solve_info_irrelevant`
to the six `prev_*` fields): replace the WHOLE `info` block of a solver object — the nine figures, `μ`,
`σ`, `step_length`, `iterations`, `status` AND `prev_*` — by anything: `solve()` gives the same
observable result.  (`prev_*` are read only under `iter > 1`, after `save_prev_iterate` of this solve.) -/
theorem full_solve_info_block_dead (hbeq : ((0 : α) == 0) = true) (st : Solver.Settings α) (S : Solver α)
    (i : InfoS α) (a b c : α) :
    RelM SolveObs (S.solve st) (({ S with st := withInfo S.st i a b c } : Solver α).solve st) :=
  solve_rel hbeq qdldl_kktSim st
    { data := rfl, variables := VarsShape.of_eq rfl, residuals := ResidShape.of_eq rfl,
      kktsystem := ⟨QW.rfl' _, rfl, rfl, rfl, rfl, rfl, rfl, SameFrom.rfl' _ _⟩,
      cones := ConesShape.rfl' _, stepLhs := StepShape.of_eq rfl, stepRhs := StepShape.of_eq rfl,
      prevVars := VarsShape.of_eq rfl }
    (SolShape.rfl' _ _) (Or.inr ⟨rfl, rfl, rfl⟩)

/-- [S] `C05.full_solve_stale_qdldl`: the same for the concrete linear solver of the model (QDLDL):
given the structural facts (`SameShape`, `WellSized`: lengths and shapes, which `solve()` preserves),
the two `0 · stale` conditions of (ii), (iii), and the hypothesis `QW` of (iv) on the two KKT solver
objects, `solve()` cannot tell the two solver objects apart. -/
theorem full_solve_stale_qdldl (hbeq : ((0 : α) == 0) = true) (st : Solver.Settings α) {S S' : Solver α}
    (hsh : SameShape S.st S'.st) (hw : WellSized S.st)
    (hK : QW S.st.kktsystem.kktsolver S'.st.kktsystem.kktsolver)
    (hPx : zmulR S.st.residuals.Px = zmulR S'.st.residuals.Px)
    (hwx : zmulL S.st.kktsystem.workx = zmulL S'.st.kktsystem.workx)
    (hsol : SolShape ((presolveMap S.st.data).map (fun m => m.keep.size)) S.solution S'.solution)
    (hinit : InitPointOk (resetInfo S.st) st ∨ VarsXSZ S.st.variables S'.st.variables) :
    RelM SolveObs (S.solve st) (S'.solve st) :=
  solve_rel hbeq qdldl_kktSim st (Stale.of_sameShape hsh hw hK hPx hwx) hsol hinit

/-- [F] `C05.full_solve_stale_field`: over a ring/field (`0·a = 0 = a·0`) the two buffers of (ii) are
dead as well: only lengths and shapes, (iii) and (iv) remain. -/
theorem full_solve_stale_field (hbeq : ((0 : α) == 0) = true) (h0l : ∀ a : α, 0 * a = 0) (h0r : ∀ a : α, a * 0 = 0)
    (st : Solver.Settings α) {S S' : Solver α} (hsh : SameShape S.st S'.st) (hw : WellSized S.st)
    (hK : QW S.st.kktsystem.kktsolver S'.st.kktsystem.kktsolver)
    (hsol : SolShape ((presolveMap S.st.data).map (fun m => m.keep.size)) S.solution S'.solution)
    (hinit : InitPointOk (resetInfo S.st) st ∨ VarsXSZ S.st.variables S'.st.variables) :
    RelM SolveObs (S.solve st) (S'.solve st) :=
  full_solve_stale_qdldl hbeq st hsh hw hK (zmulR_of_size h0r hsh.Px) (zmulL_of_size h0l hsh.workx) hsol hinit

/-- [S] `C05.full_solve_idempotent_finite_partial`: **the same solver solved twice.**  If the first
`solve()` on a solver object returned `r1`, then the second `solve()` on the object it left returns
the same observable result — the same `solution` (status, `x, s, z`, objectives, iterations,
residuals), the same trajectory pass by pass, the same final iterate and `info` figures — provided
  (ii)  the first solve left "finite state" in the two buffers that are read through a multiplication
        by zero, in the exact form: `Px·0` and `0·workx` are entrywise the same before and after (at
        `Float`: the entries left there are finite and carry the sign bit of the ones that were there
        before — `+0` in a new solver; a sign flip can only turn a `+0` entry of `−q` / `P·x` into `−0`);
  (iii) `solve_initial_point` succeeds (otherwise the iterate of the first solve is the start of the second);
  (iv)  `QW`: `KKTSolver::update` rewrites every numeric entry of the linear solver object that the
        first solve changed.
`ConesOk`, `WellSized` and `hsz` are structural facts about the object (every object built by
`DefaultSolver::new` has them: `solverNew_frame`; `solve()` preserves them, so the theorem chains to
a third, fourth … call).
FULL STATEMENT (`full_solve_idempotent_finite`), not proved: the same without hypothesis (iv).  (iv) is
a statement about `KKTSolver::update` alone (C11 `update_*`: every non-`P`/`A` entry of the KKT matrix
and of the engine's permuted copy is rewritten; C12 `refactor_eq_fresh`: `L, D, D⁻¹` do not depend on
the previous factors); its derivation needs the well-formedness invariants of the QDLDL workspace
carried through a whole solve.  It is checked on the implementation by the `update-does-not-forget`
oracle of channel `meta.repeat`. -/
theorem full_solve_idempotent_finite_partial (hbeq : ((0 : α) == 0) = true) (st : Solver.Settings α) {S : Solver α}
    {r1 : SolveResult α} (h1 : S.solve st = .ok r1) (hc : ConesOk S.st.cones) (hw : WellSized S.st)
    (hsz : ∀ n, (presolveMap S.st.data).map (fun m => m.keep.size) = some n →
      S.solution.s.size ≤ n ∧ S.solution.z.size ≤ n)
    (hPx : zmulR S.st.residuals.Px = zmulR r1.S.st.residuals.Px)
    (hwx : zmulL S.st.kktsystem.workx = zmulL r1.S.st.kktsystem.workx)
    (hinit : InitPointOk (resetInfo S.st) st)
    (hK : QW S.st.kktsystem.kktsolver r1.S.st.kktsystem.kktsolver) :
    (∃ r2, r1.S.solve st = .ok r2 ∧ SolveObs r1 r2)
      ∧ ConesOk r1.S.st.cones ∧ WellSized r1.S.st :=
  ⟨solve_twice_obs hbeq st h1 hc hw hsz hK hPx hwx hinit, solve_conesOk h1 hc, solve_wellSized h1 hc hw⟩

/-- [F] `C05.full_solve_idempotent_field_partial`: over a ring/field (`0·a = 0 = a·0`) condition (ii) is
void: the second solve gives the result of the first given (iii) and (iv) only. -/
theorem full_solve_idempotent_field_partial (hbeq : ((0 : α) == 0) = true) (h0l : ∀ a : α, 0 * a = 0)
    (h0r : ∀ a : α, a * 0 = 0) (st : Solver.Settings α) {S : Solver α}
    {r1 : SolveResult α} (h1 : S.solve st = .ok r1) (hc : ConesOk S.st.cones) (hw : WellSized S.st)
    (hsz : ∀ n, (presolveMap S.st.data).map (fun m => m.keep.size) = some n →
      S.solution.s.size ≤ n ∧ S.solution.z.size ≤ n)
    (hinit : InitPointOk (resetInfo S.st) st)
    (hK : QW S.st.kktsystem.kktsolver r1.S.st.kktsystem.kktsolver) :
    ∃ r2, r1.S.solve st = .ok r2 ∧ SolveObs r1 r2 :=
  have hsh := solve_sameShape h1 hc
  solve_twice_obs hbeq st h1 hc hw hsz hK (zmulR_of_size h0r hsh.Px) (zmulL_of_size h0l hsh.workx) hinit

/-- [S] `C05.full_new_solver_is_well_formed`: the structural hypotheses of the two theorems above hold
for every solver object built by `DefaultSolver::new`. -/
theorem full_new_solver_is_well_formed {P : Csc α} {q : Array α} {A : Csc α} {b : Array α}
    {cones : List (ConeT α)} {st : Solver.Settings α} {perm : Array Nat} {S : Solver α}
    (h : Solver.new P q A b cones st perm = .ok S) : ConesOk S.st.cones ∧ WellSized S.st :=
  solverNew_frame h

end stale

/-! non-vacuity: for every solver object `S`, `poison S` (garbage in every dead component, scalar type
`Int`) is `Stale`-related to `S` (`Lemmas/SolverStaleExample.lean`); on the example problem
`solve_initial_point` succeeds (kernel evaluation) -/
section staleExamples
open Clarabel.Solver.Example
attribute [local instance] intFloatLike

/-- `full_solve_reads_only` applies: the poisoned copy of the example solver solves exactly like the
fresh one -/
example {S : Solver Int} (h : newSolver 3 = .ok S) : RelM SolveObs (S.solve (st 3)) ((poison S).solve (st 3)) :=
  full_solve_reads_only (by decide) qdldl_kktSim (st 3) (stale_poison S) (solShape_poison _ S)
    (Or.inl (example_initPointOk h))

/-- `QB` (same QDLDL object up to the content of `x, b, work1, work2`) is a bisimulation, so
`full_solve_linear_solver_only` applies to it -/
example (S : Solver Int) :
    RelM SolveObs (S.solve (st 3))
      (({ S with st := { S.st with kktsystem := { S.st.kktsystem with kktsolver :=
          { S.st.kktsystem.kktsolver with x := junk S.st.kktsystem.kktsolver.x 5,
                                          work2 := junk S.st.kktsystem.kktsolver.work2 6 } } } } : Solver Int).solve (st 3)) :=
  full_solve_linear_solver_only (by decide)
    ⟨fun c s h => h.update c s, fun h => h, qdldl_kktSim.solve⟩ (st 3) S _
    (QB.set _ (junk_size _ _) rfl rfl (junk_size _ _))

/-- the hypotheses of `full_solve_idempotent_finite_partial` on the example: `DefaultSolver::new` succeeds
(`run3`), the object it builds is well formed, `solve_initial_point` succeeds on it, no presolver (so
`hsz` is void); hypothesis (iv) `QW` holds between any two objects that differ in the content of the
four work vectors (`QB.toQW`) — its instance "before / after a solve" is the fact that is not derived -/
example {S : Solver Int} (h : newSolver 3 = .ok S) :
    (ConesOk S.st.cones ∧ WellSized S.st) ∧ InitPointOk (resetInfo S.st) (st 3)
      ∧ QW S.st.kktsystem.kktsolver { S.st.kktsystem.kktsolver with b := junk S.st.kktsystem.kktsolver.b 3 } :=
  ⟨full_new_solver_is_well_formed h, example_initPointOk h,
    (QB.set _ rfl (junk_size _ _) rfl rfl).toQW⟩

/-- the scalar hypotheses of `full_solve_stale_field` / `full_solve_idempotent_field_partial` at `Int` -/
example : (((0 : Int) == 0) = true) ∧ (∀ a : Int, 0 * a = 0) ∧ (∀ a : Int, a * 0 = 0) :=
  ⟨by decide, Int.zero_mul, Int.mul_zero⟩

end staleExamples

end Clarabel.C05
